import Gaftools.Proofs.BiccLemmas
namespace Gaftools.Proofs.Bicc2
open Gaftools.Gfa Gaftools.Algo Gaftools.Spec.Graph Gaftools.Proofs.Algo Gaftools.Proofs.Bicc

/-! ## list helpers -/

theorem getElem?_append_single {α : Type} {l : List α} {x e : α} {i : Nat} (h : (l ++ [x])[i]? = some e) :
    (i < l.length ∧ l[i]? = some e) ∨ (i = l.length ∧ e = x) := by
  by_cases hi : i < l.length
  · rw [List.getElem?_append_left hi] at h; exact Or.inl ⟨hi, h⟩
  · rw [List.getElem?_append_right (by omega)] at h
    right
    have : i - l.length = 0 := by
      apply Decidable.byContradiction
      intro hne
      have : ([x] : List α)[i - l.length]? = none := by
        apply List.getElem?_eq_none; simp; omega
      rw [this] at h; simp at h
    rw [this] at h
    simp at h
    exact ⟨by omega, h.symm⟩

theorem getElem?_append_old {α : Type} {l : List α} {x e : α} {i : Nat} (h : l[i]? = some e) :
    (l ++ [x])[i]? = some e := by
  have hi : i < l.length := by
    apply Decidable.byContradiction
    intro hn
    rw [List.getElem?_eq_none (by omega)] at h; simp at h
  rw [List.getElem?_append_left hi]; exact h

theorem getElem?_lt {α : Type} {l : List α} {e : α} {i : Nat} (h : l[i]? = some e) : i < l.length := by
  apply Decidable.byContradiction
  intro hn
  rw [List.getElem?_eq_none (by omega)] at h; simp at h

theorem getElem?_take_some {α : Type} {l : List α} {e : α} {n i : Nat} (h : (l.take n)[i]? = some e) :
    i < n ∧ l[i]? = some e := by
  rw [List.getElem?_take] at h
  split at h
  · next hi => exact ⟨hi, h⟩
  · simp at h

theorem getElem?_take_of_lt {α : Type} {l : List α} {e : α} {n i : Nat} (hi : i < n) (h : l[i]? = some e) :
    (l.take n)[i]? = some e := by
  rw [List.getElem?_take, if_pos hi]; exact h

theorem mem_of_getElem? {α : Type} {l : List α} {e : α} {i : Nat} (h : l[i]? = some e) : e ∈ l :=
  List.mem_of_getElem? h

theorem mem_drop_iff {α : Type} {l : List α} {e : α} {k : Nat} : e ∈ l.drop k ↔ ∃ i, k ≤ i ∧ l[i]? = some e := by
  constructor
  · intro h
    obtain ⟨i, hi⟩ := List.mem_iff_getElem?.mp h
    rw [List.getElem?_drop] at hi
    exact ⟨k + i, by omega, hi⟩
  · rintro ⟨i, hki, hi⟩
    apply List.mem_iff_getElem?.mpr
    refine ⟨i - k, ?_⟩
    rw [List.getElem?_drop]
    have : k + (i - k) = i := by omega
    rw [this]; exact hi

theorem mem_take_iff {α : Type} {l : List α} {e : α} {k : Nat} : e ∈ l.take k ↔ ∃ i, i < k ∧ l[i]? = some e := by
  constructor
  · intro h
    obtain ⟨i, hi⟩ := List.mem_iff_getElem?.mp h
    exact ⟨i, getElem?_take_some hi⟩
  · rintro ⟨i, hki, hi⟩
    exact List.mem_iff_getElem?.mpr ⟨i, getElem?_take_of_lt hki hi⟩

/-! ## nodesOf -/

theorem mem_nodesOf_iff {es : List (V × V)} {v : V} : v ∈ nodesOf es ↔ ∃ e ∈ es, v = e.1 ∨ v = e.2 := by
  unfold nodesOf
  rw [List.mem_eraseDups, List.mem_flatMap]
  constructor
  · rintro ⟨e, he, hv⟩; exact ⟨e, he, by simpa using hv⟩
  · rintro ⟨e, he, hv⟩; exact ⟨e, he, by simpa using hv⟩

/-! ## positions -/

/-- position recorded for an edge in `edge_stack_loc` -/
def Pos (loc : List ((V × V) × Nat)) (e : V × V) : Nat := (lookup e loc).getD 0

theorem Pos_setKV (k e : V × V) (n : Nat) (loc : List ((V × V) × Nat)) :
    Pos (setKV k n loc) e = if e = k then n else Pos loc e := by
  unfold Pos
  rw [lookup_setKV]
  split <;> rfl


/-! ## the edge-stack discipline -/

structure ES (nb : V → List V) (root : V) (s : BSt) : Prop where
  real : ∀ e ∈ s.estack, e.1 ∈ s.visited ∧ e.2 ∈ s.visited ∧ e.2 ∈ nb e.1
  tree : ∀ g ∈ spine s.stack, g.2 ≠ g.1 → s.estack[Pos s.loc g]? = some g
  below : ∀ g ∈ spine s.stack, g.2 ≠ g.1 → ∀ i e, i < Pos s.loc g → s.estack[i]? = some e →
    D s.disc e.1 < D s.disc g.2 ∧ D s.disc e.2 < D s.disc g.2
  above : ∀ g ∈ spine s.stack, g.2 ≠ g.1 → ∀ i e, Pos s.loc g < i → s.estack[i]? = some e →
    D s.disc g.2 ≤ D s.disc e.1
  loop : ∀ g ∈ spine s.stack, g.2 ≠ g.1 → ∀ i u, Pos s.loc g ≤ i → s.estack[i]? = some (u, u) →
    ∃ j q, Pos s.loc g ≤ j ∧ j < i ∧ q ≠ u ∧ s.estack[j]? = some (q, u)
  bot0 : s.stack.length ≤ 1 → s.estack = []
  bot1 : ∀ g ∈ spine s.stack, g.2 ≠ g.1 → g.1 = root → Pos s.loc g = 0

theorem es_init (nb : V → List V) (root : V) : ES nb root (init nb root) := by
  constructor
  · intro e he; simp [init] at he
  all_goals first
    | (intro g hg hne; simp [init] at hg; subst hg; exact absurd rfl hne)
    | (intro _; rfl)

/-- positions increase towards the top of the stack -/
theorem pos_lt {nb : V → List V} {root : V} {s : BSt} (hE : ES nb root s) {g g' : V × V}
    (hg : g ∈ spine s.stack) (hg' : g' ∈ spine s.stack) (hn : g.2 ≠ g.1) (hn' : g'.2 ≠ g'.1)
    (hlt : D s.disc g.2 < D s.disc g'.2) : Pos s.loc g < Pos s.loc g' := by
  rcases Nat.lt_trichotomy (Pos s.loc g) (Pos s.loc g') with h | h | h
  · exact h
  · exfalso
    have h1 := hE.tree g hg hn
    have h2 := hE.tree g' hg' hn'
    rw [h] at h1; rw [h1] at h2
    have : g = g' := Option.some.inj h2
    rw [this] at hlt; omega
  · exfalso
    have := (hE.below g hg hn _ _ h (hE.tree g' hg' hn')).2
    omega

theorem es_congr {nb : V → List V} {root : V} {s s' : BSt} (hv : s'.visited = s.visited) (hd : s'.disc = s.disc)
    (he : s'.estack = s.estack) (hl : s'.loc = s.loc) (hsp : spine s'.stack = spine s.stack)
    (hlen : s'.stack.length = s.stack.length) (h : ES nb root s) : ES nb root s' := by
  constructor
  · rw [he, hv]; exact h.real
  · rw [he, hl, hsp]; exact h.tree
  · rw [he, hl, hsp, hd]; exact h.below
  · rw [he, hl, hsp, hd]; exact h.above
  · rw [he, hl, hsp]; exact h.loop
  · rw [he, hlen]; exact h.bot0
  · rw [hl, hsp]; exact h.bot1

/-- popping a frame without touching the edge stack -/
theorem es_pop {nb : V → List V} {root : V} {s s' : BSt} {f : Frame} {rest : List Frame} (hs : s.stack = f :: rest)
    (hv : s'.visited = s.visited) (hd : s'.disc = s.disc)
    (he : s'.estack = s.estack) (hl : s'.loc = s.loc) (hst : s'.stack = rest)
    (hlen : rest.length ≤ 1 → rest = []) (h : ES nb root s) : ES nb root s' := by
  have hsub : ∀ g ∈ spine s'.stack, g ∈ spine s.stack := by
    intro g hg; rw [hs, spine_cons]; rw [hst] at hg; exact List.mem_cons_of_mem _ hg
  constructor
  · rw [he, hv]; exact h.real
  · rw [he, hl]; exact fun g hg => h.tree g (hsub g hg)
  · rw [he, hl, hd]; exact fun g hg => h.below g (hsub g hg)
  · rw [he, hl, hd]; exact fun g hg => h.above g (hsub g hg)
  · rw [he, hl]; exact fun g hg => h.loop g (hsub g hg)
  · rw [he, hst]; intro hle
    apply h.bot0
    rw [hs, hlen hle]; simp
  · rw [hl]; exact fun g hg => h.bot1 g (hsub g hg)

/-- popping a frame and cutting the edge stack at the frame's tree edge -/
theorem es_cut {nb : V → List V} {root : V} {s s' : BSt} {f : Frame} {rest : List Frame} (hs : s.stack = f :: rest)
    (h4 : Inv4 root s) (hrne : rest ≠ [])
    (hv : s'.visited = s.visited) (hd : s'.disc = s.disc)
    (he : s'.estack = s.estack.take (Pos s.loc (f.parent, f.child))) (hl : s'.loc = s.loc) (hst : s'.stack = rest)
    (h : ES nb root s) : ES nb root s' := by
  have hso := h4.sorted; have hch := h4.chain
  rw [hs, spine_cons] at hso hch
  have hsrne : spine rest ≠ [] := by intro h'; simp [spine] at h'; exact hrne h'
  have hpc := parent_lt_child hso hch hsrne
  simp only [] at hpc
  have hfn : (f.parent, f.child).2 ≠ (f.parent, f.child).1 := by
    simp only []; intro he'; rw [he'] at hpc; omega
  have hfm : (f.parent, f.child) ∈ spine s.stack := by rw [hs]; simp
  have hsub : ∀ g ∈ spine s'.stack, g ∈ spine s.stack := by
    intro g hg; rw [hs, spine_cons]; rw [hst] at hg; exact List.mem_cons_of_mem _ hg
  have hpos : ∀ g ∈ spine s'.stack, g.2 ≠ g.1 → Pos s.loc g < Pos s.loc (f.parent, f.child) := by
    intro g hg hn
    apply pos_lt h (hsub g hg) hfm hn hfn
    rw [hst] at hg
    exact sorted_head hso g hg
  constructor
  · rw [he, hv]; exact fun e he' => h.real e (List.mem_of_mem_take he')
  · rw [he, hl]; intro g hg hn
    exact getElem?_take_of_lt (hpos g hg hn) (h.tree g (hsub g hg) hn)
  · rw [he, hl, hd]; intro g hg hn i e hi hie
    exact h.below g (hsub g hg) hn i e hi (getElem?_take_some hie).2
  · rw [he, hl, hd]; intro g hg hn i e hi hie
    exact h.above g (hsub g hg) hn i e hi (getElem?_take_some hie).2
  · rw [he, hl]; intro g hg hn i u hi hie
    obtain ⟨hik, hie'⟩ := getElem?_take_some hie
    obtain ⟨j, q, h1, h2, h3, h4'⟩ := h.loop g (hsub g hg) hn i u hi hie'
    exact ⟨j, q, h1, h2, h3, getElem?_take_of_lt (by omega) h4'⟩
  · rw [he, hst]; intro hle
    have hlen1 : (spine rest).length = 1 := by
      cases rest with
      | nil => exact absurd rfl hrne
      | cons g r => simp [spine] at hle ⊢; exact hle
    have hproot : f.parent = root := parent_root hch hlen1
    have := h.bot1 _ hfm hfn hproot
    rw [this]; rfl
  · rw [hl]; exact fun g hg => h.bot1 g (hsub g hg)

/-- a visited neighbour with a discovery number not above the top child's: the top frame is not the root frame -/
theorem back_nonroot {nb : V → List V} {Vs : List V} {root : V} {s : BSt} (h1 : Inv1 nb Vs s) (h4 : Inv4 root s)
    {f : Frame} {rest : List Frame} (hs : s.stack = f :: rest) {nn : V} (hp : nn ≠ f.parent) (hv : nn ∈ s.visited)
    (hle : D s.disc nn ≤ D s.disc f.child) : f.child ≠ f.parent ∧ rest ≠ [] := by
  have hfm : (f.parent, f.child) ∈ spine s.stack := by rw [hs]; simp
  have hne : f.child ≠ f.parent := by
    intro he
    rcases frame_cases _ h4.sorted h4.chain _ hfm with h | h
    · simp only [] at h
      have hd : D s.disc nn = D s.disc root := by rw [h.2, h4.droot] at hle; rw [h4.droot]; omega
      have hroot : root ∈ s.visited := by rw [← h.1]; exact h1.parent f (by simp [hs])
      have := h4.inj nn hv root hroot hd
      exact hp (this.trans h.1.symm)
    · simp only [] at h; rw [he] at h; omega
  refine ⟨hne, ?_⟩
  intro hr
  have hch := h4.chain
  rw [hs, hr] at hch
  simp [spine, Chain] at hch
  exact hne (hch.2.trans hch.1.symm)

theorem es_back {nb : V → List V} {Vs : List V} {root : V} {s s' : BSt} (h1 : Inv1 nb Vs s) (h4 : Inv4 root s)
    {f : Frame} {rest : List Frame} (hs : s.stack = f :: rest) {nn : V}
    (hlt : f.ptr < f.nbrs.length) (hnn : nn = f.nbrs.getD f.ptr "")
    (hp : nn ≠ f.parent) (hvis : nn ∈ s.visited)
    (hle : D s.disc nn ≤ D s.disc f.child)
    (hv : s'.visited = s.visited) (hd : s'.disc = s.disc)
    (he : s'.estack = s.estack ++ [(f.child, nn)]) (hl : s'.loc = setKV (f.child, nn) s.estack.length s.loc)
    (hst : s'.stack = adv f :: rest)
    (h : ES nb root s) : ES nb root s' := by
  obtain ⟨hfne, hrne⟩ := back_nonroot h1 h4 hs hp hvis hle
  have hso := h4.sorted
  have hfc := frame_cases _ h4.sorted h4.chain
  have hsp : spine s'.stack = spine s.stack := by rw [hst, hs, spine_adv]
  have hfm : (f.parent, f.child) ∈ spine s.stack := by rw [hs]; simp
  have hfn : (f.parent, f.child).2 ≠ (f.parent, f.child).1 := hfne
  have hcv : f.child ∈ s.visited := h1.child f (by simp [hs])
  have hmem : nn ∈ nb f.child := by
    rw [← h1.nbrs f (by simp [hs]), hnn]; exact getD_mem hlt
  have hkey : ∀ g ∈ spine s.stack, g.2 ≠ g.1 → g ≠ (f.child, nn) := by
    intro g hg hn heq
    rcases hfc g hg with h' | h'
    · exact hn (h'.2.trans h'.1.symm)
    · rw [heq] at h'; simp only [] at h'; omega
  have hpe : ∀ g ∈ spine s.stack, g.2 ≠ g.1 → Pos s'.loc g = Pos s.loc g := by
    intro g hg hn; rw [hl, Pos_setKV, if_neg (hkey g hg hn)]
  have hplt : ∀ g ∈ spine s.stack, g.2 ≠ g.1 → Pos s.loc g < s.estack.length :=
    fun g hg hn => getElem?_lt (h.tree g hg hn)
  have hdle : ∀ g ∈ spine s.stack, D s.disc g.2 ≤ D s.disc f.child := by
    intro g hg
    rw [hs, spine_cons] at hg hso
    rcases List.mem_cons.mp hg with hg | hg
    · rw [hg]; exact Nat.le_refl _
    · exact Nat.le_of_lt (sorted_head hso g hg)
  have hple : ∀ g ∈ spine s.stack, g.2 ≠ g.1 → Pos s.loc g ≤ Pos s.loc (f.parent, f.child) := by
    intro g hg hn
    by_cases hgf : g = (f.parent, f.child)
    · rw [hgf]; exact Nat.le_refl _
    · apply Nat.le_of_lt
      apply pos_lt h hg hfm hn hfn
      rw [hs, spine_cons] at hg hso
      rcases List.mem_cons.mp hg with hg | hg
      · exact absurd hg hgf
      · exact sorted_head hso g hg
  constructor
  · rw [he, hv]; intro e hmem'
    rcases List.mem_append.mp hmem' with h' | h'
    · exact h.real e h'
    · simp at h'; rw [h']; exact ⟨hcv, hvis, hmem⟩
  · rw [hsp, he]; intro g hg hn
    rw [hpe g hg hn]; exact getElem?_append_old (h.tree g hg hn)
  · rw [hsp, he, hd]; intro g hg hn i e hi hie
    rw [hpe g hg hn] at hi
    rcases getElem?_append_single hie with ⟨_, h'⟩ | ⟨h', _⟩
    · exact h.below g hg hn i e hi h'
    · have := hplt g hg hn; omega
  · rw [hsp, he, hd]; intro g hg hn i e hi hie
    rw [hpe g hg hn] at hi
    rcases getElem?_append_single hie with ⟨_, h'⟩ | ⟨_, h'⟩
    · exact h.above g hg hn i e hi h'
    · rw [h']; exact hdle g hg
  · rw [hsp, he]; intro g hg hn i u hi hie
    rw [hpe g hg hn] at hi ⊢
    rcases getElem?_append_single hie with ⟨_, h'⟩ | ⟨hi', h'⟩
    · obtain ⟨j, q, h1', h2', h3', h4'⟩ := h.loop g hg hn i u hi h'
      exact ⟨j, q, h1', h2', h3', getElem?_append_old h4'⟩
    · have hu1 : u = f.child := (Prod.mk.inj h').1
      refine ⟨Pos s.loc (f.parent, f.child), f.parent, hple g hg hn, ?_, ?_, ?_⟩
      · rw [hi']; exact hplt _ hfm hfn
      · rw [hu1]; exact fun h'' => hfne h''.symm
      · rw [hu1]; exact getElem?_append_old (h.tree _ hfm hfn)
  · rw [hst]; intro hlen
    cases rest with
    | nil => exact absurd rfl hrne
    | cons g r => simp at hlen
  · rw [hsp]; intro g hg hn hr
    rw [hpe g hg hn]; exact h.bot1 g hg hn hr

theorem es_push {nb : V → List V} {Vs : List V} {root : V} {s s' : BSt} (h1 : Inv1 nb Vs s) (h4 : Inv4 root s)
    {f : Frame} {rest : List Frame} (hs : s.stack = f :: rest) {nn : V}
    (hlt : f.ptr < f.nbrs.length) (hnn : nn = f.nbrs.getD f.ptr "")
    (hvis : nn ∉ s.visited)
    (hv : s'.visited = nn :: s.visited) (hd : s'.disc = setKV nn s.disc.length s.disc)
    (he : s'.estack = s.estack ++ [(f.child, nn)]) (hl : s'.loc = setKV (f.child, nn) s.estack.length s.loc)
    (hst : s'.stack = ⟨f.child, nn, 0, nb nn⟩ :: adv f :: rest)
    (h : ES nb root s) : ES nb root s' := by
  have hso := h4.sorted
  have hsc := spine_child h1
  have hsp : spine s'.stack = (f.child, nn) :: spine s.stack := by rw [hst, hs]; rfl
  have hcv : f.child ∈ s.visited := h1.child f (by simp [hs])
  have hmem : nn ∈ nb f.child := by
    rw [← h1.nbrs f (by simp [hs]), hnn]; exact getD_mem hlt
  have hne : ∀ v ∈ s.visited, v ≠ nn := fun v hv' he' => hvis (he' ▸ hv')
  have hDv : ∀ v ∈ s.visited, D s'.disc v = D s.disc v := by
    intro v hv'; rw [hd, D_setKV, if_neg (hne v hv')]
  have hDn : D s'.disc nn = s.disc.length := by rw [hd, D_setKV, if_pos rfl]
  have hkey : ∀ g ∈ spine s.stack, g ≠ (f.child, nn) := by
    intro g hg heq
    have := (hsc g hg).1
    rw [heq] at this; exact hvis this
  have hpe : ∀ g ∈ spine s.stack, Pos s'.loc g = Pos s.loc g := by
    intro g hg; rw [hl, Pos_setKV, if_neg (hkey g hg)]
  have hpn : Pos s'.loc (f.child, nn) = s.estack.length := by rw [hl, Pos_setKV, if_pos rfl]
  have hplt : ∀ g ∈ spine s.stack, g.2 ≠ g.1 → Pos s.loc g < s.estack.length :=
    fun g hg hn => getElem?_lt (h.tree g hg hn)
  have hdle : ∀ g ∈ spine s.stack, D s.disc g.2 ≤ D s.disc f.child := by
    intro g hg
    rw [hs, spine_cons] at hg hso
    rcases List.mem_cons.mp hg with hg | hg
    · rw [hg]; exact Nat.le_refl _
    · exact Nat.le_of_lt (sorted_head hso g hg)
  have hlast : (s.estack ++ [(f.child, nn)])[s.estack.length]? = some (f.child, nn) := by
    rw [List.getElem?_append_right (Nat.le_refl _)]; simp
  constructor
  · rw [he, hv]; intro e hmem'
    rcases List.mem_append.mp hmem' with h' | h'
    · obtain ⟨a, b, c⟩ := h.real e h'
      exact ⟨List.mem_cons_of_mem _ a, List.mem_cons_of_mem _ b, c⟩
    · simp at h'; rw [h']; exact ⟨List.mem_cons_of_mem _ hcv, by simp, hmem⟩
  · rw [hsp, he]; intro g hg hn
    rcases List.mem_cons.mp hg with hg | hg
    · rw [hg, hpn]; exact hlast
    · rw [hpe g hg]; exact getElem?_append_old (h.tree g hg hn)
  · rw [hsp, he]; intro g hg hn i e hi hie
    rcases List.mem_cons.mp hg with hg | hg
    · rw [hg, hpn] at hi
      rcases getElem?_append_single hie with ⟨_, h'⟩ | ⟨h', _⟩
      · obtain ⟨a, b, _⟩ := h.real e (mem_of_getElem? h')
        rw [hg]; simp only []
        rw [hDn, hDv _ a, hDv _ b]
        exact ⟨h4.dlt _ a, h4.dlt _ b⟩
      · omega
    · rw [hpe g hg] at hi
      rcases getElem?_append_single hie with ⟨_, h'⟩ | ⟨h', _⟩
      · obtain ⟨a, b, _⟩ := h.real e (mem_of_getElem? h')
        rw [hDv _ a, hDv _ b, hDv _ (hsc g hg).1]
        exact h.below g hg hn i e hi h'
      · have := hplt g hg hn; omega
  · rw [hsp, he]; intro g hg hn i e hi hie
    rcases List.mem_cons.mp hg with hg | hg
    · rw [hg, hpn] at hi
      have := getElem?_lt hie
      simp at this; omega
    · rw [hpe g hg] at hi
      rw [hDv _ (hsc g hg).1]
      rcases getElem?_append_single hie with ⟨_, h'⟩ | ⟨_, h'⟩
      · obtain ⟨a, _, _⟩ := h.real e (mem_of_getElem? h')
        rw [hDv _ a]
        exact h.above g hg hn i e hi h'
      · rw [h']; simp only []; rw [hDv _ hcv]; exact hdle g hg
  · rw [hsp, he]; intro g hg hn i u hi hie
    have hnew : ∀ u, (u, u) = (f.child, nn) → False := by
      intro u h'
      have a := (Prod.mk.inj h').1
      have b := (Prod.mk.inj h').2
      exact hvis (b ▸ a ▸ hcv)
    rcases List.mem_cons.mp hg with hg | hg
    · rw [hg, hpn] at hi
      rcases getElem?_append_single hie with ⟨h', _⟩ | ⟨_, h'⟩
      · omega
      · exact (hnew u h').elim
    · rw [hpe g hg] at hi ⊢
      rcases getElem?_append_single hie with ⟨_, h'⟩ | ⟨_, h'⟩
      · obtain ⟨j, q, h1', h2', h3', h4'⟩ := h.loop g hg hn i u hi h'
        exact ⟨j, q, h1', h2', h3', getElem?_append_old h4'⟩
      · exact (hnew u h').elim
  · rw [hst]; intro hlen; simp at hlen
  · rw [hsp]; intro g hg hn hr
    rcases List.mem_cons.mp hg with hg | hg
    · rw [hg, hpn]
      rw [hg] at hr; simp only [] at hr
      have hrest : rest = [] := by
        cases hrest : rest with
        | nil => rfl
        | cons g0 r =>
          exfalso
          rw [hs, hrest, spine_cons, spine_cons] at hso
          have := sorted_head hso (g0.parent, g0.child) (by simp)
          simp only [] at this
          rw [hr, h4.droot] at this; omega
      rw [h.bot0 (by rw [hs, hrest]; simp)]; rfl
    · rw [hpe g hg]; exact h.bot1 g hg hn hr

theorem es_step (nb : V → List V) (Vs : List V) (root : V) (s : BSt) (h1 : Inv1 nb Vs s) (h4 : Inv4 root s)
    (hE : ES nb root s) : ES nb root (bstep nb s) := by
  apply bstep_cases
  · intro _; exact hE
  · intro f rest hs hlt hp
    exact es_congr (s := s) rfl rfl rfl rfl (by rw [hs]; rfl) (by rw [hs]; rfl) hE
  · intro f rest nn hs hlt hnn hp hv hle
    exact es_back h1 h4 hs hlt hnn hp hv hle rfl rfl rfl rfl rfl hE
  · intro f rest nn hs hlt hnn hp hv hle
    exact es_congr (s := s) rfl rfl rfl rfl (by rw [hs]; rfl) (by rw [hs]; rfl) hE
  · intro f rest nn hs hlt hnn hp hv
    exact es_push h1 h4 hs hlt hnn hv rfl rfl rfl rfl rfl hE
  · intro f rest hs hlt hlen hc
    exact es_cut hs h4 (by intro h; rw [h] at hlen; simp at hlen) rfl rfl rfl rfl rfl hE
  · intro f rest hs hlt hlen hc
    exact es_pop hs rfl rfl rfl rfl rfl (by intro h; omega) hE
  · intro f rest hs hlt hlen
    exact es_cut hs h4 (by intro h; rw [h] at hlen; simp at hlen) rfl rfl rfl rfl rfl hE
  · intro f hs hlt
    exact es_pop hs rfl rfl rfl rfl rfl (by intro _; rfl) hE

end Gaftools.Proofs.Bicc2
