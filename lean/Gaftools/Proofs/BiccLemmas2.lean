import Gaftools.Proofs.BiccLemmas
/-!
# Lemmas for C15 (biccs, continued): the reported components are the blocks

Invariants of `bstep` beyond `BiccLemmas.lean`:
* `ES`    — discipline of the edge stack (`estack` / `loc`): tree edges of the frames sit at their recorded positions,
            everything below a frame's position is older than the frame's child, everything above starts in its subtree
* `Open`  — nodes on the frame stack or incident to the edge stack; a node that is no longer open never becomes open again
* `Cov`   — every scanned link is inside a reported component or on the edge stack            (RUNG 6)
* `SepO`, `SepRel` — every reported component hangs below its cut node in a closed part      (RUNG 7 and the top rung)
* `ConnX`, `Cx`, `Bicon`, `HasEdge` — no single node removal disconnects a reported component (RUNG 8)
and the bookkeeping of `sortStrings` / `sameSets` / `blocks` for `BiccExact`.
-/
namespace Gaftools.Proofs.Bicc2
open Gaftools.Gfa Gaftools.Algo Gaftools.Spec.Graph Gaftools.Proofs.Algo Gaftools.Proofs.Bicc

/-! ## list helpers -/

theorem getElem?_append_single {α : Type} {l : List α} {x e : α} {i : Nat} (h : (l ++ [x])[i]? = some e) :
    (i < l.length ∧ l[i]? = some e) ∨ (i = l.length ∧ e = x) := by
  by_cases hi : i < l.length
  · rw [List.getElem?_append_left hi] at h; exact Or.inl ⟨hi, h⟩
  · rw [List.getElem?_append_right (by omega)] at h
    right
    have : i - l.length = 0 := by
      apply Decidable.byContradiction
      intro hne
      have : ([x] : List α)[i - l.length]? = none := by
        apply List.getElem?_eq_none; simp; omega
      rw [this] at h; simp at h
    rw [this] at h
    simp at h
    exact ⟨by omega, h.symm⟩

theorem getElem?_append_old {α : Type} {l : List α} {x e : α} {i : Nat} (h : l[i]? = some e) :
    (l ++ [x])[i]? = some e := by
  have hi : i < l.length := by
    apply Decidable.byContradiction
    intro hn
    rw [List.getElem?_eq_none (by omega)] at h; simp at h
  rw [List.getElem?_append_left hi]; exact h

theorem getElem?_lt {α : Type} {l : List α} {e : α} {i : Nat} (h : l[i]? = some e) : i < l.length := by
  apply Decidable.byContradiction
  intro hn
  rw [List.getElem?_eq_none (by omega)] at h; simp at h

theorem getElem?_take_some {α : Type} {l : List α} {e : α} {n i : Nat} (h : (l.take n)[i]? = some e) :
    i < n ∧ l[i]? = some e := by
  rw [List.getElem?_take] at h
  split at h
  · next hi => exact ⟨hi, h⟩
  · simp at h

theorem getElem?_take_of_lt {α : Type} {l : List α} {e : α} {n i : Nat} (hi : i < n) (h : l[i]? = some e) :
    (l.take n)[i]? = some e := by
  rw [List.getElem?_take, if_pos hi]; exact h

theorem mem_of_getElem? {α : Type} {l : List α} {e : α} {i : Nat} (h : l[i]? = some e) : e ∈ l :=
  List.mem_of_getElem? h

theorem mem_drop_iff {α : Type} {l : List α} {e : α} {k : Nat} : e ∈ l.drop k ↔ ∃ i, k ≤ i ∧ l[i]? = some e := by
  constructor
  · intro h
    obtain ⟨i, hi⟩ := List.mem_iff_getElem?.mp h
    rw [List.getElem?_drop] at hi
    exact ⟨k + i, by omega, hi⟩
  · rintro ⟨i, hki, hi⟩
    apply List.mem_iff_getElem?.mpr
    refine ⟨i - k, ?_⟩
    rw [List.getElem?_drop]
    have : k + (i - k) = i := by omega
    rw [this]; exact hi

theorem mem_take_iff {α : Type} {l : List α} {e : α} {k : Nat} : e ∈ l.take k ↔ ∃ i, i < k ∧ l[i]? = some e := by
  constructor
  · intro h
    obtain ⟨i, hi⟩ := List.mem_iff_getElem?.mp h
    exact ⟨i, getElem?_take_some hi⟩
  · rintro ⟨i, hki, hi⟩
    exact List.mem_iff_getElem?.mpr ⟨i, getElem?_take_of_lt hki hi⟩

/-! ## nodesOf -/

theorem mem_nodesOf_iff {es : List (V × V)} {v : V} : v ∈ nodesOf es ↔ ∃ e ∈ es, v = e.1 ∨ v = e.2 := by
  unfold nodesOf
  rw [List.mem_eraseDups, List.mem_flatMap]
  constructor
  · rintro ⟨e, he, hv⟩; exact ⟨e, he, by simpa using hv⟩
  · rintro ⟨e, he, hv⟩; exact ⟨e, he, by simpa using hv⟩

/-! ## positions -/

/-- position recorded for an edge in `edge_stack_loc` -/
def Pos (loc : List ((V × V) × Nat)) (e : V × V) : Nat := (lookup e loc).getD 0

theorem Pos_setKV (k e : V × V) (n : Nat) (loc : List ((V × V) × Nat)) :
    Pos (setKV k n loc) e = if e = k then n else Pos loc e := by
  unfold Pos
  rw [lookup_setKV]
  split <;> rfl


/-! ## the edge-stack discipline -/

structure ES (nb : V → List V) (root : V) (s : BSt) : Prop where
  real : ∀ e ∈ s.estack, e.1 ∈ s.visited ∧ e.2 ∈ s.visited ∧ e.2 ∈ nb e.1
  tree : ∀ g ∈ spine s.stack, g.2 ≠ g.1 → s.estack[Pos s.loc g]? = some g
  below : ∀ g ∈ spine s.stack, g.2 ≠ g.1 → ∀ i e, i < Pos s.loc g → s.estack[i]? = some e →
    D s.disc e.1 < D s.disc g.2 ∧ D s.disc e.2 < D s.disc g.2
  above : ∀ g ∈ spine s.stack, g.2 ≠ g.1 → ∀ i e, Pos s.loc g < i → s.estack[i]? = some e →
    D s.disc g.2 ≤ D s.disc e.1
  loop : ∀ g ∈ spine s.stack, g.2 ≠ g.1 → ∀ i u, Pos s.loc g ≤ i → s.estack[i]? = some (u, u) →
    ∃ j q, Pos s.loc g ≤ j ∧ j < i ∧ q ≠ u ∧ s.estack[j]? = some (q, u)
  bot0 : s.stack.length ≤ 1 → s.estack = []
  bot1 : ∀ g ∈ spine s.stack, g.2 ≠ g.1 → g.1 = root → Pos s.loc g = 0

theorem es_init (nb : V → List V) (root : V) : ES nb root (init nb root) := by
  constructor
  · intro e he; simp [init] at he
  all_goals first
    | (intro g hg hne; simp [init] at hg; subst hg; exact absurd rfl hne)
    | (intro _; rfl)

/-- positions increase towards the top of the stack -/
theorem pos_lt {nb : V → List V} {root : V} {s : BSt} (hE : ES nb root s) {g g' : V × V}
    (hg : g ∈ spine s.stack) (hg' : g' ∈ spine s.stack) (hn : g.2 ≠ g.1) (hn' : g'.2 ≠ g'.1)
    (hlt : D s.disc g.2 < D s.disc g'.2) : Pos s.loc g < Pos s.loc g' := by
  rcases Nat.lt_trichotomy (Pos s.loc g) (Pos s.loc g') with h | h | h
  · exact h
  · exfalso
    have h1 := hE.tree g hg hn
    have h2 := hE.tree g' hg' hn'
    rw [h] at h1; rw [h1] at h2
    have : g = g' := Option.some.inj h2
    rw [this] at hlt; omega
  · exfalso
    have := (hE.below g hg hn _ _ h (hE.tree g' hg' hn')).2
    omega

theorem es_congr {nb : V → List V} {root : V} {s s' : BSt} (hv : s'.visited = s.visited) (hd : s'.disc = s.disc)
    (he : s'.estack = s.estack) (hl : s'.loc = s.loc) (hsp : spine s'.stack = spine s.stack)
    (hlen : s'.stack.length = s.stack.length) (h : ES nb root s) : ES nb root s' := by
  constructor
  · rw [he, hv]; exact h.real
  · rw [he, hl, hsp]; exact h.tree
  · rw [he, hl, hsp, hd]; exact h.below
  · rw [he, hl, hsp, hd]; exact h.above
  · rw [he, hl, hsp]; exact h.loop
  · rw [he, hlen]; exact h.bot0
  · rw [hl, hsp]; exact h.bot1

/-- popping a frame without touching the edge stack -/
theorem es_pop {nb : V → List V} {root : V} {s s' : BSt} {f : Frame} {rest : List Frame} (hs : s.stack = f :: rest)
    (hv : s'.visited = s.visited) (hd : s'.disc = s.disc)
    (he : s'.estack = s.estack) (hl : s'.loc = s.loc) (hst : s'.stack = rest)
    (hlen : rest.length ≤ 1 → rest = []) (h : ES nb root s) : ES nb root s' := by
  have hsub : ∀ g ∈ spine s'.stack, g ∈ spine s.stack := by
    intro g hg; rw [hs, spine_cons]; rw [hst] at hg; exact List.mem_cons_of_mem _ hg
  constructor
  · rw [he, hv]; exact h.real
  · rw [he, hl]; exact fun g hg => h.tree g (hsub g hg)
  · rw [he, hl, hd]; exact fun g hg => h.below g (hsub g hg)
  · rw [he, hl, hd]; exact fun g hg => h.above g (hsub g hg)
  · rw [he, hl]; exact fun g hg => h.loop g (hsub g hg)
  · rw [he, hst]; intro hle
    apply h.bot0
    rw [hs, hlen hle]; simp
  · rw [hl]; exact fun g hg => h.bot1 g (hsub g hg)

/-- popping a frame and cutting the edge stack at the frame's tree edge -/
theorem es_cut {nb : V → List V} {root : V} {s s' : BSt} {f : Frame} {rest : List Frame} (hs : s.stack = f :: rest)
    (h4 : Inv4 root s) (hrne : rest ≠ [])
    (hv : s'.visited = s.visited) (hd : s'.disc = s.disc)
    (he : s'.estack = s.estack.take (Pos s.loc (f.parent, f.child))) (hl : s'.loc = s.loc) (hst : s'.stack = rest)
    (h : ES nb root s) : ES nb root s' := by
  have hso := h4.sorted; have hch := h4.chain
  rw [hs, spine_cons] at hso hch
  have hsrne : spine rest ≠ [] := by intro h'; simp [spine] at h'; exact hrne h'
  have hpc := parent_lt_child hso hch hsrne
  simp only [] at hpc
  have hfn : (f.parent, f.child).2 ≠ (f.parent, f.child).1 := by
    simp only []; intro he'; rw [he'] at hpc; omega
  have hfm : (f.parent, f.child) ∈ spine s.stack := by rw [hs]; simp
  have hsub : ∀ g ∈ spine s'.stack, g ∈ spine s.stack := by
    intro g hg; rw [hs, spine_cons]; rw [hst] at hg; exact List.mem_cons_of_mem _ hg
  have hpos : ∀ g ∈ spine s'.stack, g.2 ≠ g.1 → Pos s.loc g < Pos s.loc (f.parent, f.child) := by
    intro g hg hn
    apply pos_lt h (hsub g hg) hfm hn hfn
    rw [hst] at hg
    exact sorted_head hso g hg
  constructor
  · rw [he, hv]; exact fun e he' => h.real e (List.mem_of_mem_take he')
  · rw [he, hl]; intro g hg hn
    exact getElem?_take_of_lt (hpos g hg hn) (h.tree g (hsub g hg) hn)
  · rw [he, hl, hd]; intro g hg hn i e hi hie
    exact h.below g (hsub g hg) hn i e hi (getElem?_take_some hie).2
  · rw [he, hl, hd]; intro g hg hn i e hi hie
    exact h.above g (hsub g hg) hn i e hi (getElem?_take_some hie).2
  · rw [he, hl]; intro g hg hn i u hi hie
    obtain ⟨hik, hie'⟩ := getElem?_take_some hie
    obtain ⟨j, q, h1, h2, h3, h4'⟩ := h.loop g (hsub g hg) hn i u hi hie'
    exact ⟨j, q, h1, h2, h3, getElem?_take_of_lt (by omega) h4'⟩
  · rw [he, hst]; intro hle
    have hlen1 : (spine rest).length = 1 := by
      cases rest with
      | nil => exact absurd rfl hrne
      | cons g r => simp [spine] at hle ⊢; exact hle
    have hproot : f.parent = root := parent_root hch hlen1
    have := h.bot1 _ hfm hfn hproot
    rw [this]; rfl
  · rw [hl]; exact fun g hg => h.bot1 g (hsub g hg)

/-- a visited neighbour with a discovery number not above the top child's: the top frame is not the root frame -/
theorem back_nonroot {nb : V → List V} {Vs : List V} {root : V} {s : BSt} (h1 : Inv1 nb Vs s) (h4 : Inv4 root s)
    {f : Frame} {rest : List Frame} (hs : s.stack = f :: rest) {nn : V} (hp : nn ≠ f.parent) (hv : nn ∈ s.visited)
    (hle : D s.disc nn ≤ D s.disc f.child) : f.child ≠ f.parent ∧ rest ≠ [] := by
  have hfm : (f.parent, f.child) ∈ spine s.stack := by rw [hs]; simp
  have hne : f.child ≠ f.parent := by
    intro he
    rcases frame_cases _ h4.sorted h4.chain _ hfm with h | h
    · simp only [] at h
      have hd : D s.disc nn = D s.disc root := by rw [h.2, h4.droot] at hle; rw [h4.droot]; omega
      have hroot : root ∈ s.visited := by rw [← h.1]; exact h1.parent f (by simp [hs])
      have := h4.inj nn hv root hroot hd
      exact hp (this.trans h.1.symm)
    · simp only [] at h; rw [he] at h; omega
  refine ⟨hne, ?_⟩
  intro hr
  have hch := h4.chain
  rw [hs, hr] at hch
  simp [spine, Chain] at hch
  exact hne (hch.2.trans hch.1.symm)

theorem es_back {nb : V → List V} {Vs : List V} {root : V} {s s' : BSt} (h1 : Inv1 nb Vs s) (h4 : Inv4 root s)
    {f : Frame} {rest : List Frame} (hs : s.stack = f :: rest) {nn : V}
    (hlt : f.ptr < f.nbrs.length) (hnn : nn = f.nbrs.getD f.ptr "")
    (hp : nn ≠ f.parent) (hvis : nn ∈ s.visited)
    (hle : D s.disc nn ≤ D s.disc f.child)
    (hv : s'.visited = s.visited) (hd : s'.disc = s.disc)
    (he : s'.estack = s.estack ++ [(f.child, nn)]) (hl : s'.loc = setKV (f.child, nn) s.estack.length s.loc)
    (hst : s'.stack = adv f :: rest)
    (h : ES nb root s) : ES nb root s' := by
  obtain ⟨hfne, hrne⟩ := back_nonroot h1 h4 hs hp hvis hle
  have hso := h4.sorted
  have hfc := frame_cases _ h4.sorted h4.chain
  have hsp : spine s'.stack = spine s.stack := by rw [hst, hs, spine_adv]
  have hfm : (f.parent, f.child) ∈ spine s.stack := by rw [hs]; simp
  have hfn : (f.parent, f.child).2 ≠ (f.parent, f.child).1 := hfne
  have hcv : f.child ∈ s.visited := h1.child f (by simp [hs])
  have hmem : nn ∈ nb f.child := by
    rw [← h1.nbrs f (by simp [hs]), hnn]; exact getD_mem hlt
  have hkey : ∀ g ∈ spine s.stack, g.2 ≠ g.1 → g ≠ (f.child, nn) := by
    intro g hg hn heq
    rcases hfc g hg with h' | h'
    · exact hn (h'.2.trans h'.1.symm)
    · rw [heq] at h'; simp only [] at h'; omega
  have hpe : ∀ g ∈ spine s.stack, g.2 ≠ g.1 → Pos s'.loc g = Pos s.loc g := by
    intro g hg hn; rw [hl, Pos_setKV, if_neg (hkey g hg hn)]
  have hplt : ∀ g ∈ spine s.stack, g.2 ≠ g.1 → Pos s.loc g < s.estack.length :=
    fun g hg hn => getElem?_lt (h.tree g hg hn)
  have hdle : ∀ g ∈ spine s.stack, D s.disc g.2 ≤ D s.disc f.child := by
    intro g hg
    rw [hs, spine_cons] at hg hso
    rcases List.mem_cons.mp hg with hg | hg
    · rw [hg]; exact Nat.le_refl _
    · exact Nat.le_of_lt (sorted_head hso g hg)
  have hple : ∀ g ∈ spine s.stack, g.2 ≠ g.1 → Pos s.loc g ≤ Pos s.loc (f.parent, f.child) := by
    intro g hg hn
    by_cases hgf : g = (f.parent, f.child)
    · rw [hgf]; exact Nat.le_refl _
    · apply Nat.le_of_lt
      apply pos_lt h hg hfm hn hfn
      rw [hs, spine_cons] at hg hso
      rcases List.mem_cons.mp hg with hg | hg
      · exact absurd hg hgf
      · exact sorted_head hso g hg
  constructor
  · rw [he, hv]; intro e hmem'
    rcases List.mem_append.mp hmem' with h' | h'
    · exact h.real e h'
    · simp at h'; rw [h']; exact ⟨hcv, hvis, hmem⟩
  · rw [hsp, he]; intro g hg hn
    rw [hpe g hg hn]; exact getElem?_append_old (h.tree g hg hn)
  · rw [hsp, he, hd]; intro g hg hn i e hi hie
    rw [hpe g hg hn] at hi
    rcases getElem?_append_single hie with ⟨_, h'⟩ | ⟨h', _⟩
    · exact h.below g hg hn i e hi h'
    · have := hplt g hg hn; omega
  · rw [hsp, he, hd]; intro g hg hn i e hi hie
    rw [hpe g hg hn] at hi
    rcases getElem?_append_single hie with ⟨_, h'⟩ | ⟨_, h'⟩
    · exact h.above g hg hn i e hi h'
    · rw [h']; exact hdle g hg
  · rw [hsp, he]; intro g hg hn i u hi hie
    rw [hpe g hg hn] at hi ⊢
    rcases getElem?_append_single hie with ⟨_, h'⟩ | ⟨hi', h'⟩
    · obtain ⟨j, q, h1', h2', h3', h4'⟩ := h.loop g hg hn i u hi h'
      exact ⟨j, q, h1', h2', h3', getElem?_append_old h4'⟩
    · have hu1 : u = f.child := (Prod.mk.inj h').1
      refine ⟨Pos s.loc (f.parent, f.child), f.parent, hple g hg hn, ?_, ?_, ?_⟩
      · rw [hi']; exact hplt _ hfm hfn
      · rw [hu1]; exact fun h'' => hfne h''.symm
      · rw [hu1]; exact getElem?_append_old (h.tree _ hfm hfn)
  · rw [hst]; intro hlen
    cases rest with
    | nil => exact absurd rfl hrne
    | cons g r => simp at hlen
  · rw [hsp]; intro g hg hn hr
    rw [hpe g hg hn]; exact h.bot1 g hg hn hr

theorem es_push {nb : V → List V} {Vs : List V} {root : V} {s s' : BSt} (h1 : Inv1 nb Vs s) (h4 : Inv4 root s)
    {f : Frame} {rest : List Frame} (hs : s.stack = f :: rest) {nn : V}
    (hlt : f.ptr < f.nbrs.length) (hnn : nn = f.nbrs.getD f.ptr "")
    (hvis : nn ∉ s.visited)
    (hv : s'.visited = nn :: s.visited) (hd : s'.disc = setKV nn s.disc.length s.disc)
    (he : s'.estack = s.estack ++ [(f.child, nn)]) (hl : s'.loc = setKV (f.child, nn) s.estack.length s.loc)
    (hst : s'.stack = ⟨f.child, nn, 0, nb nn⟩ :: adv f :: rest)
    (h : ES nb root s) : ES nb root s' := by
  have hso := h4.sorted
  have hsc := spine_child h1
  have hsp : spine s'.stack = (f.child, nn) :: spine s.stack := by rw [hst, hs]; rfl
  have hcv : f.child ∈ s.visited := h1.child f (by simp [hs])
  have hmem : nn ∈ nb f.child := by
    rw [← h1.nbrs f (by simp [hs]), hnn]; exact getD_mem hlt
  have hne : ∀ v ∈ s.visited, v ≠ nn := fun v hv' he' => hvis (he' ▸ hv')
  have hDv : ∀ v ∈ s.visited, D s'.disc v = D s.disc v := by
    intro v hv'; rw [hd, D_setKV, if_neg (hne v hv')]
  have hDn : D s'.disc nn = s.disc.length := by rw [hd, D_setKV, if_pos rfl]
  have hkey : ∀ g ∈ spine s.stack, g ≠ (f.child, nn) := by
    intro g hg heq
    have := (hsc g hg).1
    rw [heq] at this; exact hvis this
  have hpe : ∀ g ∈ spine s.stack, Pos s'.loc g = Pos s.loc g := by
    intro g hg; rw [hl, Pos_setKV, if_neg (hkey g hg)]
  have hpn : Pos s'.loc (f.child, nn) = s.estack.length := by rw [hl, Pos_setKV, if_pos rfl]
  have hplt : ∀ g ∈ spine s.stack, g.2 ≠ g.1 → Pos s.loc g < s.estack.length :=
    fun g hg hn => getElem?_lt (h.tree g hg hn)
  have hdle : ∀ g ∈ spine s.stack, D s.disc g.2 ≤ D s.disc f.child := by
    intro g hg
    rw [hs, spine_cons] at hg hso
    rcases List.mem_cons.mp hg with hg | hg
    · rw [hg]; exact Nat.le_refl _
    · exact Nat.le_of_lt (sorted_head hso g hg)
  have hlast : (s.estack ++ [(f.child, nn)])[s.estack.length]? = some (f.child, nn) := by
    rw [List.getElem?_append_right (Nat.le_refl _)]; simp
  constructor
  · rw [he, hv]; intro e hmem'
    rcases List.mem_append.mp hmem' with h' | h'
    · obtain ⟨a, b, c⟩ := h.real e h'
      exact ⟨List.mem_cons_of_mem _ a, List.mem_cons_of_mem _ b, c⟩
    · simp at h'; rw [h']; exact ⟨List.mem_cons_of_mem _ hcv, by simp, hmem⟩
  · rw [hsp, he]; intro g hg hn
    rcases List.mem_cons.mp hg with hg | hg
    · rw [hg, hpn]; exact hlast
    · rw [hpe g hg]; exact getElem?_append_old (h.tree g hg hn)
  · rw [hsp, he]; intro g hg hn i e hi hie
    rcases List.mem_cons.mp hg with hg | hg
    · rw [hg, hpn] at hi
      rcases getElem?_append_single hie with ⟨_, h'⟩ | ⟨h', _⟩
      · obtain ⟨a, b, _⟩ := h.real e (mem_of_getElem? h')
        rw [hg]; simp only []
        rw [hDn, hDv _ a, hDv _ b]
        exact ⟨h4.dlt _ a, h4.dlt _ b⟩
      · omega
    · rw [hpe g hg] at hi
      rcases getElem?_append_single hie with ⟨_, h'⟩ | ⟨h', _⟩
      · obtain ⟨a, b, _⟩ := h.real e (mem_of_getElem? h')
        rw [hDv _ a, hDv _ b, hDv _ (hsc g hg).1]
        exact h.below g hg hn i e hi h'
      · have := hplt g hg hn; omega
  · rw [hsp, he]; intro g hg hn i e hi hie
    rcases List.mem_cons.mp hg with hg | hg
    · rw [hg, hpn] at hi
      have := getElem?_lt hie
      simp at this; omega
    · rw [hpe g hg] at hi
      rw [hDv _ (hsc g hg).1]
      rcases getElem?_append_single hie with ⟨_, h'⟩ | ⟨_, h'⟩
      · obtain ⟨a, _, _⟩ := h.real e (mem_of_getElem? h')
        rw [hDv _ a]
        exact h.above g hg hn i e hi h'
      · rw [h']; simp only []; rw [hDv _ hcv]; exact hdle g hg
  · rw [hsp, he]; intro g hg hn i u hi hie
    have hnew : ∀ u, (u, u) = (f.child, nn) → False := by
      intro u h'
      have a := (Prod.mk.inj h').1
      have b := (Prod.mk.inj h').2
      exact hvis (b ▸ a ▸ hcv)
    rcases List.mem_cons.mp hg with hg | hg
    · rw [hg, hpn] at hi
      rcases getElem?_append_single hie with ⟨h', _⟩ | ⟨_, h'⟩
      · omega
      · exact (hnew u h').elim
    · rw [hpe g hg] at hi ⊢
      rcases getElem?_append_single hie with ⟨_, h'⟩ | ⟨_, h'⟩
      · obtain ⟨j, q, h1', h2', h3', h4'⟩ := h.loop g hg hn i u hi h'
        exact ⟨j, q, h1', h2', h3', getElem?_append_old h4'⟩
      · exact (hnew u h').elim
  · rw [hst]; intro hlen; simp at hlen
  · rw [hsp]; intro g hg hn hr
    rcases List.mem_cons.mp hg with hg | hg
    · rw [hg, hpn]
      rw [hg] at hr; simp only [] at hr
      have hrest : rest = [] := by
        cases hrest : rest with
        | nil => rfl
        | cons g0 r =>
          exfalso
          rw [hs, hrest, spine_cons, spine_cons] at hso
          have := sorted_head hso (g0.parent, g0.child) (by simp)
          simp only [] at this
          rw [hr, h4.droot] at this; omega
      rw [h.bot0 (by rw [hs, hrest]; simp)]; rfl
    · rw [hpe g hg]; exact h.bot1 g hg hn hr

theorem es_step (nb : V → List V) (Vs : List V) (root : V) (s : BSt) (h1 : Inv1 nb Vs s) (h4 : Inv4 root s)
    (hE : ES nb root s) : ES nb root (bstep nb s) := by
  apply bstep_cases
  · intro _; exact hE
  · intro f rest hs hlt hp
    exact es_congr (s := s) rfl rfl rfl rfl (by rw [hs]; rfl) (by rw [hs]; rfl) hE
  · intro f rest nn hs hlt hnn hp hv hle
    exact es_back h1 h4 hs hlt hnn hp hv hle rfl rfl rfl rfl rfl hE
  · intro f rest nn hs hlt hnn hp hv hle
    exact es_congr (s := s) rfl rfl rfl rfl (by rw [hs]; rfl) (by rw [hs]; rfl) hE
  · intro f rest nn hs hlt hnn hp hv
    exact es_push h1 h4 hs hlt hnn hv rfl rfl rfl rfl rfl hE
  · intro f rest hs hlt hlen hc
    exact es_cut hs h4 (by intro h; rw [h] at hlen; simp at hlen) rfl rfl rfl rfl rfl hE
  · intro f rest hs hlt hlen hc
    exact es_pop hs rfl rfl rfl rfl rfl (by intro h; omega) hE
  · intro f rest hs hlt hlen
    exact es_cut hs h4 (by intro h; rw [h] at hlen; simp at hlen) rfl rfl rfl rfl rfl hE
  · intro f hs hlt
    exact es_pop hs rfl rfl rfl rfl rfl (by intro _; rfl) hE

/-! ## open nodes -/

/-- nodes still on the frame stack or incident to an edge of the edge stack -/
def Open (s : BSt) (y : V) : Prop := (∃ e ∈ spine s.stack, e.2 = y) ∨ (∃ e ∈ s.estack, y = e.1 ∨ y = e.2)

/-- the target of a back edge is on the frame stack -/
theorem back_on_stack {nb : V → List V} {Vs : List V} {root : V} {s : BSt} (hsym : ∀ a b, b ∈ nb a → a ∈ nb b)
    (h1 : Inv1 nb Vs s) (h4 : Inv4 root s) (hX : NoCross nb s)
    {f : Frame} {rest : List Frame} (hs : s.stack = f :: rest) {nn : V}
    (hlt : f.ptr < f.nbrs.length) (hnn : nn = f.nbrs.getD f.ptr "") (hvis : nn ∈ s.visited)
    (hle : D s.disc nn ≤ D s.disc f.child) : ∃ e ∈ spine s.stack, e.2 = nn := by
  apply Classical.byContradiction
  intro hno
  have hfin : ∀ e ∈ spine s.stack, e.2 ≠ nn := fun e he h => hno ⟨e, he, h⟩
  have hfm : (f.parent, f.child) ∈ spine s.stack := by rw [hs]; simp
  have hcv : f.child ∈ s.visited := h1.child f (by simp [hs])
  have hmem : nn ∈ nb f.child := by
    rw [← h1.nbrs f (by simp [hs]), hnn]; exact getD_mem hlt
  have hne : D s.disc nn ≠ D s.disc f.child := by
    intro he
    exact hfin _ hfm (h4.inj nn hvis f.child hcv he).symm
  have := hX nn hvis hfin f.child (hsym _ _ hmem) _ hfm (by simp only []; omega)
  simp only [] at this; omega

theorem open_step (nb : V → List V) (Vs : List V) (root : V) (hsym : ∀ a b, b ∈ nb a → a ∈ nb b) (s : BSt)
    (h1 : Inv1 nb Vs s) (h4 : Inv4 root s) (hX : NoCross nb s) :
    ∀ y ∈ s.visited, Open (bstep nb s) y → Open s y := by
  have adv_case : ∀ f rest, s.stack = f :: rest → ∀ s' : BSt, s'.estack = s.estack → s'.stack = adv f :: rest →
      ∀ y ∈ s.visited, Open s' y → Open s y := by
    intro f rest hs s' he hst y _ ho
    unfold Open at ho ⊢
    rw [he, hst, spine_adv, ← hs] at ho; exact ho
  have pop_case : ∀ f rest, s.stack = f :: rest → ∀ s' : BSt, (∀ e ∈ s'.estack, e ∈ s.estack) → s'.stack = rest →
      ∀ y ∈ s.visited, Open s' y → Open s y := by
    intro f rest hs s' he hst y _ ho
    rcases ho with ⟨e, he', hy⟩ | ⟨e, he', hy⟩
    · left; refine ⟨e, ?_, hy⟩
      rw [hs, spine_cons]; rw [hst] at he'; exact List.mem_cons_of_mem _ he'
    · right; exact ⟨e, he e he', hy⟩
  refine bstep_cases nb s (fun t => ∀ y ∈ s.visited, Open t y → Open s y) ?_ ?_ ?_ ?_ ?_ ?_ ?_ ?_ ?_
  · intro _ y _ h; exact h
  · intro f rest hs hlt hp; exact adv_case f rest hs _ rfl rfl
  · intro f rest nn hs hlt hnn hp hv hle y hy ho
    rcases ho with ⟨e, he', hy'⟩ | ⟨e, he', hy'⟩
    · left; refine ⟨e, ?_, hy'⟩
      rw [hs, ← spine_adv]; exact he'
    · rcases List.mem_append.mp he' with h | h
      · right; exact ⟨e, h, hy'⟩
      · left
        simp at h; rw [h] at hy'; simp only [] at hy'
        rcases hy' with hy' | hy'
        · exact ⟨(f.parent, f.child), by rw [hs]; simp, hy'.symm⟩
        · rw [hy']; exact back_on_stack hsym h1 h4 hX hs hlt hnn hv hle
  · intro f rest nn hs hlt hnn hp hv hle; exact adv_case f rest hs _ rfl rfl
  · intro f rest nn hs hlt hnn hp hv y hy ho
    have hyn : y ≠ nn := fun h => hv (h ▸ hy)
    rcases ho with ⟨e, he', hy'⟩ | ⟨e, he', hy'⟩
    · change e ∈ (f.child, nn) :: spine (adv f :: rest) at he'
      rcases List.mem_cons.mp he' with h | h
      · rw [h] at hy'; exact absurd hy'.symm hyn
      · left; refine ⟨e, ?_, hy'⟩
        rw [hs, ← spine_adv]; exact h
    · rcases List.mem_append.mp he' with h | h
      · right; exact ⟨e, h, hy'⟩
      · left
        simp at h; rw [h] at hy'; simp only [] at hy'
        rcases hy' with hy' | hy'
        · exact ⟨(f.parent, f.child), by rw [hs]; simp, hy'.symm⟩
        · exact absurd hy' hyn
  · intro f rest hs hlt hlen hc
    exact pop_case f rest hs _ (fun e he => List.mem_of_mem_take he) rfl
  · intro f rest hs hlt hlen hc
    exact pop_case f rest hs _ (fun e he => he) rfl
  · intro f rest hs hlt hlen
    exact pop_case f rest hs _ (fun e he => List.mem_of_mem_take he) rfl
  · intro f hs hlt
    exact pop_case f [] hs _ (fun e he => he) rfl

theorem visited_step (nb : V → List V) (s : BSt) : ∀ y ∈ s.visited, y ∈ (bstep nb s).visited := by
  refine bstep_cases nb s (fun t => ∀ y ∈ s.visited, y ∈ t.visited) ?_ ?_ ?_ ?_ ?_ ?_ ?_ ?_ ?_
  all_goals intros
  all_goals first
    | assumption
    | exact List.mem_cons_of_mem _ (by assumption)

/-! ## RUNG 6: every link is covered -/

/-- every scanned link between two different nodes is either inside a reported component or still on the edge stack -/
def Cov (nb : V → List V) (s : BSt) : Prop :=
  ∀ u w, Scanned nb s.visited s.stack u w → u ≠ w →
    (∃ c ∈ s.comps, u ∈ c ∧ w ∈ c) ∨ (u, w) ∈ s.estack ∨ (w, u) ∈ s.estack

theorem cov_init (nb : V → List V) (root : V) : Cov nb (init nb root) := by
  intro u w h
  obtain ⟨h1, _, h3⟩ := h
  simp [init] at h1
  have := h3 ⟨root, root, 0, nb root⟩ (by simp [init]) h1.symm
  simp at this

theorem cov_step (nb : V → List V) (Vs : List V) (root : V) (hsym : ∀ a b, b ∈ nb a → a ∈ nb b) (s : BSt)
    (h1 : Inv1 nb Vs s) (h4 : Inv4 root s) (hE : ES nb root s) (hC : Cov nb s) : Cov nb (bstep nb s) := by
  have cut_case : ∀ f rest (k : Nat), s.stack = f :: rest → ¬ f.ptr < f.nbrs.length →
      ∀ u w, Scanned nb s.visited rest u w → u ≠ w →
        (∃ c ∈ s.comps ++ [nodesOf (s.estack.drop k)], u ∈ c ∧ w ∈ c) ∨ (u, w) ∈ s.estack.take k ∨
          (w, u) ∈ s.estack.take k := by
    intro f rest k hs hlt u w hsc hne
    have hsc' := scanned_pop (h1.nbrs f (by simp [hs])) hlt hsc
    rw [← hs] at hsc'
    have split : ∀ e : V × V, e ∈ s.estack → e ∈ s.estack.take k ∨ (e.1 ∈ nodesOf (s.estack.drop k) ∧
        e.2 ∈ nodesOf (s.estack.drop k)) := by
      intro e he
      rw [← List.take_append_drop k s.estack] at he
      rcases List.mem_append.mp he with h | h
      · exact Or.inl h
      · exact Or.inr ⟨mem_nodesOf_iff.mpr ⟨e, h, Or.inl rfl⟩, mem_nodesOf_iff.mpr ⟨e, h, Or.inr rfl⟩⟩
    rcases hC u w hsc' hne with ⟨c, hc, h⟩ | h | h
    · exact Or.inl ⟨c, List.mem_append_left _ hc, h⟩
    · rcases split _ h with h | h
      · exact Or.inr (Or.inl h)
      · exact Or.inl ⟨_, List.mem_append_right _ (by simp), h.1, h.2⟩
    · rcases split _ h with h | h
      · exact Or.inr (Or.inr h)
      · exact Or.inl ⟨_, List.mem_append_right _ (by simp), h.2, h.1⟩
  have pop_case : ∀ f rest, s.stack = f :: rest → ¬ f.ptr < f.nbrs.length →
      ∀ u w, Scanned nb s.visited rest u w → u ≠ w →
        (∃ c ∈ s.comps, u ∈ c ∧ w ∈ c) ∨ (u, w) ∈ s.estack ∨ (w, u) ∈ s.estack := by
    intro f rest hs hlt u w hsc hne
    have hsc' := scanned_pop (h1.nbrs f (by simp [hs])) hlt hsc
    rw [← hs] at hsc'
    exact hC u w hsc' hne
  apply bstep_cases
  · intro _; exact hC
  · intro f rest hs hlt hp u w hsc hne
    change Scanned nb s.visited (adv f :: rest) u w at hsc
    rcases scanned_adv hsc with h | ⟨hu, hw⟩
    · rw [← hs] at h; exact hC u w h hne
    · right; right
      rw [hp] at hw
      have hfm : (f.parent, f.child) ∈ spine s.stack := by rw [hs]; simp
      have := hE.tree _ hfm (by simp only []; rw [← hu, ← hw]; exact hne)
      rw [hu, hw]; exact mem_of_getElem? this
  · intro f rest nn hs hlt hnn hp hv hle u w hsc hne
    change Scanned nb s.visited (adv f :: rest) u w at hsc
    show (∃ c ∈ s.comps, u ∈ c ∧ w ∈ c) ∨ (u, w) ∈ s.estack ++ [(f.child, nn)] ∨ (w, u) ∈ s.estack ++ [(f.child, nn)]
    rcases scanned_adv hsc with h | ⟨hu, hw⟩
    · rw [← hs] at h
      rcases hC u w h hne with h | h | h
      · exact Or.inl h
      · exact Or.inr (Or.inl (List.mem_append_left _ h))
      · exact Or.inr (Or.inr (List.mem_append_left _ h))
    · right; left; rw [hu, hw, ← hnn]; simp
  · intro f rest nn hs hlt hnn hp hv hle u w hsc hne
    change Scanned nb s.visited (adv f :: rest) u w at hsc
    rcases scanned_adv hsc with h | ⟨hu, hw⟩
    · rw [← hs] at h; exact hC u w h hne
    · rw [← hnn] at hw
      have hmem : nn ∈ nb f.child := by
        rw [← h1.nbrs f (by simp [hs]), hnn]; exact getD_mem hlt
      have hso := h4.sorted
      have hsc2 : Scanned nb s.visited s.stack nn f.child := by
        refine ⟨hv, hsym _ _ hmem, ?_⟩
        intro g hg hgc
        exfalso
        rw [hs] at hg hso
        rw [spine_cons] at hso
        rcases List.mem_cons.mp hg with hg | hg
        · rw [hg] at hgc; rw [hgc] at hle; omega
        · have := sorted_head hso _ (mem_spine hg)
          simp only [] at this; rw [hgc] at this; omega
      rw [hu, hw]
      rcases hC nn f.child hsc2 (by rw [← hu, ← hw]; exact fun h => hne h.symm) with ⟨c, hc, h⟩ | h | h
      · exact Or.inl ⟨c, hc, h.2, h.1⟩
      · exact Or.inr (Or.inr h)
      · exact Or.inr (Or.inl h)
  · intro f rest nn hs hlt hnn hp hv u w hsc hne
    change Scanned nb (nn :: s.visited) (⟨f.child, nn, 0, nb nn⟩ :: adv f :: rest) u w at hsc
    show (∃ c ∈ s.comps, u ∈ c ∧ w ∈ c) ∨ (u, w) ∈ s.estack ++ [(f.child, nn)] ∨ (w, u) ∈ s.estack ++ [(f.child, nn)]
    rcases (scanned_push hsc).2 with h | ⟨hu, hw⟩
    · rw [← hs] at h
      rcases hC u w h hne with h | h | h
      · exact Or.inl h
      · exact Or.inr (Or.inl (List.mem_append_left _ h))
      · exact Or.inr (Or.inr (List.mem_append_left _ h))
    · right; left; rw [hu, hw, ← hnn]; simp
  · intro f rest hs hlt hlen hc; exact cut_case f rest _ hs hlt
  · intro f rest hs hlt hlen hc; exact pop_case f rest hs hlt
  · intro f rest hs hlt hlen; exact cut_case f rest _ hs hlt
  · intro f hs hlt; exact pop_case f [] hs hlt

/-- first bundle of invariants -/
structure InvA (nb : V → List V) (Vs : List V) (root : V) (s : BSt) : Prop where
  i1 : Inv1 nb Vs s
  i2 : Inv2 nb root s
  i4 : Inv4 root s
  low : LowOK nb s
  nocross : NoCross nb s
  wit : Wit nb s
  conn : Conn nb s
  es : ES nb root s
  cov : Cov nb s

theorem invA_init (nb : V → List V) (Vs : List V) (root : V) (hr : root ∈ Vs) : InvA nb Vs root (init nb root) :=
  ⟨inv1_init nb Vs root hr, inv2_init nb root, inv4_init nb root, lowOK_init nb root, noCross_init nb root,
    wit_init nb root, conn_init nb root, es_init nb root, cov_init nb root⟩

theorem invA_step (nb : V → List V) (Vs : List V) (hu : Undirected nb Vs) (root : V) (s : BSt)
    (h : InvA nb Vs root s) : InvA nb Vs root (bstep nb s) :=
  ⟨inv1_step nb Vs hu s h.i1, inv2_step nb Vs root s h.i1 h.i2, inv4_step nb Vs root s h.i1 h.i2 h.i4,
    lowOK_step nb Vs root s h.i1 h.i2 h.i4 h.low, noCross_step nb Vs root s h.i1 h.i2 h.i4 h.nocross,
    wit_step nb Vs root s h.i1 h.i4 h.wit, conn_step nb Vs root s h.i1 h.i4 h.conn,
    es_step nb Vs root s h.i1 h.i4 h.es, cov_step nb Vs root hu.symm s h.i1 h.i4 h.es h.cov⟩

theorem invA_bgo (nb : V → List V) (Vs : List V) (hu : Undirected nb Vs) (root : V) (hr : root ∈ Vs) (n : Nat) :
    InvA nb Vs root (bgo nb n (init nb root)) :=
  bgo_inv nb (InvA nb Vs root) (invA_step nb Vs hu root) n _ (invA_init nb Vs root hr)

theorem covers_links (nb : V → List V) (Vs : List V) (hu : Undirected nb Vs) (root : V) (hr : root ∈ Vs)
    (hc : connectedB nb Vs = true) (u v : V) (hu' : u ∈ Vs) (huv : v ∈ nb u) (hne : u ≠ v) :
    ∃ c ∈ (biccsFrom nb root (biccFuel nb Vs)).1, u ∈ c ∧ v ∈ c := by
  have h := invA_bgo nb Vs hu root hr (biccFuel nb Vs)
  have hst := terminates nb Vs hu root hr
  have hvis := (visits_all nb Vs hu root hr hc).2
  show ∃ c ∈ (bgo nb (biccFuel nb Vs) (init nb root)).comps, u ∈ c ∧ v ∈ c
  generalize bgo nb (biccFuel nb Vs) (init nb root) = s at h hst hvis
  have hsc : Scanned nb s.visited s.stack u v := by
    refine ⟨(hvis u).mpr hu', huv, ?_⟩
    rw [hst]; intro g hg; simp at hg
  have hest : s.estack = [] := h.es.bot0 (by rw [hst]; simp)
  rcases h.cov u v hsc hne with h' | h' | h'
  · exact h'
  · rw [hest] at h'; simp at h'
  · rw [hest] at h'; simp at h'

/-! ## emission of a component -/

/-- the situation in which a component is emitted: the exhausted top frame is not the root frame and its low point
    does not reach above its parent -/
structure Emit (s : BSt) (f : Frame) (rest : List Frame) : Prop where
  hs : s.stack = f :: rest
  hrne : rest ≠ []
  hlt : ¬ f.ptr < f.nbrs.length
  hlow : D s.disc f.parent ≤ D s.low f.child

/-- one step either leaves the reported components alone or emits the edge-stack suffix of the top frame -/
theorem comps_step (nb : V → List V) (root : V) (s : BSt) (h4 : Inv4 root s) :
    (bstep nb s).comps = s.comps ∨ ∃ f rest, Emit s f rest ∧
      (bstep nb s).comps = s.comps ++ [nodesOf (s.estack.drop (Pos s.loc (f.parent, f.child)))] ∧
      (bstep nb s).estack = s.estack.take (Pos s.loc (f.parent, f.child)) ∧ (bstep nb s).stack = rest := by
  refine bstep_cases nb s (fun t => t.comps = s.comps ∨ ∃ f rest, Emit s f rest ∧
      t.comps = s.comps ++ [nodesOf (s.estack.drop (Pos s.loc (f.parent, f.child)))] ∧
      t.estack = s.estack.take (Pos s.loc (f.parent, f.child)) ∧ t.stack = rest) ?_ ?_ ?_ ?_ ?_ ?_ ?_ ?_ ?_
  · intro _; exact Or.inl rfl
  · intro f rest hs hlt hp; exact Or.inl rfl
  · intro f rest nn hs hlt hnn hp hv hle; exact Or.inl rfl
  · intro f rest nn hs hlt hnn hp hv hle; exact Or.inl rfl
  · intro f rest nn hs hlt hnn hp hv; exact Or.inl rfl
  · intro f rest hs hlt hlen hc
    exact Or.inr ⟨f, rest, ⟨hs, by intro h; rw [h] at hlen; simp at hlen, hlt, hc⟩, rfl, rfl, rfl⟩
  · intro f rest hs hlt hlen hc; exact Or.inl rfl
  · intro f rest hs hlt hlen
    right
    have hch := h4.chain
    rw [hs, spine_cons] at hch
    have hproot : f.parent = root := parent_root hch (by simpa [spine] using hlen)
    exact ⟨f, rest, ⟨hs, by intro h; rw [h] at hlen; simp at hlen, hlt, by rw [hproot, h4.droot]; exact Nat.zero_le _⟩,
      rfl, rfl, rfl⟩
  · intro f hs hlt; exact Or.inl rfl

/-- facts about the top frame when a component is emitted -/
theorem emit_basic {nb : V → List V} {Vs : List V} {root : V} {s : BSt} (h1 : Inv1 nb Vs s) (h4 : Inv4 root s)
    {f : Frame} {rest : List Frame} (hem : Emit s f rest) :
    (f.parent, f.child) ∈ spine s.stack ∧ D s.disc f.parent < D s.disc f.child ∧ f.child ≠ f.parent ∧
      f.parent ∈ s.visited ∧ f.child ∈ s.visited ∧ (∀ g ∈ spine rest, D s.disc g.2 < D s.disc f.child) := by
  have hso := h4.sorted; have hch := h4.chain
  rw [hem.hs, spine_cons] at hso hch
  have hsrne : spine rest ≠ [] := by intro h'; simp [spine] at h'; exact hem.hrne h'
  have hpc := parent_lt_child hso hch hsrne
  simp only [] at hpc
  refine ⟨by rw [hem.hs]; simp, hpc, ?_, h1.parent f (by simp [hem.hs]), h1.child f (by simp [hem.hs]), ?_⟩
  · intro he; rw [he] at hpc; omega
  · intro g hg; exact sorted_head hso g hg

/-- nodes of the emitted suffix: the parent of the top frame and nodes of the subtree of its child -/
theorem emit_nodes {nb : V → List V} {Vs : List V} {root : V} (hsym : ∀ a b, b ∈ nb a → a ∈ nb b) {s : BSt}
    (h1 : Inv1 nb Vs s) (h2 : Inv2 nb root s) (h4 : Inv4 root s) (hL : LowOK nb s) (hX : NoCross nb s)
    (hE : ES nb root s) {f : Frame} {rest : List Frame} (hem : Emit s f rest) :
    ∀ v ∈ nodesOf (s.estack.drop (Pos s.loc (f.parent, f.child))),
      v = f.parent ∨ (v ∈ s.visited ∧ D s.disc f.child ≤ D s.disc v) := by
  obtain ⟨hfm, hpc, hcp, hpv, hcv, _⟩ := emit_basic h1 h4 hem
  have hcl := closure nb Vs root hsym s h1 h2 h4 hL hX f rest hem.hs hem.hlt hem.hlow
  intro v hv
  obtain ⟨e, he, hve⟩ := mem_nodesOf_iff.mp hv
  obtain ⟨i, hki, hie⟩ := mem_drop_iff.mp he
  by_cases hik : i = Pos s.loc (f.parent, f.child)
  · have := hE.tree _ hfm hcp
    rw [← hik, hie] at this
    have he' : e = (f.parent, f.child) := Option.some.inj this
    rw [he'] at hve; simp only [] at hve
    rcases hve with h | h
    · exact Or.inl h
    · right; rw [h]; exact ⟨hcv, Nat.le_refl _⟩
  · have hab := hE.above _ hfm hcp i e (by omega) hie
    obtain ⟨r1, r2, r3⟩ := hE.real e (mem_of_getElem? hie)
    simp only [] at hab
    rcases hve with h | h
    · right; rw [h]; exact ⟨r1, hab⟩
    · by_cases hep : e.2 = f.parent
      · left; rw [h]; exact hep
      · right; rw [h]; exact hcl e.1 r1 hab e.2 r3 hep

/-- after the emission the subtree of the popped child is closed -/
theorem emit_closed {nb : V → List V} {Vs : List V} {root : V} {s t : BSt} (h1 : Inv1 nb Vs s) (h4 : Inv4 root s)
    (hE : ES nb root s) {f : Frame} {rest : List Frame} (hem : Emit s f rest)
    (hst : t.stack = rest) (het : t.estack = s.estack.take (Pos s.loc (f.parent, f.child))) {y : V}
    (hle : D s.disc f.child ≤ D s.disc y) : ¬ Open t y := by
  obtain ⟨hfm, hpc, hcp, hpv, hcv, hbel⟩ := emit_basic h1 h4 hem
  rintro (⟨e, he, hy⟩ | ⟨e, he, hy⟩)
  · rw [hst] at he
    have := hbel e he
    rw [hy] at this; omega
  · rw [het] at he
    obtain ⟨i, hik, hie⟩ := mem_take_iff.mp he
    have := hE.below _ hfm hcp i e hik hie
    simp only [] at this
    rcases hy with h | h <;> rw [h] at hle <;> omega

/-! ## reported components: separation (RUNG 7) -/

/-- a cut node `x` and a node `c`: the first component hangs at `c` in the graph without `x`, the second one does not -/
def SepRel (nb : V → List V) (Vs : List V) (C C' : List V) : Prop :=
  ∃ x c, x ∈ Vs ∧ (∀ v ∈ C, v ≠ x → Reach (nbWithout nb x) c v) ∧ (∀ v ∈ C', v ≠ x → ¬ Reach (nbWithout nb x) c v)

/-- every reported component hangs below its cut node in a part of the graph that is closed -/
def SepO (nb : V → List V) (Vs : List V) (s : BSt) : Prop :=
  ∀ C ∈ s.comps, ∃ x c, x ∈ Vs ∧ (∀ v ∈ C, v ≠ x → Reach (nbWithout nb x) c v) ∧
    (∀ y, Reach (nbWithout nb x) c y → y ∈ s.visited ∧ ¬ Open s y)

theorem sepO_init (nb : V → List V) (Vs : List V) (root : V) : SepO nb Vs (init nb root) := by
  intro C hC; simp [init] at hC

/-- the emitted component hangs at the popped child without the parent, in a closed part -/
theorem emit_sep {nb : V → List V} {Vs : List V} {root : V} (hsym : ∀ a b, b ∈ nb a → a ∈ nb b) {s : BSt}
    (h1 : Inv1 nb Vs s) (h2 : Inv2 nb root s) (h4 : Inv4 root s) (hL : LowOK nb s) (hX : NoCross nb s)
    (hT : Conn nb s) (hE : ES nb root s) {f : Frame} {rest : List Frame} (hem : Emit s f rest) :
    (∀ v ∈ nodesOf (s.estack.drop (Pos s.loc (f.parent, f.child))), v ≠ f.parent →
      Reach (nbWithout nb f.parent) f.child v) ∧
    (∀ y, Reach (nbWithout nb f.parent) f.child y → y ∈ s.visited ∧ D s.disc f.child ≤ D s.disc y) := by
  obtain ⟨hfm, hpc, hcp, hpv, hcv, _⟩ := emit_basic h1 h4 hem
  constructor
  · intro v hv hvp
    rcases emit_nodes hsym h1 h2 h4 hL hX hE hem v hv with h | ⟨h, h'⟩
    · exact absurd h hvp
    · exact hT _ hfm hcp v h h'
  · have hcl := closure nb Vs root hsym s h1 h2 h4 hL hX f rest hem.hs hem.hlt hem.hlow
    exact reach_closed (P := fun y => y ∈ s.visited ∧ D s.disc f.child ≤ D s.disc y)
      (fun u hu' w hw hwp => hcl u hu'.1 hu'.2 w hw hwp) ⟨hcv, Nat.le_refl _⟩

theorem sep_step (nb : V → List V) (Vs : List V) (root : V) (hsym : ∀ a b, b ∈ nb a → a ∈ nb b) (s : BSt)
    (h1 : Inv1 nb Vs s) (h2 : Inv2 nb root s) (h4 : Inv4 root s) (hL : LowOK nb s) (hX : NoCross nb s)
    (hT : Conn nb s) (hE : ES nb root s) (hO : SepO nb Vs s) (hP : s.comps.Pairwise (SepRel nb Vs)) :
    SepO nb Vs (bstep nb s) ∧ (bstep nb s).comps.Pairwise (SepRel nb Vs) := by
  have hvis := visited_step nb s
  have hop := open_step nb Vs root hsym s h1 h4 hX
  have old : ∀ C ∈ s.comps, ∃ x c, x ∈ Vs ∧ (∀ v ∈ C, v ≠ x → Reach (nbWithout nb x) c v) ∧
      (∀ y, Reach (nbWithout nb x) c y → y ∈ (bstep nb s).visited ∧ ¬ Open (bstep nb s) y) := by
    intro C hC
    obtain ⟨x, c, hx, ha, hb⟩ := hO C hC
    exact ⟨x, c, hx, ha, fun y hy => ⟨hvis y (hb y hy).1, fun ho => (hb y hy).2 (hop y (hb y hy).1 ho)⟩⟩
  rcases comps_step nb root s h4 with heq | ⟨f, rest, hem, hco, hes, hst⟩
  · constructor
    · intro C hC; rw [heq] at hC; exact old C hC
    · rw [heq]; exact hP
  · obtain ⟨hfm, hpc, hcp, hpv, hcv, _⟩ := emit_basic h1 h4 hem
    obtain ⟨hs1, hs2⟩ := emit_sep hsym h1 h2 h4 hL hX hT hE hem
    constructor
    · intro C hC
      rw [hco] at hC
      rcases List.mem_append.mp hC with h | h
      · exact old C h
      · simp at h
        refine ⟨f.parent, f.child, h1.sub _ hpv, by rw [h]; exact hs1, ?_⟩
        intro y hy
        exact ⟨hvis y (hs2 y hy).1, emit_closed h1 h4 hE hem hst hes (hs2 y hy).2⟩
    · rw [hco, List.pairwise_append]
      refine ⟨hP, by simp, ?_⟩
      intro C hC C' hC'
      simp at hC'
      obtain ⟨x, c, hx, ha, hb⟩ := hO C hC
      refine ⟨x, c, hx, ha, ?_⟩
      intro v hv _ hr
      apply (hb v hr).2
      right
      rw [hC'] at hv
      obtain ⟨e, he, hve⟩ := mem_nodesOf_iff.mp hv
      exact ⟨e, List.mem_of_mem_drop he, hve⟩

/-! ## RUNG 8: no single node removal disconnects a reported component -/

/-- the subtree of a stack frame is connected to the frame's child avoiding any node outside the subtree -/
def ConnXP (nb : V → List V) (vis : List V) (disc : List (V × Nat)) (sp : List (V × V)) : Prop :=
  ∀ g ∈ sp, ∀ y ∈ vis, D disc g.2 ≤ D disc y → ∀ x, (x ∈ vis → D disc x < D disc g.2) →
    Reach (nbWithout nb x) g.2 y

abbrev ConnX (nb : V → List V) (s : BSt) : Prop := ConnXP nb s.visited s.disc (spine s.stack)

theorem connX_init (nb : V → List V) (root : V) : ConnX nb (init nb root) := by
  intro g hg y hy _ x _
  simp [init] at hg hy
  subst hg; subst hy
  exact Reach.refl _

theorem connX_step (nb : V → List V) (Vs : List V) (root : V) (s : BSt) (h1 : Inv1 nb Vs s)
    (h4 : Inv4 root s) (hT : ConnX nb s) : ConnX nb (bstep nb s) := by
  have hsc := spine_child h1
  have adv_case : ∀ f rest, s.stack = f :: rest → ConnXP nb s.visited s.disc (spine (adv f :: rest)) := by
    intro f rest hs; rw [spine_adv, ← hs]; exact hT
  have pop_case : ∀ f rest, s.stack = f :: rest → ConnXP nb s.visited s.disc (spine rest) := by
    intro f rest hs
    unfold ConnX at hT; rw [hs, spine_cons] at hT
    intro g hg
    exact hT g (List.mem_cons_of_mem _ hg)
  apply bstep_cases
  · intro _; exact hT
  · intro f rest hs hlt hp; exact adv_case f rest hs
  · intro f rest nn hs hlt hnn hp hv hle; exact adv_case f rest hs
  · intro f rest nn hs hlt hnn hp hv hle; exact adv_case f rest hs
  · intro f rest nn hs hlt hnn hp hv
    show ConnXP nb (nn :: s.visited) (setKV nn s.disc.length s.disc) ((f.child, nn) :: spine (adv f :: rest))
    rw [spine_adv, ← hs]
    have hne : ∀ v ∈ s.visited, v ≠ nn := fun v hv' he => hv (he ▸ hv')
    have hso := h4.sorted
    intro g hg y hy hle x hx
    rcases List.mem_cons.mp hg with hg | hg
    · rw [hg] at hle ⊢; simp only [] at hle ⊢
      rcases List.mem_cons.mp hy with hy | hy
      · rw [hy]; exact Reach.refl _
      · exfalso
        rw [D_setKV, D_setKV, if_neg (hne y hy)] at hle; simp only [if_true] at hle
        have := h4.dlt y hy; omega
    · have hgv := hsc g hg
      rw [D_setKV, if_neg (hne _ hgv.1)] at hle
      have hxn : x ≠ nn := by
        intro he
        have := hx (by rw [he]; simp)
        rw [he, D_setKV, D_setKV, if_neg (hne _ hgv.1)] at this; simp only [if_true] at this
        have := h4.dlt _ hgv.1; omega
      have hx' : x ∈ s.visited → D s.disc x < D s.disc g.2 := by
        intro hxv
        have := hx (List.mem_cons_of_mem _ hxv)
        rw [D_setKV, D_setKV, if_neg (hne _ hgv.1), if_neg (hne x hxv)] at this
        exact this
      rcases List.mem_cons.mp hy with hy | hy
      · rw [hy]
        have hfv : f.child ∈ s.visited := h1.child f (by simp [hs])
        have hgf : D s.disc g.2 ≤ D s.disc f.child := by
          rw [hs, spine_cons] at hg hso
          rcases List.mem_cons.mp hg with hg | hg
          · rw [hg]; exact Nat.le_refl _
          · exact Nat.le_of_lt (sorted_head hso g hg)
        have hr := hT g hg f.child hfv hgf x hx'
        apply Reach.step hr
        apply nbWithout_mem.mpr
        refine ⟨?_, ?_, hxn.symm⟩
        · intro he
          have := hx' (he ▸ hfv)
          rw [← he] at this; omega
        · rw [← h1.nbrs f (by simp [hs]), hnn]; exact getD_mem hlt
      · rw [D_setKV, if_neg (hne y hy)] at hle
        exact hT g hg y hy hle x hx'
  · intro f rest hs hlt hlen hc; exact pop_case f rest hs
  · intro f rest hs hlt hlen hc; exact pop_case f rest hs
  · intro f rest hs hlt hlen; exact pop_case f rest hs
  · intro f hs hlt; exact pop_case f [] hs

/-- for a fixed node `x` other than the root: every discovered node is connected to the root avoiding `x`, or lies in
    the subtree of the child of `x` being explored, or is closed (its component was cut off) -/
def Cx (nb : V → List V) (root x : V) (s : BSt) : Prop :=
  ∀ y ∈ s.visited, y ≠ x → Reach (nbWithout nb x) root y ∨
    (∃ g ∈ spine s.stack, g.1 = x ∧ D s.disc g.2 ≤ D s.disc y) ∨ ¬ Open s y

theorem cx_init (nb : V → List V) (root x : V) : Cx nb root x (init nb root) := by
  intro y hy _
  simp [init] at hy
  rw [hy]; exact Or.inl (Reach.refl _)

theorem cx_congr {nb : V → List V} {root x : V} {s t : BSt} (hv : t.visited = s.visited) (hd : t.disc = s.disc)
    (hsp : spine t.stack = spine s.stack) (hop : ∀ y ∈ s.visited, Open t y → Open s y)
    (hC : Cx nb root x s) : Cx nb root x t := by
  intro y hy hyx
  rw [hv] at hy
  rcases hC y hy hyx with h | h | h
  · exact Or.inl h
  · rw [hsp, hd]; exact Or.inr (Or.inl h)
  · exact Or.inr (Or.inr (fun ho => h (hop y hy ho)))

/-- popping a frame whose subtree gets closed (cut) or whose parent is not `x` -/
theorem cx_pop {nb : V → List V} {root x : V} {s t : BSt} {f : Frame} {rest : List Frame} (hs : s.stack = f :: rest)
    (hv : t.visited = s.visited) (hd : t.disc = s.disc)
    (hst : t.stack = rest) (hop : ∀ y ∈ s.visited, Open t y → Open s y)
    (htop : f.parent = x → ∀ y, D s.disc f.child ≤ D s.disc y → ¬ Open t y)
    (hC : Cx nb root x s) : Cx nb root x t := by
  intro y hy hyx
  rw [hv] at hy
  rcases hC y hy hyx with h | ⟨g, hg, hgx, hle⟩ | h
  · exact Or.inl h
  · rw [hs, spine_cons] at hg
    rcases List.mem_cons.mp hg with hg | hg
    · rw [hg] at hgx hle; simp only [] at hgx hle
      exact Or.inr (Or.inr (htop hgx y hle))
    · rw [hst, hd]; exact Or.inr (Or.inl ⟨g, hg, hgx, hle⟩)
  · exact Or.inr (Or.inr (fun ho => h (hop y hy ho)))

theorem cx_step (nb : V → List V) (Vs : List V) (hu : Undirected nb Vs) (root x : V) (hxr : x ≠ root)
    (s : BSt) (h1 : Inv1 nb Vs s) (h4 : Inv4 root s) (hX : NoCross nb s) (hW : Wit nb s) (hT : Conn nb s)
    (hE : ES nb root s) (hC : Cx nb root x s) : Cx nb root x (bstep nb s) := by
  have hsc := spine_child h1
  have hop := open_step nb Vs root hu.symm s h1 h4 hX
  refine bstep_cases nb s (fun t => bstep nb s = t → Cx nb root x t) ?_ ?_ ?_ ?_ ?_ ?_ ?_ ?_ ?_ rfl
  · intro _ _; exact hC
  · intro f rest hs hlt hp heq
    rw [heq] at hop
    exact cx_congr (s := s) rfl rfl (by rw [hs]; rfl) hop hC
  · intro f rest nn hs hlt hnn hp hv hle heq
    rw [heq] at hop
    exact cx_congr (s := s) rfl rfl (by rw [hs]; rfl) hop hC
  · intro f rest nn hs hlt hnn hp hv hle heq
    rw [heq] at hop
    exact cx_congr (s := s) rfl rfl (by rw [hs]; rfl) hop hC
  · intro f rest nn hs hlt hnn hp hv heq
    have hop' := hop
    rw [heq] at hop'
    have hne : ∀ v ∈ s.visited, v ≠ nn := fun v hv' he => hv (he ▸ hv')
    have hfv : f.child ∈ s.visited := h1.child f (by simp [hs])
    have hfm : (f.parent, f.child) ∈ spine s.stack := by rw [hs]; simp
    have hmem : nn ∈ nb f.child := by
      rw [← h1.nbrs f (by simp [hs]), hnn]; exact getD_mem hlt
    intro y hy hyx
    change y ∈ nn :: s.visited at hy
    show Reach (nbWithout nb x) root y ∨
      (∃ g ∈ (f.child, nn) :: spine (adv f :: rest), g.1 = x ∧
        D (setKV nn s.disc.length s.disc) g.2 ≤ D (setKV nn s.disc.length s.disc) y) ∨ ¬ Open _ y
    rw [spine_adv, ← hs]
    have old : ∀ g ∈ spine s.stack, g.1 = x → ∀ y' ∈ s.visited, D s.disc g.2 ≤ D s.disc y' →
        D s.disc y' ≤ D (setKV nn s.disc.length s.disc) y →
        ∃ g ∈ (f.child, nn) :: spine s.stack, g.1 = x ∧
          D (setKV nn s.disc.length s.disc) g.2 ≤ D (setKV nn s.disc.length s.disc) y := by
      intro g hg hgx y' hy' hle hle'
      refine ⟨g, List.mem_cons_of_mem _ hg, hgx, ?_⟩
      rw [D_setKV (v := g.2), if_neg (hne _ (hsc g hg).1)]; omega
    rcases List.mem_cons.mp hy with hy | hy
    · by_cases hfx : f.child = x
      · right; left
        exact ⟨(f.child, nn), by simp, hfx, by rw [hy]; exact Nat.le_refl _⟩
      · rcases hC f.child hfv hfx with h | ⟨g, hg, hgx, hle⟩ | h
        · left
          rw [hy]
          exact Reach.step h (nbWithout_mem.mpr ⟨hfx, hmem, by rw [← hy]; exact hyx⟩)
        · right; left
          apply old g hg hgx f.child hfv hle
          rw [hy, D_setKV, if_pos rfl]; exact Nat.le_of_lt (h4.dlt _ hfv)
        · exact absurd (Or.inl ⟨_, hfm, rfl⟩) h
    · rcases hC y hy hyx with h | ⟨g, hg, hgx, hle⟩ | h
      · exact Or.inl h
      · right; left
        apply old g hg hgx y hy hle
        rw [D_setKV, if_neg (hne y hy)]; exact Nat.le_refl _
      · exact Or.inr (Or.inr (fun ho => h (hop' y hy ho)))
  · intro f rest hs hlt hlen hc heq
    have hem : Emit s f rest := ⟨hs, by intro h; rw [h] at hlen; simp at hlen, hlt, hc⟩
    rw [heq] at hop
    exact cx_pop hs rfl rfl rfl hop (fun _ y hle => emit_closed h1 h4 hE hem rfl rfl hle) hC
  · intro f rest hs hlt hlen hc heq
    have hop' := hop
    rw [heq] at hop'
    by_cases hpa : f.parent = x
    · have hso := h4.sorted; have hch := h4.chain
      have hfc := frame_cases _ hso hch
      rw [hs, spine_cons] at hso hch
      have hrne : spine rest ≠ [] := by intro h; simp [spine] at h; rw [h] at hlen; simp at hlen
      have hpc := parent_lt_child hso hch hrne
      simp only [] at hpc
      have hu' := nbWithout_undirected hu x
      have hcne : f.child ≠ f.parent := by intro he; rw [he] at hpc; omega
      have hfm : (f.parent, f.child) ∈ spine s.stack := by rw [hs]; simp
      have hTf := hT (f.parent, f.child) hfm hcne
      simp only [] at hTf
      rw [hpa] at hTf hpc hc
      have hroot : Reach (nbWithout nb x) root f.child := by
        obtain ⟨u, w, huv, hwv, hcu, hwu, hdw⟩ := hW (f.parent, f.child) hfm
        simp only [] at hcu hdw
        have hua : u ≠ x := by intro he; rw [he] at hcu; omega
        have hwa : w ≠ x := by intro he; rw [he] at hdw; omega
        have hwnb : w ∈ nb u := by
          rcases hwu with h | h
          · exact h
          · rw [h] at hdw; omega
        have hrw : Reach (nbWithout nb x) root w := by
          rcases hC w hwv hwa with h | ⟨g, hg, hgx, hle⟩ | h
          · exact h
          · exfalso
            rcases hfc g hg with h | h
            · exact hxr (hgx.symm.trans h.1)
            · rw [hgx] at h; omega
          · exfalso
            apply h
            left
            apply Classical.byContradiction
            intro hno
            have hfin : ∀ e ∈ spine s.stack, e.2 ≠ w := fun e he h' => hno ⟨e, he, h'⟩
            have := hX w hwv hfin u (hu.symm u w hwnb) _ hfm (by simp only []; omega)
            simp only [] at this; omega
        have hru : Reach (nbWithout nb x) root u :=
          Reach.step hrw (nbWithout_mem.mpr ⟨hwa, hu.symm u w hwnb, hua⟩)
        exact Reach.trans hru (Reach.symm hu'.symm (hTf u huv hcu))
      intro y hy hyx
      change y ∈ s.visited at hy
      rcases hC y hy hyx with h | ⟨g, hg, hgx, hle⟩ | h
      · exact Or.inl h
      · rw [hs, spine_cons] at hg
        rcases List.mem_cons.mp hg with hg | hg
        · rw [hg] at hle; simp only [] at hle
          exact Or.inl (Reach.trans hroot (hTf y hy hle))
        · exact Or.inr (Or.inl ⟨g, hg, hgx, hle⟩)
      · exact Or.inr (Or.inr (fun ho => h (hop' y hy ho)))
    · exact cx_pop hs rfl rfl rfl hop' (fun h => absurd h hpa) hC
  · intro f rest hs hlt hlen heq
    have hch := h4.chain
    rw [hs, spine_cons] at hch
    have hproot : f.parent = root := parent_root hch (by simpa [spine] using hlen)
    rw [heq] at hop
    exact cx_pop hs rfl rfl rfl hop (fun h => absurd (h.symm.trans hproot) hxr) hC
  · intro f hs hlt heq
    have hch := h4.chain
    rw [hs] at hch
    have hproot : f.parent = root := hch.1
    rw [heq] at hop
    exact cx_pop hs rfl rfl rfl hop (fun h => absurd (h.symm.trans hproot) hxr) hC

/-- no single node removal disconnects the node set -/
def Bicon (nb : V → List V) (C : List V) : Prop :=
  ∀ x a b, a ∈ C → b ∈ C → a ≠ x → b ≠ x → Reach (nbWithout nb x) a b

/-- every node of the set has a neighbour in the set other than itself -/
def HasEdge (nb : V → List V) (C : List V) : Prop := ∀ v ∈ C, ∃ w ∈ C, w ≠ v ∧ w ∈ nb v

theorem emit_bicon {nb : V → List V} {Vs : List V} {root : V} (hu : Undirected nb Vs) {s : BSt}
    (h1 : Inv1 nb Vs s) (h2 : Inv2 nb root s) (h4 : Inv4 root s) (hL : LowOK nb s) (hX : NoCross nb s)
    (hT : Conn nb s) (hTX : ConnX nb s) (hE : ES nb root s) (hCx : ∀ x, x ≠ root → Cx nb root x s)
    {f : Frame} {rest : List Frame} (hem : Emit s f rest) :
    Bicon nb (nodesOf (s.estack.drop (Pos s.loc (f.parent, f.child)))) := by
  obtain ⟨hfm, hpc, hcp, hpv, hcv, hbel⟩ := emit_basic h1 h4 hem
  have hnodes := emit_nodes hu.symm h1 h2 h4 hL hX hE hem
  have hcnb : f.child ∈ nb f.parent := (hE.real _ (mem_of_getElem? (hE.tree _ hfm hcp))).2.2
  intro x a b ha hb hax hbx
  have hu' := nbWithout_undirected hu x
  by_cases hxp : x = f.parent
  · have key := (emit_sep hu.symm h1 h2 h4 hL hX hT hE hem).1
    rw [hxp] at hax hbx hu' ⊢
    exact Reach.trans (Reach.symm hu'.symm (key a ha hax)) (key b hb hbx)
  · by_cases hxs : x ∈ s.visited ∧ D s.disc f.child ≤ D s.disc x
    · have hxr : x ≠ root := by
        intro he; rw [he, h4.droot] at hxs; omega
      have key : ∀ v ∈ nodesOf (s.estack.drop (Pos s.loc (f.parent, f.child))), v ≠ x →
          Reach (nbWithout nb x) root v := by
        intro v hv hvx
        have hvv : v ∈ s.visited := by
          rcases hnodes v hv with h | h
          · rw [h]; exact hpv
          · exact h.1
        have hvo : Open s v := by
          right
          obtain ⟨e, he, hve⟩ := mem_nodesOf_iff.mp hv
          exact ⟨e, List.mem_of_mem_drop he, hve⟩
        rcases hCx x hxr v hvv hvx with h | ⟨g, hg, hgx, hle⟩ | h
        · exact h
        · exfalso
          have hfc := frame_cases _ h4.sorted h4.chain g hg
          rw [hem.hs, spine_cons] at hg
          rcases List.mem_cons.mp hg with hg | hg
          · rw [hg] at hgx; exact hxp hgx.symm
          · rcases hfc with h | h
            · exact hxr (hgx.symm.trans h.1)
            · have := hbel g hg
              rw [hgx] at h; omega
        · exact absurd hvo h
      exact Reach.trans (Reach.symm hu'.symm (key a ha hax)) (key b hb hbx)
    · have hx' : x ∈ s.visited → D s.disc x < D s.disc f.child := by
        intro hv
        apply Decidable.byContradiction
        intro hn
        exact hxs ⟨hv, by omega⟩
      have hcx : f.child ≠ x := by
        intro he
        have := hx' (he ▸ hcv)
        rw [← he] at this; omega
      have hpc' : Reach (nbWithout nb x) f.parent f.child :=
        Reach.single (nbWithout_mem.mpr ⟨fun h => hxp h.symm, hcnb, hcx⟩)
      have key : ∀ v ∈ nodesOf (s.estack.drop (Pos s.loc (f.parent, f.child))),
          Reach (nbWithout nb x) f.parent v := by
        intro v hv
        rcases hnodes v hv with h | ⟨h, h'⟩
        · rw [h]; exact Reach.refl _
        · exact Reach.trans hpc' (hTX _ hfm v h h' x hx')
      exact Reach.trans (Reach.symm hu'.symm (key a ha)) (key b hb)

theorem emit_hasEdge {nb : V → List V} {Vs : List V} {root : V} (hsym : ∀ a b, b ∈ nb a → a ∈ nb b) {s : BSt}
    (h1 : Inv1 nb Vs s) (h4 : Inv4 root s) (hE : ES nb root s)
    {f : Frame} {rest : List Frame} (hem : Emit s f rest) :
    HasEdge nb (nodesOf (s.estack.drop (Pos s.loc (f.parent, f.child)))) := by
  obtain ⟨hfm, hpc, hcp, hpv, hcv, hbel⟩ := emit_basic h1 h4 hem
  intro v hv
  obtain ⟨e, he, hve⟩ := mem_nodesOf_iff.mp hv
  obtain ⟨i, hki, hie⟩ := mem_drop_iff.mp he
  obtain ⟨_, _, r3⟩ := hE.real e (mem_of_getElem? hie)
  by_cases hloop : e.1 = e.2
  · have hev : e = (v, v) := by
      rcases hve with h | h
      · rw [h]; exact Prod.ext rfl hloop.symm
      · rw [h]; exact Prod.ext hloop rfl
    rw [hev] at hie
    obtain ⟨j, q, hkj, _, hqv, hje⟩ := hE.loop _ hfm hcp i v hki hie
    have hq : q ∈ nodesOf (s.estack.drop (Pos s.loc (f.parent, f.child))) :=
      mem_nodesOf_iff.mpr ⟨(q, v), mem_drop_iff.mpr ⟨j, hkj, hje⟩, Or.inl rfl⟩
    obtain ⟨_, _, r3'⟩ := hE.real _ (mem_of_getElem? hje)
    exact ⟨q, hq, hqv, hsym _ _ r3'⟩
  · rcases hve with h | h
    · refine ⟨e.2, mem_nodesOf_iff.mpr ⟨e, he, Or.inr rfl⟩, ?_, ?_⟩
      · rw [h]; exact fun h' => hloop h'.symm
      · rw [h]; exact r3
    · refine ⟨e.1, mem_nodesOf_iff.mpr ⟨e, he, Or.inl rfl⟩, ?_, ?_⟩
      · rw [h]; exact hloop
      · rw [h]; exact hsym _ _ r3

theorem emit_nonempty {nb : V → List V} {Vs : List V} {root : V} {s : BSt}
    (h1 : Inv1 nb Vs s) (h4 : Inv4 root s) (hE : ES nb root s)
    {f : Frame} {rest : List Frame} (hem : Emit s f rest) :
    nodesOf (s.estack.drop (Pos s.loc (f.parent, f.child))) ≠ [] := by
  obtain ⟨hfm, hpc, hcp, hpv, hcv, hbel⟩ := emit_basic h1 h4 hem
  have : f.parent ∈ nodesOf (s.estack.drop (Pos s.loc (f.parent, f.child))) :=
    mem_nodesOf_iff.mpr ⟨(f.parent, f.child), mem_drop_iff.mpr ⟨_, Nat.le_refl _, hE.tree _ hfm hcp⟩, Or.inl rfl⟩
  intro h; rw [h] at this; simp at this

theorem nodup_insertSet {x : V} {l : List V} (h : l.Nodup) : (insertSet x l).Nodup := by
  unfold insertSet
  split
  · exact h
  · next hc =>
    have : x ∉ l := by simpa using hc
    exact List.nodup_cons.mpr ⟨this, h⟩

theorem aps_step (nb : V → List V) (s : BSt) (h : s.aps.Nodup) : (bstep nb s).aps.Nodup := by
  refine bstep_cases nb s (fun t => t.aps.Nodup) ?_ ?_ ?_ ?_ ?_ ?_ ?_ ?_ ?_
  all_goals intros
  all_goals first
    | exact h
    | exact nodup_insertSet h

/-- all invariants -/
structure InvB (nb : V → List V) (Vs : List V) (root : V) (s : BSt) : Prop where
  a : InvA nb Vs root s
  connX : ConnX nb s
  cx : ∀ x, x ≠ root → Cx nb root x s
  sepO : SepO nb Vs s
  sepC : s.comps.Pairwise (SepRel nb Vs)
  good : ∀ C ∈ s.comps, Bicon nb C ∧ HasEdge nb C ∧ C ≠ []
  apsnd : s.aps.Nodup

theorem invB_init (nb : V → List V) (Vs : List V) (root : V) (hr : root ∈ Vs) : InvB nb Vs root (init nb root) :=
  ⟨invA_init nb Vs root hr, connX_init nb root, fun x _ => cx_init nb root x, sepO_init nb Vs root,
    by simp [init], by intro C hC; simp [init] at hC, by simp [init]⟩

theorem invB_step (nb : V → List V) (Vs : List V) (hu : Undirected nb Vs) (root : V) (s : BSt)
    (h : InvB nb Vs root s) : InvB nb Vs root (bstep nb s) := by
  have ha := h.a
  have hsep := sep_step nb Vs root hu.symm s ha.i1 ha.i2 ha.i4 ha.low ha.nocross ha.conn ha.es h.sepO h.sepC
  refine ⟨invA_step nb Vs hu root s ha, connX_step nb Vs root s ha.i1 ha.i4 h.connX,
    fun x hx => cx_step nb Vs hu root x hx s ha.i1 ha.i4 ha.nocross ha.wit ha.conn ha.es (h.cx x hx),
    hsep.1, hsep.2, ?_, aps_step nb s h.apsnd⟩
  rcases comps_step nb root s ha.i4 with heq | ⟨f, rest, hem, hco, _, _⟩
  · rw [heq]; exact h.good
  · intro C hC
    rw [hco] at hC
    rcases List.mem_append.mp hC with hC | hC
    · exact h.good C hC
    · simp at hC
      rw [hC]
      exact ⟨emit_bicon hu ha.i1 ha.i2 ha.i4 ha.low ha.nocross ha.conn h.connX ha.es h.cx hem,
        emit_hasEdge hu.symm ha.i1 ha.i4 ha.es hem, emit_nonempty ha.i1 ha.i4 ha.es hem⟩

theorem invB_bgo (nb : V → List V) (Vs : List V) (hu : Undirected nb Vs) (root : V) (hr : root ∈ Vs) (n : Nat) :
    InvB nb Vs root (bgo nb n (init nb root)) :=
  bgo_inv nb (InvB nb Vs root) (invB_step nb Vs hu root) n _ (invB_init nb Vs root hr)

/-- two components related by `SepRel` share at most the cut node -/
theorem sepRel_share {nb : V → List V} {Vs : List V} {C C' : List V} (h : SepRel nb Vs C C') :
    ∃ x0, ∀ v, v ∈ C → v ∈ C' → v = x0 := by
  obtain ⟨x0, c, _, ha, hb⟩ := h
  refine ⟨x0, fun v hv hv' => ?_⟩
  apply Classical.byContradiction
  intro hne
  exact hb v hv' hne (ha v hv hne)

theorem comps_share_one (nb : V → List V) (Vs : List V) (hu : Undirected nb Vs) (root : V) (hr : root ∈ Vs) :
    let cs := (biccsFrom nb root (biccFuel nb Vs)).1
    ∀ i j (hi : i < cs.length) (hj : j < cs.length), i ≠ j → ∀ x y, x ∈ cs[i] → x ∈ cs[j] → y ∈ cs[i] → y ∈ cs[j] →
      x = y := by
  have h := (invB_bgo nb Vs hu root hr (biccFuel nb Vs)).sepC
  show ∀ i j (hi : i < (bgo nb (biccFuel nb Vs) (init nb root)).comps.length)
    (hj : j < (bgo nb (biccFuel nb Vs) (init nb root)).comps.length), i ≠ j → ∀ x y,
    x ∈ (bgo nb (biccFuel nb Vs) (init nb root)).comps[i] → x ∈ (bgo nb (biccFuel nb Vs) (init nb root)).comps[j] →
    y ∈ (bgo nb (biccFuel nb Vs) (init nb root)).comps[i] → y ∈ (bgo nb (biccFuel nb Vs) (init nb root)).comps[j] →
    x = y
  generalize (bgo nb (biccFuel nb Vs) (init nb root)).comps = cs at h
  rw [List.pairwise_iff_getElem] at h
  intro i j hi hj hij x y hxi hxj hyi hyj
  rcases Nat.lt_or_gt_of_ne hij with hlt | hlt
  · obtain ⟨x0, hx0⟩ := sepRel_share (h i j hi hj hlt)
    rw [hx0 x hxi hxj, hx0 y hyi hyj]
  · obtain ⟨x0, hx0⟩ := sepRel_share (h j i hj hi hlt)
    rw [hx0 x hxj hxi, hx0 y hyj hyi]

theorem comp_biconnected (nb : V → List V) (Vs : List V) (hu : Undirected nb Vs) (root : V) (hr : root ∈ Vs) :
    ∀ c ∈ (biccsFrom nb root (biccFuel nb Vs)).1, ∀ x a b, a ∈ c → b ∈ c → a ≠ x → b ≠ x →
      Reach (nbWithout nb x) a b := by
  intro c hc
  exact ((invB_bgo nb Vs hu root hr (biccFuel nb Vs)).good c hc).1

/-! ## `sortStrings` and `sameSets` -/

theorem insertSorted_perm (x : String) (l : List String) : (insertSorted x l).Perm (x :: l) := by
  induction l with
  | nil => exact List.Perm.refl _
  | cons y ys ih =>
    simp only [insertSorted]
    split
    · exact List.Perm.refl _
    · exact List.Perm.trans (List.Perm.cons y ih) (List.Perm.swap x y ys)

theorem sortStrings_cons (x : String) (l : List String) : sortStrings (x :: l) = insertSorted x (sortStrings l) := rfl

theorem sortStrings_perm (l : List String) : (sortStrings l).Perm l := by
  induction l with
  | nil => exact List.Perm.refl _
  | cons x xs ih =>
    rw [sortStrings_cons]
    exact List.Perm.trans (insertSorted_perm x _) (List.Perm.cons x ih)

theorem mem_sortStrings {y : String} {l : List String} : y ∈ sortStrings l ↔ y ∈ l :=
  (sortStrings_perm l).mem_iff

theorem insertSorted_comm (x y : String) (l : List String) :
    insertSorted x (insertSorted y l) = insertSorted y (insertSorted x l) := by
  induction l with
  | nil =>
    simp only [insertSorted]
    by_cases hxy : x ≤ y <;> by_cases hyx : y ≤ x
    · have := String.le_antisymm hxy hyx; subst this; rfl
    · simp [hxy, hyx]
    · simp [hxy, hyx]
    · rcases String.le_total x y with h | h
      · exact absurd h hxy
      · exact absurd h hyx
  | cons z l ih =>
    by_cases hxz : x ≤ z <;> by_cases hyz : y ≤ z
    · by_cases hxy : x ≤ y <;> by_cases hyx : y ≤ x
      · have := String.le_antisymm hxy hyx; subst this; rfl
      · simp [insertSorted, hxz, hyz, hxy, hyx]
      · simp [insertSorted, hxz, hyz, hxy, hyx]
      · rcases String.le_total x y with h | h
        · exact absurd h hxy
        · exact absurd h hyx
    · have hyx : ¬ y ≤ x := fun h => hyz (String.le_trans h hxz)
      simp [insertSorted, hxz, hyz, hyx]
    · have hxy : ¬ x ≤ y := fun h => hxz (String.le_trans h hyz)
      simp [insertSorted, hxz, hyz, hxy]
    · simp [insertSorted, hxz, hyz, ih]

theorem sort_perm_eq {l₁ l₂ : List String} (h : l₁.Perm l₂) : sortStrings l₁ = sortStrings l₂ := by
  induction h with
  | nil => rfl
  | cons x _ ih => rw [sortStrings_cons, sortStrings_cons, ih]
  | swap x y l => rw [sortStrings_cons, sortStrings_cons, sortStrings_cons, sortStrings_cons, insertSorted_comm]
  | trans _ _ ih1 ih2 => rw [ih1, ih2]

theorem sort_idem (l : List String) : sortStrings (sortStrings l) = sortStrings l :=
  sort_perm_eq (sortStrings_perm l)

theorem sort_eq_of_mem_iff {l₁ l₂ : List String} (h1 : l₁.Nodup) (h2 : l₂.Nodup) (h : ∀ v, v ∈ l₁ ↔ v ∈ l₂) :
    sortStrings l₁ = sortStrings l₂ :=
  sort_perm_eq ((List.perm_ext_iff_of_nodup h1 h2).mpr h)

theorem mem_iff_of_sort_eq {l₁ l₂ : List String} (h : sortStrings l₁ = sortStrings l₂) (v : String) :
    v ∈ l₁ ↔ v ∈ l₂ := by
  rw [← mem_sortStrings (l := l₁), ← mem_sortStrings (l := l₂), h]

theorem sameSets_intro {a b : List (List V)} (h1 : ∀ x ∈ a, sortStrings x ∈ b.map sortStrings)
    (h2 : ∀ y ∈ b, sortStrings y ∈ a.map sortStrings) (h3 : a.length = b.length) : sameSets a b = true := by
  unfold sameSets
  simp only [Bool.and_eq_true, List.all_eq_true, List.contains_iff_mem, beq_iff_eq, List.length_map]
  refine ⟨⟨?_, ?_⟩, h3⟩
  · intro x hx
    obtain ⟨x', hx', rfl⟩ := List.mem_map.mp hx
    exact h1 x' hx'
  · intro y hy
    obtain ⟨y', hy', rfl⟩ := List.mem_map.mp hy
    exact h2 y' hy'

/-! ## TOP RUNG: the reported components are the blocks -/

/-- the links between two different nodes, each once, smaller end first -/
def linksOf (nb : V → List V) (Vs : List V) : List (V × V) := (edgesOf nb Vs).filter (fun e => e.1 != e.2)

theorem mem_linksOf {nb : V → List V} {Vs : List V} {e : V × V} :
    e ∈ linksOf nb Vs ↔ e.1 ∈ Vs ∧ e.2 ∈ nb e.1 ∧ e.1 ≤ e.2 ∧ e.1 ≠ e.2 := by
  unfold linksOf edgesOf
  rw [List.mem_filter, List.mem_eraseDups, List.mem_flatMap]
  constructor
  · rintro ⟨⟨a, ha, h⟩, hne⟩
    obtain ⟨b, hb, hsome⟩ := List.mem_filterMap.mp h
    split at hsome
    · next hle =>
      have : e = (a, b) := (Option.some.inj hsome).symm
      subst this
      exact ⟨ha, hb, hle, by simpa using hne⟩
    · simp at hsome
  · rintro ⟨h1, h2, h3, h4⟩
    exact ⟨⟨e.1, h1, List.mem_filterMap.mpr ⟨e.2, h2, by rw [if_pos h3]⟩⟩, by simpa using h4⟩

theorem mem_blocks {nb : V → List V} {Vs : List V} {B : List V} :
    B ∈ blocks nb Vs ↔ ∃ e ∈ linksOf nb Vs,
      B = sortStrings (nodesOf ((linksOf nb Vs).filter (sameBlock nb Vs e))) := by
  unfold blocks linksOf
  simp only [List.mem_eraseDups, List.mem_map, List.map_map]
  constructor
  · rintro ⟨e, he, rfl⟩; exact ⟨e, he, rfl⟩
  · rintro ⟨e, he, rfl⟩; exact ⟨e, he, rfl⟩

theorem nodup_blocks (nb : V → List V) (Vs : List V) : (blocks nb Vs).Nodup := by
  unfold blocks
  exact nodup_eraseDups_aux _ _ (Nat.le_refl _)

theorem classOf_reach {nb : V → List V} {Vs : List V} (hu : Undirected nb Vs) (x a : V) (ha : a ∈ Vs) (hax : a ≠ x)
    (b : V) : (classOf (nbWithout nb x) (Vs.filter (· != x)) a).contains b = true ↔ Reach (nbWithout nb x) a b := by
  have hu' := nbWithout_undirected hu x
  have ha' : a ∈ Vs.filter (· != x) := List.mem_filter.mpr ⟨ha, by simpa using hax⟩
  have := (C15.findComp_exact (nbWithout nb x) _ hu' a ha' [] (by intro a ha; simp at ha) (by simp)).2.1 b
  simp only [classOf, List.contains_iff_mem]
  exact this

theorem filter_pair_mem {u w x a : V} {t : List V} (h : [u, w].filter (· != x) = a :: t) :
    (a = u ∨ a = w) ∧ a ≠ x := by
  have ha : a ∈ [u, w].filter (· != x) := by rw [h]; simp
  obtain ⟨h1, h2⟩ := List.mem_filter.mp ha
  exact ⟨by simpa using h1, by simpa using h2⟩

theorem filter_pair_ne_nil {u w x : V} (h : u ≠ w) : ∃ a t, [u, w].filter (· != x) = a :: t := by
  by_cases hu : u = x
  · have hw : w ≠ x := fun h' => h (hu.trans h'.symm)
    refine ⟨w, [], ?_⟩
    rw [List.filter_cons_of_neg (by simp [hu]), List.filter_cons_of_pos (by simpa using hw)]
    rfl
  · refine ⟨u, [w].filter (· != x), ?_⟩
    rw [List.filter_cons_of_pos (by simpa using hu)]

theorem separates_false {nb : V → List V} {Vs : List V} (hu : Undirected nb Vs) {x : V} {e f : V × V}
    (he1 : e.1 ∈ Vs) (he2 : e.2 ∈ Vs)
    (h : ∀ a, (a = e.1 ∨ a = e.2) → a ≠ x → ∀ b, (b = f.1 ∨ b = f.2) → b ≠ x → Reach (nbWithout nb x) a b) :
    separates nb Vs x e f = false := by
  unfold separates
  simp only []
  split
  · next a _ b _ hre hrf =>
    obtain ⟨ha1, ha2⟩ := filter_pair_mem hre
    obtain ⟨hb1, hb2⟩ := filter_pair_mem hrf
    have haV : a ∈ Vs := by rcases ha1 with h' | h' <;> rw [h'] <;> assumption
    rw [(classOf_reach hu x a haV ha2 b).mpr (h a ha1 ha2 b hb1 hb2)]
    rfl
  · rfl

theorem separates_true {nb : V → List V} {Vs : List V} (hu : Undirected nb Vs) {x : V} {e f : V × V}
    (he1 : e.1 ∈ Vs) (he2 : e.2 ∈ Vs) (hene : e.1 ≠ e.2) (hfne : f.1 ≠ f.2)
    (h : ∀ a, (a = e.1 ∨ a = e.2) → a ≠ x → ∀ b, (b = f.1 ∨ b = f.2) → b ≠ x → ¬ Reach (nbWithout nb x) a b) :
    separates nb Vs x e f = true := by
  unfold separates
  simp only []
  split
  · next a _ b _ hre hrf =>
    obtain ⟨ha1, ha2⟩ := filter_pair_mem hre
    obtain ⟨hb1, hb2⟩ := filter_pair_mem hrf
    have haV : a ∈ Vs := by rcases ha1 with h' | h' <;> rw [h'] <;> assumption
    have hn := h a ha1 ha2 b hb1 hb2
    have : (classOf (nbWithout nb x) (Vs.filter (· != x)) a).contains b = false := by
      apply Bool.eq_false_iff.mpr
      intro hc
      exact hn ((classOf_reach hu x a haV ha2 b).mp hc)
    rw [this]; rfl
  · next hno =>
    exfalso
    obtain ⟨a, t, hre⟩ := filter_pair_ne_nil (x := x) hene
    obtain ⟨b, t', hrf⟩ := filter_pair_ne_nil (x := x) hfne
    exact hno a t b t' hre hrf

theorem comps_blocks {nb : V → List V} {Vs : List V} (hu : Undirected nb Vs) (cs : List (List V))
    (hgood : ∀ C ∈ cs, Bicon nb C ∧ HasEdge nb C ∧ C ≠ [])
    (hsep : cs.Pairwise (SepRel nb Vs))
    (hwf : ∀ C ∈ cs, (∀ v ∈ C, v ∈ Vs) ∧ C.Nodup)
    (hcov : ∀ u v, u ∈ Vs → v ∈ nb u → u ≠ v → ∃ C ∈ cs, u ∈ C ∧ v ∈ C) :
    sameSets cs (blocks nb Vs) = true := by
  have hpair : ∀ C ∈ cs, ∀ C' ∈ cs, C = C' ∨ SepRel nb Vs C C' ∨ SepRel nb Vs C' C := by
    intro C hC C' hC'
    obtain ⟨i, hi, rfl⟩ := List.getElem_of_mem hC
    obtain ⟨j, hj, rfl⟩ := List.getElem_of_mem hC'
    have hp := List.pairwise_iff_getElem.mp hsep
    rcases Nat.lt_trichotomy i j with h | h | h
    · exact Or.inr (Or.inl (hp i j hi hj h))
    · subst h; exact Or.inl rfl
    · exact Or.inr (Or.inr (hp j i hj hi h))
  have ord : ∀ v w, v ∈ Vs → w ∈ nb v → w ≠ v → ∃ e ∈ linksOf nb Vs, e = (v, w) ∨ e = (w, v) := by
    intro v w hv hw hne
    by_cases hle : v ≤ w
    · exact ⟨(v, w), mem_linksOf.mpr ⟨hv, hw, hle, fun h => hne h.symm⟩, Or.inl rfl⟩
    · have hle' : w ≤ v := by
        rcases String.le_total v w with h | h
        · exact absurd h hle
        · exact h
      exact ⟨(w, v), mem_linksOf.mpr ⟨hu.closed v hv w hw, hu.symm v w hw, hle', hne⟩, Or.inr rfl⟩
  have key : ∀ e ∈ linksOf nb Vs, ∀ C ∈ cs, e.1 ∈ C → e.2 ∈ C →
      ∀ v, v ∈ nodesOf ((linksOf nb Vs).filter (sameBlock nb Vs e)) ↔ v ∈ C := by
    intro e he C hC h1 h2 v
    obtain ⟨he1, he2, _, he4⟩ := mem_linksOf.mp he
    have he2V : e.2 ∈ Vs := hu.closed _ he1 _ he2
    constructor
    · intro hv
      obtain ⟨f', hf', hvf⟩ := mem_nodesOf_iff.mp hv
      obtain ⟨hf'es, hsb⟩ := List.mem_filter.mp hf'
      obtain ⟨hf1, hf2, _, hf4⟩ := mem_linksOf.mp hf'es
      obtain ⟨C', hC', h1', h2'⟩ := hcov f'.1 f'.2 hf1 hf2 hf4
      have hsb' : ∀ x ∈ Vs, separates nb Vs x e f' = false := by
        intro x hx
        unfold sameBlock at hsb
        have := List.all_eq_true.mp hsb x hx
        simpa using this
      have haC : ∀ a, (a = e.1 ∨ a = e.2) → a ∈ C := by
        intro a ha; rcases ha with h | h <;> rw [h] <;> assumption
      have hbC : ∀ b, (b = f'.1 ∨ b = f'.2) → b ∈ C' := by
        intro b hb; rcases hb with h | h <;> rw [h] <;> assumption
      rcases hpair C hC C' hC' with h | ⟨x0, c, hx0, ha, hb⟩ | ⟨x0, c, hx0, ha, hb⟩
      · rw [h]; rcases hvf with h' | h' <;> rw [h'] <;> assumption
      · exfalso
        have := separates_true hu (x := x0) he1 he2V he4 hf4 (by
          intro a ha1 ha2 b hb1 hb2 hr
          exact hb b (hbC b hb1) hb2 (Reach.trans (ha a (haC a ha1) ha2) hr))
        rw [hsb' x0 hx0] at this; exact Bool.noConfusion this
      · exfalso
        have hu' := nbWithout_undirected hu x0
        have := separates_true hu (x := x0) he1 he2V he4 hf4 (by
          intro a ha1 ha2 b hb1 hb2 hr
          exact hb a (haC a ha1) ha2 (Reach.trans (ha b (hbC b hb1) hb2) (Reach.symm hu'.symm hr)))
        rw [hsb' x0 hx0] at this; exact Bool.noConfusion this
    · intro hv
      obtain ⟨hbi, hhe, _⟩ := hgood C hC
      obtain ⟨w, hw, hwv, hwnb⟩ := hhe v hv
      have hvV := (hwf C hC).1 v hv
      obtain ⟨f', hf', hfeq⟩ := ord v w hvV hwnb hwv
      have hbC : ∀ b, (b = f'.1 ∨ b = f'.2) → b ∈ C := by
        intro b hb
        rcases hfeq with h | h <;> rw [h] at hb <;> simp only [] at hb <;> rcases hb with h' | h' <;> rw [h'] <;>
          assumption
      have haC : ∀ a, (a = e.1 ∨ a = e.2) → a ∈ C := by
        intro a ha; rcases ha with h | h <;> rw [h] <;> assumption
      have hsb : sameBlock nb Vs e f' = true := by
        unfold sameBlock
        apply List.all_eq_true.mpr
        intro x _
        rw [separates_false hu he1 he2V (fun a ha1 ha2 b hb1 hb2 => hbi x a b (haC a ha1) (hbC b hb1) ha2 hb2)]
        rfl
      refine mem_nodesOf_iff.mpr ⟨f', List.mem_filter.mpr ⟨hf', hsb⟩, ?_⟩
      rcases hfeq with h | h <;> rw [h]
      · exact Or.inl rfl
      · exact Or.inr rfl
  have sortEq : ∀ e ∈ linksOf nb Vs, ∀ C ∈ cs, e.1 ∈ C → e.2 ∈ C →
      sortStrings (sortStrings (nodesOf ((linksOf nb Vs).filter (sameBlock nb Vs e)))) = sortStrings C := by
    intro e he C hC h1 h2
    rw [sort_idem]
    exact sort_eq_of_mem_iff (nodup_nodesOf _) (hwf C hC).2 (key e he C hC h1 h2)
  have d1 : ∀ C ∈ cs, sortStrings C ∈ (blocks nb Vs).map sortStrings := by
    intro C hC
    obtain ⟨_, hhe, hne⟩ := hgood C hC
    obtain ⟨v, hv⟩ := List.exists_mem_of_ne_nil C hne
    obtain ⟨w, hw, hwv, hwnb⟩ := hhe v hv
    obtain ⟨f', hf', hfeq⟩ := ord v w ((hwf C hC).1 v hv) hwnb hwv
    have h12 : f'.1 ∈ C ∧ f'.2 ∈ C := by
      rcases hfeq with h | h <;> rw [h] <;> exact ⟨by assumption, by assumption⟩
    exact List.mem_map.mpr ⟨_, mem_blocks.mpr ⟨f', hf', rfl⟩, sortEq f' hf' C hC h12.1 h12.2⟩
  have d2 : ∀ B ∈ blocks nb Vs, sortStrings B ∈ cs.map sortStrings := by
    intro B hB
    obtain ⟨e, he, rfl⟩ := mem_blocks.mp hB
    obtain ⟨he1, he2, _, he4⟩ := mem_linksOf.mp he
    obtain ⟨C, hC, h1, h2⟩ := hcov e.1 e.2 he1 he2 he4
    exact List.mem_map.mpr ⟨C, hC, (sortEq e he C hC h1 h2).symm⟩
  apply sameSets_intro d1 d2
  have hA : (cs.map sortStrings).Nodup := by
    unfold List.Nodup
    rw [List.pairwise_map]
    refine List.Pairwise.imp_of_mem ?_ hsep
    intro C C' hC hC' hrel heq
    obtain ⟨x0, hx0⟩ := sepRel_share hrel
    obtain ⟨_, hhe, hne⟩ := hgood C hC
    obtain ⟨v, hv⟩ := List.exists_mem_of_ne_nil C hne
    obtain ⟨w, hw, hwv, _⟩ := hhe v hv
    have hm := mem_iff_of_sort_eq heq
    have e1 := hx0 v hv ((hm v).mp hv)
    have e2 := hx0 w hw ((hm w).mp hw)
    exact hwv (e2.trans e1.symm)
  have hBm : (blocks nb Vs).map sortStrings = blocks nb Vs := by
    have : ∀ B ∈ blocks nb Vs, sortStrings B = id B := by
      intro B hB
      obtain ⟨e, _, rfl⟩ := mem_blocks.mp hB
      exact sort_idem _
    rw [List.map_congr_left this, List.map_id]
  have hBn : ((blocks nb Vs).map sortStrings).Nodup := by rw [hBm]; exact nodup_blocks nb Vs
  have hperm : (cs.map sortStrings).Perm ((blocks nb Vs).map sortStrings) := by
    apply (List.perm_ext_iff_of_nodup hA hBn).mpr
    intro a
    constructor
    · intro ha
      obtain ⟨C, hC, rfl⟩ := List.mem_map.mp ha
      exact d1 C hC
    · intro ha
      obtain ⟨B, hB, rfl⟩ := List.mem_map.mp ha
      exact d2 B hB
  have := hperm.length_eq
  simpa using this

theorem aps_same {nb : V → List V} {Vs : List V} (hd : Vs.Nodup) (aps : List V) (hnd : aps.Nodup)
    (hmem : ∀ a, a ∈ aps ↔ a ∈ Vs ∧ isCut nb Vs a = true) : sameSets [aps] [cutVertices nb Vs] = true := by
  have hcv : (cutVertices nb Vs).Nodup := by
    unfold cutVertices; exact hd.filter _
  have heq : sortStrings aps = sortStrings (cutVertices nb Vs) := by
    apply sort_eq_of_mem_iff hnd hcv
    intro v
    rw [hmem v]; unfold cutVertices; rw [List.mem_filter]
  apply sameSets_intro
  · intro x hx; simp at hx; subst hx; simp [heq]
  · intro y hy; simp at hy; subst hy; simp [heq]
  · rfl

theorem biccExact_main (nb : V → List V) (Vs : List V) (hu : Undirected nb Vs) (hd : Vs.Nodup)
    (hc : connectedB nb Vs = true) (root : V) (hr : root ∈ Vs) :
    biccExactB nb Vs (biccsFrom nb root (biccFuel nb Vs)).1 (biccsFrom nb root (biccFuel nb Vs)).2 = true := by
  have hB := invB_bgo nb Vs hu root hr (biccFuel nb Vs)
  have hwf := wellformed nb Vs hu root hr
  have h1 : sameSets (biccsFrom nb root (biccFuel nb Vs)).1 (blocks nb Vs) = true :=
    comps_blocks hu _ hB.good hB.sepC hwf.1 (covers_links nb Vs hu root hr hc)
  have h2 : sameSets [(biccsFrom nb root (biccFuel nb Vs)).2] [cutVertices nb Vs] = true := by
    apply aps_same hd
    · show (if (bgo nb (biccFuel nb Vs) (init nb root)).rootChildren > 1 then
        insertSet root (bgo nb (biccFuel nb Vs) (init nb root)).aps else (bgo nb (biccFuel nb Vs) (init nb root)).aps).Nodup
      split
      · exact nodup_insertSet hB.apsnd
      · exact hB.apsnd
    · intro a
      exact ⟨fun h => ⟨hwf.2 a h, aps_sound nb Vs hu hd root hr a h⟩,
        fun h => aps_complete nb Vs hu hd root hr hc a h.1 h.2⟩
  unfold biccExactB
  rw [h1, h2]; rfl

end Gaftools.Proofs.Bicc2
