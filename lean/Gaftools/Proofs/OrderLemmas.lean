import Gaftools.Model.Algo
/-!
# Lemmas for C06: depth-first traversal of a path graph
-/
namespace Gaftools.Proofs.Order
open Gaftools.Gfa Gaftools.Algo

/-- a path graph on the distinct names `p` (same as `Gaftools.C06.IsPathNb`, unfolded) -/
def PathNb (nb : V → List V) (p : List V) : Prop :=
  p.Nodup ∧ ∀ i (hi : i < p.length), ∀ x, x ∈ nb p[i] ↔ ((i ≥ 1 ∧ p[i - 1]? = some x) ∨ p[i + 1]? = some x)

theorem mem_take_succ_of_mem_take {p : List V} {i : Nat} {x : V} (h : x ∈ p.take i) : x ∈ p.take (i + 1) := by
  rw [List.mem_take_iff_getElem] at h ⊢
  obtain ⟨j, hj, e⟩ := h
  exact ⟨j, by omega, e⟩

theorem getElem_mem_take_succ {p : List V} {i : Nat} (hi : i < p.length) : p[i] ∈ p.take (i + 1) := by
  rw [List.mem_take_iff_getElem]
  exact ⟨i, by omega, rfl⟩

theorem getElem_not_mem_take {p : List V} (hnd : p.Nodup) {i : Nat} (hi : i < p.length) : p[i] ∉ p.take i := by
  intro h
  rw [List.mem_take_iff_getElem] at h
  obtain ⟨j, hj, e⟩ := h
  have := (List.getElem_inj hnd).mp e
  omega

theorem eq_of_mem_take_succ {p : List V} {i : Nat} {x : V} (h : x ∈ p.take (i + 1)) (h' : x ∉ p.take i) :
    ∃ hi : i < p.length, x = p[i] := by
  rw [List.mem_take_iff_getElem] at h
  obtain ⟨j, hj, e⟩ := h
  by_cases hji : j = i
  · subst hji; exact ⟨by omega, e.symm⟩
  · exfalso; apply h'
    rw [List.mem_take_iff_getElem]
    exact ⟨j, by omega, e⟩

/-- loop invariant: `out` is the reversed prefix `p[0..i)`, the stack holds only visited nodes and copies of `p[i]`,
    and at least one copy of `p[i]` if there is one -/
theorem dfsLoop_path (nb : V → List V) (p Vs : List V) (hp : PathNb nb p) (hV : ∀ x ∈ p, x ∈ Vs) :
    ∀ st out, ∀ i, out = (p.take i).reverse → (∀ x ∈ st, x ∈ p.take (i + 1)) → (∀ hi : i < p.length, p[i] ∈ st) →
      dfsLoop nb Vs st out = p.reverse := by
  intro st out
  induction st, out using dfsLoop.induct (nb := nb) (Vs := Vs) with
  | case1 out =>
    intro i hout _ hnext
    rw [dfsLoop]
    have hi : ¬ i < p.length := fun hi => by simpa using hnext hi
    rw [hout, List.take_of_length_le (by omega)]
  | case2 s st out h ih =>
    intro i hout hst hnext
    rw [dfsLoop, dif_pos h]
    have hs : s ∈ p.take (i + 1) := hst s (by simp)
    have hso : s ∈ out := by
      rcases h with h | h
      · exact h
      · exact absurd (hV s (List.mem_of_mem_take hs)) h
    refine ih i hout (fun x hx => hst x (List.mem_cons_of_mem _ hx)) ?_
    intro hi
    rcases List.mem_cons.mp (hnext hi) with e | e
    · exfalso
      rw [hout, List.mem_reverse, ← e] at hso
      exact getElem_not_mem_take hp.1 hi hso
    · exact e
  | case3 s st out h ih =>
    intro i hout hst hnext
    rw [dfsLoop, dif_neg h]
    have hs : s ∈ p.take (i + 1) := hst s (by simp)
    have hso : s ∉ p.take i := by
      intro hc; apply h; left; rw [hout]; exact List.mem_reverse.mpr hc
    obtain ⟨hi, rfl⟩ := eq_of_mem_take_succ hs hso
    refine ih (i + 1) ?_ ?_ ?_
    · rw [hout, List.take_succ_eq_append_getElem hi, List.reverse_append]; rfl
    · intro x hx
      rcases List.mem_append.mp hx with hx | hx
      · rcases (hp.2 i hi x).mp (List.mem_reverse.mp hx) with ⟨h1, h2⟩ | h2
        · rw [List.mem_take_iff_getElem]
          have hlt : i - 1 < p.length := by omega
          rw [List.getElem?_eq_getElem hlt] at h2
          exact ⟨i - 1, by omega, by simpa using h2⟩
        · rw [List.mem_take_iff_getElem]
          obtain ⟨hlt, e⟩ := List.getElem?_eq_some_iff.mp h2
          exact ⟨i + 1, by omega, e⟩
      · exact mem_take_succ_of_mem_take (hst x (List.mem_cons_of_mem _ hx))
    · intro hi'
      apply List.mem_append_left
      rw [List.mem_reverse, hp.2 i hi]
      right
      exact List.getElem?_eq_getElem hi'

theorem dfs_path_perm (nb : V → List V) (p Vs : List V) (hp : PathNb nb p) (hne : p ≠ []) (hperm : Vs.Perm p) :
    dfs nb Vs (p.head hne) = p := by
  have hlen : 0 < p.length := List.length_pos_iff.mpr hne
  have hhead : p.head hne = p[0] := by rw [List.head_eq_getElem]
  have hV : ∀ x ∈ p, x ∈ Vs := fun x hx => hperm.mem_iff.mpr hx
  unfold dfs
  have h1 : Vs.contains (p.head hne) = true := by
    rw [List.contains_iff_mem]; exact hV _ (List.head_mem hne)
  rw [h1, if_neg (by simp)]
  split
  · rename_i h2
    have hl : Vs.length = 1 := by simpa using h2
    have hpl : p.length = 1 := by rw [← hperm.length_eq]; exact hl
    match p, hpl, hperm with
    | [a], _, hperm => exact List.perm_singleton.mp hperm
  · rename_i h2
    have hpl : 2 ≤ p.length := by
      have : Vs.length ≠ 1 := by simpa using h2
      rw [hperm.length_eq] at this; omega
    have hnb : p[1] ∈ nb (p.head hne) := by
      rw [hhead, hp.2 0 hlen]; right; exact List.getElem?_eq_getElem (by omega)
    rw [if_neg (by
      intro hc
      rw [List.isEmpty_iff] at hc
      rw [hc] at hnb; simp at hnb)]
    rw [dfsLoop_path nb p Vs hp hV [p.head hne] [] 0 (by simp)
      (by intro x hx; rw [List.mem_singleton] at hx; rw [hx, hhead]; exact getElem_mem_take_succ hlen)
      (by intro hi; rw [hhead]; simp)]
    simp

theorem nodup_reverse {l : List V} (h : l.Nodup) : l.reverse.Nodup := by
  unfold List.Nodup at *
  rw [List.pairwise_reverse]
  exact h.imp (fun h => h.symm)

theorem pathNb_reverse (nb : V → List V) (p : List V) (hp : PathNb nb p) : PathNb nb p.reverse := by
  refine ⟨nodup_reverse hp.1, ?_⟩
  intro i hi x
  have hi' : i < p.length := by simpa using hi
  have e : p.reverse[i] = p[p.length - 1 - i] := by rw [List.getElem_reverse]
  rw [e, hp.2 (p.length - 1 - i) (by omega) x]
  have a1 : p.reverse[i + 1]? = if i + 1 < p.length then p[p.length - 1 - i - 1]? else none := by
    split
    · rename_i h; rw [List.getElem?_reverse h]; congr 1
    · rename_i h; rw [List.getElem?_eq_none (by simpa using Nat.le_of_not_lt h)]
  have a2 : i ≥ 1 → p.reverse[i - 1]? = p[p.length - 1 - i + 1]? := by
    intro h; rw [List.getElem?_reverse (by omega)]; congr 1; omega
  constructor
  · rintro (⟨h1, h2⟩ | h2)
    · right; rw [a1, if_pos (by omega)]; exact h2
    · have : p.length - 1 - i + 1 < p.length := (List.getElem?_eq_some_iff.mp h2).1
      left; exact ⟨by omega, by rw [a2 (by omega)]; exact h2⟩
  · rintro (⟨h1, h2⟩ | h2)
    · right; rw [← a2 h1]; exact h2
    · rw [a1] at h2
      split at h2
      · left; exact ⟨by omega, h2⟩
      · cases h2

end Gaftools.Proofs.Order
