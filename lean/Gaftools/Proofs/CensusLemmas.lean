import Gaftools.Model.Order
/-!
# Lemmas for C06d: a connected graph whose degrees are one (at a start vertex) or two is a path

Generic part: `nb : α → List α` is a symmetric, irreflexive neighbour function with duplicate-free neighbour lists.  The walk
that starts at a vertex `x` of degree one and always leaves through the neighbour it did not come from is stored newest
element first (`Inv`); it can be prolonged until it reaches a second vertex of degree one (`walk_exists`), and then it is
closed under `nb`, so that connectedness makes it cover all vertices (`path_of_walk`).
-/
namespace Gaftools.Proofs.Census

/-! ## counting -/

theorem length_filter3 {α} (p q : α → Bool) (hd : ∀ a, p a = true → q a = true → False) (l : List α) :
    (l.filter p).length + (l.filter q).length + (l.filter (fun a => !p a && !q a)).length = l.length := by
  induction l with
  | nil => simp
  | cons a l ih =>
    simp only [List.filter_cons]
    cases hp : p a <;> cases hq : q a
    · simp; omega
    · simp; omega
    · simp; omega
    · exact absurd hq (fun h => hd a hp h)

/-- two disjoint tests that together account for every position hold everywhere -/
theorem all_of_count {α} (p q : α → Bool) (hd : ∀ a, p a = true → q a = true → False) (l : List α)
    (h : l.length ≤ (l.filter p).length + (l.filter q).length) : ∀ a ∈ l, p a = true ∨ q a = true := by
  have h3 := length_filter3 p q hd l
  have h0 : (l.filter (fun a => !p a && !q a)).length = 0 := by omega
  have hnil := List.length_eq_zero_iff.mp h0
  rw [List.filter_eq_nil_iff] at hnil
  intro a ha
  have := hnil a ha
  cases hp : p a
  · cases hq : q a
    · simp [hp, hq] at this
    · right; rfl
  · left; rfl

theorem length_one {α} (l : List α) (h : l.length = 1) : ∃ a, l = [a] := by
  match l, h with
  | [a], _ => exact ⟨a, rfl⟩

theorem length_two {α} (l : List α) (h : l.length = 2) : ∃ a b, l = [a, b] := by
  match l, h with
  | [a, b], _ => exact ⟨a, b, rfl⟩

/-! ## the walk -/

section Walk
variable {α : Type} (nb : α → List α) (x : α)

/-- `p` (newest element first) is a walk from `x`: duplicate-free, consecutive elements adjacent, and every element but the
    newest has all its neighbours next to it in the walk -/
structure Inv (p : List α) : Prop where
  nodup : p.Nodup
  last : p.getLast? = some x
  adj : ∀ i a b, p[i]? = some a → p[i + 1]? = some b → a ∈ nb b
  inner : ∀ i a c, p[i]? = some a → p[i + 1]? = some c → ∀ b ∈ nb c, b = a ∨ p[i + 2]? = some b

variable {nb x}

theorem Inv.extend {v w : α} {rest : List α} (h : Inv nb x (v :: rest)) (hw : w ∈ nb v) (hn : w ∉ v :: rest)
    (hb : ∀ b ∈ nb v, b = w ∨ rest[0]? = some b) : Inv nb x (w :: v :: rest) := by
  refine ⟨List.nodup_cons.mpr ⟨hn, h.nodup⟩, by rw [List.getLast?_cons_cons]; exact h.last, ?_, ?_⟩
  · intro i a b h1 h2
    cases i with
    | zero =>
      simp only [List.getElem?_cons_zero, List.getElem?_cons_succ, Option.some.injEq, Nat.zero_add] at h1 h2
      subst h1; subst h2; exact hw
    | succ i =>
      exact h.adj i a b (by simpa using h1) (by simpa using h2)
  · intro i a c h1 h2 b hbm
    cases i with
    | zero =>
      simp only [List.getElem?_cons_zero, List.getElem?_cons_succ, Option.some.injEq, Nat.zero_add] at h1 h2
      subst h1; subst h2
      rcases hb b hbm with e | e
      · left; exact e
      · right; simpa using e
    | succ i =>
      have := h.inner i a c (by simpa using h1) (by simpa using h2) b hbm
      simpa using this

/-- a neighbour of the newest element other than its predecessor is new -/
theorem Inv.not_mem (hsym : ∀ a b, b ∈ nb a → a ∈ nb b) (hirr : ∀ a, a ∉ nb a) {v u w : α} {rest : List α}
    (h : Inv nb x (v :: u :: rest)) (hw : w ∈ nb v) (hwu : w ≠ u) : w ∉ v :: u :: rest := by
  intro hmem
  obtain ⟨j, hj⟩ := List.mem_iff_getElem?.mp hmem
  cases j with
  | zero =>
    simp only [List.getElem?_cons_zero, Option.some.injEq] at hj
    subst hj; exact hirr _ hw
  | succ i =>
    have hlt : i + 1 < (v :: u :: rest).length := (List.getElem?_eq_some_iff.mp hj).1
    have hi : i < (v :: u :: rest).length := by omega
    have h1 : (v :: u :: rest)[i]? = some ((v :: u :: rest)[i]) := List.getElem?_eq_getElem hi
    have hvw : v ∈ nb w := hsym _ _ hw
    have h0 : (v :: u :: rest)[0]? = some v := rfl
    rcases h.inner i _ w h1 hj v hvw with e | e
    · rw [← e, ← h0] at h1
      have : i = 0 := (List.getElem?_inj hi h.nodup).mp h1
      subst this
      simp only [Nat.zero_add, List.getElem?_cons_succ, List.getElem?_cons_zero, Option.some.injEq] at hj
      exact hwu hj.symm
    · rw [← h0] at e
      have hlt2 : i + 2 < (v :: u :: rest).length := by
        apply Classical.byContradiction
        intro hc
        rw [List.getElem?_eq_none (by omega)] at e
        cases e
      have : i + 2 = 0 := (List.getElem?_inj hlt2 h.nodup).mp e
      omega

/-- either the walk has arrived at a second vertex of degree one, or it can be prolonged -/
theorem Inv.progress (hsym : ∀ a b, b ∈ nb a → a ∈ nb b) (hirr : ∀ a, a ∉ nb a) (hnd : ∀ a, (nb a).Nodup)
    (hx1 : (nb x).length = 1) {v : α} {rest : List α} (h : Inv nb x (v :: rest))
    (hv : (nb v).length = 1 ∨ (nb v).length = 2) :
    (∃ u rest', rest = u :: rest' ∧ ∀ b ∈ nb v, b = u) ∨
    (∃ w, w ∈ nb v ∧ w ∉ v :: rest ∧ ∀ b ∈ nb v, b = w ∨ rest[0]? = some b) := by
  cases rest with
  | nil =>
    have hvx : v = x := by simpa using h.last
    subst hvx
    obtain ⟨y, hy⟩ := length_one _ hx1
    right
    refine ⟨y, by rw [hy]; simp, ?_, ?_⟩
    · intro hm
      have : y = v := by simpa using hm
      apply hirr v
      rw [hy, this]; simp
    · intro b hb
      rw [hy] at hb
      left; simpa using hb
  | cons u rest' =>
    have hvu : v ∈ nb u := h.adj 0 v u rfl rfl
    have huv : u ∈ nb v := hsym _ _ hvu
    rcases hv with hv | hv
    · obtain ⟨y, hy⟩ := length_one _ hv
      left
      refine ⟨u, rest', rfl, ?_⟩
      rw [hy] at huv ⊢
      have : u = y := by simpa using huv
      intro b hb
      rw [this]; simpa using hb
    · obtain ⟨a, b, hab⟩ := length_two _ hv
      have hne : a ≠ b := by
        have := hnd v
        rw [hab] at this
        simpa using this
      right
      rw [hab] at huv
      have hu : u = a ∨ u = b := by simpa using huv
      rcases hu with hu | hu
      · subst hu
        refine ⟨b, by rw [hab]; simp, h.not_mem hsym hirr (by rw [hab]; simp) (fun e => hne e.symm), ?_⟩
        intro c hc
        rw [hab] at hc
        have : c = u ∨ c = b := by simpa using hc
        rcases this with e | e
        · right; simp [e]
        · left; exact e
      · subst hu
        refine ⟨a, by rw [hab]; simp, h.not_mem hsym hirr (by rw [hab]; simp) hne, ?_⟩
        intro c hc
        rw [hab] at hc
        have : c = a ∨ c = u := by simpa using hc
        rcases this with e | e
        · left; exact e
        · right; simp [e]

/-- the walk reaches a second vertex of degree one -/
theorem walk_exists (hsym : ∀ a b, b ∈ nb a → a ∈ nb b) (hirr : ∀ a, a ∉ nb a) (hnd : ∀ a, (nb a).Nodup)
    (V : List α) (hcl : ∀ a b, b ∈ nb a → b ∈ V) (hx1 : (nb x).length = 1)
    (hdeg : ∀ a ∈ V, (nb a).length = 1 ∨ (nb a).length = 2) :
    ∀ (n : Nat) (p : List α), Inv nb x p → (∀ a ∈ p, a ∈ V) → V.length ≤ p.length + n →
      ∃ v u rest, Inv nb x (v :: u :: rest) ∧ (∀ a ∈ v :: u :: rest, a ∈ V) ∧ ∀ b ∈ nb v, b = u := by
  intro n
  induction n with
  | zero =>
    intro p hp hsub hlen
    cases p with
    | nil => have := hp.last; simp at this
    | cons v rest =>
      rcases hp.progress hsym hirr hnd hx1 (hdeg v (hsub v (by simp))) with ⟨u, rest', rfl, hfin⟩ | ⟨w, hw, hn, hb⟩
      · exact ⟨v, u, rest', hp, hsub, hfin⟩
      · have hp' := hp.extend hw hn hb
        have hsub' : ∀ a ∈ w :: v :: rest, a ∈ V := by
          intro a ha
          rcases List.mem_cons.mp ha with e | e
          · rw [e]; exact hcl _ _ hw
          · exact hsub a e
        have := hp'.nodup.length_le_of_subset (fun a ha => hsub' a ha)
        simp only [List.length_cons] at this hlen
        omega
  | succ m ih =>
    intro p hp hsub hlen
    cases p with
    | nil => have := hp.last; simp at this
    | cons v rest =>
      rcases hp.progress hsym hirr hnd hx1 (hdeg v (hsub v (by simp))) with ⟨u, rest', rfl, hfin⟩ | ⟨w, hw, hn, hb⟩
      · exact ⟨v, u, rest', hp, hsub, hfin⟩
      · have hp' := hp.extend hw hn hb
        have hsub' : ∀ a ∈ w :: v :: rest, a ∈ V := by
          intro a ha
          rcases List.mem_cons.mp ha with e | e
          · rw [e]; exact hcl _ _ hw
          · exact hsub a e
        apply ih _ hp' hsub'
        simp only [List.length_cons] at hlen ⊢
        omega

/-- a finished walk is closed under `nb` -/
theorem Inv.closed {q : List α} (h : Inv nb x q) {v u : α} {rest : List α} (hq : q = v :: u :: rest)
    (hfin : ∀ b ∈ nb v, b = u) : ∀ a ∈ q, ∀ b ∈ nb a, b ∈ q := by
  intro a ha b hb
  obtain ⟨j, hj⟩ := List.mem_iff_getElem?.mp ha
  cases j with
  | zero =>
    subst hq
    simp only [List.getElem?_cons_zero, Option.some.injEq] at hj
    subst hj
    rw [hfin b hb]; simp
  | succ i =>
    have hlt : i + 1 < q.length := (List.getElem?_eq_some_iff.mp hj).1
    have h1 : q[i]? = some (q[i]'(by omega)) := List.getElem?_eq_getElem (by omega)
    rcases h.inner i _ a h1 hj b hb with e | e
    · rw [e]; exact List.getElem_mem _
    · exact List.mem_of_getElem? e

/-- the finished walk is the whole graph, as a path -/
theorem path_of_walk (hsym : ∀ a b, b ∈ nb a → a ∈ nb b) (V : List α) (hV : V.Nodup)
    (hcl : ∀ a b, b ∈ nb a → a ∈ V)
    (hconn : ∀ S : α → Prop, S x → (∀ a b, S a → b ∈ nb a → S b) → ∀ b ∈ V, S b)
    {v u : α} {rest : List α} (h : Inv nb x (v :: u :: rest)) (hsub : ∀ a ∈ v :: u :: rest, a ∈ V)
    (hfin : ∀ b ∈ nb v, b = u) :
    V.Perm (v :: u :: rest) ∧
    ∀ a b, b ∈ nb a ↔ ∃ i, ((v :: u :: rest)[i]? = some a ∧ (v :: u :: rest)[i + 1]? = some b) ∨
      ((v :: u :: rest)[i]? = some b ∧ (v :: u :: rest)[i + 1]? = some a) := by
  have hclosed := h.closed rfl hfin
  have hcover : ∀ b ∈ V, b ∈ v :: u :: rest :=
    hconn (fun b => b ∈ v :: u :: rest) (List.mem_of_getLast? h.last) (fun a b ha hb => hclosed a ha b hb)
  refine ⟨(List.perm_ext_iff_of_nodup hV h.nodup).mpr (fun a => ⟨hcover a, hsub a⟩), ?_⟩
  intro a b
  constructor
  · intro hb
    have ha : a ∈ v :: u :: rest := hcover a (hcl a b hb)
    obtain ⟨j, hj⟩ := List.mem_iff_getElem?.mp ha
    cases j with
    | zero =>
      have hav : v = a := by simpa using hj
      subst hav
      refine ⟨0, Or.inl ⟨rfl, ?_⟩⟩
      rw [hfin b hb]; rfl
    | succ i =>
      have hlt : i + 1 < (v :: u :: rest).length := (List.getElem?_eq_some_iff.mp hj).1
      have h1 : (v :: u :: rest)[i]? = some ((v :: u :: rest)[i]'(by omega)) := List.getElem?_eq_getElem (by omega)
      rcases h.inner i _ a h1 hj b hb with e | e
      · exact ⟨i, Or.inr ⟨by rw [e]; exact h1, hj⟩⟩
      · exact ⟨i + 1, Or.inl ⟨hj, e⟩⟩
  · rintro ⟨i, ⟨h1, h2⟩ | ⟨h1, h2⟩⟩
    · exact hsym _ _ (h.adj i a b h1 h2)
    · exact h.adj i b a h1 h2

end Walk

end Gaftools.Proofs.Census
