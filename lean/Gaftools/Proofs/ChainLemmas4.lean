import Gaftools.Proofs.ChainLemmas3
/-!
# Lemmas for C06 (final stretch), part 4: the conjuncts of `chainSpecB` for the tags of an accepted chain
-/
namespace Gaftools.Proofs.Chain
open Gaftools.Gfa Gaftools.Algo Gaftools.Order Gaftools.Spec.Order Gaftools.Spec.Graph
open Gaftools.Proofs.Algo Gaftools.Proofs.Finish2
open Gaftools.C06 hiding sortStrings_perm insertSorted_perm

section conj
variable {nb : V → List V} {comp : List V} {bl : List (List V)} {ap : List V} {bl' : List (List V)} {ap' : List V}
  {s : Scaffold} {tr : List Elt}

/-- tags of the inner nodes of a bubble of the definition-level enumeration -/
theorem tagB' (h : Built nb comp bl ap s tr) (g : Bridge nb comp bl ap bl' ap') {i' : Nat}
    (hi' : i' < (chainOfBlocks bl' ap').bubbles.length) :
    ∃ (i k : Nat), i < (chainOfBlocks bl ap).bubbles.length ∧
      PartRel ((chainOfBlocks bl' ap').bubbles.getD i' ([], [])) ((chainOfBlocks bl ap).bubbles.getD i ([], [])) ∧
      tr[k]? = some (Elt.bubble i) ∧
      ∀ (j : Nat) (v : V), (sortStrings ((chainOfBlocks bl' ap').bubbles.getD i' ([], [])).1)[j]? = some v →
        tagOf (numberChain s tr) v = some ((k : Int), (j : Int) + 1) := by
  obtain ⟨i, hi, hr⟩ := g.bubble_fwd hi'
  obtain ⟨k, hk, ht⟩ := h.tagB hi
  refine ⟨i, k, hi, hr, hk, ?_⟩
  intro j v hv
  rw [Bicc2.sort_perm_eq hr.1] at hv
  exact ht j v hv

theorem mem_sorted_index {l : List V} {v : V} (hv : v ∈ l) : ∃ j : Nat, (sortStrings l)[j]? = some v :=
  List.mem_iff_getElem?.mp (Bicc2.mem_sortStrings.mpr hv)

theorem spec1_ok (h : Built nb comp bl ap s tr) (hall : ∀ v ∈ comp, ∃ C ∈ bl, v ∈ C) :
    spec1 comp (tagOf (numberChain s tr)) = true := by
  unfold spec1
  rw [List.all_eq_true]
  intro v hv
  obtain ⟨C, hC, hvC⟩ := hall v hv
  by_cases ha : v ∈ ap
  · obtain ⟨k, _, ht⟩ := h.tagA ha
    rw [ht]; rfl
  · have hin : v ∈ (part ap C).1 := mem_part_inner.mpr ⟨hvC, ha⟩
    obtain ⟨i, hi, hg⟩ := bubble_of_block hC (List.ne_nil_of_mem hin)
    obtain ⟨k, _, ht⟩ := h.tagB hi
    rw [hg] at ht
    obtain ⟨j, hj⟩ := mem_sorted_index hin
    rw [ht j v hj]; rfl

theorem spec2_ok (h : Built nb comp bl ap s tr) (g : Bridge nb comp bl ap bl' ap') :
    spec2 (chainOfBlocks bl' ap') (tagOf (numberChain s tr)) = true := by
  unfold spec2
  rw [List.all_eq_true]
  intro a ha
  have ha' : a ∈ ap := (g.apmem a).mp ha
  obtain ⟨k, _, ht⟩ := h.tagA ha'
  rw [ht]; rfl

theorem spec3_ok (h : Built nb comp bl ap s tr) (g : Bridge nb comp bl ap bl' ap') :
    spec3 (chainOfBlocks bl' ap') (tagOf (numberChain s tr)) = true := by
  unfold spec3
  rw [List.all_eq_true]
  intro p hp
  obtain ⟨i', hi', hg⟩ := exists_getD_of_mem hp
  obtain ⟨i, k, hi, hr, hk, ht⟩ := tagB' h g hi'
  rw [hg] at ht
  have hne : p.1 ≠ [] := by
    obtain ⟨C, _, e, hne⟩ := mem_bubbles.mp hp
    rw [e]; exact hne
  simp only [Bool.and_eq_true, beq_iff_eq, List.all_eq_true]
  constructor
  · rw [Gaftools.Proofs.Finish.eraseDups_length_one]
    obtain ⟨v, hv⟩ := List.exists_mem_of_ne_nil _ hne
    obtain ⟨j, hj⟩ := mem_sorted_index hv
    refine ⟨some (k : Int), List.mem_map.mpr ⟨v, List.mem_of_getElem? hj, by rw [ht j v hj]; rfl⟩, ?_⟩
    intro x hx
    obtain ⟨w, hw, rfl⟩ := List.mem_map.mp hx
    obtain ⟨j', hj'⟩ := List.mem_iff_getElem?.mp hw
    rw [ht j' w hj']; rfl
  · intro x hx
    have := List.mem_zipIdx_iff_getElem?.mp hx
    rw [ht x.2 x.1 this]; rfl

/-! ### the chain element that an element of the specification's enumeration stands for -/

def EltRel (bl : List (List V)) (ap : List V) (bl' : List (List V)) (ap' : List V) (x : Sum V Nat) (e : Elt) : Prop :=
  match x with
  | .inl a => e = Elt.scaffold a
  | .inr i' => i' < (chainOfBlocks bl' ap').bubbles.length ∧ ∃ i, e = Elt.bubble i ∧
      i < (chainOfBlocks bl ap).bubbles.length ∧
      PartRel ((chainOfBlocks bl' ap').bubbles.getD i' ([], [])) ((chainOfBlocks bl ap).bubbles.getD i ([], []))

theorem inner_ne_nil {bl : List (List V)} {ap : List V} {i : Nat} (hi : i < (chainOfBlocks bl ap).bubbles.length) :
    ∃ v, v ∈ ((chainOfBlocks bl ap).bubbles.getD i ([], [])).1 := by
  obtain ⟨C, _, hp, hne⟩ := bubble_block hi
  rw [hp]
  exact List.exists_mem_of_ne_nil _ hne

theorem eltRel_inj (g : Bridge nb comp bl ap bl' ap') {x y : Sum V Nat} {e : Elt}
    (hx : EltRel bl ap bl' ap' x e) (hy : EltRel bl ap bl' ap' y e) : x = y := by
  cases x with
  | inl a =>
    cases y with
    | inl b =>
      have : Elt.scaffold a = Elt.scaffold b := hx.symm.trans hy
      injection this with this
      rw [this]
    | inr j' =>
      obtain ⟨_, j, hj, _⟩ := hy
      have : Elt.scaffold a = Elt.bubble j := hx.symm.trans hj
      cases this
  | inr i' =>
    cases y with
    | inl b =>
      obtain ⟨_, i, hi, _⟩ := hx
      have : Elt.scaffold b = Elt.bubble i := hy.symm.trans hi
      cases this
    | inr j' =>
      obtain ⟨hi', i, hi, hil, hr⟩ := hx
      obtain ⟨hj', j, hj, _, hr'⟩ := hy
      have hij : Elt.bubble i = Elt.bubble j := hi.symm.trans hj
      injection hij with hij
      subst hij
      obtain ⟨v, hv⟩ := inner_ne_nil hil
      have := bubble_index_unique g.bc' hi' hj' (hr.1.mem_iff.mpr hv) (hr'.1.mem_iff.mpr hv)
      rw [this]

theorem eltRel_fun (h : Built nb comp bl ap s tr) {x : Sum V Nat} {e e' : Elt}
    (hx : EltRel bl ap bl' ap' x e) (hy : EltRel bl ap bl' ap' x e') : e = e' := by
  cases x with
  | inl a => exact hx.trans hy.symm
  | inr i' =>
    obtain ⟨hi', i, hi, hil, hr⟩ := hx
    obtain ⟨_, j, hj, hjl, hr'⟩ := hy
    obtain ⟨v, hv⟩ := inner_ne_nil hi'
    have := bubble_index_unique h.bc hil hjl (hr.1.mem_iff.mp hv) (hr'.1.mem_iff.mp hv)
    rw [hi, hj, this]

/-- the entry of an articulation point -/
theorem entryA (h : Built nb comp bl ap s tr) (g : Bridge nb comp bl ap bl' ap') {a : V} (ha : a ∈ ap') :
    ∃ k : Nat, tagOf (numberChain s tr) a = some ((k : Int), 0) ∧ tr[k]? = some (Elt.scaffold a) := by
  obtain ⟨k, hk, ht⟩ := h.tagA ((g.apmem a).mp ha)
  exact ⟨k, ht, hk⟩

/-- the entry of a bubble -/
theorem entryB (h : Built nb comp bl ap s tr) (g : Bridge nb comp bl ap bl' ap') {i' : Nat}
    (hi' : i' < (chainOfBlocks bl' ap').bubbles.length) :
    ∃ (k i j : Nat), (((chainOfBlocks bl' ap').bubbles.getD i' ([], [])).1.head?.bind (tagOf (numberChain s tr))) =
        some ((k : Int), (j : Int) + 1) ∧
      tr[k]? = some (Elt.bubble i) ∧ EltRel bl ap bl' ap' (Sum.inr i') (Elt.bubble i) := by
  obtain ⟨i, k, hi, hr, hk, ht⟩ := tagB' h g hi'
  obtain ⟨v, hv⟩ := inner_ne_nil hi'
  cases hl : ((chainOfBlocks bl' ap').bubbles.getD i' ([], [])).1 with
  | nil => rw [hl] at hv; simp at hv
  | cons w rest =>
    have hw : w ∈ ((chainOfBlocks bl' ap').bubbles.getD i' ([], [])).1 := by rw [hl]; simp
    obtain ⟨j, hj⟩ := mem_sorted_index hw
    refine ⟨k, i, j, ?_, hk, hi', i, rfl, hi, hr⟩
    simp only [List.head?_cons, Option.bind_some]
    exact ht j w hj

theorem spec4_ok (h : Built nb comp bl ap s tr) (g : Bridge nb comp bl ap bl' ap') :
    spec4 (chainOfBlocks bl' ap') (tagOf (numberChain s tr)) 0 = true := by
  -- description of the two kinds of entries
  have dA : ∀ a ∈ ap', ∃ k : Nat, (tagOf (numberChain s tr) a).map (·.1) = some (k : Int) ∧
      tr[k]? = some (Elt.scaffold a) := by
    intro a ha
    obtain ⟨k, ht, hk⟩ := entryA h g ha
    exact ⟨k, by rw [ht]; rfl, hk⟩
  have dB : ∀ p ∈ (chainOfBlocks bl' ap').bubbles, ∃ (k i i' : Nat),
      (p.1.head?.bind (tagOf (numberChain s tr))).map (·.1) = some (k : Int) ∧ tr[k]? = some (Elt.bubble i) ∧
      (chainOfBlocks bl' ap').bubbles.getD i' ([], []) = p ∧ EltRel bl ap bl' ap' (Sum.inr i') (Elt.bubble i) := by
    intro p hp
    obtain ⟨i', hi', hg⟩ := exists_getD_of_mem hp
    obtain ⟨k, i, j, ht, hk, hrel⟩ := entryB h g hi'
    rw [hg] at ht
    exact ⟨k, i, i', by rw [ht]; rfl, hk, hg, hrel⟩
  unfold spec4
  simp only [Bool.and_eq_true, beq_iff_eq, List.all_eq_true]
  refine ⟨⟨?_, ?_⟩, ?_⟩
  · intro x hx
    unfold specBo at hx
    rcases List.mem_append.mp hx with hx | hx
    · obtain ⟨a, ha, rfl⟩ := List.mem_map.mp hx
      obtain ⟨k, ht, _⟩ := dA a ha
      rw [ht]
      simp
    · obtain ⟨p, hp, rfl⟩ := List.mem_map.mp hx
      obtain ⟨k, i, i', ht, _⟩ := dB p hp
      rw [ht]
      simp
  · rw [eraseDups_of_nodup]
    unfold specBo List.Nodup
    rw [List.pairwise_append]
    refine ⟨?_, ?_, ?_⟩
    · rw [List.pairwise_map]
      have hn : ap'.Pairwise (· ≠ ·) := g.bc'.apNodup
      refine hn.imp_of_mem ?_
      intro a a' ha ha' hne e
      obtain ⟨k, ht, hk⟩ := dA a ha
      obtain ⟨k', ht', hk'⟩ := dA a' ha'
      rw [ht, ht'] at e
      have hkk : k = k' := by injection e with e; omega
      subst hkk
      have : Elt.scaffold a = Elt.scaffold a' := Option.some.inj (hk.symm.trans hk')
      injection this with this
      exact hne this
    · rw [List.pairwise_map]
      refine (bubbles_disjoint g.bc').imp_of_mem ?_
      intro p q hp hq hdis e
      obtain ⟨k, i, i', ht, hk, hg, hrel⟩ := dB p hp
      obtain ⟨k', j, j', ht', hk', hg', hrel'⟩ := dB q hq
      rw [ht, ht'] at e
      have hkk : k = k' := by injection e with e; omega
      subst hkk
      have hij : Elt.bubble i = Elt.bubble j := Option.some.inj (hk.symm.trans hk')
      rw [← hij] at hrel'
      have := eltRel_inj g hrel hrel'
      injection this with this
      subst this
      rw [hg] at hg'
      subst hg'
      obtain ⟨v, hv⟩ := inner_ne_nil hrel.1
      rw [hg] at hv
      exact hdis v hv hv
    · intro x hx y hy e
      obtain ⟨a, ha, rfl⟩ := List.mem_map.mp hx
      obtain ⟨p, hp, rfl⟩ := List.mem_map.mp hy
      obtain ⟨k, ht, hk⟩ := dA a ha
      obtain ⟨k', i, i', ht', hk', _⟩ := dB p hp
      rw [ht, ht'] at e
      have hkk : k = k' := by injection e with e; omega
      subst hkk
      have : Elt.scaffold a = Elt.bubble i := Option.some.inj (hk.symm.trans hk')
      cases this
  · unfold specBo
    simp

theorem spec6_ok (h : Built nb comp bl ap s tr) (g : Bridge nb comp bl ap bl' ap') (so : V → Option Int) (cs : List Int)
    (hso : (scaffoldIds tr).mapM so = some cs) (hinc : strictlyIncreasing cs) :
    spec6 (chainOfBlocks bl' ap') so (tagOf (numberChain s tr)) = true := by
  have desc : ∀ x ∈ specScaf (chainOfBlocks bl' ap') so (tagOf (numberChain s tr)),
      ∃ (a : V) (k : Nat), x.1 = (k : Int) ∧ tr[k]? = some (Elt.scaffold a) ∧ so a = some x.2 := by
    intro x hx
    unfold specScaf at hx
    obtain ⟨a, ha, hm⟩ := List.mem_filterMap.mp hx
    obtain ⟨k, ht, hk⟩ := entryA h g ha
    rw [ht] at hm
    cases hs : so a with
    | none => rw [hs] at hm; cases hm
    | some o =>
      rw [hs] at hm
      injection hm with hm
      subst hm
      exact ⟨a, k, rfl, hk, hs⟩
  unfold spec6
  rw [List.all_eq_true]
  intro x hx
  rw [List.all_eq_true]
  intro y hy
  obtain ⟨a, k, hxk, hk, hsa⟩ := desc x hx
  obtain ⟨b, k', hyk, hk', hsb⟩ := desc y hy
  by_cases hlt : x.1 < y.1
  · have hkk : k < k' := by rw [hxk, hyk] at hlt; omega
    have hso' := hso
    unfold scaffoldIds at hso'
    have := incr_pos _ so tr cs hso' hinc hk hk' hkk rfl rfl hsa hsb
    simp [this]
  · simp [hlt]

end conj

end Gaftools.Proofs.Chain
