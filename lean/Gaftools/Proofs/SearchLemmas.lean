import Gaftools.Spec.Conv
/-!
# Helper lemmas for `Props/C03s.lean` (bisection `searchIv`, `window`, `insertBySo`, `refOf`)
-/
namespace Gaftools.Proofs.Search
open Gaftools.Conv Gaftools.Spec.Conv

/-! ## sorted disjoint lists, index form -/

theorem sd_index {iv : List Seg} (hsd : SortedDisjoint iv) :
    ∀ i j (hi : i < iv.length) (hj : j < iv.length), i < j → iv[i].en ≤ iv[j].so := by
  intro i j hi hj hij
  exact (List.pairwise_iff_getElem.mp hsd.2) i j hi hj hij

theorem sd_ne {iv : List Seg} (hsd : SortedDisjoint iv) :
    ∀ i (hi : i < iv.length), iv[i].so < iv[i].en :=
  fun _ hi => hsd.1 _ (List.getElem_mem hi)

theorem overlaps_iff (sg : Seg) (qs qe : Int) : overlaps sg qs qe = true ↔ sg.so < qe ∧ qs < sg.en := by
  simp [overlaps]

/-- the bisection goes left at `m`: every overlapping index is strictly left of `m` -/
theorem left_of {iv : List Seg} (hsd : SortedDisjoint iv) (qs qe : Int) (m : Nat) (hm : m < iv.length)
    (hq : qe ≤ iv[m].so) (i : Nat) (hi : i < iv.length) (hov : overlaps iv[i] qs qe = true) : i < m := by
  rw [overlaps_iff] at hov
  by_cases hc : i < m
  · exact hc
  · exfalso
    rcases Nat.lt_or_eq_of_le (Nat.le_of_not_lt hc) with h | h
    · have h1 := sd_index hsd m i hm hi h
      have h2 := sd_ne hsd m hm
      omega
    · subst h; omega

/-- the bisection goes right at `m`: every overlapping index is strictly right of `m` -/
theorem right_of {iv : List Seg} (hsd : SortedDisjoint iv) (qs qe : Int) (m : Nat) (hm : m < iv.length)
    (hq : qs ≥ iv[m].en) (i : Nat) (hi : i < iv.length) (hov : overlaps iv[i] qs qe = true) : m < i := by
  rw [overlaps_iff] at hov
  by_cases hc : m < i
  · exact hc
  · exfalso
    rcases Nat.lt_or_eq_of_le (Nat.le_of_not_lt hc) with h | h
    · have h1 := sd_index hsd i m hi hm h
      have h2 := sd_ne hsd m hm
      omega
    · subst h; omega

/-! ## the bisection -/

theorem searchIv_window_aux (iv : List Seg) (hsd : SortedDisjoint iv) (qs qe : Int) :
    ∀ (fuel : Nat) (s e : Int), 0 ≤ s →
      (∀ i (hi : i < iv.length), overlaps iv[i] qs qe = true → s ≤ (i : Int) ∧ (i : Int) ≤ e) →
      ∀ r, searchIv iv qs qe fuel s e = some r →
      ∀ i (hi : i < iv.length), overlaps iv[i] qs qe = true → r.1 ≤ (i : Int) ∧ (i : Int) ≤ r.2 := by
  intro fuel
  induction fuel with
  | zero => intro s e _ _ r h; simp [searchIv] at h
  | succ fuel ih =>
    intro s e hs hinv r h
    unfold searchIv at h
    split at h
    · rename_i hse
      simp only at h
      split at h
      · simp at h
      · rename_i hm0
        split at h
        · simp at h
        · rename_i sg hget
          have hmid0 : 0 ≤ s + (e - s) / 2 := by omega
          obtain ⟨hlt, hval⟩ : ∃ hlt : (s + (e - s) / 2).toNat < iv.length, iv[(s + (e - s) / 2).toNat] = sg := by
            rw [List.getElem?_eq_some_iff] at hget; exact hget
          split at h
          · rename_i hq
            apply ih s (s + (e - s) / 2 - 1) hs _ r h
            intro i hi hov
            have h1 := hinv i hi hov
            have h2 := left_of hsd qs qe _ hlt (by rw [hval]; exact hq) i hi hov
            omega
          · split at h
            · rename_i hq1 hq2
              apply ih (s + (e - s) / 2 + 1) e (by omega) _ r h
              intro i hi hov
              have h1 := hinv i hi hov
              have h2 := right_of hsd qs qe _ hlt (by rw [hval]; exact hq2) i hi hov
              omega
            · simp at h; subst h; exact hinv
    · simp at h; subst h
      intro i hi hov
      have := hinv i hi hov
      omega

/-- the result is the sentinel `(-1, -1)` or a pair with a non-negative start -/
theorem searchIv_res (iv : List Seg) (qs qe : Int) :
    ∀ (fuel : Nat) (s e : Int), 0 ≤ s → ∀ r, searchIv iv qs qe fuel s e = some r → r = (-1, -1) ∨ 0 ≤ r.1 := by
  intro fuel
  induction fuel with
  | zero => intro s e _ r h; simp [searchIv] at h
  | succ fuel ih =>
    intro s e hs r h
    unfold searchIv at h
    split at h
    · simp only at h
      split at h
      · simp at h
      · split at h
        · simp at h
        · split at h
          · exact ih _ _ hs r h
          · split at h
            · exact ih _ _ (by omega) r h
            · simp at h; subst h; exact Or.inr hs
    · simp at h; subst h; exact Or.inl rfl

theorem searchIv_isSome_aux (iv : List Seg) (hsd : SortedDisjoint iv) (qs qe : Int)
    (i : Nat) (hi : i < iv.length) (hov : overlaps iv[i] qs qe = true) :
    ∀ (fuel : Nat) (s e : Int), 0 ≤ s → e ≤ (iv.length : Int) → s ≤ (i : Int) → (i : Int) ≤ e →
      (e - s + 1).toNat < fuel → (searchIv iv qs qe fuel s e).isSome = true := by
  intro fuel
  induction fuel with
  | zero => intro s e _ _ _ _ hf; omega
  | succ fuel ih =>
    intro s e hs he hsi hie hf
    unfold searchIv
    have hse : s ≤ e := by omega
    rw [if_pos hse]
    simp only []
    have hm0 : ¬ (s + (e - s) / 2 < 0) := by omega
    rw [if_neg hm0]
    have hmlt : (s + (e - s) / 2).toNat < iv.length := by omega
    rw [List.getElem?_eq_getElem hmlt]
    simp only []
    split
    · rename_i hq
      have h2 := left_of hsd qs qe _ hmlt hq i hi hov
      exact ih s _ hs (by omega) hsi (by omega) (by omega)
    · split
      · rename_i hq
        have h2 := right_of hsd qs qe _ hmlt hq i hi hov
        exact ih _ e (by omega) he (by omega) hie (by omega)
      · rfl

/-! ## windows and filters -/

theorem filter_window {α : Type} (l : List α) (p : α → Bool) (a k : Nat)
    (h : ∀ i (hi : i < l.length), p l[i] = true → a ≤ i ∧ i < a + k) :
    ((l.drop a).take k).filter p = l.filter p := by
  have h1 : (l.take a).filter p = [] := by
    rw [List.filter_eq_nil_iff]
    intro x hx hp
    rw [List.mem_take_iff_getElem] at hx
    obtain ⟨j, hj, rfl⟩ := hx
    have := h j (by omega) hp
    omega
  have h2 : (l.drop (a + k)).filter p = [] := by
    rw [List.filter_eq_nil_iff]
    intro x hx hp
    rw [List.mem_drop_iff_getElem] at hx
    obtain ⟨j, hj, rfl⟩ := hx
    have := h (a + k + j) (by omega) hp
    omega
  have h3 : l = l.take a ++ ((l.drop a).take k ++ l.drop (a + k)) := by
    rw [← List.drop_drop, List.take_append_drop, List.take_append_drop]
  conv => rhs; rw [h3]
  rw [List.filter_append, List.filter_append, h1, h2]
  simp

/-! ## `insertBySo`, `refOf` -/

theorem mem_insertBySo (x y : Seg) (l : List Seg) : y ∈ insertBySo x l ↔ y = x ∨ y ∈ l := by
  induction l with
  | nil => simp [insertBySo]
  | cons z zs ih =>
    unfold insertBySo
    split
    · simp
    · simp only [List.mem_cons, ih]
      constructor
      · rintro (h | h | h) <;> simp [h]
      · rintro (h | h | h) <;> simp [h]

theorem mem_foldl_insertBySo (sg : Seg) (xs : List Seg) :
    ∀ acc : List Seg, sg ∈ xs.foldl (fun acc x => insertBySo x acc) acc ↔ sg ∈ xs ∨ sg ∈ acc := by
  induction xs with
  | nil => intro acc; simp
  | cons x xs ih =>
    intro acc
    simp only [List.foldl_cons, ih, mem_insertBySo, List.mem_cons]
    constructor
    · rintro (h | h | h) <;> simp [h]
    · rintro ((h | h) | h) <;> simp [h]

/-- non-empty and disjoint (symmetric) -/
def Disj (a b : Seg) : Prop := a.so < a.en ∧ b.so < b.en ∧ (a.en ≤ b.so ∨ b.en ≤ a.so)

theorem Disj.symm {a b : Seg} (h : Disj a b) : Disj b a := ⟨h.2.1, h.1, h.2.2.symm⟩

theorem insertBySo_pairwise (x : Seg) (l : List Seg) (hl : l.Pairwise (fun a b => a.en ≤ b.so))
    (hx : ∀ y ∈ l, Disj x y) : (insertBySo x l).Pairwise (fun a b => a.en ≤ b.so) := by
  induction l with
  | nil => simp [insertBySo]
  | cons y ys ih =>
    rw [List.pairwise_cons] at hl
    unfold insertBySo
    split
    · rename_i hlt
      rw [List.pairwise_cons]
      refine ⟨?_, List.pairwise_cons.mpr hl⟩
      intro z hz
      rcases List.mem_cons.mp hz with rfl | hz
      · have := hx z (by simp)
        unfold Disj at this
        omega
      · have h1 := hx z (by simp [hz])
        have h2 := hx y (by simp)
        have h3 := hl.1 z hz
        unfold Disj at h1 h2
        omega
    · rename_i hlt
      rw [List.pairwise_cons]
      refine ⟨?_, ih hl.2 (fun z hz => hx z (by simp [hz]))⟩
      intro z hz
      rcases (mem_insertBySo x z ys).mp hz with rfl | hz
      · have := hx y (by simp)
        unfold Disj at this
        omega
      · exact hl.1 z hz

theorem foldl_insertBySo_pairwise (xs : List Seg) :
    ∀ acc : List Seg, acc.Pairwise (fun a b => a.en ≤ b.so) → xs.Pairwise Disj →
      (∀ x ∈ xs, ∀ y ∈ acc, Disj x y) →
      (xs.foldl (fun acc x => insertBySo x acc) acc).Pairwise (fun a b => a.en ≤ b.so) := by
  induction xs with
  | nil => intro acc h _ _; simpa using h
  | cons x xs ih =>
    intro acc hacc hxs hxa
    rw [List.pairwise_cons] at hxs
    simp only [List.foldl_cons]
    apply ih _ (insertBySo_pairwise x acc hacc (fun y hy => hxa x (by simp) y hy)) hxs.2
    intro z hz y hy
    rcases (mem_insertBySo x y acc).mp hy with rfl | hy
    · exact (hxs.1 z hz).symm
    · exact hxa z (by simp [hz]) y hy

end Gaftools.Proofs.Search
