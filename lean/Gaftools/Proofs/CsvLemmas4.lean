import Gaftools.Proofs.CsvLemmas3
/-!
# Lemmas for C07c, part 4: (BO, NO) order inside one chromosome file and across the files of a run
-/
namespace Gaftools.Proofs.Csv
open Gaftools.Gfa Gaftools.Algo Gaftools.View Gaftools.Order Gaftools.Spec.Order Gaftools.Spec.Graph
open Gaftools.Proofs.Chain Gaftools.Proofs.OrderRun Gaftools.Proofs.Finish2

/-- strict (BO, NO) order on written tags -/
def KeyLtI (x y : V × Int × Int) : Prop := x.2.1 < y.2.1 ∨ (x.2.1 = y.2.1 ∧ x.2.2 < y.2.2)

/-! ## sorting a list that is already in order -/

theorem foldr_insertBoNo_sorted (l : List (V × Int × Int)) (h : l.Pairwise KeyLtI) : l.foldr insertBoNo [] = l := by
  induction l with
  | nil => rfl
  | cons x l ih =>
    rw [List.pairwise_cons] at h
    rw [List.foldr_cons, ih h.2]
    cases l with
    | nil => rfl
    | cons y ys =>
      have hxy : KeyLtI x y := h.1 y (by simp)
      unfold insertBoNo
      exact if_pos hxy

theorem sortBoNo_sorted (l : List (V × Int × Int)) (h : l.Pairwise KeyLtI) : sortBoNo l = l.map (·.1) := by
  unfold sortBoNo
  rw [foldr_insertBoNo_sorted l h]

theorem shiftOrder_sorted (lo : Int) (order : List (V × Nat × Nat)) (h : order.Pairwise KeyLt) :
    (shiftOrder lo order).Pairwise KeyLtI := by
  unfold shiftOrder
  rw [List.pairwise_map]
  apply h.imp
  rintro ⟨a, k, n⟩ ⟨b, k', n'⟩ hk
  unfold KeyLt at hk
  unfold KeyLtI
  simp only at hk ⊢
  omega

theorem shiftOrder_fst (lo : Int) (order : List (V × Nat × Nat)) : (shiftOrder lo order).map (·.1) = order.map (·.1) := by
  unfold shiftOrder
  rw [List.map_map]
  apply List.map_congr_left
  rintro ⟨a, k, n⟩ _
  rfl

theorem LocalOK.nodup {comp : List V} {l : Local} (h : LocalOK comp l) : (l.order.map (·.1)).Nodup := by
  unfold List.Nodup
  rw [List.pairwise_map]
  apply List.Pairwise.imp_of_mem _ h.sorted
  rintro ⟨a, k, n⟩ ⟨b, k', n'⟩ ha hb hk hab
  simp only at hab
  subst hab
  obtain ⟨e1, e2⟩ := h.uniq a k n k' n' ha hb
  unfold KeyLt at hk
  simp only at hk
  omega

/-! ## the S lines of one file are a sub-sequence of the requested node order -/

theorem ids_filterMap_sublist (f : V → Option Node) (hf : ∀ v n, f v = some n → n.id = v) : ∀ (l : List V),
    (((l.filterMap f).map segLineOf).map (·.id)).Sublist l := by
  intro l
  induction l with
  | nil => simp
  | cons a l ih =>
    rw [List.filterMap_cons]
    cases hfa : f a with
    | none => exact List.Sublist.cons _ ih
    | some n =>
      simp only [List.map_cons]
      have : (segLineOf n).id = a := hf a n hfa
      rw [this]
      exact List.Sublist.cons_cons _ ih

theorem orderFile_ids_sublist (g : Graph) (w : Written) :
    ((orderFile g w).segs.map (·.id)).Sublist (sortBoNo w.tags) := by
  unfold orderFile
  rw [Gaftools.C07.write_segs]
  exact ids_filterMap_sublist _ (fun v n h => Gaftools.Proofs.Gfa.find_id h) _

theorem flatMap_sublist {α β} (f g : α → List β) : ∀ (l : List α), (∀ a ∈ l, (f a).Sublist (g a)) →
    (l.flatMap f).Sublist (l.flatMap g) := by
  intro l
  induction l with
  | nil => intro _; simp
  | cons a l ih =>
    intro h
    rw [List.flatMap_cons, List.flatMap_cons]
    exact List.Sublist.append (h a (by simp)) (ih (fun b hb => h b (List.mem_cons_of_mem _ hb)))

/-! ## the keys along a strictly ordered list of tags -/

def keyOk (p : Option (Int × Int) × Option (Int × Int)) : Bool :=
  match p.1, p.2 with
  | some a, some b => decide (a.1 < b.1) || (a.1 == b.1 && decide (a.2 < b.2))
  | _, _ => false

theorem zip_tail_sorted : ∀ (T : List (V × Int × Int)), T.Pairwise KeyLtI →
    (List.zip (T.map (fun x => some x.2)) (T.map (fun x => some x.2)).tail).all keyOk = true := by
  intro T
  induction T with
  | nil => intro _; rfl
  | cons x T ih =>
    intro h
    rw [List.pairwise_cons] at h
    cases T with
    | nil => rfl
    | cons y ys =>
      have ih' := ih h.2
      simp only [List.map_cons, List.tail_cons, List.zip_cons_cons, List.all_cons, Bool.and_eq_true] at ih' ⊢
      refine ⟨?_, ih'⟩
      have hxy : KeyLtI x y := h.1 y (by simp)
      unfold keyOk
      simp only [Bool.or_eq_true, Bool.and_eq_true, decide_eq_true_eq, beq_iff_eq]
      exact hxy

theorem find_of_nodup (T : List (V × Int × Int)) (hnd : (T.map (·.1)).Nodup) (x : V × Int × Int) (hx : x ∈ T) :
    T.find? (·.1 == x.1) = some x := by
  induction T with
  | nil => simp at hx
  | cons y T ih =>
    rw [List.map_cons, List.nodup_cons] at hnd
    rcases List.mem_cons.mp hx with rfl | hx
    · simp
    · have hne : y.1 ≠ x.1 := by
        intro e
        apply hnd.1
        rw [e]
        exact List.mem_map.mpr ⟨x, hx, rfl⟩
      rw [List.find?_cons_of_neg (by simpa using hne)]
      exact ih hnd.2 hx

/-- the sortedness clause from a global, strictly ordered, duplicate-free tag list -/
theorem keys_sorted (T : List (V × Int × Int)) (hs : T.Pairwise KeyLtI) (hnd : (T.map (·.1)).Nodup)
    (tag : V → Option (Int × Int)) (htag : ∀ v, tag v = (T.find? (·.1 == v)).map (·.2))
    (ids : List V) (hsub : ids.Sublist (T.map (·.1))) :
    (List.zip (ids.map tag) (ids.map tag).tail).all keyOk = true := by
  obtain ⟨T', hT', rfl⟩ := List.sublist_map_iff.mp hsub
  have hkeys : (T'.map (·.1)).map tag = T'.map (fun x => some x.2) := by
    rw [List.map_map]
    apply List.map_congr_left
    intro x hx
    simp only [Function.comp]
    rw [htag, find_of_nodup T hnd x (hT'.subset hx)]
    rfl
  rw [hkeys]
  exact zip_tail_sorted T' (hs.sublist hT')

/-! ## consecutive BO ranges -/

theorem outList_tags_sorted (dec : String → Outcome)
    (hdec : ∀ c l, dec c = .ok l → l.order.Pairwise KeyLt ∧ ∀ x ∈ l.order, x.2.1 < l.len) (order : List String) :
    ∀ (b : Int), ((Gaftools.C18.outList dec b order).flatMap (·.tags)).Pairwise KeyLtI ∧
      ∀ x ∈ (Gaftools.C18.outList dec b order).flatMap (·.tags), b ≤ x.2.1 := by
  induction order with
  | nil => intro b; simp [Gaftools.C18.outList]
  | cons c cs ih =>
    intro b
    cases hc : dec c with
    | ok l =>
      have e : Gaftools.C18.outList dec b (c :: cs) =
          ⟨c, shiftOrder b l.order, l.aps, l.inside⟩ :: Gaftools.C18.outList dec (b + (l.len : Int)) cs := by
        simp [Gaftools.C18.outList, hc, shiftOrder]
      rw [e, List.flatMap_cons]
      obtain ⟨ih1, ih2⟩ := ih (b + (l.len : Int))
      obtain ⟨d1, d2⟩ := hdec c l hc
      have hrange : ∀ x ∈ shiftOrder b l.order, b ≤ x.2.1 ∧ x.2.1 < b + (l.len : Int) := by
        intro x hx
        unfold shiftOrder at hx
        rw [List.mem_map] at hx
        obtain ⟨⟨v, k, no⟩, hm, rfl⟩ := hx
        have := d2 _ hm
        simp only at this ⊢
        omega
      constructor
      · rw [List.pairwise_append]
        refine ⟨shiftOrder_sorted b l.order d1, ih1, ?_⟩
        intro x hx y hy
        left
        have := hrange x hx
        have := ih2 y hy
        omega
      · intro x hx
        rcases List.mem_append.mp hx with hx | hx
        · exact (hrange x hx).1
        · have := ih2 x hx; omega
    | skipped x =>
      have e : Gaftools.C18.outList dec b (c :: cs) = Gaftools.C18.outList dec b cs := by
        simp [Gaftools.C18.outList, hc]
      rw [e]; exact ih b
    | crash x =>
      have e : Gaftools.C18.outList dec b (c :: cs) = Gaftools.C18.outList dec b cs := by
        simp [Gaftools.C18.outList, hc]
      rw [e]; exact ih b

end Gaftools.Proofs.Csv
