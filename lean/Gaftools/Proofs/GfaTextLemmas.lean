import Gaftools.Model.GfaText
import Gaftools.Proofs.TextLayerLemmas
import Gaftools.Proofs.GfaLemmas
/-! helper lemmas for `Props/GfaText.lean` (text level of GFA reading and writing) -/
namespace Gaftools.Proofs.GfaText
open Gaftools.Gfa Gaftools.GfaText Gaftools.Proofs.TextLayer
open Gaftools.TextLayer (pyIsSpace stripWith pyStripChars univNl keepEndsNl splitOn pyInt isDigitsNE)

/-! ## the records of a list of lines -/

/-- a line that is put into `edges`: the `elif` branch -/
def isLLine (l : List Char) : Bool := !startsWith 'S' l && startsWith 'L' l

/-- the field lists of the S lines, in file order -/
def sRecs (lines : List (List Char)) : List (List (List Char)) := (lines.filter (startsWith 'S')).map fieldsOf
/-- the field lists of the L lines, in file order -/
def lRecs (lines : List (List Char)) : List (List (List Char)) := (lines.filter isLLine).map fieldsOf

def sFold (lm : Bool) : List (List (List Char)) → SState → Except PyErr SState
  | [], st => .ok st
  | fs :: rest, st =>
    match sLine lm st fs with
    | .error e => .error e
    | .ok st' => sFold lm rest st'

def lFold (has : String → Bool) : List (List (List Char)) → List LinkZ → Except PyErr (List LinkZ)
  | [], acc => .ok acc
  | fs :: rest, acc =>
    match lLine has fs with
    | .error x => .error x
    | .ok none => lFold has rest acc
    | .ok (some l) => lFold has rest (acc ++ [l])

/-- S records first, then L records -/
def runRecs (lm : Bool) (ss ls : List (List (List Char))) : Except PyErr Parsed :=
  match sFold lm ss SState.init with
  | .error e => .error e
  | .ok st =>
    match lFold st.has ls [] with
    | .error e => .error e
    | .ok links => .ok ⟨st.segs, links, st.contigs, st.contigToNodes⟩

theorem readLoop_eq (lm : Bool) (lines : List (List Char)) (st : SState) (edges : List (List Char)) :
    readLoop lm lines st edges =
      match sFold lm (sRecs lines) st with
      | .error e => .error e
      | .ok st' => .ok (st', edges ++ lines.filter isLLine) := by
  induction lines generalizing st edges with
  | nil => simp [readLoop, sRecs, sFold]
  | cons l ls ih =>
    by_cases hS : startsWith 'S' l = true
    · simp only [readLoop, hS, if_true, sRecs, List.filter_cons, List.map_cons, sFold, isLLine, Bool.not_true, Bool.false_and]
      cases h : sLine lm st (fieldsOf l) with
      | error e => rfl
      | ok st' =>
        have := ih st' edges
        simp only [sRecs, isLLine] at this
        simpa using this
    · have hS' : startsWith 'S' l = false := by simpa using hS
      by_cases hL : startsWith 'L' l = true
      · simp only [readLoop, hS', hL, if_true, sRecs, List.filter_cons, isLLine, Bool.not_false, Bool.true_and]
        have := ih st (edges ++ [l])
        simp only [sRecs, isLLine] at this
        simp only [Bool.false_eq_true, if_false]
        rw [this]
        cases sFold lm (List.map fieldsOf (List.filter (startsWith 'S') ls)) st <;> simp
      · have hL' : startsWith 'L' l = false := by simpa using hL
        simp only [readLoop, hS', hL', sRecs, List.filter_cons, isLLine, Bool.not_false, Bool.true_and, Bool.false_eq_true, if_false]
        have := ih st edges
        simp only [sRecs, isLLine] at this
        exact this

theorem linkLoop_eq (has : String → Bool) (edges : List (List Char)) (acc : List LinkZ) :
    linkLoop has edges acc = lFold has (edges.map fieldsOf) acc := by
  induction edges generalizing acc with
  | nil => rfl
  | cons e es ih =>
    simp only [linkLoop, List.map_cons, lFold]
    cases h : lLine has (fieldsOf e) with
    | error x => rfl
    | ok o =>
      cases o with
      | none => exact ih acc
      | some l => exact ih _

/-- the loader depends on the lines only through the S records and the L records, each in file order -/
theorem parseLines_eq (lines : List (List Char)) (lm : Bool) :
    parseLines lines lm = runRecs lm (sRecs lines) (lRecs lines) := by
  unfold parseLines runRecs
  rw [readLoop_eq]
  cases h : sFold lm (sRecs lines) SState.init with
  | error e => rfl
  | ok st =>
    simp only [List.nil_append]
    rw [linkLoop_eq]
    rfl

/-! ## lines: only the first character and the stripped content count -/

theorem startsWith_append (c : Char) (l x : List Char) (h : l ≠ []) : startsWith c (l ++ x) = startsWith c l := by
  cases l with
  | nil => exact absurd rfl h
  | cons a l => rfl

theorem dropWhile_append_of_pos (p : Char → Bool) (l x : List Char) (h : l.dropWhile p ≠ []) :
    (l ++ x).dropWhile p = l.dropWhile p ++ x := by
  induction l with
  | nil => exact absurd rfl h
  | cons a l ih =>
    by_cases ha : p a = true
    · simp only [List.cons_append, List.dropWhile_cons, ha, if_true] at h ⊢
      exact ih h
    · simp [List.dropWhile_cons, ha]

theorem dropWhile_eq_nil_of_all (p : Char → Bool) (l : List Char) (h : ∀ c ∈ l, p c = true) : l.dropWhile p = [] := by
  induction l with
  | nil => rfl
  | cons a l ih =>
    simp only [List.dropWhile_cons, h a (List.mem_cons_self ..), if_true]
    exact ih (fun c hc => h c (List.mem_cons_of_mem _ hc))

theorem all_of_dropWhile_nil (p : Char → Bool) (l : List Char) (h : l.dropWhile p = []) : ∀ c ∈ l, p c = true := by
  induction l with
  | nil => intro c hc; cases hc
  | cons a l ih =>
    by_cases ha : p a = true
    · simp only [List.dropWhile_cons, ha, if_true] at h
      intro c hc
      rcases List.mem_cons.1 hc with rfl | hc
      · exact ha
      · exact ih h c hc
    · simp [List.dropWhile_cons, ha] at h

/-- a white-space character at the end is stripped -/
theorem stripWith_snoc (p : Char → Bool) (l : List Char) (c : Char) (hc : p c = true) :
    stripWith p (l ++ [c]) = stripWith p l := by
  unfold stripWith
  by_cases h : l.dropWhile p = []
  · have hall := all_of_dropWhile_nil p l h
    rw [h, dropWhile_eq_nil_of_all p (l ++ [c]) (by
      intro d hd
      rcases List.mem_append.1 hd with hd | hd
      · exact hall d hd
      · simp only [List.mem_singleton] at hd; subst hd; exact hc)]
  · rw [dropWhile_append_of_pos p l [c] h, List.reverse_append]
    simp [List.dropWhile_cons, hc]

theorem pyIsSpace_nl : pyIsSpace '\n' = true := by decide

theorem fieldsOf_snoc_nl (l : List Char) : fieldsOf (l ++ ['\n']) = fieldsOf l := by
  unfold fieldsOf pyStripChars
  rw [stripWith_snoc pyIsSpace l '\n' pyIsSpace_nl]

/-- the S and L records of a list of lines -/
def recs (lines : List (List Char)) : List (List (List Char)) × List (List (List Char)) := (sRecs lines, lRecs lines)

theorem recs_nil : recs [] = ([], []) := rfl

theorem recs_cons_congr (l l' : List Char) (ls ls' : List (List Char))
    (hS : startsWith 'S' l = startsWith 'S' l') (hL : startsWith 'L' l = startsWith 'L' l') (hf : fieldsOf l = fieldsOf l')
    (h : recs ls = recs ls') : recs (l :: ls) = recs (l' :: ls') := by
  simp only [recs, sRecs, lRecs, Prod.mk.injEq] at h ⊢
  rw [List.filter_cons, List.filter_cons, List.filter_cons, List.filter_cons]
  simp only [isLLine, hS, hL]
  rcases Bool.eq_false_or_eq_true (startsWith 'S' l') with hs | hs <;>
    rcases Bool.eq_false_or_eq_true (startsWith 'L' l') with hl | hl <;> simp [hs, hl, hf, h.1, h.2]

/-- a line that starts neither with 'S' nor with 'L' leaves no record -/
theorem recs_cons_other (l : List Char) (ls : List (List Char)) (hS : startsWith 'S' l = false) (hL : startsWith 'L' l = false) :
    recs (l :: ls) = recs ls := by
  simp [recs, sRecs, lRecs, List.filter_cons, isLLine, hS, hL]

theorem recs_append (a b : List (List Char)) : recs (a ++ b) = ((recs a).1 ++ (recs b).1, (recs a).2 ++ (recs b).2) := by
  simp [recs, sRecs, lRecs]

/-- a line with or without its final "\n" gives the same record -/
theorem recs_cons_snoc_nl (l : List Char) (hl : l ≠ []) (ls ls' : List (List Char)) (h : recs ls = recs ls') :
    recs ((l ++ ['\n']) :: ls) = recs (l :: ls') :=
  recs_cons_congr _ _ _ _ (startsWith_append 'S' l _ hl) (startsWith_append 'L' l _ hl) (fieldsOf_snoc_nl l) h

theorem recs_nl_line (ls : List (List Char)) : recs (['\n'] :: ls) = recs ls :=
  recs_cons_other _ _ (by decide) (by decide)

/-! ## `keepEndsNl`, `univNl` -/

/-- appending "\n" to the text: the last line gains its "\n", or an empty line is added — the records stay -/
theorem recs_keepEnds_snoc_nl (u cur : List Char) :
    recs (keepEndsNl cur (u ++ ['\n'])) = recs (keepEndsNl cur u) := by
  induction u generalizing cur with
  | nil =>
    simp only [List.nil_append, keepEndsNl, beq_self_eq_true, if_true]
    cases cur with
    | nil => simpa using recs_nl_line []
    | cons c cur =>
      simp only [List.isEmpty_cons, Bool.false_eq_true, if_false, List.reverse_cons]
      have : (cur.reverse ++ [c] ++ ['\n']) = ((c :: cur).reverse ++ ['\n']) := by simp
      rw [List.reverse_cons] at this
      rw [this]
      exact recs_cons_snoc_nl _ (by simp) [] [] rfl
  | cons c u ih =>
    by_cases hc : (c == '\n') = true
    · simp only [List.cons_append, keepEndsNl, hc, if_true]
      exact recs_cons_congr _ _ _ _ rfl rfl rfl (ih [])
    · simp only [List.cons_append, keepEndsNl, hc, if_false]
      exact ih (c :: cur)

/-- `univNl` of a text with one more "\n": nothing new when the text ends with "\r" (then "\r\n" is one line end) -/
theorem univNl_snoc_nl (t : List Char) (b : Bool) :
    univNl b (t ++ ['\n']) = univNl b t ∨ univNl b (t ++ ['\n']) = univNl b t ++ ['\n'] := by
  induction t generalizing b with
  | nil =>
    cases b
    · right; simp [univNl]
    · left; simp [univNl]
  | cons c t ih =>
    by_cases hr : (c == '\r') = true
    · simp only [List.cons_append, univNl, hr, if_true]
      rcases ih true with h | h
      · left; rw [h]
      · right; simp [h]
    · by_cases hn : (c == '\n') = true
      · simp only [List.cons_append, univNl, hr, hn, if_true, if_false, Bool.false_eq_true]
        cases b
        · simp only [Bool.false_eq_true, if_false]
          rcases ih false with h | h
          · left; rw [h]
          · right; simp [h]
        · simp only [if_true]
          exact ih false
      · simp only [List.cons_append, univNl, hr, hn, if_false, Bool.false_eq_true]
        rcases ih false with h | h
        · left; rw [h]
        · right; simp [h]

theorem recs_fileLines_snoc_nl (t : List Char) : recs (fileLines (t ++ ['\n'])) = recs (fileLines t) := by
  unfold fileLines
  rcases univNl_snoc_nl t false with h | h
  · rw [h]
  · rw [h]; exact recs_keepEnds_snoc_nl _ _

/-- every '\n' written as "\r\n" -/
def crlf (t : List Char) : List Char := t.flatMap (fun c => if c == '\n' then ['\r', '\n'] else [c])

theorem crlf_cons (c : Char) (t : List Char) : crlf (c :: t) = (if c == '\n' then ['\r', '\n'] else [c]) ++ crlf t := by
  simp [crlf]

/-- the general form: also when the text already holds "\r" or "\r\n" (then "\r\r\n" reads as an extra empty line) -/
theorem recs_crlf (t : List Char) (b : Bool) (cur : List Char) (hb : b = true → cur = []) :
    recs (keepEndsNl cur (univNl b (crlf t))) = recs (keepEndsNl cur (univNl b t)) := by
  induction t generalizing b cur with
  | nil => rfl
  | cons c t ih =>
    rw [crlf_cons]
    by_cases hn : (c == '\n') = true
    · have hc : c = '\n' := beq_iff_eq.1 hn
      subst hc
      simp only [beq_self_eq_true, if_true, List.cons_append, List.nil_append]
      have e1 : univNl b ('\r' :: '\n' :: crlf t) = '\n' :: univNl false (crlf t) := by
        simp [univNl]
      rw [e1]
      cases b with
      | false =>
        have e2 : univNl false ('\n' :: t) = '\n' :: univNl false t := by simp [univNl]
        rw [e2]
        simp only [keepEndsNl, beq_self_eq_true, if_true]
        exact recs_cons_congr _ _ _ _ rfl rfl rfl (ih false [] (by simp))
      | true =>
        have hcur := hb rfl
        subst hcur
        have e2 : univNl true ('\n' :: t) = univNl false t := by simp [univNl]
        rw [e2]
        simp only [keepEndsNl, beq_self_eq_true, if_true, List.reverse_cons, List.reverse_nil, List.nil_append]
        rw [recs_nl_line]
        exact ih false [] (by simp)
    · simp only [hn, if_false, List.cons_append, List.nil_append, Bool.false_eq_true]
      by_cases hr : (c == '\r') = true
      · simp only [univNl, hr, if_true, keepEndsNl, beq_self_eq_true]
        exact recs_cons_congr _ _ _ _ rfl rfl rfl (ih true [] (by simp))
      · simp only [univNl, hr, hn, if_false, keepEndsNl, Bool.false_eq_true]
        exact ih false (c :: cur) (by simp)

theorem recs_fileLines_crlf (t : List Char) : recs (fileLines (crlf t)) = recs (fileLines t) :=
  recs_crlf t false [] (by simp)

/-- the lines of a text made of complete lines -/
def unlines (ls : List (List Char)) : List Char := ls.flatMap (fun l => l ++ ['\n'])

def NoBreak (l : List Char) : Prop := '\n' ∉ l ∧ '\r' ∉ l

theorem fileLines_unlines (ls : List (List Char)) (h : ∀ l ∈ ls, NoBreak l) :
    fileLines (unlines ls) = ls.map (fun l => l ++ ['\n']) := by
  unfold fileLines unlines
  rw [univNl_id]
  · exact keepEndsNl_lines ls (fun l hl => (h l hl).1)
  · intro hm
    simp only [List.mem_flatMap, List.mem_append, List.mem_singleton] at hm
    obtain ⟨l, hl, hc | hc⟩ := hm
    · exact (h l hl).2 hc
    · exact absurd hc (by decide)

theorem recs_map_snoc_nl (ls : List (List Char)) : recs (ls.map (fun l => l ++ ['\n'])) = recs ls := by
  induction ls with
  | nil => rfl
  | cons l ls ih =>
    by_cases hl : l = []
    · subst hl
      simp only [List.map_cons, List.nil_append]
      rw [recs_nl_line, ih]
      exact (recs_cons_other [] ls rfl rfl).symm
    · exact recs_cons_snoc_nl l hl _ _ ih

theorem recs_fileLines_unlines (ls : List (List Char)) (h : ∀ l ∈ ls, NoBreak l) : recs (fileLines (unlines ls)) = recs ls := by
  rw [fileLines_unlines ls h, recs_map_snoc_nl]

/-! ## `strip()` / `split("\t")` of a written line -/

/-- the last character exists and is no white space: `strip()` removes nothing at this end -/
def EndOk (l : List Char) : Prop := ∃ c, l.getLast? = some c ∧ pyIsSpace c = false

theorem strip_id_of_ends (l : List Char) (c : Char) (r : List Char) (hl : l = c :: r) (hc : pyIsSpace c = false) (he : EndOk l) :
    pyStripChars l = l := by
  obtain ⟨d, hd, hds⟩ := he
  unfold pyStripChars stripWith
  rw [dropWhile_id_of_head pyIsSpace l (by intro x hx; rw [hl] at hx; simp at hx; subst hx; exact hc)]
  rw [dropWhile_id_of_head pyIsSpace l.reverse (by
    intro x hx
    rw [List.head?_reverse, hd] at hx
    simp at hx; subst hx; exact hds), List.reverse_reverse]

theorem joinTab_cons_cons (x y : List Char) (r : List (List Char)) : joinTab (x :: y :: r) = x ++ '\t' :: joinTab (y :: r) := rfl

theorem splitOn_joinTab (fs : List (List Char)) (hne : fs ≠ []) (h : ∀ f ∈ fs, '\t' ∉ f) : splitOn '\t' (joinTab fs) = fs := by
  induction fs with
  | nil => exact absurd rfl hne
  | cons x r ih =>
    cases r with
    | nil => simpa [joinTab] using splitOn_no_sep '\t' x (h x (List.mem_cons_self ..))
    | cons y r =>
      rw [joinTab_cons_cons, splitOn_append, splitOn_no_sep '\t' x (h x (List.mem_cons_self ..)),
        ih (by simp) (fun f hf => h f (List.mem_cons_of_mem _ hf))]
      rfl

theorem joinTab_suffix (fs : List (List Char)) (last : List Char) (hl : fs.getLast? = some last) : ∃ pre, joinTab fs = pre ++ last := by
  induction fs with
  | nil => simp at hl
  | cons x r ih =>
    cases r with
    | nil => simp at hl; subst hl; exact ⟨[], rfl⟩
    | cons y r =>
      obtain ⟨pre, hp⟩ := ih (by simpa [List.getLast?_cons_cons] using hl)
      exact ⟨x ++ '\t' :: pre, by rw [joinTab_cons_cons, hp]; simp⟩

theorem getLast?_joinTab (fs : List (List Char)) (last : List Char) (hl : fs.getLast? = some last) (hne : last ≠ []) :
    (joinTab fs).getLast? = last.getLast? := by
  obtain ⟨pre, hp⟩ := joinTab_suffix fs last hl
  rw [hp, List.getLast?_append]
  cases h : last.getLast? with
  | none => exact absurd (List.getLast?_eq_none_iff.1 h) hne
  | some a => rfl

theorem joinTab_head (x : List Char) (r : List (List Char)) (c : Char) (t : List Char) (hx : x = c :: t) :
    ∃ t', joinTab (x :: r) = c :: t' := by
  subst hx
  cases r with
  | nil => exact ⟨t, rfl⟩
  | cons y r => exact ⟨t ++ '\t' :: joinTab (y :: r), rfl⟩

/-- a written line (first field "S" or "L", no tab inside a field, last character no white space) followed by "\n" splits
    back into its fields -/
theorem fieldsOf_line (k : Char) (hk : pyIsSpace k = false) (fs : List (List Char)) (h : ∀ f ∈ ([k] :: fs), '\t' ∉ f)
    (he : EndOk (joinTab ([k] :: fs))) : fieldsOf (joinTab ([k] :: fs) ++ ['\n']) = [k] :: fs := by
  rw [fieldsOf_snoc_nl]
  unfold fieldsOf
  obtain ⟨t', ht'⟩ := joinTab_head [k] fs k [] rfl
  rw [strip_id_of_ends _ k t' ht' hk he]
  exact splitOn_joinTab _ (by simp) h

/-! ## tags -/

/-- a tag triple whose text `name:ty:val` is accepted by `is_correct_tag` and splits back into the triple: a two-character name
    `[A-Za-z][A-Za-z0-9]`, a one-character type of `AifZHB`, a value of printable ASCII that matches the type's expression -/
def tagValid (t : Tag) : Bool :=
  match t.name.toList, t.ty.toList with
  | [c0, c1], [ty] => isAlpha c0 && isAlnum c1 && isTagType ty && t.val.toList.all isPrint && valueOk ty t.val.toList
  | _, _ => false

theorem isPrint_of_isAlpha {c : Char} (h : isAlpha c = true) : isPrint c = true := by
  simp only [isAlpha, isUpper, isLower, isPrint, Bool.or_eq_true, Bool.and_eq_true, decide_eq_true_eq] at h ⊢
  omega

theorem isPrint_of_isDigit {c : Char} (h : c.isDigit = true) : isPrint c = true := by
  have := isDigit_toNat h
  simp only [isPrint, Bool.and_eq_true, decide_eq_true_eq]
  omega

theorem isPrint_of_isAlnum {c : Char} (h : isAlnum c = true) : isPrint c = true := by
  simp only [isAlnum, Bool.or_eq_true] at h
  rcases h with h | h
  · exact isPrint_of_isAlpha h
  · exact isPrint_of_isDigit h

theorem isTagType_cases {c : Char} (h : isTagType c = true) : c = 'A' ∨ c = 'i' ∨ c = 'f' ∨ c = 'Z' ∨ c = 'H' ∨ c = 'B' := by
  simpa [isTagType, or_assoc] using h

theorem isPrint_of_isTagType {c : Char} (h : isTagType c = true) : isPrint c = true := by
  rcases isTagType_cases h with h | h | h | h | h | h <;> subst h <;> decide

theorem ne_of_isPrint {c d : Char} (h : isPrint c = true) (hd : isPrint d = false) : c ≠ d := by
  intro e; subst e; rw [h] at hd; cases hd

theorem isAlpha_ne_colon {c : Char} (h : isAlpha c = true) : (c == ':') = false := by
  cases hb : c == ':' with
  | false => rfl
  | true => rw [beq_iff_eq.1 hb] at h; exact absurd h (by decide)

theorem isAlnum_ne_colon {c : Char} (h : isAlnum c = true) : (c == ':') = false := by
  cases hb : c == ':' with
  | false => rfl
  | true => rw [beq_iff_eq.1 hb] at h; exact absurd h (by decide)

theorem isTagType_ne_colon {c : Char} (h : isTagType c = true) : (c == ':') = false := by
  cases hb : c == ':' with
  | false => rfl
  | true => rw [beq_iff_eq.1 hb] at h; exact absurd h (by decide)

theorem chomp_id_of_print (s : List Char) (h : ∀ c ∈ s, isPrint c = true) : chomp s = s := by
  unfold chomp
  cases hl : s.getLast? with
  | none => simp
  | some c =>
    have hc := h c (List.mem_of_getLast? hl)
    have : c ≠ '\n' := ne_of_isPrint hc (by decide)
    simp [this]

/-- the shape of a valid tag -/
theorem tagValid_shape {t : Tag} (h : tagValid t = true) :
    ∃ c0 c1 ty, t.name.toList = [c0, c1] ∧ t.ty.toList = [ty] ∧ isAlpha c0 = true ∧ isAlnum c1 = true ∧ isTagType ty = true ∧
      (∀ c ∈ t.val.toList, isPrint c = true) ∧ valueOk ty t.val.toList = true := by
  unfold tagValid at h
  split at h
  · rename_i c0 c1 ty hn hty
    simp only [Bool.and_eq_true, List.all_eq_true] at h
    exact ⟨c0, c1, ty, hn, hty, h.1.1.1.1, h.1.1.1.2, h.1.1.2, h.1.2, h.2⟩
  · cases h

theorem tagText_print {t : Tag} (h : tagValid t = true) : ∀ c ∈ tagText t, isPrint c = true := by
  obtain ⟨c0, c1, ty, hn, hty, h0, h1, h2, hv, _⟩ := tagValid_shape h
  intro c hc
  simp only [tagText, hn, hty, List.cons_append, List.nil_append, List.mem_cons] at hc
  rcases hc with rfl | rfl | rfl | rfl | rfl | hc
  · exact isPrint_of_isAlpha h0
  · exact isPrint_of_isAlnum h1
  · decide
  · exact isPrint_of_isTagType h2
  · decide
  · exact hv c hc

theorem parseTag_tagText {t : Tag} (h : tagValid t = true) : parseTag (tagText t) = some t := by
  have hp := tagText_print h
  obtain ⟨c0, c1, ty, hn, hty, h0, h1, h2, hv, hval⟩ := tagValid_shape h
  have htext : tagText t = c0 :: c1 :: ':' :: ty :: ':' :: t.val.toList := by simp [tagText, hn, hty]
  have hsplit : splitMax ':' 2 (tagText t) = [[c0, c1], [ty], t.val.toList] := by
    rw [htext]
    simp [splitMax, isAlpha_ne_colon h0, isAlnum_ne_colon h1, isTagType_ne_colon h2]
  have hcorrect : isCorrectTag (tagText t) = true := by
    unfold isCorrectTag
    rw [hsplit, chomp_id_of_print _ hp]
    simp only [chomp_id_of_print _ hv]
    rw [htext]
    simp only [tagShape, h0, h1, h2, hval, beq_self_eq_true, Bool.true_and, Bool.and_true, List.all_eq_true]
    exact hv
  unfold parseTag
  rw [hcorrect, hsplit]
  simp only [if_true]
  rw [← hn, ← hty, String.ofList_toList, String.ofList_toList, String.ofList_toList]

theorem parseTags_map_tagText (tags : List Tag) (h : ∀ t ∈ tags, tagValid t = true) : parseTags (tags.map tagText) = some tags := by
  induction tags with
  | nil => rfl
  | cons t ts ih =>
    simp only [List.map_cons, parseTags, parseTag_tagText (h t (List.mem_cons_self ..)),
      ih (fun x hx => h x (List.mem_cons_of_mem _ hx)), Option.map_some]

theorem not_mem_of_print (s : List Char) (h : ∀ c ∈ s, isPrint c = true) (d : Char) (hd : isPrint d = false) : d ∉ s :=
  fun hm => by rw [h d hm] at hd; cases hd

/-! ## text-safe token files (the hypotheses of `parse_render`) -/

/-- a field that survives the line iteration and `split("\t")`: no tab, no "\n", no "\r" (anything else — blanks, ':', other
    Unicode white space — is kept as it is) -/
def FieldOk (l : List Char) : Prop := '\t' ∉ l ∧ '\n' ∉ l ∧ '\r' ∉ l

/-- the last field of the S line: the last tag, or the sequence when there is no tag -/
def segLastField (s : SegLine) : List Char := ((s.tags.map tagText).getLast?).getD s.seq.toList

/-- an S record that can be written and read back: id and sequence hold no tab / line break (they may be empty, hold blanks, start
    or end with blanks), the tags are valid, and the line does not end with white space that `strip()` would remove — i.e. the
    last field is not empty and does not end with a white-space character (this excludes an empty sequence without tags, and a
    last tag of type Z whose value ends with a blank) -/
structure SegSafe (s : SegLine) : Prop where
  id : FieldOk s.id.toList
  seq : FieldOk s.seq.toList
  tags : ∀ t ∈ s.tags, tagValid t = true
  last : EndOk (segLastField s)

/-- an L record that can be written and read back: ids and tags hold no tab / line break (the tags are arbitrary strings
    otherwise: the reader never validates them), the last tag — if there is a tag — is not empty and does not end with white space,
    and the overlap has at most 4300 digits (more cannot be printed or read by Python's `int`/`str`) -/
structure LinkSafe (l : LinkLine) : Prop where
  a : FieldOk l.a.toList
  b : FieldOk l.b.toList
  tags : ∀ t ∈ l.tags, FieldOk t.toList
  last : ∀ t, l.tags.getLast? = some t → EndOk t.toList
  digits : (Nat.toDigits 10 l.ov).length ≤ Gaftools.TextLayer.maxStrDigits

structure TextSafe (f : GfaFile) : Prop where
  segs : ∀ s ∈ f.segs, SegSafe s
  links : ∀ l ∈ f.links, LinkSafe l

theorem fieldOk_of_print (s : List Char) (h : ∀ c ∈ s, isPrint c = true) : FieldOk s :=
  ⟨not_mem_of_print s h _ (by decide), not_mem_of_print s h _ (by decide), not_mem_of_print s h _ (by decide)⟩

theorem mem_joinTab (fs : List (List Char)) (c : Char) (h : c ∈ joinTab fs) : c = '\t' ∨ ∃ f ∈ fs, c ∈ f := by
  induction fs with
  | nil => cases h
  | cons x r ih =>
    cases r with
    | nil => exact Or.inr ⟨x, List.mem_cons_self .., h⟩
    | cons y r =>
      rw [joinTab_cons_cons, List.mem_append, List.mem_cons] at h
      rcases h with h | h | h
      · exact Or.inr ⟨x, List.mem_cons_self .., h⟩
      · exact Or.inl h
      · rcases ih h with h | ⟨f, hf, hc⟩
        · exact Or.inl h
        · exact Or.inr ⟨f, List.mem_cons_of_mem _ hf, hc⟩

theorem noBreak_joinTab (fs : List (List Char)) (h : ∀ f ∈ fs, FieldOk f) : NoBreak (joinTab fs) := by
  constructor
  · intro hm
    rcases mem_joinTab fs _ hm with h' | ⟨f, hf, hc⟩
    · exact absurd h' (by decide)
    · exact (h f hf).2.1 hc
  · intro hm
    rcases mem_joinTab fs _ hm with h' | ⟨f, hf, hc⟩
    · exact absurd h' (by decide)
    · exact (h f hf).2.2 hc

theorem endOk_ne_nil {l : List Char} (h : EndOk l) : l ≠ [] := by
  obtain ⟨c, hc, _⟩ := h
  intro e; subst e; simp at hc

/-! ### S lines -/

def segFields (s : SegLine) : List (List Char) := ['S'] :: s.id.toList :: s.seq.toList :: s.tags.map tagText

theorem segFields_ok {s : SegLine} (h : SegSafe s) : ∀ f ∈ segFields s, FieldOk f := by
  intro f hf
  simp only [segFields, List.mem_cons, List.mem_map] at hf
  rcases hf with rfl | rfl | rfl | ⟨t, ht, rfl⟩
  · exact ⟨by decide, by decide, by decide⟩
  · exact h.id
  · exact h.seq
  · exact fieldOk_of_print _ (tagText_print (h.tags t ht))

theorem segFields_getLast? (s : SegLine) : (segFields s).getLast? = some (segLastField s) := by
  simp [segFields, segLastField, List.getLast?_cons_cons, List.getLast?_cons]

theorem segText_endOk {s : SegLine} (h : SegSafe s) : EndOk (segText s) := by
  obtain ⟨c, hc, hs⟩ := h.last
  exact ⟨c, by rw [segText, ← segFields, getLast?_joinTab _ _ (segFields_getLast? s) (endOk_ne_nil h.last)]; exact hc, hs⟩

theorem segText_noBreak {s : SegLine} (h : SegSafe s) : NoBreak (segText s) :=
  noBreak_joinTab _ (segFields_ok h)

theorem fieldsOf_segText {s : SegLine} (h : SegSafe s) : fieldsOf (segText s ++ ['\n']) = segFields s :=
  fieldsOf_line 'S' (by decide) _ (fun f hf => (segFields_ok h f hf).1) (segText_endOk h)

theorem startsWith_segText (s : SegLine) (x : List Char) : startsWith 'S' (segText s ++ x) = true := by
  obtain ⟨t', ht'⟩ := joinTab_head ['S'] (s.id.toList :: s.seq.toList :: s.tags.map tagText) 'S' [] rfl
  rw [segText, ht']
  rfl

/-- reading a written S line is processing its tokens -/
theorem sLine_segText (lm : Bool) (st : SState) {s : SegLine} (h : SegSafe s) :
    sLine lm st (fieldsOf (segText s ++ ['\n'])) = sTok lm st s := by
  rw [fieldsOf_segText h]
  simp only [segFields, sLine, String.ofList_toList]
  by_cases hh : st.has s.id = true
  · simp [hh, sTok]
  · simp only [hh, Bool.false_eq_true, if_false, parseTags_map_tagText s.tags h.tags]

/-! ### L lines -/

def linkFields (l : LinkLine) : List (List Char) :=
  ['L'] :: l.a.toList :: oriChar l.da :: l.b.toList :: oriChar l.db :: (Nat.toDigits 10 l.ov ++ ['M']) :: l.tags.map String.toList

def toZ (l : LinkLine) : LinkZ := ⟨l.a, l.da, l.b, l.db, (l.ov : Int), l.tags⟩

theorem toLink?_toZ (l : LinkLine) : (toZ l).toLink? = some l := by
  simp [toZ, LinkZ.toLink?]

theorem linksToNat_map_toZ (ls : List LinkLine) : linksToNat (ls.map toZ) = some ls := by
  induction ls with
  | nil => rfl
  | cons l ls ih => simp [linksToNat, toLink?_toZ, ih]

theorem oriChar_fieldOk (d : Bool) : FieldOk (oriChar d) := by
  cases d <;> exact ⟨by decide, by decide, by decide⟩

theorem digits_fieldOk (n : Nat) : FieldOk (Nat.toDigits 10 n ++ ['M']) := by
  have hp : ∀ c ∈ Nat.toDigits 10 n ++ ['M'], isPrint c = true := by
    intro c hc
    rcases List.mem_append.1 hc with hc | hc
    · exact isPrint_of_isDigit (digits_all n c hc)
    · simp only [List.mem_singleton] at hc; subst hc; decide
  exact fieldOk_of_print _ hp

theorem linkFields_ok {l : LinkLine} (h : LinkSafe l) : ∀ f ∈ linkFields l, FieldOk f := by
  intro f hf
  simp only [linkFields, List.mem_cons, List.mem_map] at hf
  rcases hf with rfl | rfl | rfl | rfl | rfl | rfl | ⟨t, ht, rfl⟩
  · exact ⟨by decide, by decide, by decide⟩
  · exact h.a
  · exact oriChar_fieldOk _
  · exact h.b
  · exact oriChar_fieldOk _
  · exact digits_fieldOk _
  · exact h.tags t ht

theorem linkText_endOk {l : LinkLine} (h : LinkSafe l) : EndOk (linkText l) := by
  cases ht : l.tags.getLast? with
  | none =>
    have hnil : l.tags = [] := List.getLast?_eq_none_iff.1 ht
    have hl : (linkFields l).getLast? = some (Nat.toDigits 10 l.ov ++ ['M']) := by
      simp [linkFields, hnil, List.getLast?_cons_cons]
    exact ⟨'M', by rw [linkText, ← linkFields, getLast?_joinTab _ _ hl (by simp)]; simp, by decide⟩
  | some t =>
    have he := h.last t ht
    have hl : (linkFields l).getLast? = some t.toList := by
      simp only [linkFields, List.getLast?_cons_cons]
      rw [List.getLast?_cons, List.getLast?_map, ht]
      rfl
    obtain ⟨c, hc, hs⟩ := he
    exact ⟨c, by rw [linkText, ← linkFields, getLast?_joinTab _ _ hl (endOk_ne_nil (h.last t ht))]; exact hc, hs⟩

theorem linkText_noBreak {l : LinkLine} (h : LinkSafe l) : NoBreak (linkText l) :=
  noBreak_joinTab _ (linkFields_ok h)

theorem fieldsOf_linkText {l : LinkLine} (h : LinkSafe l) : fieldsOf (linkText l ++ ['\n']) = linkFields l :=
  fieldsOf_line 'L' (by decide) _ (fun f hf => (linkFields_ok h f hf).1) (linkText_endOk h)

theorem startsWith_linkText (l : LinkLine) (x : List Char) : startsWith 'L' (linkText l ++ x) = true ∧ startsWith 'S' (linkText l ++ x) = false := by
  obtain ⟨t', ht'⟩ := joinTab_head ['L'] (l.a.toList :: oriChar l.da :: l.b.toList :: oriChar l.db :: (Nat.toDigits 10 l.ov ++ ['M']) :: l.tags.map String.toList) 'L' [] rfl
  rw [linkText, ht']
  exact ⟨rfl, rfl⟩

theorem isOrient_oriChar (d : Bool) : isOrient (oriChar d) = true := by cases d <;> decide
theorem isPlus_oriChar (d : Bool) : isPlus (oriChar d) = d := by cases d <;> decide

/-- reading a written L line: stored (with its overlap and tags) iff both endpoints are known -/
theorem lLine_linkText (has : String → Bool) {l : LinkLine} (h : LinkSafe l) :
    lLine has (fieldsOf (linkText l ++ ['\n'])) = .ok (if has l.a && has l.b then some (toZ l) else none) := by
  rw [fieldsOf_linkText h]
  simp only [linkFields, lLine, List.dropLast_concat, pyInt_dec l.ov h.digits, String.ofList_toList, isOrient_oriChar,
    isPlus_oriChar, Bool.and_self, Bool.not_true, Bool.false_eq_true, if_false, List.map_map]
  have hm : (String.ofList ∘ String.toList) = id := by funext x; simp [String.ofList_toList]
  rw [hm, List.map_id]
  by_cases hh : (has l.a && has l.b) = true
  · simp [hh, toZ]
  · simp [hh]

/-! ## a written file -/

/-- the S branch on tokenised S records, in order -/
def segsRun (lm : Bool) : List SegLine → SState → Except PyErr SState
  | [], st => .ok st
  | s :: rest, st =>
    match sTok lm st s with
    | .error e => .error e
    | .ok st' => segsRun lm rest st'

def segLineText (s : SegLine) : List Char := segText s ++ ['\n']
def linkLineText (l : LinkLine) : List Char := linkText l ++ ['\n']

theorem sFold_segs (lm : Bool) (segs : List SegLine) (h : ∀ s ∈ segs, SegSafe s) (st : SState) :
    sFold lm (segs.map (fun s => fieldsOf (segLineText s))) st = segsRun lm segs st := by
  induction segs generalizing st with
  | nil => rfl
  | cons s rest ih =>
    simp only [List.map_cons, sFold, segsRun, segLineText, sLine_segText lm st (h s (List.mem_cons_self ..))]
    cases sTok lm st s with
    | error e => rfl
    | ok st' => exact ih (fun x hx => h x (List.mem_cons_of_mem _ hx)) st'

def stored (has : String → Bool) (links : List LinkLine) : List LinkLine := links.filter (fun l => has l.a && has l.b)

theorem lFold_links (has : String → Bool) (links : List LinkLine) (h : ∀ l ∈ links, LinkSafe l) (acc : List LinkZ) :
    lFold has (links.map (fun l => fieldsOf (linkLineText l))) acc = .ok (acc ++ (stored has links).map toZ) := by
  induction links generalizing acc with
  | nil => simp [lFold, stored]
  | cons l rest ih =>
    have ih := ih (fun x hx => h x (List.mem_cons_of_mem _ hx))
    have h1 : lLine has (fieldsOf (linkLineText l)) = .ok (if has l.a && has l.b then some (toZ l) else none) :=
      lLine_linkText has (h l (List.mem_cons_self ..))
    simp only [List.map_cons, lFold, h1]
    by_cases hh : (has l.a && has l.b) = true
    · simp only [hh, if_true]
      rw [ih]
      simp [stored, List.filter_cons, hh]
    · simp only [hh, Bool.false_eq_true, if_false]
      rw [ih]
      simp [stored, List.filter_cons, hh]

theorem recs_segLines (segs : List SegLine) : recs (segs.map segLineText) = (segs.map (fun s => fieldsOf (segLineText s)), []) := by
  induction segs with
  | nil => rfl
  | cons s rest ih =>
    have hS : startsWith 'S' (segLineText s) = true := startsWith_segText s _
    simp only [recs, sRecs, lRecs, Prod.mk.injEq] at ih ⊢
    simp [List.filter_cons, isLLine, hS, ih.1, ih.2]

theorem recs_linkLines (links : List LinkLine) : recs (links.map linkLineText) = ([], links.map (fun l => fieldsOf (linkLineText l))) := by
  induction links with
  | nil => rfl
  | cons l rest ih =>
    have hL := startsWith_linkText l ['\n']
    simp only [recs, sRecs, lRecs, Prod.mk.injEq] at ih ⊢
    simp [List.filter_cons, isLLine, linkLineText, hL.1, hL.2, ih.1, ih.2]

theorem renderLines_noBreak {f : GfaFile} (h : TextSafe f) : ∀ l ∈ renderLines f, NoBreak l := by
  intro l hl
  simp only [renderLines, List.mem_append, List.mem_map] at hl
  rcases hl with ⟨s, hs, rfl⟩ | ⟨k, hk, rfl⟩
  · exact segText_noBreak (h.segs s hs)
  · exact linkText_noBreak (h.links k hk)

theorem recs_render {f : GfaFile} (h : TextSafe f) :
    recs (fileLines (renderChars f)) =
      (f.segs.map (fun s => fieldsOf (segLineText s)), f.links.map (fun l => fieldsOf (linkLineText l))) := by
  have e : renderChars f = unlines (renderLines f) := rfl
  rw [e, fileLines_unlines _ (renderLines_noBreak h)]
  have : (renderLines f).map (fun l => l ++ ['\n']) = f.segs.map segLineText ++ f.links.map linkLineText := by
    simp only [renderLines, List.map_append, List.map_map]
    rfl
  rw [this, recs_append, recs_segLines, recs_linkLines]
  simp

/-- what reading a written file gives, in terms of the token-level S branch -/
theorem parseLines_render {f : GfaFile} (h : TextSafe f) (lm : Bool) :
    parseLines (fileLines (renderChars f)) lm =
      match segsRun lm f.segs SState.init with
      | .error e => .error e
      | .ok st => .ok ⟨st.segs, (stored st.has f.links).map toZ, st.contigs, st.contigToNodes⟩ := by
  rw [parseLines_eq]
  have hr := recs_render h
  simp only [recs, Prod.mk.injEq] at hr
  rw [hr.1, hr.2]
  unfold runRecs
  rw [sFold_segs lm f.segs h.segs]
  cases segsRun lm f.segs SState.init with
  | error e => rfl
  | ok st => simp only [lFold_links st.has f.links h.links, List.nil_append]

/-! ## the S branch when ids are unique and the ranks are consistent -/

/-- what is stored of an S record: under `low_memory` the sequence is dropped -/
def blank (lm : Bool) (s : SegLine) : SegLine := ⟨s.id, if lm then "" else s.seq, s.tags⟩

/-- the `SN`/`SR` bookkeeping of `add_node` never raises: there is an assignment of ranks to contig names such that on every
    S line that carries both tags (in its tag dict) the `SR` value is read by `int()` as the rank of its `SN` value -/
def RanksOk (segs : List SegLine) : Prop :=
  ∃ rank : String → Int, ∀ s ∈ segs, ∀ sn sr, dictGet (dictOf s.tags) "SN" = some sn → dictGet (dictOf s.tags) "SR" = some sr →
    pyInt sr.val.toList = some (rank sn.val)

theorem contigStep_ok (rank : String → Int) (contigs : List (String × Int)) (hc : ∀ p ∈ contigs, p.2 = rank p.1) (d : List Tag)
    (hd : ∀ sn sr, dictGet d "SN" = some sn → dictGet d "SR" = some sr → pyInt sr.val.toList = some (rank sn.val)) :
    ∃ c', contigStep contigs d = .ok c' ∧ ∀ p ∈ c', p.2 = rank p.1 := by
  unfold contigStep
  cases hsn : dictGet d "SN" with
  | none => exact ⟨contigs, rfl, hc⟩
  | some sn =>
    cases hsr : dictGet d "SR" with
    | none => exact ⟨contigs, rfl, hc⟩
    | some sr =>
      simp only [hd sn sr hsn hsr]
      cases hr : rankGet contigs sn.val with
      | none =>
        refine ⟨_, rfl, ?_⟩
        intro p hp
        rcases List.mem_append.1 hp with hp | hp
        · exact hc p hp
        · simp only [List.mem_singleton] at hp; subst hp; rfl
      | some r0 =>
        have : r0 = rank sn.val := by
          unfold rankGet at hr
          cases hf : contigs.find? (fun x => x.1 == sn.val) with
          | none => rw [hf] at hr; cases hr
          | some p =>
            rw [hf] at hr
            simp only [Option.map_some, Option.some.injEq] at hr
            have hm := List.mem_of_find?_eq_some hf
            have hk := List.find?_some hf
            simp only [beq_iff_eq] at hk
            rw [← hr, hc p hm, hk]
        simp only [this, if_true]
        exact ⟨contigs, rfl, hc⟩

theorem c2nStep_segs (st : SState) (id : String) : (c2nStep st id).segs = st.segs ∧ (c2nStep st id).contigs = st.contigs := by
  unfold c2nStep
  split <;> exact ⟨rfl, rfl⟩

theorem segsRun_ok (lm : Bool) (rank : String → Int) (segs : List SegLine)
    (hr : ∀ s ∈ segs, ∀ sn sr, dictGet (dictOf s.tags) "SN" = some sn → dictGet (dictOf s.tags) "SR" = some sr →
      pyInt sr.val.toList = some (rank sn.val))
    (hn : (segs.map (·.id)).Nodup) (st0 : SState) (hfresh : ∀ s ∈ segs, st0.has s.id = false)
    (hc : ∀ p ∈ st0.contigs, p.2 = rank p.1) :
    ∃ st, segsRun lm segs st0 = .ok st ∧ st.segs = st0.segs ++ segs.map (blank lm) := by
  induction segs generalizing st0 with
  | nil => exact ⟨st0, rfl, by simp⟩
  | cons s rest ih =>
    have hs := hfresh s (List.mem_cons_self ..)
    obtain ⟨c', hc', hinv⟩ := contigStep_ok rank st0.contigs hc (dictOf s.tags) (hr s (List.mem_cons_self ..))
    have hnew : sNew st0 ⟨s.id, if lm then "" else s.seq, s.tags⟩ = .ok { st0 with segs := st0.segs ++ [blank lm s], contigs := c' } := by
      simp only [sNew, hc', blank]
    have htok : sTok lm st0 s = .ok (c2nStep { st0 with segs := st0.segs ++ [blank lm s], contigs := c' } s.id) := by
      simp only [sTok, hs, Bool.false_eq_true, if_false, hnew]
    simp only [segsRun, htok]
    have h2 := c2nStep_segs { st0 with segs := st0.segs ++ [blank lm s], contigs := c' } s.id
    simp only [List.map_cons, List.nodup_cons] at hn
    obtain ⟨st, hst, hsegs⟩ := ih (fun x hx => hr x (List.mem_cons_of_mem _ hx)) hn.2
      (c2nStep { st0 with segs := st0.segs ++ [blank lm s], contigs := c' } s.id)
      (by
        intro x hx
        have hx0 := hfresh x (List.mem_cons_of_mem _ hx)
        have hne : x.id ≠ s.id := fun e => hn.1 (e ▸ List.mem_map_of_mem hx)
        rw [SState.has, h2.1]
        simp only [SState.has] at hx0
        simp only [List.any_append, List.any_cons, List.any_nil, Bool.or_false, blank]
        rw [hx0]
        simp only [Bool.false_or, beq_eq_false_iff_ne, ne_eq]
        exact fun e => hne e.symm)
      (by rw [h2.2]; exact hinv)
    exact ⟨st, hst, by rw [hsegs, h2.1]; simp⟩

theorem segsRun_ok_init (lm : Bool) (segs : List SegLine) (hr : RanksOk segs) (hn : (segs.map (·.id)).Nodup) :
    ∃ st, segsRun lm segs SState.init = .ok st ∧ st.segs = segs.map (blank lm) := by
  obtain ⟨rank, hrank⟩ := hr
  obtain ⟨st, h1, h2⟩ := segsRun_ok lm rank segs hrank hn SState.init (fun _ _ => rfl) (fun p hp => by cases hp)
  exact ⟨st, h1, by simpa [SState.init] using h2⟩

/-! ## a text after complete lines -/

theorem univNl_append_nl (p x : List Char) (b : Bool) :
    univNl b (p ++ '\n' :: x) = univNl b (p ++ ['\n']) ++ univNl false x := by
  induction p generalizing b with
  | nil => cases b <;> simp [univNl]
  | cons c p ih =>
    by_cases hr : (c == '\r') = true
    · simp only [List.cons_append, univNl, hr, if_true, ih true]
    · by_cases hn : (c == '\n') = true
      · cases b <;> simp [univNl, hr, hn, ih false]
      · simp only [List.cons_append, univNl, hr, hn, if_false, Bool.false_eq_true, ih false]

theorem univNl_nl_ends (p : List Char) (b : Bool) :
    (∃ w, univNl b (p ++ ['\n']) = w ++ ['\n']) ∨ (b = true ∧ univNl b (p ++ ['\n']) = []) := by
  induction p generalizing b with
  | nil =>
    cases b
    · left; exact ⟨[], by simp [univNl]⟩
    · right; exact ⟨rfl, by simp [univNl]⟩
  | cons c p ih =>
    by_cases hr : (c == '\r') = true
    · left
      simp only [List.cons_append, univNl, hr, if_true]
      rcases ih true with ⟨w, h⟩ | ⟨_, h⟩
      · exact ⟨'\n' :: w, by rw [h]; rfl⟩
      · exact ⟨[], by rw [h]; rfl⟩
    · by_cases hn : (c == '\n') = true
      · cases b
        · left
          simp only [List.cons_append, univNl, hr, hn, if_true, if_false, Bool.false_eq_true]
          rcases ih false with ⟨w, h⟩ | ⟨hb, _⟩
          · exact ⟨'\n' :: w, by rw [h]; rfl⟩
          · cases hb
        · simp only [List.cons_append, univNl, hr, hn, if_true, if_false, Bool.false_eq_true]
          rcases ih false with ⟨w, h⟩ | ⟨hb, _⟩
          · left; exact ⟨w, h⟩
          · cases hb
      · left
        simp only [List.cons_append, univNl, hr, hn, if_false, Bool.false_eq_true]
        rcases ih false with ⟨w, h⟩ | ⟨hb, _⟩
        · exact ⟨c :: w, by rw [h]; rfl⟩
        · cases hb

theorem keepEndsNl_append_nl (u v cur : List Char) :
    keepEndsNl cur (u ++ '\n' :: v) = keepEndsNl cur (u ++ ['\n']) ++ keepEndsNl [] v := by
  induction u generalizing cur with
  | nil => simp [keepEndsNl]
  | cons c u ih =>
    by_cases hc : (c == '\n') = true
    · simp only [List.cons_append, keepEndsNl, hc, if_true, ih [], List.cons_append]
    · simp only [List.cons_append, keepEndsNl, hc, if_false, Bool.false_eq_true, ih (c :: cur)]

/-- after complete lines the rest of the text is read on its own -/
theorem fileLines_append_nl (p x : List Char) : fileLines (p ++ '\n' :: x) = fileLines (p ++ ['\n']) ++ fileLines x := by
  unfold fileLines
  rw [univNl_append_nl]
  rcases univNl_nl_ends p false with ⟨w, h⟩ | ⟨hb, _⟩
  · rw [h]
    have := keepEndsNl_append_nl w (univNl false x) []
    simpa using this
  · cases hb

theorem isLLine_eq (l : List Char) : isLLine l = startsWith 'L' l := by
  cases l with
  | nil => rfl
  | cons c l =>
    simp only [isLLine, startsWith, List.head?_cons]
    by_cases h : c = 'L'
    · subst h; decide
    · have : (some c == some 'L') = false := by simpa using h
      simp [this]

/-! ## which error wins -/

theorem sFold_append (lm : Bool) (A B : List (List (List Char))) (st : SState) :
    sFold lm (A ++ B) st = match sFold lm A st with
      | .error e => .error e
      | .ok st' => sFold lm B st' := by
  induction A generalizing st with
  | nil => rfl
  | cons a A ih =>
    simp only [List.cons_append, sFold]
    cases sLine lm st a with
    | error e => rfl
    | ok st' => exact ih st'

theorem lFold_append (has : String → Bool) (A B : List (List (List Char))) (acc : List LinkZ) :
    lFold has (A ++ B) acc = match lFold has A acc with
      | .error e => .error e
      | .ok acc' => lFold has B acc' := by
  induction A generalizing acc with
  | nil => rfl
  | cons a A ih =>
    simp only [List.cons_append, lFold]
    cases lLine has a with
    | error e => rfl
    | ok o =>
      cases o with
      | none => exact ih acc
      | some l => exact ih _

theorem startsWith_L_not_S (l : List Char) (h : startsWith 'L' l = true) : startsWith 'S' l = false := by
  have := isLLine_eq l
  simp only [isLLine, h, Bool.and_true] at this
  simpa using this

theorem sRecs_filter_S (ls : List (List Char)) : sRecs (ls.filter (startsWith 'S')) = sRecs ls := by
  simp [sRecs, List.filter_filter]

theorem lRecs_filter_S (ls : List (List Char)) : lRecs (ls.filter (startsWith 'S')) = [] := by
  simp only [lRecs, List.filter_filter, List.map_eq_nil_iff, List.filter_eq_nil_iff]
  intro a _ ha
  simp only [isLLine, Bool.and_eq_true, Bool.not_eq_true'] at ha
  rw [ha.2] at ha
  exact absurd ha.1.1 (by simp)

theorem sRecs_of_L (A : List (List Char)) (h : ∀ l ∈ A, startsWith 'L' l = true) : sRecs A = [] := by
  simp only [sRecs, List.map_eq_nil_iff, List.filter_eq_nil_iff]
  intro a ha hs
  rw [startsWith_L_not_S a (h a ha)] at hs
  cases hs

theorem lRecs_of_L (A : List (List Char)) (h : ∀ l ∈ A, startsWith 'L' l = true) : lRecs A = A.map fieldsOf := by
  have : A.filter isLLine = A := by
    rw [List.filter_eq_self]
    intro a ha
    rw [isLLine_eq]; exact h a ha
  simp [lRecs, this]

theorem lRecs_eq (ls : List (List Char)) : lRecs ls = (ls.filter (startsWith 'L')).map fieldsOf := by
  have e : isLLine = startsWith 'L' := funext isLLine_eq
  simp [lRecs, e]

/-- the loader on a text made of complete lines -/
theorem parseFull_unlines (ls : List (List Char)) (lm : Bool) (h : ∀ l ∈ ls, NoBreak l) :
    parseGfaFull (String.ofList (unlines ls)) lm = runRecs lm (sRecs ls) (lRecs ls) := by
  unfold parseGfaFull
  rw [String.toList_ofList, parseLines_eq]
  have := recs_fileLines_unlines ls h
  simp only [recs, Prod.mk.injEq] at this
  rw [this.1, this.2]

theorem runRecs_ok {lm : Bool} {ss ls : List (List (List Char))} {p : Parsed} (h : runRecs lm ss ls = .ok p) :
    ∃ st, sFold lm ss SState.init = .ok st ∧ lFold st.has ls [] = .ok p.links ∧ st.segs = p.segs ∧ st.contigs = p.contigs ∧
      st.contigToNodes = p.contigToNodes := by
  unfold runRecs at h
  cases hs : sFold lm ss SState.init with
  | error e => rw [hs] at h; cases h
  | ok st =>
    rw [hs] at h
    simp only at h
    cases hl : lFold st.has ls [] with
    | error e => rw [hl] at h; cases h
    | ok links =>
      rw [hl] at h
      simp only [Except.ok.injEq] at h
      subst h
      exact ⟨st, rfl, hl, rfl, rfl, rfl⟩

theorem has_of_segs {st : SState} {p : Parsed} (h : st.segs = p.segs) (id : String) : st.has id = p.segs.any (·.id == id) := by
  simp [SState.has, h]

theorem toFile_error {e : PyErr} {r : Except PyErr Parsed} (h : r = .error e) :
    (match r with | .error e => Except.error e | .ok p => p.toFile) = .error e := by
  subst h; rfl

theorem parseTags_none (tags : List (List Char)) (t : List Char) (ht : t ∈ tags) (hbad : isCorrectTag t = false) : parseTags tags = none := by
  induction tags with
  | nil => cases ht
  | cons a tags ih =>
    simp only [parseTags]
    cases ha : parseTag a with
    | none => rfl
    | some x =>
      rcases List.mem_cons.1 ht with rfl | ht
      · simp [parseTag, hbad] at ha
      · simp [ih ht]

theorem sLine_short (lm : Bool) (st : SState) (fs : List (List Char)) (h : fs.length < 3) : sLine lm st fs = .error .shortS := by
  rcases fs with _ | ⟨a, _ | ⟨b, _ | ⟨c, r⟩⟩⟩
  · rfl
  · rfl
  · rfl
  · simp at h; omega

theorem lLine_short (has : String → Bool) (fs : List (List Char)) (h : fs.length < 6) : lLine has fs = .error .shortL := by
  rcases fs with _ | ⟨a, _ | ⟨b, _ | ⟨c, _ | ⟨d, _ | ⟨e, _ | ⟨f, r⟩⟩⟩⟩⟩⟩
  · rfl
  · rfl
  · rfl
  · rfl
  · rfl
  · rfl
  · simp at h; omega

end Gaftools.Proofs.GfaText
