import Gaftools.Props.C06f
import Gaftools.Props.C15Hist
import Gaftools.Proofs.WriteLemmas
/-!
# Lemmas for C06g (`orderRun_chain`): shifting the BO values of a chain, `decompose` / `chainSpecB` only look at the
neighbour lists of the component's own nodes
-/
namespace Gaftools.Proofs.OrderRun
open Gaftools.Gfa Gaftools.Algo Gaftools.Order Gaftools.Spec.Order Gaftools.Spec.Graph
open Gaftools.Proofs.Chain

/-! ## shifting -/

theorem filterMap_congr' {α β} {f g : α → Option β} : ∀ {l : List α}, (∀ a ∈ l, f a = g a) → l.filterMap f = l.filterMap g
  | [], _ => rfl
  | a :: l, h => by
    rw [List.filterMap_cons, List.filterMap_cons, h a (by simp), filterMap_congr' (fun x hx => h x (List.mem_cons_of_mem _ hx))]

theorem eraseDups_map_inj {α β} [BEq α] [LawfulBEq α] [BEq β] [LawfulBEq β] (f : α → β)
    (hf : ∀ a b, f a = f b → a = b) : ∀ (n : Nat) (l : List α), l.length ≤ n → (l.map f).eraseDups = l.eraseDups.map f := by
  intro n
  induction n with
  | zero =>
    intro l hl
    have : l = [] := List.eq_nil_of_length_eq_zero (by omega)
    subst this; simp
  | succ n ih =>
    intro l hl
    cases l with
    | nil => simp
    | cons a as =>
      rw [List.map_cons, List.eraseDups_cons, List.eraseDups_cons, List.map_cons, List.filter_map]
      have hfil : as.filter ((fun b => !b == f a) ∘ f) = as.filter (fun b => !b == a) := by
        apply List.filter_congr
        intro x _
        simp only [Function.comp]
        by_cases h : x = a
        · subst h; simp
        · have : f x ≠ f a := fun e => h (hf _ _ e)
          have e1 : (x == a) = false := by simpa using h
          have e2 : (f x == f a) = false := by simpa using this
          simp [e1, e2]
      rw [hfil, ih]
      have := List.length_filter_le (fun b => !b == a) as
      simp only [List.length_cons] at hl
      omega

def shiftTag (lo : Int) (tag : V → Option (Int × Int)) : V → Option (Int × Int) :=
  fun v => (tag v).map (fun x => (lo + x.1, x.2))

theorem shiftOpt_inj (lo : Int) : ∀ a b : Option Int, a.map (lo + ·) = b.map (lo + ·) → a = b := by
  intro a b h
  cases a <;> cases b <;> simp at h ⊢
  omega

theorem spec1_shift (comp : List V) (tag : V → Option (Int × Int)) (lo : Int) :
    spec1 comp (shiftTag lo tag) = spec1 comp tag := by
  unfold spec1 shiftTag
  simp

theorem spec2_shift (c : Chain) (tag : V → Option (Int × Int)) (lo : Int) :
    spec2 c (shiftTag lo tag) = spec2 c tag := by
  unfold spec2 shiftTag
  simp [Option.map_map, Function.comp_def]

theorem spec3_shift (c : Chain) (tag : V → Option (Int × Int)) (lo : Int) :
    spec3 c (shiftTag lo tag) = spec3 c tag := by
  unfold spec3
  apply List.all_congr rfl
  intro b
  have h1 : (sortStrings b.1).map (fun v => (shiftTag lo tag v).map (·.1)) =
      ((sortStrings b.1).map (fun v => (tag v).map (·.1))).map (fun o => o.map (lo + ·)) := by
    rw [List.map_map]
    apply List.map_congr_left
    intro v _
    simp [shiftTag, Option.map_map, Function.comp_def]
  have h2 : ∀ v, (shiftTag lo tag v).map (·.2) = (tag v).map (·.2) := by
    intro v; simp [shiftTag, Option.map_map, Function.comp_def]
  simp only [h1, h2]
  rw [eraseDups_map_inj _ (shiftOpt_inj lo) _ _ (Nat.le_refl _), List.length_map]

theorem specBo_shift (c : Chain) (tag : V → Option (Int × Int)) (lo : Int) :
    specBo c (shiftTag lo tag) = (specBo c tag).map (fun o => o.map (lo + ·)) := by
  unfold specBo
  rw [List.map_append, List.map_map, List.map_map]
  congr 1
  · apply List.map_congr_left
    intro v _
    simp [shiftTag, Option.map_map, Function.comp_def]
  · apply List.map_congr_left
    intro b _
    cases hh : b.1.head? <;> simp [shiftTag, Option.map_map, Function.comp_def, hh]

theorem spec4_shift (c : Chain) (tag : V → Option (Int × Int)) (lo : Int) :
    spec4 c (shiftTag lo tag) lo = spec4 c tag 0 := by
  unfold spec4
  rw [specBo_shift, eraseDups_map_inj _ (shiftOpt_inj lo) _ _ (Nat.le_refl _), List.length_map, List.length_map,
    List.all_map]
  congr 2
  apply List.all_congr rfl
  intro o
  cases o with
  | none => rfl
  | some v =>
    simp only [Function.comp, Option.map_some]
    rw [Bool.eq_iff_iff]
    simp only [decide_eq_true_eq]
    omega

theorem specElts_shift (c : Chain) (tag : V → Option (Int × Int)) (lo : Int) :
    specElts c (shiftTag lo tag) = (specElts c tag).map (fun p => (lo + p.1, p.2)) := by
  unfold specElts
  rw [List.map_append, List.map_filterMap, List.map_filterMap]
  congr 1
  · apply filterMap_congr'
    intro a _
    simp [shiftTag, Option.map_map, Function.comp_def]
  · apply filterMap_congr'
    intro i _
    cases (c.bubbles.getD i ([], [])).1.head? <;> simp [shiftTag, Option.map_map, Function.comp_def]

theorem spec5_shift (c : Chain) (tag : V → Option (Int × Int)) (lo : Int) :
    spec5 c (shiftTag lo tag) = spec5 c tag := by
  unfold spec5
  rw [specElts_shift]
  have hm : ((specElts c tag).map (fun p => (lo + p.1, p.2))).mergeSort (fun x y => decide (x.1 ≤ y.1)) =
      ((specElts c tag).mergeSort (fun x y => decide (x.1 ≤ y.1))).map (fun p => (lo + p.1, p.2)) := by
    symm
    apply List.map_mergeSort
    intro a _ b _
    rw [Bool.eq_iff_iff]
    simp only [decide_eq_true_eq]
    omega
  rw [hm, ← List.map_tail, List.zip_map, List.all_map]
  apply List.all_congr rfl
  intro p
  rfl

theorem specScaf_shift (c : Chain) (so : V → Option Int) (tag : V → Option (Int × Int)) (lo : Int) :
    specScaf c so (shiftTag lo tag) = (specScaf c so tag).map (fun p => (lo + p.1, p.2)) := by
  unfold specScaf
  rw [List.map_filterMap]
  apply filterMap_congr'
  intro a _
  unfold shiftTag
  cases tag a <;> cases so a <;> simp

theorem spec6_shift (c : Chain) (so : V → Option Int) (tag : V → Option (Int × Int)) (lo : Int) :
    spec6 c so (shiftTag lo tag) = spec6 c so tag := by
  unfold spec6
  rw [specScaf_shift, List.all_map]
  apply List.all_congr rfl
  intro x
  simp only [Function.comp]
  rw [List.all_map]
  apply List.all_congr rfl
  intro y
  simp only [Function.comp]
  congr 2
  rw [Bool.eq_iff_iff]
  simp only [decide_eq_true_eq]
  omega

theorem chainSpecB_shift' (nb : V → List V) (comp : List V) (so : V → Option Int) (tag : V → Option (Int × Int)) (lo : Int) :
    chainSpecB nb comp so (shiftTag lo tag) lo = chainSpecB nb comp so tag 0 := by
  rw [chainSpecB_eq, chainSpecB_eq, spec1_shift, spec2_shift, spec3_shift, spec4_shift, spec5_shift, spec6_shift]

/-! ## `decompose` only evaluates `nb` on the component -/

section congr
variable (nb nb' : V → List V) (comp : List V)

def FrInv (comp : List V) (s : BSt) : Prop := ∀ f ∈ s.stack, ∀ x ∈ f.nbrs, x ∈ comp

theorem getD_mem_of_lt {l : List V} {i : Nat} (h : i < l.length) : l.getD i "" ∈ l := by
  rw [List.getD_eq_getElem?_getD, List.getElem?_eq_getElem h]
  exact List.getElem_mem h

theorem bstep_congr (hagree : ∀ a ∈ comp, nb' a = nb a) (s : BSt) (hs : FrInv comp s) : bstep nb' s = bstep nb s := by
  unfold bstep
  split
  · rfl
  · rename_i f rest hst
    split
    · rename_i hlt
      have hmem : f.nbrs.getD f.ptr "" ∈ comp := hs f (by rw [hst]; simp) _ (getD_mem_of_lt hlt)
      simp only [hagree _ hmem]
    · rfl

theorem bstep_inv (hclosed : ∀ a ∈ comp, ∀ b ∈ nb a, b ∈ comp) (s : BSt) (hs : FrInv comp s) : FrInv comp (bstep nb s) := by
  have hadv : ∀ f rest, s.stack = f :: rest → ∀ g ∈ Gaftools.Proofs.Bicc.adv f :: rest, ∀ x ∈ g.nbrs, x ∈ comp := by
    intro f rest hst g hg
    rcases List.mem_cons.mp hg with rfl | hg
    · exact hs f (by rw [hst]; simp)
    · exact hs g (by rw [hst]; simp [hg])
  have hrest : ∀ f rest, s.stack = f :: rest → ∀ g ∈ rest, ∀ x ∈ g.nbrs, x ∈ comp :=
    fun f rest hst g hg => hs g (by rw [hst]; simp [hg])
  apply Gaftools.Proofs.Bicc.bstep_cases nb s (FrInv comp)
  · intro _; exact hs
  · intro f rest hst _ _; exact hadv f rest hst
  · intro f rest nn hst _ _ _ _ _; exact hadv f rest hst
  · intro f rest nn hst _ _ _ _ _; exact hadv f rest hst
  · intro f rest nn hst hlt hnn _ _ g hg
    simp only at hg
    rcases List.mem_cons.mp hg with rfl | hg
    · have hmem : nn ∈ comp := by
        rw [hnn]; exact hs f (by rw [hst]; simp) _ (getD_mem_of_lt hlt)
      exact hclosed _ hmem
    · exact hadv f rest hst g hg
  · intro f rest hst _ _ _; exact hrest f rest hst
  · intro f rest hst _ _ _; exact hrest f rest hst
  · intro f rest hst _ _; exact hrest f rest hst
  · intro f hst _ g hg; simp at hg

theorem bgo_congr (hclosed : ∀ a ∈ comp, ∀ b ∈ nb a, b ∈ comp) (hagree : ∀ a ∈ comp, nb' a = nb a) :
    ∀ (n : Nat) (s : BSt), FrInv comp s → bgo nb' n s = bgo nb n s := by
  intro n
  induction n with
  | zero => intro s _; rfl
  | succ n ih =>
    intro s hs
    simp only [bgo]
    split
    · rfl
    · rw [bstep_congr nb nb' comp hagree s hs]
      exact ih _ (bstep_inv nb comp hclosed s hs)

theorem biccFuel_congr (hagree : ∀ a ∈ comp, nb' a = nb a) : biccFuel nb' comp = biccFuel nb comp := by
  unfold biccFuel
  congr 4
  apply List.map_congr_left
  intro a ha
  rw [hagree a ha]

theorem biccsFrom_congr (hclosed : ∀ a ∈ comp, ∀ b ∈ nb a, b ∈ comp) (hagree : ∀ a ∈ comp, nb' a = nb a)
    (root : V) (hroot : root ∈ comp) (fuel : Nat) : biccsFrom nb' root fuel = biccsFrom nb root fuel := by
  unfold biccsFrom
  simp only [hagree root hroot]
  rw [bgo_congr nb nb' comp hclosed hagree]
  intro f hf x hx
  simp only [List.mem_singleton] at hf
  subst hf
  exact hclosed root hroot x hx

theorem root_mem' (hne : comp ≠ []) : (sortStrings comp).headD "" ∈ comp := by
  have hp := Gaftools.C06.sortStrings_perm comp
  cases h : sortStrings comp with
  | nil =>
    rw [h] at hp
    exact absurd hp.symm.eq_nil hne
  | cons a as =>
    rw [h] at hp
    exact hp.mem_iff.mp (by simp)

theorem decompose_congr' (so : V → Option Int) (sn : V → Option String)
    (hne : comp ≠ []) (hclosed : ∀ a ∈ comp, ∀ b ∈ nb a, b ∈ comp) (hagree : ∀ a ∈ comp, nb' a = nb a) :
    decompose nb' comp so sn = decompose nb comp so sn := by
  unfold decompose
  split
  · rfl
  · simp only [biccFuel_congr nb nb' comp hagree,
      biccsFrom_congr nb nb' comp hclosed hagree _ (root_mem' comp hne)]

end congr

/-! ## the definition-level decomposition only evaluates `nb` on the node list -/

section specCongr
variable (nb nb' : V → List V)

theorem findCompLoop_congr (Vs : List V) (hagree : ∀ a ∈ Vs, nb' a = nb a) :
    ∀ st cc vis, findCompLoop nb' Vs st cc vis = findCompLoop nb Vs st cc vis := by
  intro st cc vis
  induction st, cc, vis using findCompLoop.induct (nb := nb) (Vs := Vs) with
  | case1 cc vis => simp only [findCompLoop]
  | case2 x st cc vis h ih =>
    rw [findCompLoop, dif_pos h, findCompLoop, dif_pos h]
    exact ih
  | case3 x st cc vis h vis' ih =>
    rw [findCompLoop, dif_neg h, findCompLoop, dif_neg h]
    have hx : x ∈ Vs := Decidable.byContradiction (fun hv => h (Or.inr hv))
    simp only [hagree x hx]
    exact ih

theorem findComp_congr (Vs : List V) (hagree : ∀ a ∈ Vs, nb' a = nb a) (start : V) (hs : start ∈ Vs) (vis : List V) :
    findComp nb' Vs start vis = findComp nb Vs start vis := by
  unfold findComp
  simp only [hagree start hs, findCompLoop_congr nb nb' Vs hagree]

theorem classOf_congr (Vs : List V) (hagree : ∀ a ∈ Vs, nb' a = nb a) (a : V) (ha : a ∈ Vs) :
    classOf nb' Vs a = classOf nb Vs a := by
  unfold classOf
  rw [findComp_congr nb nb' Vs hagree a ha]

theorem connectedB_congr (Vs : List V) (hagree : ∀ a ∈ Vs, nb' a = nb a) :
    connectedB nb' Vs = connectedB nb Vs := by
  unfold connectedB
  cases Vs with
  | nil => rfl
  | cons a l =>
    simp only
    rw [classOf_congr nb nb' (a :: l) hagree a (by simp)]

theorem nbWithout_agree (Vs : List V) (hagree : ∀ a ∈ Vs, nb' a = nb a) (x : V) :
    ∀ a ∈ Vs.filter (· != x), nbWithout nb' x a = nbWithout nb x a := by
  intro a ha
  unfold nbWithout
  rw [hagree a (List.mem_filter.mp ha).1]

theorem isCut_congr (Vs : List V) (hagree : ∀ a ∈ Vs, nb' a = nb a) (x : V) : isCut nb' Vs x = isCut nb Vs x := by
  unfold isCut
  rw [connectedB_congr _ _ _ (nbWithout_agree nb nb' Vs hagree x)]

theorem cutVertices_congr (Vs : List V) (hagree : ∀ a ∈ Vs, nb' a = nb a) : cutVertices nb' Vs = cutVertices nb Vs := by
  unfold cutVertices
  apply List.filter_congr
  intro x _
  exact isCut_congr nb nb' Vs hagree x

theorem edgesOf_congr (Vs : List V) (hagree : ∀ a ∈ Vs, nb' a = nb a) : edgesOf nb' Vs = edgesOf nb Vs := by
  unfold edgesOf
  congr 1
  rw [List.flatMap_def, List.flatMap_def]
  congr 1
  apply List.map_congr_left
  intro a ha
  rw [hagree a ha]

theorem mem_edgesOf (Vs : List V) (hclosed : ∀ a ∈ Vs, ∀ b ∈ nb a, b ∈ Vs) (e : V × V) (he : e ∈ edgesOf nb Vs) :
    e.1 ∈ Vs ∧ e.2 ∈ Vs := by
  unfold edgesOf at he
  rw [List.mem_eraseDups, List.mem_flatMap] at he
  obtain ⟨a, ha, he⟩ := he
  rw [List.mem_filterMap] at he
  obtain ⟨b, hb, he⟩ := he
  split at he
  · cases he
    exact ⟨ha, hclosed a ha b hb⟩
  · cases he

theorem separates_congr (Vs : List V) (hagree : ∀ a ∈ Vs, nb' a = nb a) (x : V) (e f : V × V)
    (he : e.1 ∈ Vs ∧ e.2 ∈ Vs) : separates nb' Vs x e f = separates nb Vs x e f := by
  unfold separates
  simp only
  split
  · rename_i a _ b _ hre _
    have ha : a ∈ [e.1, e.2].filter (· != x) := by rw [hre]; simp
    rw [List.mem_filter] at ha
    have haV : a ∈ Vs := by
      rcases List.mem_cons.mp ha.1 with h | h
      · rw [h]; exact he.1
      · simp only [List.mem_singleton] at h; rw [h]; exact he.2
    rw [classOf_congr _ _ _ (nbWithout_agree nb nb' Vs hagree x) a (List.mem_filter.mpr ⟨haV, ha.2⟩)]
  · rfl

theorem sameBlock_congr (Vs : List V) (hagree : ∀ a ∈ Vs, nb' a = nb a) (e f : V × V)
    (he : e.1 ∈ Vs ∧ e.2 ∈ Vs) : sameBlock nb' Vs e f = sameBlock nb Vs e f := by
  unfold sameBlock
  apply List.all_congr rfl
  intro x
  rw [separates_congr nb nb' Vs hagree x e f he]

theorem blocks_congr (Vs : List V) (hclosed : ∀ a ∈ Vs, ∀ b ∈ nb a, b ∈ Vs) (hagree : ∀ a ∈ Vs, nb' a = nb a) :
    blocks nb' Vs = blocks nb Vs := by
  unfold blocks
  simp only [edgesOf_congr nb nb' Vs hagree]
  congr 2
  apply List.map_congr_left
  intro e he
  apply List.filter_congr
  intro f _
  exact sameBlock_congr nb nb' Vs hagree e f (mem_edgesOf nb Vs hclosed e (List.mem_filter.mp he).1)

theorem chainOf_congr (Vs : List V) (hclosed : ∀ a ∈ Vs, ∀ b ∈ nb a, b ∈ Vs) (hagree : ∀ a ∈ Vs, nb' a = nb a) :
    chainOf nb' Vs = chainOf nb Vs := by
  unfold chainOf
  rw [blocks_congr nb nb' Vs hclosed hagree, cutVertices_congr nb nb' Vs hagree]

theorem chainSpecB_congr (Vs : List V) (hclosed : ∀ a ∈ Vs, ∀ b ∈ nb a, b ∈ Vs) (hagree : ∀ a ∈ Vs, nb' a = nb a)
    (so : V → Option Int) (tag : V → Option (Int × Int)) (lo : Int) :
    chainSpecB nb' Vs so tag lo = chainSpecB nb Vs so tag lo := by
  rw [chainSpecB_eq, chainSpecB_eq, chainOf_congr nb nb' Vs hclosed hagree]

theorem chainSpecB_nil (so : V → Option Int) (tag : V → Option (Int × Int)) (lo : Int) :
    chainSpecB nb [] so tag lo = true := by
  have hc : chainOf nb [] = ⟨[], [], [], false⟩ := by
    simp [chainOf, blocks, edgesOf, cutVertices, chainOfBlocks]
  rw [chainSpecB_eq, hc]
  simp [spec1, spec2, spec3, spec4, spec5, spec6, specBo, specElts, specScaf]

end specCongr

/-! ## a reachability class as a graph of its own -/

def restrict (nb : V → List V) (comp : List V) : V → List V := fun a => if a ∈ comp then nb a else []

section cls
variable (nb : V → List V) (Vs comp : List V)

theorem restrict_agree : ∀ a ∈ comp, restrict nb comp a = nb a := by
  intro a ha
  simp [restrict, ha]

theorem class_closed (hcls : ∀ a ∈ comp, ∀ b, Reach nb a b ↔ b ∈ comp) : ∀ a ∈ comp, ∀ b ∈ nb a, b ∈ comp :=
  fun a ha b hb => (hcls a ha b).mp (Reach.step (Reach.refl a) hb)

theorem restrict_undirected (hu : Undirected nb Vs) (hclosed : ∀ a ∈ comp, ∀ b ∈ nb a, b ∈ comp) :
    Undirected (restrict nb comp) comp := by
  refine ⟨?_, ?_, ?_⟩
  · intro a b hb
    unfold restrict at hb ⊢
    by_cases ha : a ∈ comp
    · rw [if_pos ha] at hb
      rw [if_pos (hclosed a ha b hb)]
      exact hu.symm a b hb
    · rw [if_neg ha] at hb
      simp at hb
  · intro a ha b hb
    rw [restrict_agree nb comp a ha] at hb
    exact hclosed a ha b hb
  · intro a ha
    simp [restrict, ha]

theorem reach_restrict (hclosed : ∀ a ∈ comp, ∀ b ∈ nb a, b ∈ comp) {a b : V} (h : Reach nb a b) (ha : a ∈ comp) :
    Reach (restrict nb comp) a b ∧ b ∈ comp := by
  induction h with
  | refl => exact ⟨Reach.refl _, ha⟩
  | step _ hc ih =>
    obtain ⟨h1, h2⟩ := ih
    refine ⟨Reach.step h1 ?_, hclosed _ h2 _ hc⟩
    rw [restrict_agree nb comp _ h2]
    exact hc

theorem restrict_connected (hu : Undirected nb Vs) (hcls : ∀ a ∈ comp, ∀ b, Reach nb a b ↔ b ∈ comp) :
    connectedB (restrict nb comp) comp = true := by
  have hclosed := class_closed nb comp hcls
  have hu' := restrict_undirected nb Vs comp hu hclosed
  cases hcomp : comp with
  | nil => rfl
  | cons a l =>
    have ha : a ∈ comp := by rw [hcomp]; simp
    rw [← hcomp]
    unfold connectedB
    rw [hcomp]
    simp only
    rw [← hcomp, List.all_eq_true]
    intro v hv
    rw [List.contains_iff_mem]
    unfold classOf
    have hex := Gaftools.C15.findComp_exact (restrict nb comp) comp hu' a ha [] (fun x hx => by simp at hx) (by simp)
    rw [hex.2.1 v]
    exact (reach_restrict nb comp hclosed ((hcls a ha v).mpr hv) ha).1

end cls

/-! ## naming, the chromosome loop -/

theorem nameComps_mem (sn : V → Option String) (comps : List (List V)) :
    ∀ p ∈ nameComps sn comps, p.2 ∈ comps := by
  unfold nameComps
  suffices h : ∀ (cs : List (List V)) (acc : List (String × List V)), (∀ p ∈ acc, p.2 ∈ comps) → (∀ c ∈ cs, c ∈ comps) →
      ∀ p ∈ cs.foldl (fun acc c => match majoritySN sn c with
        | some name => (acc.filter (·.1 != name)) ++ [(name, c)]
        | none => acc) acc, p.2 ∈ comps from h comps [] (by simp) (fun c hc => hc)
  intro cs
  induction cs with
  | nil => intro acc hacc _; exact hacc
  | cons c cs ih =>
    intro acc hacc hcs
    rw [List.foldl_cons]
    apply ih
    · split
      · intro p hp
        rcases List.mem_append.mp hp with hp | hp
        · exact hacc p (List.mem_filter.mp hp).1
        · simp only [List.mem_singleton] at hp
          subst hp
          exact hcs c (by simp)
      · exact hacc
    · exact fun c' hc' => hcs c' (List.mem_cons_of_mem _ hc')

theorem compOfName_cases (t : GfaFile) (lm : Bool) (c : String) :
    compOfName t lm c = [] ∨
      compOfName t lm c ∈ allComponents (Graph.nbFun (readGraph t lm)) (Graph.ids (readGraph t lm)) := by
  unfold compOfName
  simp only
  cases hf : (nameComps (snOf t) (allComponents (Graph.nbFun (readGraph t lm)) (Graph.ids (readGraph t lm)))).find? (·.1 == c) with
  | none => left; rfl
  | some p =>
    right
    simp only [Option.map_some, Option.getD_some]
    exact nameComps_mem _ _ p (List.mem_of_find?_eq_some hf)

theorem outList_mem (dec : String → Outcome) (order : List String) : ∀ (b : Int), 0 ≤ b →
    ∀ w ∈ Gaftools.C18.outList dec b order, ∃ l lo, 0 ≤ lo ∧ dec w.name = .ok l ∧
      w.tags = l.order.map (fun (v, k, no) => (v, lo + (k : Int), (no : Int))) ∧ w.aps = l.aps := by
  induction order with
  | nil => intro b _ w hw; simp [Gaftools.C18.outList] at hw
  | cons c cs ih =>
    intro b hb w hw
    cases hc : dec c with
    | ok l =>
      have e : Gaftools.C18.outList dec b (c :: cs) =
          ⟨c, l.order.map (fun (v, k, no) => (v, b + (k : Int), (no : Int))), l.aps, l.inside⟩ ::
            Gaftools.C18.outList dec (b + (l.len : Int)) cs := by
        simp [Gaftools.C18.outList, hc]
      rw [e] at hw
      rcases List.mem_cons.mp hw with rfl | hw
      · exact ⟨l, b, hb, hc, rfl, rfl⟩
      · exact ih _ (by omega) w hw
    | skipped x =>
      have e : Gaftools.C18.outList dec b (c :: cs) = Gaftools.C18.outList dec b cs := by
        simp [Gaftools.C18.outList, hc]
      rw [e] at hw
      exact ih b hb w hw
    | crash x =>
      have e : Gaftools.C18.outList dec b (c :: cs) = Gaftools.C18.outList dec b cs := by
        simp [Gaftools.C18.outList, hc]
      rw [e] at hw
      exact ih b hb w hw

theorem tags_shift (order : List (V × Nat × Nat)) (lo : Int) (v : V) :
    ((order.map (fun (v, k, no) => (v, lo + (k : Int), (no : Int)))).find? (·.1 == v)).map (·.2) =
      shiftTag lo (fun v => (order.find? (·.1 == v)).map (fun x => ((x.2.1 : Int), (x.2.2 : Int)))) v := by
  unfold shiftTag
  induction order with
  | nil => rfl
  | cons x xs ih =>
    obtain ⟨a, k, no⟩ := x
    simp only [List.map_cons, List.find?_cons]
    by_cases h : (a == v) = true
    · simp [h]
    · simp only [h]
      exact ih

end Gaftools.Proofs.OrderRun
