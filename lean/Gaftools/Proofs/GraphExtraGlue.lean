import Gaftools.Proofs.GraphExtraLemmas
import Gaftools.Proofs.GlueLemmas
/-!
# `GFA.getPath` / `GFA.getContigLength` (Model/GraphExtra.lean) against `View.contigNodes` / `View.contigLen` (Model/View.lean)

The older model of `get_path(…, False)` works on the `NodeInfo` table of graphs whose nodes carry SN/SO/LN/SR; the newer one
follows the Python through `contig_to_nodes` and the tag dicts, with the exceptions.  Here: they coincide where both apply.
-/
namespace Gaftools.Proofs.GraphExtra
open Gaftools.Gfa Gaftools.View Gaftools.GraphExtra Gaftools.Proofs.Gfa Gaftools.Proofs.Hist Gaftools.Proofs.Write
open Gaftools.Spec.Glue Gaftools.Proofs.Glue

/-- the two integer readers (`pyInt`: Python's `int` on `[-+]?[0-9]+`; `String.toInt?`: no `+`) agree on the tag values of
    the graph — true when no numeric tag is written with a `+` sign -/
def IntReadersAgree (g : Graph) : Prop := ∀ n ∈ g.nodes, ∀ name v, tagVal n.tags name = some v → pyInt v = v.toInt?

theorem mapM_ok_of_forall {α β} (f : α → Except PyErr β) (h : α → β) (l : List α) (hf : ∀ a ∈ l, f a = .ok (h a)) :
    l.mapM f = .ok (l.map h) := by
  induction l with
  | nil => rfl
  | cons a rest ih =>
    rw [List.mapM_cons, hf a (by simp), ih (fun b hb => hf b (List.mem_cons_of_mem _ hb))]
    rfl

/-- where a `NodeInfo` comes from -/
theorem infos_mem {g : Graph} {i : NodeInfo} (h : i ∈ infos g) : ∃ n ∈ g.nodes, nodeInfo n = some i := by
  unfold infos at h
  obtain ⟨n, hn, hi⟩ := List.mem_filterMap.mp h
  exact ⟨n, hn, hi⟩

theorem nodeInfo_some {n : Node} {i : NodeInfo} (h : nodeInfo n = some i) :
    i.id = n.id ∧ tagVal n.tags "SN" = some i.sn ∧ tagInt n.tags "SO" = some i.so ∧ tagInt n.tags "LN" = some (i.en - i.so) := by
  unfold nodeInfo at h
  cases h1 : tagVal n.tags "SN" with
  | none => simp [h1] at h
  | some sn =>
    cases h2 : tagInt n.tags "SO" with
    | none => simp [h1, h2] at h
    | some so =>
      cases h3 : tagInt n.tags "LN" with
      | none => simp [h1, h2, h3] at h
      | some ln =>
        cases h4 : tagInt n.tags "SR" with
        | none => simp [h1, h2, h3, h4] at h
        | some sr =>
          simp [h1, h2, h3, h4] at h
          subst h
          refine ⟨rfl, rfl, rfl, ?_⟩
          simp; omega

theorem tagIntOf_of_tagInt {g : Graph} (hnd : NodupIds g) (hint : IntReadersAgree g) {n : Node} (hn : n ∈ g.nodes)
    {name : String} {k : Int} (h : tagInt n.tags name = some k) : tagIntOf g name n.id = .ok k := by
  unfold tagIntOf
  rw [find_of_mem hnd hn]
  unfold tagInt at h
  cases hv : tagVal n.tags name with
  | none => simp [hv] at h
  | some v =>
    simp only [hv, Option.bind_some] at h
    simp only []
    rw [hv]
    simp only [hint n hn name v hv, h]

theorem insertByKey_map (x : NodeInfo) (l : List NodeInfo) :
    insertByKey (x.id, x.so) (l.map (fun i => (i.id, i.so))) = (insertBySo x l).map (fun i => (i.id, i.so)) := by
  induction l with
  | nil => rfl
  | cons y ys ih =>
    simp only [List.map_cons, insertByKey, insertBySo]
    split
    · rfl
    · rw [ih]; rfl

theorem sortByKey_map (l acc : List NodeInfo) :
    (l.map (fun i => (i.id, i.so))).foldl (fun a x => insertByKey x a) (acc.map (fun i => (i.id, i.so))) =
      (l.foldl (fun a x => insertBySo x a) acc).map (fun i => (i.id, i.so)) := by
  induction l generalizing acc with
  | nil => rfl
  | cons x xs ih =>
    simp only [List.map_cons, List.foldl_cons]
    rw [insertByKey_map, ih]

theorem tagIntOf_ok_has' {g : Graph} {name id : String} {k : Int} (h : tagIntOf g name id = .ok k) : g.has id = true := by
  unfold tagIntOf at h
  cases hf : g.find id with
  | none => rw [hf] at h; cases h
  | some n => exact has_of_find hf

theorem keyed_map (g : Graph) (F : List NodeInfo) (h : ∀ i ∈ F, tagIntOf g "SO" i.id = .ok i.so) :
    keyed g (F.map (·.id)) = .ok (F.map (fun i => (i.id, i.so))) := by
  unfold keyed
  induction F with
  | nil => rfl
  | cons i rest ih =>
    rw [List.map_cons, List.mapM_cons, h i (by simp), ih (fun j hj => h j (List.mem_cons_of_mem _ hj))]
    rfl

theorem contigNodes_map_key (g : Graph) (c : String) :
    sortByKey (((infos g).filter (·.sn == c)).map (fun i => (i.id, i.so))) = (contigNodes g c).map (fun i => (i.id, i.so)) := by
  unfold sortByKey contigNodes
  exact sortByKey_map _ []

/-- graph level: when the contig table lists the contig's nodes in graph order, ids are unique and the integer readers agree,
    `get_path(c, False)` is the id column of `View.contigNodes` -/
theorem getPath_eq_contigNodes (x : GFA) (c : String) (hnd : NodupIds x.g) (hint : IntReadersAgree x.g)
    (hc : x.contigIds c = ((infos x.g).filter (·.sn == c)).map (·.id)) :
    x.getPath c false = .ok ((contigNodes x.g c).map (·.id)) := by
  have hso : ∀ i ∈ (infos x.g).filter (·.sn == c), tagIntOf x.g "SO" i.id = .ok i.so := by
    intro i hi
    obtain ⟨n, hn, hi'⟩ := infos_mem (List.mem_filter.mp hi).1
    obtain ⟨hid, _, h3, _⟩ := nodeInfo_some hi'
    rw [hid]; exact tagIntOf_of_tagInt hnd hint hn h3
  have hk := keyed_map x.g _ hso
  rw [← hc] at hk
  have hsorted : (sortByKey (((infos x.g).filter (·.sn == c)).map (fun i => (i.id, i.so)))).map (·.1) =
      (contigNodes x.g c).map (·.id) := by
    rw [contigNodes_map_key, List.map_map]; rfl
  rcases getPath_cases x c false with ⟨h0, h'⟩ | ⟨_, e, hk', _⟩ | ⟨_, ks, hk', hcs⟩
  · rw [h']
    rw [h0] at hc
    have : (infos x.g).filter (·.sn == c) = [] := List.map_eq_nil_iff.mp hc.symm
    unfold contigNodes; rw [this]; rfl
  · rw [hk] at hk'; cases hk'
  · rw [hk] at hk'; cases hk'
    rw [hsorted] at hcs
    rcases hcs with ⟨e, hp, _⟩ | ⟨_, h'⟩ | ⟨_, h'⟩
    · exfalso
      obtain ⟨_, i, hi, hh⟩ := listIsPath_error x.g _ e hp
      have hsub : ∀ a, a ∈ (contigNodes x.g c).map (·.id) → a ∈ x.contigIds c := by
        intro a ha
        rw [← hsorted] at ha
        have := ((sortByKey_perm _).map (·.1)).subset ha
        rw [hc]
        simpa [List.map_map, Function.comp] using this
      have hmem := hsub _ (List.getElem_mem (l := (contigNodes x.g c).map (·.id)) (by omega : i < _))
      rw [hc] at hmem
      obtain ⟨j, hj, hjid⟩ := List.mem_map.mp hmem
      have := tagIntOf_ok_has' (hso j hj)
      rw [hjid, hh] at this; cases this
    · exact h'
    · exact h'

theorem insertBySo_perm (x : NodeInfo) (l : List NodeInfo) : (insertBySo x l).Perm (x :: l) := by
  induction l with
  | nil => exact List.Perm.refl _
  | cons y ys ih =>
    unfold insertBySo
    split
    · exact List.Perm.refl _
    · exact (List.Perm.cons y ih).trans (List.Perm.swap x y ys)

theorem foldl_insertBySo_perm (l acc : List NodeInfo) :
    (l.foldl (fun acc x => insertBySo x acc) acc).Perm (acc ++ l) := by
  induction l generalizing acc with
  | nil => simp
  | cons x xs ih =>
    simp only [List.foldl_cons]
    refine (ih _).trans ?_
    refine (List.Perm.append_right xs (insertBySo_perm x acc)).trans ?_
    simpa using (List.perm_middle (a := x) (l₁ := acc) (l₂ := xs)).symm

theorem contigNodes_perm (g : Graph) (c : String) : (contigNodes g c).Perm ((infos g).filter (·.sn == c)) := by
  unfold contigNodes
  simpa using foldl_insertBySo_perm ((infos g).filter (·.sn == c)) []

theorem mapM_map_ok {α β γ} (f : β → Except PyErr γ) (k : α → β) (h : α → γ) (l : List α) (hf : ∀ a ∈ l, f (k a) = .ok (h a)) :
    (l.map k).mapM f = .ok (l.map h) := by
  induction l with
  | nil => rfl
  | cons a rest ih =>
    rw [List.map_cons, List.mapM_cons, hf a (by simp), ih (fun b hb => hf b (List.mem_cons_of_mem _ hb))]
    rfl

/-- graph level: under the same hypotheses `get_contig_length(c, False)` is `View.contigLen` (`none` = `sys.exit(1)`) -/
theorem contigLength_eq_contigLen (x : GFA) (c : String) (hnd : NodupIds x.g) (hint : IntReadersAgree x.g)
    (hc : x.contigIds c = ((infos x.g).filter (·.sn == c)).map (·.id)) :
    x.getContigLength c false = (match contigLen x.g c with | none => .error .exit | some v => .ok v) := by
  have hp := getPath_eq_contigNodes x c hnd hint hc
  unfold GFA.getContigLength contigLen
  rw [hp]
  cases hN : contigNodes x.g c with
  | nil => rfl
  | cons a N =>
    have hln : ∀ i ∈ a :: N, tagIntOf x.g "LN" i.id = .ok (i.en - i.so) := by
      intro i hi
      rw [← hN] at hi
      obtain ⟨n, hn, hi'⟩ := infos_mem (List.mem_filter.mp ((contigNodes_perm x.g c).subset hi)).1
      obtain ⟨hid, _, _, h4⟩ := nodeInfo_some hi'
      rw [hid]; exact tagIntOf_of_tagInt hnd hint hn h4
    have := mapM_map_ok (tagIntOf x.g "LN") (·.id) (fun i => i.en - i.so) (a :: N) hln
    simp only [bind, Except.bind, List.map_cons, List.isEmpty_cons, Bool.false_eq_true, if_false]
    simp only [List.map_cons] at this
    rw [this]
    rfl

/-! ## the contig table of a loaded file -/

theorem ctn_find_append (d : List (String × List String)) (c' id c : String) :
    ((ctnAppend d c' id).find? (·.1 == c)).map (·.2) =
      if c' = c then some (((d.find? (·.1 == c)).map (·.2)).getD [] ++ [id]) else (d.find? (·.1 == c)).map (·.2) := by
  unfold ctnAppend
  by_cases hany : d.any (·.1 == c') = true
  · simp only [hany, if_true, List.find?_map]
    have hfun : ((fun e : String × List String => e.1 == c) ∘ fun e => if e.1 == c' then (e.1, e.2 ++ [id]) else e) =
        (fun e => e.1 == c) := by
      funext e; simp only [Function.comp]; split <;> rfl
    rw [hfun]
    cases hf : d.find? (·.1 == c) with
    | none =>
      by_cases hcc : c' = c
      · subst hcc
        obtain ⟨e, he, hec⟩ := List.any_eq_true.mp hany
        exact absurd hec (by simpa using List.find?_eq_none.mp hf e he)
      · simp [hcc]
    | some e =>
      have hec : e.1 = c := by simpa using List.find?_some hf
      by_cases hcc : c' = c
      · subst hcc; simp [hec]
      · have : ¬ e.1 = c' := by rw [hec]; exact fun h => hcc h.symm
        simp [hcc, this]
  · have hnone : ∀ e ∈ d, ¬ e.1 = c' := by
      intro e he hec; exact hany (List.any_eq_true.mpr ⟨e, he, by simpa using hec⟩)
    rw [if_neg hany]
    simp only [List.find?_append]
    by_cases hcc : c' = c
    · subst hcc
      have h1 : d.find? (·.1 == c') = none := List.find?_eq_none.mpr (fun e he => by simpa using hnone e he)
      have h2 : [(c', [id])].find? (fun e : String × List String => e.1 == c') = some (c', [id]) := by simp
      rw [h1, h2]; simp
    · have h2 : [(c', [id])].find? (fun e : String × List String => e.1 == c) = none := by simp [hcc]
      rw [h2, Option.or_none]; simp [hcc]

theorem contigIds_ctnAppend (g g' : Graph) (d : List (String × List String)) (c' id c : String) :
    (⟨g', ctnAppend d c' id⟩ : GFA).contigIds c = if c' = c then (⟨g, d⟩ : GFA).contigIds c ++ [id] else (⟨g, d⟩ : GFA).contigIds c := by
  have h := ctn_find_append d c' id c
  unfold GFA.contigIds
  simp only []
  by_cases hcc : c' = c
  · simp only [hcc, if_true] at h ⊢
    cases hf : (ctnAppend d c id).find? (·.1 == c) with
    | none => rw [hf] at h; simp at h
    | some e =>
      rw [hf] at h
      simp only [Option.map_some, Option.some.injEq] at h
      show e.2 = _
      rw [h]
      cases d.find? (·.1 == c) <;> rfl
  · simp only [hcc, if_false] at h ⊢
    cases hf : (ctnAppend d c' id).find? (·.1 == c) with
    | none => rw [hf] at h; cases hd : d.find? (·.1 == c) with
      | none => rfl
      | some e => rw [hd] at h; simp at h
    | some e =>
      rw [hf] at h
      cases hd : d.find? (·.1 == c) with
      | none => rw [hd] at h; simp at h
      | some e' => rw [hd] at h; simp at h; simp [h]

theorem find_addNode_new (g : Graph) (s : SegLine) (lm : Bool) (h : g.has s.id = false) :
    (addNode g s lm).find s.id = some (mkNode lm s) := by
  unfold addNode Graph.find
  rw [h]
  simp only [Bool.false_eq_true, if_false, List.find?_append]
  have : g.nodes.find? (·.id == s.id) = none := by
    rw [List.find?_eq_none]
    intro n hn hid
    have : g.has s.id = true := List.any_eq_true.mpr ⟨n, hn, hid⟩
    rw [h] at this; cases this
  rw [this]
  simp [mkNode]

/-- the contig lists of a file with unique segment ids: the ids of the S lines whose (de-duplicated) tags have that `SN`, in file order -/
theorem contigIds_foldl_segStep (lm : Bool) (c : String) (segs : List SegLine) (x0 : GFA)
    (h : (ids x0.g ++ segs.map (·.id)).Nodup) :
    (segs.foldl (segStep lm) x0).contigIds c =
      x0.contigIds c ++ (segs.filter (fun s => tagVal (s.tags.foldl tagSet []) "SN" == some c)).map (·.id) := by
  induction segs generalizing x0 with
  | nil => simp
  | cons s segs ih =>
    have hnot : x0.g.has s.id = false := by
      rw [Bool.eq_false_iff]
      intro hh
      rw [has_iff_mem] at hh
      rw [List.nodup_append] at h
      exact h.2.2 _ hh _ (by simp) rfl
    have hids : ids (segStep lm x0 s).g = ids x0.g ++ [s.id] := by
      rw [segStep_g, ids_addNode, hnot]; simp
    rw [List.foldl_cons, ih]
    · have hf := find_addNode_new x0.g s lm hnot
      have hstep : (segStep lm x0 s).contigIds c =
          x0.contigIds c ++ ([s].filter (fun s => tagVal (s.tags.foldl tagSet []) "SN" == some c)).map (·.id) := by
        unfold segStep
        simp only [hf, Option.bind_some, mkNode]
        cases hsn : tagVal (s.tags.foldl tagSet []) "SN" with
        | none => simp [hsn, GFA.contigIds]
        | some c' =>
          simp only []
          rw [contigIds_ctnAppend x0.g]
          by_cases hcc : c' = c
          · simp [hcc, hsn]
          · simp [hcc, hsn]
      rw [hstep, List.append_assoc, ← List.map_append, ← List.filter_append]
      rfl
    · rw [hids]; simpa using h

theorem rsegOf_some {s : SegLine} {r : Spec.Conv.RSeg} (h : rsegOf s = some r) : r.id = s.id ∧ tagVal s.tags "SN" = some r.sn := by
  unfold rsegOf at h
  cases h1 : tagVal s.tags "SN" with
  | none => simp [h1] at h
  | some sn =>
    cases h2 : tagInt s.tags "SO" with
    | none => simp [h1, h2] at h
    | some so =>
      cases h3 : tagInt s.tags "SR" with
      | none => simp [h1, h2, h3] at h
      | some sr => simp [h1, h2, h3] at h; subst h; exact ⟨rfl, rfl⟩

theorem filter_infos_segs (c : String) (segs : List SegLine) (h : ∀ s ∈ segs, (rsegOf s).isSome) :
    (((segs.filterMap rsegOf).map infoOf).filter (·.sn == c)).map (·.id) =
      (segs.filter (fun s => tagVal s.tags "SN" == some c)).map (·.id) := by
  induction segs with
  | nil => rfl
  | cons s segs ih =>
    have ih' := ih (fun s' hs' => h s' (List.mem_cons_of_mem _ hs'))
    have hs := h s (by simp)
    cases hr : rsegOf s with
    | none => rw [hr] at hs; cases hs
    | some r =>
      obtain ⟨hid, hsn⟩ := rsegOf_some hr
      simp only [List.filterMap_cons, hr, List.map_cons, List.filter_cons, hsn, infoOf]
      by_cases hc : r.sn = c
      · simp [hc, ih', hid]
      · simp [hc, ih']

/-- for a completely tagged rGFA file the contig table of the loaded object lists, per contig, the ids of `View.infos` with that
    `SN`, in graph order -/
theorem contigIds_readGFA (t : GfaFile) (lm : Bool) (ht : TaggedRGFA t) (c : String) :
    (readGFA t lm).contigIds c = ((infos (readGraph t lm)).filter (·.sn == c)).map (·.id) := by
  have h1 : (readGFA t lm).contigIds c = (t.segs.foldl (segStep lm) ⟨Graph.empty, []⟩).contigIds c := rfl
  rw [h1, contigIds_foldl_segStep lm c t.segs ⟨Graph.empty, []⟩ (by simpa [ids, Graph.empty] using ht.ids)]
  rw [infos_readGraph' t ht lm]
  unfold rsegsOf
  rw [filter_infos_segs c t.segs ht.tagged]
  have : (⟨Graph.empty, []⟩ : GFA).contigIds c = [] := rfl
  rw [this, List.nil_append]
  congr 1
  apply List.filter_congr
  intro s hs
  have hf : s.tags.foldl tagSet [] = s.tags := by
    have := foldl_tagSet_of_nodup s.tags [] (by simpa [names] using ht.names s hs)
    simpa using this
  rw [hf]

end Gaftools.Proofs.GraphExtra
