import Gaftools.Spec.Gaf
/-!
# Helper lemmas for C16 / C20 (GAF record parser / printer)
-/
namespace Gaftools.Proofs.Gaf
open Gaftools.Gaf Gaftools.Spec.Gaf

theorem printable_toNat {c : Char} (h : printable c = true) : 33 ≤ c.toNat ∧ c.toNat ≤ 126 := by
  simp only [printable, Bool.and_eq_true, decide_eq_true_eq] at h
  have h1 : '!'.toNat ≤ c.toNat := h.1
  have h2 : c.toNat ≤ '~'.toNat := h.2
  exact ⟨h1, h2⟩

theorem isWs_toNat {c : Char} (h : isWs c = true) : c.toNat ≤ 32 := by
  simp only [isWs, Bool.or_eq_true, beq_iff_eq] at h
  rcases h with ((((((((h|h)|h)|h)|h)|h)|h)|h)|h)|h <;> subst h <;> decide

theorem isDigit_toNat {c : Char} (h : c.isDigit = true) : 48 ≤ c.toNat ∧ c.toNat ≤ 57 := by
  simp only [Char.isDigit, Bool.and_eq_true, decide_eq_true_eq] at h
  exact h

theorem digitChar_of_isDigit {c : Char} (h : c.isDigit = true) : Nat.digitChar (c.toNat - '0'.toNat) = c := by
  have hb := isDigit_toNat h
  have hc : c = Char.ofNat c.toNat := (Char.ofNat_toNat c).symm
  generalize c.toNat = n at hb hc
  subst hc
  have : n = 48 ∨ n = 49 ∨ n = 50 ∨ n = 51 ∨ n = 52 ∨ n = 53 ∨ n = 54 ∨ n = 55 ∨ n = 56 ∨ n = 57 := by omega
  rcases this with h|h|h|h|h|h|h|h|h|h <;> subst h <;> decide

theorem toDigits_ofDigitChars_acc (t : Str) (ht : t.all Char.isDigit = true) (n : Nat) (hn : 0 < n) :
    Nat.toDigits 10 (Nat.ofDigitChars 10 t n) = Nat.toDigits 10 n ++ t := by
  induction t generalizing n with
  | nil => simp [Nat.ofDigitChars_nil]
  | cons c t ih =>
    simp only [List.all_cons, Bool.and_eq_true] at ht
    have hb := isDigit_toNat ht.1
    rw [Nat.ofDigitChars_cons, ih ht.2 _ (by omega),
      ← Nat.toDigits_append_toDigits (by decide) hn (by have : '0'.toNat = 48 := rfl; omega),
      Nat.toDigits_of_lt_base (n := c.toNat - '0'.toNat) (by have : '0'.toNat = 48 := rfl; omega),
      digitChar_of_isDigit ht.1]
    simp

theorem canonDec_cases {s : Str} (h : canonDec s = true) :
    s = ['0'] ∨ ∃ c rest, s = c :: rest ∧ c.isDigit = true ∧ c ≠ '0' ∧ rest.all Char.isDigit = true := by
  unfold canonDec at h
  split at h
  · simp at h
  · exact Or.inl rfl
  · rename_i c rest _
    simp only [Bool.and_eq_true, bne_iff_ne, ne_eq] at h
    exact Or.inr ⟨c, rest, rfl, h.1.1, h.1.2, h.2⟩

theorem dec_toNat' (s : Str) (h : canonDec s = true) : dec (toNat s) = s := by
  rcases canonDec_cases h with rfl | ⟨c, rest, rfl, hc, hc0, hr⟩
  · decide
  · have hb := isDigit_toNat hc
    have hne : c.toNat ≠ 48 := fun e => hc0 (by
      have : c = Char.ofNat c.toNat := (Char.ofNat_toNat c).symm
      rw [this, e])
    unfold dec toNat
    have h0 : '0'.toNat = 48 := rfl
    rw [Nat.ofDigitChars_cons, toDigits_ofDigitChars_acc rest hr _ (by omega),
      Nat.toDigits_of_lt_base (by omega)]
    simp only [Nat.mul_zero, Nat.zero_add]
    rw [digitChar_of_isDigit hc]; rfl

theorem canonDec_isDigits {s : Str} (h : canonDec s = true) : isDigits s = true := by
  rcases canonDec_cases h with rfl | ⟨c, rest, rfl, hc, hc0, hr⟩
  · decide
  · simp [isDigits, hc, hr]

theorem canonDec_all_isDigit {s : Str} (h : canonDec s = true) : s.all Char.isDigit = true := by
  rcases canonDec_cases h with rfl | ⟨c, rest, rfl, hc, hc0, hr⟩
  · decide
  · simp only [List.all_cons, hc, hr, Bool.and_self]

theorem canonDec_ne_nil {s : Str} (h : canonDec s = true) : s ≠ [] := by
  rcases canonDec_cases h with rfl | ⟨c, rest, rfl, hc, hc0, hr⟩ <;> simp

theorem toNat_dec' (n : Nat) : toNat (dec n) = n := Nat.ofDigitChars_ten_toDigits

/-! character classes -/
theorem printable_iff {c : Char} : printable c = true ↔ 33 ≤ c.toNat ∧ c.toNat ≤ 126 := by
  simp only [printable, Bool.and_eq_true, decide_eq_true_eq]
  exact Iff.rfl

theorem isAlpha_toNat {c : Char} (h : c.isAlpha = true) : 65 ≤ c.toNat ∧ c.toNat ≤ 122 := by
  simp only [Char.isAlpha, Char.isUpper, Char.isLower, Bool.or_eq_true, Bool.and_eq_true, decide_eq_true_eq,
    Bool.decide_and] at h
  have e1 : 'A'.val.toNat = 65 := rfl
  have e2 : 'Z'.val.toNat = 90 := rfl
  have e3 : 'a'.val.toNat = 97 := rfl
  have e4 : 'z'.val.toNat = 122 := rfl
  rcases h with ⟨h1, h2⟩ | ⟨h1, h2⟩
  · have h1' : 'A'.val.toNat ≤ c.val.toNat := h1
    have h2' : c.val.toNat ≤ 'Z'.val.toNat := h2
    show 65 ≤ c.val.toNat ∧ c.val.toNat ≤ 122
    omega
  · have h1' : 'a'.val.toNat ≤ c.val.toNat := h1
    have h2' : c.val.toNat ≤ 'z'.val.toNat := h2
    show 65 ≤ c.val.toNat ∧ c.val.toNat ≤ 122
    omega

theorem isAlphanum_toNat {c : Char} (h : c.isAlphanum = true) : 48 ≤ c.toNat ∧ c.toNat ≤ 122 := by
  simp only [Char.isAlphanum, Bool.or_eq_true] at h
  rcases h with h | h
  · have := isAlpha_toNat h; omega
  · have := isDigit_toNat h; omega

theorem isTagType_toNat {c : Char} (h : isTagType c = true) : 65 ≤ c.toNat ∧ c.toNat ≤ 122 := by
  simp only [isTagType, Bool.or_eq_true, beq_iff_eq] at h
  rcases h with ((((h|h)|h)|h)|h)|h <;> subst h <;> decide

theorem printable_of_isDigit {c : Char} (h : c.isDigit = true) : printable c = true :=
  printable_iff.2 (by have := isDigit_toNat h; omega)
theorem printable_of_isAlpha {c : Char} (h : c.isAlpha = true) : printable c = true :=
  printable_iff.2 (by have := isAlpha_toNat h; omega)
theorem printable_of_isAlphanum {c : Char} (h : c.isAlphanum = true) : printable c = true :=
  printable_iff.2 (by have := isAlphanum_toNat h; omega)
theorem printable_of_isTagType {c : Char} (h : isTagType c = true) : printable c = true :=
  printable_iff.2 (by have := isTagType_toNat h; omega)

theorem printable_not_ws {c : Char} (h : printable c = true) : isWs c = false := by
  cases hw : isWs c with
  | false => rfl
  | true => have := isWs_toNat hw; have := printable_iff.1 h; omega

theorem printable_ne_space {c : Char} (h : printable c = true) : c ≠ ' ' := by
  rintro rfl; revert h; decide

theorem printableSp_of_printable {c : Char} (h : printable c = true) : printableSp c = true := by
  simp [printableSp, h]

theorem printableSp_ne_tab {c : Char} (h : printableSp c = true) : c ≠ '\t' := by
  rintro rfl; revert h; decide

theorem printable_of_printableSp {c : Char} (h : printableSp c = true) (hc : c ≠ ' ') : printable c = true := by
  simp only [printableSp, Bool.or_eq_true, beq_iff_eq] at h
  rcases h with h | h
  · exact absurd h hc
  · exact h

theorem all_printableSp_of_printable {s : Str} (h : s.all printable = true) : s.all printableSp = true := by
  simp only [List.all_eq_true] at h ⊢
  exact fun c hc => printableSp_of_printable (h c hc)

theorem all_printable_of_isDigit {s : Str} (h : s.all Char.isDigit = true) : s.all printable = true := by
  simp only [List.all_eq_true] at h ⊢
  exact fun c hc => printable_of_isDigit (h c hc)

theorem tab_not_mem {s : Str} (h : s.all printableSp = true) : '\t' ∉ s := by
  simp only [List.all_eq_true] at h
  exact fun hm => printableSp_ne_tab (h _ hm) rfl

/-! tags -/
theorem wfTag_cases {k : Str} (h : wfTag k = true) :
    ∃ a b t v, k = a :: b :: ':' :: t :: ':' :: v ∧ a.isAlpha = true ∧ b.isAlphanum = true ∧ isTagType t = true ∧
      v.all printableSp = true := by
  unfold wfTag at h
  split at h
  · rename_i a b c t d v
    simp only [Bool.and_eq_true, beq_iff_eq] at h
    obtain ⟨⟨⟨⟨⟨ha, hb⟩, hc⟩, ht⟩, hd⟩, hv⟩ := h
    subst hc hd
    exact ⟨a, b, t, v, rfl, ha, hb, ht, hv⟩
  · simp at h

theorem wfTag_all_printableSp {k : Str} (h : wfTag k = true) : k.all printableSp = true := by
  obtain ⟨a, b, t, v, rfl, ha, hb, ht, hv⟩ := wfTag_cases h
  simp only [List.all_cons, Bool.and_eq_true]
  exact ⟨printableSp_of_printable (printable_of_isAlpha ha), printableSp_of_printable (printable_of_isAlphanum hb),
    by decide, printableSp_of_printable (printable_of_isTagType ht), by decide, hv⟩

theorem wfTag_ne_nil {k : Str} (h : wfTag k = true) : k ≠ [] := by
  obtain ⟨a, b, t, v, rfl, _⟩ := wfTag_cases h
  simp

theorem tagSplit_wfTag {k : Str} (h : wfTag k = true) : tagSplit k = some (k.take 5, k.drop 5) := by
  obtain ⟨a, b, t, v, rfl, ha, hb, ht, hv⟩ := wfTag_cases h
  simp [tagSplit, isAlpha, isAlnum, ha, hb, ht]

theorem wfTag_tagKey_length {k : Str} (h : wfTag k = true) : (tagKey k).length = 5 := by
  obtain ⟨a, b, t, v, rfl, _⟩ := wfTag_cases h
  simp [tagKey]

/-! records -/
theorem wfFields_cases {fs : List Str} (h : wfFields fs = true) :
    ∃ f0 f1 f2 f3 f4 f5 f6 f7 f8 f9 f10 f11 opt,
      fs = f0 :: f1 :: f2 :: f3 :: f4 :: f5 :: f6 :: f7 :: f8 :: f9 :: f10 :: f11 :: opt ∧
      f0 ≠ [] ∧ f0.all printableSp = true ∧ f0.head? ≠ some ' ' ∧
      canonDec f1 = true ∧ canonDec f2 = true ∧ canonDec f3 = true ∧ f4.all printable = true ∧
      f5.all printable = true ∧ f5 ≠ [] ∧
      canonDec f6 = true ∧ canonDec f7 = true ∧ canonDec f8 = true ∧ canonDec f9 = true ∧
      canonDec f10 = true ∧ canonDec f11 = true ∧ opt.all wfTag = true ∧
      (∀ l, (f11 :: opt).getLast? = some l → ∀ c, l.getLast? = some c → c ≠ ' ') := by
  unfold wfFields at h
  split at h
  · rename_i f0 f1 f2 f3 f4 f5 f6 f7 f8 f9 f10 f11 opt
    refine ⟨f0, f1, f2, f3, f4, f5, f6, f7, f8, f9, f10, f11, opt, rfl, ?_⟩
    simp only [Bool.and_eq_true, Bool.not_eq_true', List.isEmpty_eq_false_iff, bne_iff_ne, ne_eq] at h
    obtain ⟨⟨⟨⟨⟨⟨⟨⟨⟨⟨⟨⟨⟨⟨⟨⟨h0, h0a⟩, h0h⟩, h1⟩, h2⟩, h3⟩, h4⟩, h5⟩, h5n⟩, h6⟩, h7⟩, h8⟩, h9⟩, h10⟩, h11⟩, hopt⟩, hl⟩ := h
    refine ⟨h0, h0a, h0h, h1, h2, h3, h4, h5, h5n, h6, h7, h8, h9, h10, h11, hopt, ?_⟩
    intro l hl' c hc
    rw [hl'] at hl
    simp only [hc] at hl
    simpa using hl
  · simp at h

/-! line layer -/
theorem joinTab_getLast (fs : List Str) (hne : fs ≠ []) : ∃ pre, joinTab fs = pre ++ fs.getLast hne := by
  induction fs with
  | nil => exact absurd rfl hne
  | cons x xs ih =>
    cases xs with
    | nil => exact ⟨[], by simp [joinTab]⟩
    | cons y zs =>
      obtain ⟨pre, hp⟩ := ih (by simp)
      refine ⟨x ++ ['\t'] ++ pre, ?_⟩
      simp only [joinTab] at hp ⊢
      rw [List.intercalate_cons_cons, hp, List.getLast_cons_cons]
      simp

theorem rstrip_append (s : Str) (c : Char) (hc : isWs c = false) (nl : Str) (hnl : nl = [] ∨ nl = ['\n']) :
    rstrip (s ++ [c] ++ nl) = s ++ [c] := by
  rcases hnl with rfl | rfl
  · simp [rstrip, hc]
  · have : isWs '\n' = true := by decide
    simp [rstrip, hc, this]

theorem split_join' (fs : List Str) (h : wfFields fs = true) (nl : Str) (hnl : nl = [] ∨ nl = ['\n']) :
    splitTab (rstrip (joinTab fs ++ nl)) = fs := by
  obtain ⟨f0, f1, f2, f3, f4, f5, f6, f7, f8, f9, f10, f11, opt, rfl, h0, h0a, h0h, h1, h2, h3, h4, h5, h5n,
    h6, h7, h8, h9, h10, h11, hopt, hl⟩ := wfFields_cases h
  have hd : ∀ {s : Str}, canonDec s = true → s.all printableSp = true := fun hs =>
    all_printableSp_of_printable (all_printable_of_isDigit (canonDec_all_isDigit hs))
  have hoptP : ∀ k ∈ opt, k.all printableSp = true := fun k hk =>
    wfTag_all_printableSp (List.all_eq_true.1 hopt k hk)
  -- every field is tab-free
  have hall : ∀ l ∈ f0 :: f1 :: f2 :: f3 :: f4 :: f5 :: f6 :: f7 :: f8 :: f9 :: f10 :: f11 :: opt,
      l.all printableSp = true := by
    intro l hl
    simp only [List.mem_cons] at hl
    rcases hl with rfl|rfl|rfl|rfl|rfl|rfl|rfl|rfl|rfl|rfl|rfl|rfl|hl
    · exact h0a
    · exact hd h1
    · exact hd h2
    · exact hd h3
    · exact all_printableSp_of_printable h4
    · exact all_printableSp_of_printable h5
    · exact hd h6
    · exact hd h7
    · exact hd h8
    · exact hd h9
    · exact hd h10
    · exact hd h11
    · exact hoptP l hl
  -- the last field
  have hne : (f0 :: f1 :: f2 :: f3 :: f4 :: f5 :: f6 :: f7 :: f8 :: f9 :: f10 :: f11 :: opt) ≠ [] := by simp
  obtain ⟨pre, hpre⟩ := joinTab_getLast _ hne
  have hlast : (f0 :: f1 :: f2 :: f3 :: f4 :: f5 :: f6 :: f7 :: f8 :: f9 :: f10 :: f11 :: opt).getLast hne
      = (f11 :: opt).getLast (by simp) := by
    simp [List.getLast_cons]
  generalize hL : (f11 :: opt).getLast (by simp) = L at hlast
  have hLmem : L ∈ f11 :: opt := hL ▸ List.getLast_mem _
  have hLlast : (f11 :: opt).getLast? = some L := by rw [List.getLast?_eq_some_getLast (by simp), hL]
  have hLne : L ≠ [] := by
    rcases List.mem_cons.1 hLmem with rfl | hm
    · exact canonDec_ne_nil h11
    · exact wfTag_ne_nil (List.all_eq_true.1 hopt L hm)
  have hLP : L.all printableSp = true := hall L (by
    rcases List.mem_cons.1 hLmem with rfl | hm <;> simp [*])
  obtain ⟨L', c, rfl⟩ : ∃ L' c, L = L' ++ [c] := ⟨L.dropLast, L.getLast hLne, (List.dropLast_concat_getLast hLne).symm⟩
  have hcsp : c ≠ ' ' := hl _ hLlast c (by simp)
  have hcP : printable c = true :=
    printable_of_printableSp (List.all_eq_true.1 hLP c (by simp)) hcsp
  rw [hpre, hlast, ← List.append_assoc, rstrip_append _ _ (printable_not_ws hcP) _ hnl, List.append_assoc, ← hlast, ← hpre]
  exact List.splitOn_intercalate '\t' (fun l hl => tab_not_mem (hall l hl)) hne

/-! the tag scan -/
def firstsOf (l : List Str) : List Str :=
  (l.zipIdx.filter (fun (k, i) => !((l.take i).map tagKey).contains (tagKey k))).map (·.1)

def lastCg (l : List Str) : Option Str := (l.filter (fun k => tagKey k == cgKey)).getLast?

def pairOf (k : Str) : Str × Str := (k.take 5, k.drop 5)

/-- the dictionary entry that ends up stored for the first occurrence `k` -/
def k1Entry (l : List Str) (k : Str) : Str × Str :=
  if tagKey k == cgKey then pairOf ((lastCg l).getD k) else pairOf k

theorem firstsOf_snoc (l : List Str) (k : Str) :
    firstsOf (l ++ [k]) = firstsOf l ++ if (l.map tagKey).contains (tagKey k) then [] else [k] := by
  unfold firstsOf
  rw [List.zipIdx_append, List.filter_append, List.map_append]
  congr 1
  · congr 1
    apply List.filter_congr
    rintro ⟨x, i⟩ hx
    have := (List.mem_zipIdx' hx).1
    simp only [List.take_append_of_le_length (Nat.le_of_lt this)]
  · simp only [List.zipIdx_singleton, Nat.zero_add, List.filter_cons, List.filter_nil, List.take_left]
    split <;> simp_all

theorem firstsOf_nil : firstsOf [] = [] := rfl

theorem lastCg_snoc (l : List Str) (k : Str) :
    lastCg (l ++ [k]) = if tagKey k == cgKey then some k else lastCg l := by
  unfold lastCg
  rw [List.filter_append]
  by_cases h : tagKey k == cgKey <;> simp [h]

theorem lastCg_some {l : List Str} {y : Str} (h : lastCg l = some y) : tagKey y = cgKey ∧ y ∈ l := by
  unfold lastCg at h
  have := List.mem_of_getLast? h
  simp only [List.mem_filter, beq_iff_eq] at this
  exact ⟨this.2, this.1⟩

theorem lastCg_none {l : List Str} : lastCg l = none ↔ cgKey ∉ l.map tagKey := by
  unfold lastCg
  simp only [List.getLast?_eq_none_iff, List.filter_eq_nil_iff, beq_iff_eq, List.mem_map, not_exists, not_and]

theorem mem_firstsOf {l : List Str} {x : Str} (h : x ∈ firstsOf l) : x ∈ l := by
  unfold firstsOf at h
  simp only [List.mem_map, List.mem_filter] at h
  obtain ⟨⟨y, i⟩, ⟨hm, _⟩, rfl⟩ := h
  have := (List.mem_zipIdx' hm).2
  simp only [this]
  exact List.getElem_mem _

theorem snoc_induction {P : List Str → Prop} (h0 : P []) (hs : ∀ l k, P l → P (l ++ [k])) (l : List Str) : P l := by
  have : ∀ r : List Str, P r.reverse := by
    intro r
    induction r with
    | nil => exact h0
    | cons k r ih => rw [List.reverse_cons]; exact hs _ _ ih
  simpa using this l.reverse

theorem keys_firstsOf (l : List Str) (p : Str) : p ∈ (firstsOf l).map tagKey ↔ p ∈ l.map tagKey := by
  induction l using snoc_induction with
  | h0 => simp [firstsOf_nil]
  | hs l k ih =>
    rw [firstsOf_snoc]
    by_cases hc : (l.map tagKey).contains (tagKey k) = true
    · simp only [hc, if_true, List.append_nil, ih, List.map_append, List.mem_append, List.map_cons, List.map_nil,
        List.mem_singleton]
      constructor
      · exact Or.inl
      · rintro (h | rfl)
        · exact h
        · simpa using hc
    · simp only [hc, List.map_append, List.mem_append, ih]
      simp

theorem tagStep_wf {k : Str} (h : wfTag k = true) (st : TagSt) :
    tagStep st k =
      if tagKey k == dsKey then st
      else if tagKey k == cgKey then { st with cigar := k.drop 5, tags := dictSet st.tags (tagKey k) (k.drop 5) }
      else { st with
        tags := if dictHas st.tags (tagKey k) then st.tags else st.tags ++ [pairOf k],
        isPrimary := if tagKey k == tpKey && !(k.drop 5 == ['P'] || k.drop 5 == ['p']) then false else st.isPrimary } := by
  unfold tagStep
  rw [tagSplit_wfTag h]
  rfl

theorem foldl_tagStep_kept (opt : List Str) (h : ∀ k ∈ opt, wfTag k = true) (st : TagSt) :
    opt.foldl tagStep st = (keptOpt opt).foldl tagStep st := by
  induction opt generalizing st with
  | nil => rfl
  | cons k opt ih =>
    have hk := h k (by simp)
    have ih' := fun st => ih (fun x hx => h x (by simp [hx])) st
    unfold keptOpt at ih' ⊢
    rw [List.foldl_cons, List.filter_cons]
    by_cases hd : tagKey k == dsKey
    · simp only [hd, Bool.false_eq_true, if_false, bne, Bool.not_true]
      rw [tagStep_wf hk, if_pos hd]; exact ih' st
    · simp only [bne, hd, Bool.not_false, if_true, List.foldl_cons]
      exact ih' _

theorem dictHas_iff (d : List (Str × Str)) (p : Str) : dictHas d p = true ↔ p ∈ d.map (·.1) := by
  simp only [dictHas, List.any_eq_true, beq_iff_eq, List.mem_map]

theorem k1Entry_fst (l : List Str) (x : Str) : (k1Entry l x).1 = tagKey x := by
  unfold k1Entry
  split
  · rename_i hx
    cases hl : lastCg l with
    | none => rfl
    | some y => simp only [Option.getD_some, pairOf]; rw [beq_iff_eq] at hx; rw [hx]; exact (lastCg_some hl).1
  · rfl

/-- the loop invariant of the tag scan over the kept fields `l` -/
def Inv (l : List Str) (st : TagSt) : Prop :=
  st.tags = (firstsOf l).map (k1Entry l) ∧ st.cigar = ((lastCg l).map (List.drop 5)).getD []

theorem Inv.keys {l : List Str} {st : TagSt} (h : Inv l st) (p : Str) : dictHas st.tags p = true ↔ p ∈ l.map tagKey := by
  rw [dictHas_iff, h.1, List.map_map, ← keys_firstsOf]
  have : (fun x : Str × Str => x.1) ∘ k1Entry l = tagKey := funext fun x => k1Entry_fst l x
  rw [this]

theorem k1Entry_snoc_of_ne (l : List Str) {k : Str} (hk : ¬ (tagKey k == cgKey) = true) : k1Entry (l ++ [k]) = k1Entry l := by
  funext x
  unfold k1Entry
  rw [lastCg_snoc, if_neg hk]

theorem k1Entry_snoc_cg (l : List Str) {k : Str} (hk : (tagKey k == cgKey) = true) (x : Str) :
    k1Entry (l ++ [k]) x = if tagKey x == cgKey then pairOf k else pairOf x := by
  unfold k1Entry
  rw [lastCg_snoc, if_pos hk]
  rfl

theorem k1Entry_of_ne (l : List Str) {x : Str} (hx : ¬ (tagKey x == cgKey) = true) : k1Entry l x = pairOf x := by
  unfold k1Entry
  rw [if_neg hx]

theorem inv_step {l : List Str} {st : TagSt} {k : Str} (hk : wfTag k = true) (hds : ¬ (tagKey k == dsKey) = true)
    (hi : Inv l st) : Inv (l ++ [k]) (tagStep st k) := by
  rw [tagStep_wf hk, if_neg hds]
  by_cases hc : (tagKey k == cgKey) = true
  · rw [if_pos hc]
    have hkey : tagKey k = cgKey := by simpa using hc
    refine ⟨?_, ?_⟩
    · show dictSet st.tags (tagKey k) (k.drop 5) = _
      unfold dictSet
      have hany : (st.tags.any (·.1 == tagKey k)) = dictHas st.tags (tagKey k) := rfl
      rw [hany, firstsOf_snoc]
      by_cases hin : dictHas st.tags (tagKey k) = true
      · have hin' := (hi.keys _).1 hin
        have hcont : (l.map tagKey).contains (tagKey k) = true := by simpa using hin'
        rw [if_pos hin, if_pos hcont, List.append_nil, hi.1, List.map_map]
        apply List.map_congr_left
        intro x _
        simp only [Function.comp, k1Entry_fst, k1Entry_snoc_cg l hc]
        by_cases hx : (tagKey x == cgKey) = true
        · have : (tagKey x == tagKey k) = true := by rw [hkey]; exact hx
          rw [if_pos this, if_pos hx]; rfl
        · have : ¬ (tagKey x == tagKey k) = true := by rw [hkey]; exact hx
          rw [if_neg this, if_neg hx, k1Entry_of_ne l hx]
      · have hin' : tagKey k ∉ l.map tagKey := fun hm => hin ((hi.keys _).2 hm)
        have hcont : ¬ (l.map tagKey).contains (tagKey k) = true := by simpa using hin'
        rw [if_neg hin, if_neg hcont, List.map_append, hi.1]
        congr 1
        · apply List.map_congr_left
          intro x hx
          have hxk : ¬ (tagKey x == cgKey) = true := by
            intro hxc
            apply hin'
            rw [hkey, ← (beq_iff_eq.1 hxc)]
            exact List.mem_map_of_mem (mem_firstsOf hx)
          rw [k1Entry_of_ne l hxk, k1Entry_snoc_cg l hc, if_neg hxk]
        · simp only [List.map_cons, List.map_nil, k1Entry_snoc_cg l hc, if_pos hc]; rfl
    · show k.drop 5 = _
      rw [lastCg_snoc, if_pos hc]; rfl
  · rw [if_neg hc]
    refine ⟨?_, ?_⟩
    · show (if dictHas st.tags (tagKey k) then st.tags else st.tags ++ [pairOf k]) = _
      rw [firstsOf_snoc, k1Entry_snoc_of_ne l hc]
      by_cases hin : dictHas st.tags (tagKey k) = true
      · have hin' := (hi.keys _).1 hin
        have hcont : (l.map tagKey).contains (tagKey k) = true := by simpa using hin'
        rw [if_pos hin, if_pos hcont, List.append_nil, hi.1]
      · have hin' : tagKey k ∉ l.map tagKey := fun hm => hin ((hi.keys _).2 hm)
        have hcont : ¬ (l.map tagKey).contains (tagKey k) = true := by simpa using hin'
        rw [if_neg hin, if_neg hcont, List.map_append, hi.1]
        simp only [List.map_cons, List.map_nil, k1Entry_of_ne l hc]
    · show st.cigar = _
      rw [lastCg_snoc, if_neg hc]; exact hi.2

theorem inv_foldl (l : List Str) (h : ∀ k ∈ l, wfTag k = true ∧ ¬ (tagKey k == dsKey) = true) :
    Inv l (l.foldl tagStep ⟨[], [], true⟩) := by
  induction l using snoc_induction with
  | h0 => exact ⟨rfl, rfl⟩
  | hs l k ih =>
    rw [List.foldl_append]
    have hk := h k (by simp)
    exact inv_step hk.1 hk.2 (ih fun x hx => h x (by simp [hx]))

theorem inv_parse (opt : List Str) (h : opt.all wfTag = true) :
    Inv (keptOpt opt) (opt.foldl tagStep ⟨[], [], true⟩) := by
  have h' := List.all_eq_true.1 h
  rw [foldl_tagStep_kept opt h']
  apply inv_foldl
  intro k hk
  unfold keptOpt at hk
  simp only [List.mem_filter, bne_iff_ne, ne_eq] at hk
  exact ⟨h' k hk.1, by simpa using hk.2⟩

def joinKV (kv : Str × Str) : Str := kv.1 ++ kv.2

/-- the optional fields printed under known finding K1 -/
def k1Out (l : List Str) : List Str :=
  (firstsOf l).map (fun k => if tagKey k == cgKey then (lastCg l).getD k else k)

theorem joinKV_pairOf (k : Str) : joinKV (pairOf k) = k := List.take_append_drop 5 k

theorem Inv.tags_join {l : List Str} {st : TagSt} (h : Inv l st) :
    st.tags.map (fun kv => kv.1 ++ kv.2) = k1Out l := by
  rw [h.1, List.map_map]
  unfold k1Out
  apply List.map_congr_left
  intro x _
  show joinKV (k1Entry l x) = _
  unfold k1Entry
  split <;> exact joinKV_pairOf _

theorem Inv.printTags {l : List Str} {st : TagSt} (h : Inv l st) :
    (if !st.cigar.isEmpty || dictHas st.tags cgKey then dictSet st.tags cgKey st.cigar else st.tags) = st.tags := by
  by_cases hin : dictHas st.tags cgKey = true
  · rw [hin, Bool.or_true, if_pos rfl]
    unfold dictSet
    have hany : (st.tags.any (·.1 == cgKey)) = dictHas st.tags cgKey := rfl
    rw [hany, if_pos hin]
    have hmem := (h.keys _).1 hin
    obtain ⟨y, hy⟩ : ∃ y, lastCg l = some y := by
      cases hl : lastCg l with
      | none => exact absurd hmem (lastCg_none.1 hl)
      | some y => exact ⟨y, rfl⟩
    have hcig : st.cigar = y.drop 5 := by rw [h.2, hy]; rfl
    have hykey := (lastCg_some hy).1
    conv => rhs; rw [← List.map_id st.tags]
    apply List.map_congr_left
    intro e he
    rw [h.1, List.mem_map] at he
    obtain ⟨x, _, rfl⟩ := he
    rw [k1Entry_fst]
    by_cases hx : (tagKey x == cgKey) = true
    · rw [if_pos hx]
      unfold k1Entry
      rw [if_pos hx, hy, hcig]
      show _ = (y.take 5, y.drop 5)
      rw [← hykey]; rfl
    · rw [if_neg hx]; rfl
  · have hnot : cgKey ∉ l.map tagKey := fun hm => hin ((h.keys _).2 hm)
    have hc : st.cigar = [] := by rw [h.2, lastCg_none.2 hnot]; rfl
    simp [hc, hin]

theorem parseFields_wf {f0 f1 f2 f3 f4 f5 f6 f7 f8 f9 f10 f11 : Str} {opt : List Str}
    (h1 : canonDec f1 = true) (h2 : canonDec f2 = true) (h3 : canonDec f3 = true)
    (h6 : canonDec f6 = true) (h7 : canonDec f7 = true) (h8 : canonDec f8 = true) (h9 : canonDec f9 = true)
    (h10 : canonDec f10 = true) (h11 : canonDec f11 = true) (hopt : opt.all wfTag = true) :
    ∃ r, parseFields (f0 :: f1 :: f2 :: f3 :: f4 :: f5 :: f6 :: f7 :: f8 :: f9 :: f10 :: f11 :: opt) = some r ∧
      mandatory r = [cutAtSpace f0, f1, f2, f3, f4, f5, f6, f7, f8, f9, f10, f11] ∧
      r.qname = cutAtSpace f0 ∧
      r.tags.map (fun kv => kv.1 ++ kv.2) = k1Out (keptOpt opt) ∧
      printTags r = r.tags := by
  have hi := inv_parse opt hopt
  refine ⟨{ qname := cutAtSpace f0, qlen := toNat f1, qs := toNat f2, qe := toNat f3, strand := f4, path := f5,
             plen := toNat f6, ps := toNat f7, pe := toNat f8, nmatch := toNat f9, blen := toNat f10, mapq := toNat f11,
             isPrimary := (opt.foldl tagStep ⟨[], [], true⟩).isPrimary,
             cigar := (opt.foldl tagStep ⟨[], [], true⟩).cigar,
             tags := (opt.foldl tagStep ⟨[], [], true⟩).tags }, ?_, ?_, rfl, hi.tags_join, hi.printTags⟩
  · simp only [parseFields, canonDec_isDigits, h1, h2, h3, h6, h7, h8, h9, h10, h11, Bool.and_self, if_true]
  · simp only [mandatory, dec_toNat', h1, h2, h3, h6, h7, h8, h9, h10, h11]

/-! no repeated tag -/
theorem nodup_map_inj {f : Str → Str} {l : List Str} (h : (l.map f).Nodup) {x y : Str} (hx : x ∈ l) (hy : y ∈ l)
    (hf : f x = f y) : x = y := by
  induction l with
  | nil => cases hx
  | cons a l ih =>
    rw [List.map_cons, List.nodup_cons] at h
    rcases List.mem_cons.1 hx with rfl | hx' <;> rcases List.mem_cons.1 hy with rfl | hy'
    · rfl
    · exact absurd (hf ▸ List.mem_map_of_mem hy') h.1
    · exact absurd (hf ▸ List.mem_map_of_mem hx') h.1
    · exact ih h.2 hx' hy'

theorem firstsOf_nodup (l : List Str) (h : (l.map tagKey).Nodup) : firstsOf l = l := by
  induction l using snoc_induction with
  | h0 => rfl
  | hs l k ih =>
    rw [List.map_append, List.nodup_append] at h
    have hk : ¬ (l.map tagKey).contains (tagKey k) = true := by
      intro hc
      exact h.2.2 _ (by simpa using hc) (tagKey k) (by simp) rfl
    rw [firstsOf_snoc, ih h.1, if_neg hk]

theorem k1Out_nodup (l : List Str) (h : (l.map tagKey).Nodup) : k1Out l = l := by
  unfold k1Out
  rw [firstsOf_nodup l h]
  conv => rhs; rw [← List.map_id l]
  apply List.map_congr_left
  intro x hx
  split
  · rename_i hc
    cases hl : lastCg l with
    | none => rfl
    | some y =>
      have := lastCg_some hl
      exact nodup_map_inj h this.2 hx (this.1.trans (beq_iff_eq.1 hc).symm)
  · rfl

theorem expectedK1_unfold (f0 : Str) (rest : List Str) :
    expectedK1 (f0 :: rest) = cutAtSpace f0 :: (rest.take 11 ++ k1Out (keptOpt (rest.drop 11))) := rfl

theorem expectedK1_eq' (fs : List Str) (hr : noRepeatedTag fs = true) : expectedK1 fs = expected fs := by
  cases fs with
  | nil => rfl
  | cons f0 rest =>
    rw [expectedK1_unfold, k1Out_nodup]
    · rfl
    · simpa [noRepeatedTag] using hr

theorem print_parse_K1' (fs : List Str) (h : wfFields fs = true) :
    (parseFields fs).map printFields = some (expectedK1 fs) := by
  obtain ⟨f0, f1, f2, f3, f4, f5, f6, f7, f8, f9, f10, f11, opt, rfl, h0, h0a, h0h, h1, h2, h3, h4, h5, h5n,
    h6, h7, h8, h9, h10, h11, hopt, hl⟩ := wfFields_cases h
  obtain ⟨r, hp, hm, _, ht, hpt⟩ := parseFields_wf (f0 := f0) (f4 := f4) (f5 := f5) h1 h2 h3 h6 h7 h8 h9 h10 h11 hopt
  rw [hp, expectedK1_unfold]
  simp only [Option.map_some, printFields, hpt, ht, hm]
  rfl

theorem parse_tags_of_noRepeated (fs : List Str) (h : wfFields fs = true) (hr : noRepeatedTag fs = true) :
    ∃ r, parseFields fs = some r ∧ mandatory r = (expected fs).take 12 ∧ r.qname = cutAtSpace (fs.headD []) ∧
      r.tags.map (fun kv => kv.1 ++ kv.2) = (expected fs).drop 12 := by
  obtain ⟨f0, f1, f2, f3, f4, f5, f6, f7, f8, f9, f10, f11, opt, rfl, h0, h0a, h0h, h1, h2, h3, h4, h5, h5n,
    h6, h7, h8, h9, h10, h11, hopt, hl⟩ := wfFields_cases h
  obtain ⟨r, hp, hm, hq, ht, hpt⟩ := parseFields_wf (f0 := f0) (f4 := f4) (f5 := f5) h1 h2 h3 h6 h7 h8 h9 h10 h11 hopt
  refine ⟨r, hp, ?_, hq, ?_⟩
  · rw [hm]; rfl
  · rw [ht, k1Out_nodup]
    · rfl
    · simpa [noRepeatedTag] using hr

theorem mem_k1Out {l : List Str} {f : Str} (h : f ∈ k1Out l) : f ∈ l := by
  unfold k1Out at h
  rw [List.mem_map] at h
  obtain ⟨x, hx, rfl⟩ := h
  split
  · cases hl : lastCg l with
    | none => exact mem_firstsOf hx
    | some y => exact (lastCg_some hl).2
  · exact mem_firstsOf hx

theorem mem_keptOpt {opt : List Str} {f : Str} (h : f ∈ keptOpt opt) : f ∈ opt := by
  unfold keptOpt at h
  exact (List.mem_filter.1 h).1

theorem no_invented_field' (fs : List Str) (h : wfFields fs = true) (r : Rec) (hp : parseFields fs = some r) :
    ∀ f ∈ (printFields r).drop 12, f ∈ fs.drop 12 := by
  have hk := print_parse_K1' fs h
  rw [hp, Option.map_some, Option.some.injEq] at hk
  obtain ⟨f0, f1, f2, f3, f4, f5, f6, f7, f8, f9, f10, f11, opt, rfl, -⟩ := wfFields_cases h
  rw [hk, expectedK1_unfold]
  intro f hf
  exact mem_keptOpt (mem_k1Out hf)

end Gaftools.Proofs.Gaf
