import Gaftools.Spec.Conv
import Gaftools.Proofs.ConvLemmas
import Gaftools.Proofs.SearchLemmas
/-!
# Helper lemmas for `Props/C01b.lean` (stable → unstable conversion)

* `Chain l a b` : the segment list `l` tiles `[a, b)` (consecutive, touching, non-empty segments)
* `filter_chain` : the overlapping segments of a sorted disjoint list form a chain when the query is covered
* `scanWindow` characterisation
* sorted + "every segment starts at 0 or at the end of another" ⇒ chain from 0
-/
namespace Gaftools.Proofs.Unstable
open Gaftools.Conv Gaftools.Spec.Conv Gaftools.Proofs.Search

/-! ## chains of touching segments -/

/-- `l` is a non-empty list of non-empty segments, each starting where the previous one ends, from `a` to `b` -/
inductive Chain : List Seg → Int → Int → Prop
  | single (x : Seg) : x.so < x.en → Chain [x] x.so x.en
  | cons (x : Seg) (rest : List Seg) (b : Int) : x.so < x.en → Chain rest x.en b → Chain (x :: rest) x.so b

theorem Chain.head {l : List Seg} {a b : Int} (h : Chain l a b) : ∃ x t, l = x :: t ∧ x.so = a ∧ x.so < x.en := by
  cases h with
  | single x hx => exact ⟨x, [], rfl, rfl, hx⟩
  | cons x rest b hx hr => exact ⟨x, rest, rfl, rfl, hx⟩

theorem Chain.lt {l : List Seg} {a b : Int} (h : Chain l a b) : a < b := by
  induction h with
  | single x hx => exact hx
  | cons x rest b hx _ ih => omega

theorem Chain.last {l : List Seg} {a b : Int} (h : Chain l a b) : ∃ z ∈ l, z.en = b ∧ z.so < z.en := by
  induction h with
  | single x hx => exact ⟨x, by simp, rfl, hx⟩
  | cons x rest b _ _ ih =>
    obtain ⟨z, hz, hzb⟩ := ih
    exact ⟨z, by simp [hz], hzb⟩

theorem Chain.sum {l : List Seg} {a b : Int} (h : Chain l a b) : (l.map (fun sg => sg.en - sg.so)).sum = b - a := by
  induction h with
  | single x hx => simp
  | cons x rest b _ _ ih => simp only [List.map_cons, List.sum_cons, ih]; omega

theorem Chain.cover {l : List Seg} {a b : Int} (h : Chain l a b) (p : Int) (h1 : a ≤ p) (h2 : p < b) :
    ∃ sg ∈ l, sg.so ≤ p ∧ p < sg.en := by
  induction h with
  | single x hx => exact ⟨x, by simp, h1, h2⟩
  | cons x rest b _ _ ih =>
    by_cases hp : p < x.en
    · exact ⟨x, by simp, h1, hp⟩
    · obtain ⟨sg, hsg, hh⟩ := ih (by omega) h2
      exact ⟨sg, by simp [hsg], hh⟩

/-- in a sorted disjoint list a position is covered by at most one segment -/
theorem cover_unique {iv : List Seg} (hsd : SortedDisjoint iv) {x y : Seg} (hx : x ∈ iv) (hy : y ∈ iv) (p : Int)
    (hxp : x.so ≤ p ∧ p < x.en) (hyp : y.so ≤ p ∧ p < y.en) : x = y := by
  obtain ⟨i, hi, rfl⟩ := List.getElem_of_mem hx
  obtain ⟨j, hj, rfl⟩ := List.getElem_of_mem hy
  rcases Nat.lt_trichotomy i j with h | h | h
  · have := sd_index hsd i j hi hj h; omega
  · subst h; rfl
  · have := sd_index hsd j i hj hi h; omega

/-- the segments of a sorted disjoint list that overlap a covered query tile an interval around the query -/
theorem filter_chain (iv : List Seg) (hne : ∀ sg ∈ iv, sg.so < sg.en) (hpw : iv.Pairwise (fun a b => a.en ≤ b.so)) :
    ∀ (qs qe : Int), qs < qe → (∀ p, qs ≤ p → p < qe → ∃ sg ∈ iv, sg.so ≤ p ∧ p < sg.en) →
    ∃ a b, Chain (iv.filter (fun sg => overlaps sg qs qe)) a b ∧ a ≤ qs ∧ qe ≤ b := by
  induction iv with
  | nil =>
    intro qs qe hq hcov
    obtain ⟨sg, hsg, _⟩ := hcov qs (by omega) hq
    simp at hsg
  | cons x rest ih =>
    intro qs qe hq hcov
    rw [List.pairwise_cons] at hpw
    have hne' : ∀ sg ∈ rest, sg.so < sg.en := fun sg h => hne sg (by simp [h])
    have hx := hne x (by simp)
    by_cases hov : overlaps x qs qe = true
    · rw [List.filter_cons_of_pos (p := fun sg => overlaps sg qs qe) hov]
      rw [overlaps_iff] at hov
      have hxs : x.so ≤ qs := by
        obtain ⟨sg, hsg, h1, h2⟩ := hcov qs (by omega) hq
        rcases List.mem_cons.1 hsg with rfl | hsg
        · exact h1
        · have := hpw.1 sg hsg; omega
      by_cases hqe : qe ≤ x.en
      · have hnil : rest.filter (fun sg => overlaps sg qs qe) = [] := by
          rw [List.filter_eq_nil_iff]
          intro sg hsg
          have := hpw.1 sg hsg
          rw [overlaps_iff]; omega
        rw [hnil]
        exact ⟨x.so, x.en, Chain.single x hx, hxs, hqe⟩
      · have hcongr : rest.filter (fun sg => overlaps sg qs qe) = rest.filter (fun sg => overlaps sg x.en qe) := by
          apply List.filter_congr
          intro sg hsg
          have h1 := hpw.1 sg hsg
          have h2 := hne' sg hsg
          rw [Bool.eq_iff_iff, overlaps_iff, overlaps_iff]; omega
        obtain ⟨a, b, hch, ha, hb⟩ := ih hne' hpw.2 x.en qe (by omega) (by
          intro p hp1 hp2
          obtain ⟨sg, hsg, h1, h2⟩ := hcov p (by omega) hp2
          rcases List.mem_cons.1 hsg with rfl | hsg
          · omega
          · exact ⟨sg, hsg, h1, h2⟩)
        rw [hcongr]
        obtain ⟨y, t, hyt, hya, _⟩ := hch.head
        have hymem : y ∈ rest := by
          have : y ∈ rest.filter (fun sg => overlaps sg x.en qe) := by rw [hyt]; simp
          exact (List.mem_filter.1 this).1
        have := hpw.1 y hymem
        have hax : a = x.en := by omega
        subst hax
        exact ⟨x.so, b, Chain.cons x _ b hx hch, hxs, hb⟩
    · have hov' : ¬ overlaps x qs qe = true := hov
      rw [List.filter_cons_of_neg (p := fun sg => overlaps sg qs qe) hov]
      rw [overlaps_iff] at hov'
      apply ih hne' hpw.2 qs qe hq
      intro p hp1 hp2
      obtain ⟨sg, hsg, h1, h2⟩ := hcov p hp1 hp2
      rcases List.mem_cons.1 hsg with rfl | hsg
      · omega
      · exact ⟨sg, hsg, h1, h2⟩

/-! ## `scanWindow` -/

/-- the body of the inner loop -/
def scanStep (qs qe : Int) (isSplit : Bool) (acc : List String × Int × Int) (sg : Seg) : List String × Int × Int :=
  let c := overlapCase sg qs qe
  let ns' := if c = 1 ∧ acc.2.1 = -1 then (if isSplit then qs else qs - sg.so) else acc.2.1
  if c ≠ 0 then (acc.1 ++ [sg.id], ns', acc.2.2 + (sg.en - sg.so)) else (acc.1, ns', acc.2.2)

theorem scanWindow_eq (w : List Seg) (qs qe : Int) (isSplit : Bool) (ns nt : Int) :
    scanWindow w qs qe isSplit ns nt = w.foldl (scanStep qs qe isSplit) ([], ns, nt) := rfl

/-- segments matching none of the cases leave the loop state unchanged -/
theorem foldl_scanStep_filter (qs qe : Int) (isSplit : Bool) (w : List Seg) :
    ∀ acc, w.foldl (scanStep qs qe isSplit) acc
      = (w.filter (fun sg => overlapCase sg qs qe ≠ 0)).foldl (scanStep qs qe isSplit) acc := by
  induction w with
  | nil => intro acc; rfl
  | cons x w ih =>
    intro acc
    by_cases hc : overlapCase x qs qe = 0
    · have hstep : scanStep qs qe isSplit acc x = acc := by
        simp [scanStep, hc]
      rw [List.foldl_cons, hstep, List.filter_cons_of_neg (by simp [hc])]
      exact ih acc
    · rw [List.filter_cons_of_pos (by simp [hc]), List.foldl_cons, List.foldl_cons]
      exact ih _

/-- ids and total length collected by the loop over segments that all match a case -/
theorem foldl_scanStep_ids (qs qe : Int) (isSplit : Bool) (w : List Seg) (hw : ∀ sg ∈ w, overlapCase sg qs qe ≠ 0) :
    ∀ acc, (w.foldl (scanStep qs qe isSplit) acc).1 = acc.1 ++ w.map (·.id) ∧
      (w.foldl (scanStep qs qe isSplit) acc).2.2 = acc.2.2 + (w.map (fun sg => sg.en - sg.so)).sum := by
  induction w with
  | nil => intro acc; simp
  | cons x w ih =>
    intro acc
    have hx := hw x (by simp)
    obtain ⟨h1, h2⟩ := ih (fun sg h => hw sg (by simp [h])) (scanStep qs qe isSplit acc x)
    rw [List.foldl_cons, h1, h2]
    simp only [scanStep, hx, ne_eq, not_false_eq_true, if_true, List.map_cons, List.sum_cons]
    constructor
    · simp
    · omega

/-- once set, `new_start` is never changed -/
theorem foldl_scanStep_latched (qs qe : Int) (isSplit : Bool) (w : List Seg) :
    ∀ acc, acc.2.1 ≠ -1 → (w.foldl (scanStep qs qe isSplit) acc).2.1 = acc.2.1 := by
  induction w with
  | nil => intro acc _; rfl
  | cons x w ih =>
    intro acc hacc
    have hstep : (scanStep qs qe isSplit acc x).2.1 = acc.2.1 := by
      unfold scanStep
      simp only [hacc, and_false, if_false]
      split <;> rfl
    rw [List.foldl_cons, ih _ (by rw [hstep]; exact hacc), hstep]

/-- `scanWindow` for a bare contig: the window may be replaced by its matching segments `h :: t`, `h` containing the query start -/
theorem scanWindow_bare (w : List Seg) (qs qe : Int) (h : Seg) (t : List Seg)
    (hf : w.filter (fun sg => overlapCase sg qs qe ≠ 0) = h :: t) (h1 : h.so ≤ qs) (h2 : qs < h.en) :
    scanWindow w qs qe false (-1) 0 =
      ((h :: t).map (·.id), qs - h.so, ((h :: t).map (fun sg => sg.en - sg.so)).sum) := by
  rw [scanWindow_eq, foldl_scanStep_filter, hf]
  have hall : ∀ sg ∈ h :: t, overlapCase sg qs qe ≠ 0 := by
    intro sg hsg
    rw [← hf] at hsg
    simpa using (List.mem_filter.1 hsg).2
  obtain ⟨e1, e2⟩ := foldl_scanStep_ids qs qe false (h :: t) hall ([], -1, 0)
  have hc1 : overlapCase h qs qe = 1 := by
    unfold overlapCase; rw [if_pos ⟨h1, h2⟩]
  have hstep : (scanStep qs qe false ([], -1, 0) h).2.1 = qs - h.so := by
    simp [scanStep, hc1]
  have e3 : ((h :: t).foldl (scanStep qs qe false) ([], -1, 0)).2.1 = qs - h.so := by
    rw [List.foldl_cons, foldl_scanStep_latched _ _ _ _ _ (by rw [hstep]; omega), hstep]
  generalize (h :: t).foldl (scanStep qs qe false) ([], -1, 0) = res at e1 e2 e3
  obtain ⟨r1, r2, r3⟩ := res
  simp only at e1 e2 e3
  simp only [List.nil_append, Int.zero_add] at e1 e2
  rw [e1, e2, e3]

/-- `scanWindow` in general: ids and total length -/
theorem scanWindow_ids (w : List Seg) (qs qe : Int) (isSplit : Bool) (ns nt : Int) :
    (scanWindow w qs qe isSplit ns nt).1 = (w.filter (fun sg => overlapCase sg qs qe ≠ 0)).map (·.id) := by
  rw [scanWindow_eq, foldl_scanStep_filter]
  have hall : ∀ sg ∈ w.filter (fun sg => overlapCase sg qs qe ≠ 0), overlapCase sg qs qe ≠ 0 := by
    intro sg hsg
    simpa using (List.mem_filter.1 hsg).2
  have := (foldl_scanStep_ids qs qe isSplit _ hall ([], ns, nt)).1
  simpa using this

/-! ## sums over `insertBySo` -/

theorem sum_insertBySo (f : Seg → Int) (x : Seg) (l : List Seg) :
    ((insertBySo x l).map f).sum = f x + (l.map f).sum := by
  induction l with
  | nil => simp [insertBySo]
  | cons y ys ih =>
    unfold insertBySo
    split
    · simp
    · simp only [List.map_cons, List.sum_cons, ih]; omega

theorem sum_foldl_insertBySo (f : Seg → Int) (xs : List Seg) :
    ∀ acc : List Seg, ((xs.foldl (fun acc x => insertBySo x acc) acc).map f).sum = (xs.map f).sum + (acc.map f).sum := by
  induction xs with
  | nil => intro acc; simp
  | cons x xs ih =>
    intro acc
    simp only [List.foldl_cons, ih, sum_insertBySo, List.map_cons, List.sum_cons]
    omega

/-! ## a sorted list in which every segment starts at 0 or at the end of another one is a chain from 0 -/

theorem sorted_chain_aux (l : List Seg) (hne : ∀ sg ∈ l, sg.so < sg.en) (hpw : l.Pairwise (fun a b => a.en ≤ b.so)) :
    ∀ (x : Seg), x.so < x.en → (∀ sg ∈ l, x.en ≤ sg.so) →
      (∀ sg ∈ l, ∃ b ∈ x :: l, b.en = sg.so) → ∃ b, Chain (x :: l) x.so b := by
  induction l with
  | nil => intro x hx _ _; exact ⟨x.en, Chain.single x hx⟩
  | cons y l ih =>
    intro x hx hxl hpred
    rw [List.pairwise_cons] at hpw
    have hy := hne y (by simp)
    have hxy := hxl y (by simp)
    -- the predecessor of `y` is `x`
    have hyx : x.en = y.so := by
      obtain ⟨b, hb, hbe⟩ := hpred y (by simp)
      rcases List.mem_cons.1 hb with rfl | hb
      · exact hbe
      · rcases List.mem_cons.1 hb with rfl | hb
        · omega
        · have := hpw.1 b hb
          have := hne b (by simp [hb])
          omega
    obtain ⟨b, hch⟩ := ih (fun sg h => hne sg (by simp [h])) hpw.2 y hy hpw.1 (by
      intro sg hsg
      obtain ⟨b, hb, hbe⟩ := hpred sg (by simp [hsg])
      rcases List.mem_cons.1 hb with rfl | hb
      · -- `x` cannot precede a later segment: `y` lies in between
        have := hpw.1 sg hsg
        omega
      · exact ⟨b, hb, hbe⟩)
    rw [← hyx] at hch
    exact ⟨b, Chain.cons x _ b hx hch⟩

theorem sorted_chain (l : List Seg) (hl : l ≠ []) (hne : ∀ sg ∈ l, sg.so < sg.en) (hpw : l.Pairwise (fun a b => a.en ≤ b.so))
    (hpos : ∀ sg ∈ l, 0 ≤ sg.so)
    (hpred : ∀ sg ∈ l, sg.so = 0 ∨ ∃ b ∈ l, b.en = sg.so) : ∃ b, Chain l 0 b := by
  cases l with
  | nil => exact absurd rfl hl
  | cons x l =>
    rw [List.pairwise_cons] at hpw
    have hx := hne x (by simp)
    have hx0 : x.so = 0 := by
      rcases hpred x (by simp) with h | ⟨b, hb, hbe⟩
      · exact h
      · rcases List.mem_cons.1 hb with rfl | hb
        · omega
        · have := hpw.1 b hb
          have := hne b (by simp [hb])
          omega
    have := sorted_chain_aux l (fun sg h => hne sg (by simp [h])) hpw.2 x hx hpw.1 (by
      intro sg hsg
      rcases hpred sg (by simp [hsg]) with h | h
      · have := hpw.1 sg hsg
        have := hpos x (by simp)
        omega
      · exact h)
    rw [hx0] at this
    exact this

end Gaftools.Proofs.Unstable
