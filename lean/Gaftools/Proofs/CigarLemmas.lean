import Gaftools.Spec.Align
import Gaftools.Proofs.GafLemmas
/-!
# Lemmas for C12: `cigarValid` vs `Aligns`, `parseGo` on `render`, `dictSet` facts
-/
namespace Gaftools.Proofs.Cigar
open Gaftools.Gaf Gaftools.Cigar Gaftools.Spec.Align

theorem zip_all_ne (a b : List Char) :
    (List.zip a b).all (fun p => p.1 != p.2) = true ↔
      ∀ i (h1 : i < a.length) (h2 : i < b.length), a[i] ≠ b[i] := by
  induction a generalizing b with
  | nil => simp
  | cons x a ih =>
    cases b with
    | nil => simp
    | cons y b =>
      simp only [List.zip_cons_cons, List.all_cons, Bool.and_eq_true, ih, List.length_cons]
      constructor
      · rintro ⟨hxy, h⟩ i h1 h2
        cases i with
        | zero => simpa using hxy
        | succ i => simpa using h i (by omega) (by omega)
      · intro h
        refine ⟨by simpa using h 0 (by omega) (by omega), fun i h1 h2 => ?_⟩
        have := h (i+1) (by omega) (by omega)
        simpa [List.getElem_cons_succ] using this

theorem cigarValid_nil (ref q : List Char) : cigarValid ref q [] = true ↔ ref = [] ∧ q = [] := by
  cases ref <;> cases q <;> simp [cigarValid]

theorem cigarValid_cons (ref q : List Char) (n : Nat) (c : Char) (ops : List Op) :
    cigarValid ref q ((n, c) :: ops) =
    (decide (n > 0) &&
    (if c == '=' then
       decide (n ≤ ref.length) && decide (n ≤ q.length) && (ref.take n == q.take n) && cigarValid (ref.drop n) (q.drop n) ops
     else if c == 'X' then
       decide (n ≤ ref.length) && decide (n ≤ q.length) && (List.zip (ref.take n) (q.take n)).all (fun p => p.1 != p.2) &&
       cigarValid (ref.drop n) (q.drop n) ops
     else if c == 'I' then decide (n ≤ q.length) && cigarValid ref (q.drop n) ops
     else if c == 'D' then decide (n ≤ ref.length) && cigarValid (ref.drop n) q ops
     else false)) := by
  cases ref <;> cases q <;> rfl


theorem take_ne_nil {l : List Char} {n : Nat} (hn : n > 0) (h : n ≤ l.length) : l.take n ≠ [] := by
  intro h0
  have := congrArg List.length h0
  rw [List.length_take, List.length_nil] at this
  omega

theorem aligns_of_cigarValid (ops : List Op) : ∀ ref q, cigarValid ref q ops = true → Aligns ref q ops := by
  induction ops with
  | nil =>
    intro ref q h
    obtain ⟨rfl, rfl⟩ := (cigarValid_nil ref q).1 h
    exact Aligns.nil
  | cons o ops ih =>
    obtain ⟨n, c⟩ := o
    intro ref q h
    rw [cigarValid_cons] at h
    simp only [Bool.and_eq_true, decide_eq_true_eq] at h
    obtain ⟨hn, h⟩ := h
    split at h
    · rename_i hc
      have hc : c = '=' := by simpa using hc
      subst hc
      simp only [Bool.and_eq_true, decide_eq_true_eq, beq_iff_eq] at h
      obtain ⟨⟨⟨h1, h2⟩, h3⟩, h4⟩ := h
      have hne : ref.take n ≠ [] := by
        exact take_ne_nil hn (by assumption)
      have := Aligns.eq (ref.take n) (ih _ _ h4) hne
      rw [List.length_take, Nat.min_eq_left h1] at this
      conv at this => arg 2; rw [h3]
      simpa using this
    · split at h
      · rename_i hc
        have hc : c = 'X' := by simpa using hc
        subst hc
        simp only [Bool.and_eq_true, decide_eq_true_eq] at h
        obtain ⟨⟨⟨h1, h2⟩, h3⟩, h4⟩ := h
        have hne : ref.take n ≠ [] := by
          exact take_ne_nil hn (by assumption)
        have := Aligns.mis (ref.take n) (q.take n) (ih _ _ h4) (by simp; omega) hne ((zip_all_ne _ _).1 h3)
        rw [List.length_take, Nat.min_eq_left h1] at this
        simpa using this
      · split at h
        · rename_i hc
          have hc : c = 'I' := by simpa using hc
          subst hc
          simp only [Bool.and_eq_true, decide_eq_true_eq] at h
          obtain ⟨h2, h4⟩ := h
          have hne : q.take n ≠ [] := by
            exact take_ne_nil hn (by assumption)
          have := Aligns.ins (q.take n) (ih _ _ h4) hne
          rw [List.length_take, Nat.min_eq_left h2] at this
          simpa using this
        · split at h
          · rename_i hc
            have hc : c = 'D' := by simpa using hc
            subst hc
            simp only [Bool.and_eq_true, decide_eq_true_eq] at h
            obtain ⟨h1, h4⟩ := h
            have hne : ref.take n ≠ [] := by
              exact take_ne_nil hn (by assumption)
            have := Aligns.del (ref.take n) (ih _ _ h4) hne
            rw [List.length_take, Nat.min_eq_left h1] at this
            simpa using this
          · simp at h

theorem cigarValid_of_aligns {ref q : List Char} {ops : List Op} (h : Aligns ref q ops) : cigarValid ref q ops = true := by
  induction h with
  | nil => rfl
  | eq s h hs ih =>
    have : s.length > 0 := List.length_pos_iff.2 hs
    rw [cigarValid_cons]
    simp [this, ih]
  | mis a b h hl ha hd ih =>
    have : a.length > 0 := List.length_pos_iff.2 ha
    rw [cigarValid_cons]
    have hb : 0 < b.length := by omega
    simp [hb, ih, hl, (zip_all_ne a b).2 hd]
  | ins b h hb ih =>
    have : b.length > 0 := List.length_pos_iff.2 hb
    rw [cigarValid_cons]
    simp [this, ih]
  | del a h ha ih =>
    have : a.length > 0 := List.length_pos_iff.2 ha
    rw [cigarValid_cons]
    simp [this, ih]


theorem dec_all_digit (n : Nat) : ∀ c ∈ dec n, c.isDigit = true :=
  fun _ hc => Nat.isDigit_of_mem_toDigits (by decide) (by decide) hc

theorem dec_ne_nil (n : Nat) : dec n ≠ [] := Nat.toDigits_ne_nil

theorem parseGo_step (fuel n : Nat) (c : Char) (rest : Str) (hd : c.isDigit = false) (hc : isOpChar c = true) :
    parseGo (fuel + 1) (dec n ++ c :: rest) = (parseGo fuel rest).map (fun ops => (n, c) :: ops) := by
  have ht : (dec n ++ c :: rest).takeWhile Char.isDigit = dec n := by
    rw [List.takeWhile_append_of_pos (dec_all_digit n), List.takeWhile_cons_of_neg (by simp [hd])]; simp
  have hdr : (dec n ++ c :: rest).dropWhile Char.isDigit = c :: rest := by
    rw [List.dropWhile_append_of_pos (dec_all_digit n), List.dropWhile_cons_of_neg (by simp [hd])]
  have hne : dec n ++ c :: rest ≠ [] := by simp
  generalize hs : dec n ++ c :: rest = s at *
  cases s with
  | nil => exact absurd rfl hne
  | cons x xs =>
    simp only [parseGo, ht, hdr]
    have : (dec n).isEmpty = false := by simpa using dec_ne_nil n
    simp [this, hc, Gaftools.Proofs.Gaf.toNat_dec']

theorem render_cons (o : Op) (ops : List Op) : render (o :: ops) = dec o.1 ++ o.2 :: render ops := by
  simp [render]

theorem parseGo_render (ops : List Op) (h : ∀ o ∈ ops, o.2.isDigit = false ∧ isOpChar o.2 = true) :
    ∀ fuel, (render ops).length ≤ fuel → parseGo fuel (render ops) = some ops := by
  induction ops with
  | nil => intro fuel _; simp [render, parseGo]
  | cons o ops ih =>
    intro fuel hf
    rw [render_cons] at hf ⊢
    simp only [List.length_append, List.length_cons] at hf
    obtain ⟨f, rfl⟩ : ∃ f, fuel = f + 1 := ⟨fuel - 1, by omega⟩
    have ho := h o (by simp)
    rw [parseGo_step f o.1 o.2 _ ho.1 ho.2, ih (fun o' ho' => h o' (by simp [ho'])) f (by omega)]
    rfl


theorem find_dictSet (d : List (Str × Str)) (k v : Str) : (dictSet d k v).find? (·.1 == k) = some (k, v) := by
  unfold dictSet
  split
  · rename_i h
    induction d with
    | nil => simp at h
    | cons e d ih =>
      by_cases he : e.1 = k
      · simp [he]
      · have h' : d.any (·.1 == k) = true := by simpa [he] using h
        simp [he]
        simpa using ih h'
  · rename_i h
    induction d with
    | nil => simp
    | cons e d ih =>
      have he : ¬ e.1 = k := by intro he; simp [he] at h
      have h' : ¬ d.any (·.1 == k) = true := by intro h'; simp [h'] at h
      simp [he]
      simpa using ih h'

theorem dictGet_dictSet (d : List (Str × Str)) (k v : Str) : dictGet (dictSet d k v) k = some v := by
  simp [dictGet, find_dictSet]

theorem filter_dictSet (d : List (Str × Str)) (k v : Str) :
    (dictSet d k v).filter (fun kv => kv.1 != k) = d.filter (fun kv => kv.1 != k) := by
  unfold dictSet
  split
  · rename_i h
    clear h
    induction d with
    | nil => rfl
    | cons e d ih =>
      by_cases he : e.1 = k
      · simpa [he] using ih
      · simpa [he] using ih
  · simp [List.filter_append]

theorem render_ne_M (ops : List Op) (h : ∀ o ∈ ops, o.2 = '=' ∨ o.2 = 'X' ∨ o.2 = 'I' ∨ o.2 = 'D') :
    (render ops).all (· != 'M') = true := by
  rw [List.all_eq_true]
  intro c hc
  simp only [render, List.mem_flatMap, List.mem_append, List.mem_singleton] at hc
  obtain ⟨o, ho, hc | hc⟩ := hc
  · have := dec_all_digit _ c hc
    have hne : c ≠ 'M' := by rintro rfl; exact absurd this (by decide)
    simpa using hne
  · subst hc
    rcases h o ho with h | h | h | h <;> rw [h] <;> decide

end Gaftools.Proofs.Cigar
