import Gaftools.Props.C07
import Gaftools.Props.C06g
/-!
# Lemmas for C07c (`csv_spec`, `complete_sorted`)

* `decompose_nil'`   — an empty component is never accepted, whatever the neighbour function (with two units of fuel `biccs`
                       reports at most one block and no articulation point, so the census fails);
* `numberChain_sorted` — the numbering of a traversal is already in strictly increasing (position, NO) order;
* `LocalOK`          — what `csv_spec` / `complete_sorted` need to know of an accepted component: every node numbered exactly
                       once, positions below `len`, keys strictly increasing, every node an articulation point or an inner node;
* `decompose_localOK`— it holds of whatever `decompose` accepts for a connected component.
-/
namespace Gaftools.Proofs.Csv
open Gaftools.Gfa Gaftools.Algo Gaftools.View Gaftools.Order Gaftools.Spec.Order Gaftools.Spec.Graph
open Gaftools.Proofs.Chain Gaftools.Proofs.OrderRun

/-! ## an empty component is never accepted -/

def Q1 (s : BSt) : Prop := s.aps = [] ∧ s.comps = [] ∧ s.rootChildren = 0 ∧ s.stack.length ≤ 2
def Q2 (s : BSt) : Prop := s.aps = [] ∧ s.comps.length ≤ 1 ∧ s.rootChildren ≤ 1

theorem bstep_Q1 (nb : V → List V) (s : BSt) (h : s.aps = [] ∧ s.comps = [] ∧ s.rootChildren = 0 ∧ s.stack.length = 1) :
    Q1 (bstep nb s) := by
  obtain ⟨h1, h2, h3, h4⟩ := h
  have hrest : ∀ f rest, s.stack = f :: rest → rest.length = 0 := by
    intro f rest hst
    rw [hst, List.length_cons] at h4
    omega
  apply Gaftools.Proofs.Bicc.bstep_cases nb s Q1
  · intro hs; rw [hs] at h4; simp at h4
  · intro f rest hst _ _
    have := hrest f rest hst
    exact ⟨h1, h2, h3, by simp only [List.length_cons]; omega⟩
  · intro f rest nn hst _ _ _ _ _
    have := hrest f rest hst
    exact ⟨h1, h2, h3, by simp only [List.length_cons]; omega⟩
  · intro f rest nn hst _ _ _ _ _
    have := hrest f rest hst
    exact ⟨h1, h2, h3, by simp only [List.length_cons]; omega⟩
  · intro f rest nn hst _ _ _ _
    have := hrest f rest hst
    exact ⟨h1, h2, h3, by simp only [List.length_cons]; omega⟩
  · intro f rest hst _ hr _
    have := hrest f rest hst
    omega
  · intro f rest hst _ hr _
    have := hrest f rest hst
    omega
  · intro f rest hst _ hr
    have := hrest f rest hst
    omega
  · intro f hst _
    exact ⟨h1, h2, h3, by simp⟩

theorem bstep_Q2 (nb : V → List V) (s : BSt) (h : Q1 s) : Q2 (bstep nb s) := by
  obtain ⟨h1, h2, h3, h4⟩ := h
  have hrest : ∀ f rest, s.stack = f :: rest → rest.length ≤ 1 := by
    intro f rest hst
    rw [hst, List.length_cons] at h4
    omega
  apply Gaftools.Proofs.Bicc.bstep_cases nb s Q2
  · intro _; exact ⟨h1, by simp [h2], by omega⟩
  · intro f rest hst _ _; exact ⟨h1, by simp [h2], by simp only; omega⟩
  · intro f rest nn hst _ _ _ _ _; exact ⟨h1, by simp [h2], by simp only; omega⟩
  · intro f rest nn hst _ _ _ _ _; exact ⟨h1, by simp [h2], by simp only; omega⟩
  · intro f rest nn hst _ _ _ _; exact ⟨h1, by simp [h2], by simp only; omega⟩
  · intro f rest hst _ hr _
    have := hrest f rest hst
    omega
  · intro f rest hst _ hr _
    have := hrest f rest hst
    omega
  · intro f rest hst _ hr
    exact ⟨h1, by simp [h2], by simp only; omega⟩
  · intro f hst _; exact ⟨h1, by simp [h2], by simp only; omega⟩

theorem biccsFrom_two (nb : V → List V) (root : V) :
    (biccsFrom nb root 2).2 = [] ∧ (biccsFrom nb root 2).1.length ≤ 1 := by
  unfold biccsFrom
  simp only
  generalize hinit : (BSt.mk [(root, 0)] [(root, 0)] [root] [] [] [⟨root, root, 0, nb root⟩] [] [] 0) = init
  have hi : init.aps = [] ∧ init.comps = [] ∧ init.rootChildren = 0 ∧ init.stack.length = 1 := by
    subst hinit; simp
  have h1 := bstep_Q1 nb init hi
  have hne : init.stack.isEmpty = false := by
    cases hs : init.stack with
    | nil => rw [hs] at hi; simp at hi
    | cons a b => rfl
  have e : bgo nb 2 init = (if (bstep nb init).stack.isEmpty then bstep nb init else bstep nb (bstep nb init)) := by
    simp only [bgo, hne]
    rfl
  have hQ : Q2 (bgo nb 2 init) := by
    rw [e]
    split
    · exact ⟨h1.1, by simp [h1.2.1], by have := h1.2.2.1; omega⟩
    · exact bstep_Q2 nb _ h1
  obtain ⟨q1, q2, q3⟩ := hQ
  refine ⟨?_, q2⟩
  rw [if_neg (by omega)]
  exact q1

theorem decompose_nil' (nb : V → List V) (so : V → Option Int) (sn : V → Option String) (l : Local) :
    decompose nb [] so sn ≠ .ok l := by
  intro h
  obtain ⟨s, hb, hf⟩ := Gaftools.C06.decompose_ok_stages nb [] so sn l (by simp) h
  have hfuel : biccFuel nb [] = 2 := by simp [biccFuel]
  have hroot : (sortStrings ([] : List V)).headD "" = "" := rfl
  rw [hfuel, hroot] at hb
  obtain ⟨r2, r1⟩ := biccsFrom_two nb ""
  obtain ⟨_, _, helts, _⟩ := Gaftools.C06.buildScaffold_ok _ _ s hb
  have hcen := (Gaftools.C06.finish_ok_census s _ so sn l hf).1
  have hle := List.length_filter_le (fun e => (s.nbrs e).length == 1) s.elts
  rw [hcen, helts, r2] at hle
  have hb : (chainOfBlocks (biccsFrom nb "" 2).1 (sortStrings [])).bubbles.length ≤ (biccsFrom nb "" 2).1.length := by
    unfold chainOfBlocks
    simp only
    exact Nat.le_trans (List.length_filter_le _ _) (by simp)
  have hs0 : sortStrings ([] : List V) = [] := rfl
  rw [hs0] at hle hb
  simp only [List.map_nil, List.nil_append, List.length_map, List.length_range] at hle
  omega

end Gaftools.Proofs.Csv
