import Gaftools.Spec.Conv
/-!
# Helper lemmas for C01–C03 (coordinate conversion): `slice`, `revcomp`, `baseAt`, `contigSlice`, `Option`-`mapM`
-/
namespace Gaftools.Proofs.Conv
open Gaftools.Conv Gaftools.Spec.Conv

/-! ## `List.mapM` in `Option` -/

/-- pointwise characterisation of a successful `mapM` in `Option` -/
theorem mapM_eq_some_iff {α β : Type} (f : α → Option β) (l : List α) (X : List β) :
    l.mapM f = some X ↔ X.length = l.length ∧ ∀ k (h : k < l.length), f l[k] = X[k]? := by
  induction l generalizing X with
  | nil =>
    constructor
    · intro h
      have h' : some ([] : List β) = some X := h
      injection h' with h'
      subst h'
      exact ⟨rfl, fun k hk => absurd hk (Nat.not_lt_zero k)⟩
    · rintro ⟨h, -⟩
      have hX : X = [] := List.length_eq_zero_iff.1 h
      subst hX; rfl
  | cons a l ih =>
    rw [List.mapM_cons]
    cases X with
    | nil =>
      constructor
      · intro h
        cases hfa : f a <;> simp [hfa] at h
        cases hl : List.mapM f l <;> simp [hl] at h
      · intro h; simp at h
    | cons b X =>
      constructor
      · intro h
        cases hfa : f a <;> simp [hfa] at h
        cases hl : List.mapM f l <;> simp [hl] at h
        obtain ⟨h1, h2⟩ := h
        subst h1; subst h2
        obtain ⟨hlen, hpt⟩ := (ih _).1 hl
        refine ⟨by simp [hlen], ?_⟩
        intro k hk
        cases k with
        | zero => simpa using hfa
        | succ k => simpa using hpt k (by simpa using hk)
      · rintro ⟨hlen, hpt⟩
        have h0 := hpt 0 (by simp)
        simp only [List.getElem_cons_zero, List.getElem?_cons_zero] at h0
        have hl : List.mapM f l = some X := by
          apply (ih X).2
          refine ⟨by simpa using hlen, ?_⟩
          intro k hk
          have := hpt (k + 1) (by simpa using hk)
          simpa only [List.getElem_cons_succ, List.getElem?_cons_succ] using this
        simp [h0, hl]

/-- `mapM` over an initial segment of the naturals -/
theorem mapM_range_eq_some_iff {β : Type} (f : Nat → Option β) (n : Nat) (X : List β) :
    (List.range n).mapM f = some X ↔ X.length = n ∧ ∀ k, k < n → f k = X[k]? := by
  rw [mapM_eq_some_iff]
  simp only [List.length_range, List.getElem_range]

/-! ## `revcomp` and `slice` -/

variable (comp : Char → Char)

theorem revcomp_append (x y : List Char) : revcomp comp (x ++ y) = revcomp comp y ++ revcomp comp x := by
  simp [revcomp]

@[simp] theorem revcomp_length (x : List Char) : (revcomp comp x).length = x.length := by
  simp [revcomp]

@[simp] theorem revcomp_nil : revcomp comp [] = [] := rfl

theorem slice_length (x : List Char) (a b : Int) (ha : 0 ≤ a) (hab : a ≤ b) (hb : b ≤ x.length) :
    (slice x a b).length = (b - a).toNat := by
  simp only [slice, List.length_take, List.length_drop]
  omega

theorem slice_getElem? (x : List Char) (a b : Int) (k : Nat) :
    (slice x a b)[k]? = if k < (b - a).toNat then x[a.toNat + k]? else none := by
  simp only [slice, List.getElem?_take, List.getElem?_drop]

/-- the whole list is its own slice -/
theorem slice_all (x : List Char) (n : Int) (hn : n = x.length) : slice x 0 n = x := by
  subst hn
  simp [slice]

/-- slicing a reverse complement = reverse complement of the mirrored slice -/
theorem slice_revcomp (x : List Char) (a b : Int) (ha : 0 ≤ a) (hab : a ≤ b) (hb : b ≤ x.length) :
    slice (revcomp comp x) a b = revcomp comp (slice x (x.length - b) (x.length - a)) := by
  unfold slice revcomp
  apply List.ext_getElem
  · simp only [List.length_take, List.length_drop, List.length_reverse, List.length_map]
    omega
  · intro i h1 h2
    simp only [List.length_take, List.length_drop, List.length_reverse, List.length_map] at h1 h2
    simp only [List.getElem_take, List.getElem_drop, List.getElem_reverse, List.getElem_map, List.length_map,
      List.length_take, List.length_drop]
    congr 1
    congr 1
    omega

theorem slice_append_left (x y : List Char) (a b : Int) (ha : 0 ≤ a) (hb : b ≤ x.length) :
    slice (x ++ y) a b = slice x a b := by
  apply List.ext_getElem?
  intro i
  simp only [slice_getElem?]
  split
  · rw [List.getElem?_append_left (by omega)]
  · rfl

/-! ## `baseAt` and `contigSlice` -/

/-- in a valid rGFA the base at a position covered by segment `s` is read from `s` -/
theorem baseAt_of_mem (segs : List RSeg) (hv : ValidRGFA segs) (s : RSeg) (hs : s ∈ segs) (k : Nat)
    (hk : k < s.seq.length) : baseAt segs s.sn (s.so + (k : Int)) = s.seq[k]? := by
  unfold baseAt
  have hcov : (fun t : RSeg => t.sn == s.sn && decide (t.so ≤ s.so + (k : Int)) && decide (s.so + (k : Int) < t.en)) s
      = true := by
    simp only [RSeg.en, beq_self_eq_true, Bool.true_and, Bool.and_eq_true, decide_eq_true_eq]
    exact ⟨by omega, decide_eq_true (by omega)⟩
  cases hf : segs.find? (fun t : RSeg => t.sn == s.sn && decide (t.so ≤ s.so + (k : Int)) && decide (s.so + (k : Int) < t.en)) with
  | none =>
    have := List.find?_eq_none.1 hf s hs
    exact absurd hcov this
  | some t =>
    have ht := List.mem_of_find?_eq_some hf
    have hp := List.find?_some hf
    simp only [Bool.and_eq_true, beq_iff_eq, decide_eq_true_eq] at hp
    obtain ⟨⟨hsn, h1⟩, h2⟩ := hp
    have hts : t = s := by
      by_cases hne : t = s
      · exact hne
      · have := hv.disjoint t ht s hs hsn hne
        simp only [RSeg.en] at this h2
        omega
    subst hts
    simp only
    congr 1
    omega

theorem contigSlice_eq_some_iff (segs : List RSeg) (c : String) (a d : Int) (X : List Char) :
    contigSlice segs c a d = some X ↔
      X.length = (d - a).toNat ∧ ∀ k : Nat, k < (d - a).toNat → baseAt segs c (a + (k : Int)) = X[k]? := by
  unfold contigSlice
  exact mapM_range_eq_some_iff _ _ _

theorem contigSlice_length (segs : List RSeg) (c : String) (a d : Int) (X : List Char)
    (h : contigSlice segs c a d = some X) : X.length = (d - a).toNat :=
  ((contigSlice_eq_some_iff segs c a d X).1 h).1

/-- an empty interval spells the empty sequence -/
theorem contigSlice_empty (segs : List RSeg) (c : String) (a d : Int) (h : d ≤ a) :
    contigSlice segs c a d = some [] := by
  rw [contigSlice_eq_some_iff]
  constructor
  · simp; omega
  · intro k hk; omega

/-- the bases of a node's own interval are the node's sequence -/
theorem contigSlice_node (segs : List RSeg) (hv : ValidRGFA segs) (s : RSeg) (hs : s ∈ segs) :
    contigSlice segs s.sn s.so s.en = some s.seq := by
  rw [contigSlice_eq_some_iff]
  have hlen : (s.en - s.so).toNat = s.seq.length := by simp only [RSeg.en]; omega
  rw [hlen]
  exact ⟨rfl, fun k hk => baseAt_of_mem segs hv s hs k hk⟩

/-- slices of a stable sequence concatenate -/
theorem contigSlice_append (segs : List RSeg) (c : String) (a b d : Int) (hab : a ≤ b) (hbd : b ≤ d) (x y : List Char)
    (hx : contigSlice segs c a b = some x) (hy : contigSlice segs c b d = some y) :
    contigSlice segs c a d = some (x ++ y) := by
  rw [contigSlice_eq_some_iff] at hx hy ⊢
  obtain ⟨hxl, hxp⟩ := hx
  obtain ⟨hyl, hyp⟩ := hy
  constructor
  · simp only [List.length_append, hxl, hyl]; omega
  · intro k hk
    by_cases hkx : k < (b - a).toNat
    · rw [hxp k hkx, List.getElem?_append_left (by omega)]
    · rw [List.getElem?_append_right (by omega)]
      have := hyp (k - x.length) (by omega)
      rw [← this]
      congr 1
      omega

/-- a sub-interval of a spelled interval is the corresponding slice -/
theorem contigSlice_sub (segs : List RSeg) (c : String) (a d a' d' : Int) (X : List Char)
    (h : contigSlice segs c a d = some X) (h1 : a ≤ a') (h2 : a' ≤ d') (h3 : d' ≤ d) :
    contigSlice segs c a' d' = some (slice X (a' - a) (d' - a)) := by
  rw [contigSlice_eq_some_iff] at h ⊢
  obtain ⟨hl, hp⟩ := h
  constructor
  · rw [slice_length X _ _ (by omega) (by omega) (by omega)]
    congr 1
    omega
  · intro k hk
    rw [slice_getElem?, if_pos (by omega)]
    have := hp ((a' - a).toNat + k) (by omega)
    rw [← this]
    congr 1
    omega

end Gaftools.Proofs.Conv
