import Gaftools.Model.Cli
import Gaftools.Proofs.TextLayerLemmas
/-! helper lemmas for `Props/Cli.lean`: the scan of a sub-parser on a command line made of well-read items; values; `int()` on
    rendered integers; the folds that build the namespaces -/
namespace Gaftools.Proofs.Cli
open Gaftools.Cli Gaftools.TextLayer Gaftools.Proofs.TextLayer

deriving instance DecidableEq for Except

/-! ## values -/

/-- `v` is read as a value (a positional, or the string after an option that takes one) by the sub-parser with table `tbl`, and
    the classification pass of the top-level parser does not stop at it -/
def IsValue (tbl : Table) (v : String) : Prop := classify tbl v = .arg ∧ isAmbiguous topTable v = false

instance (tbl : Table) (v : String) : Decidable (IsValue tbl v) := by unfold IsValue; infer_instance

theorem classify_of_nodash (tbl : Table) (v : String) (h : v.toList.head? ≠ some '-') : classify tbl v = .arg := by
  unfold classify
  cases hv : v.toList with
  | nil => rfl
  | cons c t =>
    simp [hv] at h
    simp [h]

/-- a string that does not start with '-' is a value for every parser -/
theorem isValue_of_nodash (tbl : Table) (v : String) (h : v.toList.head? ≠ some '-') : IsValue tbl v := by
  refine ⟨classify_of_nodash tbl v h, ?_⟩
  simp [isAmbiguous, classify_of_nodash topTable v h]

theorem not_ambiguous_of_arg {tbl : Table} {s : String} (h : classify tbl s = .arg) : isAmbiguous tbl s = false := by
  simp [isAmbiguous, h]

theorem not_ambiguous_of_opt {tbl : Table} {s : String} {d n e} (h : classify tbl s = .opt d n e) : isAmbiguous tbl s = false := by
  simp [isAmbiguous, h]

/-! ## items -/

/-- a piece of a command line together with what the sub-parser is expected to make of it -/
inductive Item where
  | pos (v : String)                                      -- a positional
  | sep (d : OptDecl) (name v : String) (ev : Event)      -- `name VALUE`: two argument strings
  | one (d : OptDecl) (tok name v : String) (ev : Event)  -- one argument string read as option `name` with the explicit value `v`
  | flag (d : OptDecl) (name : String) (ev : Event)       -- an option without value

def Item.toks : Item → List String
  | .pos v => [v]
  | .sep _ n v _ => [n, v]
  | .one _ t _ _ _ => [t]
  | .flag _ n _ => [n]

def Item.posv : Item → List String
  | .pos v => [v]
  | _ => []

def Item.ev : Item → List Event
  | .pos _ => []
  | .sep _ _ _ e => [e]
  | .one _ _ _ _ e => [e]
  | .flag _ _ e => [e]

/-- the parser with table `tbl` reads the item as intended -/
def Good (tbl : Table) : Item → Prop
  | .pos v => IsValue tbl v
  | .sep d n v e => classify tbl n = .opt d n none ∧ isAmbiguous topTable n = false ∧ d.act.arity = 1 ∧ IsValue tbl v ∧ take d (some v) = .ok e
  | .one d t n v e => classify tbl t = .opt d n (some v) ∧ isAmbiguous topTable t = false ∧ d.act.arity = 1 ∧ take d (some v) = .ok e
  | .flag d n e => classify tbl n = .opt d n none ∧ isAmbiguous topTable n = false ∧ d.act.arity = 0 ∧ take d none = .ok e

theorem good_toks_sub {tbl : Table} {it : Item} (h : Good tbl it) : ∀ s ∈ it.toks, isAmbiguous tbl s = false := by
  cases it with
  | pos v => intro s hs; simp [Item.toks] at hs; subst hs; exact not_ambiguous_of_arg h.1
  | sep d n v e =>
    intro s hs; simp [Item.toks] at hs
    rcases hs with rfl | rfl
    · exact not_ambiguous_of_opt h.1
    · exact not_ambiguous_of_arg h.2.2.2.1.1
  | one d t n v e => intro s hs; simp [Item.toks] at hs; subst hs; exact not_ambiguous_of_opt h.1
  | flag d n e => intro s hs; simp [Item.toks] at hs; subst hs; exact not_ambiguous_of_opt h.1

theorem good_toks_top {tbl : Table} {it : Item} (h : Good tbl it) : ∀ s ∈ it.toks, isAmbiguous topTable s = false := by
  cases it with
  | pos v => intro s hs; simp [Item.toks] at hs; subst hs; exact h.2
  | sep d n v e =>
    intro s hs; simp [Item.toks] at hs
    rcases hs with rfl | rfl
    · exact h.2.1
    · exact h.2.2.2.1.2
  | one d t n v e => intro s hs; simp [Item.toks] at hs; subst hs; exact h.2.1
  | flag d n e => intro s hs; simp [Item.toks] at hs; subst hs; exact h.2.1

theorem any_items_false {tbl : Table} (p : String → Bool) (items : List Item)
    (h : ∀ it ∈ items, ∀ s ∈ it.toks, p s = false) : (items.flatMap Item.toks).any p = false := by
  simp only [List.any_eq_false, List.mem_flatMap]
  rintro s ⟨it, hit, hs⟩
  simp [h it hit s hs]

/-! ## the scan on items -/

theorem withExplicit_value (tbl : Table) (d : OptDecl) (name e : List Char) (pend : Pending) (h : d.act.arity = 1) :
    withExplicit tbl d name e pend = .ok (pend ++ [(d, some (String.ofList e))], none) := by
  unfold withExplicit
  simp [h]

theorem noExplicit_value (d : OptDecl) (pend : Pending) (h : d.act.arity = 1) : noExplicit d pend = (pend, some d) := by
  simp [noExplicit, h]

theorem noExplicit_flag (d : OptDecl) (pend : Pending) (h : d.act.arity = 0) : noExplicit d pend = (pend ++ [(d, none)], none) := by
  simp [noExplicit, h]

/-- the state after the items: positionals filled in order, stored values appended in order -/
def stAfter (st : St) (items : List Item) : St :=
  { posLeft := st.posLeft.drop (items.flatMap Item.posv).length, pos := st.pos ++ items.flatMap Item.posv,
    evs := st.evs ++ items.flatMap Item.ev, extras := st.extras }

theorem scan_items (tbl : Table) (items : List Item) (hg : ∀ it ∈ items, Good tbl it) (rest : List String) (st : St)
    (hn : (items.flatMap Item.posv).length ≤ st.posLeft.length) :
    scan tbl (items.flatMap Item.toks ++ rest) .normal st = scan tbl rest .normal (stAfter st items) := by
  induction items generalizing st with
  | nil => simp [stAfter]
  | cons it items ih =>
    have hgi := hg it (List.mem_cons_self ..)
    have hgr : ∀ it' ∈ items, Good tbl it' := fun it' h' => hg it' (List.mem_cons_of_mem _ h')
    cases it with
    | pos v =>
      obtain ⟨hc, -⟩ := hgi
      cases hpl : st.posLeft with
      | nil => simp [Item.posv, hpl] at hn
      | cons p ps =>
        simp only [List.flatMap_cons, Item.toks, List.cons_append, List.nil_append]
        rw [scan, hc]
        simp only [hpl]
        rw [ih hgr]
        · simp [stAfter, Item.posv, Item.ev, hpl, List.append_assoc]
        · simp [Item.posv, hpl] at hn ⊢; omega
    | sep d n v e =>
      obtain ⟨hc, -, ha, ⟨hv, -⟩, ht⟩ := hgi
      simp only [List.flatMap_cons, Item.toks, List.cons_append, List.nil_append]
      rw [scan, hc]
      simp only [analyse, noExplicit_value d [] ha]
      rw [scan, hv]
      simp only [List.nil_append, takeAll, ht]
      rw [ih hgr]
      · simp [stAfter, Item.posv, Item.ev, List.append_assoc]
      · simpa [Item.posv] using hn
    | one d t n v e =>
      obtain ⟨hc, -, ha, ht⟩ := hgi
      simp only [List.flatMap_cons, Item.toks, List.cons_append, List.nil_append]
      rw [scan, hc]
      simp only [analyse, withExplicit_value tbl d _ _ [] ha, List.nil_append, takeAll, String.ofList_toList, ht]
      rw [ih hgr]
      · simp [stAfter, Item.posv, Item.ev, List.append_assoc]
      · simpa [Item.posv] using hn
    | flag d n e =>
      obtain ⟨hc, -, ha, ht⟩ := hgi
      simp only [List.flatMap_cons, Item.toks, List.cons_append, List.nil_append]
      rw [scan, hc]
      simp only [analyse, noExplicit_flag d [] ha, List.nil_append, takeAll, ht]
      rw [ih hgr]
      · simp [stAfter, Item.posv, Item.ev, List.append_assoc]
      · simpa [Item.posv] using hn

theorem sub_name_arg (sub : Sub) : classify topTable sub.name = .arg := by cases sub <;> decide

theorem sub_ofName (sub : Sub) : Sub.ofName? sub.name = some sub := by cases sub <;> decide

theorem sub_name_not_ambiguous (sub : Sub) : isAmbiguous topTable sub.name = false :=
  not_ambiguous_of_arg (sub_name_arg sub)

/-- a command line made of the sub-command name and well-read items that fill every positional: what the parsers establish -/
theorem parseTrace_items (sub : Sub) (items : List Item) (hg : ∀ it ∈ items, Good (table sub) it)
    (hn : (items.flatMap Item.posv).length = (positionals sub).length) :
    parseTrace (sub.name :: items.flatMap Item.toks)
      = .ok ⟨false, sub, ⟨[], items.flatMap Item.posv, items.flatMap Item.ev, false⟩⟩ := by
  have htop : (sub.name :: items.flatMap Item.toks).any (isAmbiguous topTable) = false := by
    rw [List.any_cons, sub_name_not_ambiguous, Bool.false_or]
    exact any_items_false (tbl := table sub) _ items (fun it hit => good_toks_top (hg it hit))
  have hsub : (items.flatMap Item.toks).any (isAmbiguous (table sub)) = false :=
    any_items_false (tbl := table sub) _ items (fun it hit => good_toks_sub (hg it hit))
  have hscan := scan_items (table sub) items hg [] ⟨positionals sub, [], [], false⟩ (by simp [hn])
  rw [List.append_nil] at hscan
  unfold parseTrace
  rw [htop]
  simp only [Bool.false_eq_true, if_false]
  rw [scanTop, sub_name_arg, parseSub, sub_ofName]
  simp only [scanSub, hsub, Bool.false_eq_true, if_false, hscan, scan, stAfter, hn, List.drop_length, List.nil_append,
    List.isEmpty_nil, if_true, Bool.or_self]

/-- … followed by anything (`rest`) in which neither parser sees an ambiguous abbreviation: the sub-parser goes on scanning
    `rest` from the state after the items; then the required-arguments test, then the extras -/
theorem parseTrace_items_rest (sub : Sub) (items : List Item) (hg : ∀ it ∈ items, Good (table sub) it) (rest : List String)
    (hn : (items.flatMap Item.posv).length ≤ (positionals sub).length)
    (hr₁ : ∀ s ∈ rest, isAmbiguous topTable s = false) (hr₂ : ∀ s ∈ rest, isAmbiguous (table sub) s = false) :
    parseTrace (sub.name :: (items.flatMap Item.toks ++ rest))
      = (match scan (table sub) rest .normal (stAfter ⟨positionals sub, [], [], false⟩ items) with
         | .error e => .error e
         | .ok st => if st.posLeft.isEmpty then (if st.extras then .error (.usage .unrecognized) else .ok ⟨false, sub, st⟩)
                     else .error (.usage .required)) := by
  have htop : (sub.name :: (items.flatMap Item.toks ++ rest)).any (isAmbiguous topTable) = false := by
    rw [List.any_cons, sub_name_not_ambiguous, Bool.false_or, List.any_append,
      any_items_false (tbl := table sub) _ items (fun it hit => good_toks_top (hg it hit)), Bool.false_or, List.any_eq_false]
    intro s hs; simp [hr₁ s hs]
  have hsub : (items.flatMap Item.toks ++ rest).any (isAmbiguous (table sub)) = false := by
    rw [List.any_append, any_items_false (tbl := table sub) _ items (fun it hit => good_toks_sub (hg it hit)), Bool.false_or,
      List.any_eq_false]
    intro s hs; simp [hr₂ s hs]
  have hscan := scan_items (table sub) items hg rest ⟨positionals sub, [], [], false⟩ (by simpa using hn)
  unfold parseTrace
  rw [htop]
  simp only [Bool.false_eq_true, if_false]
  rw [scanTop, sub_name_arg, parseSub, sub_ofName]
  simp only [scanSub, hsub, Bool.false_eq_true, if_false, hscan]
  cases scan (table sub) rest Mode.normal (stAfter ⟨positionals sub, [], [], false⟩ items) with
  | error e => rfl
  | ok st => cases h : st.posLeft.isEmpty <;> cases h2 : st.extras <;> simp [h, h2]

/-! ## arguments that look like negative numbers; rendered integers -/

/-- every option string is '-' followed by a character that is no digit -/
def noDigitNames (tbl : Table) : Bool :=
  tbl.all (fun d => d.names.all (fun n => match n.toList with | '-' :: c :: _ => !c.isDigit | _ => false))

theorem name_shape {tbl : Table} (h : noDigitNames tbl = true) {d : OptDecl} (hd : d ∈ tbl) {n : String} (hn : n ∈ d.names) :
    ∃ c r, n.toList = '-' :: c :: r ∧ c.isDigit = false := by
  simp only [noDigitNames, List.all_eq_true] at h
  have := h d hd n hn
  split at this
  · rename_i c r heq; exact ⟨c, r, heq, by simpa using this⟩
  · cases this

theorem splitEq_no_eq (cs : List Char) (h : '=' ∉ cs) : splitEq cs = (cs, none) := by
  induction cs with
  | nil => rfl
  | cons c cs ih =>
    have hc : (c == '=') = false := by simp; intro e; exact h (e ▸ List.mem_cons_self ..)
    have := ih (fun hm => h (List.mem_cons_of_mem _ hm))
    simp [splitEq, hc, this]

theorem classify_negnum (tbl : Table) (h : noDigitNames tbl = true) (s : String) (ds : List Char) (hs : s.toList = '-' :: ds)
    (hne : ds ≠ []) (hd : ∀ c ∈ ds, c.isDigit = true) : classify tbl s = .arg := by
  obtain ⟨d0, ds', rfl⟩ := List.exists_cons_of_ne_nil hne
  have hd0 : d0.isDigit = true := hd d0 (List.mem_cons_self ..)
  have hfind : findOpt tbl s = none := by
    unfold findOpt
    rw [List.find?_eq_none]
    intro d hdm
    simp only [List.contains_eq_mem, decide_eq_true_eq]
    intro hmem
    obtain ⟨c, r, hc, hcd⟩ := name_shape h hdm hmem
    rw [hs] at hc
    injection hc with _ hc; injection hc with hc _
    rw [hc] at hd0; rw [hd0] at hcd; cases hcd
  have hnoeq : '=' ∉ ('-' :: d0 :: ds') := by
    intro hm
    rcases List.mem_cons.mp hm with e | hm
    · cases e
    · exact digit_ne (hd _ hm) (by decide) rfl
  have hd0dash : (d0 == '-') = false := by
    simp; intro e; rw [e] at hd0; revert hd0; decide
  have hshorts : shorts tbl ('-' :: d0 :: ds') = [] := by
    unfold shorts
    rw [List.filterMap_eq_nil_iff]
    rintro ⟨d, n⟩ hm
    simp only [optNames, List.mem_flatMap, List.mem_map] at hm
    obtain ⟨d', hd', n', hn', heq⟩ := hm
    cases heq
    obtain ⟨c, r, hc, hcd⟩ := name_shape h hd' hn'
    have hne' : d0 ≠ c := fun e => by rw [e] at hd0; rw [hd0] at hcd; cases hcd
    simp [hc, hne', Ne.symm hne', List.isPrefixOf]
  unfold classify
  simp only [hs, hfind]
  have hneg : negNumLike ('-' :: d0 :: ds') = true := by
    have : isDigits1 (d0 :: ds') = true := by
      simp only [isDigits1, List.isEmpty_cons, Bool.not_false, Bool.true_and, List.all_eq_true]; exact hd
    simp [negNumLike, negBody, this]
  simp [splitEq_no_eq _ hnoeq, hd0dash, hshorts, hneg]

theorem noDigitNames_table (sub : Sub) : noDigitNames (table sub) = true := by cases sub <;> decide

theorem noDigitNames_top : noDigitNames topTable = true := by decide

/-- `-` followed by one or more ASCII digits is a value for every sub-parser (`_negative_number_matcher`) -/
theorem isValue_negnum (sub : Sub) (s : String) (ds : List Char) (hs : s.toList = '-' :: ds) (hne : ds ≠ [])
    (hd : ∀ c ∈ ds, c.isDigit = true) : IsValue (table sub) s :=
  ⟨classify_negnum _ (noDigitNames_table sub) s ds hs hne hd,
   not_ambiguous_of_arg (classify_negnum _ noDigitNames_top s ds hs hne hd)⟩

theorem int_toList_neg (n : Nat) : (toString (Int.negSucc n)).toList = '-' :: Nat.toDigits 10 (n + 1) := by
  simp [toString, Int.repr, Nat.toList_repr]

theorem int_toList_nonneg (n : Nat) : (toString (Int.ofNat n)).toList = Nat.toDigits 10 n := by
  simp [toString, Int.repr, Nat.toList_repr]

/-- `str(i)` of any integer is read as a value -/
theorem isValue_int (sub : Sub) (i : Int) : IsValue (table sub) (toString i) := by
  cases i with
  | ofNat n =>
    apply isValue_of_nodash
    rw [int_toList_nonneg]
    cases hx : Nat.toDigits 10 n with
    | nil => simp
    | cons c r =>
      have hc : c.isDigit = true := digits_all n c (by rw [hx]; exact List.mem_cons_self ..)
      simp only [List.head?_cons, ne_eq, Option.some.injEq]
      exact digit_ne hc (by decide)
  | negSucc n => exact isValue_negnum sub _ _ (int_toList_neg n) Nat.toDigits_ne_nil (digits_all _)

/-- `int(str(i)) == i` for an integer of at most 4300 digits -/
theorem pyInt_toString (i : Int) (h : (Nat.toDigits 10 i.natAbs).length ≤ maxStrDigits) : pyInt (toString i).toList = some i := by
  cases i with
  | ofNat n => rw [int_toList_nonneg]; exact pyInt_dec n h
  | negSucc n =>
    rw [int_toList_neg]
    have hall := digits_all (n + 1)
    have hp := pyNat_dec (n + 1) h
    unfold pyInt
    have hstrip : stripWith intSpace ('-' :: Nat.toDigits 10 (n + 1)) = '-' :: Nat.toDigits 10 (n + 1) := by
      apply stripWith_id
      intro c hc
      rcases List.mem_cons.mp hc with rfl | hc
      · decide
      · exact intSpace_digit (hall c hc)
    rw [hstrip]
    simp only [hp, Option.map_some]
    rfl

/-! ## the other spellings (`name=VALUE`, `-xVALUE`); ambiguity at the top level -/

def noCharInNames (tbl : Table) (c : Char) : Bool := tbl.all (fun d => d.names.all (fun n => !n.toList.contains c))

theorem findOpt_none_of_char (tbl : Table) (s : String) (c : Char) (hc : c ∈ s.toList) (hn : noCharInNames tbl c = true) :
    findOpt tbl s = none := by
  unfold findOpt
  rw [List.find?_eq_none]
  intro d hd
  simp only [List.contains_eq_mem, decide_eq_true_eq]
  intro hmem
  simp only [noCharInNames, List.all_eq_true] at hn
  have := hn d hd s hmem
  simp at this
  exact this hc

theorem splitEq_append (a b : List Char) (h : '=' ∉ a) : splitEq (a ++ '=' :: b) = (a, some b) := by
  induction a with
  | nil => simp [splitEq]
  | cons c a ih =>
    have hc : (c == '=') = false := by simp; intro e; exact h (e ▸ List.mem_cons_self ..)
    have := ih (fun hm => h (List.mem_cons_of_mem _ hm))
    simp [splitEq, hc, this]

/-- `name=v` for an option string `name` of the parser: the option with the explicit argument `v` (whatever `v` is) -/
theorem classify_eq (tbl : Table) (d : OptDecl) (name v : String) (hf : findOpt tbl name = some d)
    (hname : ∃ c r, name.toList = '-' :: c :: r) (hne : '=' ∉ name.toList) (hn : noCharInNames tbl '=' = true) :
    classify tbl (name ++ "=" ++ v) = .opt d name (some v) := by
  obtain ⟨c, r, hcr⟩ := hname
  have hs : (name ++ "=" ++ v).toList = '-' :: c :: (r ++ '=' :: v.toList) := by simp [hcr]
  have hs' : '-' :: c :: (r ++ '=' :: v.toList) = name.toList ++ '=' :: v.toList := by simp [hcr]
  have hfind : findOpt tbl (name ++ "=" ++ v) = none := findOpt_none_of_char _ _ '=' (by simp) hn
  unfold classify
  simp only [hs, hfind]
  rw [hs', splitEq_append _ _ hne]
  simp [hf]



/-- every option string is `-c` (one character, not '-') or starts with `--` -/
def namesShape (tbl : Table) : Bool :=
  tbl.all (fun d => d.names.all (fun n => match n.toList with
    | ['-', c] => c != '-'
    | '-' :: '-' :: _ => true
    | _ => false))

theorem name_short_or_long {tbl : Table} (h : namesShape tbl = true) {d : OptDecl} (hd : d ∈ tbl) {n : String} (hn : n ∈ d.names) :
    (∃ c, n.toList = ['-', c] ∧ c ≠ '-') ∨ ∃ r, n.toList = '-' :: '-' :: r := by
  simp only [namesShape, List.all_eq_true] at h
  have := h d hd n hn
  split at this
  next c heq => exact Or.inl ⟨c, heq, by simpa using this⟩
  next r _ heq => exact Or.inr ⟨r, heq⟩
  next => cases this

theorem findOpt_none_attached (tbl : Table) (h : namesShape tbl = true) (s : String) (x c : Char) (r : List Char)
    (hs : s.toList = '-' :: x :: c :: r) (hx : x ≠ '-') : findOpt tbl s = none := by
  unfold findOpt
  rw [List.find?_eq_none]
  intro d hd
  simp only [List.contains_eq_mem, decide_eq_true_eq]
  intro hmem
  rcases name_short_or_long h hd hmem with ⟨c', hc', -⟩ | ⟨r', hr'⟩
  · rw [hs] at hc'; simp at hc'
  · rw [hs] at hr'; simp at hr'; exact hx hr'.1

theorem filterMap_congr' {α β : Type} (f g : α → Option β) (l : List α) (h : ∀ a ∈ l, f a = g a) :
    l.filterMap f = l.filterMap g := by
  induction l with
  | nil => rfl
  | cons a l ih =>
    rw [List.filterMap_cons, List.filterMap_cons, h a (List.mem_cons_self ..), ih (fun b hb => h b (List.mem_cons_of_mem _ hb))]

theorem filterMap_ite_map {α β : Type} (p : α → Bool) (f : α → β) (l : List α) :
    l.filterMap (fun a => if p a then some (f a) else none) = (l.filter p).map f := by
  induction l with
  | nil => rfl
  | cons a l ih => by_cases h : p a = true <;> simp [h, ih]

/-- `-xREST` (REST not empty, not starting with '='), `-x` an option string of exactly one declaration: that option with the
    explicit argument REST -/
theorem classify_attached (tbl : Table) (h : namesShape tbl = true) (d : OptDecl) (x : Char) (v : String) (c : Char) (r : List Char)
    (hv : v.toList = c :: r) (hc : c ≠ '=') (hx : x ≠ '-') (hxe : x ≠ '=')
    (hu : (optNames tbl).filter (fun p => p.2.toList == ['-', x]) = [(d, String.ofList ['-', x])]) :
    classify tbl (String.ofList ['-', x] ++ v) = .opt d (String.ofList ['-', x]) (some v) := by
  have hs : (String.ofList ['-', x] ++ v).toList = '-' :: x :: c :: r := by simp [hv]
  have hfind := findOpt_none_attached tbl h _ x c r hs hx
  have hxe' : (x == '=') = false := by simpa using hxe
  have hce' : (c == '=') = false := by simpa using hc
  have hpre : ∃ r', (splitEq ('-' :: x :: c :: r)).1 = '-' :: x :: c :: r' := by
    refine ⟨(splitEq r).1, ?_⟩
    simp [splitEq, hxe', hce']
  obtain ⟨r', hr'⟩ := hpre
  have hfind2 : findOpt tbl (String.ofList (splitEq ('-' :: x :: c :: r)).1) = none :=
    findOpt_none_attached tbl h _ x c r' (by simp [hr']) hx
  have hshorts : shorts tbl ('-' :: x :: c :: r) = [(d, String.ofList ['-', x], some v)] := by
    have hcongr : shorts tbl ('-' :: x :: c :: r)
        = (optNames tbl).filterMap (fun p => if p.2.toList == ['-', x] then some (p.1, p.2, some v) else none) := by
      unfold shorts
      apply filterMap_congr'
      rintro ⟨d', n⟩ hm
      simp only [optNames, List.mem_flatMap, List.mem_map] at hm
      obtain ⟨d'', hd'', n', hn', heq⟩ := hm
      cases heq
      have hvv : String.ofList (c :: r) = v := by rw [← hv]; simp
      rcases name_short_or_long h hd'' hn' with ⟨c', hc', -⟩ | ⟨r'', hr''⟩
      · by_cases hcx : c' = x
        · subst hcx; simp [hc', hvv]
        · have : ¬ x = c' := fun e => hcx e.symm
          simp [hc', hcx, this, List.isPrefixOf]
      · have : ¬ x = '-' := hx
        simp [hr'', hx, this, List.isPrefixOf, Ne.symm hx]
    rw [hcongr, filterMap_ite_map (α := OptDecl × String) (fun p => p.2.toList == ['-', x]) (fun p => (p.1, p.2, some v)), hu]
    rfl
  have hxd : (x == '-') = false := by simpa using hx
  unfold classify
  simp only [hs, hfind]
  cases hpost : (splitEq ('-' :: x :: c :: r)).2 with
  | none => simp [hxd, hshorts, hpost]
  | some post => simp [hxd, hshorts, hpost, hfind2]


theorem abbrevs_eq (tbl : Table) (pre : List Char) (post : Option (List Char)) :
    abbrevs tbl pre post = ((optNames tbl).filter (fun p => pre.isPrefixOf p.2.toList)).map (fun p => (p.1, p.2, post.map String.ofList)) := by
  unfold abbrevs
  rw [← filterMap_ite_map]

theorem top_optNames : optNames topTable = [(helpOpt, "-h"), (helpOpt, "--help"), (⟨["--version"], .version⟩, "--version"),
    (⟨["--debug"], .storeTrue "debug"⟩, "--debug")] := by decide

theorem top_abbrevs_len (c2 : Char) (p : List Char) (post : Option (List Char)) :
    (abbrevs topTable ('-' :: '-' :: c2 :: p) post).length ≤ 1 := by
  have e1 : "-h".toList = ['-', 'h'] := by decide
  have e2 : "--help".toList = ['-', '-', 'h', 'e', 'l', 'p'] := by decide
  have e3 : "--version".toList = ['-', '-', 'v', 'e', 'r', 's', 'i', 'o', 'n'] := by decide
  have e4 : "--debug".toList = ['-', '-', 'd', 'e', 'b', 'u', 'g'] := by decide
  rw [abbrevs_eq, List.length_map, ← List.countP_eq_length_filter, top_optNames]
  simp only [List.countP_cons, List.countP_nil, e1, e2, e3, e4, List.isPrefixOf, beq_self_eq_true, Bool.true_and]
  by_cases hd : c2 = 'd'
  · subst hd; simp; split <;> omega
  · by_cases hv : c2 = 'v'
    · subst hv; simp; split <;> omega
    · simp [hd, hv]; split <;> omega

/-- an argument is an ambiguous abbreviation only when two or more option strings fit it -/
theorem ambiguous_cands (tbl : Table) (s : String) (h : classify tbl s = .ambiguous) :
    ∃ c1 t, s.toList = '-' :: c1 :: t ∧
      2 ≤ (if c1 == '-' then abbrevs tbl (splitEq ('-' :: c1 :: t)).1 (splitEq ('-' :: c1 :: t)).2 else shorts tbl ('-' :: c1 :: t)).length := by
  unfold classify at h
  cases hs : s.toList with
  | nil => simp [hs] at h
  | cons c0 tl =>
    by_cases h0 : c0 = '-'
    · subst h0
      simp only [hs, bne_self_eq_false, Bool.false_eq_true, if_false] at h
      cases hf : findOpt tbl s with
      | some d => simp [hf] at h
      | none =>
        simp only [hf] at h
        cases tl with
        | nil => simp at h
        | cons c1 t =>
          refine ⟨c1, t, rfl, ?_⟩
          simp only at h
          split at h
          · cases h
          · split at h
            · cases h
            · simp_all
            · exfalso; split at h
              · cases h
              · split at h <;> cases h
    · have : (c0 != '-') = true := by simpa using h0
      simp [hs, this] at h
theorem top_shorts_len (c1 : Char) (t : List Char) (h1 : c1 ≠ '-') : (shorts topTable ('-' :: c1 :: t)).length ≤ 1 := by
  have e1 : "-h".toList = ['-', 'h'] := by decide
  have e2 : "--help".toList = ['-', '-', 'h', 'e', 'l', 'p'] := by decide
  have e3 : "--version".toList = ['-', '-', 'v', 'e', 'r', 's', 'i', 'o', 'n'] := by decide
  have e4 : "--debug".toList = ['-', '-', 'd', 'e', 'b', 'u', 'g'] := by decide
  unfold shorts
  rw [top_optNames]
  simp [List.filterMap_cons, e1, e2, e3, e4, List.isPrefixOf, h1]
  split <;> simp

/-- the top-level parser finds an abbreviation ambiguous only in `--` and `--=…` -/
theorem top_ambiguous_shape (s : String) (h : isAmbiguous topTable s = true) :
    s.toList = ['-', '-'] ∨ ∃ r, s.toList = '-' :: '-' :: '=' :: r := by
  have h' : classify topTable s = .ambiguous := by simpa [isAmbiguous] using h
  obtain ⟨c1, t, hs, hlen⟩ := ambiguous_cands _ _ h'
  by_cases h1 : c1 = '-'
  · subst h1
    cases t with
    | nil => exact Or.inl hs
    | cons c2 t' =>
      by_cases h2 : c2 = '='
      · subst h2; exact Or.inr ⟨t', hs⟩
      · exfalso
        have hpre : (splitEq ('-' :: '-' :: c2 :: t')).1 = '-' :: '-' :: c2 :: (splitEq t').1 := by
          have hc : (c2 == '=') = false := by simpa using h2
          simp [splitEq, hc]
        simp only [beq_self_eq_true, if_true, hpre] at hlen
        have := top_abbrevs_len c2 (splitEq t').1 (splitEq ('-' :: '-' :: c2 :: t')).2
        omega
  · exfalso
    have hc : (c1 == '-') = false := by simpa using h1
    simp only [hc, Bool.false_eq_true, if_false] at hlen
    have := top_shorts_len c1 t h1
    omega

theorem arg_not_dashdash_eq (sub : Sub) (v : String) (r : List Char) (hs : v.toList = '-' :: '-' :: '=' :: r) :
    classify (table sub) v ≠ .arg := by
  have hfind : findOpt (table sub) v = none := findOpt_none_of_char _ _ '=' (by simp [hs]) (by cases sub <;> decide)
  have hsplit : splitEq ('-' :: '-' :: '=' :: r) = (['-', '-'], some r) := by simp [splitEq]
  have hf2 : findOpt (table sub) (String.ofList ['-', '-']) = none := by cases sub <;> decide
  have hne : abbrevs (table sub) ['-', '-'] (some r) ≠ [] := by
    rw [abbrevs_eq]
    intro h
    have hmem : (helpOpt, "--help") ∈ (optNames (table sub)).filter (fun p => ['-', '-'].isPrefixOf p.2.toList) := by
      rw [List.mem_filter]
      exact ⟨by cases sub <;> decide, by decide⟩
    rw [List.map_eq_nil_iff] at h
    rw [h] at hmem
    cases hmem
  unfold classify
  simp only [hs, hfind, hsplit, hf2]
  cases hab : abbrevs (table sub) ['-', '-'] (some r) with
  | nil => exact absurd hab hne
  | cons x l =>
    cases l with
    | nil => obtain ⟨d, n, e⟩ := x; simp [hab]
    | cons y l => simp [hab]

/-- what a sub-parser reads as a value never stops the classification pass of the top-level parser -/
theorem arg_not_top_ambiguous (sub : Sub) (v : String) (h : classify (table sub) v = .arg) : isAmbiguous topTable v = false := by
  cases hb : isAmbiguous topTable v with
  | false => rfl
  | true =>
    exfalso
    rcases top_ambiguous_shape v hb with hs | ⟨r, hs⟩
    · have : v = "--" := String.toList_inj.mp (by rw [hs]; decide)
      subst this
      revert h
      cases sub <;> decide
    · exact arg_not_dashdash_eq sub v r hs h

theorem isValue_iff (sub : Sub) (v : String) : IsValue (table sub) v ↔ classify (table sub) v = .arg :=
  ⟨fun h => h.1, fun h => ⟨h, arg_not_top_ambiguous sub v h⟩⟩

/-! ## the canonical command line as items -/

def optItems (d : OptDecl) (name dest : String) : Option String → List Item
  | none => []
  | some v => [.sep d name v (dest, .str v)]

def flagItems (d : OptDecl) (name dest : String) (b : Bool) : List Item := if b then [.flag d name (dest, .flag)] else []

def listItems (d : OptDecl) (name dest : String) (vs : List String) : List Item := vs.map (fun v => .sep d name v (dest, .str v))

def optEv (dest : String) : Option String → List Event
  | none => []
  | some v => [(dest, .str v)]

def flagEv (dest : String) (b : Bool) : List Event := if b then [(dest, .flag)] else []

@[simp] theorem toks_optItems (d n dest x) : (optItems d n dest x).flatMap Item.toks = optArg n x := by
  cases x <;> simp [optItems, optArg, Item.toks]
@[simp] theorem posv_optItems (d n dest x) : (optItems d n dest x).flatMap Item.posv = [] := by
  cases x <;> simp [optItems, Item.posv]
@[simp] theorem ev_optItems (d n dest x) : (optItems d n dest x).flatMap Item.ev = optEv dest x := by
  cases x <;> simp [optItems, optEv, Item.ev]
@[simp] theorem toks_flagItems (d n dest b) : (flagItems d n dest b).flatMap Item.toks = flagArg n b := by
  cases b <;> simp [flagItems, flagArg, Item.toks]
@[simp] theorem posv_flagItems (d n dest b) : (flagItems d n dest b).flatMap Item.posv = [] := by
  cases b <;> simp [flagItems, Item.posv]
@[simp] theorem ev_flagItems (d n dest b) : (flagItems d n dest b).flatMap Item.ev = flagEv dest b := by
  cases b <;> simp [flagItems, flagEv, Item.ev]
@[simp] theorem toks_listItems (d n dest vs) : (listItems d n dest vs).flatMap Item.toks = vs.flatMap (fun v => [n, v]) := by
  induction vs with
  | nil => rfl
  | cons v vs ih => simp only [listItems, List.map_cons, List.flatMap_cons, Item.toks] at ih ⊢; rw [ih]
@[simp] theorem posv_listItems (d n dest vs) : (listItems d n dest vs).flatMap Item.posv = [] := by
  induction vs with
  | nil => rfl
  | cons v vs ih => simp only [listItems, List.map_cons, List.flatMap_cons, Item.posv, List.nil_append] at ih ⊢; exact ih
@[simp] theorem ev_listItems (d n dest vs) : (listItems d n dest vs).flatMap Item.ev = vs.map (fun v => ((dest, Val.str v) : Event)) := by
  induction vs with
  | nil => rfl
  | cons v vs ih => simp only [listItems, List.map_cons, List.flatMap_cons, Item.ev, List.singleton_append] at ih ⊢; rw [ih]

theorem good_sep_store {tbl : Table} {d : OptDecl} {n dest v : String} (hc : classify tbl n = .opt d n none)
    (ht : isAmbiguous topTable n = false) (hd : d.act = .store dest ∨ d.act = .append dest) (hv : IsValue tbl v) :
    Good tbl (.sep d n v (dest, .str v)) := by
  refine ⟨hc, ht, ?_, hv, ?_⟩ <;> rcases hd with hd | hd <;> simp [hd, Act.arity, take]

theorem good_optItems {tbl : Table} {d : OptDecl} {n dest : String} {x : Option String} (hc : classify tbl n = .opt d n none)
    (ht : isAmbiguous topTable n = false) (hd : d.act = .store dest ∨ d.act = .append dest) (hv : ∀ v, x = some v → IsValue tbl v) :
    ∀ it ∈ optItems d n dest x, Good tbl it := by
  cases x with
  | none => simp [optItems]
  | some v => simp only [optItems, List.mem_singleton]; rintro it rfl; exact good_sep_store hc ht hd (hv v rfl)

theorem good_listItems {tbl : Table} {d : OptDecl} {n dest : String} {vs : List String} (hc : classify tbl n = .opt d n none)
    (ht : isAmbiguous topTable n = false) (hd : d.act = .store dest ∨ d.act = .append dest) (hv : ∀ v ∈ vs, IsValue tbl v) :
    ∀ it ∈ listItems d n dest vs, Good tbl it := by
  simp only [listItems, List.mem_map]
  rintro it ⟨v, hm, rfl⟩
  exact good_sep_store hc ht hd (hv v hm)

theorem good_flagItems {tbl : Table} {d : OptDecl} {n dest : String} {b : Bool} (hc : classify tbl n = .opt d n none)
    (ht : isAmbiguous topTable n = false) (hd : d.act = .storeTrue dest) :
    ∀ it ∈ flagItems d n dest b, Good tbl it := by
  cases b with
  | false => simp [flagItems]
  | true => simp only [flagItems, if_true, List.mem_singleton]; rintro it rfl; exact ⟨hc, ht, by simp [hd, Act.arity], by simp [hd, take]⟩

/-! ## the canonical command line of each sub-command -/

def dOut : OptDecl := ⟨["-o", "--output"], .store "output"⟩

def itemsOf : Opts → List Item
  | .view o => [.pos o.gaf_path] ++ optItems ⟨["-g", "--gfa"], .store "gfa"⟩ "-g" "gfa" o.gfa ++ optItems dOut "-o" "output" o.output
      ++ optItems ⟨["-i", "--index"], .store "index"⟩ "-i" "index" o.index
      ++ listItems ⟨["-n", "--node"], .append "nodes"⟩ "-n" "nodes" o.nodes
      ++ listItems ⟨["-r", "--region"], .append "regions"⟩ "-r" "regions" o.regions
      ++ optItems ⟨["-f", "--format"], .store "format"⟩ "-f" "format" o.format
  | .index o => [.pos o.gaf_path, .pos o.gfa_path] ++ optItems dOut "-o" "output" o.output
  | .sort o => [.pos o.gaf, .pos o.gfa] ++ optItems ⟨["--outgaf"], .store "outgaf"⟩ "--outgaf" "outgaf" o.outgaf
      ++ optItems ⟨["--outind"], .store "outind"⟩ "--outind" "outind" o.outind
      ++ flagItems ⟨["--bgzip"], .storeTrue "bgzip"⟩ "--bgzip" "bgzip" o.bgzip
  | .stat o => [.pos o.gaf_path] ++ optItems dOut "-o" "output" o.output
      ++ flagItems ⟨["--cigar"], .storeTrue "cigar_stat"⟩ "--cigar" "cigar_stat" o.cigar_stat
  | .phase o => [.pos o.gaf_file, .pos o.tsv_file]
      ++ optItems dOut "-o" "output" (match o.output with | .stdoutObject => none | .path p => some p)
  | .realign o => [.pos o.gaf, .pos o.graph, .pos o.fasta] ++ optItems dOut "-o" "output" o.output
      ++ [.sep ⟨["-c", "--cores"], .storeInt "cores"⟩ "-c" (toString o.cores) ("cores", .int o.cores)]
  | .find_path o => [.pos o.gfa_path, .pos o.input_path] ++ optItems dOut "-o" "output" o.output
      ++ flagItems ⟨["-f", "--fasta"], .storeTrue "fasta"⟩ "--fasta" "fasta" o.fasta
  | .order_gfa o =>
      optItems ⟨["--chromosome_order"], .store "chromosome_order"⟩ "--chromosome_order" "chromosome_order"
        (if o.chromosome_order != "" then some o.chromosome_order else none)
      ++ flagItems ⟨["--with-sequence"], .storeTrue "with_sequence"⟩ "--with-sequence" "with_sequence" o.with_sequence
      ++ [.sep ⟨["--outdir"], .store "outdir"⟩ "--outdir" o.outdir ("outdir", .str o.outdir)]
      ++ flagItems ⟨["--by-chrom"], .storeTrue "by_chrom"⟩ "--by-chrom" "by_chrom" o.by_chrom
      ++ [.pos o.gfa_filename]

theorem render_items (o : Opts) : render o = o.sub.name :: (itemsOf o).flatMap Item.toks := by
  cases o with
  | view o => simp [render, itemsOf, Opts.sub, Sub.name, Item.toks]
  | index o => simp [render, itemsOf, Opts.sub, Sub.name, Item.toks]
  | sort o => simp [render, itemsOf, Opts.sub, Sub.name, Item.toks]
  | stat o => simp [render, itemsOf, Opts.sub, Sub.name, Item.toks]
  | phase o => cases h : o.output <;> simp [render, itemsOf, Opts.sub, Sub.name, Item.toks, h, optArg]
  | realign o => simp [render, itemsOf, Opts.sub, Sub.name, Item.toks]
  | find_path o => simp [render, itemsOf, Opts.sub, Sub.name, Item.toks]
  | order_gfa o => by_cases h : o.chromosome_order = "" <;> simp [render, itemsOf, Opts.sub, Sub.name, Item.toks, h, optArg]

end Gaftools.Proofs.Cli
