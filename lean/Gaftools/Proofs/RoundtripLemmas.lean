import Gaftools.Props.C01b
import Gaftools.Model.ConvText
/-!
# Helper lemmas for `Props/C02.lean` (round trips of the coordinate conversion, CIGAR reversal, printed record)
-/
namespace Gaftools.Proofs.Roundtrip
open Gaftools.Gaf Gaftools.Stat Gaftools.Conv Gaftools.ConvText Gaftools.Spec.Conv Gaftools.C01

/-! ## `groupDigits` / `cigarPairs` -/

/-- the groups concatenate to the input -/
theorem groupDigits_flatten (s : Str) : (groupDigits s).flatten = s := by
  induction s with
  | nil => rfl
  | cons c cs ih =>
    unfold groupDigits
    split
    · rename_i h
      rw [h] at ih
      simp only [List.flatten_nil] at ih
      subst ih; rfl
    · rename_i g gs h
      rw [h] at ih
      split
      · split
        · simp only [List.flatten_cons, List.cons_append] at ih ⊢
          rw [ih]
        · simp only [List.flatten_cons, List.cons_append, List.nil_append] at ih ⊢
          rw [ih]
      · simp only [List.flatten_cons, List.nil_append, List.cons_append] at ih ⊢
        rw [ih]

/-- a non-empty homogeneous run in front of a string whose first group is of the other kind is a group of its own -/
theorem groupDigits_run (b : Bool) (run rest : Str) (hne : run ≠ []) (hall : ∀ c ∈ run, c.isDigit = b)
    (hrest : ∀ g gs, groupDigits rest = g :: gs → ∃ d t, g = d :: t ∧ d.isDigit ≠ b) :
    groupDigits (run ++ rest) = run :: groupDigits rest := by
  induction run with
  | nil => exact absurd rfl hne
  | cons c run ih =>
    have hc : c.isDigit = b := hall c (by simp)
    cases run with
    | nil =>
      simp only [List.cons_append, List.nil_append]
      rw [groupDigits]
      split
      · rename_i h; rw [h]
      · rename_i g gs h
        obtain ⟨d, t, hg, hd⟩ := hrest g gs h
        subst hg
        simp only
        rw [if_neg (by rw [hc]; intro hh; exact hd (beq_iff_eq.1 hh).symm)]
        rw [h]
    | cons c' run' =>
      have ih' := ih (by simp) (fun x hx => hall x (by simp [hx]))
      have hc' : c'.isDigit = b := hall c' (by simp)
      rw [List.cons_append, groupDigits, ih']
      simp only
      rw [if_pos (by rw [hc, hc']; simp)]

/-- the (length, operation) pairs of a well-formed CIGAR -/
def WfP (l : List (Str × Str)) : Prop :=
  ∀ p ∈ l, p.1 ≠ [] ∧ (∀ c ∈ p.1, c.isDigit = true) ∧ p.2 ≠ [] ∧ (∀ c ∈ p.2, c.isDigit = false)

theorem groupDigits_pairs (l : List (Str × Str)) (h : WfP l) :
    groupDigits (l.flatMap (fun p => p.1 ++ p.2)) = l.flatMap (fun p => [p.1, p.2]) := by
  induction l with
  | nil => rfl
  | cons p l ih =>
    obtain ⟨h1, h2, h3, h4⟩ := h p (by simp)
    have hl : WfP l := fun q hq => h q (by simp [hq])
    have ih' := ih hl
    simp only [List.flatMap_cons, List.append_assoc]
    have hrest : ∀ g gs, groupDigits (l.flatMap (fun p => p.1 ++ p.2)) = g :: gs → ∃ d t, g = d :: t ∧ d.isDigit ≠ false := by
      intro g gs hg
      rw [ih'] at hg
      cases l with
      | nil => simp at hg
      | cons q l' =>
        obtain ⟨q1, q2, _, _⟩ := h q (by simp)
        simp only [List.flatMap_cons, List.cons_append, List.nil_append, List.cons.injEq] at hg
        obtain ⟨hg1, _⟩ := hg
        subst hg1
        cases hq : q.1 with
        | nil => exact absurd hq q1
        | cons d t =>
          refine ⟨d, t, rfl, ?_⟩
          rw [q2 d (by rw [hq]; simp)]
          simp
    have e2 := groupDigits_run false p.2 _ h3 h4 hrest
    have hrest1 : ∀ g gs, groupDigits (p.2 ++ l.flatMap (fun p => p.1 ++ p.2)) = g :: gs → ∃ d t, g = d :: t ∧ d.isDigit ≠ true := by
      intro g gs hg
      rw [e2] at hg
      simp only [List.cons.injEq] at hg
      obtain ⟨hg1, _⟩ := hg
      subst hg1
      cases hq : p.2 with
      | nil => exact absurd hq h3
      | cons d t =>
        refine ⟨d, t, rfl, ?_⟩
        rw [h4 d (by rw [hq]; simp)]
        simp
    rw [groupDigits_run true p.1 _ h1 h2 hrest1, e2, ih']
    rfl

theorem cigarPairs_flatMap (l : List (Str × Str)) : cigarPairs (l.flatMap (fun p => [p.1, p.2])) = l := by
  induction l with
  | nil => rfl
  | cons p l ih =>
    simp only [List.flatMap_cons, List.cons_append, List.nil_append, cigarPairs, ih]

theorem flatMap_pair_flatten (l : List (Str × Str)) :
    (l.flatMap (fun p => [p.1, p.2])).flatten = l.flatMap (fun p => p.1 ++ p.2) := by
  induction l with
  | nil => rfl
  | cons p l ih =>
    simp only [List.flatMap_cons, List.cons_append, List.nil_append, List.flatten_cons, ih, List.append_assoc]

/-- reversing a well-formed pair list and reading it back -/
theorem reverse_pairs (l : List (Str × Str)) (h : WfP l) :
    cigarPairs (groupDigits (l.flatMap (fun p => p.1 ++ p.2))) = l := by
  rw [groupDigits_pairs l h, cigarPairs_flatMap]

theorem mem_cigarPairs : ∀ (toks : List Str) (p : Str × Str), p ∈ cigarPairs toks → p.1 ∈ toks ∧ p.2 ∈ toks
  | [], p, h => by simp [cigarPairs] at h
  | [_], p, h => by simp [cigarPairs] at h
  | n :: op :: rest, p, h => by
    simp only [cigarPairs, List.mem_cons] at h
    rcases h with rfl | h
    · simp
    · obtain ⟨h1, h2⟩ := mem_cigarPairs rest p h
      simp [h1, h2]

/-- `reverse_cigar` only permutes characters of its input -/
theorem mem_reverseCigarStr (cg : Str) (c : Char) (h : c ∈ reverseCigarStr cg) : c ∈ cg := by
  unfold reverseCigarStr at h
  rw [List.mem_flatMap] at h
  obtain ⟨p, hp, hc⟩ := h
  rw [List.mem_reverse] at hp
  obtain ⟨h1, h2⟩ := mem_cigarPairs _ p hp
  rw [← groupDigits_flatten cg, List.mem_flatten]
  rcases List.mem_append.1 hc with hc | hc
  · exact ⟨p.1, h1, hc⟩
  · exact ⟨p.2, h2, hc⟩

/-! ## the merge loop of `to_stable`: every output interval with its run of steps -/
open Gaftools.Proofs.Unstable

def toSeg (s : RSeg) : Seg := ⟨s.id, s.so, s.en⟩

def asc (o : Bool) (g : List (Bool × RSeg)) : List RSeg := if o then g.map (·.2) else (g.map (·.2)).reverse

structure Grp (segs : List RSeg) (x : OIv) (g : List (Bool × RSeg)) : Prop where
  mem : ∀ q ∈ g, q.1 = x.2 ∧ q.2 ∈ segs ∧ q.2.sn = x.1.contig
  chain : Chain ((asc x.2 g).map toSeg) x.1.s x.1.e

theorem chain_snoc {l : List Seg} {a b : Int} (h : Chain l a b) (x : Seg) (hx : x.so < x.en) (hb : x.so = b) :
    Chain (l ++ [x]) a x.en := by
  induction h with
  | single y hy =>
    have : Chain [x] y.en x.en := hb ▸ Chain.single x hx
    exact Chain.cons y [x] x.en hy this
  | cons y rest b hy hr ih =>
    exact Chain.cons y (rest ++ [x]) x.en hy (ih hb)

theorem seg_pos (segs : List RSeg) (hv : ValidRGFA segs) (s : RSeg) (hs : s ∈ segs) : s.so < s.en := by
  have := List.length_pos_iff.mpr (hv.pos s hs).2
  simp only [RSeg.en]; omega

theorem grp_single (segs : List RSeg) (hv : ValidRGFA segs) (q : Bool × RSeg) (hq : q.2 ∈ segs) :
    Grp segs (ivOf q) [q] := by
  constructor
  · intro q' hq'
    rw [List.mem_singleton] at hq'; subst hq'
    exact ⟨rfl, hq, rfl⟩
  · have : (asc (ivOf q).2 [q]).map toSeg = [toSeg q.2] := by
      unfold asc; cases (ivOf q).2 <;> rfl
    rw [this]
    exact Chain.single (toSeg q.2) (seg_pos segs hv q.2 hq)

theorem grp_merge (segs : List RSeg) (hv : ValidRGFA segs) (cur : OIv) (g : List (Bool × RSeg)) (hg : Grp segs cur g)
    (q : Bool × RSeg) (hq : q.2 ∈ segs) (m : OIv)
    (hm : mergeNodes cur.1 (ivOf q).1 cur.2 q.1 = some m) : Grp segs m (g ++ [q]) := by
  obtain ⟨n1, o1⟩ := cur
  obtain ⟨hmem, hch⟩ := hg
  simp only at hmem hch hm
  unfold mergeNodes at hm
  split at hm; · simp at hm
  split at hm; · simp at hm
  split at hm; · simp at hm
  rename_i hc hf hr
  have hcontig : n1.contig = q.2.sn := by
    by_cases h : n1.contig = q.2.sn; exact h; exact absurd (Or.inl h) hc
  have ho : o1 = q.1 := by
    by_cases h : o1 = q.1; exact h; exact absurd (Or.inr h) hc
  have hpos := seg_pos segs hv q.2 hq
  cases o1 with
  | false =>
    have hse : n1.s = q.2.en := by simpa [ivOf] using hr
    simp only [if_true] at hm
    injection hm with hm
    subst hm
    constructor
    · intro q' hq'
      rcases List.mem_append.1 hq' with h | h
      · exact hmem q' h
      · rw [List.mem_singleton] at h; subst h
        exact ⟨ho.symm, hq, hcontig.symm⟩
    · have e : (asc false (g ++ [q])).map toSeg = toSeg q.2 :: (asc false g).map toSeg := by
        simp [asc]
      simp only
      rw [e]
      have hch' : Chain ((asc false g).map toSeg) (toSeg q.2).en n1.e := by
        have : (toSeg q.2).en = n1.s := hse.symm
        rw [this]; exact hch
      exact Chain.cons (toSeg q.2) _ n1.e hpos hch'
  | true =>
    have hes : n1.e = q.2.so := by simpa [ivOf] using hf
    simp only [Bool.true_eq_false, if_false] at hm
    injection hm with hm
    subst hm
    constructor
    · intro q' hq'
      rcases List.mem_append.1 hq' with h | h
      · exact hmem q' h
      · rw [List.mem_singleton] at h; subst h
        exact ⟨ho.symm, hq, hcontig.symm⟩
    · have e : (asc true (g ++ [q])).map toSeg = (asc true g).map toSeg ++ [toSeg q.2] := by
        simp [asc]
      simp only
      rw [e]
      exact chain_snoc hch (toSeg q.2) hpos hes.symm

theorem mergeGo_groups (segs : List RSeg) (hv : ValidRGFA segs) :
    ∀ (rest : List (Bool × RSeg)) (cur : OIv) (g : List (Bool × RSeg)), Grp segs cur g → (∀ q ∈ rest, q.2 ∈ segs) →
    ∃ xgs : List (OIv × List (Bool × RSeg)), xgs.map (·.1) = mergeGo cur (rest.map ivOf) ∧
      (∀ xg ∈ xgs, Grp segs xg.1 xg.2) ∧ (xgs.map (·.2)).flatten = g ++ rest := by
  intro rest
  induction rest with
  | nil =>
    intro cur g hg _
    exact ⟨[(cur, g)], rfl, by simpa using hg, by simp⟩
  | cons q rest ih =>
    intro cur g hg hrest
    have hq := hrest q (by simp)
    have hrest' : ∀ q ∈ rest, q.2 ∈ segs := fun y hy => hrest y (by simp [hy])
    rw [List.map_cons, mergeGo]
    cases hm : mergeNodes cur.1 (ivOf q).1 cur.2 (ivOf q).2 with
    | some m =>
      obtain ⟨xgs, h1, h2, h3⟩ := ih m (g ++ [q]) (grp_merge segs hv cur g hg q hq m hm) hrest'
      exact ⟨xgs, h1, h2, by rw [h3]; simp⟩
    | none =>
      obtain ⟨xgs, h1, h2, h3⟩ := ih (ivOf q) [q] (grp_single segs hv q hq) hrest'
      refine ⟨(cur, g) :: xgs, by simp [h1], ?_, by simp [h3]⟩
      intro xg hxg
      rcases List.mem_cons.1 hxg with rfl | h
      · exact hg
      · exact h2 xg h

/-! ## reading the intervals back -/

theorem chain_inv {l : List Seg} {a b : Int} (h : Chain l a b) :
    ∃ x t, l = x :: t ∧ x.so = a ∧ x.so < x.en ∧ ((t = [] ∧ x.en = b) ∨ Chain t x.en b) := by
  cases h with
  | single x hx => exact ⟨x, [], rfl, rfl, hx, Or.inl ⟨rfl, rfl⟩⟩
  | cons x rest b hx hr => exact ⟨x, rest, rfl, rfl, hx, Or.inr hr⟩

theorem chain_unique {iv : List Seg} (hsd : SortedDisjoint iv) :
    ∀ (l1 l2 : List Seg) (a b : Int), Chain l1 a b → Chain l2 a b → (∀ x ∈ l1, x ∈ iv) → (∀ x ∈ l2, x ∈ iv) → l1 = l2 := by
  intro l1
  induction l1 with
  | nil =>
    intro l2 a b h1
    obtain ⟨x, t, h, _⟩ := chain_inv h1
    simp at h
  | cons x t ih =>
    intro l2 a b h1 h2 hm1 hm2
    obtain ⟨x', t', he, hxa, hx, hc1⟩ := chain_inv h1
    injection he with he1 he2
    subst he1; subst he2
    obtain ⟨y, u, rfl, hya, hy, hc2⟩ := chain_inv h2
    have hxy : x = y := cover_unique hsd (hm1 x (by simp)) (hm2 y (by simp)) a ⟨by omega, by omega⟩ ⟨by omega, by omega⟩
    subst hxy
    rcases hc1 with ⟨ht, hb1⟩ | hc1
    · rcases hc2 with ⟨hu, _⟩ | hc2
      · rw [ht, hu]
      · have := hc2.lt; omega
    · rcases hc2 with ⟨hu, hb2⟩ | hc2
      · have := hc1.lt; omega
      · rw [ih u x.en b hc1 hc2 (fun z hz => hm1 z (by simp [hz])) (fun z hz => hm2 z (by simp [hz]))]

theorem chain_getLast {l : List Seg} {a b : Int} (h : Chain l a b) : ∃ z, l.getLast? = some z ∧ z.en = b ∧ z.so < z.en := by
  induction h with
  | single x hx => exact ⟨x, rfl, rfl, hx⟩
  | cons x rest b _ hr ih =>
    obtain ⟨z, hz, hzb⟩ := ih
    obtain ⟨y, t, hyt, _⟩ := hr.head
    subst hyt
    exact ⟨z, by rw [List.getLast?_cons_cons]; exact hz, hzb⟩

/-- the ids of a run, put back in walk order with the orientation, are the steps of the run -/
theorem asc_steps (o : Bool) (g : List (Bool × RSeg)) (hg : ∀ q ∈ g, q.1 = o) :
    (if o then ((asc o g).map toSeg).map (·.id) else (((asc o g).map toSeg).map (·.id)).reverse).map (fun i => (o, i))
      = stepsOf g := by
  have hcongr : g.map (fun q => (o, q.2.id)) = stepsOf g := by
    unfold stepsOf
    apply List.map_congr_left
    intro q hq
    rw [hg q hq]
  cases o with
  | true =>
    rw [← hcongr]
    simp [asc, toSeg, List.map_map, Function.comp_def]
  | false =>
    rw [← hcongr]
    simp [asc, toSeg, List.map_map, Function.comp_def, List.map_reverse]

theorem run_mem_refOf (segs : List RSeg) (x : OIv) (g : List (Bool × RSeg)) (hg : Grp segs x g) :
    ∀ sg ∈ (asc x.2 g).map toSeg, sg ∈ refOf segs x.1.contig := by
  intro sg hsg
  obtain ⟨s, hs, rfl⟩ := List.mem_map.1 hsg
  have hs' : s ∈ g.map (·.2) := by
    unfold asc at hs
    split at hs
    · exact hs
    · exact List.mem_reverse.1 hs
  obtain ⟨q, hq, rfl⟩ := List.mem_map.1 hs'
  obtain ⟨_, h2, h3⟩ := hg.mem q hq
  exact (C03.mem_refOf segs _ _).2 ⟨q.2, h2, h3, rfl⟩

/-- the search for a query inside the interval of a group that touches the first and the last node of the run selects
    exactly the run -/
theorem grp_search (segs : List RSeg) (hv : ValidRGFA segs) (x : OIv) (g : List (Bool × RSeg)) (hg : Grp segs x g)
    (qs qe : Int) (hq : qs < qe) (h1 : x.1.s ≤ qs) (h2 : qe ≤ x.1.e)
    (hfirst : ∀ f, ((asc x.2 g).map toSeg).head? = some f → qs < f.en)
    (hlast : ∀ z, ((asc x.2 g).map toSeg).getLast? = some z → z.so < qe) :
    ∃ r, searchIv (refOf segs x.1.contig) qs qe ((refOf segs x.1.contig).length + 2) 0 (refOf segs x.1.contig).length = some r ∧
      (window (refOf segs x.1.contig) r).filter (fun sg => overlapCase sg qs qe ≠ 0) = (asc x.2 g).map toSeg := by
  have hsd := C03.refOf_sortedDisjoint segs hv x.1.contig
  have hrch := hg.chain
  have hrmem' := run_mem_refOf segs x g hg
  have hcov : ∀ p, qs ≤ p → p < qe → ∃ sg ∈ refOf segs x.1.contig, sg.so ≤ p ∧ p < sg.en := by
    intro p hp1 hp2
    obtain ⟨sg, hsg, h⟩ := hrch.cover p (by omega) (by omega)
    exact ⟨sg, hrmem' sg hsg, h⟩
  obtain ⟨r, a, b, rs, hr, hsel, hch, ha, hbq, -, -, -, -⟩ := item_core segs hv x.1.contig qs qe hq hcov
  have hmemf : ∀ sg ∈ (refOf segs x.1.contig).filter (fun sg => overlaps sg qs qe),
      sg ∈ refOf segs x.1.contig ∧ sg.so < qe ∧ qs < sg.en := by
    intro sg hsg
    obtain ⟨h1, h2⟩ := List.mem_filter.1 hsg
    rw [Proofs.Search.overlaps_iff] at h2
    exact ⟨h1, h2⟩
  have haeq : a = x.1.s := by
    obtain ⟨h, t, hov, hha, _⟩ := hch.head
    obtain ⟨h', t', hov', hha', hlt'⟩ := hrch.head
    have hm := hmemf h (by rw [hov]; simp)
    have hm' := hrmem' h' (by rw [hov']; simp)
    have hf := hfirst h' (by rw [hov']; rfl)
    have := cover_unique hsd hm.1 hm' qs ⟨by omega, hm.2.2⟩ ⟨by omega, hf⟩
    rw [this] at hha
    omega
  have hbeq : b = x.1.e := by
    obtain ⟨z, hz, hzb, _⟩ := hch.last
    obtain ⟨z', hz', hzb', hlt'⟩ := chain_getLast hrch
    have hm := hmemf z hz
    have hm' := hrmem' z' (List.mem_of_getLast? hz')
    have hl := hlast z' hz'
    have := cover_unique hsd hm.1 hm' (qe - 1) ⟨by omega, by omega⟩ ⟨by omega, by omega⟩
    rw [this] at hzb
    omega
  subst haeq; subst hbeq
  refine ⟨r, hr, ?_⟩
  rw [hsel]
  exact chain_unique hsd _ _ _ _ hch hrch (fun sg h => (hmemf sg h).1) hrmem'

/-- one stable interval of the merge loop gives back exactly its run of steps -/
theorem grp_item (segs : List RSeg) (hv : ValidRGFA segs) (x : OIv) (g : List (Bool × RSeg)) (hg : Grp segs x g)
    (sp : Bool) (ps pe : Int) (st : USt) :
    ∃ st', itemStep (refOf segs) sp ps pe st (toItem x) = some st' ∧ st'.path = st.path ++ stepsOf g ∧ st'.split = true := by
  have hrch := hg.chain
  obtain ⟨r, hr, hsel⟩ := grp_search segs hv x g hg x.1.s x.1.e hrch.lt (by omega) (by omega)
    (by
      intro f hf
      obtain ⟨h', t', hov', hha', hlt'⟩ := hrch.head
      rw [hov'] at hf
      injection hf with hf
      subst hf; omega)
    (by
      intro z hz
      obtain ⟨z', hz', hzb', hlt'⟩ := chain_getLast hrch
      rw [hz'] at hz
      injection hz with hz
      subst hz; omega)
  obtain ⟨ns, nt, hstep⟩ := itemStep_iv (refOf segs) sp ps pe st x.2 x.1.contig x.1.s x.1.e r hr
  refine ⟨_, hstep, ?_, rfl⟩
  simp only
  rw [scanWindow_ids, hsel, asc_steps x.2 g (fun q hq => (hg.mem q hq).1)]

/-- the whole loop over the intervals written by the merge loop -/
theorem fold_groups (segs : List RSeg) (hv : ValidRGFA segs) (xgs : List (OIv × List (Bool × RSeg)))
    (hx : ∀ xg ∈ xgs, Grp segs xg.1 xg.2) (sp : Bool) (ps pe : Int) :
    ∀ st : USt, ∃ st', ((xgs.map (·.1)).map toItem).foldlM (itemStep (refOf segs) sp ps pe) st = some st' ∧
      st'.path = st.path ++ stepsOf (xgs.map (·.2)).flatten ∧ (st.split = true ∨ xgs ≠ [] → st'.split = true) := by
  induction xgs with
  | nil =>
    intro st
    refine ⟨st, rfl, by simp [stepsOf], ?_⟩
    rintro (h | h)
    · exact h
    · exact absurd rfl h
  | cons xg xgs ih =>
    intro st
    obtain ⟨st1, hst1, hp1, hs1⟩ := grp_item segs hv xg.1 xg.2 (hx xg (by simp)) sp ps pe st
    obtain ⟨st2, hst2, hp2, hs2⟩ := ih (fun y hy => hx y (by simp [hy])) st1
    refine ⟨st2, ?_, ?_, fun _ => hs2 (Or.inl hs1)⟩
    · rw [List.map_cons, List.map_cons, List.foldlM_cons, hst1]
      exact hst2
    · rw [hp2, hp1]
      simp [stepsOf]

theorem grp_len (segs : List RSeg) (x : OIv) (g : List (Bool × RSeg)) (hg : Grp segs x g) : lenOf g = x.1.e - x.1.s := by
  rw [← hg.chain.sum]
  unfold lenOf asc
  have hf : ((fun sg : Seg => sg.en - sg.so) ∘ toSeg) = fun s => (s.seq.length : Int) := by
    funext s; simp only [Function.comp, toSeg, RSeg.en]; omega
  split
  · rw [List.map_map, List.map_map, hf]; rfl
  · rw [List.map_map, hf, List.map_reverse, List.sum_reverse, List.map_map]; rfl

theorem steps_nodes (segs : List RSeg) (steps : List (Bool × String))
    (hk : ∀ st ∈ steps, (findSeg segs st.2).isSome) :
    ∃ l : List (Bool × RSeg), (∀ p ∈ l, p.2 ∈ segs) ∧ stepsOf l = steps := by
  induction steps with
  | nil => exact ⟨[], by simp, rfl⟩
  | cons st steps ih =>
    obtain ⟨l, hl1, hl2⟩ := ih (fun y hy => hk y (by simp [hy]))
    have hst := hk st (by simp)
    cases hf : findSeg segs st.2 with
    | none => simp [hf] at hst
    | some s =>
      have hid : s.id = st.2 := by
        have := List.find?_some hf
        simpa using this
      refine ⟨(st.1, s) :: l, ?_, ?_⟩
      · intro p hp
        rcases List.mem_cons.1 hp with hp | hp
        · subst hp
          exact List.mem_of_find?_eq_some hf
        · exact hl1 p hp
      · unfold stepsOf at hl2 ⊢
        rw [List.map_cons, hl2]
        simp only [hid]

theorem mapM_nodeTbl (segs : List RSeg) (hv : ValidRGFA segs) (l : List (Bool × RSeg)) (hl : ∀ p ∈ l, p.2 ∈ segs) :
    (stepsOf l).mapM (fun s => (nodeTbl segs s.2).map (fun n => (n, s.1))) = some (l.map ivOf) := by
  induction l with
  | nil => rfl
  | cons p l ih =>
    unfold stepsOf at ih ⊢
    rw [List.map_cons, List.mapM_cons, ih (fun q hq => hl q (by simp [hq]))]
    simp only [nodeTbl, findSeg_of_mem segs hv p.2 (hl p (by simp))]
    rfl

/-! ## the collapsed record (bare reference contig name) -/

/-- a bare contig name whose query touches the first and the last node of the (single) run gives back the run -/
theorem bare_general (segs : List RSeg) (hv : ValidRGFA segs) (n : SNode) (ob : Bool) (g : List (Bool × RSeg))
    (hg : Grp segs (n, ob) g) (qs qe : Int) (hq : qs < qe) (h1 : n.s ≤ qs) (h2 : qe ≤ n.e)
    (hfirst : ∀ f, ((asc ob g).map toSeg).head? = some f → qs < f.en)
    (hlast : ∀ z, ((asc ob g).map toSeg).getLast? = some z → z.so < qe) (total : Int) :
    toUnstable (refOf segs) ob [.bare n.contig] total qs qe = some (stepsOf g,
      if ob then ⟨true, n.e - n.s, qs - n.s, qs - n.s + (qe - qs), false⟩
      else ⟨true, n.e - n.s, (n.e - n.s) - (qs - n.s) - (qe - qs), (n.e - n.s) - (qs - n.s), true⟩) := by
  obtain ⟨r, hr, hsel⟩ := grp_search segs hv (n, ob) g hg qs qe hq h1 h2 hfirst hlast
  have hrch : Chain ((asc ob g).map toSeg) n.s n.e := hg.chain
  obtain ⟨h, t, hov, hha, hlt⟩ := hrch.head
  have hf := hfirst h (by rw [hov]; rfl)
  have hscan := scanWindow_bare (window (refOf segs n.contig) r) qs qe h t (by rw [hsel, hov]) (by omega) hf
  rw [← hov, hrch.sum, hha] at hscan
  have hstep := itemStep_bare (refOf segs) ob qs qe n.contig r hr _ _ _ hscan
  rw [asc_steps ob g (fun q hq => (hg.mem q hq).1)] at hstep
  have hfold : List.foldlM (itemStep (refOf segs) ob qs qe) ⟨[], none, -1, 0, false⟩ [SItem.bare n.contig]
      = some { path := stepsOf g, orient := some ob, newStart := qs - n.s, newTotal := n.e - n.s, split := false } := by
    rw [List.foldlM_cons, hstep]; rfl
  unfold toUnstable
  rw [hfold]
  cases ob <;> rfl

theorem head_asc_true (g : List (Bool × RSeg)) : ((asc true g).map toSeg).head? = g.head?.map (fun p => toSeg p.2) := by
  simp [asc, List.head?_map]; rfl
theorem last_asc_true (g : List (Bool × RSeg)) : ((asc true g).map toSeg).getLast? = g.getLast?.map (fun p => toSeg p.2) := by
  simp [asc, List.getLast?_map]; rfl
theorem head_asc_false (g : List (Bool × RSeg)) : ((asc false g).map toSeg).head? = g.getLast?.map (fun p => toSeg p.2) := by
  simp [asc, List.getLast?_map]; rfl
theorem last_asc_false (g : List (Bool × RSeg)) : ((asc false g).map toSeg).getLast? = g.head?.map (fun p => toSeg p.2) := by
  simp [asc, List.head?_map]; rfl

/-- the collapsed record of `to_stable` (either strand) is read back to the canonical unstable record -/
theorem bare_roundtrip (segs : List RSeg) (hv : ValidRGFA segs) (n : SNode) (ob : Bool) (g : List (Bool × RSeg))
    (hg : Grp segs (n, ob) g) (plen ps pe : Int) (hb : 0 ≤ ps ∧ ps < pe ∧ pe ≤ plen) (hlen : lenOf g = plen)
    (hF : ∀ p, g.head? = some p → ps < p.2.seq.length)
    (hL : ∀ p, g.getLast? = some p → plen - p.2.seq.length < pe) (total : Int) :
    toUnstable (refOf segs) ob [.bare n.contig] total (if ob then n.s + ps else n.s + plen - pe)
        ((if ob then n.s + ps else n.s + plen - pe) + pe - ps)
      = some (stepsOf g, ⟨true, plen, ps, pe, !ob⟩) := by
  have hne : n.e - n.s = plen := by rw [← hlen, grp_len segs (n, ob) g hg]
  have hrch : Chain ((asc ob g).map toSeg) n.s n.e := hg.chain
  obtain ⟨h, t, hov, hha, hlt⟩ := hrch.head
  obtain ⟨z, hz, hzb, hzlt⟩ := chain_getLast hrch
  have hh : ((asc ob g).map toSeg).head? = some h := by rw [hov]; rfl
  cases ob with
  | true =>
    simp only [if_true]
    rw [bare_general segs hv n true g hg (n.s + ps) (n.s + ps + pe - ps) (by omega) (by omega) (by omega) ?_ ?_ total]
    · simp only [if_true, Bool.not_true]
      congr 3 <;> omega
    · intro f hf
      rw [hh] at hf; injection hf with hf; subst hf
      rw [head_asc_true, Option.map_eq_some_iff] at hh
      obtain ⟨p, hp, rfl⟩ := hh
      have := hF p hp
      simp only [toSeg, RSeg.en] at hha ⊢
      omega
    · intro z' hz'
      rw [hz] at hz'; injection hz' with hz'; subst hz'
      rw [last_asc_true, Option.map_eq_some_iff] at hz
      obtain ⟨p, hp, rfl⟩ := hz
      have := hL p hp
      simp only [toSeg, RSeg.en] at hzb ⊢
      omega
  | false =>
    simp only [Bool.false_eq_true, if_false]
    rw [bare_general segs hv n false g hg (n.s + plen - pe) (n.s + plen - pe + pe - ps) (by omega) (by omega) (by omega) ?_ ?_ total]
    · simp only [Bool.false_eq_true, if_false, Bool.not_false]
      congr 3 <;> omega
    · intro f hf
      rw [hh] at hf; injection hf with hf; subst hf
      rw [head_asc_false, Option.map_eq_some_iff] at hh
      obtain ⟨p, hp, rfl⟩ := hh
      have := hL p hp
      simp only [toSeg, RSeg.en] at hha ⊢
      omega
    · intro z' hz'
      rw [hz] at hz'; injection hz' with hz'; subst hz'
      rw [last_asc_false, Option.map_eq_some_iff] at hz
      obtain ⟨p, hp, rfl⟩ := hz
      have := hF p hp
      simp only [toSeg, RSeg.en] at hzb ⊢
      omega

end Gaftools.Proofs.Roundtrip
