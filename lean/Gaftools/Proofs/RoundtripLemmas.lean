import Gaftools.Props.C01b
import Gaftools.Model.ConvText
/-!
# Helper lemmas for `Props/C02.lean` (round trips of the coordinate conversion, CIGAR reversal, printed record)
-/
namespace Gaftools.Proofs.Roundtrip
open Gaftools.Gaf Gaftools.Stat Gaftools.Conv Gaftools.ConvText Gaftools.Spec.Conv Gaftools.C01

/-! ## `groupDigits` / `cigarPairs` -/

/-- the groups concatenate to the input -/
theorem groupDigits_flatten (s : Str) : (groupDigits s).flatten = s := by
  induction s with
  | nil => rfl
  | cons c cs ih =>
    unfold groupDigits
    split
    · rename_i h
      rw [h] at ih
      simp only [List.flatten_nil] at ih
      subst ih; rfl
    · rename_i g gs h
      rw [h] at ih
      split
      · split
        · simp only [List.flatten_cons, List.cons_append] at ih ⊢
          rw [ih]
        · simp only [List.flatten_cons, List.cons_append, List.nil_append] at ih ⊢
          rw [ih]
      · simp only [List.flatten_cons, List.nil_append, List.cons_append] at ih ⊢
        rw [ih]

/-- a non-empty homogeneous run in front of a string whose first group is of the other kind is a group of its own -/
theorem groupDigits_run (b : Bool) (run rest : Str) (hne : run ≠ []) (hall : ∀ c ∈ run, c.isDigit = b)
    (hrest : ∀ g gs, groupDigits rest = g :: gs → ∃ d t, g = d :: t ∧ d.isDigit ≠ b) :
    groupDigits (run ++ rest) = run :: groupDigits rest := by
  induction run with
  | nil => exact absurd rfl hne
  | cons c run ih =>
    have hc : c.isDigit = b := hall c (by simp)
    cases run with
    | nil =>
      simp only [List.cons_append, List.nil_append]
      rw [groupDigits]
      split
      · rename_i h; rw [h]
      · rename_i g gs h
        obtain ⟨d, t, hg, hd⟩ := hrest g gs h
        subst hg
        simp only
        rw [if_neg (by rw [hc]; intro hh; exact hd (beq_iff_eq.1 hh).symm)]
        rw [h]
    | cons c' run' =>
      have ih' := ih (by simp) (fun x hx => hall x (by simp [hx]))
      have hc' : c'.isDigit = b := hall c' (by simp)
      rw [List.cons_append, groupDigits, ih']
      simp only
      rw [if_pos (by rw [hc, hc']; simp)]

/-- the (length, operation) pairs of a well-formed CIGAR -/
def WfP (l : List (Str × Str)) : Prop :=
  ∀ p ∈ l, p.1 ≠ [] ∧ (∀ c ∈ p.1, c.isDigit = true) ∧ p.2 ≠ [] ∧ (∀ c ∈ p.2, c.isDigit = false)

theorem groupDigits_pairs (l : List (Str × Str)) (h : WfP l) :
    groupDigits (l.flatMap (fun p => p.1 ++ p.2)) = l.flatMap (fun p => [p.1, p.2]) := by
  induction l with
  | nil => rfl
  | cons p l ih =>
    obtain ⟨h1, h2, h3, h4⟩ := h p (by simp)
    have hl : WfP l := fun q hq => h q (by simp [hq])
    have ih' := ih hl
    simp only [List.flatMap_cons, List.append_assoc]
    have hrest : ∀ g gs, groupDigits (l.flatMap (fun p => p.1 ++ p.2)) = g :: gs → ∃ d t, g = d :: t ∧ d.isDigit ≠ false := by
      intro g gs hg
      rw [ih'] at hg
      cases l with
      | nil => simp at hg
      | cons q l' =>
        obtain ⟨q1, q2, _, _⟩ := h q (by simp)
        simp only [List.flatMap_cons, List.cons_append, List.nil_append, List.cons.injEq] at hg
        obtain ⟨hg1, _⟩ := hg
        subst hg1
        cases hq : q.1 with
        | nil => exact absurd hq q1
        | cons d t =>
          refine ⟨d, t, rfl, ?_⟩
          rw [q2 d (by rw [hq]; simp)]
          simp
    have e2 := groupDigits_run false p.2 _ h3 h4 hrest
    have hrest1 : ∀ g gs, groupDigits (p.2 ++ l.flatMap (fun p => p.1 ++ p.2)) = g :: gs → ∃ d t, g = d :: t ∧ d.isDigit ≠ true := by
      intro g gs hg
      rw [e2] at hg
      simp only [List.cons.injEq] at hg
      obtain ⟨hg1, _⟩ := hg
      subst hg1
      cases hq : p.2 with
      | nil => exact absurd hq h3
      | cons d t =>
        refine ⟨d, t, rfl, ?_⟩
        rw [h4 d (by rw [hq]; simp)]
        simp
    rw [groupDigits_run true p.1 _ h1 h2 hrest1, e2, ih']
    rfl

theorem cigarPairs_flatMap (l : List (Str × Str)) : cigarPairs (l.flatMap (fun p => [p.1, p.2])) = l := by
  induction l with
  | nil => rfl
  | cons p l ih =>
    simp only [List.flatMap_cons, List.cons_append, List.nil_append, cigarPairs, ih]

theorem flatMap_pair_flatten (l : List (Str × Str)) :
    (l.flatMap (fun p => [p.1, p.2])).flatten = l.flatMap (fun p => p.1 ++ p.2) := by
  induction l with
  | nil => rfl
  | cons p l ih =>
    simp only [List.flatMap_cons, List.cons_append, List.nil_append, List.flatten_cons, ih, List.append_assoc]

/-- reversing a well-formed pair list and reading it back -/
theorem reverse_pairs (l : List (Str × Str)) (h : WfP l) :
    cigarPairs (groupDigits (l.flatMap (fun p => p.1 ++ p.2))) = l := by
  rw [groupDigits_pairs l h, cigarPairs_flatMap]

theorem mem_cigarPairs : ∀ (toks : List Str) (p : Str × Str), p ∈ cigarPairs toks → p.1 ∈ toks ∧ p.2 ∈ toks
  | [], p, h => by simp [cigarPairs] at h
  | [_], p, h => by simp [cigarPairs] at h
  | n :: op :: rest, p, h => by
    simp only [cigarPairs, List.mem_cons] at h
    rcases h with rfl | h
    · simp
    · obtain ⟨h1, h2⟩ := mem_cigarPairs rest p h
      simp [h1, h2]

/-- `reverse_cigar` only permutes characters of its input -/
theorem mem_reverseCigarStr (cg : Str) (c : Char) (h : c ∈ reverseCigarStr cg) : c ∈ cg := by
  unfold reverseCigarStr at h
  rw [List.mem_flatMap] at h
  obtain ⟨p, hp, hc⟩ := h
  rw [List.mem_reverse] at hp
  obtain ⟨h1, h2⟩ := mem_cigarPairs _ p hp
  rw [← groupDigits_flatten cg, List.mem_flatten]
  rcases List.mem_append.1 hc with hc | hc
  · exact ⟨p.1, h1, hc⟩
  · exact ⟨p.2, h2, hc⟩

end Gaftools.Proofs.Roundtrip
