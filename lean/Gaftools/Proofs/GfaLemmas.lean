import Gaftools.Model.Gfa
/-!
# Lemmas about the graph reader (`readGraph`): which nodes exist, what the adjacency sets contain

* `has_readGraph`        — node ids of the graph = ids of the S records
* `find_readGraph_seq`   — the stored sequence is that of the *first* S record with the id
* `mem_adj_readGraph`    — an adjacency entry is present iff some L record with both endpoints declared contributes it
-/
namespace Gaftools.Proofs.Gfa
open Gaftools.Gfa

/-! ## `setInsert` -/

theorem mem_setInsert {α} [BEq α] [LawfulBEq α] (x y : α) (l : List α) :
    y ∈ setInsert x l ↔ y = x ∨ y ∈ l := by
  unfold setInsert
  split
  · rename_i h
    have hx : x ∈ l := by simpa using h
    constructor
    · intro hy; exact Or.inr hy
    · rintro (rfl | hy)
      · exact hx
      · exact hy
  · simp [or_comm]

/-! ## node ids -/

/-- ids of the nodes, in insertion order -/
def ids (g : Graph) : List String := g.nodes.map (·.id)

theorem has_iff_mem (g : Graph) (id : String) : g.has id = true ↔ id ∈ ids g := by
  simp [Graph.has, ids]

theorem has_congr {g g' : Graph} (h : ids g = ids g') (id : String) : g.has id = g'.has id := by
  rw [Bool.eq_iff_iff, has_iff_mem, has_iff_mem, h]

theorem map_id_addAdj (ns : List Node) (id : String) (side : Bool) (e : Adj) :
    (addAdj ns id side e).map (·.id) = ns.map (·.id) := by
  unfold addAdj
  rw [List.map_map]
  apply List.map_congr_left
  intro n _
  simp only [Function.comp]
  split
  · split <;> rfl
  · rfl

theorem ids_addEdge (g : Graph) (l : LinkLine) : ids (addEdge g l) = ids g := by
  simp [ids, addEdge, eDir, map_id_addAdj]

theorem has_addEdge (g : Graph) (l : LinkLine) (id : String) : (addEdge g l).has id = g.has id :=
  has_congr (ids_addEdge g l) id

/-- one step of the link loop of `read_graph` -/
def linkStep (g : Graph) (l : LinkLine) : Graph := if g.has l.a && g.has l.b then addEdge g l else g

theorem ids_linkStep (g : Graph) (l : LinkLine) : ids (linkStep g l) = ids g := by
  unfold linkStep; split
  · exact ids_addEdge g l
  · rfl

theorem ids_foldl_linkStep (ls : List LinkLine) (g : Graph) : ids (ls.foldl linkStep g) = ids g := by
  induction ls generalizing g with
  | nil => rfl
  | cons l ls ih => rw [List.foldl_cons, ih, ids_linkStep]

theorem has_foldl_linkStep (ls : List LinkLine) (g : Graph) (id : String) :
    (ls.foldl linkStep g).has id = g.has id :=
  has_congr (ids_foldl_linkStep ls g) id

theorem has_addNode (g : Graph) (s : SegLine) (lm : Bool) (id : String) :
    (addNode g s lm).has id = (g.has id || s.id == id) := by
  unfold addNode
  split
  · rename_i h
    by_cases hid : s.id = id
    · subst hid; simp [h]
    · simp [hid]
  · simp [Graph.has, List.any_append]

theorem has_foldl_addNode (segs : List SegLine) (lm : Bool) (g : Graph) (id : String) :
    (segs.foldl (fun g s => addNode g s lm) g).has id = (g.has id || segs.any (·.id == id)) := by
  induction segs generalizing g with
  | nil => simp
  | cons s segs ih => rw [List.foldl_cons, ih, has_addNode, List.any_cons, Bool.or_assoc]

/-- the graph after the S records -/
def segGraph (t : GfaFile) (lm : Bool) : Graph := t.segs.foldl (fun g s => addNode g s lm) Graph.empty

theorem readGraph_eq (t : GfaFile) (lm : Bool) : readGraph t lm = t.links.foldl linkStep (segGraph t lm) := rfl

theorem has_segGraph (t : GfaFile) (lm : Bool) (id : String) : (segGraph t lm).has id = t.segs.any (·.id == id) := by
  unfold segGraph
  rw [has_foldl_addNode]; simp [Graph.has, Graph.empty]

/-- (a) the node ids of the graph are the ids of the S records -/
theorem has_readGraph (t : GfaFile) (lm : Bool) (id : String) : (readGraph t lm).has id = t.segs.any (·.id == id) := by
  rw [readGraph_eq, has_foldl_linkStep, has_segGraph]

/-! ## `find` -/

theorem find_isSome (g : Graph) (id : String) : (g.find id).isSome = g.has id := by
  unfold Graph.find Graph.has
  rw [Bool.eq_iff_iff]; simp


theorem find_id {g : Graph} {id : String} {n : Node} (h : g.find id = some n) : n.id = id := by
  unfold Graph.find at h
  simpa using List.find?_some h

/-- what `addAdj` does to one node -/
def updNode (id : String) (side : Bool) (e : Adj) (n : Node) : Node :=
  if n.id == id then
    (if side then { n with endAdj := setInsert e n.endAdj } else { n with startAdj := setInsert e n.startAdj }) else n

theorem addAdj_eq_map (ns : List Node) (id : String) (side : Bool) (e : Adj) :
    addAdj ns id side e = ns.map (updNode id side e) := rfl

@[simp] theorem updNode_id (id : String) (side : Bool) (e : Adj) (n : Node) : (updNode id side e n).id = n.id := by
  unfold updNode; split
  · split <;> rfl
  · rfl

@[simp] theorem updNode_seq (id : String) (side : Bool) (e : Adj) (n : Node) : (updNode id side e n).seq = n.seq := by
  unfold updNode; split
  · split <;> rfl
  · rfl

theorem find?_addAdj (ns : List Node) (id' : String) (side : Bool) (e : Adj) (id : String) :
    (addAdj ns id' side e).find? (·.id == id) = (ns.find? (·.id == id)).map (updNode id' side e) := by
  rw [addAdj_eq_map, List.find?_map]
  congr 2
  funext n; simp

theorem find_addEdge (g : Graph) (l : LinkLine) (id : String) :
    (addEdge g l).find id =
      ((g.find id).map (updNode l.a l.da (l.b, !l.db, l.ov))).map (updNode l.b (!l.db) (l.a, l.da, l.ov)) := by
  simp only [Graph.find, addEdge, eDir, find?_addAdj]

theorem find_seq_addEdge (g : Graph) (l : LinkLine) (id : String) :
    ((addEdge g l).find id).map (·.seq) = (g.find id).map (·.seq) := by
  rw [find_addEdge]; cases g.find id <;> simp

theorem find_seq_linkStep (g : Graph) (l : LinkLine) (id : String) :
    ((linkStep g l).find id).map (·.seq) = (g.find id).map (·.seq) := by
  unfold linkStep; split
  · exact find_seq_addEdge g l id
  · rfl

theorem find_seq_foldl_linkStep (ls : List LinkLine) (g : Graph) (id : String) :
    ((ls.foldl linkStep g).find id).map (·.seq) = (g.find id).map (·.seq) := by
  induction ls generalizing g with
  | nil => rfl
  | cons l ls ih => rw [List.foldl_cons, ih, find_seq_linkStep]

theorem find_seq_addNode (g : Graph) (s : SegLine) (lm : Bool) (id : String) :
    ((addNode g s lm).find id).map (·.seq) =
      ((g.find id).map (·.seq)).or (if s.id == id then some (if lm then "" else s.seq) else none) := by
  unfold addNode
  split
  · rename_i h
    split
    · rename_i hid
      have hid : s.id = id := by simpa using hid
      subst hid
      rw [← find_isSome] at h
      cases hf : g.find s.id with
      | none => simp [hf] at h
      | some n => simp
    · simp
  · rename_i h
    simp only [Graph.find, List.find?_append, List.find?_cons, List.find?_nil]
    cases hf : g.nodes.find? (·.id == id) with
    | none => split <;> simp_all
    | some n => simp

theorem find_seq_foldl_addNode (segs : List SegLine) (lm : Bool) (g : Graph) (id : String) :
    ((segs.foldl (fun g s => addNode g s lm) g).find id).map (·.seq) =
      ((g.find id).map (·.seq)).or ((segs.find? (·.id == id)).map (fun s => if lm then "" else s.seq)) := by
  induction segs generalizing g with
  | nil => simp
  | cons s segs ih =>
    rw [List.foldl_cons, ih, find_seq_addNode]
    cases (g.find id).map (·.seq) with
    | some x => simp
    | none =>
      by_cases h : s.id = id
      · simp [h]
      · simp [h]

/-- (a) the stored sequence is that of the first S record with the id -/
theorem find_seq_readGraph (t : GfaFile) (lm : Bool) (id : String) :
    ((readGraph t lm).find id).map (·.seq) = (t.segs.find? (·.id == id)).map (fun s => if lm then "" else s.seq) := by
  rw [readGraph_eq, find_seq_foldl_linkStep, segGraph, find_seq_foldl_addNode]
  simp [Graph.find, Graph.empty]

/-! ## adjacency -/

/-- adjacency set of one node on one side -/
def Node.adj (n : Node) (side : Bool) : List Adj := if side then n.endAdj else n.startAdj

theorem adj_eq (g : Graph) (id : String) (side : Bool) :
    g.adj id side = match g.find id with | some n => Node.adj n side | none => [] := rfl

theorem mem_adj_updNode (id' : String) (side' : Bool) (e : Adj) (n : Node) (side : Bool) (x : Adj) :
    x ∈ Node.adj (updNode id' side' e n) side ↔ x ∈ Node.adj n side ∨ (n.id = id' ∧ side = side' ∧ x = e) := by
  unfold updNode Node.adj
  by_cases hid : n.id = id'
  · cases side <;> cases side' <;> simp [hid, mem_setInsert, or_comm]
  · simp [hid]

/-- the entries `add_edge` puts into the set `(n, s)` -/
def Contrib (l : LinkLine) (n : String) (s : Bool) (x : Adj) : Prop :=
  (n = l.a ∧ s = l.da ∧ x = (l.b, !l.db, l.ov)) ∨ (n = l.b ∧ s = (!l.db) ∧ x = (l.a, l.da, l.ov))

theorem mem_adj_addEdge (g : Graph) (l : LinkLine) (n : String) (s : Bool) (x : Adj) :
    x ∈ (addEdge g l).adj n s ↔ x ∈ g.adj n s ∨ (g.has n = true ∧ Contrib l n s x) := by
  rw [adj_eq, adj_eq, find_addEdge, ← find_isSome]
  cases hf : g.find n with
  | none => simp
  | some nd =>
    have hid := find_id hf
    simp only [Option.map_some, mem_adj_updNode, updNode_id, hid, Option.isSome_some, true_and, Contrib, or_assoc]

theorem mem_adj_linkStep (g : Graph) (l : LinkLine) (n : String) (s : Bool) (x : Adj) :
    x ∈ (linkStep g l).adj n s ↔
      x ∈ g.adj n s ∨ (g.has l.a = true ∧ g.has l.b = true ∧ Contrib l n s x) := by
  unfold linkStep
  split
  · rename_i h
    simp only [Bool.and_eq_true] at h
    rw [mem_adj_addEdge]
    constructor
    · rintro (hx | ⟨_, hc⟩)
      · exact Or.inl hx
      · exact Or.inr ⟨h.1, h.2, hc⟩
    · rintro (hx | ⟨_, _, hc⟩)
      · exact Or.inl hx
      · refine Or.inr ⟨?_, hc⟩
        rcases hc with ⟨rfl, _⟩ | ⟨rfl, _⟩
        · exact h.1
        · exact h.2
  · rename_i h
    simp only [Bool.and_eq_true] at h
    constructor
    · exact Or.inl
    · rintro (hx | ⟨ha, hb, _⟩)
      · exact hx
      · exact absurd ⟨ha, hb⟩ h

/-- (b) invariant of the link loop -/
theorem mem_adj_foldl_linkStep (ls : List LinkLine) (g : Graph) (n : String) (s : Bool) (x : Adj) :
    x ∈ (ls.foldl linkStep g).adj n s ↔
      x ∈ g.adj n s ∨ ∃ l ∈ ls, g.has l.a = true ∧ g.has l.b = true ∧ Contrib l n s x := by
  induction ls generalizing g with
  | nil => simp
  | cons l ls ih =>
    rw [List.foldl_cons, ih, mem_adj_linkStep]
    simp only [has_congr (ids_linkStep g l), List.mem_cons, exists_eq_or_imp, or_assoc]

theorem adj_nil_addNode (g : Graph) (sg : SegLine) (lm : Bool) (h : ∀ n s, g.adj n s = []) :
    ∀ n s, (addNode g sg lm).adj n s = [] := by
  intro n s
  unfold addNode
  split
  · exact h n s
  · have := h n s
    rw [adj_eq] at this ⊢
    simp only [Graph.find, List.find?_append] at this ⊢
    cases hf : g.nodes.find? (·.id == n) with
    | some nd => simpa [hf] using this
    | none =>
      simp only [Option.none_or, List.find?_cons, List.find?_nil]
      cases sg.id == n
      · rfl
      · cases s <;> rfl

theorem adj_segGraph (t : GfaFile) (lm : Bool) (n : String) (s : Bool) : (segGraph t lm).adj n s = [] := by
  unfold segGraph
  suffices H : ∀ (segs : List SegLine) (g : Graph), (∀ n s, g.adj n s = []) →
      ∀ n s, (segs.foldl (fun g s => addNode g s lm) g).adj n s = [] from
    H t.segs Graph.empty (fun _ _ => rfl) n s
  intro segs
  induction segs with
  | nil => intro g h; exact h
  | cons sg segs ih => intro g h; exact ih _ (adj_nil_addNode g sg lm h)

/-- (b) an adjacency entry of the graph read from `t` comes from an L record with both endpoints declared -/
theorem mem_adj_readGraph (t : GfaFile) (lm : Bool) (n : String) (s : Bool) (x : Adj) :
    x ∈ (readGraph t lm).adj n s ↔
      ∃ l ∈ t.links, t.segs.any (·.id == l.a) = true ∧ t.segs.any (·.id == l.b) = true ∧ Contrib l n s x := by
  rw [readGraph_eq, mem_adj_foldl_linkStep, adj_segGraph]
  simp only [has_segGraph, List.not_mem_nil, false_or]

/-! ## `revComp` -/

theorem revComp_empty : revComp "" = "" := by
  simp [revComp]

theorem revComp_append (a b : String) : revComp (a ++ b) = revComp b ++ revComp a := by
  unfold revComp
  rw [String.toList_append, List.reverse_append, List.map_append, String.ofList_append]

theorem revComp_revComp (s : String) (h : ∀ c ∈ s.toList, comp (comp c) = c) : revComp (revComp s) = s := by
  unfold revComp
  rw [String.toList_ofList, ← List.map_reverse, List.reverse_reverse, List.map_map]
  conv => rhs; rw [← String.ofList_toList (s := s)]
  congr 1
  conv => rhs; rw [← List.map_id s.toList]
  apply List.map_congr_left
  intro c hc
  exact h c hc

theorem revComp_join (l : List String) : revComp (String.join l) = String.join (l.reverse.map revComp) := by
  induction l with
  | nil => simp [revComp_empty]
  | cons s l ih =>
    rw [String.join_cons, revComp_append, ih, List.reverse_cons, List.map_append, String.join_append]
    simp

end Gaftools.Proofs.Gfa
