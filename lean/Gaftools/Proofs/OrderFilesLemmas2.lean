import Gaftools.Proofs.OrderFilesLemmas
/-!
# Lemmas for C07b (`orderFiles_spec`), part 2: the tag list of a written chromosome is a `GoodTags` list

* a name that `name_comps` did not file (empty component) is never written: `decompose nb []` is not `.ok`
* the numbering of an accepted chain is strictly increasing in (BO, NO) and names every node of the component exactly once
-/
namespace Gaftools.Proofs.OrderFiles
open Gaftools.Gfa Gaftools.Algo Gaftools.Order Gaftools.Spec.Order Gaftools.Spec.Graph
open Gaftools.Proofs.Gfa Gaftools.Proofs.Write Gaftools.Proofs.Chain Gaftools.Proofs.OrderRun
open Gaftools.Proofs.Bicc (adv D)

/-! ## the empty component -/

def Q0 (nb : V → List V) (s : BSt) : Prop := s.comps = [] ∧ ∃ f, s.stack = [f] ∧ f.nbrs = nb f.child

def Q1 (s : BSt) : Prop :=
  s.comps = [] ∧ (s.stack.length ≤ 1 ∨ ∃ f f', s.stack = [f, f'] ∧ f.ptr < f.nbrs.length)

theorem step_Q0 (nb : V → List V) (hsymm : ∀ a b, b ∈ nb a → a ∈ nb b) (s : BSt) (h : Q0 nb s) : Q1 (bstep nb s) := by
  obtain ⟨hc, f0, hst, hnb⟩ := h
  apply Gaftools.Proofs.Bicc.bstep_cases nb s Q1
  · intro h; exact ⟨hc, Or.inl (by rw [h]; simp)⟩
  · intro f rest h _ _
    rw [hst] at h; injection h with h1 h2; subst h2
    exact ⟨hc, Or.inl (by simp)⟩
  · intro f rest nn h _ _ _ _ _
    rw [hst] at h; injection h with h1 h2; subst h2
    exact ⟨hc, Or.inl (by simp)⟩
  · intro f rest nn h _ _ _ _ _
    rw [hst] at h; injection h with h1 h2; subst h2
    exact ⟨hc, Or.inl (by simp)⟩
  · intro f rest nn h hlt hnn _ _
    rw [hst] at h; injection h with h1 h2; subst h2; subst h1
    refine ⟨hc, Or.inr ⟨⟨f0.child, nn, 0, nb nn⟩, adv f0, rfl, ?_⟩⟩
    simp only
    have hmem : nn ∈ nb f0.child := by
      rw [hnn, ← hnb]; exact getD_mem_of_lt hlt
    exact List.length_pos_of_mem (hsymm _ _ hmem)
  · intro f rest h _ hr _
    rw [hst] at h; injection h with h1 h2; subst h2
    simp at hr
  · intro f rest h _ hr _
    rw [hst] at h; injection h with h1 h2; subst h2
    simp at hr
  · intro f rest h _ hr
    rw [hst] at h; injection h with h1 h2; subst h2
    simp at hr
  · intro f _ _
    exact ⟨hc, Or.inl (by simp)⟩

theorem step_Q1 (nb : V → List V) (s : BSt) (h : Q1 s) : (bstep nb s).comps = [] := by
  obtain ⟨hc, hst⟩ := h
  apply Gaftools.Proofs.Bicc.bstep_cases nb s (fun s => s.comps = [])
  · intro _; exact hc
  · intro f rest _ _ _; exact hc
  · intro f rest nn _ _ _ _ _ _; exact hc
  · intro f rest nn _ _ _ _ _ _; exact hc
  · intro f rest nn _ _ _ _ _; exact hc
  · intro f rest h _ hr _
    exfalso
    rcases hst with hl | ⟨f1, f2, h12, _⟩
    · rw [h] at hl; simp only [List.length_cons] at hl; omega
    · rw [h] at h12; injection h12 with _ h2; subst h2; simp at hr
  · intro f rest _ _ _ _; exact hc
  · intro f rest h hn hr
    exfalso
    rcases hst with hl | ⟨f1, f2, h12, hlt⟩
    · rw [h] at hl; simp only [List.length_cons] at hl; omega
    · rw [h] at h12; injection h12 with h1 _; subst h1; exact hn hlt
  · intro f _ _; exact hc

theorem comps_two_steps (nb : V → List V) (hsymm : ∀ a b, b ∈ nb a → a ∈ nb b) (root : V) :
    (biccsFrom nb root 2).1 = [] := by
  show (bgo nb 2 (Gaftools.Proofs.Bicc.init nb root)).comps = []
  have h0 : Q0 nb (Gaftools.Proofs.Bicc.init nb root) := ⟨rfl, _, rfl, rfl⟩
  generalize Gaftools.Proofs.Bicc.init nb root = s0 at h0 ⊢
  have h1 := step_Q0 nb hsymm s0 h0
  have h2 := step_Q1 nb _ h1
  simp only [bgo]
  split
  · exact h0.1
  · split
    · exact h1.1
    · exact h2

/-- a name that was not filed (empty component) is never accepted -/
theorem decompose_nil' (nb : V → List V) (hsymm : ∀ a b, b ∈ nb a → a ∈ nb b) (so : V → Option Int)
    (sn : V → Option String) (l : Local) : decompose nb [] so sn ≠ .ok l := by
  intro h
  obtain ⟨s, hb, hf⟩ := Gaftools.C06.decompose_ok_stages nb [] so sn l (by simp) h
  have hfuel : biccFuel nb [] = 2 := by simp [biccFuel]
  rw [hfuel, comps_two_steps nb hsymm] at hb
  generalize sortStrings (biccsFrom nb ((sortStrings []).headD "") 2).2 = aps at hb
  have hs : s = ⟨aps.map Elt.scaffold, [], []⟩ := by
    have : buildScaffold [] aps = .ok ⟨aps.map Elt.scaffold, [], []⟩ := rfl
    rw [this] at hb
    injection hb with hb
    exact hb.symm
  have hcen := (Gaftools.C06.finish_ok_census s _ so sn l hf).1
  rw [hs] at hcen
  have hnil : List.filter (fun e : Elt => false) (List.map Elt.scaffold aps) = [] :=
    List.filter_eq_nil_iff.mpr (by simp)
  simp only [Scaffold.nbrs, List.filterMap_nil, List.eraseDups_nil, List.length_nil] at hcen
  simp [hnil] at hcen

/-! ## the numbering of a chain -/

def natKeyLt (x y : V × Nat × Nat) : Prop := x.2.1 < y.2.1 ∨ (x.2.1 = y.2.1 ∧ x.2.2 < y.2.2)

/-- what `numberChain` emits for the `k`-th chain element -/
def numF (s : Scaffold) : Elt × Nat → List (V × Nat × Nat) := fun (e, k) => match e with
  | .scaffold id => [(id, k, 0)]
  | .bubble i => (sortStrings (s.bubbles.getD i [])).zipIdx.map (fun (n, j) => (n, k, j + 1))

theorem numberChain_eq (s : Scaffold) (tr : List Elt) : numberChain s tr = tr.zipIdx.flatMap (numF s) := rfl

theorem numF_k (s : Scaffold) (e : Elt) (k : Nat) (x : V × Nat × Nat) (hx : x ∈ numF s (e, k)) : x.2.1 = k := by
  cases e with
  | scaffold id =>
    simp only [numF, List.mem_singleton] at hx
    rw [hx]
  | bubble i =>
    simp only [numF, List.mem_map] at hx
    obtain ⟨⟨n, j⟩, _, rfl⟩ := hx
    rfl

theorem numF_sorted (s : Scaffold) (e : Elt) (k : Nat) : (numF s (e, k)).Pairwise natKeyLt := by
  cases e with
  | scaffold id => simp [numF]
  | bubble i =>
    simp only [numF]
    rw [List.pairwise_iff_getElem]
    intro a b ha hb hab
    simp only [List.getElem_map, List.getElem_zipIdx]
    right
    exact ⟨rfl, by simp only; omega⟩

theorem numberChain_sorted (s : Scaffold) (tr : List Elt) : (numberChain s tr).Pairwise natKeyLt := by
  rw [numberChain_eq, List.pairwise_flatMap]
  refine ⟨fun a _ => numF_sorted s a.1 a.2, ?_⟩
  rw [List.pairwise_iff_getElem]
  intro a b ha hb hab x hx y hy
  rw [List.getElem_zipIdx] at hx hy
  have h1 := numF_k s _ _ x hx
  have h2 := numF_k s _ _ y hy
  left
  omega

/-- the numbering of an accepted chromosome: strictly increasing keys, exactly the nodes of the component, each once -/
structure GoodOrder (comp : List V) (order : List (V × Nat × Nat)) : Prop where
  sorted : order.Pairwise natKeyLt
  nodup : (order.map (·.1)).Nodup
  mem : ∀ v, v ∈ order.map (·.1) ↔ v ∈ comp

theorem goodOrder_single (v : V) : GoodOrder [v] [(v, 0, 0)] :=
  ⟨by simp, by simp, by simp⟩

theorem goodTags_of_goodOrder {t : GfaFile} {comp : List V} {order : List (V × Nat × Nat)} (h : GoodOrder comp order)
    (hcnd : comp.Nodup) (hsub : ∀ v ∈ comp, v ∈ t.segs.map (·.id)) (lo : Int) :
    GoodTags t comp (order.map (fun (v, k, no) => (v, lo + (k : Int), (no : Int)))) := by
  have hfst : (order.map (fun (v, k, no) => (v, lo + (k : Int), (no : Int)))).map (·.1) = order.map (·.1) := by
    rw [List.map_map]
    apply List.map_congr_left
    intro x _
    rfl
  refine ⟨?_, ?_, ?_, hcnd, hsub⟩
  · rw [List.pairwise_map]
    refine h.sorted.imp ?_
    intro a b hab
    obtain ⟨v, k, no⟩ := a
    obtain ⟨v', k', no'⟩ := b
    unfold natKeyLt at hab
    unfold keyLt
    simp only at hab ⊢
    omega
  · rw [hfst]; exact h.nodup
  · intro v; rw [hfst]; exact h.mem v

section built
variable {nb : V → List V} {comp : List V} {bl : List (List V)} {ap : List V} {s : Scaffold} {tr : List Elt}

theorem goodOrder_built (h : Built nb comp bl ap s tr) (hall : ∀ v ∈ comp, ∃ C ∈ bl, v ∈ C) :
    GoodOrder comp (numberChain s tr) := by
  have hsorted := numberChain_sorted s tr
  refine ⟨hsorted, ?_, ?_⟩
  · unfold List.Nodup
    rw [List.pairwise_map]
    refine hsorted.imp_of_mem ?_
    intro a b ha hb hab he
    obtain ⟨v, k, no⟩ := a
    obtain ⟨v', k', no'⟩ := b
    simp only at he
    subst he
    have := h.number_unique ha hb
    unfold natKeyLt at hab
    simp only at hab
    omega
  · intro v
    constructor
    · intro hv
      rw [List.mem_map] at hv
      obtain ⟨⟨v', k, no⟩, hx, rfl⟩ := hv
      simp only
      rcases Gaftools.C18.numberChain_only s tr v' k no hx with ⟨t1, _⟩ | ⟨i, _, _, s1⟩
      · exact h.bc.apSub _ (h.scaffold_mem.mp (List.mem_of_getElem? t1))
      · have hv := List.mem_of_getElem? s1
        rw [Gaftools.Proofs.Bicc2.mem_sortStrings, h.sbubbles] at hv
        obtain ⟨C, hC, hp, _⟩ := bubble_block (getD_inner_mem hv)
        rw [hp] at hv
        exact h.bc.blSub C hC _ (mem_part_inner.mp hv).1
    · intro hv
      have h1 := spec1_ok h hall
      unfold spec1 at h1
      rw [List.all_eq_true] at h1
      have h2 := h1 v hv
      unfold tagOf at h2
      rw [Option.isSome_map, List.find?_isSome] at h2
      obtain ⟨x, hx, hxv⟩ := h2
      exact List.mem_map.mpr ⟨x, hx, by simpa using hxv⟩

end built

/-- whatever `decompose` accepts for a connected component is a good numbering of its nodes -/
theorem goodOrder_of_decompose (nb : V → List V) (comp : List V) (so : V → Option Int) (sn : V → Option String) (l : Local)
    (hu : Undirected nb comp) (hd : comp.Nodup) (hc : connectedB nb comp = true) (htab : ∀ v ∈ comp, '\t' ∉ v.toList)
    (hne : comp ≠ []) (h : decompose nb comp so sn = .ok l) : GoodOrder comp l.order := by
  by_cases hlen : comp.length = 1
  · match comp, hlen with
    | [v], _ =>
      have : l = ⟨[v], [], [(v, 0, 0)], 1, 0⟩ := by
        simp only [decompose] at h
        injection h with h
        exact h.symm
      rw [this]
      exact goodOrder_single v
  · obtain ⟨s, tr, cs, hb, hp, hl, _, _, _⟩ := Gaftools.C06.decompose_ok_chain_full nb comp so sn l hu hd hc htab hlen h
    have hbc := Gaftools.C06.rep_blockCut nb comp hu hd hc hne
    have hB : Built nb comp (Gaftools.C06.rep nb comp).1 (sortStrings (Gaftools.C06.rep nb comp).2) s tr := ⟨hbc, hb, hp⟩
    have hreach : ∀ a ∈ comp, ∀ b ∈ comp, Reach nb a b :=
      fun a ha b hb' => Gaftools.Proofs.Bicc.connected_reach nb comp hu hc a b ha hb'
    have hall := hbc.all_in hreach hd hlen
    rw [hl]
    exact goodOrder_built hB hall

end Gaftools.Proofs.OrderFiles
