import Gaftools.Spec.Glue
import Gaftools.Model.ConvText
import Gaftools.Proofs.GfaLemmas
import Gaftools.Proofs.WriteLemmas
import Gaftools.Proofs.GafLemmas
/-!
# Lemmas for `Props/Glue`: node infos of the loaded graph, and the text layer of paths
-/
namespace Gaftools.Proofs.Glue
open Gaftools.Gfa Gaftools.View Gaftools.Conv Gaftools.ConvText Gaftools.Spec.Conv Gaftools.Spec.Glue
open Gaftools.Proofs.Gfa Gaftools.Proofs.Write

/-! ## node infos -/

theorem filterMap_congr' {α β} {f g : α → Option β} {l : List α} (h : ∀ a ∈ l, f a = g a) :
    l.filterMap f = l.filterMap g := by
  induction l with
  | nil => rfl
  | cons a l ih =>
    rw [List.filterMap_cons, List.filterMap_cons, h a List.mem_cons_self,
      ih (fun b hb => h b (List.mem_cons_of_mem _ hb))]

theorem flatMap_congr' {α β} {f g : α → List β} {l : List α} (h : ∀ a ∈ l, f a = g a) :
    l.flatMap f = l.flatMap g := by
  induction l with
  | nil => rfl
  | cons a l ih =>
    rw [List.flatMap_cons, List.flatMap_cons, h a List.mem_cons_self,
      ih (fun b hb => h b (List.mem_cons_of_mem _ hb))]

/-- `nodeInfo` only looks at the id and the tags -/
def nodeInfoC (c : String × String × List Tag) : Option NodeInfo := do
  let sn ← tagVal c.2.2 "SN"
  let so ← tagInt c.2.2 "SO"
  let ln ← tagInt c.2.2 "LN"
  let sr ← tagInt c.2.2 "SR"
  return ⟨c.1, sn, so, so + ln, sr⟩

theorem nodeInfo_eq_core (n : Node) : nodeInfo n = nodeInfoC (core n) := rfl

/-- the `NodeInfo` of an rGFA segment -/
def infoOf (s : RSeg) : NodeInfo := ⟨s.id, s.sn, s.so, s.en, s.sr⟩

theorem nodeInfoC_seg (s : SegLine) (q : String) (hln : tagInt s.tags "LN" = some (s.seq.length : Int)) :
    nodeInfoC (s.id, q, s.tags) = (rsegOf s).map infoOf := by
  unfold nodeInfoC rsegOf
  simp only [hln]
  cases tagVal s.tags "SN" with
  | none => rfl
  | some sn =>
    cases tagInt s.tags "SO" with
    | none => rfl
    | some so =>
      cases tagInt s.tags "SR" with
      | none => rfl
      | some sr =>
        simp [infoOf, RSeg.en, String.length_toList]

theorem infos_readGraph' (t : GfaFile) (ht : TaggedRGFA t) (lm : Bool) :
    infos (readGraph t lm) = (rsegsOf t).map infoOf := by
  unfold infos rsegsOf
  have h1 : (readGraph t lm).nodes.filterMap nodeInfo = ((readGraph t lm).nodes.map core).filterMap nodeInfoC := by
    rw [List.filterMap_map]; rfl
  rw [h1, core_readGraph t lm ht.ids, List.filterMap_map, List.map_filterMap]
  apply filterMap_congr'
  intro s hs
  have hn := ht.names s hs
  have hf : s.tags.foldl tagSet [] = s.tags := by
    have := foldl_tagSet_of_nodup s.tags [] (by simpa [names] using hn)
    simpa using this
  simp only [Function.comp, hf]
  exact nodeInfoC_seg s _ (ht.ln s hs)

/-! ## the tables, over `segs.map infoOf` -/

theorem nodeTable_map (segs : List RSeg) (id : String) :
    (((segs.map infoOf).find? (·.id == id)).map (fun i => (⟨i.sn, i.so, i.en⟩ : SNode))) = nodeTbl segs id := by
  unfold nodeTbl findSeg
  rw [List.find?_map, Option.map_map]
  rfl

theorem refContigs_map (segs : List RSeg) :
    ((((segs.map infoOf).filter (·.sr == 0)).map (·.sn)).eraseDups) = refNames segs := by
  unfold refNames
  rw [List.filter_map, List.map_map]
  rfl

def segOf (i : NodeInfo) : Seg := ⟨i.id, i.so, i.en⟩

theorem map_insertBySo (x : NodeInfo) (l : List NodeInfo) :
    (View.insertBySo x l).map segOf = Spec.Conv.insertBySo (segOf x) (l.map segOf) := by
  induction l with
  | nil => rfl
  | cons y ys ih =>
    simp only [View.insertBySo, List.map_cons, Spec.Conv.insertBySo]
    have : (segOf x).so = x.so := rfl
    have : (segOf y).so = y.so := rfl
    split
    · rw [if_pos (by simpa [segOf] using ‹x.so < y.so›)]; rfl
    · rw [if_neg (by simpa [segOf] using ‹¬ x.so < y.so›), List.map_cons, ih]

theorem map_foldl_insertBySo (xs : List NodeInfo) (acc : List NodeInfo) :
    (xs.foldl (fun acc x => View.insertBySo x acc) acc).map segOf =
      (xs.map segOf).foldl (fun acc x => Spec.Conv.insertBySo x acc) (acc.map segOf) := by
  induction xs generalizing acc with
  | nil => rfl
  | cons x xs ih => rw [List.foldl_cons, ih, List.map_cons, List.foldl_cons, map_insertBySo]

theorem reference_map (segs : List RSeg) (c : String) :
    ((((segs.map infoOf).filter (·.sn == c)).foldl (fun acc x => View.insertBySo x acc) []).map
        (fun i => (⟨i.id, i.so, i.en⟩ : Seg))) = refOf segs c := by
  unfold refOf
  have := map_foldl_insertBySo ((segs.map infoOf).filter (·.sn == c)) []
  unfold segOf at this
  rw [this, List.filter_map, List.map_map]
  rfl

theorem sum_insertBySo' (f : NodeInfo → Int) (x : NodeInfo) (l : List NodeInfo) :
    ((View.insertBySo x l).map f).sum = f x + (l.map f).sum := by
  induction l with
  | nil => simp [View.insertBySo]
  | cons y ys ih =>
    unfold View.insertBySo
    split
    · simp
    · simp only [List.map_cons, List.sum_cons, ih]; omega

theorem sum_foldl_insertBySo' (f : NodeInfo → Int) (xs : List NodeInfo) :
    ∀ acc : List NodeInfo, ((xs.foldl (fun acc x => View.insertBySo x acc) acc).map f).sum
      = (xs.map f).sum + (acc.map f).sum := by
  induction xs with
  | nil => intro acc; simp
  | cons x xs ih =>
    intro acc
    simp only [List.foldl_cons, ih, sum_insertBySo', List.map_cons, List.sum_cons]
    omega

theorem insertBySo_ne_nil (x : NodeInfo) (l : List NodeInfo) : View.insertBySo x l ≠ [] := by
  cases l with
  | nil => simp [View.insertBySo]
  | cons y ys => unfold View.insertBySo; split <;> simp

theorem foldl_insertBySo_ne_nil (xs acc : List NodeInfo) (h : xs ≠ [] ∨ acc ≠ []) :
    xs.foldl (fun acc x => View.insertBySo x acc) acc ≠ [] := by
  induction xs generalizing acc with
  | nil => simpa using h
  | cons x xs ih => rw [List.foldl_cons]; exact ih _ (Or.inr (insertBySo_ne_nil x acc))

theorem contigLen_map (g : Graph) (segs : List RSeg) (h : infos g = segs.map infoOf) (c : String) :
    contigLen g c = ctgLen segs c := by
  unfold contigLen ctgLen contigNodes
  rw [h, List.filter_map]
  generalize hl : segs.filter ((fun i : NodeInfo => i.sn == c) ∘ infoOf) = l
  have hl' : segs.filter (·.sn == c) = l := hl
  rw [hl']
  cases l with
  | nil => rfl
  | cons a l =>
    have hne := foldl_insertBySo_ne_nil ((a :: l).map infoOf) [] (Or.inl (by simp))
    have hsum := sum_foldl_insertBySo' (fun i => i.en - i.so) ((a :: l).map infoOf) []
    generalize ((a :: l).map infoOf).foldl (fun acc x => View.insertBySo x acc) [] = r at hne hsum
    cases r with
    | nil => exact absurd rfl hne
    | cons b r =>
      simp only
      rw [hsum, List.map_map]
      congr 1
      simp only [List.map_nil, List.sum_nil, Int.add_zero]
      congr 1
      apply List.map_congr_left
      intro s _
      simp only [infoOf, RSeg.en, Function.comp]
      omega

/-! ## text layer: tokens -/

open Gaftools.Gaf Gaftools.Proofs.Gaf

/-- no orientation character -/
def NoOr (n : Str) : Prop := ∀ c ∈ n, c ≠ '>' ∧ c ≠ '<'

def orTok (b : Bool) : Str := if b then ['>'] else ['<']

def pre (cur : Str) : List Str := if cur.isEmpty then [] else [cur.reverse]

theorem pathTokensAux_name (n : Str) (hn : NoOr n) (rest cur : Str) :
    pathTokensAux (n ++ rest) cur = pathTokensAux rest (n.reverse ++ cur) := by
  induction n generalizing cur with
  | nil => rfl
  | cons c cs ih =>
    have hc := hn c List.mem_cons_self
    have h : (c == '>' || c == '<') = false := by simp [hc.1, hc.2]
    rw [List.cons_append, pathTokensAux, h]
    simp only [Bool.false_eq_true, if_false]
    rw [ih (fun d hd => hn d (List.mem_cons_of_mem _ hd))]
    simp

theorem pathTokensAux_or (b : Bool) (rest cur : Str) :
    pathTokensAux (orTok b ++ rest) cur = pre cur ++ orTok b :: pathTokensAux rest [] := by
  cases b <;> simp [orTok, pathTokensAux, pre]

theorem pathTokensAux_nil (cur : Str) : pathTokensAux [] cur = pre cur := rfl

theorem pre_reverse (n : Str) (hn : n ≠ []) : pre n.reverse = [n] := by
  unfold pre
  cases n with
  | nil => exact absurd rfl hn
  | cons a l => simp

theorem pathTokensAux_flatMap {α} (ob : α → Bool) (body : α → Str) (l : List α)
    (h : ∀ x ∈ l, body x ≠ [] ∧ NoOr (body x)) (cur : Str) :
    pathTokensAux (l.flatMap (fun x => orTok (ob x) ++ body x)) cur =
      pre cur ++ l.flatMap (fun x => [orTok (ob x), body x]) := by
  induction l generalizing cur with
  | nil => simp [pathTokensAux_nil]
  | cons x xs ih =>
    have hx := h x List.mem_cons_self
    rw [List.flatMap_cons, List.append_assoc, pathTokensAux_or, pathTokensAux_name _ hx.2,
      ih (fun y hy => h y (List.mem_cons_of_mem _ hy)), List.append_nil, pre_reverse _ hx.1]
    simp

theorem pathTokens_flatMap {α} (ob : α → Bool) (body : α → Str) (l : List α)
    (h : ∀ x ∈ l, body x ≠ [] ∧ NoOr (body x)) :
    pathTokens (l.flatMap (fun x => orTok (ob x) ++ body x)) = l.flatMap (fun x => [orTok (ob x), body x]) := by
  unfold pathTokens
  rw [pathTokensAux_flatMap ob body l h]
  rfl

theorem pathTokens_name (n : Str) (hne : n ≠ []) (hn : NoOr n) : pathTokens n = [n] := by
  unfold pathTokens
  have := pathTokensAux_name n hn [] []
  rw [List.append_nil, List.append_nil] at this
  rw [this, pathTokensAux_nil, pre_reverse _ hne]

theorem isOrientTok_orTok (b : Bool) : isOrientTok (orTok b) = true := by
  cases b <;> simp [isOrientTok, orTok]

theorem orTok_eq (b : Bool) : (orTok b == ['>']) = b := by
  cases b <;> simp [orTok]

theorem isOrientTok_name (n : Str) (hn : NoOr n) : isOrientTok n = false := by
  unfold isOrientTok
  rw [Bool.or_eq_false_iff]
  constructor
  · rw [beq_eq_false_iff_ne]; intro h; subst h; exact (hn '>' (by simp)).1 rfl
  · rw [beq_eq_false_iff_ne]; intro h; subst h; exact (hn '<' (by simp)).2 rfl

/-! ## unstable paths -/

theorem go_unstable {α} (ob : α → Bool) (body : α → Str) (l : List α) (h : ∀ x ∈ l, NoOr (body x)) (o : Bool) :
    parseUnstableSteps.go (l.flatMap (fun x => [orTok (ob x), body x])) o = l.map (fun x => (ob x, body x)) := by
  induction l generalizing o with
  | nil => rfl
  | cons x xs ih =>
    have ih' := ih (fun y hy => h y (List.mem_cons_of_mem _ hy)) (ob x)
    rw [List.flatMap_cons, List.cons_append, List.cons_append, List.nil_append,
      parseUnstableSteps.go, isOrientTok_orTok, if_pos rfl, parseUnstableSteps.go,
      isOrientTok_name _ (h x List.mem_cons_self), orTok_eq, ih']
    simp

theorem parse_render_unstable' (steps : List (Bool × String))
    (h : ∀ s ∈ steps, s.2.toList ≠ [] ∧ NoOr s.2.toList) :
    parseUnstableSteps (renderUPath steps) = steps := by
  have hr : renderUPath steps = steps.flatMap (fun s => orTok s.1 ++ s.2.toList) := rfl
  unfold parseUnstableSteps
  rw [hr, pathTokens_flatMap (fun s : Bool × String => s.1) (fun s => s.2.toList) steps h,
    go_unstable _ _ _ (fun x hx => (h x hx).2), List.map_map]
  conv => rhs; rw [← List.map_id steps]
  apply List.map_congr_left
  intro s _
  simp [String.ofList_toList]

/-! ## digits -/

theorem dec_isDigit {n : Nat} {c : Char} (h : c ∈ dec n) : c.isDigit = true :=
  Nat.isDigit_of_mem_toDigits (by omega) (by omega) h

theorem dec_ne_nil (n : Nat) : dec n ≠ [] := Nat.toDigits_ne_nil

theorem digit_ne {c : Char} (h : c.isDigit = true) : c ≠ ':' ∧ c ≠ '-' ∧ c ≠ '>' ∧ c ≠ '<' ∧ isWs c = false := by
  have h1 := isDigit_toNat h
  refine ⟨?_, ?_, ?_, ?_, ?_⟩
  · rintro rfl; revert h1; decide
  · rintro rfl; revert h1; decide
  · rintro rfl; revert h1; decide
  · rintro rfl; revert h1; decide
  · rw [Bool.eq_false_iff]; intro hw; have := isWs_toNat hw; omega

theorem isDigits_dec (n : Nat) : isDigits (dec n) = true := by
  unfold isDigits
  rw [Bool.and_eq_true]
  constructor
  · cases hd : dec n with
    | nil => exact absurd hd (dec_ne_nil n)
    | cons a l => rfl
  · rw [List.all_eq_true]; intro c hc; exact dec_isDigit hc

theorem toInt_dec (n : Nat) : toInt (dec n) = some (n : Int) := by
  unfold toInt
  rw [isDigits_dec, if_pos rfl, toNat_dec']

theorem decI_of_nonneg (i : Int) (h : 0 ≤ i) : decI i = dec i.toNat := by
  unfold decI
  rw [if_neg (by omega)]

theorem rstrip_of_last (t : Str) (h : ∀ c, t.getLast? = some c → isWs c = false) : rstrip t = t := by
  by_cases ht : t = []
  · subst ht; rfl
  · have hl := List.dropLast_concat_getLast ht
    have hc := h (t.getLast ht) (List.getLast?_eq_some_getLast ht)
    have := rstrip_append t.dropLast (t.getLast ht) hc [] (Or.inl rfl)
    rw [List.append_nil, hl] at this
    exact this

theorem rstrip_append_dec (pre : Str) (n : Nat) : rstrip (pre ++ dec n) = pre ++ dec n := by
  apply rstrip_of_last
  intro c hc
  rw [List.getLast?_append] at hc
  cases hd : (dec n).getLast? with
  | none => rw [List.getLast?_eq_none_iff] at hd; exact absurd hd (dec_ne_nil n)
  | some d =>
    rw [hd] at hc
    have : d = c := by simpa using hc
    subst this
    obtain ⟨ys, hys⟩ := List.getLast?_eq_some_iff.1 hd
    exact (digit_ne (dec_isDigit (n := n) (by rw [hys]; simp))).2.2.2.2

/-! ## stable paths -/

/-- the text after the orientation character of an interval -/
def ivBody (contig : Str) (s e : Nat) : Str := contig ++ [':'] ++ dec s ++ ['-'] ++ dec e

theorem splitOn_two {c : Char} (a b : Str) (ha : c ∉ a) (hb : c ∉ b) :
    splitOnChar c (a ++ [c] ++ b) = [a, b] := by
  have := List.splitOn_intercalate (ls := [a, b]) c (by
    intro l hl
    rcases List.mem_cons.1 hl with rfl | hl
    · exact ha
    · rcases List.mem_cons.1 hl with rfl | hl
      · exact hb
      · cases hl) (by simp)
  rw [List.intercalate_cons_cons] at this
  simpa [splitOnChar] using this

theorem go_iv (contig : Str) (hc : ∀ c ∈ contig, c ≠ '>' ∧ c ≠ '<' ∧ c ≠ ':' ∧ c ≠ '-') (s e : Nat)
    (ts : List Str) (ob : Bool) :
    parseStableItems.go (ivBody contig s e :: ts) (some ob) =
      (parseStableItems.go ts (some ob)).map (fun r => SItem.iv ob (String.ofList contig) (s : Int) (e : Int) :: r) := by
  have hds : ∀ c ∈ dec s, c ≠ ':' ∧ c ≠ '-' ∧ c ≠ '>' ∧ c ≠ '<' ∧ isWs c = false :=
    fun c h => digit_ne (dec_isDigit h)
  have hde : ∀ c ∈ dec e, c ≠ ':' ∧ c ≠ '-' ∧ c ≠ '>' ∧ c ≠ '<' ∧ isWs c = false :=
    fun c h => digit_ne (dec_isDigit h)
  have h1 : isOrientTok (ivBody contig s e) = false := by
    apply isOrientTok_name
    intro c hm
    simp only [ivBody, List.mem_append, List.mem_singleton] at hm
    rcases hm with (((hm | rfl) | hm) | rfl) | hm
    · exact ⟨(hc c hm).1, (hc c hm).2.1⟩
    · decide
    · exact ⟨(hds c hm).2.2.1, (hds c hm).2.2.2.1⟩
    · decide
    · exact ⟨(hde c hm).2.2.1, (hde c hm).2.2.2.1⟩
  have h2 : (ivBody contig s e).contains ':' = true := by
    rw [List.contains_iff_mem]; simp [ivBody]
  have h2' : (ivBody contig s e).contains '-' = true := by
    rw [List.contains_iff_mem]; simp [ivBody]
  have h3 : rstrip (ivBody contig s e) = ivBody contig s e := rstrip_append_dec _ e
  have h4 : splitOnChar ':' (ivBody contig s e) = [contig, dec s ++ ['-'] ++ dec e] := by
    have : ivBody contig s e = contig ++ [':'] ++ (dec s ++ ['-'] ++ dec e) := by simp [ivBody]
    rw [this]
    apply splitOn_two
    · intro hm; exact (hc _ hm).2.2.1 rfl
    · intro hm
      simp only [List.mem_append, List.mem_singleton] at hm
      rcases hm with (hm | hm) | hm
      · exact (hds _ hm).1 rfl
      · revert hm; decide
      · exact (hde _ hm).1 rfl
  have h5 : rstrip (dec s ++ ['-'] ++ dec e) = dec s ++ ['-'] ++ dec e := rstrip_append_dec _ e
  have h6 : splitOnChar '-' (dec s ++ ['-'] ++ dec e) = [dec s, dec e] := by
    apply splitOn_two
    · intro hm; exact (hds _ hm).2.1 rfl
    · intro hm; exact (hde _ hm).2.1 rfl
  rw [parseStableItems.go]
  simp only [h1, h2, h2', h3, h4, h5, h6, toInt_dec, Bool.false_eq_true, if_false, Bool.and_self, if_true]

theorem go_stable (l : List OIv)
    (h : ∀ x ∈ l, (∀ c ∈ x.1.contig.toList, c ≠ '>' ∧ c ≠ '<' ∧ c ≠ ':' ∧ c ≠ '-') ∧ 0 ≤ x.1.s ∧ 0 ≤ x.1.e) (o : Option Bool) :
    parseStableItems.go (l.flatMap (fun x => [orTok x.2, ivBody x.1.contig.toList x.1.s.toNat x.1.e.toNat])) o =
      some (l.map (fun x => SItem.iv x.2 x.1.contig x.1.s x.1.e)) := by
  induction l generalizing o with
  | nil => rfl
  | cons x xs ih =>
    have hx := h x List.mem_cons_self
    have ih' := ih (fun y hy => h y (List.mem_cons_of_mem _ hy)) (some x.2)
    rw [List.flatMap_cons, List.cons_append, List.cons_append, List.nil_append,
      parseStableItems.go, isOrientTok_orTok, if_pos rfl, orTok_eq, go_iv _ hx.1, ih']
    simp [String.ofList_toList, Int.toNat_of_nonneg hx.2.1, Int.toNat_of_nonneg hx.2.2]

theorem parse_render_ivs' (l : List OIv)
    (h : ∀ x ∈ l, (∀ c ∈ x.1.contig.toList, c ≠ '>' ∧ c ≠ '<' ∧ c ≠ ':' ∧ c ≠ '-') ∧ 0 ≤ x.1.s ∧ 0 ≤ x.1.e) :
    parseStableItems (renderSPath (.ivs l)) = some (l.map (fun x => SItem.iv x.2 x.1.contig x.1.s x.1.e)) := by
  have hr : renderSPath (.ivs l) =
      l.flatMap (fun x => orTok x.2 ++ ivBody x.1.contig.toList x.1.s.toNat x.1.e.toNat) := by
    unfold renderSPath
    apply flatMap_congr'
    intro x hx
    have hx := h x hx
    simp [renderOIv, ivBody, orTok, decI_of_nonneg _ hx.2.1, decI_of_nonneg _ hx.2.2]
  unfold parseStableItems
  rw [hr, pathTokens_flatMap (fun x : OIv => x.2) (fun x => ivBody x.1.contig.toList x.1.s.toNat x.1.e.toNat) l]
  · exact go_stable l h none
  · intro x hx
    have hx := h x hx
    constructor
    · simp [ivBody]
    · intro c hm
      simp only [ivBody, List.mem_append, List.mem_singleton] at hm
      rcases hm with (((hm | rfl) | hm) | rfl) | hm
      · exact ⟨(hx.1 c hm).1, (hx.1 c hm).2.1⟩
      · decide
      · have := digit_ne (dec_isDigit hm); exact ⟨this.2.2.1, this.2.2.2.1⟩
      · decide
      · have := digit_ne (dec_isDigit hm); exact ⟨this.2.2.1, this.2.2.2.1⟩

theorem parse_render_bare' (c : String) (hne : c.toList ≠ [])
    (h : ∀ d ∈ c.toList, d ≠ '>' ∧ d ≠ '<' ∧ d ≠ ':' ∧ d ≠ '-') :
    parseStableItems (renderSPath (.bare c)) = some [SItem.bare c] := by
  have hno : NoOr c.toList := fun d hd => ⟨(h d hd).1, (h d hd).2.1⟩
  have hcol : c.toList.contains ':' = false := by
    rw [Bool.eq_false_iff, ne_eq, List.contains_iff_mem]; intro hm; exact (h _ hm).2.2.1 rfl
  unfold parseStableItems renderSPath
  rw [pathTokens_name _ hne hno, parseStableItems.go, isOrientTok_name _ hno, hcol]
  simp only [Bool.false_eq_true, if_false, Bool.false_and, parseStableItems.go, Option.map_some,
    String.ofList_toList]

end Gaftools.Proofs.Glue
