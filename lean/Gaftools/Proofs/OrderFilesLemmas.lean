import Gaftools.Props.C07
import Gaftools.Props.C06g
/-!
# Lemmas for C07b (`orderFiles_spec`): the per-chromosome file of `order_gfa --by-chrom`

Part 1 (this file): the file written for a list of tags that is strictly increasing in (BO, NO), names every node of the
component exactly once and nothing else, meets `specWritten`.
-/
namespace Gaftools.Proofs.OrderFiles
open Gaftools.Gfa Gaftools.Algo Gaftools.Order Gaftools.Spec.Order
open Gaftools.Proofs.Gfa Gaftools.Proofs.Write

/-- strict (BO, NO) order on tag entries -/
def keyLt (x y : V × Int × Int) : Prop := x.2.1 < y.2.1 ∨ (x.2.1 = y.2.1 ∧ x.2.2 < y.2.2)

/-! ## `sortBoNo` of an already sorted list -/

theorem foldr_insertBoNo_sorted (l : List (V × Int × Int)) (h : l.Pairwise keyLt) : l.foldr insertBoNo [] = l := by
  induction l with
  | nil => rfl
  | cons x xs ih =>
    rw [List.pairwise_cons] at h
    rw [List.foldr_cons, ih h.2]
    cases xs with
    | nil => rfl
    | cons y ys =>
      have := h.1 y (by simp)
      unfold keyLt at this
      simp only [insertBoNo]
      rw [if_pos this]

theorem sortBoNo_sorted (l : List (V × Int × Int)) (h : l.Pairwise keyLt) : sortBoNo l = l.map (·.1) := by
  unfold sortBoNo
  rw [foldr_insertBoNo_sorted l h]

/-! ## generic list facts -/

theorem filter_key_unique {α} (key : α → String) (L : List α) (h : (L.map key).Nodup) (a : α) (ha : a ∈ L) :
    L.filter (fun o => key o == key a) = [a] := by
  induction L with
  | nil => cases ha
  | cons b bs ih =>
    rw [List.map_cons, List.nodup_cons] at h
    rcases List.mem_cons.mp ha with rfl | ha'
    · rw [List.filter_cons, if_pos (by simp)]
      congr 1
      rw [List.filter_eq_nil_iff]
      intro c hc hk
      have : key c = key a := by simpa using hk
      exact h.1 (this ▸ List.mem_map_of_mem hc)
    · have hne : ¬ (key b == key a) = true := by
        intro hk
        have : key b = key a := by simpa using hk
        exact h.1 (this ▸ List.mem_map_of_mem ha')
      rw [List.filter_cons, if_neg hne]
      exact ih h.2 ha'

theorem find_fst_of_nodup (tags : List (V × Int × Int)) (h : (tags.map (·.1)).Nodup) (x : V × Int × Int) (hx : x ∈ tags) :
    tags.find? (·.1 == x.1) = some x := by
  induction tags with
  | nil => cases hx
  | cons y ys ih =>
    rw [List.map_cons, List.nodup_cons] at h
    rcases List.mem_cons.mp hx with rfl | hx'
    · simp
    · have hne : ¬ (y.1 == x.1) = true := by
        intro hk
        have : y.1 = x.1 := by simpa using hk
        exact h.1 (this ▸ List.mem_map_of_mem hx')
      rw [List.find?_cons_of_neg (p := fun z : V × Int × Int => z.1 == x.1) hne]
      exact ih h.2 hx'

theorem pairwise_zip_tail {α} {R : α → α → Prop} : ∀ {l : List α}, l.Pairwise R → ∀ p ∈ l.zip l.tail, R p.1 p.2
  | [], _, p, hp => by simp at hp
  | [a], _, p, hp => by simp at hp
  | a :: b :: l, h, p, hp => by
    simp only [List.tail_cons, List.zip_cons_cons, List.mem_cons] at hp
    rw [List.pairwise_cons] at h
    rcases hp with rfl | hp
    · exact h.1 b (by simp)
    · exact pairwise_zip_tail h.2 p hp

/-! ## `tagSet` -/

theorem filter_tagSet_other (p : Tag → Bool) (d : List Tag) (t : Tag) (hpt : p t = false)
    (hp : ∀ e : Tag, e.name = t.name → p e = false) : (tagSet d t).filter p = d.filter p := by
  unfold tagSet
  split
  · rename_i hany
    clear hany
    induction d with
    | nil => rfl
    | cons e es ih =>
      rw [List.map_cons]
      by_cases he : (e.name == t.name) = true
      · rw [if_pos he]
        have : e.name = t.name := by simpa using he
        rw [List.filter_cons, if_neg (by simp [hpt]), List.filter_cons, if_neg (by simp [hp e this]), ih]
      · rw [if_neg he]
        simp only [List.filter_cons, ih]
  · rw [List.filter_append]
    simp [hpt]

theorem filter_tagSet_self (d : List Tag) (t : Tag) (h : (names d).Nodup) :
    (tagSet d t).filter (fun e => e.name == t.name) = [t] := by
  unfold tagSet
  split
  · rename_i hany
    induction d with
    | nil => simp at hany
    | cons e es ih =>
      unfold names at h
      rw [List.map_cons, List.nodup_cons] at h
      rw [List.map_cons]
      by_cases he : (e.name == t.name) = true
      · rw [if_pos he, List.filter_cons, if_pos (by simp)]
        congr 1
        have hen : e.name = t.name := by simpa using he
        rw [List.filter_eq_nil_iff]
        intro c hc hk
        rw [List.mem_map] at hc
        obtain ⟨c', hc', rfl⟩ := hc
        have hc'n : c'.name ≠ t.name := by
          intro e'
          exact h.1 (by rw [hen, ← e']; exact List.mem_map_of_mem hc')
        have : (c'.name == t.name) = false := by simpa using hc'n
        rw [this] at hk
        simp only [Bool.false_eq_true, if_false] at hk
        rw [this] at hk
        cases hk
      · rw [if_neg he, List.filter_cons, if_neg he]
        have hany' : es.any (fun x => x.name == t.name) = true := by
          rw [List.any_cons] at hany
          simpa [he] using hany
        exact ih h.2 hany'
  · rename_i hany
    rw [List.filter_append]
    have : d.filter (fun e => e.name == t.name) = [] := by
      rw [List.filter_eq_nil_iff]
      intro c hc hk
      exact hany (List.any_eq_true.mpr ⟨c, hc, hk⟩)
    rw [this]
    simp

theorem sameTags_refl (x : List Tag) : sameTags x x = true := by
  unfold sameTags
  simp

/-- the tags of a node once BO / NO are assigned -/
theorem tagNode_tags_spec (n : Node) (b no : Int) (h : (names n.tags).Nodup) :
    stripBoNo (tagNode n b no).tags = stripBoNo n.tags ∧
    ((tagNode n b no).tags.filter (·.name == "BO")).map (·.val) = [toString b] ∧
    ((tagNode n b no).tags.filter (·.name == "NO")).map (·.val) = [toString no] ∧
    ((tagNode n b no).tags.filter (fun t => t.name == "BO" || t.name == "NO")).all (·.ty == "i") = true := by
  have hBO : ((tagNode n b no).tags.filter (·.name == "BO")) = [⟨"BO", "i", toString b⟩] := by
    unfold tagNode
    simp only
    rw [filter_tagSet_other _ _ _ (by simp) (by intro e he; simp only at he; simp [he])]
    exact filter_tagSet_self n.tags ⟨"BO", "i", toString b⟩ h
  have hNO : ((tagNode n b no).tags.filter (·.name == "NO")) = [⟨"NO", "i", toString no⟩] := by
    unfold tagNode
    simp only
    exact filter_tagSet_self _ ⟨"NO", "i", toString no⟩ (nodup_names_tagSet _ _ h)
  refine ⟨?_, ?_, ?_, ?_⟩
  · unfold tagNode stripBoNo
    simp only
    rw [filter_tagSet_other _ _ _ (by simp) (by intro e he; simp only at he; simp [he]),
      filter_tagSet_other _ _ _ (by simp) (by intro e he; simp only at he; simp [he])]
  · rw [hBO]; rfl
  · rw [hNO]; rfl
  · rw [List.all_eq_true]
    intro e he
    rw [List.mem_filter, Bool.or_eq_true] at he
    rcases he.2 with hb | hn
    · have : e ∈ (tagNode n b no).tags.filter (·.name == "BO") := List.mem_filter.mpr ⟨he.1, hb⟩
      rw [hBO, List.mem_singleton] at this
      rw [this]; rfl
    · have : e ∈ (tagNode n b no).tags.filter (·.name == "NO") := List.mem_filter.mpr ⟨he.1, hn⟩
      rw [hNO, List.mem_singleton] at this
      rw [this]; rfl

/-! ## `tagNodes` and `writeGfa` -/

/-- what `tagNodes` does to one node -/
def retag (tags : List (V × Int × Int)) (n : Node) : Node :=
  match tags.find? (·.1 == n.id) with
  | some x => tagNode n x.2.1 x.2.2
  | none => n

theorem tagNodes_eq (g : Graph) (tags : List (V × Int × Int)) :
    tagNodes g tags = { g with nodes := g.nodes.map (retag tags) } := rfl

@[simp] theorem retag_id (tags : List (V × Int × Int)) (n : Node) : (retag tags n).id = n.id := by
  unfold retag; split <;> rfl
@[simp] theorem retag_seq (tags : List (V × Int × Int)) (n : Node) : (retag tags n).seq = n.seq := by
  unfold retag; split <;> rfl
@[simp] theorem retag_startAdj (tags : List (V × Int × Int)) (n : Node) : (retag tags n).startAdj = n.startAdj := by
  unfold retag; split <;> rfl
@[simp] theorem retag_endAdj (tags : List (V × Int × Int)) (n : Node) : (retag tags n).endAdj = n.endAdj := by
  unfold retag; split <;> rfl

theorem find_tagNodes (g : Graph) (tags : List (V × Int × Int)) (v : V) :
    (tagNodes g tags).find v = (g.find v).map (retag tags) := by
  unfold Graph.find
  rw [tagNodes_eq]
  simp only
  rw [List.find?_map]
  congr 2
  funext n
  simp only [Function.comp, retag_id]

theorem filterMap_find_tagNodes (g : Graph) (tags : List (V × Int × Int)) (order : List V) :
    order.filterMap (tagNodes g tags).find = (order.filterMap g.find).map (retag tags) := by
  rw [List.map_filterMap]
  congr 1
  funext v
  exact find_tagNodes g tags v

theorem linkLinesOf_tagNodes (g : Graph) (tags : List (V × Int × Int)) (inSet : String → Bool) (n : Node) :
    linkLinesOf (tagNodes g tags) inSet (retag tags n) = linkLinesOf g inSet n := by
  unfold linkLinesOf
  simp only [retag_id, retag_startAdj, retag_endAdj]
  rfl

theorem write_links_tagNodes (g : Graph) (tags : List (V × Int × Int)) (order : List V) :
    (writeGfa (tagNodes g tags) order).links = (writeGfa g order).links := by
  unfold writeGfa
  simp only
  rw [filterMap_find_tagNodes, List.flatMap_map]
  congr 1
  funext n
  exact linkLinesOf_tagNodes g tags _ n

theorem write_segs_tagNodes (g : Graph) (tags : List (V × Int × Int)) (order : List V) :
    (writeGfa (tagNodes g tags) order).segs = (order.filterMap g.find).map (fun n => segLineOf (retag tags n)) := by
  unfold writeGfa
  simp only
  rw [filterMap_find_tagNodes, List.map_map]
  rfl

theorem find_of_mem_nodup (g : Graph) (h : (ids g).Nodup) (n : Node) (hn : n ∈ g.nodes) : g.find n.id = some n := by
  unfold ids at h
  unfold Graph.find
  cases hf : g.nodes.find? (·.id == n.id) with
  | none =>
    rw [List.find?_eq_none] at hf
    exact absurd (by simp) (hf n hn)
  | some m =>
    have hm := List.mem_of_find?_eq_some hf
    have hid : m.id = n.id := by simpa using List.find?_some hf
    rw [inj_of_nodup_map (·.id) h hm hn hid]

/-- the node the reader makes of an S line -/
theorem node_of_seg (t : GfaFile) (lm : Bool) (hids : (t.segs.map (·.id)).Nodup) (s : SegLine) (hs : s ∈ t.segs) :
    ∃ n, (readGraph t lm).find s.id = some n ∧ n.id = s.id ∧ n.seq = (if lm then "" else s.seq) ∧
      n.tags = s.tags.foldl tagSet [] := by
  have hc := core_readGraph t lm hids
  have hm : (s.id, (if lm then "" else s.seq), s.tags.foldl tagSet []) ∈ (readGraph t lm).nodes.map core := by
    rw [hc]
    exact List.mem_map.mpr ⟨s, hs, rfl⟩
  rw [List.mem_map] at hm
  obtain ⟨n, hn, hcore⟩ := hm
  unfold core at hcore
  simp only [Prod.mk.injEq] at hcore
  obtain ⟨h1, h2, h3⟩ := hcore
  have hnd : (ids (readGraph t lm)).Nodup := by rw [ids_readGraph t lm hids]; exact hids
  refine ⟨n, ?_, h1, h2, h3⟩
  rw [← h1]
  exact find_of_mem_nodup _ hnd n hn

theorem map_id_filterMap_find (g : Graph) : ∀ (vs : List V), (∀ v ∈ vs, ∃ n, g.find v = some n) →
    (vs.filterMap g.find).map (·.id) = vs
  | [], _ => rfl
  | v :: vs, h => by
    obtain ⟨n, hn⟩ := h v (by simp)
    rw [List.filterMap_cons, hn]
    simp only [List.map_cons]
    rw [find_id hn, map_id_filterMap_find g vs (fun u hu => h u (List.mem_cons_of_mem _ hu))]

/-! ## the file of a well-formed tag list -/

/-- the tag list of a written chromosome as the chain numbering leaves it: strictly increasing keys, exactly the nodes of
    the component, each once -/
structure GoodTags (t : GfaFile) (comp : List V) (tags : List (V × Int × Int)) : Prop where
  sorted : tags.Pairwise keyLt
  nodup : (tags.map (·.1)).Nodup
  mem : ∀ v, v ∈ tags.map (·.1) ↔ v ∈ comp
  cnd : comp.Nodup
  sub : ∀ v ∈ comp, v ∈ t.segs.map (·.id)

section file
variable {t : GfaFile} {comp : List V} {tags : List (V × Int × Int)}

theorem segsIn_perm (hids : (t.segs.map (·.id)).Nodup) (h : GoodTags t comp tags) :
    ((t.segs.filter (fun s => comp.contains s.id)).map (·.id)).Perm (tags.map (·.1)) := by
  rw [List.perm_ext_iff_of_nodup (hids.sublist (List.Sublist.map _ List.filter_sublist)) h.nodup]
  intro v
  rw [h.mem v, List.mem_map]
  constructor
  · rintro ⟨s, hs, rfl⟩
    rw [List.mem_filter, List.contains_iff_mem] at hs
    exact hs.2
  · intro hv
    have := h.sub v hv
    rw [List.mem_map] at this
    obtain ⟨s, hs, rfl⟩ := this
    exact ⟨s, List.mem_filter.mpr ⟨hs, by rw [List.contains_iff_mem]; exact hv⟩, rfl⟩

theorem find_all (lm : Bool) (hids : (t.segs.map (·.id)).Nodup) (h : GoodTags t comp tags) :
    ∀ v ∈ tags.map (·.1), ∃ n, (readGraph t lm).find v = some n := by
  intro v hv
  have := h.sub v ((h.mem v).mp hv)
  rw [List.mem_map] at this
  obtain ⟨s, hs, rfl⟩ := this
  obtain ⟨n, hn, _⟩ := node_of_seg t lm hids s hs
  exact ⟨n, hn⟩

/-- the S lines of the file -/
def segsOut (t : GfaFile) (lm : Bool) (tags : List (V × Int × Int)) : List SegLine :=
  ((tags.map (·.1)).filterMap (readGraph t lm).find).map (fun n => segLineOf (retag tags n))

theorem segsOut_ids (lm : Bool) (hids : (t.segs.map (·.id)).Nodup) (h : GoodTags t comp tags) :
    (segsOut t lm tags).map (·.id) = tags.map (·.1) := by
  unfold segsOut
  rw [List.map_map]
  have : ((fun o : SegLine => o.id) ∘ fun n => segLineOf (retag tags n)) = fun n : Node => n.id := by
    funext n
    simp [segLineOf]
  rw [this]
  exact map_id_filterMap_find _ _ (find_all lm hids h)

theorem tag_of_mem (h : GoodTags t comp tags) (x : V × Int × Int) (hx : x ∈ tags) :
    (tags.find? (·.1 == x.1)).map (·.2) = some x.2 := by
  rw [find_fst_of_nodup tags h.nodup x hx]
  rfl

theorem keys_ok (lm : Bool) (hids : (t.segs.map (·.id)).Nodup) (h : GoodTags t comp tags) :
    (let keys := (segsOut t lm tags).map (fun o => (fun v => (tags.find? (·.1 == v)).map (·.2)) o.id)
     (List.zip keys keys.tail).all (fun p => match p.1, p.2 with
       | some a, some b => decide (a.1 < b.1) || (a.1 == b.1 && decide (a.2 < b.2))
       | _, _ => false)) = true := by
  have hk : (segsOut t lm tags).map (fun o => (fun v => (tags.find? (·.1 == v)).map (·.2)) o.id) =
      tags.map (fun x => some x.2) := by
    have : (segsOut t lm tags).map (fun o => (fun v => (tags.find? (·.1 == v)).map (·.2)) o.id) =
        ((segsOut t lm tags).map (·.id)).map (fun v => (tags.find? (·.1 == v)).map (·.2)) := by
      rw [List.map_map]; rfl
    rw [this, segsOut_ids lm hids h, List.map_map]
    apply List.map_congr_left
    intro x hx
    exact tag_of_mem h x hx
  simp only
  rw [hk, List.all_eq_true]
  intro p hp
  have hpw : (tags.map (fun x => some x.2)).Pairwise (fun a b => ∃ x y, a = some x ∧ b = some y ∧
      (x.1 < y.1 ∨ (x.1 = y.1 ∧ x.2 < y.2))) := by
    rw [List.pairwise_map]
    exact h.sorted.imp (fun {a b} hab => ⟨a.2, b.2, rfl, rfl, hab⟩)
  obtain ⟨x, y, h1, h2, hxy⟩ := pairwise_zip_tail hpw p hp
  rw [h1, h2]
  simp only [Bool.or_eq_true, Bool.and_eq_true, decide_eq_true_eq, beq_iff_eq]
  exact hxy

theorem seg_out (lm : Bool) (hids : (t.segs.map (·.id)).Nodup) (hseq : ∀ s ∈ t.segs, s.seq ≠ "")
    (hnames : ∀ s ∈ t.segs, (s.tags.map (·.name)).Nodup) (h : GoodTags t comp tags)
    (s : SegLine) (hs : s ∈ t.segs) (hc : s.id ∈ comp) :
    ∃ (o : SegLine) (x : V × Int × Int), x ∈ tags ∧ x.1 = s.id ∧
      (segsOut t lm tags).filter (·.id == s.id) = [o] ∧
      o.seq = (if lm then "*" else s.seq) ∧
      stripBoNo o.tags = stripBoNo s.tags ∧
      (o.tags.filter (·.name == "BO")).map (·.val) = [toString x.2.1] ∧
      (o.tags.filter (·.name == "NO")).map (·.val) = [toString x.2.2] ∧
      (o.tags.filter (fun t => t.name == "BO" || t.name == "NO")).all (·.ty == "i") = true := by
  have hv : s.id ∈ tags.map (·.1) := (h.mem s.id).mpr hc
  obtain ⟨x, hx, hx1⟩ := List.mem_map.mp hv
  obtain ⟨n, hfind, hid, hnseq, hntags⟩ := node_of_seg t lm hids s hs
  have hntags' : n.tags = s.tags := by
    rw [hntags, foldl_tagSet_of_nodup s.tags [] (by simpa [names] using hnames s hs)]
    simp
  have hre : retag tags n = tagNode n x.2.1 x.2.2 := by
    unfold retag
    rw [hid, ← hx1, find_fst_of_nodup tags h.nodup x hx]
  have hmemo : segLineOf (retag tags n) ∈ segsOut t lm tags := by
    unfold segsOut
    exact List.mem_map.mpr ⟨n, List.mem_filterMap.mpr ⟨s.id, hv, hfind⟩, rfl⟩
  have hoid : (segLineOf (retag tags n)).id = s.id := by simp [segLineOf, hid]
  have hnd : ((segsOut t lm tags).map (·.id)).Nodup := by rw [segsOut_ids lm hids h]; exact h.nodup
  have hfil := filter_key_unique (·.id) (segsOut t lm tags) hnd _ hmemo
  simp only [hoid] at hfil
  have hspec := tagNode_tags_spec n x.2.1 x.2.2 (by rw [hntags']; exact hnames s hs)
  refine ⟨segLineOf (retag tags n), x, hx, hx1, hfil, ?_, ?_, ?_, ?_, ?_⟩
  · simp only [segLineOf, retag_seq, hnseq]
    cases lm with
    | true => simp
    | false =>
      have := hseq s hs
      simp [this]
  · rw [hre]
    simp only [segLineOf]
    rw [hspec.1, hntags']
  · rw [hre]; exact hspec.2.1
  · rw [hre]; exact hspec.2.2.1
  · rw [hre]; exact hspec.2.2.2

theorem links_ok (hw : Gaftools.C07.WFGfa t) (lm : Bool) (h : GoodTags t comp tags) :
    (writeGfa (tagNodes (readGraph t lm) tags) (tags.map (·.1))).links.Perm
      (t.links.filter (fun l => comp.contains l.a && comp.contains l.b)) := by
  rw [write_links_tagNodes]
  have hp := Gaftools.C07.write_links_subset t hw lm (tags.map (·.1)) h.nodup
    (fun v hv => h.sub v ((h.mem v).mp hv))
  have he : (Gaftools.C07.declared t).filter (fun l => (tags.map (·.1)).contains l.a && (tags.map (·.1)).contains l.b) =
      t.links.filter (fun l => comp.contains l.a && comp.contains l.b) := by
    unfold Gaftools.C07.declared
    rw [List.filter_filter]
    apply List.filter_congr
    intro l _
    rw [Bool.eq_iff_iff]
    simp only [Bool.and_eq_true, List.contains_iff_mem, h.mem, any_id_iff]
    constructor
    · exact fun hh => hh.1
    · exact fun hh => ⟨hh, h.sub _ hh.1, h.sub _ hh.2⟩
  rw [he] at hp
  exact hp

/-- MAIN of this part: the file written for a good tag list meets the file specification -/
theorem specWritten_of_goodTags (hw : Gaftools.C07.WFGfa t) (lm : Bool) (hseq : ∀ s ∈ t.segs, s.seq ≠ "")
    (hnames : ∀ s ∈ t.segs, (s.tags.map (·.name)).Nodup) (w : Written) (h : GoodTags t comp w.tags) :
    specWritten t comp (fun v => (w.tags.find? (·.1 == v)).map (·.2)) (!lm) (orderFile (readGraph t lm) w) = true := by
  have hids := hw.ids
  have hsegs : (orderFile (readGraph t lm) w).segs = segsOut t lm w.tags := by
    unfold orderFile
    rw [sortBoNo_sorted _ h.sorted, write_segs_tagNodes]
    rfl
  have hlinks := links_ok hw lm h
  have hlinks' : (orderFile (readGraph t lm) w).links = (writeGfa (tagNodes (readGraph t lm) w.tags) (w.tags.map (·.1))).links := by
    unfold orderFile
    rw [sortBoNo_sorted _ h.sorted]
  unfold specWritten
  simp only [hsegs, hlinks']
  rw [Bool.and_eq_true, Bool.and_eq_true, Bool.and_eq_true]
  refine ⟨⟨⟨?_, ?_⟩, ?_⟩, ?_⟩
  · rw [beq_iff_eq]
    have h1 := congrArg List.length (segsOut_ids lm hids h)
    have h2 := (segsIn_perm hids h).length_eq
    simp only [List.length_map] at h1 h2
    omega
  · rw [List.all_eq_true]
    intro s hs
    rw [List.mem_filter, List.contains_iff_mem] at hs
    obtain ⟨o, x, hx, hx1, hfil, ho1, ho2, ho3, ho4, ho5⟩ := seg_out lm hids hseq hnames h s hs.1 hs.2
    rw [hfil]
    simp only
    have htag : (w.tags.find? (·.1 == s.id)).map (·.2) = some (x.2.1, x.2.2) := by
      rw [← hx1]; exact tag_of_mem h x hx
    rw [htag]
    simp only
    rw [ho1, ho2, ho3, ho4, ho5, sameTags_refl]
    cases lm <;> simp
  · exact keys_ok lm hids h
  · rw [Bool.and_eq_true, beq_iff_eq, List.all_eq_true]
    refine ⟨hlinks.length_eq, ?_⟩
    intro l _
    rw [beq_iff_eq]
    exact (hlinks.filter _).length_eq

end file

end Gaftools.Proofs.OrderFiles
