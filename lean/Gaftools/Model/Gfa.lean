/-!
# Model of `gaftools/gfa.py` — graph construction, adjacency, walks

Token level: an S line is `(id, seq, tags)`, an L line `(a, ±, b, ±, overlap, tags)`; the character-level
`strip().split("\t")` / tag regexes are modelled-not-verified (the harness tokenises the same text with an independent
reader, and the correspondence compares).  Python sets are duplicate-free lists (`setInsert`).

Python → Lean
* `E_DIR`, `GFA.add_edge`          → `eDir`, `addEdge`
* `GFA.add_node`                   → `addNode` (an existing id is ignored with a warning)
* `GFA.read_graph`                 → `readGraph` (S lines in file order, then L lines in file order; links with a missing endpoint skipped)
* `GFA.path_exists` (`cases` table)→ `pathCase`, `stepOk`, `pathExists`
* `GFA.extract_path`, `rev_comp`   → `extractPath`, `revComp`
* `GFA.remove_node/remove_edge`    → `removeNode`
* `Node.neighbors`                 → `neighbors` (sorted, with multiplicity)
-/
namespace Gaftools.Gfa

structure Tag where
  name : String
  ty : String
  val : String
deriving Repr, DecidableEq, Inhabited

structure SegLine where
  id : String
  seq : String
  tags : List Tag
deriving Repr, DecidableEq, Inhabited

/-- `da`/`db`: `true` = '+' -/
structure LinkLine where
  a : String
  da : Bool
  b : String
  db : Bool
  ov : Nat
  tags : List String
deriving Repr, DecidableEq, Inhabited

structure GfaFile where
  segs : List SegLine
  links : List LinkLine
deriving Repr, DecidableEq, Inhabited

/-- adjacency entry `(neighbour, side of the neighbour, overlap)`; side `true` = 1 = end, `false` = 0 = start -/
abbrev Adj := String × Bool × Nat

structure Node where
  id : String
  seq : String
  startAdj : List Adj
  endAdj : List Adj
  tags : List Tag          -- dict name ↦ (type, value) in insertion order
deriving Repr, DecidableEq, Inhabited

abbrev EdgeKey := String × Bool × String × Bool

structure Graph where
  nodes : List Node                         -- dict in insertion order
  edgeTags : List (EdgeKey × List String)   -- `[0]` marker (no tags) = `[]`; later assignment to the same key overwrites
deriving Repr, DecidableEq, Inhabited

def Graph.empty : Graph := ⟨[], []⟩

def Graph.find (g : Graph) (id : String) : Option Node := g.nodes.find? (·.id == id)
def Graph.has (g : Graph) (id : String) : Bool := g.nodes.any (·.id == id)

/-- `E_DIR[(d1, d2)]` : ('+','+')→(1,0) ('+','-')→(1,1) ('-','+')→(0,0) ('-','-')→(0,1) -/
def eDir (da db : Bool) : Bool × Bool := (da, !db)

def setInsert [BEq α] (x : α) (l : List α) : List α := if l.contains x then l else l ++ [x]

/-- tags dict assignment: existing name keeps its position -/
def tagSet (d : List Tag) (t : Tag) : List Tag :=
  if d.any (·.name == t.name) then d.map (fun e => if e.name == t.name then t else e) else d ++ [t]

def addNode (g : Graph) (s : SegLine) (lowMemory : Bool) : Graph :=
  if g.has s.id then g
  else { g with nodes := g.nodes ++ [⟨s.id, if lowMemory then "" else s.seq, [], [], s.tags.foldl tagSet []⟩] }

def addAdj (nodes : List Node) (id : String) (side : Bool) (e : Adj) : List Node :=
  nodes.map (fun n => if n.id == id then
    (if side then { n with endAdj := setInsert e n.endAdj } else { n with startAdj := setInsert e n.startAdj }) else n)

def edgeTagSet (d : List (EdgeKey × List String)) (k : EdgeKey) (v : List String) : List (EdgeKey × List String) :=
  if d.any (·.1 == k) then d.map (fun e => if e.1 == k then (k, v) else e) else d ++ [(k, v)]

/-- `add_edge(node1, dir1, node2, dir2, overlap, tags)` (both endpoints exist) -/
def addEdge (g : Graph) (l : LinkLine) : Graph :=
  let (s1, s2) := eDir l.da l.db
  let nodes := addAdj g.nodes l.a s1 (l.b, s2, l.ov)
  let nodes := addAdj nodes l.b s2 (l.a, s1, l.ov)
  { nodes := nodes, edgeTags := edgeTagSet g.edgeTags (l.a, s1, l.b, s2) l.tags }

def readGraph (t : GfaFile) (lowMemory : Bool := false) : Graph :=
  let g := t.segs.foldl (fun g s => addNode g s lowMemory) Graph.empty
  t.links.foldl (fun g l => if g.has l.a && g.has l.b then addEdge g l else g) g

/-- adjacency set of a node on one side -/
def Graph.adj (g : Graph) (id : String) (side : Bool) : List Adj :=
  match g.find id with
  | some n => if side then n.endAdj else n.startAdj
  | none => []

/-- `Node.neighbors()`: ids of both sides, sorted (with multiplicity) -/
def insertSorted (x : String) : List String → List String
  | [] => [x]
  | y :: ys => if x ≤ y then x :: y :: ys else y :: insertSorted x ys
def sortStrings (l : List String) : List String := l.foldr insertSorted []
def Node.neighbors (n : Node) : List String := sortStrings (n.startAdj.map (·.1) ++ n.endAdj.map (·.1))
def Graph.neighbors (g : Graph) (id : String) : List String :=
  match g.find id with
  | some n => n.neighbors
  | none => []

/-! ## walks -/

/-- one oriented step: `true` = '>' -/
abbrev Step := Bool × String

/-- the `cases` table of `path_exists`: orientations ↦ (side of n1 to look in, side of n2 expected) -/
def pathCase (o1 o2 : Bool) : Bool × Bool :=
  match o1, o2 with
  | true,  true  => (true, false)    -- (">", ">") : ("end", 0)
  | false, false => (false, true)    -- ("<", "<") : ("start", 1)
  | true,  false => (true, true)     -- (">", "<") : ("end", 1)
  | false, true  => (false, false)   -- ("<", ">") : ("start", 0)

def stepOk (g : Graph) (s1 s2 : Step) : Bool :=
  let (side1, side2) := pathCase s1.1 s2.1
  (g.adj s1.2 side1).any (fun e => e.1 == s2.2 && e.2.1 == side2)

/-- `path_exists`; `none` = `KeyError` (the *first* node of a pair is not in the graph) -/
def pathExists (g : Graph) : List Step → Option Bool
  | [] => some true
  | [_] => some true
  | s1 :: s2 :: rest =>
    if !g.has s1.2 then none
    else if stepOk g s1 s2 then pathExists g (s2 :: rest) else some false

def comp (c : Char) : Char :=
  match c with
  | 'A' => 'T' | 'C' => 'G' | 'G' => 'C' | 'T' => 'A' | c => c

/-- `seq[::-1].translate(complement)` -/
def revComp (s : String) : String := String.ofList (s.toList.reverse.map comp)

def spellStep (g : Graph) (s : Step) : Option String :=
  (g.find s.2).map (fun n => if s.1 then n.seq else revComp n.seq)

/-- `extract_path` on the tokenised path (`re.findall("[><][^><]+", path)`); `none` = the Python raises `KeyError` -/
def extractPath (g : Graph) (steps : List Step) : Option String :=
  match pathExists g steps with
  | none => none
  | some false => some ""
  | some true =>
    if steps.all (fun s => g.has s.2) then some (String.join (steps.filterMap (spellStep g))) else some ""

/-! ## deletion -/

def removeAdj (nodes : List Node) (id : String) (side : Bool) (e : Adj) : List Node :=
  nodes.map (fun n => if n.id == id then
    (if side then { n with endAdj := n.endAdj.filter (· != e) } else { n with startAdj := n.startAdj.filter (· != e) }) else n)

/-- `remove_edge((n1, side1, n2, side2, overlap))` — the 5-tuple is never a key of `edge_tags`, which is left alone -/
def removeEdge (g : Graph) (n1 : String) (side1 : Bool) (n2 : String) (side2 : Bool) (ov : Nat) : Graph :=
  let nodes := removeAdj g.nodes n1 side1 (n2, side2, ov)
  let nodes := removeAdj nodes n2 side2 (n1, side1, ov)
  { g with nodes := nodes }

/-- `remove_node`: snapshot of the start set, then of the end set *after* the start edges were removed -/
def removeNode (g : Graph) (id : String) : Graph :=
  let g1 := (g.adj id false).foldl (fun g e => removeEdge g id false e.1 e.2.1 e.2.2) g
  let g2 := (g1.adj id true).foldl (fun g e => removeEdge g id true e.1 e.2.1 e.2.2) g1
  { g2 with nodes := g2.nodes.filter (·.id != id) }

/-! ## writing -/

/-- `Node.to_gfa_line()` (always called with `with_seq=True`; an empty stored sequence prints as `*`) -/
def segLineOf (n : Node) : SegLine := ⟨n.id, if n.seq == "" then "*" else n.seq, n.tags⟩

def edgeTagsGet (g : Graph) (k : EdgeKey) : Option (List String) := (g.edgeTags.find? (·.1 == k)).map (·.2)

/-- the `L` lines `write_gfa` emits while visiting node `n1`: one per adjacency entry whose `edge_tags` key exists, i.e. in the
    direction the link was declared; `inSet` = membership in `set_of_nodes` -/
def linkLinesOf (g : Graph) (inSet : String → Bool) (n1 : Node) : List LinkLine :=
  (n1.startAdj.filterMap (fun e =>
    if inSet e.1 then (edgeTagsGet g (n1.id, false, e.1, e.2.1)).map (fun tags => ⟨n1.id, false, e.1, !e.2.1, e.2.2, tags⟩) else none)) ++
  (n1.endAdj.filterMap (fun e =>
    if inSet e.1 then (edgeTagsGet g (n1.id, true, e.1, e.2.1)).map (fun tags => ⟨n1.id, true, e.1, !e.2.1, e.2.2, tags⟩) else none))

/-- `write_gfa(set_of_nodes = order)`: all S lines in the given order, then the L lines node by node
    (ids not in the graph are skipped with a warning) -/
def writeGfa (g : Graph) (order : List String) : GfaFile :=
  let ns := order.filterMap g.find
  { segs := ns.map segLineOf, links := ns.flatMap (linkLinesOf g (fun id => order.contains id)) }

end Gaftools.Gfa
