/-!
# Model of `gaftools/gaf.py`: `GAF.parse_gaf_line`, `Alignment.__str__`, `Alignment.detect_path_format`

Text is `List Char` (ASCII inputs only — stated in the validity predicates).  Import-free.

Python → Lean
* `line.rstrip()`                     → `rstrip`
* `.split("\t")`                      → `splitTab` (`List.splitOn '\t'`)
* `str.isdigit()` / `int()`           → `isDigits` / `toNat` (canonical decimals; `int()` of anything else is outside the model: `none`)
* `"%d" % n`                          → `dec n` (`Nat.toDigits 10`)
* `re.match(r"^([A-Za-z][A-Za-z0-9]:[AifZHB]:)(.*)$", k)` → `tagSplit`
* the `tags` dict (insertion ordered)  → association list, `dictSet` keeps the position of an existing key
-/
namespace Gaftools.Gaf

abbrev Str := List Char

/-- `str.rstrip()` with no argument strips ASCII whitespace (and more for non-ASCII, outside the model) -/
def isWs (c : Char) : Bool :=
  c == ' ' || c == '\t' || c == '\n' || c == '\r' || c == '\x0b' || c == '\x0c' || c == '\x1c' || c == '\x1d' || c == '\x1e' || c == '\x1f'

def rstrip (s : Str) : Str := (s.reverse.dropWhile isWs).reverse

def splitTab (s : Str) : List Str := s.splitOn '\t'

def joinTab (fs : List Str) : Str := ['\t'].intercalate fs

def isDigits (s : Str) : Bool := !s.isEmpty && s.all Char.isDigit

def toNat (s : Str) : Nat := Nat.ofDigitChars 10 s 0

def dec (n : Nat) : Str := Nat.toDigits 10 n

def isAlpha (c : Char) : Bool := c.isAlpha
def isAlnum (c : Char) : Bool := c.isAlphanum
def isTagType (c : Char) : Bool := c == 'A' || c == 'i' || c == 'f' || c == 'Z' || c == 'H' || c == 'B'

/-- the regex `^([A-Za-z][A-Za-z0-9]:[AifZHB]:)(.*)$` : `some (pattern, value)` -/
def tagSplit (k : Str) : Option (Str × Str) :=
  match k with
  | a :: b :: c :: t :: d :: v =>
    if isAlpha a && isAlnum b && c == ':' && isTagType t && d == ':' then some ([a, b, c, t, d], v) else none
  | _ => none

/-- ordered dict: assignment to an existing key keeps its position -/
def dictSet (d : List (Str × Str)) (k v : Str) : List (Str × Str) :=
  if d.any (·.1 == k) then d.map (fun e => if e.1 == k then (k, v) else e) else d ++ [(k, v)]

def dictHas (d : List (Str × Str)) (k : Str) : Bool := d.any (·.1 == k)

def dictGet (d : List (Str × Str)) (k : Str) : Option Str := (d.find? (·.1 == k)).map (·.2)

structure Rec where
  qname : Str
  qlen : Nat
  qs : Nat
  qe : Nat
  strand : Str
  path : Str
  plen : Nat
  ps : Nat
  pe : Nat
  nmatch : Nat
  blen : Nat
  mapq : Nat
  isPrimary : Bool
  cigar : Str
  tags : List (Str × Str)
deriving Repr, DecidableEq, Inhabited

/-- loop state of the tag scan: (tags, cigar, is_primary) -/
structure TagSt where
  tags : List (Str × Str)
  cigar : Str
  isPrimary : Bool
deriving Repr, DecidableEq

def cgKey : Str := "cg:Z:".toList
def dsKey : Str := "ds:Z:".toList
def tpKey : Str := "tp:A:".toList

/-- one iteration of `for k in fields[12:]` -/
def tagStep (st : TagSt) (k : Str) : TagSt :=
  match tagSplit k with
  | none => st
  | some (pattern, val) =>
    if pattern == dsKey then st
    else if pattern == cgKey then { st with cigar := val, tags := dictSet st.tags pattern val }
    else
      let tags' := if dictHas st.tags pattern then st.tags else st.tags ++ [(pattern, val)]
      let prim := if pattern == tpKey && !(val == ['P'] || val == ['p']) then false else st.isPrimary
      { st with tags := tags', isPrimary := prim }

/-- `fields[0].split(" ")[0]` -/
def cutAtSpace (s : Str) : Str := s.takeWhile (· != ' ')

/-- `parse_gaf_line` on the already right-stripped, tab-split fields.  `none` covers: fewer than 12 columns
    (`IndexError`), a non-digit numeric column (the Python returns `None` for columns 2-4/7-9 and raises for 10-12). -/
def parseFields (fs : List Str) : Option Rec :=
  match fs with
  | f0 :: f1 :: f2 :: f3 :: f4 :: f5 :: f6 :: f7 :: f8 :: f9 :: f10 :: f11 :: opt =>
    if isDigits f1 && isDigits f2 && isDigits f3 && isDigits f6 && isDigits f7 && isDigits f8 &&
       isDigits f9 && isDigits f10 && isDigits f11 then
      let st := opt.foldl tagStep ⟨[], [], true⟩
      some { qname := cutAtSpace f0, qlen := toNat f1, qs := toNat f2, qe := toNat f3, strand := f4, path := f5,
             plen := toNat f6, ps := toNat f7, pe := toNat f8, nmatch := toNat f9, blen := toNat f10, mapq := toNat f11,
             isPrimary := st.isPrimary, cigar := st.cigar, tags := st.tags }
    else none
  | _ => none

def parseLine (line : Str) : Option Rec := parseFields (splitTab (rstrip line))

/-- the twelve mandatory columns as printed by `"%s\t…%d"` -/
def mandatory (r : Rec) : List Str :=
  [r.qname, dec r.qlen, dec r.qs, dec r.qe, r.strand, r.path, dec r.plen, dec r.ps, dec r.pe, dec r.nmatch, dec r.blen, dec r.mapq]

/-- `Alignment.__str__` (after the fix: `cg:Z:` is only (re)written when the record has a CIGAR) -/
def printTags (r : Rec) : List (Str × Str) :=
  if !r.cigar.isEmpty || dictHas r.tags cgKey then dictSet r.tags cgKey r.cigar else r.tags

def printFields (r : Rec) : List Str := mandatory r ++ (printTags r).map (fun kv => kv.1 ++ kv.2)

def printRec (r : Rec) : Str := joinTab (printFields r)

/-- `detect_path_format`: `true` = stable -/
def isStable (path : Str) : Bool :=
  if path.contains ':' then true
  else if path.contains '>' || path.contains '<' then false
  else true

end Gaftools.Gaf
