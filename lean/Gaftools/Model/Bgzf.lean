/-!
# Byte-level model of the two kinds of GAF file the tool reads: plain text and BGZF (C17)

What `index`, `view` and `sort` need of a file is `tell()` before each `readline()` and `seek(offset); readline()` later.
* plain text: the offset is the byte position;
* BGZF (`pysam.libcbgzf.BGZFile`): the file is a sequence of blocks, each with a compressed address and an uncompressed payload
  of fewer than 2^16 bytes (possibly empty: flushes and the end-of-file marker write empty blocks); the *virtual offset*
  `(address <<< 16) ||| within` designates byte `within` of the payload of the block at `address` (`within` may equal the
  payload length: the position just after the block, i.e. the start of what follows).
Modelled, not verified: that htslib implements exactly this (checked by correspondence on real files: the block layout is parsed
from the gzip headers by the harness, `tell()` values come from pysam).
-/
namespace Gaftools.Bgzf

abbrev Byte := UInt8
def nl : Byte := 10

/-- one line from the head of a byte sequence: up to and including the first newline, or everything when there is none -/
def takeLine : List Byte → List Byte
  | [] => []
  | b :: t => if b == nl then [b] else b :: takeLine t

/-- `seek(p); readline()` on a byte stream -/
def readlineFrom (s : List Byte) (p : Nat) : List Byte := takeLine (s.drop p)

/-- the bytes of a file of records, each terminated by a newline -/
def fileOf (recs : List (List Byte)) : List Byte := recs.flatMap (fun r => r ++ [nl])

/-- `tell()` before record `i` of a plain file -/
def plainOff (recs : List (List Byte)) (i : Nat) : Nat := ((recs.take i).map (fun r => r.length + 1)).sum

/-- a BGZF file: `(compressed address, uncompressed payload)` of every block, in file order -/
abbrev Layout := List (Nat × List Byte)

/-- the uncompressed stream -/
def stream (L : Layout) : List Byte := L.flatMap (·.2)

/-- well-formed layout: addresses strictly increase, every payload is shorter than 2^16 -/
def WF : Layout → Bool
  | [] => true
  | [b] => decide (b.2.length < 65536)
  | b :: c :: t => decide (b.2.length < 65536) && decide (b.1 < c.1) && WF (c :: t)

def voff (addr within : Nat) : Nat := (addr <<< 16) ||| within

/-- the uncompressed position a virtual offset designates (`none`: no block at that address, or beyond its payload) -/
def resolveGo : Layout → Nat → Nat → Nat → Option Nat
  | [], _, _, _ => none
  | b :: t, before, addr, within =>
    if b.1 == addr then (if within ≤ b.2.length then some (before + within) else none)
    else resolveGo t (before + b.2.length) addr within
def resolve (L : Layout) (v : Nat) : Option Nat := resolveGo L 0 (v >>> 16) (v &&& 65535)

/-- `seek(v); readline()` on a BGZF file -/
def readlineAt (L : Layout) (v : Nat) : Option (List Byte) := (resolve L v).map (readlineFrom (stream L))

/-- uncompressed position of the start of block `k` -/
def blockStart (L : Layout) (k : Nat) : Nat := ((L.take k).map (fun b => b.2.length)).sum

end Gaftools.Bgzf
