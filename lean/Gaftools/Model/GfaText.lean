import Gaftools.Model.Gfa
import Gaftools.Model.TextLayer
/-!
# Text level of GFA reading and writing (`gaftools/gfa.py`, `gaftools/utils.py`)

`Model/Gfa.lean` starts from tokenised files (`GfaFile`).  This file starts from the characters of the file.

Python → Lean
* text-mode `open(p, "r")` / `gzip.open(p, "rt")` + `for line in f` (universal newlines)        → `fileLines` (`TextLayer.univNl`, `keepEndsNl`)
* `line.startswith("S")`, `line.startswith("L")`                                                → `startsWith`
* `line.strip().split("\t")`                                                                    → `fieldsOf` (`TextLayer.pyStripChars`, `splitOn`)
* `utils.tag_regex`, `utils.types_regex`, `utils.is_correct_tag`                                → `tagShape`, `valueOk`, `isCorrectTag`
* `tag.split(":", 2)`                                                                           → `splitMax ':' 2`
* `GFA.add_node` (new id: tags checked and stored, `SN`/`SR` bookkeeping of `contigs`; known id: warning only) → `sNew`
* the body of the S branch of `GFA.read_graph` (`assert len(line) >= 3`, `add_node`, `contig_to_nodes`) → `sLine`
* the `for line in opened_file` loop of `read_graph`                                             → `readLoop`
* the `for e in edges` loop of `read_graph` + the two assertions of `add_edge`                   → `lLine`, `linkLoop`
* `GFA(path, low_memory)` as far as the file content decides it                                  → `parseGfaFull`, `parseGfaText`
* `Node.to_gfa_line`, the L-line format of `write_gfa`, `f.write(line + "\n")`                   → `segText`, `linkText`, `renderGfaText`

Strings are lists of code points.  The file is taken as already decoded (`String`): bytes that are not UTF-8 (a
`UnicodeDecodeError` in Python) are outside the model.

The regular expressions (all used with `re.match`, all anchored with `^ … $`):
* `tag_regex = ^[A-Za-z][A-Za-z0-9][:][AifZHB][:][ !-~]*$`
* `A: ^[!-~]$`   `i: ^[-+]?[0-9]+$`   `f: ^[-+]?[0-9]*\.?[0-9]+([eE][-+]?[0-9]+)?$`   `Z: ^[ !-~]*$`   `H: ^([0-9A-F][0-9A-F])*$`
* `B: ^[cCsSiIf](,[-+]?[0-9]*\.?[0-9]+([eE][-+]?[0-9]+)?)*$`
Python's `$` also matches just before a final "\n"; none of the character classes holds "\n", so `^R$` accepts `s` iff `R`
accepts all of `chomp s` (`s` without one final "\n").  Inside `read_graph` a tag never holds "\n" (the line was stripped), the
quirk is modelled anyway so that `isCorrectTag` is `utils.is_correct_tag` on every string.

`int(str)`: `TextLayer.pyInt` (base 10: surrounding white space, one sign, single underscores between digits, at most 4300
digits).  NOT covered: decimal digits outside ASCII (`int("٣") == 3`; here a `ValueError`), a changed
`sys.set_int_max_str_digits`.

The overlap of an L line is `int(e[4][:-1])` — whatever the last character is ("3m", "3X", "3 " inside the line, "31" → 3) — and
may be negative ("-3M" is accepted by the tool and stored as −3).  `LinkLine.ov` of the token model is a `Nat`, therefore the full
result `Parsed` keeps `Int` overlaps and `parseGfaText` (into `GfaFile`) ends in `PyErr.negOverlap` — *not* a Python exception, a
marker "outside the token model" — when a negative overlap was read from a link that is stored.
-/
namespace Gaftools.GfaText
open Gaftools.Gfa
open Gaftools.TextLayer (pyIsSpace stripWith pyStripChars univNl keepEndsNl splitOn pyInt isDigitsNE)

deriving instance DecidableEq for Except

/-- how loading ends when it does not return a graph.  The first seven are raised by the tool, in this order of program points;
    `negOverlap` is not raised by the tool (see the header). -/
inductive PyErr where
  | shortS      -- `assert len(line) >= 3` in `read_graph`                        (AssertionError)
  | badTag      -- `is_correct_tag(tag)` is false in `add_node`                   (ValueError)
  | badRank     -- `int(tags["SR"][1])` in `add_node`                              (ValueError)
  | rankClash   -- `assert self.contigs[contig_name] == contig_rank` in `add_node` (AssertionError)
  | shortL      -- `assert len(e) >= 6` in `read_graph`                           (AssertionError)
  | badOverlap  -- `int(e[4][:-1])` in `read_graph`                               (ValueError)
  | badOrient   -- `assert node1_dir in {"+", "-"}` / `node2_dir` in `add_edge`   (AssertionError)
  | negOverlap  -- the tool loads the file; the overlap does not fit `LinkLine.ov : Nat`
deriving Repr, DecidableEq, Inhabited

inductive PyClass where
  | assertionError
  | valueError
  | notRaised
deriving Repr, DecidableEq, Inhabited

/-- the Python exception class of each outcome -/
def PyErr.cls : PyErr → PyClass
  | .shortS | .rankClash | .shortL | .badOrient => .assertionError
  | .badTag | .badRank | .badOverlap => .valueError
  | .negOverlap => .notRaised

/-! ## lines and fields -/

/-- the lines `for line in opened_file` yields: "\r\n" and "\r" read as "\n"; every line but possibly the last ends with "\n" -/
def fileLines (text : List Char) : List (List Char) := keepEndsNl [] (univNl false text)

/-- `line.startswith(c)` for a one-character prefix -/
def startsWith (c : Char) (line : List Char) : Bool := line.head? == some c

/-- `line.strip().split("\t")` -/
def fieldsOf (line : List Char) : List (List Char) := splitOn '\t' (pyStripChars line)

/-! ## `utils.is_correct_tag` -/

def isUpper (c : Char) : Bool := 65 ≤ c.toNat && c.toNat ≤ 90
def isLower (c : Char) : Bool := 97 ≤ c.toNat && c.toNat ≤ 122
/-- `[A-Za-z]` -/
def isAlpha (c : Char) : Bool := isUpper c || isLower c
/-- `[A-Za-z0-9]` -/
def isAlnum (c : Char) : Bool := isAlpha c || c.isDigit
/-- `[ !-~]` : U+0020 … U+007E -/
def isPrint (c : Char) : Bool := 32 ≤ c.toNat && c.toNat ≤ 126
/-- `[!-~]` : U+0021 … U+007E -/
def isGraph (c : Char) : Bool := 33 ≤ c.toNat && c.toNat ≤ 126
/-- `[0-9A-F]` -/
def isHexUp (c : Char) : Bool := c.isDigit || (65 ≤ c.toNat && c.toNat ≤ 70)
/-- `[AifZHB]` -/
def isTagType (c : Char) : Bool := c == 'A' || c == 'i' || c == 'f' || c == 'Z' || c == 'H' || c == 'B'

/-- what `$` allows: one final "\n" is not looked at -/
def chomp (s : List Char) : List Char := if s.getLast? == some '\n' then s.dropLast else s

/-- `[-+]?` -/
def optSign : List Char → List Char
  | [] => []
  | c :: r => if c == '+' || c == '-' then r else c :: r

/-- `([eE][-+]?[0-9]+)?` up to the end -/
def isExp : List Char → Bool
  | [] => true
  | e :: r => (e == 'e' || e == 'E') && isDigitsNE (optSign r)

/-- `[-+]?[0-9]+` -/
def isIntText (s : List Char) : Bool := isDigitsNE (optSign s)

/-- `[-+]?[0-9]*\.?[0-9]+([eE][-+]?[0-9]+)?` : after the sign either digits, or digits (possibly none) '.' digits; then the
    optional exponent.  (`1.` and `1.e5` are no matches: after the dot a digit is required, and without the dot the rest
    `.e5` is neither an exponent nor the end.) -/
def isFloatText (s : List Char) : Bool :=
  let r := optSign s
  let d1 := r.takeWhile Char.isDigit
  match r.dropWhile Char.isDigit with
  | [] => !d1.isEmpty
  | c :: r2 =>
    if c == '.' then !(r2.takeWhile Char.isDigit).isEmpty && isExp (r2.dropWhile Char.isDigit)
    else !d1.isEmpty && isExp (c :: r2)

/-- `([0-9A-F][0-9A-F])*` -/
def isHexPairs : List Char → Bool
  | [] => true
  | [_] => false
  | a :: b :: r => isHexUp a && isHexUp b && isHexPairs r

/-- `[cCsSiIf](,float)*` : the floats hold no ',', so the part after the type letter is empty or ',' followed by floats
    separated by ',' -/
def isArrayText : List Char → Bool
  | [] => false
  | t :: r =>
    (t == 'c' || t == 'C' || t == 's' || t == 'S' || t == 'i' || t == 'I' || t == 'f') &&
    (match r with
     | [] => true
     | c :: r' => c == ',' && (splitOn ',' r').all isFloatText)

/-- `tag_regex` without its `$` -/
def tagShape : List Char → Bool
  | c0 :: c1 :: c2 :: c3 :: c4 :: v => isAlpha c0 && isAlnum c1 && c2 == ':' && isTagType c3 && c4 == ':' && v.all isPrint
  | _ => false

/-- `types_regex[ty]` without its `$` -/
def valueOk (ty : Char) (v : List Char) : Bool :=
  if ty == 'A' then (match v with | [c] => isGraph c | _ => false)
  else if ty == 'i' then isIntText v
  else if ty == 'f' then isFloatText v
  else if ty == 'Z' then v.all isPrint
  else if ty == 'H' then isHexPairs v
  else if ty == 'B' then isArrayText v
  else false

/-- `s.split(sep, n)`: at most `n` cuts -/
def splitMax (sep : Char) : Nat → List Char → List (List Char)
  | 0, s => [s]
  | _ + 1, [] => [[]]
  | n + 1, c :: cs =>
    if c == sep then [] :: splitMax sep n cs
    else match splitMax sep (n + 1) cs with
      | h :: t => (c :: h) :: t
      | [] => [[c]]

/-- `utils.is_correct_tag(tag)`: `re.match(tag_regex, tag)`, then `name, tag_type, value = tag.split(":", 2)` and
    `re.match(types_regex[tag_type], value)` -/
def isCorrectTag (tag : List Char) : Bool :=
  tagShape (chomp tag) &&
  (match splitMax ':' 2 tag with
   | [_, [ty], value] => valueOk ty (chomp value)
   | _ => false)

/-- `add_node`: the check, then `tag = tag.split(":", 2)` and the triple `(tag[0], tag[1], tag[2])`; `none` = `ValueError` -/
def parseTag (tag : List Char) : Option Tag :=
  if isCorrectTag tag then
    match splitMax ':' 2 tag with
    | [n, ty, v] => some ⟨String.ofList n, String.ofList ty, String.ofList v⟩
    | _ => none
  else none

/-- the tags of a new node, in line order; the first bad tag raises -/
def parseTags : List (List Char) → Option (List Tag)
  | [] => some []
  | t :: ts =>
    match parseTag t with
    | none => none
    | some x => (parseTags ts).map (x :: ·)

/-! ## the S branch -/

/-- what `read_graph` has built while it reads the S lines.  `segs`: one entry per node, in insertion order — id, stored
    sequence, the tags of its line in line order (the `tags` dict of the node is `dictOf`); `contigs`: `self.contigs` (name ↦ rank,
    insertion order); `contigToNodes`: `self.contig_to_nodes` -/
structure SState where
  segs : List SegLine
  contigs : List (String × Int)
  contigToNodes : List (String × List String)
deriving Repr, DecidableEq, Inhabited

def SState.init : SState := ⟨[], [], []⟩

def SState.has (st : SState) (id : String) : Bool := st.segs.any (·.id == id)

/-- the node's `tags` dict: assignment in line order (a repeated name keeps its first position and takes the last value) -/
def dictOf (tags : List Tag) : List Tag := tags.foldl tagSet []

def dictGet (d : List Tag) (name : String) : Option Tag := d.find? (·.name == name)

/-- `self[id].tags` -/
def SState.tagsOf (st : SState) (id : String) : List Tag :=
  match st.segs.find? (·.id == id) with
  | some s => dictOf s.tags
  | none => []

def rankGet (contigs : List (String × Int)) (name : String) : Option Int := (contigs.find? (·.1 == name)).map (·.2)

/-- `if "SN" in tags and "SR" in tags:` … of `add_node` -/
def contigStep (contigs : List (String × Int)) (d : List Tag) : Except PyErr (List (String × Int)) :=
  match dictGet d "SN", dictGet d "SR" with
  | some sn, some sr =>
    match pyInt sr.val.toList with
    | none => .error .badRank
    | some rank =>
      match rankGet contigs sn.val with
      | none => .ok (contigs ++ [(sn.val, rank)])
      | some r0 => if r0 = rank then .ok contigs else .error .rankClash
  | _, _ => .ok contigs

/-- `add_node(id, seq, tags)` for an id that is not in the graph -/
def sNew (st : SState) (s : SegLine) : Except PyErr SState :=
  match contigStep st.contigs (dictOf s.tags) with
  | .error e => .error e
  | .ok c => .ok { st with segs := st.segs ++ [s], contigs := c }

/-- `self.contig_to_nodes[name].append(id)` -/
def c2nAdd (d : List (String × List String)) (name id : String) : List (String × List String) :=
  if d.any (·.1 == name) then d.map (fun e => if e.1 == name then (e.1, e.2 ++ [id]) else e) else d ++ [(name, [id])]

/-- `if "SN" in self[line[1]].tags: self.contig_to_nodes[…].append(line[1])` — also for a repeated id (then with the tags of
    the node that exists, and the id is appended once more) -/
def c2nStep (st : SState) (id : String) : SState :=
  match dictGet (st.tagsOf id) "SN" with
  | some sn => { st with contigToNodes := c2nAdd st.contigToNodes sn.val id }
  | none => st

/-- one S line after tokenisation (the tags already split): a known id only passes through `c2nStep` -/
def sTok (lm : Bool) (st : SState) (s : SegLine) : Except PyErr SState :=
  if st.has s.id then .ok (c2nStep st s.id)
  else match sNew st ⟨s.id, if lm then "" else s.seq, s.tags⟩ with
    | .error e => .error e
    | .ok st' => .ok (c2nStep st' s.id)

/-- one S line from its fields (`line.strip().split("\t")`) -/
def sLine (lm : Bool) (st : SState) (fields : List (List Char)) : Except PyErr SState :=
  match fields with
  | _ :: id :: seq :: tags =>
    let id := String.ofList id
    if st.has id then .ok (c2nStep st id)
    else match parseTags tags with
      | none => .error .badTag
      | some tg => sTok lm st ⟨id, String.ofList seq, tg⟩
  | _ => .error .shortS

/-- `for line in opened_file: if line.startswith("S"): … elif line.startswith("L"): edges.append(line)` -/
def readLoop (lm : Bool) : List (List Char) → SState → List (List Char) → Except PyErr (SState × List (List Char))
  | [], st, edges => .ok (st, edges)
  | line :: rest, st, edges =>
    if startsWith 'S' line then
      match sLine lm st (fieldsOf line) with
      | .error e => .error e
      | .ok st' => readLoop lm rest st' edges
    else if startsWith 'L' line then readLoop lm rest st (edges ++ [line])
    else readLoop lm rest st edges

/-! ## the links -/

/-- an L line that is stored; `da`/`db`: `true` = "+" -/
structure LinkZ where
  a : String
  da : Bool
  b : String
  db : Bool
  ov : Int
  tags : List String
deriving Repr, DecidableEq, Inhabited

def isPlus (s : List Char) : Bool := s == ['+']
def isOrient (s : List Char) : Bool := s == ['+'] || s == ['-']

/-- one element of `edges` from its fields: `assert len(e) >= 6`; `int(e[4][:-1])`; a missing endpoint → skipped (`none`),
    *before* the orientations are looked at; `add_edge`: `assert node1_dir in {"+", "-"}`, `assert node2_dir …` -/
def lLine (has : String → Bool) (fields : List (List Char)) : Except PyErr (Option LinkZ) :=
  match fields with
  | _ :: a :: da :: b :: db :: ov :: tags =>
    match pyInt ov.dropLast with
    | none => .error .badOverlap
    | some n =>
      let a := String.ofList a
      let b := String.ofList b
      if !(has a && has b) then .ok none
      else if !(isOrient da && isOrient db) then .error .badOrient
      else .ok (some ⟨a, isPlus da, b, isPlus db, n, tags.map String.ofList⟩)
  | _ => .error .shortL

/-- `for e in edges:` -/
def linkLoop (has : String → Bool) : List (List Char) → List LinkZ → Except PyErr (List LinkZ)
  | [], acc => .ok acc
  | e :: rest, acc =>
    match lLine has (fieldsOf e) with
    | .error x => .error x
    | .ok none => linkLoop has rest acc
    | .ok (some l) => linkLoop has rest (acc ++ [l])

/-! ## the whole file -/

/-- everything the file content decides about the loaded object: the nodes in order (id, sequence, tag tokens), the links that
    are stored (both endpoints exist), `contigs`, `contig_to_nodes` -/
structure Parsed where
  segs : List SegLine
  links : List LinkZ
  contigs : List (String × Int)
  contigToNodes : List (String × List String)
deriving Repr, DecidableEq, Inhabited

def parseLines (lines : List (List Char)) (lm : Bool) : Except PyErr Parsed :=
  match readLoop lm lines SState.init [] with
  | .error e => .error e
  | .ok (st, edges) =>
    match linkLoop st.has edges [] with
    | .error e => .error e
    | .ok links => .ok ⟨st.segs, links, st.contigs, st.contigToNodes⟩

/-- `GFA(path, low_memory)` on a file with this content -/
def parseGfaFull (text : String) (lowMemory : Bool := false) : Except PyErr Parsed :=
  parseLines (fileLines text.toList) lowMemory

def LinkZ.toLink? (l : LinkZ) : Option LinkLine :=
  if 0 ≤ l.ov then some ⟨l.a, l.da, l.b, l.db, l.ov.toNat, l.tags⟩ else none

def linksToNat : List LinkZ → Option (List LinkLine)
  | [] => some []
  | l :: ls =>
    match l.toLink? with
    | none => none
    | some x => (linksToNat ls).map (x :: ·)

/-- into the token model -/
def Parsed.toFile (p : Parsed) : Except PyErr GfaFile :=
  match linksToNat p.links with
  | none => .error .negOverlap
  | some ls => .ok ⟨p.segs, ls⟩

/-- the tokenised file `readGraph` starts from.  `segs`: the S lines that created a node (a repeated id is dropped: its line is
    never looked at beyond the id); `links`: the L lines that are stored (a link with a missing endpoint is dropped) -/
def parseGfaText (text : String) (lowMemory : Bool := false) : Except PyErr GfaFile :=
  match parseGfaFull text lowMemory with
  | .error e => .error e
  | .ok p => p.toFile

/-! ## writing -/

/-- `"\t".join(fields)` -/
def joinTab : List (List Char) → List Char
  | [] => []
  | [x] => x
  | x :: y :: r => x ++ '\t' :: joinTab (y :: r)

/-- `f"{tag_id}:{tag[0]}:{tag[1]}"` -/
def tagText (t : Tag) : List Char := t.name.toList ++ ':' :: (t.ty.toList ++ ':' :: t.val.toList)

/-- `Node.to_gfa_line()` (the choice of `*` for an empty sequence is `Gfa.segLineOf`) -/
def segText (s : SegLine) : List Char := joinTab (['S'] :: s.id.toList :: s.seq.toList :: s.tags.map tagText)

def oriChar (d : Bool) : List Char := if d then ['+'] else ['-']

/-- `"\t".join(["L", n1, ±, n2, ±, str(overlap) + "M"] + tags)` -/
def linkText (l : LinkLine) : List Char :=
  joinTab (['L'] :: l.a.toList :: oriChar l.da :: l.b.toList :: oriChar l.db :: (Nat.toDigits 10 l.ov ++ ['M']) :: l.tags.map String.toList)

/-- the lines of `write_gfa`: all S lines, then all L lines -/
def renderLines (f : GfaFile) : List (List Char) := f.segs.map segText ++ f.links.map linkText

def renderChars (f : GfaFile) : List Char := (renderLines f).flatMap (fun l => l ++ ['\n'])

/-- the file `write_gfa` writes for these tokens (`f.write(line + "\n")`) -/
def renderGfaText (f : GfaFile) : String := String.ofList (renderChars f)

/-! ## examples -/

#guard parseGfaText "L\ta\t+\tb\t-\t3M\tx:i:1\r\nH\tVN:Z:1.0\rS\ta\tACGT\tSN:Z:c\tSR:i:0\nS1\tb\t*" =
  .ok ⟨[⟨"a", "ACGT", [⟨"SN", "Z", "c"⟩, ⟨"SR", "i", "0"⟩]⟩, ⟨"b", "*", []⟩], [⟨"a", true, "b", false, 3, ["x:i:1"]⟩]⟩
#guard parseGfaText "S\ta\tACGT\tSN:Z:c\n" true = .ok ⟨[⟨"a", "", [⟨"SN", "Z", "c"⟩]⟩], []⟩
#guard parseGfaText "Sample\tfoo\n" = .error .shortS
#guard parseGfaText "S\ta\t\n" = .error .shortS
#guard parseGfaText "S\ta\t*\tAB:Z:x \n" = .ok ⟨[⟨"a", "*", [⟨"AB", "Z", "x"⟩]⟩], []⟩
#guard parseGfaText "S\ta\t*\tab:B:c,\n" = .error .badTag
#guard parseGfaText "S\ta\t*\tSN:Z:c\tSR:f:1.5\n" = .error .badRank
#guard parseGfaText "S\ta\t*\tSN:Z:c\tSR:i:1\nS\tb\t*\tSN:Z:c\tSR:Z: 1_0 \txx:i:1\n" = .error .rankClash
#guard parseGfaText "S\ta\t*\nS\ta\tjunk\tjunk\nL\ta\tx\tzz\t+\t0M\nL\ta\t+\ta\t+\t3m\n" = .ok ⟨[⟨"a", "*", []⟩], [⟨"a", true, "a", true, 3, []⟩]⟩
#guard parseGfaText "S\ta\t*\nL\ta\t+\ta\t+\tM\nL\ta\tx\ta\t+\t0M\n" = .error .badOverlap
#guard parseGfaText "S\ta\t*\nL\ta\tx\ta\t+\t0M\n" = .error .badOrient
#guard parseGfaText "S\ta\t*\nL\ta\t+\ta\t+\n" = .error .shortL
#guard parseGfaText "L\ta\t+\ta\t+\nS\ta\n" = .error .shortS
#guard parseGfaText "S\ta\t*\nL\ta\t+\ta\t+\t-3M\n" = .error .negOverlap
#guard (parseGfaFull "S\ta\t*\tSN:Z:c\nS\ta\t*\tjunk\nL\ta\t+\ta\t+\t-3M\n").map (fun p => (p.links.map (·.ov), p.contigToNodes)) = .ok ([-3], [("c", ["a", "a"])])
#guard renderGfaText ⟨[⟨"a", "ACGT", [⟨"SN", "Z", "c"⟩]⟩], [⟨"a", true, "a", false, 30, ["x:i:1"]⟩]⟩ = "S\ta\tACGT\tSN:Z:c\nL\ta\t+\ta\t-\t30M\tx:i:1\n"

end Gaftools.GfaText
