import Gaftools.Model.Sort
import Gaftools.Model.Gaf
import Gaftools.Model.ConvText
/-!
# Text layer of `gaftools sort`: from raw GAF lines to the written lines

`sort()` reads every line, `rstrip().split("\t")`s it, hands the fields to `process_alignment` (which tokenises column 6 with
`re.split("(>)|(<)")` and reads columns 7–9 with `int()`), sorts, then re-reads each raw line, right-strips it and appends
the three fields.
-/
namespace Gaftools.SortText
open Gaftools.Gaf Gaftools.Sort Gaftools.ConvText

/-- `process_alignment(line, nodes, offset)` on the raw line -/
def alnOfLine (nodes : String → Option NodeTags) (line : Str) (ord : Nat) : Option Aln :=
  match splitTab (rstrip line) with
  | _ :: _ :: _ :: _ :: _ :: path :: plen :: ps :: pe :: _ =>
    if isDigits plen && isDigits ps && isDigits pe then
      (processAlignment nodes (parseUnstableSteps path) (toNat plen) (toNat ps) (toNat pe) (ord : Nat)).toOption
    else none
  | _ => none

/-- the whole command on lines: `none` when some record cannot be processed (the Python raises) -/
def sortLines (nodes : String → Option NodeTags) (lines : List Str) : Option (List Str) := do
  let alns ← lines.zipIdx.mapM (fun (l, i) => alnOfLine nodes l i)
  return (sortAlns alns).map (fun a => rstrip (lines.getD a.offset.toNat []) ++ (suffix a).toList)

end Gaftools.SortText
