import Gaftools.Model.Gaf
/-!
# Model of `gaftools/cli/phase.py` : `add_phase_info`
-/
namespace Gaftools.Phase
open Gaftools.Gaf

/-- `Node(chr_name, haplotype, phase_set)` keyed by read name -/
structure TsvEntry where
  read : Str
  hap : Str
  pset : Str
  chr : Str
deriving Repr, DecidableEq

/-- one TSV line: `line.rstrip().split("\t")`, columns 0..3 (`IndexError` → `none`) -/
def parseTsvLine (line : Str) : Option TsvEntry :=
  match splitTab (rstrip line) with
  | e0 :: e1 :: e2 :: e3 :: _ => some ⟨e0, e1, e2, e3⟩
  | _ => none

/-- `if line_elements[0] not in phase: phase[...] = ...` — first occurrence wins -/
def tsvStep (acc : List TsvEntry) (e : TsvEntry) : List TsvEntry :=
  if acc.any (·.read == e.read) then acc else acc ++ [e]

def buildPhase (es : List TsvEntry) : List TsvEntry := es.foldl tsvStep []

def lookupPhase (phase : List TsvEntry) (q : Str) : Option TsvEntry := phase.find? (·.read == q)

def noneStr : Str := "none".toList

/-- the two fields written after the mandatory columns -/
def phaseTags (phase : List TsvEntry) (q : Str) : List Str :=
  match lookupPhase phase q with
  | some e =>
    if e.hap != noneStr then ["ps:Z:".toList ++ e.chr ++ ['-'] ++ e.pset, "ht:Z:".toList ++ e.hap]
    else ["ps:Z:none".toList, "ht:Z:none".toList]
  | none => ["ps:Z:none".toList, "ht:Z:none".toList]

/-- one output record (fields), from the parsed record -/
def phaseFields (phase : List TsvEntry) (r : Rec) : List Str :=
  mandatory r ++ phaseTags phase r.qname ++ r.tags.map (fun kv => kv.1 ++ kv.2)

/-- `add_phase_info`: one output line per input line, joined by newlines; `none` when the Python would crash
    (unparsable record or a TSV line with fewer than four columns) -/
def phaseFile (tsvLines gafLines : List Str) : Option (List Str) := do
  let es ← tsvLines.mapM parseTsvLine
  let phase := buildPhase es
  let recs ← gafLines.mapM parseLine
  return recs.map (fun r => joinTab (phaseFields phase r))

end Gaftools.Phase
