/-!
# Model of `gaftools/conversion.py` and `gaftools/utils.py` (coordinate conversion), token level

The path column is handled as a token list (the character-level `re.split("(>)|(<)")`, `split(":")`, `split("-")`
are in `parsePath…` below and exercised by the correspondence); arithmetic is on `Int` exactly as the Python ints
(the `-1` sentinels of `new_start` and of `search_intervals` are kept).

Python → Lean
* `conversion.merge_nodes`                     → `mergeNodes`  (hand-written twin of the generated `Gen.mergeNodes`)
* `conversion.to_stable`                       → `toStable`    (`out_node` loop = `mergeGo`)
* `utils.search_intervals`                     → `searchIv`    (fuelled; `none` = IndexError)
* the three `cases` of `to_unstable`/`convert_coord` → `overlapCase`
* `conversion.to_unstable`                     → `toUnstable`
* `utils.reverse_cigar`                        → `reverseCigar`
-/
namespace Gaftools.Conv

/-- `StableNode(contig_id, start, end)` -/
structure SNode where
  contig : String
  s : Int
  e : Int
deriving DecidableEq, Repr, Inhabited

/-- orientation: `true` = '>' -/
abbrev OIv := SNode × Bool

/-- `merge_nodes(node1, node2, orient1, orient2)`; `none` = `False` -/
def mergeNodes (n1 n2 : SNode) (o1 o2 : Bool) : Option OIv :=
  if n1.contig ≠ n2.contig ∨ o1 ≠ o2 then none
  else if o1 = true ∧ n1.e ≠ n2.s then none
  else if o1 = false ∧ n1.s ≠ n2.e then none
  else if o1 = false then some (⟨n1.contig, n2.s, n1.e⟩, o1)
  else some (⟨n1.contig, n1.s, n2.e⟩, o1)

/-- the `out_node` loop of `to_stable` with the open interval carried separately; result = `out_node` -/
def mergeGo (cur : OIv) : List OIv → List OIv
  | [] => [cur]
  | x :: xs =>
    match mergeNodes cur.1 x.1 cur.2 x.2 with
    | some m => mergeGo m xs
    | none => cur :: mergeGo x xs

/-- the converted path: a bare reference contig name, or a list of oriented intervals -/
inductive SPath where
  | bare (contig : String)
  | ivs (l : List OIv)
deriving DecidableEq, Repr

structure ConvOut where
  strandPlus : Bool       -- column 5: true = '+'
  plen : Int
  ps : Int
  pe : Int
  flipCigar : Bool        -- the CIGAR is written reversed
deriving DecidableEq, Repr

/-- `to_stable(gaf_line, nodes, ref_contig, contig_len)`.
    `nodes id` = the StableNode of a graph node (`none`: KeyError), `refContigs` the rank-0 contig names,
    `contigLen c` = `contig_len[c]`.  `steps` must be non-empty (IndexError otherwise). -/
def toStable (nodes : String → Option SNode) (refContigs : List String) (contigLen : String → Option Int)
    (strandPlus : Bool) (steps : List (Bool × String)) (plen ps pe : Int) : Option (SPath × ConvOut) :=
  match steps.mapM (fun s => (nodes s.2).map (fun n => (n, s.1))) with
  | none => none
  | some [] => none
  | some (x :: xs) =>
    let out := mergeGo x xs
    match out with
    | [(n, o)] =>
      if refContigs.contains n.contig then
        match contigLen n.contig with
        | none => none
        | some total =>
          if o = false then
            let ns := n.s + plen - pe
            some (.bare n.contig, ⟨false, total, ns, ns + pe - ps, true⟩)
          else
            let ns := n.s + ps
            some (.bare n.contig, ⟨strandPlus, total, ns, ns + pe - ps, false⟩)
      else some (.ivs out, ⟨strandPlus, plen, ps, ps + pe - ps, false⟩)
    | _ => some (.ivs out, ⟨strandPlus, plen, ps, ps + pe - ps, false⟩)

/-- a graph node on a contig: `(id, SO, SO + LN)` -/
structure Seg where
  id : String
  so : Int
  en : Int
deriving DecidableEq, Repr, Inhabited

/-- `utils.search_intervals(intervals, query_start, query_end, start, end)`; `none` = IndexError (or out of fuel) -/
def searchIv (iv : List Seg) (qs qe : Int) : Nat → Int → Int → Option (Int × Int)
  | 0, _, _ => none
  | fuel + 1, s, e =>
    if s ≤ e then
      let mid := s + (e - s) / 2
      if mid < 0 then none      -- Python would index from the end; unreachable from start = 0
      else
        match iv[mid.toNat]? with
        | none => none
        | some sg =>
          if qe ≤ sg.so then searchIv iv qs qe fuel s (mid - 1)
          else if qs ≥ sg.en then searchIv iv qs qe fuel (mid + 1) e
          else some (s, e)
    else some (-1, -1)

/-- `reference[contig][start : end + 1]` for the pair returned by the search (`(-1, -1)` gives the empty slice) -/
def window (iv : List Seg) (r : Int × Int) : List Seg :=
  if r.1 < 0 then [] else (iv.drop r.1.toNat).take (r.2 + 1 - r.1).toNat

/-- the three `cases`: 1 = the query starts in the node, 2 = it ends in it, 3 = the node is strictly inside, 0 = none -/
def overlapCase (sg : Seg) (qs qe : Int) : Nat :=
  if sg.so ≤ qs ∧ qs < sg.en then 1
  else if sg.so < qe ∧ qe ≤ sg.en then 2
  else if qs < sg.so ∧ sg.so < sg.en ∧ sg.en < qe then 3
  else 0

/-- one item of a stable path -/
inductive SItem where
  | iv (o : Bool) (contig : String) (s e : Int)   -- `>contig:s-e`
  | bare (contig : String)                          -- `contig`
deriving DecidableEq, Repr

/-- loop state of `to_unstable` -/
structure USt where
  path : List (Bool × String)   -- `unstable_coord`
  orient : Option Bool          -- last seen orientation token
  newStart : Int                -- `new_start`, -1 = unset
  newTotal : Int
  split : Bool                  -- `split_contig` of the last item
deriving Repr

/-- the inner `for i in reference[...][start:end+1]` loop -/
def scanWindow (w : List Seg) (qs qe : Int) (isSplit : Bool) (ns nt : Int) : List String × Int × Int :=
  w.foldl (fun (acc : List String × Int × Int) sg =>
    let c := overlapCase sg qs qe
    let ns' := if c = 1 ∧ acc.2.1 = -1 then (if isSplit then qs else qs - sg.so) else acc.2.1
    if c ≠ 0 then (acc.1 ++ [sg.id], ns', acc.2.2 + (sg.en - sg.so)) else (acc.1, ns', acc.2.2)) ([], ns, nt)

/-- one item of the stable path (`for nd in gaf_contigs`, non-orientation token) -/
def itemStep (reference : String → List Seg) (strandPlus : Bool) (ps pe : Int) (st : USt) (it : SItem) : Option USt :=
  let (o?, contig, qs, qe, isSplit) := match it with
    | .iv o c s e => (some o, c, s, e, true)
    | .bare c => (none, c, ps, pe, false)
  let orient0 := match o? with | some o => some o | none => st.orient
  let orient := orient0.getD strandPlus       -- `if not orient: orient = ">" if strand == "+" else "<"`
  let iv := reference contig
  match searchIv iv qs qe (iv.length + 2) 0 iv.length with
  | none => none
  | some r =>
    let (ids, ns, nt) := scanWindow (window iv r) qs qe isSplit st.newStart st.newTotal
    let ids' := if orient then ids else ids.reverse
    some { path := st.path ++ ids'.map (fun i => (orient, i)), orient := some orient, newStart := ns, newTotal := nt, split := isSplit }

/-- `to_unstable(gaf_line, reference)`; output strand is always '+' -/
def toUnstable (reference : String → List Seg) (strandPlus : Bool) (items : List SItem) (plen ps pe : Int) :
    Option (List (Bool × String) × ConvOut) :=
  match items.foldlM (itemStep reference strandPlus ps pe) ⟨[], none, -1, 0, false⟩ with
  | none => none
  | some st =>
    if items.isEmpty then none
    else if !strandPlus then
      if st.split then some (st.path, ⟨true, plen, plen - pe, plen - ps, true⟩)
      else
        let ne := st.newTotal - st.newStart
        some (st.path, ⟨true, st.newTotal, ne - (pe - ps), ne, true⟩)
    else
      if st.split then some (st.path, ⟨true, plen, ps, pe, false⟩)
      else some (st.path, ⟨true, st.newTotal, st.newStart, st.newStart + (pe - ps), false⟩)

/-- `utils.reverse_cigar` on the tokenised CIGAR (pairs of a digit run and an operation run) -/
def reverseCigar (ops : List (List Char × List Char)) : List (List Char × List Char) := ops.reverse

/-- `convert_coord` of index.py: the node ids a stable record traverses (same search + cases, no arithmetic) -/
def convertCoord (reference : String → List Seg) (items : List SItem) (ps pe : Int) : Option (List String) :=
  items.foldlM (fun acc it =>
    let (contig, qs, qe) := match it with
      | .iv _ c s e => (c, s, e)
      | .bare c => (c, ps, pe)
    let iv := reference contig
    match searchIv iv qs qe (iv.length + 2) 0 iv.length with
    | none => none
    | some r => some (acc ++ ((window iv r).filter (fun sg => overlapCase sg qs qe ≠ 0)).map (·.id))) []

end Gaftools.Conv
