import Gaftools.Model.Gaf
import Gaftools.Model.Stat
import Gaftools.Model.Conv
/-!
# Text layer of the coordinate conversion: path tokenisation and the printed record

Python → Lean
* `list(filter(None, re.split("(>)|(<)", path)))`                         → `pathTokens`
* the per-token `":" in nd and "-" in nd` / `split(":")` / `split("-")`     → `parseStableItems`
* `re.findall`-free reading of an unstable path (orientation token + name)   → `parseUnstableSteps`
* `StableNode.to_string`, the `"%s\t…%d"` lines of `to_stable`/`to_unstable`  → `renderSPath`, `renderUPath`, `emitConverted`
* `utils.reverse_cigar`                                                      → `reverseCigarStr`
-/
namespace Gaftools.ConvText
open Gaftools.Gaf Gaftools.Conv

/-- tokens: each '>' / '<' on its own, maximal runs of other characters in between (empty strings filtered) -/
def pathTokensAux : Str → Str → List Str
  | [], cur => if cur.isEmpty then [] else [cur.reverse]
  | c :: cs, cur =>
    if c == '>' || c == '<' then (if cur.isEmpty then [] else [cur.reverse]) ++ [c] :: pathTokensAux cs []
    else pathTokensAux cs (c :: cur)

def pathTokens (p : Str) : List Str := pathTokensAux p []

def isOrientTok (t : Str) : Bool := t == ['>'] || t == ['<']

/-- unstable path → steps; a name before any orientation token gets '>' (as `to_stable` does) -/
def parseUnstableSteps (p : Str) : List (Bool × String) :=
  (go (pathTokens p) true).map (fun s => (s.1, String.ofList s.2))
where
  go : List Str → Bool → List (Bool × Str)
    | [], _ => []
    | t :: ts, o => if isOrientTok t then go ts (t == ['>']) else (o, t) :: go ts o

def splitOnChar (c : Char) (s : Str) : List Str := s.splitOn c

def toInt (s : Str) : Option Int := if isDigits s then some (toNat s : Int) else none

/-- stable path → items; `none` when the Python would raise (wrong number of `:`/`-` parts, non-numeric bounds) -/
def parseStableItems (p : Str) : Option (List SItem) :=
  go (pathTokens p) none
where
  go : List Str → Option Bool → Option (List SItem)
    | [], _ => some []
    | t :: ts, o =>
      if isOrientTok t then go ts (some (t == ['>']))
      else if t.contains ':' && t.contains '-' then
        match splitOnChar ':' (rstrip t) with
        | c :: rng :: _ =>
          match splitOnChar '-' (rstrip rng) with
          | [a, b] =>
            match toInt a, toInt b, o with
            | some s, some e, some ob => (go ts o).map (fun r => SItem.iv ob (String.ofList c) s e :: r)
            | _, _, _ => none
          | _ => none
        | _ => none
      else (go ts o).map (fun r => SItem.bare (String.ofList t) :: r)

def decI (i : Int) : Str := if i < 0 then '-' :: dec i.natAbs else dec i.toNat

def renderOIv (x : OIv) : Str :=
  (if x.2 then ['>'] else ['<']) ++ x.1.contig.toList ++ [':'] ++ decI x.1.s ++ ['-'] ++ decI x.1.e

def renderSPath : SPath → Str
  | .bare c => c.toList
  | .ivs l => l.flatMap renderOIv

def renderUPath (steps : List (Bool × String)) : Str :=
  steps.flatMap (fun s => (if s.1 then ['>'] else ['<']) ++ s.2.toList)

/-- `reverse_cigar` for a CIGAR with an even number of digit/operation runs -/
def reverseCigarStr (cg : Str) : Str :=
  ((Gaftools.Stat.cigarPairs (Gaftools.Stat.groupDigits cg)).reverse).flatMap (fun p => p.1 ++ p.2)

/-- the converted line: untouched columns from the parsed record, converted columns from `ConvOut`,
    tags in the original order with `cg:Z:` reversed in place when required (and only if the record has one) -/
def emitConverted (r : Rec) (path : Str) (o : ConvOut) : Str :=
  let tags := if o.flipCigar && dictHas r.tags cgKey then dictSet r.tags cgKey (reverseCigarStr r.cigar) else r.tags
  joinTab ([r.qname, dec r.qlen, dec r.qs, dec r.qe, (if o.strandPlus then ['+'] else ['-']), path,
            decI o.plen, decI o.ps, decI o.pe, dec r.nmatch, dec r.blen, dec r.mapq] ++ tags.map (fun kv => kv.1 ++ kv.2))

end Gaftools.ConvText
