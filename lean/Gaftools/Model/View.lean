import Gaftools.Model.Gfa
import Gaftools.Model.Conv
/-!
# Model of `gaftools/cli/index.py` and `gaftools/cli/view.py` (tables, index, selection)

A GAF on disk is a list of records; offsets only ever matter through their order (`tell()` is strictly increasing) and
through `seek(off i); readline() = record i`, so the model works with record *ordinals*; C17 is the statement that this is
sound for plain text and for BGZF virtual offsets.

Python → Lean
* `view.run` lines 51–88 (gfa_nodes, ref_contig, contig_len, reference)  → `nodeTable`, `refContigs`, `contigLen`, `reference`
* `GFA.get_path(contig, throw_warning=False)`                            → `contigNodes` (ids with that SN, stably sorted by SO)
* `index.run` main loop                                                  → `buildIndex`
* `view.run` selection (ind_dict, union, sort, "No alignments")          → `selectNodes`
* `view.get_unstable` / `view.search` (after the repair)                 → `regionNodes`
-/
namespace Gaftools.View
open Gaftools.Gfa Gaftools.Conv

def tagVal (tags : List Tag) (name : String) : Option String := (tags.find? (·.name == name)).map (·.val)

/-- `int(...)` of a tag value; the rGFA tags are canonical decimals -/
def tagInt (tags : List Tag) (name : String) : Option Int := (tagVal tags name).bind (fun v => v.toInt?)

/-- what index/view need of a node: `(id, SN, SO, SO+LN, SR)` -/
structure NodeInfo where
  id : String
  sn : String
  so : Int
  en : Int
  sr : Int
deriving DecidableEq, Repr, Inhabited

def nodeInfo (n : Node) : Option NodeInfo := do
  let sn ← tagVal n.tags "SN"
  let so ← tagInt n.tags "SO"
  let ln ← tagInt n.tags "LN"
  let sr ← tagInt n.tags "SR"
  return ⟨n.id, sn, so, so + ln, sr⟩

/-- all nodes with their stable coordinates, in graph (file) order -/
def infos (g : Graph) : List NodeInfo := g.nodes.filterMap nodeInfo

/-- `gfa_nodes[id] = StableNode(SN, SO, SO+LN)` -/
def nodeTable (g : Graph) (id : String) : Option SNode :=
  ((infos g).find? (·.id == id)).map (fun i => ⟨i.sn, i.so, i.en⟩)

/-- `gfa_file.contigs` (dict: first SN/SR seen per contig, in file order) restricted to rank 0 -/
def refContigs (g : Graph) : List String :=
  (((infos g).filter (·.sr == 0)).map (·.sn)).eraseDups

def insertBySo (x : NodeInfo) : List NodeInfo → List NodeInfo
  | [] => [x]
  | y :: ys => if x.so < y.so then x :: y :: ys else y :: insertBySo x ys

/-- `sorted(nodes_of_chrom, key=SO)` — stable -/
def contigNodes (g : Graph) (c : String) : List NodeInfo :=
  ((infos g).filter (·.sn == c)).foldl (fun acc x => insertBySo x acc) []

def reference (g : Graph) (c : String) : List Seg := (contigNodes g c).map (fun i => ⟨i.id, i.so, i.en⟩)

/-- `get_contig_length(c, throw_warning=False)`: sum of LN over the contig's nodes (`none`: no such contig → sys.exit) -/
def contigLen (g : Graph) (c : String) : Option Int :=
  match contigNodes g c with
  | [] => none
  | l => some ((l.map (fun i => i.en - i.so)).sum)

/-! ## index -/

/-- index key `(id, SN, SO, SO+LN)` -/
abbrev Key := String × String × Int × Int

def keyOf (i : NodeInfo) : Key := (i.id, i.sn, i.so, i.en)

/-- `out_dict[key].append(offset)` (dict in first-insertion order) -/
def idxAdd (idx : List (Key × List Nat)) (k : Key) (ord : Nat) : List (Key × List Nat) :=
  if idx.any (·.1 == k) then idx.map (fun e => if e.1 == k then (e.1, e.2 ++ [ord]) else e) else idx ++ [(k, [ord])]

/-- the node ids one record contributes (unstable: every step, with multiplicity; stable: `convert_coord`) -/
inductive RecPath where
  | unstable (steps : List (Bool × String))
  | stable (items : List SItem) (ps pe : Int)
deriving Repr

def recNodes (g : Graph) : RecPath → Option (List String)
  | .unstable steps => some (steps.map (·.2))
  | .stable items ps pe => convertCoord (reference g) items ps pe

/-- `index.run`: `none` = the Python raises (unknown node id: KeyError; search IndexError) -/
def buildIndex (g : Graph) (recs : List RecPath) : Option (List (Key × List Nat)) :=
  recs.zipIdx.foldlM (fun idx (r, ord) => do
    let ids ← recNodes g r
    ids.foldlM (fun idx a => do
      let i ← (infos g).find? (·.id == a)
      return idxAdd idx (keyOf i) ord) idx) []

/-! ## selection -/

inductive SelErr where
  | noAlignments
deriving Repr, DecidableEq

def insertNat (x : Nat) : List Nat → List Nat
  | [] => [x]
  | y :: ys => if x ≤ y then x :: y :: ys else y :: insertNat x ys
def sortNat (l : List Nat) : List Nat := l.foldr insertNat []

/-- `ind_dict[id] = key` over the keys sorted by (SN, SO): for unique ids simply "the key of that id" -/
def entryOf (idx : List (Key × List Nat)) (id : String) : List Nat :=
  match (idx.filter (fun e => e.1.1 == id)).getLast? with
  | some e => e.2
  | none => []

/-- `view --node`: union of the entries of the nodes that have one, sorted, de-duplicated; empty → "No alignments found" -/
def selectNodes (idx : List (Key × List Nat)) (nodes : List String) : Except SelErr (List Nat) :=
  let offs := sortNat ((nodes.flatMap (entryOf idx)).eraseDups)
  if offs.isEmpty then .error .noAlignments else .ok offs

/-- `view.search` (repaired): indexed nodes of the contig whose interval intersects the closed region `[a, b]`, by SO -/
def regionNodes (idx : List (Key × List Nat)) (c : String) (a b : Int) : List String :=
  let keys := (idx.map (·.1)).filter (fun k => k.2.1 == c)
  let sorted := keys.foldl (fun acc k => insK k acc) []
  (sorted.filter (fun k => k.2.2.1 ≤ b ∧ a < k.2.2.2)).map (·.1)
where
  insK (x : Key) : List Key → List Key
    | [] => [x]
    | y :: ys => if x.2.2.1 < y.2.2.1 then x :: y :: ys else y :: insK x ys

/-- `view --region r1 --region r2 …` -/
def selectRegions (idx : List (Key × List Nat)) (regions : List (String × Int × Int)) : Except SelErr (List Nat) :=
  selectNodes idx (regions.flatMap (fun r => regionNodes idx r.1 r.2.1 r.2.2))

end Gaftools.View
