/-!
# Model of the collector protocol of `gaftools/cli/realign.py` : `realign_gaf` / `wfa_alignment`

A transition system, not a function: workers and the collecting parent take steps in any interleaving.

* a worker (one `mp.Process` running `wfa_alignment` on its batch) owns the messages it still has to `put`
  (`todo`: its records in batch order, then the sentinel `None`), the messages handed to the queue's feeder thread but not
  yet written to the pipe (`buf`), and its process state;
* `chan` is the pipe of the shared `mp.Queue` (FIFO);
* the parent is at `queue.get(timeout)` (`atGet`), has just caught `queue.Empty` (`afterEmpty`), has left the loop because
  all sentinels arrived (`done`), or has called `sys.exit(1)` (`failed`).

Modelled, not verified (multiprocessing runtime): `get(timeout)` raises `Empty` only when nothing is readable; a process
that exits normally has flushed its feeder; `put`/flush/`get` are atomic with respect to a worker's death.
-/
namespace Gaftools.Realign

inductive Msg where
  | item (prio : Nat)     -- PriorityAlignment(prior_counter, text): the text is a function of the priority (the record)
  | sentinel              -- None
deriving DecidableEq, Repr

inductive WSt where
  | running
  | exited (code : Int)
deriving DecidableEq, Repr

structure Worker where
  todo : List Msg
  buf : List Msg
  st : WSt
deriving DecidableEq, Repr

inductive PC where
  | atGet | afterEmpty | done | failed
deriving DecidableEq, Repr

structure St where
  ws : List Worker
  chan : List Msg
  pc : PC
  nSent : Nat
  got : List Nat          -- priorities put into the PriorityQueue, in arrival order
deriving DecidableEq, Repr

inductive Ev where
  | wPut (i : Nat)                 -- qu.put(x): hand the next message to the feeder
  | wFlush (i : Nat)               -- feeder writes the oldest buffered message to the pipe
  | wExit (i : Nat)                -- normal exit (only with nothing left to put or flush): exit code 0
  | wDie (i : Nat) (code : Int)    -- abnormal termination at any point: undelivered messages are lost
  | pGet                           -- queue.get returns the head of the pipe
  | pTimeout                       -- queue.get raises Empty (only when the pipe is empty)
  | pCheck                         -- one_failed / one_is_alive / all_exited after Empty
deriving DecidableEq, Repr

def updW (ws : List Worker) (i : Nat) (w : Worker) : List Worker := ws.set i w

/-- what the parent does with a received object -/
def receive (s : St) (m : Msg) : St :=
  let s' := match m with
    | .sentinel => { s with nSent := s.nSent + 1 }
    | .item p => { s with got := s.got ++ [p] }
  if s'.nSent = s'.ws.length then { s' with pc := .done } else { s' with pc := .atGet }

def anyRunning (s : St) : Bool := s.ws.any (fun w => w.st == .running)
def allExitedZero (s : St) : Bool := s.ws.all (fun w => w.st == .exited 0)
/-- `one_failed`: some process has exited with a non-zero status -/
def anyFailed (s : St) : Bool := s.ws.any (fun w => match w.st with | .exited c => c != 0 | .running => false)

/-- one event; an event that is not enabled leaves the state unchanged (stutter) -/
def step (s : St) : Ev → St
  | .wPut i => match s.ws[i]? with
      | some ⟨m :: t, b, .running⟩ => { s with ws := updW s.ws i ⟨t, b ++ [m], .running⟩ }
      | _ => s
  | .wFlush i => match s.ws[i]? with
      | some ⟨t, m :: b, .running⟩ => { s with ws := updW s.ws i ⟨t, b, .running⟩, chan := s.chan ++ [m] }
      | _ => s
  | .wExit i => match s.ws[i]? with
      | some ⟨[], [], .running⟩ => { s with ws := updW s.ws i ⟨[], [], .exited 0⟩ }
      | _ => s
  | .wDie i code => match s.ws[i]? with
      | some ⟨t, b, .running⟩ => if code = 0 then s else { s with ws := updW s.ws i ⟨b ++ t, [], .exited code⟩ }
      | _ => s
  | .pGet => match s.pc, s.chan with
      | .atGet, m :: c => receive { s with chan := c } m
      | _, _ => s
  | .pTimeout => match s.pc, s.chan with
      | .atGet, [] => { s with pc := .afterEmpty }
      | _, _ => s
  | .pCheck => match s.pc with
      | .afterEmpty =>
          if anyFailed s then { s with pc := .failed }            -- one_failed: stop the others, sys.exit(1) (the fix of K3)
          else if anyRunning s then { s with pc := .atGet }       -- continue
          else if !allExitedZero s then { s with pc := .failed }  -- sys.exit(1) (unreachable after the first test)
          else { s with pc := .atGet }                            -- continue (the fix of D17)
      | _ => s

def run (s : St) (es : List Ev) : St := es.foldl step s

/-- one group: worker `w` gets the priorities `batches[w]` -/
def init (batches : List (List Nat)) : St :=
  { ws := batches.map (fun ps => ⟨ps.map Msg.item ++ [.sentinel], [], .running⟩),
    chan := [], pc := if batches.isEmpty then .done else .atGet, nSent := 0, got := [] }

def insertNat (x : Nat) : List Nat → List Nat
  | [] => [x]
  | y :: ys => if x ≤ y then x :: y :: ys else y :: insertNat x ys
/-- `PriorityQueue.get()` until empty -/
def sortNat (l : List Nat) : List Nat := l.foldr insertNat []

/-- what the parent writes for the group once the loop is left -/
def output (s : St) : List Nat := sortNat s.got

/-! ## batching (the sequential part of `realign_gaf`) -/

/-- records `0..n-1` cut into batches of `batchSize`, batches grouped `cores` at a time; the last group takes the leftovers -/
def chunks (k : Nat) : Nat → List α → List (List α)
  | 0, _ => []
  | _, [] => []
  | fuel + 1, l => if k = 0 then [l] else l.take k :: chunks k fuel (l.drop k)

def groups (batchSize cores : Nat) (recs : List Nat) : List (List (List Nat)) :=
  chunks cores (recs.length + 1) (chunks batchSize (recs.length + 1) recs)

end Gaftools.Realign
