/-!
# Model of the collector protocol of `gaftools/cli/realign.py` : `realign_gaf` / `wfa_alignment`

A transition system, not a function: workers and the collecting parent take steps in any interleaving.

* a worker (one `mp.Process` running `wfa_alignment` on its batch) owns the messages it still has to `put`
  (`todo`: its records in batch order, then the sentinel `None`), the messages handed to the queue's feeder thread but not
  yet written to the pipe (`buf`), and its process state;
* `chan` is the pipe of the shared `mp.Queue` (FIFO);
* the parent is at `queue.get(timeout)` (`atGet`), is inside the `except queue.Empty` handler about to evaluate the next of
  its predicates (`eval p`: `p` is the rest of the handler as a decision program), has left the loop because all sentinels
  arrived (`done`), has called `sys.exit(1)` (`failed`), or has taken an action the protocol has no transition for (`stuck`).
  The handler is NOT evaluated atomically: `one_failed(processes)`, `one_is_alive(processes)`, `all_exited(processes)` are
  separate polls, and workers may move between them (each single poll is atomic: a worker only ever goes from running to
  exited, so a loop over the processes returns what an atomic evaluation at some moment of its execution returns).

Modelled, not verified (multiprocessing runtime): `get(timeout)` raises `Empty` only when nothing is readable; a process
that exits normally has flushed its feeder; `put`/flush/`get` are atomic with respect to a worker's death.
-/
namespace Gaftools.Realign

inductive Msg where
  | item (prio : Nat)     -- PriorityAlignment(prior_counter, text): the text is a function of the priority (the record)
  | sentinel              -- None
deriving DecidableEq, Repr

inductive WSt where
  | running
  | exited (code : Int)
deriving DecidableEq, Repr

structure Worker where
  todo : List Msg
  buf : List Msg
  st : WSt
deriving DecidableEq, Repr

/-- the predicates the handler polls -/
inductive Pred where
  | failed      -- one_failed(processes)
  | alive       -- one_is_alive(processes)
  | exited      -- all_exited(processes)
  | allAlive    -- all_are_alive(processes)
deriving DecidableEq, Repr

/-- how a path through the handler ends -/
inductive Act where
  | exit1 | exit0 | cont | brk | fall
deriving DecidableEq, Repr

/-- the `except queue.Empty` handler as a decision program: poll a predicate, go on with one of two rests, or act
    (`and` / `or` / `not` of the source are short-circuit evaluation, i.e. nested polls in source order) -/
inductive Prog where
  | leaf (a : Act)
  | test (p : Pred) (yes no : Prog)
deriving DecidableEq, Repr

/-- the handler of `realign_gaf` (both copies of the collector loop):
    `if one_failed: stop_all; exit(1)` / `if one_is_alive: continue` / `else: if not all_exited: exit(1)` / `continue` -/
def refHandler : Prog :=
  .test .failed (.leaf .exit1) (.test .alive (.leaf .cont) (.test .exited (.leaf .cont) (.leaf .exit1)))

inductive PC where
  | atGet | eval (p : Prog) | done | failed | stuck
deriving DecidableEq, Repr

structure St where
  ws : List Worker
  chan : List Msg
  pc : PC
  nSent : Nat
  got : List Nat          -- priorities put into the PriorityQueue, in arrival order
deriving DecidableEq, Repr

inductive Ev where
  | wPut (i : Nat)                 -- qu.put(x): hand the next message to the feeder
  | wFlush (i : Nat)               -- feeder writes the oldest buffered message to the pipe
  | wExit (i : Nat)                -- normal exit (only with nothing left to put or flush): exit code 0
  | wDie (i : Nat) (code : Int)    -- abnormal termination at any point: undelivered messages are lost
  | pGet                           -- queue.get returns the head of the pipe
  | pTimeout                       -- queue.get raises Empty (only when the pipe is empty)
  | pCheck                         -- ONE poll of the handler: the predicate at the head of the rest of the handler
deriving DecidableEq, Repr

def updW (ws : List Worker) (i : Nat) (w : Worker) : List Worker := ws.set i w

/-- what the parent does with a received object -/
def receive (s : St) (m : Msg) : St :=
  let s' := match m with
    | .sentinel => { s with nSent := s.nSent + 1 }
    | .item p => { s with got := s.got ++ [p] }
  if s'.nSent = s'.ws.length then { s' with pc := .done } else { s' with pc := .atGet }

def anyRunning (s : St) : Bool := s.ws.any (fun w => w.st == .running)
def allRunning (s : St) : Bool := s.ws.all (fun w => w.st == .running)
def allExitedZero (s : St) : Bool := s.ws.all (fun w => w.st == .exited 0)
/-- `one_failed`: some process has exited with a non-zero status -/
def anyFailed (s : St) : Bool := s.ws.any (fun w => match w.st with | .exited c => c != 0 | .running => false)

/-- one poll, on the workers' states as they are now -/
def evalPred (s : St) : Pred → Bool
  | .failed => anyFailed s
  | .alive => anyRunning s
  | .exited => allExitedZero s
  | .allAlive => allRunning s

/-- the parent arrives at the rest `p` of the handler: act if it is a leaf, else wait to poll -/
def enter (s : St) : Prog → St
  | .leaf .exit1 => { s with pc := .failed }      -- stop_all(processes); sys.exit(1)
  | .leaf .cont => { s with pc := .atGet }        -- continue: back to queue.get
  | .leaf _ => { s with pc := .stuck }            -- exit status 0, break, or falling out of the handler: not part of the protocol
  | .test p y n => { s with pc := .eval (.test p y n) }

/-- one event under handler `h`; an event that is not enabled leaves the state unchanged (stutter) -/
def stepH (h : Prog) (s : St) : Ev → St
  | .wPut i => match s.ws[i]? with
      | some ⟨m :: t, b, .running⟩ => { s with ws := updW s.ws i ⟨t, b ++ [m], .running⟩ }
      | _ => s
  | .wFlush i => match s.ws[i]? with
      | some ⟨t, m :: b, .running⟩ => { s with ws := updW s.ws i ⟨t, b, .running⟩, chan := s.chan ++ [m] }
      | _ => s
  | .wExit i => match s.ws[i]? with
      | some ⟨[], [], .running⟩ => { s with ws := updW s.ws i ⟨[], [], .exited 0⟩ }
      | _ => s
  | .wDie i code => match s.ws[i]? with
      | some ⟨t, b, .running⟩ => if code = 0 then s else { s with ws := updW s.ws i ⟨b ++ t, [], .exited code⟩ }
      | _ => s
  | .pGet => match s.pc, s.chan with
      | .atGet, m :: c => receive { s with chan := c } m
      | _, _ => s
  | .pTimeout => match s.pc, s.chan with
      | .atGet, [] => enter s h                    -- queue.Empty: into the handler
      | _, _ => s
  | .pCheck => match s.pc with
      | .eval (.test p y n) => enter s (if evalPred s p then y else n)
      | _ => s

/-- the protocol of the code that exists -/
def step (s : St) (e : Ev) : St := stepH refHandler s e

def runH (h : Prog) (s : St) (es : List Ev) : St := es.foldl (stepH h) s

def run (s : St) (es : List Ev) : St := es.foldl step s

/-- one group: worker `w` gets the priorities `batches[w]` -/
def init (batches : List (List Nat)) : St :=
  { ws := batches.map (fun ps => ⟨ps.map Msg.item ++ [.sentinel], [], .running⟩),
    chan := [], pc := if batches.isEmpty then .done else .atGet, nSent := 0, got := [] }

def insertNat (x : Nat) : List Nat → List Nat
  | [] => [x]
  | y :: ys => if x ≤ y then x :: y :: ys else y :: insertNat x ys
/-- `PriorityQueue.get()` until empty -/
def sortNat (l : List Nat) : List Nat := l.foldr insertNat []

/-- what the parent writes for the group once the loop is left -/
def output (s : St) : List Nat := sortNat s.got

/-! ## batching (the sequential part of `realign_gaf`) -/

/-- records `0..n-1` cut into batches of `batchSize`, batches grouped `cores` at a time; the last group takes the leftovers -/
def chunks (k : Nat) : Nat → List α → List (List α)
  | 0, _ => []
  | _, [] => []
  | fuel + 1, l => if k = 0 then [l] else l.take k :: chunks k fuel (l.drop k)

def groups (batchSize cores : Nat) (recs : List Nat) : List (List (List Nat)) :=
  chunks cores (recs.length + 1) (chunks batchSize (recs.length + 1) recs)

end Gaftools.Realign
