import Gaftools.Model.Gfa
/-!
# Model of the graph algorithms of `gaftools/gfa.py`

All algorithms only look at the graph through `Node.neighbors()` (sorted neighbour ids of both sides, with multiplicity),
so they are written over an abstract `nb : String → List String` and a node list `V` (dict order); `Graph.nbFun` instantiates them.

Python → Lean
* `GFA.find_component` (stack + per-node `visited` flags)   → `findComp`   (well-founded on (unvisited nodes, |stack|))
* `GFA.all_components` (flags persist between the searches)  → `allComponents`
* `GFA.dfs`                                                  → `dfs` / `dfsLoop`
* `GFA.biccs` (iterative Hopcroft–Tarjan, edge stack, `edge_stack_loc`) → `biccs` (fuelled; `bstep` = one loop iteration)
-/
namespace Gaftools.Algo
open Gaftools.Gfa

abbrev V := String

def Graph.nbFun (g : Graph) : V → List V := fun v => g.neighbors v
def Graph.ids (g : Graph) : List V := g.nodes.map (·.id)

/-- number of nodes of `Vs` not yet in `cc` — the termination measure -/
def unvisited (Vs cc : List V) : Nat := (Vs.filter (fun y => decide (y ∉ cc))).length

theorem unvisited_le (Vs cc : List V) (x : V) : unvisited Vs (x :: cc) ≤ unvisited Vs cc := by
  unfold unvisited
  induction Vs with
  | nil => simp
  | cons v Vs ih =>
    simp only [List.filter_cons]
    by_cases h1 : v ∈ cc
    · have : v ∈ x :: cc := List.mem_cons_of_mem _ h1
      simp [h1, this]; simpa using ih
    · by_cases h2 : v = x
      · subst h2; simp [h1]; have := ih; simp at this; omega
      · have : v ∉ x :: cc := by simp [h1, h2]
        simp [h1, this]; simpa using ih

theorem unvisited_lt (Vs cc : List V) (x : V) (h1 : x ∉ cc) (h2 : x ∈ Vs) :
    unvisited Vs (x :: cc) < unvisited Vs cc := by
  induction Vs with
  | nil => simp at h2
  | cons v Vs ih =>
    have hle := unvisited_le Vs cc x
    unfold unvisited at *
    simp only [List.filter_cons]
    by_cases hv : v = x
    · subst hv; simp [h1]; simp at hle; omega
    · have hxV : x ∈ Vs := by
        rcases List.mem_cons.mp h2 with h | h
        · exact absurd h.symm hv
        · exact h
      have ih' := ih hxV
      by_cases hvc : v ∈ cc
      · have : v ∈ x :: cc := List.mem_cons_of_mem _ hvc
        simp [hvc, this]; simpa using ih'
      · have : v ∉ x :: cc := by simp [hvc, hv]
        simp [hvc, this]; simpa using ih'

/-- the `while len(queue) > 0` loop of `find_component`. `st` = the Python list `queue` with its *end* first (pop() takes
    the end), `cc` = the component set, `vis` = nodes whose `visited` flag is set.
    A popped node outside `Vs` cannot occur in a well-formed graph (no dangling neighbour); the model skips it. -/
def findCompLoop (nb : V → List V) (Vs : List V) : List V → List V → List V → List V × List V
  | [], cc, vis => (cc, vis)
  | x :: st, cc, vis =>
    if h : x ∈ cc ∨ x ∉ Vs then findCompLoop nb Vs st cc vis
    else
      let vis' := if vis.contains x then vis else x :: vis
      -- for n in neighbors: if not visited: queue.append(n)   (the last appended is popped first)
      findCompLoop nb Vs (((nb x).filter (fun n => !vis'.contains n)).reverse ++ st) (x :: cc) vis'
termination_by st cc _ => (unvisited Vs cc, st.length)
decreasing_by
  · exact Prod.Lex.right _ (by simp)
  · apply Prod.Lex.left
    apply unvisited_lt
    · intro hc; exact h (Or.inl hc)
    · exact Decidable.byContradiction (fun hv => h (Or.inr hv))

/-- `find_component(start)` given the flags set so far; returns the component and the new flags -/
def findComp (nb : V → List V) (Vs : List V) (start : V) (vis : List V) : List V × List V :=
  let vis0 := if vis.contains start then vis else start :: vis
  if (nb start).isEmpty then ([start], vis0) else findCompLoop nb Vs [start] [] vis0

/-- `all_components`: nodes in dict order, a search from every node whose flag is still clear -/
def allComponentsGo (nb : V → List V) (Vs : List V) : List V → List V → List (List V) → List (List V)
  | [], _, acc => acc
  | n :: rest, vis, acc =>
    if vis.contains n then allComponentsGo nb Vs rest vis acc
    else
      let (cc, vis') := findComp nb Vs n vis
      allComponentsGo nb Vs rest vis' (acc ++ [cc])

def allComponents (nb : V → List V) (Vs : List V) : List (List V) := allComponentsGo nb Vs Vs [] []

/-- the `while stack:` loop of `dfs`; `out` = `ordered_dfs_out` -/
def dfsLoop (nb : V → List V) (Vs : List V) : List V → List V → List V
  | [], out => out
  | s :: st, out =>
    if h : s ∈ out ∨ s ∉ Vs then dfsLoop nb Vs st out
    else dfsLoop nb Vs ((nb s).reverse ++ st) (s :: out)
termination_by st out => (unvisited Vs out, st.length)
decreasing_by
  · exact Prod.Lex.right _ (by simp)
  · apply Prod.Lex.left
    apply unvisited_lt
    · intro hc; exact h (Or.inl hc)
    · exact Decidable.byContradiction (fun hv => h (Or.inr hv))

/-- `GFA.dfs(start)`: visiting order -/
def dfs (nb : V → List V) (Vs : List V) (start : V) : List V :=
  if !Vs.contains start then []
  else if Vs.length == 1 then Vs
  else if (nb start).isEmpty then [start]
  else (dfsLoop nb Vs [start] []).reverse

/-! ## biconnected components -/

structure Frame where
  parent : V
  child : V
  ptr : Nat
  nbrs : List V
deriving Repr

structure BSt where
  disc : List (V × Nat)
  low : List (V × Nat)
  visited : List V
  estack : List (V × V)            -- bottom first, like the Python list
  loc : List ((V × V) × Nat)       -- later entries shadow earlier ones (dict overwrite)
  stack : List Frame               -- top first
  comps : List (List V)
  aps : List V
  rootChildren : Nat
deriving Repr

def lookup {α β} [BEq α] (k : α) : List (α × β) → Option β
  | [] => none
  | (k', v) :: r => if k == k' then some v else lookup k r

def setKV {α β} (k : α) (v : β) (l : List (α × β)) : List (α × β) := (k, v) :: l

def nodesOf (es : List (V × V)) : List V := (es.flatMap (fun e => [e.1, e.2])).eraseDups

def insertSet (x : V) (l : List V) : List V := if l.contains x then l else x :: l

/-- one iteration of the `while stack:` loop of `biccs` -/
def bstep (nb : V → List V) (s : BSt) : BSt :=
  match s.stack with
  | [] => s
  | f :: rest =>
    if f.ptr < f.nbrs.length then
      let nn := f.nbrs.getD f.ptr ""
      let f' := { f with ptr := f.ptr + 1 }
      let s := { s with stack := f' :: rest }
      if nn == f.parent then s
      else if s.visited.contains nn then
        let dn := (lookup nn s.disc).getD 0
        let dc := (lookup f.child s.disc).getD 0
        if dn ≤ dc then
          let lc := (lookup f.child s.low).getD 0
          { s with estack := s.estack ++ [(f.child, nn)],
                   loc := setKV (f.child, nn) s.estack.length s.loc,
                   low := setKV f.child (min lc dn) s.low }
        else s
      else
        let d := s.disc.length             -- len(discovery): `disc` only ever receives new keys
        { s with low := setKV nn d s.low, disc := setKV nn d s.disc, visited := nn :: s.visited,
                 stack := ⟨f.child, nn, 0, nb nn⟩ :: f' :: rest,
                 estack := s.estack ++ [(f.child, nn)],
                 loc := setKV (f.child, nn) s.estack.length s.loc }
    else
      let s := { s with stack := rest }
      if rest.length > 1 then
        let lc := (lookup f.child s.low).getD 0
        let dp := (lookup f.parent s.disc).getD 0
        let s :=
          if lc ≥ dp then
            let cut := (lookup (f.parent, f.child) s.loc).getD 0
            { s with aps := insertSet f.parent s.aps,
                     comps := s.comps ++ [nodesOf (s.estack.drop cut)],
                     estack := s.estack.take cut }
          else s
        let lp := (lookup f.parent s.low).getD 0
        { s with low := setKV f.parent (min lp lc) s.low }
      else if rest.length == 1 then
        let cut := (lookup (f.parent, f.child) s.loc).getD 0
        { s with rootChildren := s.rootChildren + 1,
                 comps := s.comps ++ [nodesOf (s.estack.drop cut)],
                 estack := s.estack.take cut }
      else s

def bgo (nb : V → List V) : Nat → BSt → BSt
  | 0, s => s
  | n + 1, s => if s.stack.isEmpty then s else bgo nb n (bstep nb s)

/-- `biccs()` of a connected graph, started at `root` (the Python starts at whichever node its set yields first;
    for a connected graph the result does not depend on it — checked, not proved). `fuel` ≥ 2|V| + 4|E| + 2 suffices. -/
def biccsFrom (nb : V → List V) (root : V) (fuel : Nat) : List (List V) × List V :=
  let init : BSt := { disc := [(root, 0)], low := [(root, 0)], visited := [root], estack := [], loc := [],
                      stack := [⟨root, root, 0, nb root⟩], comps := [], aps := [], rootChildren := 0 }
  let s := bgo nb fuel init
  (s.comps, if s.rootChildren > 1 then insertSet root s.aps else s.aps)

def biccFuel (nb : V → List V) (Vs : List V) : Nat := 2 * Vs.length + 4 * ((Vs.map (fun v => (nb v).length)).sum) + 2

end Gaftools.Algo
