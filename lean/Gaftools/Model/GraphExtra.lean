import Gaftools.Model.Gfa
import Gaftools.Model.View
/-!
# Model of the remaining helpers of `gaftools/gfa.py`

The functions `Model/Gfa.lean` and `Model/Algo.lean` leave out, function by function, in the case structure of the Python.
Python sets are duplicate-free lists (as everywhere in the model); whatever the Python takes out of a set has no defined order,
so the correspondence compares such results sorted.  Python exceptions are values of `PyErr` inside `Except`.

Python → Lean
* the object `GFA` (`nodes`, `edge_tags` **and** `contig_to_nodes`)   → `GFA` = `Graph` + `contigToNodes`; `readGFA` = `read_graph`
  (`readGFA_g`: its graph is `Gfa.readGraph`; the contig lists are filled S line by S line, also for a repeated S line)
* `Node.in_direction(other, d)`, `Node.children(d)`                   → `Node.inDirection`, `Node.children` (`d` a Python int: 0 / 1 / else `ValueError`)
* `GFA.remove_lonely_nodes()`                                          → `GFA.removeLonely` (through `Gfa.removeNode`, as the Python; `contig_to_nodes` is NOT updated)
* `GFA.graph_from_comp(component_nodes)`                               → `GFA.graphFromComp` (adjacency sets copied wholesale; unknown id: `AttributeError`)
* `GFA.list_is_path(node_list)`                                        → `listIsPath` (`KeyError`: the *previous* node of a pair is unknown)
* `GFA.get_path(chrom, throw_warning)`                                 → `GFA.getPath` (ids of `contig_to_nodes[chrom]`, stably sorted by `int(SO)`)
* `GFA.get_contig_length(chrom, throw_warning)`                        → `GFA.getContigLength` (`sys.exit(1)` = `PyErr.exit`)
* `GFA.return_gfa_path(list_of_nodes)`                                 → `returnGfaPathO` (oriented list) / `returnGfaPath` (the joined string)
* `Node.is_equal_to`, `GFA.is_equal_to(other, only_topo)`              → `Node.isEqualTo`, `GFA.isEqualTo`

Reused from `Model/View.lean`: `tagVal` (dict lookup of a tag value).  `View.contigNodes` / `View.contigLen` are the same
`get_path(…, False)` / `get_contig_length(…, False)` restricted to graphs whose nodes carry all of SN/SO/LN/SR; the two are proved
to coincide there (`Props/C15Extra.lean`, `getPath_contigNodes`, `contigLength_contigLen`).
-/
namespace Gaftools.GraphExtra
open Gaftools.Gfa Gaftools.View

/-- the Python exceptions the helpers can end in -/
inductive PyErr where
  | valueError
  | indexError
  | keyError
  | attributeError
  | exit            -- `sys.exit(1)`
deriving Repr, DecidableEq, Inhabited

/-! ## `Node.in_direction`, `Node.children` -/

/-- `direction == 0` / `direction == 1` / `else: raise ValueError` -/
def sideOf (d : Int) : Except PyErr Bool :=
  if d = 0 then .ok false else if d = 1 then .ok true else .error .valueError

/-- `self.start` (side `false`) or `self.end` (side `true`) -/
def _root_.Gaftools.Gfa.Node.side (n : Node) (s : Bool) : List Adj := if s then n.endAdj else n.startAdj

/-- `Node.children(direction)`: `[x[0] for x in self.start]` resp. `self.end` (set order: compared sorted) -/
def _root_.Gaftools.Gfa.Node.children (n : Node) (d : Int) : Except PyErr (List String) := do
  let s ← sideOf d
  pure ((n.side s).map (·.1))

/-- `Node.in_direction(other, direction)` -/
def _root_.Gaftools.Gfa.Node.inDirection (n : Node) (other : String) (d : Int) : Except PyErr Bool := do
  let s ← sideOf d
  pure (((n.side s).map (·.1)).contains other)

/-! ## the `GFA` object with its contig table -/

/-- `GFA.nodes`/`GFA.edge_tags` (= `Graph`) and `GFA.contig_to_nodes` (a `defaultdict(list)`, in insertion order;
    the entry a *read* of a missing key creates is not modelled — nothing the helpers return depends on it) -/
structure GFA where
  g : Graph
  contigToNodes : List (String × List String)
deriving Repr, DecidableEq, Inhabited

/-- `self.contig_to_nodes[c].append(id)` -/
def ctnAppend (d : List (String × List String)) (c id : String) : List (String × List String) :=
  if d.any (·.1 == c) then d.map (fun e => if e.1 == c then (e.1, e.2 ++ [id]) else e) else d ++ [(c, [id])]

/-- one S line of `read_graph`: `add_node` (ignored if the id exists), then
    `if "SN" in self[id].tags: self.contig_to_nodes[self[id].tags["SN"][1]].append(id)` — the tags looked at are those of the
    node *in the graph*, i.e. of the first S line with that id, and the append happens for every S line -/
def segStep (lowMemory : Bool) (x : GFA) (s : SegLine) : GFA :=
  let g' := addNode x.g s lowMemory
  match (g'.find s.id).bind (fun n => tagVal n.tags "SN") with
  | some c => ⟨g', ctnAppend x.contigToNodes c s.id⟩
  | none => ⟨g', x.contigToNodes⟩

/-- `GFA(graph_file, low_memory)` = `read_graph`: S lines in file order, then the L lines -/
def readGFA (t : GfaFile) (lowMemory : Bool := false) : GFA :=
  let x := t.segs.foldl (segStep lowMemory) ⟨Graph.empty, []⟩
  { x with g := t.links.foldl (fun g l => if g.has l.a && g.has l.b then addEdge g l else g) x.g }

/-- `self.contig_to_nodes[c]` -/
def GFA.contigIds (x : GFA) (c : String) : List String :=
  match x.contigToNodes.find? (·.1 == c) with
  | some e => e.2
  | none => []

/-! ## `remove_lonely_nodes` -/

/-- `[n.id for n in self.nodes.values() if len(n.neighbors()) == 0]` -/
def lonelyIds (g : Graph) : List String := (g.nodes.filter (fun n => n.neighbors.length == 0)).map (·.id)

/-- `for i in nodes_to_remove: self.remove_node(i)` — `contig_to_nodes` and `contigs` keep the removed ids -/
def GFA.removeLonely (x : GFA) : GFA := { x with g := (lonelyIds x.g).foldl removeNode x.g }

/-! ## `graph_from_comp` -/

/-- `new_graph.nodes[n] = new_node`: a key already present keeps its position -/
def nodeSet (ns : List Node) (n : Node) : List Node :=
  if ns.any (·.id == n.id) then ns.map (fun m => if m.id == n.id then n else m) else ns ++ [n]

/-- the body of the loop of `graph_from_comp`: `self[n]` is `None` for an unknown id and `None.seq` raises `AttributeError` -/
def copyNode (g : Graph) (id : String) : Except PyErr Node :=
  match g.find id with
  | none => .error .attributeError
  | some n => .ok ⟨id, n.seq, n.startAdj, n.endAdj, n.tags⟩

/-- `graph_from_comp(component_nodes)`: a fresh `GFA()` (no edge tags, no contig table) whose nodes carry the *whole* adjacency
    sets of the originals — entries towards nodes outside `comp` included -/
def GFA.graphFromComp (x : GFA) (comp : List String) : Except PyErr GFA := do
  let ns ← comp.foldlM (fun acc id => do let n ← copyNode x.g id; pure (nodeSet acc n)) []
  pure ⟨⟨ns, []⟩, []⟩

/-! ## `list_is_path` -/

/-- `for i in range(1, len(node_list))`: `current in self.nodes[previous].neighbors()`; `self.nodes[previous]` raises `KeyError` -/
def listIsPath (g : Graph) : List String → Except PyErr Bool
  | [] => .ok true
  | [_] => .ok true
  | p :: c :: rest =>
    match g.find p with
    | none => .error .keyError
    | some n => if n.neighbors.contains c then listIsPath g (c :: rest) else .ok false

/-! ## `get_path`, `get_contig_length` -/

/-- value of an ASCII decimal digit -/
def digitVal (c : Char) : Option Nat := if '0' ≤ c ∧ c ≤ '9' then some (c.toNat - '0'.toNat) else none

/-- a non-empty run of ASCII decimal digits -/
def decNat : List Char → Option Nat
  | [] => none
  | cs => cs.foldlM (fun acc c => (digitVal c).map (fun d => 10 * acc + d)) 0

/-- Python `int(str)` on the values a tag of type `i` can have (`[-+]?[0-9]+`, the grammar `is_correct_tag` enforces):
    an optional sign and decimal digits, leading zeros allowed.  Everything else is `ValueError` here; Python's `int` would also
    accept blanks around the number, single `_` between digits and non-ASCII digits, none of which an `i` tag can contain
    (they can only be met in a mistyped `SO:Z:…` / `LN:Z:…` tag).  Written on characters so that the kernel can evaluate it
    (`String.toInt?`, which `View.tagInt` uses, reads `-` but not `+`). -/
def pyInt (v : String) : Option Int :=
  match v.toList with
  | '+' :: r => (decNat r).map Int.ofNat
  | '-' :: r => (decNat r).map (fun n => - Int.ofNat n)
  | r => (decNat r).map Int.ofNat

/-- `int(self.nodes[id].tags[name][1])`: unknown node / missing tag: `KeyError`; not a number: `ValueError` -/
def tagIntOf (g : Graph) (name : String) (id : String) : Except PyErr Int :=
  match g.find id with
  | none => .error .keyError
  | some n =>
    match tagVal n.tags name with
    | none => .error .keyError
    | some v =>
      match pyInt v with
      | none => .error .valueError
      | some k => .ok k

/-- insertion after every element with a key ≤ the new one (the step of a stable sort); cf. `View.insertBySo` -/
def insertByKey (x : String × Int) : List (String × Int) → List (String × Int)
  | [] => [x]
  | y :: ys => if x.2 < y.2 then x :: y :: ys else y :: insertByKey x ys

/-- `sorted(l, key=…)` (stable) on the list of `(id, key)` -/
def sortByKey (l : List (String × Int)) : List (String × Int) := l.foldl (fun acc x => insertByKey x acc) []

/-- the keys of `sorted(nodes_of_chrom, key=lambda x: int(self.nodes[x].tags["SO"][1]))`, computed left to right -/
def keyed (g : Graph) (ids : List String) : Except PyErr (List (String × Int)) :=
  ids.mapM (fun id => do let k ← tagIntOf g "SO" id; pure (id, k))

/-- `get_path(chrom, throw_warning)` -/
def GFA.getPath (x : GFA) (c : String) (throwWarning : Bool := true) : Except PyErr (List String) :=
  let ids := x.contigIds c
  if ids.isEmpty then .ok []
  else do
    let ks ← keyed x.g ids
    let sorted := (sortByKey ks).map (·.1)
    if (← listIsPath x.g sorted) then pure sorted
    else if throwWarning then pure []
    else pure sorted

/-- `get_contig_length(chrom, throw_warning)`: `sys.exit(1)` when `get_path` returns the empty list -/
def GFA.getContigLength (x : GFA) (c : String) (throwWarning : Bool := true) : Except PyErr Int := do
  let p ← x.getPath c throwWarning
  if p.isEmpty then .error .exit
  else do
    let ls ← p.mapM (tagIntOf x.g "LN")
    pure ls.sum

/-! ## `return_gfa_path` -/

/-- one `if … in_direction(other, dPlus): "+" elif … in_direction(other, dMinus): "-" else: raise ValueError` block;
    `self.nodes[cur]` raises `KeyError`.  Result: `(cur, true)` = `cur+`. -/
def orient (g : Graph) (cur other : String) (dPlus dMinus : Int) : Except PyErr (String × Bool) :=
  match g.find cur with
  | none => .error .keyError
  | some n => do
    if (← n.inDirection other dPlus) then pure (cur, true)
    else if (← n.inDirection other dMinus) then pure (cur, false)
    else .error .valueError

/-- the `for i in range(len(list_of_nodes) - 1)` loop: every node but the last, judged by its *next* node, end side = `+` -/
def gfaPathBody (g : Graph) : List String → Except PyErr (List (String × Bool))
  | [] => .ok []
  | [_] => .ok []
  | a :: b :: rest => do
    let e ← orient g a b 1 0
    let r ← gfaPathBody g (b :: rest)
    pure (e :: r)

/-- the block after the loop: the last node judged by its *previous* node, start side = `+`.
    `list_of_nodes[-1]` on an empty list: `IndexError`; on a one-element list `self.nodes[list_of_nodes[-1]]` is evaluated
    first (`KeyError` if unknown), then `list_of_nodes[-2]` raises `IndexError`. -/
def gfaPathLast (g : Graph) (l : List String) : Except PyErr (String × Bool) :=
  match l.reverse with
  | [] => .error .indexError
  | [last] => match g.find last with
    | none => .error .keyError
    | some _ => .error .indexError
  | last :: prev :: _ => orient g last prev 0 1

/-- `return_gfa_path` before the final `",".join` -/
def returnGfaPathO (g : Graph) (l : List String) : Except PyErr (List (String × Bool)) := do
  let body ← gfaPathBody g l
  let e ← gfaPathLast g l
  pure (body ++ [e])

def renderEntry (e : String × Bool) : String := e.1 ++ (if e.2 then "+" else "-")

/-- `return_gfa_path(list_of_nodes)` -/
def returnGfaPath (g : Graph) (l : List String) : Except PyErr String := do
  let p ← returnGfaPathO g l
  pure (",".intercalate (p.map renderEntry))

/-! ## `is_equal_to` -/

/-- `==` of two Python sets / of the item sets of two dicts, on their duplicate-free list representations -/
def setEq {α} [BEq α] (a b : List α) : Bool := a.all (fun x => b.contains x) && b.all (fun x => a.contains x)

/-- `Node.is_equal_to(other, only_topo)`: attributes compared in the order of the Python lists
    (`seq_len` is `len(seq)` for every node the library makes) -/
def _root_.Gaftools.Gfa.Node.isEqualTo (a b : Node) (onlyTopo : Bool := false) : Bool :=
  if onlyTopo then
    a.id == b.id && setEq a.startAdj b.startAdj && setEq a.endAdj b.endAdj
  else
    a.id == b.id && a.seq == b.seq && a.seq.length == b.seq.length &&
      setEq a.startAdj b.startAdj && setEq a.endAdj b.endAdj && setEq a.tags b.tags

/-- `GFA.is_equal_to(other, only_topo)`: the length test, then only `self`'s nodes are walked -/
def GFA.isEqualTo (x y : GFA) (onlyTopo : Bool := false) : Bool :=
  if x.g.nodes.length != y.g.nodes.length then false
  else x.g.nodes.all (fun n1 =>
    match y.g.find n1.id with
    | none => false
    | some n2 => n1.isEqualTo n2 onlyTopo)

end Gaftools.GraphExtra
