import Gaftools.Model.TextLayer
/-!
# The command-line layer of gaftools

`gaftools/__main__.py main(argv)`: an `argparse` parser with `--version`, `--debug` and one sub-parser per module of
`gaftools/cli` (built by that module's `add_arguments`), then `module.validate(args, subparser)` when the module has one, then
`module.main(args)` = `run*(**vars(args))`.  `parser.error` ends the process with status 2 (usage text on the standard error
stream), a `CommandLineError` raised by the entry point with status 1, `--help` / `--version` with status 0.

Python → Lean
* the option tables of `__main__.main` and of the eight `add_arguments`        → `topTable`, `table`, `positionals`
* `ArgumentParser._parse_optional` + `_get_option_tuples` (Python 3.12)        → `classify` (`Cls`: 'A', 'O' known / unknown, ambiguous)
* `_negative_number_matcher` (`^-\d+$|^-\d*\.\d+$`)                            → `negNumLike`
* `consume_optional` (explicit arguments, clusters of short flags)             → `withExplicit`, `noExplicit`, `takeAll`
* the alternation `consume_positionals` / `consume_optional` of
  `_parse_known_args`, the required-arguments test, `extras`                   → `scan` (sub-parser), `scanTop` (top-level parser)
* `type=int`                                                                   → `TextLayer.pyInt`
* `Namespace` of a sub-command (`vars(args)` after the three `del`)            → `ViewOpts` … `OrderOpts` (defaults = the `default=` of `add_arguments`), `Opts`
* `parser.parse_args(argv)`                                                    → `parseArgs`
* `validate(args, parser)` of each module                                      → `validate`
* `module.main(args)`                                                          → `callOf` (entry point + keyword arguments), `dispatch`
* the head of `view.run` up to the first record (the `CommandLineError`s)      → `viewHead`, `runView`
* `harness/core.py _argv` (the documented command line of a call)              → `render`

## What is covered, what is not

Covered: every argument vector in which **no argument is the string `--`** and in which no argument that starts with `-`
holds a decimal digit outside ASCII.  Inside that fragment the model follows argparse of Python 3.12 for these nine parsers:
sub-command name first (after top-level options); positionals in order, freely mixed with options; `-x VALUE`, `--long VALUE`,
`--long=VALUE`, `-xVALUE`, also `-x=VALUE`; `store_true` flags; `action="append"`; `type=int`; abbreviated long options
(`--out` → ambiguous for `sort`, `--outg` → `--outgaf`); clusters of short flags (`-fh`, `-fo FILE`); a value that starts with
`-` is refused unless it looks like a negative number or holds a blank; `-h` / `--help` / `--version` end the parse with status 0
at the moment they are reached (an error found earlier, from left to right, wins; unknown options and surplus positionals are
reported only at the end); top-level options after the sub-command name belong to the sub-parser (so `view x --debug` is refused).

Not covered (the generator of `harness/p_cli.py` stays outside): the argument `--` (argparse's "everything after is positional"
marker, with its version-dependent removal rules); non-ASCII decimal digits (`\d` of `re` and `int()` accept every character of
category Nd) in arguments that start with `-` or in the value of `-c`; `prefix_chars` / `fromfile_prefix_chars` (not used by
gaftools); the *text* of help, usage and error messages (only the kind of the error is modelled); `ensure_version()`.

Strings are inspected as `List Char` (code points, as Python's `str`).
-/
namespace Gaftools.Cli
open Gaftools.TextLayer (pyInt)

/-! ## sub-commands and option tables -/

inductive Sub where
  | view | index | sort | stat | phase | realign | find_path | order_gfa
  deriving DecidableEq, Repr, Inhabited

/-- the modules of `gaftools/cli` in the order of `pkgutil.iter_modules` -/
def Sub.all : List Sub := [.find_path, .index, .order_gfa, .phase, .realign, .sort, .stat, .view]

def Sub.name : Sub → String
  | .view => "view" | .index => "index" | .sort => "sort" | .stat => "stat" | .phase => "phase"
  | .realign => "realign" | .find_path => "find_path" | .order_gfa => "order_gfa"

def Sub.ofName? (s : String) : Option Sub := Sub.all.find? (fun x => x.name == s)

/-- the action of an option (`dest` as argparse derives or is given it) -/
inductive Act where
  | store (dest : String)        -- action="store", nargs=None, type=str
  | storeInt (dest : String)     -- … type=int
  | append (dest : String)       -- action="append"
  | storeTrue (dest : String)    -- action="store_true"
  | help                         -- the `-h`, `--help` every parser has
  | version                      -- action="version"
  deriving DecidableEq, Repr

def Act.arity : Act → Nat
  | .store _ | .storeInt _ | .append _ => 1
  | .storeTrue _ | .help | .version => 0

structure OptDecl where
  names : List String
  act : Act
  deriving DecidableEq, Repr

abbrev Table := List OptDecl

def helpOpt : OptDecl := ⟨["-h", "--help"], .help⟩

/-- `__main__.main`: `--version`, `--debug` (and the implicit `-h`, `--help`) -/
def topTable : Table := [helpOpt, ⟨["--version"], .version⟩, ⟨["--debug"], .storeTrue "debug"⟩]

/-- the optional arguments of each `add_arguments`, in the order of the source -/
def table : Sub → Table
  | .view => [helpOpt, ⟨["-g", "--gfa"], .store "gfa"⟩, ⟨["-o", "--output"], .store "output"⟩, ⟨["-i", "--index"], .store "index"⟩,
              ⟨["-n", "--node"], .append "nodes"⟩, ⟨["-r", "--region"], .append "regions"⟩, ⟨["-f", "--format"], .store "format"⟩]
  | .index => [helpOpt, ⟨["-o", "--output"], .store "output"⟩]
  | .sort => [helpOpt, ⟨["--outgaf"], .store "outgaf"⟩, ⟨["--outind"], .store "outind"⟩, ⟨["--bgzip"], .storeTrue "bgzip"⟩]
  | .stat => [helpOpt, ⟨["-o", "--output"], .store "output"⟩, ⟨["--cigar"], .storeTrue "cigar_stat"⟩]
  | .phase => [helpOpt, ⟨["-o", "--output"], .store "output"⟩]
  | .realign => [helpOpt, ⟨["-o", "--output"], .store "output"⟩, ⟨["-c", "--cores"], .storeInt "cores"⟩]
  | .find_path => [helpOpt, ⟨["-o", "--output"], .store "output"⟩, ⟨["-f", "--fasta"], .storeTrue "fasta"⟩]
  | .order_gfa => [helpOpt, ⟨["--chromosome_order"], .store "chromosome_order"⟩, ⟨["--with-sequence"], .storeTrue "with_sequence"⟩,
                   ⟨["--outdir"], .store "outdir"⟩, ⟨["--by-chrom"], .storeTrue "by_chrom"⟩]

/-- the positional arguments (all `nargs=None`, hence required), in order -/
def positionals : Sub → List String
  | .view => ["gaf_path"]
  | .index => ["gaf_path", "gfa_path"]
  | .sort => ["gaf", "gfa"]
  | .stat => ["gaf_path"]
  | .phase => ["gaf_file", "tsv_file"]
  | .realign => ["gaf", "graph", "fasta"]
  | .find_path => ["gfa_path", "input_path"]
  | .order_gfa => ["gfa_filename"]

/-! ## how argparse reads one argument string -/

def findOpt (tbl : Table) (name : String) : Option OptDecl := tbl.find? (fun d => d.names.contains name)

/-- all `(declaration, option string)` pairs of a parser (`_option_string_actions`) -/
def optNames (tbl : Table) : List (OptDecl × String) := tbl.flatMap (fun d => d.names.map (fun n => (d, n)))

/-- `s.split('=', 1)`: the part before the first '=', and the part after it when there is one -/
def splitEq : List Char → List Char × Option (List Char)
  | [] => ([], none)
  | c :: cs => if c == '=' then ([], some cs) else ((splitEq cs).1.cons c, (splitEq cs).2)

def isDigits1 (cs : List Char) : Bool := !cs.isEmpty && cs.all Char.isDigit

/-- `\d+` or `\d*\.\d+` (whole string) -/
def negBody (cs : List Char) : Bool :=
  isDigits1 cs || (match cs.dropWhile Char.isDigit with
    | '.' :: frac => isDigits1 frac
    | _ => false)

/-- `re.match('^-\d+$|^-\d*\.\d+$', s)`: `$` also matches before one final newline.  ASCII digits only (see the header). -/
def negNumLike (cs : List Char) : Bool :=
  match cs with
  | '-' :: b => negBody b || (b.getLast? == some '\n' && negBody b.dropLast)
  | _ => false

/-- the verdict of `_parse_optional` on one argument -/
inductive Cls where
  | arg                                                           -- 'A': a positional or the value of an option
  | opt (d : OptDecl) (name : String) (explicit : Option String)  -- 'O': an option of this parser
  | unknown                                                       -- 'O': no such option here (goes to the extras)
  | ambiguous                                                     -- `parser.error("ambiguous option …")`
  deriving DecidableEq, Repr

/-- `--pre[=v]`, not an option string itself: every long option that starts with `pre` (allow_abbrev) -/
def abbrevs (tbl : Table) (pre : List Char) (post : Option (List Char)) : List (OptDecl × String × Option String) :=
  (optNames tbl).filterMap (fun (d, n) => if pre.isPrefixOf n.toList then some (d, n, post.map String.ofList) else none)

/-- `-xREST`: the short option `-x` with the explicit argument `REST` (or an option string that starts with the whole argument) -/
def shorts (tbl : Table) (cs : List Char) : List (OptDecl × String × Option String) :=
  (optNames tbl).filterMap (fun (d, n) =>
    if n.toList == cs.take 2 then some (d, n, some (String.ofList (cs.drop 2)))
    else if cs.isPrefixOf n.toList then some (d, n, none) else none)

def classify (tbl : Table) (s : String) : Cls :=
  match s.toList with
  | [] => .arg                                             -- "if not arg_string"
  | c0 :: tl =>
    if c0 != '-' then .arg else                            -- no prefix character
    match findOpt tbl s with
    | some d => .opt d s none                              -- the option string itself
    | none =>
      match tl with
      | [] => .arg                                         -- "-"
      | c1 :: _ =>
        let cs := c0 :: tl
        let (pre, post) := splitEq cs
        match (if post.isSome then findOpt tbl (String.ofList pre) else none) with
        | some d => .opt d (String.ofList pre) (post.map String.ofList)          -- "--long=v", "-x=v"
        | none =>
          match (if c1 == '-' then abbrevs tbl pre post else shorts tbl cs) with
          | [(d, n, e)] => .opt d n e
          | _ :: _ :: _ => .ambiguous
          | [] => if negNumLike cs then .arg else if cs.contains ' ' then .arg else .unknown

/-! ## outcomes -/

/-- why `parser.error` was called (the kind; the text is not modelled) -/
inductive Why where
  | ambiguous              -- "ambiguous option: …"
  | expectedOneArgument    -- "argument -o, --output: expected one argument"
  | ignoredExplicit        -- "argument --bgzip: ignored explicit argument 'x'"
  | invalidInt             -- "argument -c, --cores: invalid int value: 'x'"
  | required               -- "the following arguments are required: …"
  | unrecognized           -- "unrecognized arguments: …"
  | invalidChoice          -- the first positional is no sub-command
  | noSubcommand           -- "Please provide the name of a subcommand to run"
  | refused (msg : String) -- `validate` of the sub-command
  deriving DecidableEq, Repr

/-- how a parse ends when it does not produce a namespace -/
inductive CliErr where
  | usage (w : Why)   -- exit status 2
  | help              -- `-h` / `--help`: help text on the standard output, exit status 0
  | version           -- `--version`: exit status 0
  deriving DecidableEq, Repr

/-- a value stored in the namespace by an option -/
inductive Val where
  | flag
  | str (s : String)
  | int (i : Int)
  deriving DecidableEq, Repr

abbrev Event := String × Val

/-- one `take_action` of an optional -/
def take (d : OptDecl) (v : Option String) : Except CliErr Event :=
  match d.act, v with
  | .help, _ => .error .help
  | .version, _ => .error .version
  | .storeTrue dest, _ => .ok (dest, .flag)
  | .store dest, some s => .ok (dest, .str s)
  | .append dest, some s => .ok (dest, .str s)
  | .storeInt dest, some s => match pyInt s.toList with
      | some i => .ok (dest, .int i)
      | none => .error (.usage .invalidInt)
  | _, none => .error (.usage .expectedOneArgument)

/-- the `action_tuples` of one `consume_optional`, taken in order after the whole argument string has been analysed -/
def takeAll : List (OptDecl × Option String) → List Event → Except CliErr (List Event)
  | [], evs => .ok evs
  | (d, v) :: rest, evs => match take d v with
      | .ok e => takeAll rest (evs ++ [e])
      | .error e => .error e

abbrev Pending := List (OptDecl × Option String)

/-- the option has no explicit argument: a flag is complete; an option with a value waits for the next argument string -/
def noExplicit (d : OptDecl) (pend : Pending) : Pending × Option OptDecl :=
  if d.act.arity = 0 then (pend ++ [(d, none)], none) else (pend, some d)

/-- the option `name` came with the explicit argument `e` (`--long=e`, `-xe`, `-x=e`).  An option with a value takes it.  A
    single-dash flag with a non-empty `e` starts a cluster: `-` + the first character of `e` must be an option, which gets the
    rest of `e` as its explicit argument (or none when nothing is left). -/
def withExplicit (tbl : Table) (d : OptDecl) (name : List Char) (e : List Char) (pend : Pending) :
    Except CliErr (Pending × Option OptDecl) :=
  if d.act.arity = 1 then .ok (pend ++ [(d, some (String.ofList e))], none)
  else match e with
    | [] => .error (.usage .ignoredExplicit)
    | c :: cs =>
      if ((name.drop 1).head?).any (fun c1 => c1 != '-') then
        match findOpt tbl (String.ofList ['-', c]) with
        | none => .error (.usage .ignoredExplicit)
        | some d' =>
          if cs.isEmpty then .ok (noExplicit d' (pend ++ [(d, none)]))
          else withExplicit tbl d' ['-', c] cs (pend ++ [(d, none)])
      else .error (.usage .ignoredExplicit)

/-- `consume_optional` up to its `take_action`s: the actions of this argument string, and the option that still waits for a value -/
def analyse (tbl : Table) (d : OptDecl) (name : String) (explicit : Option String) : Except CliErr (Pending × Option OptDecl) :=
  match explicit with
  | none => .ok (noExplicit d [])
  | some e => withExplicit tbl d name.toList e.toList []

/-- state of the scan of a sub-parser -/
structure St where
  posLeft : List String    -- positional destinations not yet filled
  pos : List String        -- the positional values, in order
  evs : List Event         -- what the options stored, in command-line order
  extras : Bool            -- unknown options or surplus positionals were seen (reported at the very end)
  deriving DecidableEq, Repr

inductive Mode where
  | normal
  | await (pend : Pending) (d : OptDecl)      -- the option `d` takes the next argument string as its value

/-- the loop of `_parse_known_args` for a parser whose positionals all have `nargs=None`, argument by argument -/
def scan (tbl : Table) : List String → Mode → St → Except CliErr St
  | [], .normal, st => .ok st
  | [], .await _ _, _ => .error (.usage .expectedOneArgument)
  | s :: rest, .await pend d, st =>
    match classify tbl s with
    | .arg => match takeAll (pend ++ [(d, some s)]) st.evs with
        | .ok evs => scan tbl rest .normal { st with evs := evs }
        | .error e => .error e
    | _ => .error (.usage .expectedOneArgument)
  | s :: rest, .normal, st =>
    match classify tbl s with
    | .arg => match st.posLeft with
        | _ :: ds => scan tbl rest .normal { st with posLeft := ds, pos := st.pos ++ [s] }
        | [] => scan tbl rest .normal { st with extras := true }
    | .unknown => scan tbl rest .normal { st with extras := true }
    | .ambiguous => .error (.usage .ambiguous)
    | .opt d name explicit =>
      match analyse tbl d name explicit with
      | .error e => .error e
      | .ok (pend, some d') => scan tbl rest (.await pend d') st
      | .ok (pend, none) => match takeAll pend st.evs with
          | .ok evs => scan tbl rest .normal { st with evs := evs }
          | .error e => .error e

def isAmbiguous (tbl : Table) (s : String) : Bool := classify tbl s == .ambiguous

/-- `subparser.parse_known_args(args)`: the classification pass (where an ambiguous abbreviation is an error before anything
    else happens), the scan, the required-arguments test; the extras are handed back to the top-level parser -/
def scanSub (sub : Sub) (args : List String) : Except CliErr St :=
  if args.any (isAmbiguous (table sub)) then .error (.usage .ambiguous) else
  match scan (table sub) args .normal ⟨positionals sub, [], [], false⟩ with
  | .error e => .error e
  | .ok st => if st.posLeft.isEmpty then .ok st else .error (.usage .required)

/-! ## the namespaces of the sub-commands -/

structure ViewOpts where
  gaf_path : String
  gfa : Option String := none
  output : Option String := none
  index : Option String := none
  nodes : List String := []
  regions : List String := []
  format : Option String := none
  deriving DecidableEq, Repr

structure IndexOpts where
  gaf_path : String
  gfa_path : String
  output : Option String := none
  deriving DecidableEq, Repr

structure SortOpts where
  gaf : String
  gfa : String
  outgaf : Option String := none
  outind : Option String := none
  bgzip : Bool := false
  deriving DecidableEq, Repr

structure StatOpts where
  gaf_path : String
  output : Option String := none
  cigar_stat : Bool := false
  deriving DecidableEq, Repr

/-- where `phase` writes: the default of `-o` is the object `sys.stdout`, not `None` -/
inductive Sink where
  | stdoutObject
  | path (p : String)
  deriving DecidableEq, Repr

structure PhaseOpts where
  gaf_file : String
  tsv_file : String
  output : Sink := .stdoutObject
  deriving DecidableEq, Repr

structure RealignOpts where
  gaf : String
  graph : String
  fasta : String
  output : Option String := none
  cores : Int := 1
  deriving DecidableEq, Repr

structure FindPathOpts where
  gfa_path : String
  input_path : String
  output : Option String := none
  fasta : Bool := false
  deriving DecidableEq, Repr

structure OrderOpts where
  gfa_filename : String
  chromosome_order : String := ""
  with_sequence : Bool := false
  outdir : String := "./out"
  by_chrom : Bool := false
  deriving DecidableEq, Repr

inductive Opts where
  | view (o : ViewOpts) | index (o : IndexOpts) | sort (o : SortOpts) | stat (o : StatOpts) | phase (o : PhaseOpts)
  | realign (o : RealignOpts) | find_path (o : FindPathOpts) | order_gfa (o : OrderOpts)
  deriving DecidableEq, Repr

def Opts.sub : Opts → Sub
  | .view _ => .view | .index _ => .index | .sort _ => .sort | .stat _ => .stat | .phase _ => .phase
  | .realign _ => .realign | .find_path _ => .find_path | .order_gfa _ => .order_gfa

/-! what one stored value does to the namespace (`setattr`; `append` for `nodes` / `regions`) -/

def ViewOpts.apply (o : ViewOpts) (e : Event) : ViewOpts :=
  match e with
  | (d, .str s) =>
    if d = "gfa" then { o with gfa := some s } else if d = "output" then { o with output := some s }
    else if d = "index" then { o with index := some s } else if d = "nodes" then { o with nodes := o.nodes ++ [s] }
    else if d = "regions" then { o with regions := o.regions ++ [s] } else if d = "format" then { o with format := some s }
    else o
  | _ => o

def IndexOpts.apply (o : IndexOpts) (e : Event) : IndexOpts :=
  match e with
  | (d, .str s) => if d = "output" then { o with output := some s } else o
  | _ => o

def SortOpts.apply (o : SortOpts) (e : Event) : SortOpts :=
  match e with
  | (d, .str s) => if d = "outgaf" then { o with outgaf := some s } else if d = "outind" then { o with outind := some s } else o
  | (d, .flag) => if d = "bgzip" then { o with bgzip := true } else o
  | _ => o

def StatOpts.apply (o : StatOpts) (e : Event) : StatOpts :=
  match e with
  | (d, .str s) => if d = "output" then { o with output := some s } else o
  | (d, .flag) => if d = "cigar_stat" then { o with cigar_stat := true } else o
  | _ => o

def PhaseOpts.apply (o : PhaseOpts) (e : Event) : PhaseOpts :=
  match e with
  | (d, .str s) => if d = "output" then { o with output := .path s } else o
  | _ => o

def RealignOpts.apply (o : RealignOpts) (e : Event) : RealignOpts :=
  match e with
  | (d, .str s) => if d = "output" then { o with output := some s } else o
  | (d, .int i) => if d = "cores" then { o with cores := i } else o
  | _ => o

def FindPathOpts.apply (o : FindPathOpts) (e : Event) : FindPathOpts :=
  match e with
  | (d, .str s) => if d = "output" then { o with output := some s } else o
  | (d, .flag) => if d = "fasta" then { o with fasta := true } else o
  | _ => o

def OrderOpts.apply (o : OrderOpts) (e : Event) : OrderOpts :=
  match e with
  | (d, .str s) => if d = "chromosome_order" then { o with chromosome_order := s } else if d = "outdir" then { o with outdir := s } else o
  | (d, .flag) => if d = "with_sequence" then { o with with_sequence := true } else if d = "by_chrom" then { o with by_chrom := true } else o
  | _ => o

/-- the namespace of the sub-command: the positionals, the defaults, then every stored value in command-line order -/
def build (sub : Sub) (pos : List String) (evs : List Event) : Option Opts :=
  match sub, pos with
  | .view, [a] => some (.view (evs.foldl ViewOpts.apply { gaf_path := a }))
  | .index, [a, b] => some (.index (evs.foldl IndexOpts.apply { gaf_path := a, gfa_path := b }))
  | .sort, [a, b] => some (.sort (evs.foldl SortOpts.apply { gaf := a, gfa := b }))
  | .stat, [a] => some (.stat (evs.foldl StatOpts.apply { gaf_path := a }))
  | .phase, [a, b] => some (.phase (evs.foldl PhaseOpts.apply { gaf_file := a, tsv_file := b }))
  | .realign, [a, b, c] => some (.realign (evs.foldl RealignOpts.apply { gaf := a, graph := b, fasta := c }))
  | .find_path, [a, b] => some (.find_path (evs.foldl FindPathOpts.apply { gfa_path := a, input_path := b }))
  | .order_gfa, [a] => some (.order_gfa (evs.foldl OrderOpts.apply { gfa_filename := a }))
  | _, _ => none

/-! ## the top-level parser -/

/-- what `parse_args` returns for a sub-command: `args.debug` (deleted before the call) and the namespace -/
structure Parsed where
  debug : Bool
  opts : Opts
  deriving DecidableEq, Repr

/-- what the parsers have established when `parse_args` returns: `--debug`, the sub-command, the state of its scan -/
structure Trace where
  debug : Bool
  sub : Sub
  st : St
  deriving DecidableEq, Repr

/-- the sub-command name has been reached: `_SubParsersAction.__call__` on the rest of the command line; afterwards the
    top-level `parse_args` refuses a command line with extras -/
def parseSub (name : String) (rest : List String) (debug extras : Bool) : Except CliErr Trace :=
  match Sub.ofName? name with
  | none => .error (.usage .invalidChoice)
  | some sub =>
    match scanSub sub rest with
    | .error e => .error e
    | .ok st => if extras || st.extras then .error (.usage .unrecognized) else .ok ⟨debug, sub, st⟩

/-- the top-level loop: options of `topTable` until the first 'A', which is the sub-command name and takes everything after it
    (`nargs=PARSER`) -/
def scanTop : List String → (debug extras : Bool) → Except CliErr Trace
  | [], _, extras => .error (.usage (if extras then .unrecognized else .noSubcommand))
  | s :: rest, debug, extras =>
    match classify topTable s with
    | .arg => parseSub s rest debug extras
    | .unknown => scanTop rest debug true
    | .ambiguous => .error (.usage .ambiguous)
    | .opt d name explicit =>
      match analyse topTable d name explicit with
      | .error e => .error e
      | .ok (pend, _) =>                          -- no top-level option takes a value
        match takeAll pend [] with
        | .error e => .error e
        | .ok evs => scanTop rest (debug || evs.any (fun e => e.1 == "debug")) extras

/-- the classification pass of the top-level parser over the whole command line, then its loop -/
def parseTrace (argv : List String) : Except CliErr Trace :=
  if argv.any (isAmbiguous topTable) then .error (.usage .ambiguous) else scanTop argv false false

/-- `parser.parse_args(argv)` of `__main__.main` (plus the "no sub-command" test that follows it): the namespace -/
def parseArgs (argv : List String) : Except CliErr Parsed :=
  match parseTrace argv with
  | .error e => .error e
  | .ok t => match build t.sub t.st.pos t.st.evs with
    | some o => .ok ⟨t.debug, o⟩
    | none => .error (.usage .required)         -- not reached: `scanSub` has filled every positional

/-- the fragment the model covers (conservative): no argument is `--`; an argument that starts with `-`, and every argument of a
    `realign` command line (the value of `-c` goes through `int()`), has no character from U+0660 on (the first decimal digit
    outside ASCII) -/
def covered (argv : List String) : Bool :=
  argv.all (fun s => s != "--" &&
    (!(s.toList.head? == some '-' || argv.contains "realign") || s.toList.all (fun c => c.toNat < 0x660)))

/-! ## `validate` -/

def truthy : Option String → Bool
  | none => false
  | some s => s != ""

def validate : Opts → Option String
  | .view o =>
    if truthy o.format && !(o.format == some "unstable" || o.format == some "stable") then
      some "--format only accepts unstable or stable as input."
    else if !o.nodes.isEmpty && !o.regions.isEmpty then
      some "provide either of the --regions and --nodes options and not both."
    else if truthy o.format && !truthy o.gfa then
      some "GFA file has to be provided along with --format."
    else none
  | .sort o =>
    if o.bgzip && !truthy o.outgaf then
      some "--bgzip flag has been specified but not output path has been defined. Please define the output path."
    else if truthy o.outind && !truthy o.outgaf then
      some "index path specified but no output gaf path. Please provide an output path."
    else none
  | _ => none      -- index, stat, phase, find_path: `return True`; realign, order_gfa: no `validate`

/-! ## dispatch -/

/-- a Python value passed as a keyword argument -/
inductive PyVal where
  | none
  | str (s : String)
  | int (i : Int)
  | bool (b : Bool)
  | list (l : List String)
  | stdoutObject
  deriving DecidableEq, Repr

def PyVal.ofOpt : Option String → PyVal
  | .none => .none
  | .some s => .str s

structure Call where
  fn : String
  kwargs : List (String × PyVal)
  deriving DecidableEq, Repr

/-- the function `module.main(args)` calls -/
def entryPoint : Sub → String
  | .view => "gaftools.cli.view.run" | .index => "gaftools.cli.index.run" | .sort => "gaftools.cli.sort.run_sort"
  | .stat => "gaftools.cli.stat.run_stat" | .phase => "gaftools.cli.phase.run" | .realign => "gaftools.cli.realign.run_realign"
  | .find_path => "gaftools.cli.find_path.run" | .order_gfa => "gaftools.cli.order_gfa.run_order_gfa"

/-- `**vars(args)` -/
def kwargsOf : Opts → List (String × PyVal)
  | .view o => [("gaf_path", .str o.gaf_path), ("gfa", .ofOpt o.gfa), ("output", .ofOpt o.output), ("index", .ofOpt o.index),
                ("nodes", .list o.nodes), ("regions", .list o.regions), ("format", .ofOpt o.format)]
  | .index o => [("gaf_path", .str o.gaf_path), ("gfa_path", .str o.gfa_path), ("output", .ofOpt o.output)]
  | .sort o => [("gaf", .str o.gaf), ("gfa", .str o.gfa), ("outgaf", .ofOpt o.outgaf), ("outind", .ofOpt o.outind), ("bgzip", .bool o.bgzip)]
  | .stat o => [("gaf_path", .str o.gaf_path), ("output", .ofOpt o.output), ("cigar_stat", .bool o.cigar_stat)]
  | .phase o => [("gaf_file", .str o.gaf_file), ("tsv_file", .str o.tsv_file),
                 ("output", match o.output with | .stdoutObject => .stdoutObject | .path p => .str p)]
  | .realign o => [("gaf", .str o.gaf), ("graph", .str o.graph), ("fasta", .str o.fasta), ("output", .ofOpt o.output), ("cores", .int o.cores)]
  | .find_path o => [("gfa_path", .str o.gfa_path), ("input_path", .str o.input_path), ("output", .ofOpt o.output), ("fasta", .bool o.fasta)]
  | .order_gfa o => [("chromosome_order", .str o.chromosome_order), ("with_sequence", .bool o.with_sequence),
                     ("gfa_filename", .str o.gfa_filename), ("outdir", .str o.outdir), ("by_chrom", .bool o.by_chrom)]

def callOf (o : Opts) : Call := ⟨entryPoint o.sub, kwargsOf o⟩

/-- what `main(argv)` does up to the call of the entry point -/
inductive Outcome where
  | exit0 (version : Bool)              -- help (false) or version (true) text, status 0
  | usage (w : Why)                     -- `parser.error`: status 2
  | call (debug : Bool) (c : Call)      -- the entry point is called
  deriving DecidableEq, Repr

/-- parse, then `validate`: the namespace `module.main(args)` is called with, or how the process ends before that -/
def accepted (argv : List String) : Except CliErr Parsed :=
  match parseArgs argv with
  | .error e => .error e
  | .ok p => match validate p.opts with
    | some msg => .error (.usage (.refused msg))
    | none => .ok p

def dispatch (argv : List String) : Outcome :=
  match accepted argv with
  | .error (.usage w) => .usage w
  | .error .help => .exit0 false
  | .error .version => .exit0 true
  | .ok p => .call p.debug (callOf p.opts)

/-! ## the head of `view.run` -/

/-- how the part of `view.run` before the first record ends -/
inductive Head where
  | commandLineError (msg : String)           -- status 1 through `__main__.main`
  | assertionError                            -- `assert format == "unstable"` (not reachable through the command line)
  | proceed (indexPath : Option String)       -- records are processed (with this index when nodes / regions are selected)
  deriving DecidableEq, Repr

/-- `fmt`: what `detect_path_format` said of the first record (`none`: the file has no record; `some true`: stable);
    `indexExists`: whether `<gaf_path>.gvi` exists -/
def viewHead (fmt : Option Bool) (o : ViewOpts) (indexExists : Bool) : Head :=
  let selecting := !o.nodes.isEmpty || !o.regions.isEmpty
  let rest : Head :=
    if selecting then
      match o.index with
      | some p => .proceed (some p)
      | none => if indexExists then .proceed (some (o.gaf_path ++ ".gvi"))
                else .commandLineError "No index found. Please provide the path to the index or create one with gaftools index."
    else .proceed none
  if truthy o.format then
    if o.format == some "stable" then
      if fmt == some true then .commandLineError "Input GAF already has stable coordinates. Please remove the --format stable option"
      else rest
    else if o.format == some "unstable" then
      if fmt == some false then .commandLineError "Input GAF already has unstable coordinates. Please remove the --format unstable option"
      else rest
    else .assertionError
  else rest

/-- the observable end of a whole run of `gaftools` as far as this layer decides it -/
structure Effect where
  status : Option Nat          -- exit status (`none`: the layer hands over to the record processing)
  records : List String        -- records written by this layer (always none)
  opened : Option String       -- the output file `view.run` has opened for writing (created / truncated) before it stopped
  deriving DecidableEq, Repr

/-- `main(argv)` for the world `(fmt, indexExists)` (only `view` looks at it) -/
def effect (argv : List String) (fmt : Option Bool) (indexExists : Bool) : Effect :=
  match accepted argv with
  | .error (.usage _) => ⟨some 2, [], none⟩
  | .error _ => ⟨some 0, [], none⟩
  | .ok ⟨_, .view o⟩ =>
    match viewHead fmt o indexExists with
    | .commandLineError _ => ⟨some 1, [], o.output⟩
    | .assertionError => ⟨some 1, [], o.output⟩        -- an uncaught exception: traceback, status 1
    | .proceed _ => ⟨none, [], o.output⟩
  | .ok _ => ⟨none, [], none⟩

/-! ## the documented command line of a call (`harness/core.py _argv`) -/

def optArg (flag : String) : Option String → List String
  | none => []
  | some v => [flag, v]

def flagArg (flag : String) (b : Bool) : List String := if b then [flag] else []

def render : Opts → List String
  | .view o => ["view", o.gaf_path] ++ optArg "-g" o.gfa ++ optArg "-o" o.output ++ optArg "-i" o.index
      ++ o.nodes.flatMap (fun n => ["-n", n]) ++ o.regions.flatMap (fun r => ["-r", r]) ++ optArg "-f" o.format
  | .index o => ["index", o.gaf_path, o.gfa_path] ++ optArg "-o" o.output
  | .sort o => ["sort", o.gaf, o.gfa] ++ optArg "--outgaf" o.outgaf ++ optArg "--outind" o.outind ++ flagArg "--bgzip" o.bgzip
  | .stat o => ["stat", o.gaf_path] ++ optArg "-o" o.output ++ flagArg "--cigar" o.cigar_stat
  | .phase o => ["phase", o.gaf_file, o.tsv_file] ++ (match o.output with | .stdoutObject => [] | .path p => ["-o", p])
  | .realign o => ["realign", o.gaf, o.graph, o.fasta] ++ optArg "-o" o.output ++ ["-c", toString o.cores]
  | .find_path o => ["find_path", o.gfa_path, o.input_path] ++ optArg "-o" o.output ++ flagArg "--fasta" o.fasta
  | .order_gfa o => ["order_gfa"] ++ (if o.chromosome_order != "" then ["--chromosome_order", o.chromosome_order] else [])
      ++ flagArg "--with-sequence" o.with_sequence ++ ["--outdir", o.outdir] ++ flagArg "--by-chrom" o.by_chrom ++ [o.gfa_filename]

end Gaftools.Cli
