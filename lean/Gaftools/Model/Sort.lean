/-!
# Model of `gaftools/cli/sort.py`

`process_alignment`, `compare_gaf`, `sort` (both passes) and the `.gsi` index.
Import-free; mirrors the Python function by function.

Python → Lean
* `process_alignment(line, nodes, offset)`  → `processAlignment`
* `compare_gaf(al1, al2)`                   → `cmpGaf` (hand-written twin of the generated `Gen.cmpGaf`)
* `gaf_alignments.sort(key=cmp_to_key(..))` → `sortAlns` (merge sort with `cmpLe`; uniqueness of the result is a theorem)
* second pass + `index_dict`                → `sortLines`, `gsiIndex`
-/
namespace Gaftools.Sort

/-- the four tags of an rGFA node `sort` looks at (`nodes[n].tags[...]`) -/
structure NodeTags where
  sn : String
  bo : Int
  no : Int
  sr : Int
deriving Repr, DecidableEq, Inhabited

/-- the `Alignment` namedtuple of sort.py -/
structure Aln where
  offset : Int
  bo : Int
  no : Int
  start : Int
  inv : Int
  sn : String
deriving Repr, DecidableEq, Inhabited

/-- one oriented step of a GAF path: `true` = '>' -/
abbrev Step := Bool × String

inductive Err where
  | keyError        -- node not in the graph
  | assertion       -- two different rank-0 contigs on one path
  | emptyPath       -- path[1] / path[-1] does not exist
deriving Repr, DecidableEq

/-- state of the `for n in path` loop: (`sn`, `orient_list`) -/
structure LoopSt where
  sn : Option String
  orients : List Bool
deriving Repr

/-- one iteration of the loop body for a node token (orientation tokens only set `orient`) -/
def loopStep (nodes : String → Option NodeTags) (st : LoopSt) (s : Step) : Except Err LoopSt :=
  match nodes s.2 with
  | none => .error .keyError
  | some t =>
    -- finding the chromosome where the alignment is
    let snr : Except Err (Option String) :=
      if st.sn.isNone && t.sr == 0 then .ok (some t.sn)
      else if t.sr == 0 then (if st.sn == some t.sn then .ok st.sn else .error .assertion)
      else .ok st.sn
    match snr with
    | .error e => .error e
    | .ok sn' =>
      if t.bo == -1 || t.no == -1 then .ok { st with sn := sn' }
      else if t.no != 0 then .ok { st with sn := sn' }
      else .ok { sn := sn', orients := st.orients ++ [s.1] }

def loop (nodes : String → Option NodeTags) : LoopSt → List Step → Except Err LoopSt
  | st, [] => .ok st
  | st, s :: rest =>
    match loopStep nodes st s with
    | .error e => .error e
    | .ok st' => loop nodes st' rest

def countFwd (l : List Bool) : Nat := (l.filter (· == true)).length
def countRev (l : List Bool) : Nat := (l.filter (· == false)).length

/-- `process_alignment`: `steps` is the tokenised column 6, `plen ps pe` columns 7–9 -/
def processAlignment (nodes : String → Option NodeTags) (steps : List Step) (plen ps pe : Int) (offset : Int) :
    Except Err Aln :=
  match loop nodes ⟨none, []⟩ steps with
  | .error e => .error e
  | .ok st =>
    let inv : Int := if countFwd st.orients != 0 && countRev st.orients != 0 then 1 else 0
    let sn := st.sn.getD "unknown"
    if countFwd st.orients < countRev st.orients then
      match steps.getLast? with
      | none => .error .emptyPath
      | some s => match nodes s.2 with
        | none => .error .keyError
        | some t => .ok ⟨offset, t.bo, t.no, plen - pe, inv, sn⟩
    else
      match steps.head? with
      | none => .error .emptyPath
      | some s => match nodes s.2 with
        | none => .error .keyError
        | some t => .ok ⟨offset, t.bo, t.no, ps, inv, sn⟩

/-- hand-written twin of `compare_gaf` (falling off the end of the Python function = `none`) -/
def cmpGaf (al1 al2 : Aln) : Option Int :=
  if al1.bo = -1 ∧ al2.bo = -1 then
    if al1.offset < al2.offset then some (-1) else some 1
  else if al1.bo = -1 then some 1
  else if al2.bo = -1 then some (-1)
  else if al1.bo < al2.bo then some (-1)
  else if al1.bo > al2.bo then some 1
  else if al1.no < al2.no then some (-1)
  else if al1.no > al2.no then some 1
  else if al1.start < al2.start then some (-1)
  else if al1.start > al2.start then some 1
  else if al1.offset < al2.offset then some (-1)
  else if al1.offset > al2.offset then some 1
  else none

/-- `cmp_to_key` ordering used by `list.sort`: `a` may stay before `b` iff not `cmp(b, a) < 0`.
    (`K(b) < K(a)` is `cmp(b,a) < 0`; a `None` result would raise `TypeError` in Python — it is
    unreachable for distinct offsets, see `cmpGaf_isSome`.) -/
def cmpLe (a b : Aln) : Bool :=
  match cmpGaf b a with
  | some c => !(c < 0)
  | none => true

/-- `gaf_alignments.sort(key=functools.cmp_to_key(compare_gaf))` -/
def sortAlns (l : List Aln) : List Aln := l.mergeSort cmpLe

/-- `"\tbo:i:%d\tsn:Z:%s\tiv:i:%d"` appended to the right-stripped raw line -/
def suffix (a : Aln) : String :=
  "\tbo:i:" ++ toString a.bo ++ "\tsn:Z:" ++ a.sn ++ "\tiv:i:" ++ toString a.inv

/-- The second pass: `(ordinal of the input line, line to write)`; the raw line is looked up by the caller. -/
def outSuffixes (l : List Aln) : List (Int × String) := (sortAlns l).map (fun a => (a.offset, suffix a))

/-- The `.gsi` bookkeeping over the *output* sequence: `index_dict[sn] = [first, last]` then `pop("unknown")`.
    `offs i` is `writer.tell()` before the i-th output line. Keys in first-occurrence order. -/
def gsiStep (acc : List (String × Nat × Nat)) (e : String × Nat) : List (String × Nat × Nat) :=
  if acc.any (·.1 == e.1) then acc.map (fun x => if x.1 == e.1 then (x.1, x.2.1, e.2) else x)
  else acc ++ [(e.1, e.2, e.2)]

def gsiIndex (sns : List String) (offs : Nat → Nat) : List (String × Nat × Nat) :=
  ((sns.zipIdx.map (fun (s, i) => (s, offs i))).foldl gsiStep []).filter (·.1 != "unknown")

end Gaftools.Sort
