import Gaftools.Model.Algo
import Gaftools.Model.View
/-!
# Model of `gaftools/cli/order_gfa.py`

Python → Lean
* `count_sn` / `name_comps` (majority SN vote; ties: the tag counted last wins)  → `nameComps`
* `decompose_and_order` (biccs → scaffold graph → census → dfs → orientation → numbering) → `decompose` (offset-free) and `shift`
* the chromosome loop of `run_order_gfa` (running BO, skipping)                    → `runOrder`
* `sort_bo_no` + `write_gfa(order_bo=True)` + the CSV rows                        → `sortBoNo`, `csvRows`

Sets are duplicate-free lists; wherever the Python iterates a set the model uses *some* enumeration (here: sorted) and the
theorems / the correspondence canonicalise. The only place where the enumeration can change the result is the direction of
a chain with fewer than two articulation points (known finding K2).
-/
namespace Gaftools.Order
open Gaftools.Gfa Gaftools.Algo Gaftools.View

/-- an element of the collapsed bubble chain -/
inductive Elt where
  | scaffold (id : V)
  | bubble (idx : Nat)
deriving DecidableEq, Repr

/-- neighbours in the scaffold graph (with multiplicity suppressed: the adjacency sets hold `(id, side, 0)` once) -/
structure Scaffold where
  elts : List Elt                 -- dict order: articulation points first, then bubbles by index
  edges : List (Elt × Elt)        -- undirected
  bubbles : List (List V)         -- inner nodes of bubble i
deriving Repr

def Scaffold.nbrs (s : Scaffold) (e : Elt) : List Elt :=
  (s.edges.filterMap (fun p => if p.1 == e then some p.2 else if p.2 == e then some p.1 else none)).eraseDups

/-- name of an element as the Python uses it for sorting neighbours: node id, or "\tbubble<i>" -/
def Elt.name : Elt → String
  | .scaffold id => id
  | .bubble i => "\tbubble" ++ toString i

inductive Skip where
  | degreeOne       -- not exactly two elements of degree one
  | degreeTwo       -- the others are not all of degree two
  | blockEnds       -- a block without inner nodes that does not join exactly two articulation points
  | mixedSN         -- the scaffold nodes do not all carry the same SN
  | notIncreasing   -- the scaffold nodes' SO do not strictly increase along the chain
deriving Repr, DecidableEq

/-- build the scaffold graph from the blocks and articulation points (`for bc in all_biccs`) -/
def buildScaffold (blocks : List (List V)) (aps : List V) : Except Skip Scaffold :=
  let init : Scaffold := { elts := aps.map Elt.scaffold, edges := [], bubbles := [] }
  blocks.foldlM (fun s bc =>
    let inside := bc.filter (fun v => !aps.contains v)
    let ends := bc.filter (fun v => aps.contains v)
    if inside.isEmpty then
      match ends with
      | [a, b] => .ok { s with edges := s.edges ++ [(Elt.scaffold a, Elt.scaffold b)] }
      | _ => .error Skip.blockEnds
    else
      let i := s.bubbles.length
      .ok { elts := s.elts ++ [Elt.bubble i], bubbles := s.bubbles ++ [inside],
            edges := s.edges ++ ends.map (fun e => (Elt.bubble i, Elt.scaffold e)) }) init

/-- dfs over the scaffold graph exactly as `GFA.dfs` does (neighbours sorted by name, last pushed popped first) -/
def scaffoldDfs (s : Scaffold) (start : Elt) : List Elt :=
  let names := s.elts.map Elt.name
  let ofName (n : String) : Option Elt := s.elts.find? (fun e => e.name == n)
  let nb (n : String) : List String := match ofName n with
    | some e => sortStrings ((s.nbrs e).map Elt.name)
    | none => []
  (dfs nb names start.name).filterMap ofName

/-- the local (offset-free) result of `decompose_and_order` -/
structure Local where
  aps : List V
  inside : List V
  order : List (V × Nat × Nat)     -- node ↦ (chain position, NO)
  len : Nat                        -- number of chain elements (BO values used)
  nBubbles : Nat
deriving Repr

/-- numbering: `for node in traversal` -/
def numberChain (s : Scaffold) (trav : List Elt) : List (V × Nat × Nat) :=
  trav.zipIdx.flatMap (fun (e, k) => match e with
    | .scaffold id => [(id, k, 0)]
    | .bubble i => (sortStrings (s.bubbles.getD i [])).zipIdx.map (fun (n, j) => (n, k, j + 1)))

/-- `decompose_and_order` without the BO offset. `so id` = SO tag of a node (`none`: KeyError), `sn id` likewise.
    `.error` = the chromosome is reported and skipped; `none` inside `.ok` never occurs.
    A missing SO tag on a scaffold node is a `crash` outcome (KeyError). -/
inductive Outcome where
  | ok (l : Local)
  | skipped (why : Skip)
  | crash (what : String)
deriving Repr

/-- the part of `decompose_and_order` after the scaffold graph is built: census, traversal from the first element of degree
    one, SN test, orientation by reference offsets, numbering -/
def finishScaffold (s : Scaffold) (aps : List V) (so : V → Option Int) (sn : V → Option String) : Outcome :=
  let deg (e : Elt) := (s.nbrs e).length
  let one := s.elts.filter (fun e => deg e == 1)
  let two := s.elts.filter (fun e => deg e == 2)
  if one.length != 2 then .skipped .degreeOne
  else if two.length != s.elts.length - 2 then .skipped .degreeTwo
  else
    let trav := scaffoldDfs s (one.headD (Elt.bubble 0))
    let scaf := trav.filterMap (fun e => match e with | .scaffold id => some id | _ => none)
    if ((scaf.map sn).eraseDups).length != 1 then .skipped .mixedSN
    else
      match scaf.mapM so with
      | none => .crash "SO missing"
      | some coords =>
        let rev := match coords.head?, coords.getLast? with
          | some a, some b => decide (a > b)
          | _, _ => false
        let trav := if rev then trav.reverse else trav
        let coords := if rev then coords.reverse else coords
        if !(List.zip coords coords.tail).all (fun p => decide (p.1 < p.2)) then .skipped .notIncreasing
        else
          .ok ⟨aps, s.bubbles.flatten, numberChain s trav, trav.length, s.bubbles.length⟩

def decompose (nb : V → List V) (comp : List V) (so : V → Option Int) (sn : V → Option String) : Outcome :=
  match comp with
  | [v] => .ok ⟨[v], [], [(v, 0, 0)], 1, 0⟩
  | _ =>
    let root := (sortStrings comp).headD ""
    let (blocks, aps) := biccsFrom nb root (biccFuel nb comp)
    match buildScaffold blocks (sortStrings aps) with
    | .error e => .skipped e
    | .ok s => finishScaffold s aps so sn

/-- `count_sn` + majority vote of `name_comps`; `counts` in first-seen order over the component as enumerated;
    `if most_freq <= count` lets a later tag with an equal count win -/
def majoritySN (sn : V → Option String) (comp : List V) : Option String :=
  let tags := comp.filterMap sn
  let counts := tags.eraseDups.map (fun t => (t, (tags.filter (· == t)).length))
  (counts.foldl (fun (best : Option String × Nat) tc => if best.2 ≤ tc.2 then (some tc.1, tc.2) else best) (none, 0)).1

def nameComps (sn : V → Option String) (comps : List (List V)) : List (String × List V) :=
  comps.foldl (fun acc c => match majoritySN sn c with
    | some name => (acc.filter (·.1 != name)) ++ [(name, c)]     -- dict assignment (a later component of the same name replaces)
    | none => acc) []

/-- one written chromosome: name, BO/NO of every node (absolute), articulation points, inner nodes -/
structure Written where
  name : String
  tags : List (V × Int × Int)
  aps : List V
  inside : List V
deriving Repr

/-- the chromosome loop: `bo` advances only when a chromosome is written -/
def runOrder (dec : String → Outcome) (order : List String) : Except String (List Written × Int) :=
  order.foldlM (fun (acc : List Written × Int) c =>
    match dec c with
    | .ok l => .ok (acc.1 ++ [⟨c, l.order.map (fun (v, k, no) => (v, acc.2 + (k : Int), (no : Int))), l.aps, l.inside⟩], acc.2 + (l.len : Int))
    | .skipped _ => .ok acc
    | .crash w => .error w) ([], 0)

def insertBoNo (x : V × Int × Int) : List (V × Int × Int) → List (V × Int × Int)
  | [] => [x]
  | y :: ys => if x.2.1 < y.2.1 ∨ (x.2.1 = y.2.1 ∧ x.2.2 < y.2.2) then x :: y :: ys else y :: insertBoNo x ys

/-- `sort_bo_no`: ascending BO, then NO -/
def sortBoNo (tags : List (V × Int × Int)) : List V := (tags.foldr insertBoNo []).map (·.1)

/-- `SO` / `SN` of a node as `order_gfa` reads them from the S line -/
def soOf (t : GfaFile) (v : V) : Option Int := (t.segs.find? (·.id == v)).bind (fun s => tagInt s.tags "SO")
def snOf (t : GfaFile) (v : V) : Option String := (t.segs.find? (·.id == v)).bind (fun s => tagVal s.tags "SN")

/-- the component `name_comps` files under a chromosome name -/
def compOfName (t : GfaFile) (lm : Bool) (c : String) : List V :=
  let g := readGraph t lm
  let named := nameComps (snOf t) (allComponents (Graph.nbFun g) (Graph.ids g))
  ((named.find? (·.1 == c)).map (·.2)).getD []

/-- `run_order_gfa` up to the BO/NO tags it assigns: read the graph, split it into components, name them, then the
    chromosome loop over `decompose_and_order` -/
def orderRun (t : GfaFile) (order : List String) (lm : Bool) : Except String (List Written × Int) :=
  let g := readGraph t lm
  runOrder (fun c => decompose (Graph.nbFun g) (compOfName t lm c) (soOf t) (snOf t)) order

/-- `node.tags["BO"] = ("i", bo); node.tags["NO"] = ("i", no)`: dict assignment — a stale tag is replaced in place, a new one
    goes to the end -/
def tagNode (n : Node) (bo no : Int) : Node :=
  { n with tags := tagSet (tagSet n.tags ⟨"BO", "i", toString bo⟩) ⟨"NO", "i", toString no⟩ }

def tagNodes (g : Graph) (tags : List (V × Int × Int)) : Graph :=
  { g with nodes := g.nodes.map (fun n => match tags.find? (·.1 == n.id) with
      | some x => tagNode n x.2.1 x.2.2
      | none => n) }

/-- the per-chromosome file: `write_gfa(set_of_nodes = component, order_bo = True)` once the tags are set -/
def orderFile (g : Graph) (w : Written) : GfaFile := writeGfa (tagNodes g w.tags) (sortBoNo w.tags)

/-- `run_order_gfa --by-chrom`: the files it writes, in request order -/
def orderFiles (t : GfaFile) (order : List String) (lm : Bool) : Except String (List (String × GfaFile)) :=
  match orderRun t order lm with
  | .ok (ws, _) => .ok (ws.map (fun w => (w.name, orderFile (readGraph t lm) w)))
  | .error e => .error e

/-! ## CSV rows, the `-complete` files and the validation of the request -/

/-- the 25 default chromosomes (`DEFAULT_CHROMOSOME`) -/
def defaultChromosomes : List String :=
  (List.range 22).map (fun i => "chr" ++ toString (i + 1)) ++ ["chrX", "chrY", "chrM"]

/-- the request as `run_order_gfa` resolves it: `--chromosome_order` split at ','; every given name must be a component name
    (else exit 1); an empty option means the default order, accepted only when the component names are exactly the 25 defaults -/
def resolveOrder (names : List String) (option : String) : Option (List String) :=
  let req := option.splitOn ","
  if req != [""] then (if req.all (fun c => names.contains c) then some req else none)
  else if names.all (fun c => defaultChromosomes.contains c) && defaultChromosomes.all (fun c => names.contains c) then some defaultChromosomes
  else none

def csvHeader : List String := ["Name", "Color", "SN", "SO", "BO", "NO"]

/-- one CSV row of a written chromosome: `node_name, color, SN, SO, BO, NO`; orange = scaffold node, blue = inner node of a
    bubble, gray otherwise; SN / SO are the S line's tag values verbatim, `NA` when absent -/
def csvRow (g : Graph) (w : Written) (v : V) : Option (List String) :=
  match w.tags.find? (·.1 == v), g.find v with
  | some x, some n =>
    some [v, if w.aps.contains v then "orange" else if w.inside.contains v then "blue" else "gray",
          (tagVal n.tags "SN").getD "NA", (tagVal n.tags "SO").getD "NA", toString x.2.1, toString x.2.2]
  | _, _ => none

/-- the CSV next to a chromosome file: header, then `for node_name in sorted(component_nodes)` -/
def orderCsv (g : Graph) (w : Written) (comp : List V) : List (List String) :=
  csvHeader :: (sortStrings comp).filterMap (csvRow g w)

/-- without `--by-chrom`: all S lines of the chromosome files in request order, then all their L lines; the CSVs concatenated
    (each with its header line) -/
def completeGfa (fs : List GfaFile) : GfaFile := { segs := fs.flatMap (·.segs), links := fs.flatMap (·.links) }
def completeCsv (cs : List (List (List String))) : List (List String) := cs.flatten

/-- everything `run_order_gfa` writes for a resolved request: per chromosome (name, GFA file, CSV) in request order -/
def orderOutputs (t : GfaFile) (order : List String) (lm : Bool) : Except String (List (String × GfaFile × List (List String))) :=
  match orderRun t order lm with
  | .ok (ws, _) =>
    let g := readGraph t lm
    .ok (ws.map (fun w => (w.name, orderFile g w, orderCsv g w (compOfName t lm w.name))))
  | .error e => .error e

/-- the component names `name_comps` found, and the whole command from the raw `--chromosome_order` option:
    `none` = exit status 1 before anything is written -/
def componentNames (t : GfaFile) (lm : Bool) : List String :=
  let g := readGraph t lm
  (nameComps (snOf t) (allComponents (Graph.nbFun g) (Graph.ids g))).map (·.1)

def orderCommand (t : GfaFile) (option : String) (lm : Bool) : Option (Except String (List (String × GfaFile × List (List String)))) :=
  (resolveOrder (componentNames t lm) option).map (fun order => orderOutputs t order lm)

end Gaftools.Order
