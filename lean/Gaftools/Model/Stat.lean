import Gaftools.Model.Gaf
/-!
# Model of `gaftools/cli/stat.py` : `run_stat`
Floats are modelled by exact rationals (`Rat` is in core); the harness compares the printed roundings.
-/
namespace Gaftools.Stat
open Gaftools.Gaf

/-- the secondary test of run_stat: `not mapping.is_primary or mapping.mapping_quality <= 0` -/
def isSecondary (r : Rec) : Bool := !r.isPrimary || r.mapq ≤ 0

/-- `["".join(x) for _, x in itertools.groupby(cigar, key=str.isdigit)]` -/
def groupDigits : Str → List Str
  | [] => []
  | c :: cs =>
    match groupDigits cs with
    | [] => [[c]]
    | g :: gs =>
      match g with
      | d :: _ => if c.isDigit == d.isDigit then (c :: g) :: gs else [c] :: g :: gs
      | [] => [c] :: gs

structure CigarCounts where
  del : Nat := 0
  delL : Nat := 0
  ins : Nat := 0
  insL : Nat := 0
  x : Nat := 0
  xL : Nat := 0
  m : Nat := 0
  mL : Nat := 0
  perfect : Nat := 0
deriving Repr, DecidableEq

/-- `for cnt in range(0, len(all_cigars) - 1, 2)` over (length, op) pairs -/
def cigarPairs : List Str → List (Str × Str)
  | n :: op :: rest => (n, op) :: cigarPairs rest
  | _ => []

def bump (c : CigarCounts) (p : Str × Str) : CigarCounts :=
  let big : Nat := if toNat p.1 ≥ 50 then 1 else 0
  if p.2 == ['D'] then { c with del := c.del + 1, delL := c.delL + big }
  else if p.2 == ['I'] then { c with ins := c.ins + 1, insL := c.insL + big }
  else if p.2 == ['X'] then { c with x := c.x + 1, xL := c.xL + big }
  else if p.2 == ['='] then { c with m := c.m + 1, mL := c.mL + big }
  else c

def cigarStep (c : CigarCounts) (cigar : Str) : CigarCounts :=
  let toks := groupDigits cigar
  let c' := if toks.length == 2 then { c with perfect := c.perfect + 1 } else c
  (cigarPairs toks).foldl bump c'

structure ReadAgg where
  name : Str
  bestRatio : Rat
  bestId : Rat
deriving Repr, DecidableEq

structure St where
  total : Nat := 0
  primary : Nat := 0
  secondary : Nat := 0
  bases : Nat := 0
  mapqSum : Nat := 0
  reads : List ReadAgg := []        -- dict in insertion order
  cig : CigarCounts := {}
deriving Repr, DecidableEq

def ratio (r : Rec) : Rat := ((r.qe : Int) - (r.qs : Int) : Int) / (r.qlen : Int)
def identity (r : Rec) : Rat := (r.nmatch : Int) / (r.blen : Int)

def updReads (reads : List ReadAgg) (r : Rec) : List ReadAgg :=
  if reads.any (·.name == r.qname) then
    reads.map (fun a => if a.name == r.qname then
      { a with bestRatio := if a.bestRatio < ratio r then ratio r else a.bestRatio,
               bestId := if a.bestId < identity r then identity r else a.bestId } else a)
  else reads ++ [⟨r.qname, ratio r, identity r⟩]

def step (cigarStat : Bool) (s : St) (r : Rec) : St :=
  if isSecondary r then { s with total := s.total + 1, secondary := s.secondary + 1 }
  else
    { s with total := s.total + 1, primary := s.primary + 1, bases := s.bases + r.nmatch, mapqSum := s.mapqSum + r.mapq,
             reads := updReads s.reads r, cig := if cigarStat then cigarStep s.cig r.cigar else s.cig }

def run (cigarStat : Bool) (recs : List Rec) : St := recs.foldl (step cigarStat) {}

def sumRat (l : List Rat) : Rat := l.foldl (· + ·) 0

/-- the two printed averages, exactly (the Python divides by `len(reads)`: ZeroDivisionError when no read is primary) -/
def avgBestId (s : St) : Rat := sumRat (s.reads.map (·.bestId)) / (s.reads.length : Int)
def avgBestRatio (s : St) : Rat := sumRat (s.reads.map (·.bestRatio)) / (s.reads.length : Int)
def avgMapq (s : St) : Rat := (s.mapqSum : Int) / (s.total : Int)

end Gaftools.Stat
