import Gaftools.Model.Gfa
/-!
# Edit histories through the library (`add_node`, `add_edge`, `remove_node`) and their abstract replay (C15)
-/
namespace Gaftools.Hist
open Gaftools.Gfa

inductive Op where
  | addNode (id : String)
  | addLink (l : LinkLine)
  | delNode (id : String)
deriving Repr, DecidableEq

/-- the library calls; `add_edge` on a missing node and `remove_node` of a missing node raise in Python: no-ops here,
    and excluded from the theorem's histories by `WellFormed` -/
def applyOp (g : Graph) : Op → Graph
  | .addNode id => addNode g ⟨id, "", []⟩ false
  | .addLink l => if g.has l.a && g.has l.b then addEdge g l else g
  | .delNode id => if g.has id then removeNode g id else g

def applyOps (ops : List Op) : Graph := ops.foldl applyOp Graph.empty

/-- abstract replay: the surviving nodes (in creation order) and links -/
def survStep (st : List String × List LinkLine) : Op → List String × List LinkLine
  | .addNode id => if st.1.contains id then st else (st.1 ++ [id], st.2)
  | .addLink l => if st.1.contains l.a && st.1.contains l.b then (st.1, st.2 ++ [l]) else st
  | .delNode id => (st.1.filter (· != id), st.2.filter (fun l => l.a != id && l.b != id))

def survivors (ops : List Op) : List String × List LinkLine := ops.foldl survStep ([], [])

def build (st : List String × List LinkLine) : Graph :=
  readGraph ⟨st.1.map (fun id => ⟨id, "", []⟩), st.2⟩

end Gaftools.Hist
