import Gaftools.Model.Gfa
/-!
# String level of `find_path` and of the region syntax of `view`

Two pieces of the tool that the rest of the model sees only after tokenisation, here from the raw strings on.

Python → Lean
* `re.findall("[><][^><]+", path)` (gfa.py, `GFA.extract_path`)            → `tokenizeAux`, `tokenizePath`
* `GFA.extract_path(path: str)`                                            → `extractPathStr` (reuses `Gfa.pathExists` / `Gfa.extractPath`)
* `str.strip()` (no argument: every character with `str.isspace()`)        → `pyIsSpace`, `pyStrip`
* text-mode `open(p, "r")` + `for line in reader` (universal newlines)     → `univNl`, `keepEndsNl`, `textLines`
* `cli/find_path.py run(gfa_path, input_path, output, fasta)`              → `findPathRun` (on the lines of the file), `findPathRunText`
* `str.split(sep)` for a one-character separator                           → `splitOn`
* `int(str)` for base 10                                                   → `pyInt`
* `view.get_unstable` (the three split expressions) + `view.search` (`int`) → `parseRegion`

Strings are handled as `List Char` (code points, as Python's `str`); the `String` functions are thin wrappers.

What is NOT covered by `pyInt`: decimal digits outside ASCII (`int("٣") == 3`, any character of Unicode category Nd is accepted
by Python; here it is a `ValueError`).  Everything else of `int(str)` for base 10 is modelled: surrounding white space (the set
Python's `int` really skips: `str.isspace()` *minus* U+001C–U+001F), one sign, single underscores between digits, and the limit of
4300 digit characters (`sys.get_int_max_str_digits()`, Python ≥ 3.11: more digits — leading zeros counted, underscores not — is
a `ValueError`).
-/
namespace Gaftools.TextLayer
open Gaftools.Gfa

/-- the Python exceptions these entry points can end in (`osError`: the path file cannot be opened) -/
inductive PyErr where
  | indexError
  | valueError
  | keyError
  | osError
deriving Repr, DecidableEq, Inhabited

/-! ## `re.findall("[><][^><]+", path)` -/

def isOri (c : Char) : Bool := c == '>' || c == '<'

/-- one left-to-right scan.  State `none`: no orientation character pending (characters are skipped); `some (o, acc)`: an
    orientation character was read and `acc` (reversed) is the run of other characters after it.  A second orientation character
    directly after the first replaces it (the regex finds no match at the first one and moves on). -/
def tokenizeAux : Option (Bool × List Char) → List Char → List Step
  | none, [] => []
  | some (o, acc), [] => if acc.isEmpty then [] else [(o, String.ofList acc.reverse)]
  | none, c :: cs => if isOri c then tokenizeAux (some (c == '>', [])) cs else tokenizeAux none cs
  | some (o, acc), c :: cs =>
    if isOri c then
      (if acc.isEmpty then [] else [(o, String.ofList acc.reverse)]) ++ tokenizeAux (some (c == '>', [])) cs
    else tokenizeAux (some (o, c :: acc)) cs

/-- `re.findall("[><][^><]+", path)` as steps: orientation (`true` = '>') and the id `n[1:]` -/
def tokenizePath (p : List Char) : List Step := tokenizeAux none p

/-- the path string of a list of steps -/
def renderChars (steps : List Step) : List Char :=
  steps.flatMap (fun s => (if s.1 then '>' else '<') :: s.2.toList)

def renderPath (steps : List Step) : String := String.ofList (renderChars steps)

/-! ## `GFA.extract_path` -/

/-- `extract_path(path)`: `path[0]` on the empty string is an `IndexError`; a first character other than '<' '>' gives "";
    otherwise tokenise, `path_exists` (`KeyError` when the first node of a pair is unknown), unknown nodes give "", spell. -/
def extractPathStr (g : Graph) (path : String) : Except PyErr String :=
  match path.toList with
  | [] => .error .indexError
  | c :: _ =>
    if !isOri c then .ok ""
    else match extractPath g (tokenizePath path.toList) with
      | none => .error .keyError
      | some s => .ok s

/-! ## `str.strip()` -/

/-- `str.isspace()` of one character (the set `str.strip()` removes) -/
def pyIsSpace (c : Char) : Bool :=
  let n := c.toNat
  (9 ≤ n && n ≤ 13) || (28 ≤ n && n ≤ 32) || n == 0x85 || n == 0xA0 || n == 0x1680 || (0x2000 ≤ n && n ≤ 0x200A) ||
  n == 0x2028 || n == 0x2029 || n == 0x202F || n == 0x205F || n == 0x3000

def stripWith (p : Char → Bool) (s : List Char) : List Char := ((s.dropWhile p).reverse.dropWhile p).reverse

def pyStripChars (s : List Char) : List Char := stripWith pyIsSpace s

def pyStrip (s : String) : String := String.ofList (pyStripChars s.toList)

/-! ## reading a text file line by line -/

/-- universal newlines of text mode: "\r\n" and a lone "\r" are read as "\n" (flag: the previous character was '\r') -/
def univNl : Bool → List Char → List Char
  | _, [] => []
  | prevCr, c :: cs =>
    if c == '\r' then '\n' :: univNl true cs
    else if c == '\n' then (if prevCr then univNl false cs else '\n' :: univNl false cs)
    else c :: univNl false cs

/-- the lines a file iterator yields: each ends with its '\n', except possibly the last (`cur` reversed) -/
def keepEndsNl : List Char → List Char → List (List Char)
  | cur, [] => if cur.isEmpty then [] else [cur.reverse]
  | cur, c :: cs => if c == '\n' then (c :: cur).reverse :: keepEndsNl [] cs else keepEndsNl (c :: cur) cs

def textLines (content : String) : List String := (keepEndsNl [] (univNl false content.toList)).map String.ofList

/-! ## `find_path.run` -/

/-- what one path contributes to the output (one `print` per element) -/
def record (fasta : Bool) (name seq : String) : List String := if fasta then [">seq_" ++ name, seq] else [seq]

/-- one line of the path file: the stripped line and its sequence -/
def lineRecord (g : Graph) (line : String) : Except PyErr (String × String) :=
  let n := pyStrip line
  (extractPathStr g n).map (fun s => (n, s))

/-- `run(gfa_path, input_path, output, fasta)` after the graph is loaded.  `arg` = `input_path`; `fileLines` = the lines the file
    named by `input_path` yields (`none`: it cannot be opened).  The result is the list of printed lines (each followed by "\n" in the
    output).  All sequences are extracted before the output is opened: when a line raises nothing is written. -/
def findPathRun (g : Graph) (arg : String) (fileLines : Option (List String)) (fasta : Bool) : Except PyErr (List String) :=
  match arg.toList with
  | [] => .error .indexError
  | c :: _ =>
    if isOri c then
      (extractPathStr g arg).map (record fasta arg)
    else match fileLines with
      | none => .error .osError
      | some ls => (ls.mapM (lineRecord g)).map (fun recs => recs.flatMap (fun r => record fasta r.1 r.2))

/-- the same from the content of the file -/
def findPathRunText (g : Graph) (arg : String) (content : Option String) (fasta : Bool) : Except PyErr (List String) :=
  findPathRun g arg (content.map textLines) fasta

/-! ## `str.split(sep)`, `int(str)` -/

/-- `s.split(sep)` for a one-character separator: never empty, n separators give n + 1 parts -/
def splitOn (sep : Char) : List Char → List (List Char)
  | [] => [[]]
  | c :: cs =>
    if c == sep then [] :: splitOn sep cs
    else match splitOn sep cs with
      | h :: t => (c :: h) :: t
      | [] => [[c]]

/-- the white space `int()` skips at both ends: `str.isspace()` minus U+001C–U+001F -/
def intSpace (c : Char) : Bool := pyIsSpace c && !(28 ≤ c.toNat && c.toNat ≤ 31)

def isDigitsNE (s : List Char) : Bool := !s.isEmpty && s.all Char.isDigit

def maxStrDigits : Nat := 4300

/-- `[0-9]+(_[0-9]+)*` with at most 4300 digits: the value -/
def pyNat (body : List Char) : Option Nat :=
  let groups := splitOn '_' body
  let digits := groups.flatten
  if groups.all isDigitsNE && digits.length ≤ maxStrDigits then some (Nat.ofDigitChars 10 digits 0) else none

/-- `int(s)`; `none` = `ValueError` -/
def pyInt (s : List Char) : Option Int :=
  match stripWith intSpace s with
  | '-' :: r => (pyNat r).map (fun n => -(n : Int))
  | '+' :: r => (pyNat r).map (fun n => (n : Int))
  | r => (pyNat r).map (fun n => (n : Int))

/-! ## regions of `view -r` -/

/-- `region.split(":")[0]`, `region.split(":")[1].split("-")[0]`, `region.split(":")[1].split("-")[-1]`, then `int` of both
    (in `search`).  No ':' → `IndexError` (raised before any `int`); a bound that is no number → `ValueError`. -/
def parseRegionChars (s : List Char) : Except PyErr (String × Int × Int) :=
  match splitOn ':' s with
  | c :: r :: _ =>
    let parts := splitOn '-' r
    match pyInt (parts.headD []), pyInt (parts.getLastD []) with
    | some a, some b => .ok (String.ofList c, a, b)
    | _, _ => .error .valueError
  | _ => .error .indexError

def parseRegion (s : String) : Except PyErr (String × Int × Int) := parseRegionChars s.toList

end Gaftools.TextLayer
