import Gaftools.Model.Gaf
/-!
# CIGAR strings: tokenisation, validity of a global alignment, gap-affine cost, tallies; and the record `realign` emits

Python → Lean
* `itertools.groupby(cg, key=str.isdigit)` pairs / `re.findall(r"(\d+)([=XIDM])")`   → `parseCigar`
* the tally loop of `wfa_alignment` over `res.cigartuples`                              → `tally`
* `out_string` of `wfa_alignment`                                                      → `emitRealigned`
* the > 60 000 guard                                                                   → `passThrough`
-/
namespace Gaftools.Cigar
open Gaftools.Gaf

abbrev Op := Nat × Char      -- (length, one of '=', 'X', 'I', 'D')

def isOpChar (c : Char) : Bool := c == '=' || c == 'X' || c == 'I' || c == 'D' || c == 'M'

/-- `digits+ opchar` repeated; `none` when the string is not of that shape (fuel = length) -/
def parseGo : Nat → Str → Option (List Op)
  | _, [] => some []
  | 0, _ => none
  | fuel + 1, s =>
    let ds := s.takeWhile Char.isDigit
    let rest := s.dropWhile Char.isDigit
    match rest with
    | [] => none
    | c :: rest' =>
      if ds.isEmpty || !isOpChar c then none
      else (parseGo fuel rest').map (fun ops => (toNat ds, c) :: ops)

def parseCigar (s : Str) : Option (List Op) := parseGo s.length s

def render (ops : List Op) : Str := ops.flatMap (fun o => dec o.1 ++ [o.2])

/-- executable validity check: the operations consume `ref` and `q` exactly, '=' pairs equal bases, 'X' unequal bases,
    'I' consumes the query only, 'D' the reference only; every run has positive length -/
def cigarValid : List Char → List Char → List Op → Bool
  | [], [], [] => true
  | _, _, [] => false
  | ref, q, (n, c) :: ops =>
    n > 0 &&
    (if c == '=' then
       n ≤ ref.length && n ≤ q.length && ref.take n == q.take n && cigarValid (ref.drop n) (q.drop n) ops
     else if c == 'X' then
       n ≤ ref.length && n ≤ q.length && (List.zip (ref.take n) (q.take n)).all (fun p => p.1 != p.2) &&
       cigarValid (ref.drop n) (q.drop n) ops
     else if c == 'I' then n ≤ q.length && cigarValid ref (q.drop n) ops
     else if c == 'D' then n ≤ ref.length && cigarValid (ref.drop n) q ops
     else false)

/-- gap-affine penalties of pywfa's defaults: mismatch 4, gap opening 6, gap extension 2, match 0 -/
def cost (ops : List Op) : Nat :=
  (ops.map (fun o => if o.2 == 'X' then 4 * o.1 else if o.2 == 'I' || o.2 == 'D' then 6 + 2 * o.1 else 0)).sum

/-- residue matches and block length as `wfa_alignment` tallies them -/
def nMatch (ops : List Op) : Nat := ((ops.filter (fun o => o.2 == '=')).map (·.1)).sum
def blockLen (ops : List Op) : Nat := (ops.map (·.1)).sum

/-- the record written for a realigned alignment: columns 1–9 and 12 from the input, tallies from the new CIGAR,
    tags verbatim with `cg:Z:` (re)written in place / appended -/
def emitRealigned (r : Rec) (ops : List Op) : Rec :=
  { r with nmatch := nMatch ops, blen := blockLen ops, cigar := render ops, tags := dictSet r.tags cgKey (render ops) }

/-- `gaf_line.query_end - gaf_line.query_start > 60_000` -/
def passThrough (r : Rec) : Bool := r.qe - r.qs > 60000

/-- the twelve columns as `wfa_alignment` prints them (f-strings: the parsed ints) followed by the tags dict -/
def printRealigned (r : Rec) : List Str := mandatory r ++ r.tags.map (fun kv => kv.1 ++ kv.2)

/-- one record through `wfa_alignment`, given the aligner's answer for (ref, query) -/
def realignOne (aligner : List Char → List Char → List Op) (r : Rec) (ref query : List Char) : List Str :=
  if passThrough r then printRealigned r else printRealigned (emitRealigned r (aligner ref query))

end Gaftools.Cigar
