/-! FALLBACK (source construct outside the translator's subset): the decisions as modelled by hand -/
namespace Gaftools.Gen
def sortInv (nf nr : Nat) : Bool := nf != 0 && nr != 0
def sortRev (nf nr : Nat) : Bool := decide (nf < nr)
def sortStartRev (plen ps pe : Int) : Int := plen - pe
def sortStartFwd (plen ps pe : Int) : Int := ps
def sortNodeRev : Int := -1
def sortNodeFwd : Int := 1
def isDegOne (d : Nat) : Bool := d == 1
def isDegTwo (d : Nat) : Bool := d == 2
def censusOne (n1 : Nat) : Bool := n1 == 2
def censusTwo (n2 total : Nat) : Bool := decide ((n2 : Int) = (total : Int) - 2)
def mixedSN (k : Nat) : Bool := k != 1
def needsReverse (a b : Int) : Bool := decide (a > b)
def notIncreasing (x y : Int) : Bool := !decide (x < y)
def scaffoldNo : Nat := 0
def bubbleNo (i : Nat) : Nat := i + 1
def tooLong (qs qe refLen queryLen : Int) : Bool := decide (qe - qs > 60000)
def regionHit (so en a b : Int) : Bool := decide (so ≤ b ∧ a < en)
def largeDel (n : Int) : Bool := decide (n ≥ 50)
def largeIns (n : Int) : Bool := decide (n ≥ 50)
def largeSub (n : Int) : Bool := decide (n ≥ 50)
def largeMatch (n : Int) : Bool := decide (n ≥ 50)
def perfectTokens (k : Nat) : Bool := k == 2
end Gaftools.Gen
