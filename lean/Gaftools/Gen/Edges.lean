/-! FALLBACK (source construct outside the translator's subset): add_edge / remove_edge as modelled by hand -/
namespace Gaftools.Gen
structure Entry where
  owner2 : Bool
  side : Bool
  nbr2 : Bool
  nbrSide : Bool
deriving DecidableEq, Repr

def addEdgeEntries (d1 d2 : Bool) : List Entry := [⟨false, d1, true, d2⟩, ⟨true, d2, false, d1⟩]
def addEdgeTagKey (d1 d2 : Bool) : Bool × Bool × Bool × Bool := (false, d1, true, d2)
def removeEdgeEntries (d1 d2 : Bool) : List Entry := [⟨false, d1, true, d2⟩, ⟨true, d2, false, d1⟩]
end Gaftools.Gen
