def hello := "world"
