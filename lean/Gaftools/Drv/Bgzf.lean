import Gaftools.Drv.Util
import Gaftools.Model.Bgzf
/-! driver op for the byte-level file model (C17) -/
namespace Gaftools.Drv.Bgzf
open Lean Gaftools.Drv Gaftools.Bgzf

def hexVal (c : Char) : Nat :=
  if '0' ≤ c ∧ c ≤ '9' then c.toNat - '0'.toNat else if 'a' ≤ c ∧ c ≤ 'f' then c.toNat - 'a'.toNat + 10 else 0

def unhex : List Char → List Byte
  | a :: b :: t => UInt8.ofNat (hexVal a * 16 + hexVal b) :: unhex t
  | _ => []

/-- op "bgzf.resolve": {blocks: [[address, length, hex | null]], with_data, voffs: [..]}
    → wf, for every virtual offset the uncompressed position it designates and (when the payloads are given) the line read there -/
def opResolve (j : Json) : R Json := do
  let blocks ← listOf (fun b => do
      let a ← b.getArr?
      let addr ← (a[0]!).getNat?
      let len ← (a[1]!).getNat?
      let payload : List Byte := match (a[2]!).getStr? with
        | .ok h => unhex h.toList
        | .error _ => List.replicate len 0
      return (addr, payload)) (← fld j "blocks")
  let voffs ← listOf jNat (← fld j "voffs")
  let withData := (bool j "with_data").toOption.getD false
  let L : Layout := blocks
  let res := voffs.map (fun v =>
    obj [("pos", jopt jn (resolve L v)),
         ("line", if withData then jopt (fun l => js (String.ofList (l.map (fun b => Char.ofNat b.toNat)))) (readlineAt L v) else Json.null)])
  return obj [("wf", jb (WF L)), ("total", jn (stream L).length), ("results", Json.arr res.toArray)]

end Gaftools.Drv.Bgzf
