import Gaftools.Drv.Util
import Gaftools.Model.Cli
/-! driver op of the command-line layer: `cli.parse` (parse → validate → call, and the head of `view.run`) -/
namespace Gaftools.Drv.Cli
open Lean Gaftools.Drv Gaftools.Cli

def whyName : Why → String
  | .ambiguous => "ambiguous"
  | .expectedOneArgument => "expected-one-argument"
  | .ignoredExplicit => "ignored-explicit"
  | .invalidInt => "invalid-int"
  | .required => "required"
  | .unrecognized => "unrecognized"
  | .invalidChoice => "invalid-choice"
  | .noSubcommand => "no-subcommand"
  | .refused _ => "refused"

def pyValJson : PyVal → Json
  | .none => Json.null
  | .str s => js s
  | .int i => obj [("int", js (toString i))]          -- as decimal text: the value has no bound
  | .bool b => jb b
  | .list l => jl js l
  | .stdoutObject => obj [("object", js "sys.stdout")]

def headJson : Head → Json
  | .commandLineError m => obj [("kind", js "CommandLineError"), ("msg", js m)]
  | .assertionError => obj [("kind", js "AssertionError")]
  | .proceed ix => obj [("kind", js "proceed"), ("index", jopt js ix)]

def effectJson (e : Effect) : Json :=
  obj [("status", jopt jn e.status), ("records", jl js e.records), ("opened", jopt js e.opened)]

/-- op "cli.parse": {argv:[string..], env?: {fmt: null|bool, index_exists: bool}}
    → {covered, outcome: "call"|"usage"|"help"|"version", status: 0|2|null, why?, msg?, sub?, fn?, debug?, kwargs?: {name: value},
       rendered?: [string..] (the canonical command line of the accepted namespace), reparse?: bool (parsing it gives the same namespace),
       head?, effect? (with env)} -/
def opParse (j : Json) : R Json := do
  let argv ← listOf jStr (← fld j "argv")
  let base := [("covered", jb (covered argv))]
  let env : Option (Option Bool × Bool) := match (fld j "env").toOption with
    | some e => match (fld e "index_exists").toOption.bind (fun v => v.getBool?.toOption) with
      | some ix => some (((fld e "fmt").toOption.bind (fun v => v.getBool?.toOption)), ix)
      | none => none
    | none => none
  let eff := match env with
    | some (fmt, ix) => [("effect", effectJson (effect argv fmt ix))]
    | none => []
  match dispatch argv with
  | .exit0 v => return obj (base ++ [("outcome", js (if v then "version" else "help")), ("status", jn 0)] ++ eff)
  | .usage w =>
    let msg := match w with | .refused m => [("msg", js m)] | _ => []
    return obj (base ++ [("outcome", js "usage"), ("status", jn 2), ("why", js (whyName w))] ++ msg ++ eff)
  | .call debug c =>
    let extra := match parseArgs argv with
      | .ok p =>
        let r := render p.opts
        let hd := match env, p.opts with
          | some (fmt, ix), .view o => [("head", headJson (viewHead fmt o ix))]
          | _, _ => []
        [("sub", js p.opts.sub.name), ("rendered", jl js r),
         ("reparse", jb (match parseArgs r with | .ok q => q == ⟨false, p.opts⟩ | .error _ => false))] ++ hd
      | .error _ => []
    return obj (base ++ [("outcome", js "call"), ("status", Json.null), ("fn", js c.fn), ("debug", jb debug),
                         ("kwargs", obj (c.kwargs.map (fun (k, v) => (k, pyValJson v))))] ++ extra ++ eff)

end Gaftools.Drv.Cli
