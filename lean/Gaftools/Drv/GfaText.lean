import Gaftools.Drv.Util
import Gaftools.Model.GfaText
/-! driver op of the text level of GFA reading and writing: `gfa.parsetext` -/
namespace Gaftools.Drv.GfaText
open Lean Gaftools.Drv Gaftools.Gfa Gaftools.GfaText

def errName : PyErr → String
  | .shortS => "shortS"
  | .badTag => "badTag"
  | .badRank => "badRank"
  | .rankClash => "rankClash"
  | .shortL => "shortL"
  | .badOverlap => "badOverlap"
  | .badOrient => "badOrient"
  | .negOverlap => "negOverlap"

def clsName : PyClass → String
  | .assertionError => "AssertionError"
  | .valueError => "ValueError"
  | .notRaised => "-"

def jtag (t : Tag) : Json := Json.arr #[js t.name, js t.ty, js t.val]
def jside (b : Bool) : Json := jn (if b then 1 else 0)
/-- integers travel as decimal text (no bound) -/
def jint (i : Int) : Json := js (toString i)

/-- the overlaps of the token model are naturals; a file with a negative overlap is loaded through an injective recoding of the
    integers (`readGraph` only ever compares overlaps) and decoded in the dump -/
def enc (i : Int) : Nat := if 0 ≤ i then 2 * i.toNat else 2 * (-i).toNat - 1
def dec (n : Nat) : Int := if n % 2 == 0 then (n / 2 : Nat) else -(((n + 1) / 2 : Nat) : Int)

def jadj (ov : Nat → Int) (l : List Adj) : Json := jl (fun (e : Adj) => Json.arr #[js e.1, jside e.2.1, jint (ov e.2.2)]) l

def jgraph (ov : Nat → Int) (g : Graph) : Json :=
  obj [("nodes", jl (fun (n : Node) => obj [("id", js n.id), ("seq", js n.seq), ("tags", jl jtag n.tags),
                                          ("start", jadj ov n.startAdj), ("end", jadj ov n.endAdj)]) g.nodes),
       ("edge_tags", jl (fun (e : EdgeKey × List String) =>
          Json.arr #[Json.arr #[js e.1.1, jside e.1.2.1, js e.1.2.2.1, jside e.1.2.2.2], jl js e.2]) g.edgeTags)]

def jparsed (p : Parsed) : Json :=
  obj [("segs", jl (fun (s : SegLine) => obj [("id", js s.id), ("seq", js s.seq), ("tags", jl jtag s.tags)]) p.segs),
       ("links", jl (fun (l : LinkZ) => obj [("a", js l.a), ("da", jb l.da), ("b", js l.b), ("db", jb l.db), ("ov", jint l.ov),
                                            ("tags", jl js l.tags)]) p.links),
       ("contigs", jl (fun (c : String × Int) => Json.arr #[js c.1, jint c.2]) p.contigs),
       ("c2n", jl (fun (c : String × List String) => Json.arr #[js c.1, jl js c.2]) p.contigToNodes)]

/-- op "gfa.parsetext": {text, low_memory, tags?: [string..]}
    → {"err": kind, "cls": Python class}                                   when the model of `GFA(path, low_memory)` raises
    → {"ok": parsed file, "file": "ok" | "negOverlap", "graph": dump of `readGraph` of the parsed file,
       "written": the text `write_gfa()` of that graph gives (all nodes in order) | null}
    and, when `tags` is given, "tags": [`is_correct_tag` of each string] -/
def opParseText (j : Json) : R Json := do
  let text ← str j "text"
  let lm ← bool j "low_memory"
  let tags ← match (fld j "tags").toOption with
    | some v => listOf jStr v
    | none => pure []
  let tagsOut := [("tags", jl (fun (t : String) => jb (isCorrectTag t.toList)) tags)]
  match parseGfaFull text lm with
  | .error e => return obj ([("err", js (errName e)), ("cls", js (clsName e.cls))] ++ tagsOut)
  | .ok p =>
    match parseGfaText text lm with
    | .ok f =>
      let g := readGraph f lm
      let written := renderGfaText (writeGfa g (g.nodes.map (·.id)))
      return obj ([("ok", jparsed p), ("file", js "ok"), ("graph", jgraph (fun n => (n : Int)) g), ("written", js written)] ++ tagsOut)
    | .error e =>
      let f : GfaFile := ⟨p.segs, p.links.map (fun l => ⟨l.a, l.da, l.b, l.db, enc l.ov, l.tags⟩)⟩
      return obj ([("ok", jparsed p), ("file", js (errName e)), ("graph", jgraph dec (readGraph f lm)), ("written", Json.null)] ++ tagsOut)

end Gaftools.Drv.GfaText
