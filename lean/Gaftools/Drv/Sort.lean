import Gaftools.Drv.Util
import Gaftools.Model.Sort
import Gaftools.Spec.Sort
import Gaftools.Model.SortText
/-! driver ops for sort (C08, C09, C10) -/
namespace Gaftools.Drv.Sort
open Lean Gaftools.Drv Gaftools.Sort

def alnOf (j : Json) : R Aln := do
  return ⟨← int j "offset", ← int j "bo", ← int j "no", ← int j "start", (int j "inv").toOption.getD 0, (str j "sn").toOption.getD ""⟩

def alnJ (a : Aln) : Json :=
  obj [("offset", ji a.offset), ("bo", ji a.bo), ("no", ji a.no), ("start", ji a.start), ("inv", ji a.inv), ("sn", js a.sn)]

def nodeTagsOf (j : Json) : R (String × NodeTags) := do
  return (← str j "id", ⟨← str j "sn", ← int j "bo", ← int j "no", ← int j "sr"⟩)

def lookup (tbl : List (String × NodeTags)) (k : String) : Option NodeTags := (tbl.find? (·.1 == k)).map (·.2)

def stepOf (j : Json) : R Step := pairOf jBool jStr j

structure RecIn where
  steps : List Step
  plen : Int
  ps : Int
  pe : Int

def recOf (j : Json) : R RecIn := do
  return ⟨← listOf stepOf (← fld j "steps"), ← int j "plen", ← int j "ps", ← int j "pe"⟩

def errJ : Err → Json
  | .keyError => js "keyError" | .assertion => js "assertion" | .emptyPath => js "emptyPath"

/-- op "sort.cmp": {a, b} → comparator result (null = falls off the end) -/
def opCmp (j : Json) : R Json := do
  let a ← alnOf (← fld j "a"); let b ← alnOf (← fld j "b")
  return obj [("model", jopt ji (cmpGaf a b)), ("keyLe", jb (Spec.Sort.keyLeB a b))]

/-- op "sort.process": {nodes, rec, offset} → Aln of the model, and the independent spec's tags -/
def opProcess (j : Json) : R Json := do
  let tbl ← listOf nodeTagsOf (← fld j "nodes")
  let r ← recOf (← fld j "rec")
  let off ← int j "offset"
  let m := processAlignment (lookup tbl) r.steps r.plen r.ps r.pe off
  let sp := Spec.Sort.specAln (lookup tbl) r.steps r.plen r.ps r.pe off
  return obj [("model", match m with | .ok a => alnJ a | .error e => obj [("error", errJ e)]),
              ("spec", jopt alnJ sp)]

/-- op "sort.file": {nodes, recs, impl:[{ord, suffix}], gsi_impl:[[sn, firstOrd, lastOrd]]}
    model: list of (input ordinal, suffix) in output order + gsi (ordinals of the output sequence)
    spec_on_impl: impl output order is a permutation of the ordinals, pairwise `keyLe` on the *spec* keys, suffixes = spec tags,
    gsi entries = first/last output position per contig ≠ unknown -/
def opFile (j : Json) : R Json := do
  let tbl ← listOf nodeTagsOf (← fld j "nodes")
  let recs ← listOf recOf (← fld j "recs")
  let alnsE := recs.zipIdx.map (fun (r, i) => processAlignment (lookup tbl) r.steps r.plen r.ps r.pe (i : Nat))
  let specs := recs.zipIdx.map (fun (r, i) => Spec.Sort.specAln (lookup tbl) r.steps r.plen r.ps r.pe (i : Nat))
  let modelOk := alnsE.all (fun e => match e with | .ok _ => true | .error _ => false)
  let alns := alnsE.filterMap (fun e => match e with | .ok a => some a | .error _ => none)
  let out := outSuffixes alns
  let sns := (sortAlns alns).map (·.sn)
  let gsi := gsiIndex sns (fun i => i)
  -- implementation's output
  let impl ← listOf (fun x => do return ((← int x "ord"), (← str x "suffix"))) (← fld j "impl")
  let gsiImpl ← match (fld j "gsi_impl").toOption with
    | some (Json.null) => pure none
    | some g => some <$> listOf (fun x => do
        let a ← x.getArr?
        if h : a.size = 3 then return ((← a[0].getStr?), (← a[1].getNat?), (← a[2].getNat?)) else throw "gsi triple") g
    | none => pure none
  let specOk := Spec.Sort.specFile specs impl
  let gsiSpecOk := match gsiImpl with
    | none => true
    | some g => Spec.Sort.specGsi (impl.map (fun (o, _) => match specs[o.toNat]? with | some (some a) => a.sn | _ => "?")) g
  return obj [("model_ok", jb modelOk),
              ("model", jl (fun (o, s) => obj [("ord", ji o), ("suffix", js s)]) out),
              ("gsi_model", jl (fun (s, a, b) => Json.arr #[js s, jn a, jn b]) gsi),
              ("valid", jb (specs.all (·.isSome))),
              ("spec_keys", jl (fun s => match s with
                  | some a => Json.arr #[ji a.bo, ji a.no, ji a.start, ji a.inv]
                  | none => Json.null) specs),
              ("spec_on_impl", jb specOk), ("spec_gsi_on_impl", jb gsiSpecOk)]

end Gaftools.Drv.Sort

namespace Gaftools.Drv.Sort
open Lean Gaftools.Drv Gaftools.Sort

/-- op "sort.lines": {nodes, lines:[raw GAF lines]} → the lines the model writes (text layer included) -/
def opLines (j : Json) : R Json := do
  let tbl ← listOf nodeTagsOf (← fld j "nodes")
  let lines := (← listOf jStr (← fld j "lines")).map String.toList
  let out := Gaftools.SortText.sortLines (lookup tbl) lines
  return obj [("model", jopt (jl (fun l => js (String.ofList l))) out)]

end Gaftools.Drv.Sort
