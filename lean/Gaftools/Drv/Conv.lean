import Gaftools.Drv.Util
import Gaftools.Drv.Gfa
import Gaftools.Model.View
import Gaftools.Model.ConvText
import Gaftools.Spec.Conv
import Gaftools.Spec.Gaf
import Gaftools.Spec.View
/-! driver ops for coordinate conversion (C01, C02) and for index / view (C03, C04, C05) -/
namespace Gaftools.Drv.Conv
open Lean Gaftools.Drv Gaftools.Gaf Gaftools.Gfa Gaftools.Conv Gaftools.ConvText Gaftools.View Gaftools.Spec.Conv

def segsOf (t : GfaFile) : List RSeg :=
  t.segs.filterMap (fun s => do
    let sn ← tagVal s.tags "SN"
    let so ← tagInt s.tags "SO"
    let sr ← tagInt s.tags "SR"
    return ⟨s.id, s.seq.toList, sn, so, sr⟩)

/-- executable form of `ValidRGFA` (+ every segment carries SN/SO/SR and LN = |seq|) -/
def validRGFAB (t : GfaFile) (segs : List RSeg) : Bool :=
  segs.length == t.segs.length &&
  (segs.map (·.id)).eraseDups.length == segs.length &&
  segs.all (fun s => decide (0 ≤ s.so) && !s.seq.isEmpty) &&
  t.segs.all (fun s => tagInt s.tags "LN" == some (s.seq.length : Int)) &&
  segs.all (fun a => segs.all (fun b => !(a.sn == b.sn) || a == b || (decide (a.en ≤ b.so) || decide (b.en ≤ a.so)))) &&
  segs.all (fun a => segs.all (fun b => !(a.sn == b.sn) || a.sr == b.sr)) &&
  segs.all (fun a => !(a.sr == 0) || a.so == 0 || segs.any (fun b => b.sn == a.sn && b.en == a.so))

def spathOfItems (items : List SItem) : Option SPath :=
  match items with
  | [SItem.bare c] => some (.bare c)
  | l => (l.mapM (fun it => match it with
      | SItem.iv o c s e => some ((⟨c, s, e⟩ : SNode), o)
      | SItem.bare _ => none)).map SPath.ivs

/-- locus, path total and whether the path is stable, for a parsed record -/
def recLocus (segs : List RSeg) (r : Rec) : Option (List Char) × Option Int :=
  if isStable r.path then
    match (parseStableItems r.path).bind spathOfItems with
    | some (.bare c) => (locusS comp segs (.bare c) (r.strand == ['+']) r.ps r.pe, ctgLen segs c)
    | some (.ivs l) => (locusS comp segs (.ivs l) true r.ps r.pe, some (plenS l))
    | none => (none, none)
  else
    let steps := parseUnstableSteps r.path
    (locusU comp segs steps r.ps r.pe, plenU segs steps)

/-- is the (input) record inside the quantifier? -/
def recValid (segs : List RSeg) (r : Rec) : Bool :=
  if isStable r.path then
    match (parseStableItems r.path).bind spathOfItems with
    | some (.bare c) => (refNames segs).contains c && decide (r.ps < r.pe) && (match ctgLen segs c with | some l => decide ((r.pe : Int) ≤ l) && r.plen == l.toNat | none => false)
    | some (.ivs l) =>
      r.strand == ['+'] && !l.isEmpty && decide (r.ps ≤ r.pe) && decide ((r.pe : Int) ≤ plenS l) && (r.plen : Int) == plenS l &&
      -- every interval is exactly tiled by segments of its contig
      l.all (fun x => decide (x.1.s < x.1.e) &&
        (let inside := (refOf segs x.1.contig).filter (fun sg => decide (sg.so < x.1.e) && decide (x.1.s < sg.en))
         !inside.isEmpty && (inside.head?.map (·.so)) == some x.1.s && (inside.getLast?.map (·.en)) == some x.1.e &&
         (List.zip inside inside.tail).all (fun p => p.1.en == p.2.so)))
    | none => false
  else
    let steps := parseUnstableSteps r.path
    r.strand == ['+'] && !steps.isEmpty && steps.all (fun s => (findSeg segs s.2).isSome) &&
    plenU segs steps == some (r.plen : Int) && decide (r.ps ≤ r.pe) && decide (r.pe ≤ r.plen)

/-- the model's conversion of one parsed record -/
def convertModel (g : Graph) (dir : String) (r : Rec) : Option Str :=
  if dir == "stable" then
    (toStable (nodeTable g) (refContigs g) (contigLen g) (r.strand == ['+']) (parseUnstableSteps r.path) r.plen r.ps r.pe).map
      (fun (p, o) => emitConverted r (renderSPath p) o)
  else
    (parseStableItems r.path).bind (fun items =>
      (toUnstable (reference g) (r.strand == ['+']) items r.plen r.ps r.pe).map (fun (p, o) => emitConverted r (renderUPath p) o))

/-- C01 + C02 (column part) on one (input, output) pair -/
def specConv (segs : List RSeg) (rin ro : Rec) : Bool :=
  let (li, _) := recLocus segs rin
  let (lo, tot) := recLocus segs ro
  li.isSome && li == lo &&
  tot == some (ro.plen : Int) &&
  -- CIGAR reversed exactly when the strand flips
  (let flipped := rin.strand != ro.strand
   ro.cigar == (if flipped then reverseCigarStr rin.cigar else rin.cigar)) &&
  -- untouched columns and optional fields
  ro.qname == rin.qname && ro.qlen == rin.qlen && ro.qs == rin.qs && ro.qe == rin.qe && ro.nmatch == rin.nmatch &&
  ro.blen == rin.blen && ro.mapq == rin.mapq &&
  ro.tags.map (·.1) == rin.tags.map (·.1) &&
  ro.tags.filter (fun kv => kv.1 != cgKey) == rin.tags.filter (fun kv => kv.1 != cgKey)

/-- op "conv.file": {gfa, dir, lines_in:[..], lines_out:[..]|null} -/
def opFile (j : Json) : R Json := do
  let t ← Gaftools.Drv.Gfa.gfaOf (← fld j "gfa")
  let dir ← str j "dir"
  let linesIn := (← listOf jStr (← fld j "lines_in")).map String.toList
  let linesOut : Option (List Str) := match (fld j "lines_out").toOption with
    | some Json.null => none
    | some a => (listOf jStr a).toOption.map (·.map String.toList)
    | none => none
  let g := readGraph t true
  let segs := segsOf t
  let gvalid := validRGFAB t segs
  let recs := linesIn.map parseLine
  let res := recs.zipIdx.map (fun (ro?, i) =>
    match ro? with
    | none => obj [("valid", jb false)]
    | some rin =>
      let model := convertModel g dir rin
      let out := linesOut.bind (fun l => l[i]?)
      let outRec := out.bind parseLine
      let valid := gvalid && recValid segs rin && Gaftools.Spec.Gaf.wfFields (splitTab (rstrip (linesIn.getD i [])))
      let ok := match outRec with
        | some ro => specConv segs rin ro
        | none => false
      obj [("valid", jb valid), ("model", jopt (fun s => js (String.ofList s)) model), ("spec_on_impl", jb ok),
           ("locus", jopt (fun s => js (String.ofList s)) (recLocus segs rin).1),
           ("out_is_canonical_input", jb (match outRec with | some ro => recValid segs ro | none => false))])
  return obj [("graph_valid", jb gvalid), ("count_ok", jb (match linesOut with | some l => l.length == linesIn.length | none => false)),
              ("results", Json.arr res.toArray)]

end Gaftools.Drv.Conv

namespace Gaftools.Drv.View
open Lean Gaftools.Drv Gaftools.Gaf Gaftools.Gfa Gaftools.Conv Gaftools.ConvText Gaftools.View Gaftools.Spec.View

def recPathOf (stable : Bool) (line : Str) : Option RecPath :=
  match parseLine line with
  | none => none
  | some r =>
    if stable then (parseStableItems r.path).map (fun items => RecPath.stable items r.ps r.pe)
    else some (RecPath.unstable (parseUnstableSteps r.path))

def idxOf (j : Json) : R (List (Key × List Nat)) :=
  listOf (fun e => do
    let a ← e.getArr?
    if h : a.size = 5 then
      return ((← a[0].getStr?, ← a[1].getStr?, ← a[2].getInt?, ← a[3].getInt?), ← listOf jNat a[4])
    else throw "index entry") j

def idxJ (idx : List (Key × List Nat)) : Json :=
  jl (fun e => Json.arr #[js e.1.1, js e.1.2.1, ji e.1.2.2.1, ji e.1.2.2.2, jl jn e.2]) idx

/-- op "view.index": {gfa, stable, lines, impl_index|null} -/
def opIndex (j : Json) : R Json := do
  let t ← Gaftools.Drv.Gfa.gfaOf (← fld j "gfa")
  let stable ← bool j "stable"
  let lines := (← listOf jStr (← fld j "lines")).map String.toList
  let g := readGraph t true
  let recsO := lines.map (recPathOf stable)
  let recs := recsO.filterMap id
  let model := buildIndex g recs
  let impl ← match (fld j "impl_index").toOption with
    | some Json.null => pure none
    | some a => some <$> idxOf a
    | none => pure none
  let ok := match impl with
    | some idx => specIndex (infos g) recs idx
    | none => false
  return obj [("parsed", jb (recsO.all (·.isSome))), ("model", jopt idxJ model), ("spec_on_impl", jb ok)]

def regionOf (j : Json) : R (String × Int × Int) := do
  let a ← j.getArr?
  if h : a.size = 3 then return (← a[0].getStr?, ← a[1].getInt?, ← a[2].getInt?) else throw "region"

/-- op "view.select": {gfa, stable, lines, nodes:[..]|null, regions:[[c,a,b]..]|null, impl: [ord..] | "none" | "crash"} -/
def opSelect (j : Json) : R Json := do
  let t ← Gaftools.Drv.Gfa.gfaOf (← fld j "gfa")
  let stable ← bool j "stable"
  let lines := (← listOf jStr (← fld j "lines")).map String.toList
  let g := readGraph t true
  let recs := (lines.map (recPathOf stable)).filterMap id
  let nodesQ := (fld j "nodes").toOption.bind (fun v => (listOf jStr v).toOption)
  let regionsQ := (fld j "regions").toOption.bind (fun v => (listOf regionOf v).toOption)
  let idx := (buildIndex g recs).getD []
  let model := match nodesQ, regionsQ with
    | some ns, _ => selectNodes idx ns
    | none, some rs => selectRegions idx rs
    | none, none => .error .noAlignments
  let infos := infos g
  let (expA, expB) := match nodesQ, regionsQ with
    | some ns, _ => (expectedNodes infos recs ns, expectedNodes infos recs ns)
    | none, some rs => (expectedRegions infos recs rs true, expectedRegions infos recs rs false)
    | none, none => ([], [])
  let implOrds : Option (List Nat) := (fld j "impl").toOption.bind (fun v => (listOf jNat v).toOption)
  let implNone := (optStr j "impl") == some "none"
  let ok := match implOrds with
    | some l => (l == expA && !expA.isEmpty) || (l == expB && !expB.isEmpty)
    | none => implNone && (expA.isEmpty || expB.isEmpty)
  let modelJ := match model with
    | .ok l => jl jn l
    | .error _ => js "none"
  return obj [("model", modelJ), ("expected", jl jn expA), ("expected_open", jl jn expB), ("spec_on_impl", jb ok)]

end Gaftools.Drv.View
