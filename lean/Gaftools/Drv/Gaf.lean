import Gaftools.Drv.Util
import Gaftools.Model.Gaf
import Gaftools.Model.Phase
import Gaftools.Model.Stat
import Gaftools.Spec.Gaf
import Gaftools.Spec.Phase
import Gaftools.Spec.Stat
/-! driver ops for the per-record text properties C16, C19, C20 -/
namespace Gaftools.Drv.Gaf
open Lean Gaftools.Drv Gaftools.Gaf

def sl (s : String) : Str := s.toList
def ls (s : Str) : String := String.ofList s
def jstr (s : Str) : Json := js (ls s)

/-- op "gaf.print_parse": {line, impl} — impl = what the implementation printed for the parsed line (or null = crash) -/
def opPrintParse (j : Json) : R Json := do
  let line := sl (← str j "line")
  let impl := (optStr j "impl").map sl
  let fs := splitTab (rstrip line)
  let valid := Spec.Gaf.wfFields fs
  let norep := Spec.Gaf.noRepeatedTag fs
  let model := (parseLine line).map printRec
  let exp := joinTab (Spec.Gaf.expected fs)
  let expK1 := joinTab (Spec.Gaf.expectedK1 fs)
  return obj [("valid", jb valid), ("norep", jb norep), ("model", jopt jstr model), ("expected", jstr exp), ("expectedK1", jstr expK1),
              ("spec_on_impl", jb (impl == some exp)), ("k1_on_impl", jb (impl == some expK1)),
              ("no_invented", jb (match impl with
                 | some o => ((splitTab o).drop 12).all (fun f => (fs.drop 12).contains f)
                 | none => false))]

/-- op "gaf.parse": {line} → the parsed record (for C19/C12 glue checks) -/
def recJ (r : Rec) : Json :=
  obj [("qname", jstr r.qname), ("qlen", jn r.qlen), ("qs", jn r.qs), ("qe", jn r.qe), ("strand", jstr r.strand), ("path", jstr r.path),
       ("plen", jn r.plen), ("ps", jn r.ps), ("pe", jn r.pe), ("nmatch", jn r.nmatch), ("blen", jn r.blen), ("mapq", jn r.mapq),
       ("is_primary", jb r.isPrimary), ("cigar", jstr r.cigar), ("tags", jl (fun kv => Json.arr #[jstr kv.1, jstr kv.2]) r.tags)]

def opParse (j : Json) : R Json := do
  let line := sl (← str j "line")
  return obj [("model", jopt recJ (parseLine line))]

/-- op "phase.file": {tsv:[..], gaf:[..], impl:[..]|null} -/
def opPhase (j : Json) : R Json := do
  let tsv := (← listOf jStr (← fld j "tsv")).map sl
  let gaf := (← listOf jStr (← fld j "gaf")).map sl
  let impl : Option (List Str) := match (fld j "impl").toOption with
    | some Json.null => none
    | some a => (listOf jStr a).toOption.map (·.map sl)
    | none => none
  let model := Phase.phaseFile tsv gaf
  let es := tsv.filterMap Phase.parseTsvLine
  let fss := gaf.map (fun l => splitTab (rstrip l))
  let valid := fss.all (fun fs => Spec.Gaf.wfFields fs && Spec.Gaf.noRepeatedTag fs) && es.length == tsv.length &&
               es.all Spec.Phase.wfEntry
  let specOk := match impl with
    | none => false
    | some out => out.length == gaf.length &&
        (List.zip fss out).all (fun (fs, o) => Spec.Phase.specRecord es fs (splitTab o))
  return obj [("valid", jb valid), ("model", jopt (jl jstr) model), ("spec_on_impl", jb specOk),
              ("spec", jl (fun fs => jstr (joinTab (Spec.Phase.specFields es fs))) fss)]

def ratJ (q : Rat) : Json := Json.arr #[ji q.num, jn q.den]

/-- op "stat.run": {lines:[..], cigar:bool} → model figures and the independent spec's figures (exact rationals as [num, den]) -/
def opStat (j : Json) : R Json := do
  let lines := (← listOf jStr (← fld j "lines")).map sl
  let cig ← bool j "cigar"
  let recsO := lines.map parseLine
  let parsed := recsO.all (·.isSome)
  let recs := recsO.filterMap id
  let s := Stat.run cig recs
  let prim := Spec.Stat.primaries recs
  let valid := parsed && prim.all (fun r => r.qlen > 0 && r.blen > 0) && !prim.isEmpty
  let names := Spec.Stat.readNames recs
  let specAvgId := Stat.sumRat (names.map (Spec.Stat.bestId recs)) / (names.length : Int)
  let specAvgRatio := Stat.sumRat (names.map (Spec.Stat.bestRatio recs)) / (names.length : Int)
  let cg (c : Stat.CigarCounts) : Json := Json.arr #[jn c.del, jn c.delL, jn c.ins, jn c.insL, jn c.x, jn c.xL, jn c.m, jn c.mL, jn c.perfect]
  let specCig : Json := Json.arr #[jn (Spec.Stat.events 'D' recs), jn (Spec.Stat.large 'D' recs), jn (Spec.Stat.events 'I' recs), jn (Spec.Stat.large 'I' recs),
      jn (Spec.Stat.events 'X' recs), jn (Spec.Stat.large 'X' recs), jn (Spec.Stat.events '=' recs), jn (Spec.Stat.large '=' recs), jn (Spec.Stat.perfect recs)]
  return obj [("valid", jb valid),
    ("model", obj [("total", jn s.total), ("primary", jn s.primary), ("secondary", jn s.secondary), ("reads", jn s.reads.length),
                   ("bases", jn s.bases), ("avg_id", ratJ (Stat.avgBestId s)), ("avg_ratio", ratJ (Stat.avgBestRatio s)),
                   ("avg_mapq", ratJ (Stat.avgMapq s)), ("cigar", cg s.cig)]),
    ("spec", obj [("total", jn (Spec.Stat.total recs)), ("primary", jn (Spec.Stat.primary recs)), ("secondary", jn (Spec.Stat.secondary recs)),
                  ("reads", jn names.length), ("bases", jn (Spec.Stat.bases recs)), ("avg_id", ratJ specAvgId), ("avg_ratio", ratJ specAvgRatio),
                  ("cigar", specCig)])]

end Gaftools.Drv.Gaf
