import Gaftools.Drv.Util
import Gaftools.Drv.Gfa
import Gaftools.Model.Order
import Gaftools.Spec.Order
/-! driver ops for order_gfa (C06, C07, C18) -/
namespace Gaftools.Drv.Order
open Lean Gaftools.Drv Gaftools.Gfa Gaftools.Algo Gaftools.View Gaftools.Order Gaftools.Spec.Order Gaftools.Spec.Graph

def tagsOfFile (tout : GfaFile) (v : V) : Option (Int × Int) :=
  (tout.segs.find? (·.id == v)).bind (fun s => do
    let b ← tagInt s.tags "BO"
    let n ← tagInt s.tags "NO"
    return (b, n))

/-- op "order.run": {gfa, order:[..], with_seq, impl: [{name, out: gfa tokens | null}]}  (impl lists every requested
    chromosome in request order with its output file or null when skipped) -/
def opRun (j : Json) : R Json := do
  let t ← Gaftools.Drv.Gfa.gfaOf (← fld j "gfa")
  let order ← listOf jStr (← fld j "order")
  let withSeq ← bool j "with_seq"
  let g := readGraph t (!withSeq)
  let nb := Graph.nbFun g
  let vs := Graph.ids g
  let comps := allComponents nb vs
  let named := nameComps (snOf t) comps
  let compOf (c : String) : List V := compOfName t (!withSeq) c
  let model := orderRun t order (!withSeq)
  let impl ← listOf (fun x => do
      let name ← str x "name"
      let out ← match (fld x "out").toOption with
        | some Json.null => pure none
        | some o => some <$> Gaftools.Drv.Gfa.gfaOf o
        | none => pure none
      return (name, out)) (← fld j "impl")
  -- spec, chromosome by chromosome, threading the expected first BO through the implementation's own written ranges
  let step (acc : Int × List Json) (p : String × Option GfaFile) : Int × List Json :=
    let (lo, outs) := acc
    let comp := compOf p.1
    let ch := chainOf nb comp
    let linear := comp.length == 1 || isLinear ch
    let naps := ch.aps.length
    let singleSN := ((ch.aps.map (snOf t)).eraseDups).length ≤ 1
    match p.2 with
    | none =>
      -- skipped: allowed iff not a simple chain, or fewer than two articulation points (the property leaves that case open)
      (lo, outs ++ [obj [("name", js p.1), ("written", jb false), ("linear", jb linear), ("aps", jn naps),
                         ("single_sn", jb singleSN),
                         ("ok", jb (!linear || !singleSN || (naps < 2 && comp.length != 1)))]])
    | some tout =>
      let tag := tagsOfFile tout
      let n : Int := if comp.length == 1 then 1 else ((ch.aps.length + ch.bubbles.length : Nat) : Int)
      let chainOk := if comp.length == 1 then (match comp with | [v] => tag v == some (lo, 0) | _ => false)
                     else chainSpecB nb comp (soOf t) tag lo
      let fileOk := specWritten t comp tag withSeq tout
      let maxBo := (comp.filterMap (fun v => (tag v).map (·.1))).foldl max (lo - 1)
      let _ := n
      (maxBo + 1, outs ++ [obj [("name", js p.1), ("written", jb true), ("linear", jb linear), ("aps", jn naps),
                             ("chain_ok", jb chainOk), ("file_ok", jb fileOk), ("lo", ji lo), ("single_sn", jb singleSN),
                             ("ok", jb (linear && chainOk && fileOk)),
                             ("roles", jl (fun v => Json.arr #[js v, js (if ch.aps.contains v || comp.length == 1 then "orange" else "blue")]) comp)]])
  -- "big": only the model is evaluated (the definition-level specification is cubic in the size of a component)
  let big := (bool j "big").toOption.getD false
  let (_, res) := if big then ((0 : Int), ([] : List Json)) else impl.foldl step (0, [])
  let modelJ := match model with
    | .ok (ws, next) => obj [("written", jl (fun (w : Written) => obj [("name", js w.name),
          ("tags", jl (fun (x : V × Int × Int) => Json.arr #[js x.1, ji x.2.1, ji x.2.2]) (w.tags.mergeSort (fun a b => decide (a.1 ≤ b.1))))]) ws), ("next", ji next)]
    | .error w => obj [("crash", js w)]
  -- the files of the model (`orderFiles`): S lines in order (id, sequence, tags), L lines as written
  let fileJ (f : GfaFile) : Json := obj [
    ("segs", jl (fun (x : SegLine) => Json.arr #[js x.id, js x.seq, jl (fun (tg : Tag) => js (tg.name ++ ":" ++ tg.ty ++ ":" ++ tg.val)) x.tags]) f.segs),
    ("links", jl (fun (l : LinkLine) => Json.arr #[js l.a, jb l.da, js l.b, jb l.db, jn l.ov, jl js l.tags]) f.links)]
  let filesJ : Json := if big then Json.null else match orderFiles t order (!withSeq) with
    | .ok fs => jl (fun (p : String × GfaFile) => obj [("name", js p.1), ("file", fileJ p.2)]) fs
    | .error _ => Json.null
  return obj [("components", jl (fun (p : String × List V) => Json.arr #[js p.1, jl js (sortStrings p.2)]) named),
              ("model", modelJ), ("model_files", filesJ), ("spec", Json.arr res.toArray)]

end Gaftools.Drv.Order
