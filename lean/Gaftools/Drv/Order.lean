import Gaftools.Drv.Util
import Gaftools.Drv.Gfa
import Gaftools.Model.Order
import Gaftools.Spec.Order
/-! driver ops for order_gfa (C06, C07, C18) -/
namespace Gaftools.Drv.Order
open Lean Gaftools.Drv Gaftools.Gfa Gaftools.Algo Gaftools.View Gaftools.Order Gaftools.Spec.Order Gaftools.Spec.Graph

def tagsOfFile (tout : GfaFile) (v : V) : Option (Int × Int) :=
  (tout.segs.find? (·.id == v)).bind (fun s => do
    let b ← tagInt s.tags "BO"
    let n ← tagInt s.tags "NO"
    return (b, n))

/-- op "order.run": {gfa, order:[..], with_seq, impl: [{name, out: gfa tokens | null}]}  (impl lists every requested
    chromosome in request order with its output file or null when skipped) -/
def opRun (j : Json) : R Json := do
  let t ← Gaftools.Drv.Gfa.gfaOf (← fld j "gfa")
  let order ← listOf jStr (← fld j "order")
  let withSeq ← bool j "with_seq"
  let g := readGraph t (!withSeq)
  let nb := Graph.nbFun g
  let vs := Graph.ids g
  let comps := allComponents nb vs
  let named := nameComps (snOf t) comps
  let compOf (c : String) : List V := compOfName t (!withSeq) c
  let model := orderRun t order (!withSeq)
  let impl ← listOf (fun x => do
      let name ← str x "name"
      let out ← match (fld x "out").toOption with
        | some Json.null => pure none
        | some o => some <$> Gaftools.Drv.Gfa.gfaOf o
        | none => pure none
      return (name, out)) (← fld j "impl")
  -- spec, chromosome by chromosome, threading the expected first BO through the implementation's own written ranges
  let step (acc : Int × List Json) (p : String × Option GfaFile) : Int × List Json :=
    let (lo, outs) := acc
    let comp := compOf p.1
    let ch := chainOf nb comp
    let linear := comp.length == 1 || isLinear ch
    let naps := ch.aps.length
    let singleSN := ((ch.aps.map (snOf t)).eraseDups).length ≤ 1
    match p.2 with
    | none =>
      -- skipped: allowed iff not a simple chain, or fewer than two articulation points (the property leaves that case open), or
      -- a chain whose scaffold nodes in reference order do not follow it (no assignment can meet the specification)
      let refOrd := refOrdered ch (soOf t)
      (lo, outs ++ [obj [("name", js p.1), ("written", jb false), ("linear", jb linear), ("aps", jn naps),
                         ("single_sn", jb singleSN), ("ref_ordered", jb refOrd),
                         ("ok", jb (!linear || !singleSN || !refOrd || (naps < 2 && comp.length != 1)))]])
    | some tout =>
      let tag := tagsOfFile tout
      let n : Int := if comp.length == 1 then 1 else ((ch.aps.length + ch.bubbles.length : Nat) : Int)
      let chainOk := if comp.length == 1 then (match comp with | [v] => tag v == some (lo, 0) | _ => false)
                     else chainSpecB nb comp (soOf t) tag lo
      let fileOk := specWritten t comp tag withSeq tout
      let maxBo := (comp.filterMap (fun v => (tag v).map (·.1))).foldl max (lo - 1)
      let _ := n
      (maxBo + 1, outs ++ [obj [("name", js p.1), ("written", jb true), ("linear", jb linear), ("aps", jn naps),
                             ("chain_ok", jb chainOk), ("file_ok", jb fileOk), ("lo", ji lo), ("single_sn", jb singleSN),
                             ("ok", jb (linear && chainOk && fileOk)),
                             ("roles", jl (fun v => Json.arr #[js v, js (if ch.aps.contains v || comp.length == 1 then "orange" else "blue")]) comp)]])
  -- "big": only the model is evaluated (the definition-level specification is cubic in the size of a component)
  let big := (bool j "big").toOption.getD false
  let (_, res) := if big then ((0 : Int), ([] : List Json)) else impl.foldl step (0, [])
  let modelJ := match model with
    | .ok (ws, next) => obj [("written", jl (fun (w : Written) => obj [("name", js w.name),
          ("tags", jl (fun (x : V × Int × Int) => Json.arr #[js x.1, ji x.2.1, ji x.2.2]) (w.tags.mergeSort (fun a b => decide (a.1 ≤ b.1))))]) ws), ("next", ji next)]
    | .error w => obj [("crash", js w)]
  -- the files of the model (`orderFiles`): S lines in order (id, sequence, tags), L lines as written
  let fileJ (f : GfaFile) : Json := obj [
    ("segs", jl (fun (x : SegLine) => Json.arr #[js x.id, js x.seq, jl (fun (tg : Tag) => js (tg.name ++ ":" ++ tg.ty ++ ":" ++ tg.val)) x.tags]) f.segs),
    ("links", jl (fun (l : LinkLine) => Json.arr #[js l.a, jb l.da, js l.b, jb l.db, jn l.ov, jl js l.tags]) f.links)]
  let filesJ : Json := if big then Json.null else match orderFiles t order (!withSeq) with
    | .ok fs => jl (fun (p : String × GfaFile) => obj [("name", js p.1), ("file", fileJ p.2)]) fs
    | .error _ => Json.null
  return obj [("components", jl (fun (p : String × List V) => Json.arr #[js p.1, jl js (sortStrings p.2)]) named),
              ("model", modelJ), ("model_files", filesJ), ("spec", Json.arr res.toArray)]

/-- op "order.command": {gfa, option, with_seq, impl_csv: [{name, rows}] | null, impl_complete: gfa tokens | null}
    — the whole command from the raw `--chromosome_order` option: the resolved request (null = rejected, exit 1), the CSV rows
    of every written chromosome, the `-complete` GFA and CSV; the CSV / complete specifications evaluated on the tool's own
    output when given -/
def opCommand (j : Json) : R Json := do
  let t ← Gaftools.Drv.Gfa.gfaOf (← fld j "gfa")
  let option ← str j "option"
  let withSeq ← bool j "with_seq"
  let lm := !withSeq
  let fileJ (f : GfaFile) : Json := obj [
    ("segs", jl (fun (x : SegLine) => Json.arr #[js x.id, js x.seq, jl (fun (tg : Tag) => js (tg.name ++ ":" ++ tg.ty ++ ":" ++ tg.val)) x.tags]) f.segs),
    ("links", jl (fun (l : LinkLine) => Json.arr #[js l.a, jb l.da, js l.b, jb l.db, jn l.ov, jl js l.tags]) f.links)]
  let names := componentNames t lm
  match resolveOrder names option with
  | none => return obj [("names", jl js names), ("resolved", Json.null)]
  | some order =>
    match orderRun t order lm with
    | .error w => return obj [("names", jl js names), ("resolved", jl js order), ("crash", js w)]
    | .ok (ws, _) =>
      let g := readGraph t lm
      let outs := ws.map (fun w => (w, orderFile g w, orderCsv g w (compOfName t lm w.name)))
      let complete := completeGfa (outs.map (·.2.1))
      let ccsv := completeCsv (outs.map (·.2.2))
      -- specifications on the implementation's own output
      let implCsv : List (String × List (List String) × GfaFile) ← match (fld j "impl_csv").toOption with
        | some Json.null | none => pure []
        | some a => listOf (fun x => do
            return (← str x "name", ← listOf (listOf jStr) (← fld x "rows"), ← Gaftools.Drv.Gfa.gfaOf (← fld x "out"))) a
      let nb := Graph.nbFun g
      -- role: orange = cut vertex of the component by definition (the only node of a one-node component counts as scaffold);
      -- BO / NO: those of the GFA file the tool wrote next to the CSV
      let csvSpec := implCsv.map (fun (p : String × List (List String) × GfaFile) =>
        let comp := compOfName t lm p.1
        let ch := chainOf nb comp
        (p.1, specCsv t comp (tagsOfFile p.2.2) (fun v => if comp.length == 1 then true else ch.aps.contains v) p.2.1))
      let implComplete ← match (fld j "impl_complete").toOption with
        | some Json.null | none => pure none
        | some o => some <$> Gaftools.Drv.Gfa.gfaOf o
      let tagRun (v : V) : Option (Int × Int) := (ws.findSome? (fun w => (w.tags.find? (·.1 == v)))).map (·.2)
      let completeSpec := implComplete.map (fun f => specComplete (outs.map (·.2.1)) tagRun f)
      return obj [("names", jl js names), ("resolved", jl js order),
                  ("csv", jl (fun (x : Written × GfaFile × List (List String)) => obj [("name", js x.1.name), ("rows", jl (jl js) x.2.2)]) outs),
                  ("complete", fileJ complete), ("complete_csv", jl (jl js) ccsv),
                  ("csv_spec", jl (fun (p : String × Bool) => Json.arr #[js p.1, jb p.2]) csvSpec),
                  ("complete_spec", match completeSpec with | some b => jb b | none => Json.null)]

end Gaftools.Drv.Order
