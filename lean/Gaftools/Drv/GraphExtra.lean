import Gaftools.Drv.Gfa
import Gaftools.Model.GraphExtra
/-! driver op `graph.extra`: the helpers of `gfa.py` modelled in `Model/GraphExtra.lean`, request by request on one `GFA` object
    (`remove_lonely` changes the object for the requests after it, as the Python method does) -/
namespace Gaftools.Drv.GraphExtra
open Lean Gaftools.Drv Gaftools.Gfa Gaftools.GraphExtra Gaftools.Drv.Gfa Gaftools.Drv.Graph

def errName : PyErr → String
  | .valueError => "ValueError"
  | .indexError => "IndexError"
  | .keyError => "KeyError"
  | .attributeError => "AttributeError"
  | .exit => "exit"

def jres (f : α → Json) : Except PyErr α → Json
  | .ok a => obj [("ok", f a)]
  | .error e => obj [("err", js (errName e))]

def tagJ (t : Tag) : Json := Json.arr #[js t.name, js t.ty, js t.val]

/-- the whole object: nodes in dict order, adjacency sets sorted, tags in dict order, the contig table -/
def gfaJ (x : GFA) : Json :=
  obj [("nodes", jl (fun n => obj [("id", js n.id), ("seq", js n.seq), ("start", jl adjJ (sortAdj n.startAdj)),
                                    ("end", jl adjJ (sortAdj n.endAdj)), ("tags", jl tagJ n.tags)]) x.g.nodes),
       ("contigs", jl (fun e => Json.arr #[js e.1, jl js e.2]) x.contigToNodes)]

/-- `self.nodes[id]` of the harness' own lookups (`KeyError` for an unknown id) -/
def nodeOf (x : GFA) (id : String) : Except PyErr Node :=
  match x.g.find id with
  | some n => .ok n
  | none => .error .keyError

/-- one request; returns the reply and the object afterwards -/
def request (lm : Bool) (x : GFA) (j : Json) : R (Json × GFA) := do
  match ← str j "k" with
  | "children" =>
    let id ← str j "id"; let d ← int j "d"
    return (jres (fun l => jl js (sortStrings l)) (do let n ← nodeOf x id; n.children d), x)
  | "in_direction" =>
    let id ← str j "id"; let o ← str j "other"; let d ← int j "d"
    return (jres jb (do let n ← nodeOf x id; n.inDirection o d), x)
  | "remove_lonely" =>
    let y := x.removeLonely
    return (obj [("ok", gfaJ y)], y)
  | "graph_from_comp" =>
    let comp ← listOf jStr (← fld j "comp")
    return (jres gfaJ (x.graphFromComp comp), x)
  | "from_comp_eq" =>
    -- `self.graph_from_comp(comp).is_equal_to(self, topo)` and the other way round
    let comp ← listOf jStr (← fld j "comp"); let topo ← bool j "topo"
    return (jres (fun y => Json.arr #[jb (y.isEqualTo x topo), jb (x.isEqualTo y topo)]) (x.graphFromComp comp), x)
  | "list_is_path" =>
    let l ← listOf jStr (← fld j "nodes")
    return (jres jb (listIsPath x.g l), x)
  | "get_path" =>
    let c ← str j "chrom"; let tw ← bool j "tw"
    return (jres (jl js) (x.getPath c tw), x)
  | "contig_length" =>
    let c ← str j "chrom"; let tw ← bool j "tw"
    return (jres ji (x.getContigLength c tw), x)
  | "return_gfa_path" =>
    let l ← listOf jStr (← fld j "nodes")
    return (jres js (returnGfaPath x.g l), x)
  | "graph_eq" =>
    let o ← gfaOf (← fld j "other"); let topo ← bool j "topo"
    let y := readGFA o lm
    return (obj [("ok", Json.arr #[jb (x.isEqualTo y topo), jb (y.isEqualTo x topo)])], x)
  | "node_eq" =>
    let o ← gfaOf (← fld j "other"); let topo ← bool j "topo"
    let a ← str j "id"; let b ← str j "oid"
    let y := readGFA o lm
    return (jres jb (do let n ← nodeOf x a; let m ← nodeOf y b; pure (n.isEqualTo m topo)), x)
  | "dump" => return (obj [("ok", gfaJ x)], x)
  | k => throw s!"graph.extra: unknown request {k}"

/-- op "graph.extra": {gfa, low_memory?, requests:[{k:…}…]} → {results:[{ok:…}|{err:…}…]} -/
def opExtra (j : Json) : R Json := do
  let t ← gfaOf (← fld j "gfa")
  let lm := ((fld j "low_memory").toOption.bind (fun v => v.getBool?.toOption)).getD false
  let reqs ← arr j "requests"
  let mut x := readGFA t lm
  let mut out : Array Json := #[]
  for r in reqs do
    let (rep, y) ← request lm x r
    out := out.push rep
    x := y
  return obj [("results", Json.arr out)]

end Gaftools.Drv.GraphExtra
