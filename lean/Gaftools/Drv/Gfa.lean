import Gaftools.Drv.Util
import Gaftools.Model.Gfa
import Gaftools.Spec.Walk
import Gaftools.Spec.Graph
import Gaftools.Model.Hist
/-! driver ops on graphs: C14 (walks); decoding of GFA files shared with the other graph properties -/
namespace Gaftools.Drv.Gfa
open Lean Gaftools.Drv Gaftools.Gfa

def tagOf (j : Json) : R Tag := do
  let a ← j.getArr?
  if h : a.size = 3 then return ⟨← a[0].getStr?, ← a[1].getStr?, ← a[2].getStr?⟩ else throw "tag triple expected"

def segOf (j : Json) : R SegLine := do
  return ⟨← str j "id", ← str j "seq", ← listOf tagOf (← fld j "tags")⟩

def linkOf (j : Json) : R LinkLine := do
  return ⟨← str j "a", ← bool j "da", ← str j "b", ← bool j "db", ← nat j "ov", ← listOf jStr (← fld j "tags")⟩

def gfaOf (j : Json) : R GfaFile := do
  return ⟨← listOf segOf (← fld j "segs"), ← listOf linkOf (← fld j "links")⟩

def stepOf (j : Json) : R Step := pairOf jBool jStr j

/-- op "walk.extract": {gfa, paths:[[step..]..], impl:[string|null ..]} -/
def opExtract (j : Json) : R Json := do
  let t ← gfaOf (← fld j "gfa")
  let paths ← listOf (listOf stepOf) (← fld j "paths")
  let impl ← listOf (fun x => match x with | Json.null => pure none | v => some <$> v.getStr?) (← fld j "impl")
  let g := readGraph t
  let unique := (t.segs.map (·.id)).eraseDups.length == t.segs.length
  let res := (List.zip paths impl).map (fun (p, im) =>
    let valid := unique && p.all (fun s => Spec.Walk.hasSeg t s.2)
    let exp := Spec.Walk.expected t p
    obj [("valid", jb valid), ("model", jopt js (extractPath g p)), ("expected", js exp),
         ("is_walk", jb (Spec.Walk.isWalkB t p)),
         ("rev_expected", js (Spec.Walk.expected t (Spec.Walk.revSteps p))),
         ("spec_on_impl", jb (im == some exp))])
  return obj [("results", Json.arr res.toArray)]

end Gaftools.Drv.Gfa

namespace Gaftools.Drv.Graph
open Lean Gaftools.Drv Gaftools.Gfa Gaftools.Algo Gaftools.Spec.Graph Gaftools.Hist Gaftools.Drv.Gfa

def canonSets (l : List (List String)) : List (List String) := sortListList (l.map sortStrings)
where
  sortListList (l : List (List String)) : List (List String) := l.mergeSort (fun a b => decide (a ≤ b))

def jsets (l : List (List String)) : Json := jl (jl js) (canonSets l)

/-- op "graph.algos": {gfa, starts:[..], impl:{components:[[..]], dfs:[[..]..], biccs:{comps, aps}|null}}
    connected components, dfs from each start, and (when the graph is connected with >= 2 nodes) biccs -/
def opAlgos (j : Json) : R Json := do
  let t ← gfaOf (← fld j "gfa")
  let g := readGraph t true
  let nb := Graph.nbFun g
  let vs := Graph.ids g
  let starts ← listOf jStr (← fld j "starts")
  let impl ← fld j "impl"
  let implComps ← listOf (listOf jStr) (← fld impl "components")
  let implDfs ← listOf (listOf jStr) (← fld impl "dfs")
  let comps := allComponents nb vs
  -- spec: partition into reachability classes (class computed from the definition for every node)
  let specComps := (vs.map (fun v => sortStrings (classOf nb vs v))).eraseDups
  let compsOk := canonSets implComps == canonSets specComps &&
                 implComps.all (fun c => c.eraseDups.length == c.length)
  let dfsModel := starts.map (dfs nb vs)
  let dfsOk := (List.zip starts implDfs).all (fun (s, d) =>
      d.eraseDups.length == d.length && sortStrings d == sortStrings (classOf nb vs s) && d.head? == some s)
  let connected := connectedB nb vs && vs.length ≥ 2
  let biccOut ← match (fld impl "biccs").toOption with
    | some Json.null => pure none
    | some b => do
        let c ← listOf (listOf jStr) (← fld b "comps")
        let a ← listOf jStr (← fld b "aps")
        pure (some (c, a))
    | none => pure none
  let root := vs.headD ""
  let bm := biccsFrom nb root (biccFuel nb vs)
  let biccOk := match biccOut with
    | some (c, a) => biccExactB nb vs c a
    | none => !connected
  -- every link in exactly one reported component (as a pair of nodes inside it) is implied by blocks equality; report counts
  return obj [("valid", jb ((t.segs.map (·.id)).eraseDups.length == t.segs.length)),
              ("connected", jb connected),
              ("components_model", jsets comps), ("components_spec", jsets specComps), ("components_ok", jb compsOk),
              ("dfs_model", jl (jl js) dfsModel), ("dfs_ok", jb dfsOk),
              ("biccs_model", obj [("comps", jsets bm.1), ("aps", jl js (sortStrings bm.2))]),
              ("biccs_spec", obj [("comps", jsets (blocks nb vs)), ("aps", jl js (sortStrings (cutVertices nb vs)))]),
              ("biccs_ok", jb biccOk)]

def opOf (j : Json) : R Op := do
  match ← str j "op" with
  | "addNode" => return .addNode (← str j "id")
  | "delNode" => return .delNode (← str j "id")
  | "addLink" => return .addLink (← linkOf j)
  | o => throw s!"bad history op {o}"

def adjJ (a : Adj) : Json := Json.arr #[js a.1, jb a.2.1, jn a.2.2]
def sortAdj (l : List Adj) : List Adj :=
  l.mergeSort (fun a b => decide (a.1 < b.1 ∨ (a.1 = b.1 ∧ (a.2.1 < b.2.1 ∨ (a.2.1 = b.2.1 ∧ a.2.2 ≤ b.2.2)))))
def graphJ (g : Graph) : Json :=
  jl (fun n => obj [("id", js n.id), ("start", jl adjJ (sortAdj n.startAdj)), ("end", jl adjJ (sortAdj n.endAdj))]) g.nodes

/-- op "graph.history": {ops:[..]} → the model's graph after the history and the graph built from the survivors -/
def opHistory (j : Json) : R Json := do
  let ops ← listOf opOf (← fld j "ops")
  let g := applyOps ops
  let b := build (survivors ops)
  return obj [("model", graphJ g), ("spec", graphJ b)]

end Gaftools.Drv.Graph
