import Gaftools.Drv.Util
import Gaftools.Model.Realign
import Gaftools.Spec.Align
import Gaftools.Drv.Gfa
/-! driver ops for the realign collector protocol (C11, C13) -/
namespace Gaftools.Drv.Realign
open Lean Gaftools.Drv Gaftools.Realign

def evOf (j : Json) : R Ev := do
  match ← str j "e" with
  | "wPut" => return .wPut (← nat j "i")
  | "wFlush" => return .wFlush (← nat j "i")
  | "wExit" => return .wExit (← nat j "i")
  | "wDie" => return .wDie (← nat j "i") (← int j "code")
  | "pGet" => return .pGet
  | "pTimeout" => return .pTimeout
  | "pCheck" => return .pCheck
  | e => throw s!"bad event {e}"

def pcJ : PC → Json
  | .atGet => js "atGet" | .eval _ => js "inHandler" | .done => js "done" | .failed => js "failed" | .stuck => js "stuck"

def predName : Pred → String
  | .failed => "one_failed" | .alive => "one_is_alive" | .exited => "all_exited" | .allAlive => "all_are_alive"

/-- op "realign.run": {batches:[[prio..]..], events:[..]} → final parent state of the model after the schedule.
    A `pCheck` event may name the predicate the tool polled (`pred`): `poll_mismatch` says that at some poll the model's
    handler was at another predicate (or not inside the handler at all) -/
def opRun (j : Json) : R Json := do
  let batches ← listOf (listOf jNat) (← fld j "batches")
  let evJ ← (← fld j "events").getArr?
  let evs ← evJ.toList.mapM evOf
  let preds := evJ.toList.map (fun e => optStr e "pred")
  let (s, mismatch) := (List.zip evs preds).foldl (fun (acc : St × Bool) (ep : Ev × Option String) =>
    let bad := match ep.1, ep.2 with
      | .pCheck, some name => (match acc.1.pc with
          | .eval (.test p _ _) => predName p != name
          | _ => true)
      | _, _ => false
    (step acc.1 ep.1, acc.2 || bad)) (init batches, false)
  let lost := s.ws.any (fun w => (match w.st with | .exited c => c != 0 | .running => false) && !(w.buf ++ w.todo).isEmpty)
  return obj [("pc", pcJ s.pc), ("got", jl jn s.got), ("output", jl jn (output s)), ("nsent", jn s.nSent),
              ("lost", jb lost), ("expected", jl jn (sortNat batches.flatten)), ("poll_mismatch", jb mismatch)]

/-- op "realign.groups": {batch, cores, n} → the grouping of records 0..n-1 -/
def opGroups (j : Json) : R Json := do
  let g := groups (← nat j "batch") (← nat j "cores") (List.range (← nat j "n"))
  return obj [("groups", jl (jl (jl jn)) g)]

end Gaftools.Drv.Realign

namespace Gaftools.Drv.RealignRec
open Lean Gaftools.Drv Gaftools.Gaf Gaftools.Cigar Gaftools.Gfa

/-- op "realign.record": {gfa, steps, line_in, line_out|null, read} — C12 on one output record.
    ref = path sequence spelled by the Lean graph model, sliced [ps:pe]; query = read[qs:qe] -/
def opRecord (j : Json) : R Json := do
  let t ← Gaftools.Drv.Gfa.gfaOf (← fld j "gfa")
  let steps ← listOf Gaftools.Drv.Gfa.stepOf (← fld j "steps")
  let lineIn := (← str j "line_in").toList
  let read := (← str j "read").toList
  let out := (optStr j "line_out").map String.toList
  match parseLine lineIn with
  | none => return obj [("valid", jb false)]
  | some rin =>
    let pathSeq := ((extractPath (readGraph t) steps).getD "").toList
    let ref := (pathSeq.drop rin.ps).take (rin.pe - rin.ps)
    let query := (read.drop rin.qs).take (rin.qe - rin.qs)
    let valid := !pathSeq.isEmpty && rin.pe ≤ pathSeq.length && rin.qe ≤ read.length && rin.ps ≤ rin.pe && rin.qs ≤ rin.qe
    let outFields := out.map (fun o => splitTab (rstrip o))
    let ok := match outFields with
      | some fs => Spec.Align.specRecord ref query rin fs
      | none => false
    let outCost := (outFields.bind parseFields).bind (fun r => parseCigar r.cigar) |>.map cost
    let inCost := (parseCigar rin.cigar).map cost
    return obj [("valid", jb valid), ("spec_on_impl", jb ok), ("pass_through", jb (passThrough rin)),
                ("ref", js (String.ofList ref)), ("query", js (String.ofList query)),
                ("out_cost", jopt jn outCost), ("in_cost", jopt jn inCost),
                ("in_valid", jb (match parseCigar rin.cigar with
                   | some io => cigarValid ref query (io.map (fun o => if o.2 == 'M' then (o.1, '=') else o))
                   | none => false))]

end Gaftools.Drv.RealignRec
