import Gaftools.Drv.Util
import Gaftools.Drv.Gfa
import Gaftools.Model.TextLayer
/-! driver ops of the string level: `findpath.run` (extract_path on raw strings, find_path.run on an argument / a path file),
    `region.parse` (the region syntax of view), `text.spaces` (the two white-space sets, exhaustively) -/
namespace Gaftools.Drv.TextLayer
open Lean Gaftools.Drv Gaftools.Gfa Gaftools.TextLayer Gaftools.Drv.Gfa

def errName : PyErr → String
  | .indexError => "IndexError"
  | .valueError => "ValueError"
  | .keyError => "KeyError"
  | .osError => "OSError"

/-- `{"ok": value}` or `{"err": name}` -/
def outcome (f : α → Json) : Except PyErr α → Json
  | .ok a => obj [("ok", f a)]
  | .error e => obj [("err", js (errName e))]

def optStrOf (j : Json) : R (Option String) :=
  match j with
  | Json.null => pure none
  | v => some <$> v.getStr?

/-- op "findpath.run": {gfa, paths:[string..], runs:[{arg, file: string|null, fasta}..]}
    → {paths:[outcome of extract_path..], tokens:[[[bool,id]..]..], runs:[outcome of run: list of printed lines..]} -/
def opRun (j : Json) : R Json := do
  let t ← gfaOf (← fld j "gfa")
  let g := readGraph t
  let paths ← listOf jStr (← fld j "paths")
  let runs ← listOf (fun r => do
    let arg ← str r "arg"
    let file ← optStrOf (← fld r "file")
    let fasta ← bool r "fasta"
    pure (arg, file, fasta)) (← fld j "runs")
  return obj [
    ("paths", jl (fun p => outcome js (extractPathStr g p)) paths),
    ("tokens", jl (fun p => jl (fun (s : Step) => Json.arr #[jb s.1, js s.2]) (tokenizePath p.toList)) paths),
    ("runs", jl (fun (arg, file, fasta) => outcome (jl js) (findPathRunText g arg file fasta)) runs)]

/-- decimal text of an integer (the numbers of a region have no bound) -/
def intStr (i : Int) : String := toString i

/-- op "region.parse": {regions:[string..]} → {results:[{"ok":[contig, "start", "end"]} | {"err": name} ..]} -/
def opRegion (j : Json) : R Json := do
  let regions ← listOf jStr (← fld j "regions")
  return obj [("results", jl (fun r => outcome (fun (c, a, b) => Json.arr #[js c, js (intStr a), js (intStr b)]) (parseRegion r)) regions)]

/-- op "text.spaces": the code points the model takes as white space for `strip()` and for `int()` (all of them, by enumeration);
    and `ints`: [string..] → the model's `int()` of each (decimal text or null) -/
def opSpaces (j : Json) : R Json := do
  let all := (List.range 0x110000).filter (fun n => n < 0xD800 || n > 0xDFFF)
  let strip := all.filter (fun n => pyIsSpace (Char.ofNat n))
  let ints := all.filter (fun n => intSpace (Char.ofNat n))
  let qs ← match (fld j "ints").toOption with
    | some v => listOf jStr v
    | none => pure []
  return obj [("strip", jl jn strip), ("int", jl jn ints),
              ("ints", jl (fun s => jopt (fun i => js (intStr i)) (pyInt s.toList)) qs)]

end Gaftools.Drv.TextLayer
