import Lean.Data.Json
/-! JSON helpers for the driver (line protocol: one JSON object per line in, one per line out). -/
namespace Gaftools.Drv
open Lean

abbrev R := Except String

def fld (j : Json) (k : String) : R Json := j.getObjVal? k
def str (j : Json) (k : String) : R String := do (← fld j k).getStr?
def int (j : Json) (k : String) : R Int := do (← fld j k).getInt?
def nat (j : Json) (k : String) : R Nat := do (← fld j k).getNat?
def bool (j : Json) (k : String) : R Bool := do (← fld j k).getBool?
def arr (j : Json) (k : String) : R (Array Json) := do (← fld j k).getArr?
def optStr (j : Json) (k : String) : Option String := (j.getObjVal? k |>.toOption).bind (fun v => v.getStr?.toOption)

def listOf (f : Json → R α) (j : Json) : R (List α) := do
  let a ← j.getArr?
  a.toList.mapM f

def jStr (j : Json) : R String := j.getStr?
def jInt (j : Json) : R Int := j.getInt?
def jNat (j : Json) : R Nat := j.getNat?
def jBool (j : Json) : R Bool := j.getBool?

/-- `[a, b]` as a pair -/
def pairOf (f : Json → R α) (g : Json → R β) (j : Json) : R (α × β) := do
  let a ← j.getArr?
  if h : a.size = 2 then
    return (← f a[0], ← g a[1])
  else throw "pair expected"

def obj (kvs : List (String × Json)) : Json := Json.mkObj kvs
def jl (f : α → Json) (l : List α) : Json := Json.arr (l.map f).toArray
def ji (i : Int) : Json := Json.num (JsonNumber.fromInt i)
def jn (n : Nat) : Json := Json.num (JsonNumber.fromNat n)
def js (s : String) : Json := Json.str s
def jb (b : Bool) : Json := Json.bool b
def jopt (f : α → Json) : Option α → Json
  | none => Json.null
  | some a => f a

end Gaftools.Drv
