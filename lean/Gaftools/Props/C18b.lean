import Gaftools.Props.C06g
import Gaftools.Proofs.SkipLemmas
/-!
# C18 (continued) — the concrete `decompose`: what is not chain-shaped is skipped, and the command completes

`Props/C18.lean` is about the chromosome loop for an arbitrary per-chromosome outcome `dec`.  Here `dec` is the model of
`decompose_and_order` itself, and "chain-shaped" is the *definition-level* predicate of the specification
(`Spec.Order.isLinear (chainOf nb comp)`: cut vertices and blocks from their definitions, two chain elements of degree one, all
others of degree two, no inner-node-free block that joins other than two cut vertices) — not what `biccs` reported.

* `ok_linear`         — a component the model orders is chain-shaped (so: not chain-shaped ⇒ never ordered);
* `nonlinear_skipped` — a component that is not chain-shaped is *skipped*: neither ordered nor a crash (the census rejects it
                        before any SO tag is looked at);
* `decompose_noCrash` — with an SO tag on every node (valid rGFA) no component makes `decompose` crash;
* `orderRun_total`    — hence the whole run completes normally;
* `orderRun_skips`    — and a requested chromosome whose component is not chain-shaped gets no output (no `Written`, hence no
                        file and no BO/NO), while `C18.skip_isolated` says the others are written as if it had not been requested.
-/
namespace Gaftools.C18
open Gaftools.Gfa Gaftools.Algo Gaftools.Order Gaftools.Spec.Order Gaftools.Spec.Graph
open Gaftools.Proofs.Skip Gaftools.Proofs.OrderRun Gaftools.Proofs.Chain
open Gaftools.C06 (rep)

/-- a component the model orders is chain-shaped in the sense of the specification -/
theorem ok_linear (nb : V → List V) (comp : List V) (so : V → Option Int) (sn : V → Option String) (l : Local)
    (hu : Undirected nb comp) (hd : comp.Nodup) (hc : connectedB nb comp = true) (htab : ∀ v ∈ comp, '\t' ∉ v.toList)
    (hlen : comp.length ≠ 1) (h : decompose nb comp so sn = .ok l) :
    isLinear (chainOf nb comp) = true := by
  have hne : comp ≠ [] := by
    rintro rfl
    exact Gaftools.C06.decompose_nil nb so sn l (hu.outside "" (by simp)) h
  obtain ⟨s, hb, hf⟩ := Gaftools.C06.decompose_ok_stages nb comp so sn l hlen h
  exact (census_iff nb comp hu hd hc hne s hb).mp (Gaftools.C06.finish_ok_census s _ so sn l hf)

/-- a component that is not chain-shaped is skipped: it is neither ordered nor does it abort the command -/
theorem nonlinear_skipped (nb : V → List V) (comp : List V) (so : V → Option Int) (sn : V → Option String)
    (hu : Undirected nb comp) (hd : comp.Nodup) (hc : connectedB nb comp = true) (htab : ∀ v ∈ comp, '\t' ∉ v.toList)
    (hlen : comp.length ≠ 1) (hn : isLinear (chainOf nb comp) = false) :
    ∃ w, decompose nb comp so sn = .skipped w := by
  by_cases hne : comp = []
  · subst hne
    exact decompose_nil_skipped nb so sn
  · rw [decompose_unfold nb comp so sn hlen]
    cases hb : buildScaffold (rep nb comp).1 (sortStrings (rep nb comp).2) with
    | error e => exact ⟨e, rfl⟩
    | ok s =>
      simp only
      apply finish_not_census
      intro hcen
      have := (census_iff nb comp hu hd hc hne s hb).mp hcen
      rw [hn] at this
      cases this

/-- with an SO tag on every node of the component, `decompose` never crashes -/
theorem decompose_noCrash (nb : V → List V) (comp : List V) (so : V → Option Int) (sn : V → Option String)
    (hu : Undirected nb comp) (hd : comp.Nodup) (hc : connectedB nb comp = true)
    (hso : ∀ v ∈ comp, (so v).isSome) (w : String) :
    decompose nb comp so sn ≠ .crash w := by
  by_cases hne : comp = []
  · subst hne
    obtain ⟨x, hx⟩ := decompose_nil_skipped nb so sn
    rw [hx]
    intro h
    cases h
  · by_cases hlen : comp.length = 1
    · match comp, hlen with
      | [v], _ =>
        intro h
        simp only [decompose] at h
        cases h
    · rw [decompose_unfold nb comp so sn hlen]
      cases hb : buildScaffold (rep nb comp).1 (sortStrings (rep nb comp).2) with
      | error e =>
        intro h
        cases h
      | ok s =>
        simp only
        intro h
        obtain ⟨id, hid, hnone⟩ := finish_crash_elt s _ so sn w h
        obtain ⟨_, _, helts, _⟩ := Gaftools.C06.buildScaffold_ok _ _ s hb
        have hbc := Gaftools.C06.rep_blockCut nb comp hu hd hc hne
        rw [helts, List.mem_append] at hid
        rcases hid with hid | hid
        · obtain ⟨a, ha, e⟩ := List.mem_map.mp hid
          injection e with e
          subst e
          have := hso a (hbc.apSub a ha)
          rw [hnone] at this
          cases this
        · obtain ⟨i, _, e⟩ := List.mem_map.mp hid
          cases e

/-- the whole run completes normally on a file whose segments all carry an SO tag -/
theorem orderRun_total (t : GfaFile) (order : List String) (lm : Bool)
    (hids : (t.segs.map (·.id)).Nodup) (hso : ∀ s ∈ t.segs, (soOf t s.id).isSome) :
    ∃ r, orderRun t order lm = .ok r := by
  unfold orderRun
  simp only
  apply runOrder_total
  intro c _ w
  show decompose (Graph.nbFun (readGraph t lm)) (compOfName t lm c) (soOf t) (snOf t) ≠ .crash w
  rcases compOfName_cases t lm c with hnil | hmem
  · rw [hnil]
    obtain ⟨x, hx⟩ := decompose_nil_skipped (Graph.nbFun (readGraph t lm)) (soOf t) (snOf t)
    rw [hx]
    intro h
    cases h
  · have hU := Gaftools.C15.readGraph_undirected t hids lm
    have hidsEq : Graph.ids (readGraph t lm) = t.segs.map (·.id) := Gaftools.Proofs.Write.ids_readGraph t lm hids
    have hnd : (Graph.ids (readGraph t lm)).Nodup := by rw [hidsEq]; exact hids
    have hpart := Gaftools.C15.components_partition _ _ hU hnd
    obtain ⟨hne, hcnd, hsub, hcls⟩ := hpart.1 _ hmem
    generalize compOfName t lm c = comp at hne hcnd hsub hcls ⊢
    have hclosed := class_closed (Graph.nbFun (readGraph t lm)) comp hcls
    have hagree := restrict_agree (Graph.nbFun (readGraph t lm)) comp
    have hu' := restrict_undirected _ _ comp hU hclosed
    have hconn := restrict_connected _ _ comp hU hcls
    have hso' : ∀ v ∈ comp, (soOf t v).isSome := by
      intro v hv
      have := hsub v hv
      rw [hidsEq, List.mem_map] at this
      obtain ⟨s, hs, rfl⟩ := this
      exact hso s hs
    rw [← Gaftools.C06.decompose_congr _ _ comp _ _ hne hclosed hagree]
    exact decompose_noCrash _ comp _ _ hu' hcnd hconn hso' w

/-- a requested chromosome whose component is not chain-shaped (and has more than one node) gets no output -/
theorem orderRun_skips (t : GfaFile) (order : List String) (lm : Bool) (ws : List Written) (next : Int)
    (hids : (t.segs.map (·.id)).Nodup) (htab : ∀ s ∈ t.segs, '\t' ∉ s.id.toList)
    (h : orderRun t order lm = .ok (ws, next)) (c : String)
    (hlen : (compOfName t lm c).length ≠ 1)
    (hn : isLinear (chainOf (Graph.nbFun (readGraph t lm)) (compOfName t lm c)) = false) :
    ∀ w ∈ ws, w.name ≠ c := by
  intro w hw hname
  have hgo : go (fun c => decompose (Graph.nbFun (readGraph t lm)) (compOfName t lm c) (soOf t) (snOf t))
      ([], 0) order = .ok (ws, next) := h
  have hws := go_written _ order _ _ hgo
  simp only [List.nil_append] at hws
  rw [hws] at hw
  obtain ⟨l, lo, _, hdec, _, _⟩ := outList_mem _ order 0 (Int.le_refl 0) w hw
  rw [hname] at hdec
  have hdec : decompose (Graph.nbFun (readGraph t lm)) (compOfName t lm c) (soOf t) (snOf t) = .ok l := hdec
  rcases compOfName_cases t lm c with hnil | hmem
  · rw [hnil] at hdec
    obtain ⟨x, hx⟩ := decompose_nil_skipped (Graph.nbFun (readGraph t lm)) (soOf t) (snOf t)
    rw [hx] at hdec
    cases hdec
  · have hU := Gaftools.C15.readGraph_undirected t hids lm
    have hidsEq : Graph.ids (readGraph t lm) = t.segs.map (·.id) := Gaftools.Proofs.Write.ids_readGraph t lm hids
    have hnd : (Graph.ids (readGraph t lm)).Nodup := by rw [hidsEq]; exact hids
    have hpart := Gaftools.C15.components_partition _ _ hU hnd
    obtain ⟨hne, hcnd, hsub, hcls⟩ := hpart.1 _ hmem
    generalize compOfName t lm c = comp at hdec hne hcnd hsub hcls hlen hn
    have hclosed := class_closed (Graph.nbFun (readGraph t lm)) comp hcls
    have hagree := restrict_agree (Graph.nbFun (readGraph t lm)) comp
    have hu' := restrict_undirected _ _ comp hU hclosed
    have hconn := restrict_connected _ _ comp hU hcls
    have htab' : ∀ v ∈ comp, '\t' ∉ v.toList := by
      intro v hv
      have := hsub v hv
      rw [hidsEq, List.mem_map] at this
      obtain ⟨s, hs, rfl⟩ := this
      exact htab s hs
    have hdec' : decompose (restrict (Graph.nbFun (readGraph t lm)) comp) comp (soOf t) (snOf t) = .ok l := by
      rw [Gaftools.C06.decompose_congr _ _ comp _ _ hne hclosed hagree]
      exact hdec
    have hlin := ok_linear _ comp _ _ l hu' hcnd hconn htab' hlen hdec'
    rw [chainOf_congr _ _ comp hclosed hagree, hn] at hlin
    cases hlin

end Gaftools.C18
