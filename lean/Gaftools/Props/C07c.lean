import Gaftools.Proofs.CsvLemmas5
/-!
# C07 (continued) — the CSV files, the `-complete` files and the validation of the request

Model: `Order.orderCsv` (one row per node of the component, `sorted(component_nodes)`), `completeGfa` / `completeCsv` (the
per-chromosome files concatenated: all S lines, then all L lines), `resolveOrder` (the names given with `--chromosome_order` must
be component names; without the option the component names must be exactly the 25 default chromosomes).

* `csv_spec`        — the CSV of every written chromosome meets `Spec.Order.specCsv`: every node of the component exactly once,
                      role orange for the reported scaffold nodes and blue for all others (never gray), SN / SO verbatim, BO / NO
                      the values of the GFA file;
* `complete_sorted` — the S lines of the `-complete` file are in strictly increasing (BO, NO) order over the WHOLE file (the
                      chromosomes' BO ranges are consecutive), i.e. `specComplete` holds of `completeGfa`;
* `resolve_given`   — a given request is accepted iff every name is a component name, and is then used as it stands;
* `resolve_default` — an empty option is accepted iff the component names are exactly the default chromosomes.

Proof material: `Gaftools/Proofs/CsvLemmas.lean` … `CsvLemmas5.lean`.  (This file does not import `C07b`: nothing of it is used.)
-/
namespace Gaftools.C07
open Gaftools.Gfa Gaftools.Algo Gaftools.View Gaftools.Order Gaftools.Spec.Order
open Gaftools.Proofs.Csv

/-- the tag function of a whole run: BO / NO of a node in whichever written chromosome holds it -/
def tagOfRun (ws : List Written) (v : V) : Option (Int × Int) :=
  (ws.findSome? (fun w => (w.tags.find? (·.1 == v)))).map (·.2)

/-! ### `csv_spec`: corrected statement

As first written —

    theorem csv_spec (t : GfaFile) (hw : WFGfa t) (htab : ∀ s ∈ t.segs, '\t' ∉ s.id.toList)
        (order : List String) (lm : Bool) (ws : List Written) (next : Int) (h : orderRun t order lm = .ok (ws, next)) :
        ∀ w ∈ ws, specCsv t (compOfName t lm w.name) (fun v => (w.tags.find? (·.1 == v)).map (·.2))
          (fun v => w.aps.contains v) (orderCsv (readGraph t lm) w (compOfName t lm w.name)) = true

— the statement is FALSE: `WFGfa` does not keep an S line from carrying the same tag name twice.  The loaded node keeps ONE
entry per name (dict assignment: the first position, the LAST value) and the CSV prints that, whereas `specCsv` (and `snOf`,
which names the component) read the FIRST `SN` / `SO` of the S line.  Counterexample `csvCx` below: one segment with
`SN:Z:chr1  SN:Z:chr2`; the chromosome `chr1` is written, its CSV row says `chr2`, the specification wants `chr1`.
Minimal repair: the hypothesis `hnames` of `orderFiles_spec` (tag names distinct on every S line). -/
def csvCx : GfaFile := { segs := [⟨"a", "A", [⟨"SN", "Z", "chr1"⟩, ⟨"SN", "Z", "chr2"⟩]⟩], links := [] }
def csvCxCheck (t : GfaFile) (w : Written) : List (List String) × Bool :=
  (orderCsv (readGraph t false) w (compOfName t false w.name),
   specCsv t (compOfName t false w.name) (fun v => (w.tags.find? (·.1 == v)).map (·.2))
     (fun v => w.aps.contains v) (orderCsv (readGraph t false) w (compOfName t false w.name)))
example : (csvCx.segs.map (·.id)).Nodup ∧ (csvCx.links.map linkKey).Nodup := by decide
/-- info: [([["Name", "Color", "SN", "SO", "BO", "NO"], ["a", "orange", "chr2", "NA", "0", "0"]], false)] -/
#guard_msgs in
#eval match orderRun csvCx ["chr1"] false with
  | .ok (ws, _) => ws.map (csvCxCheck csvCx)
  | .error _ => []

theorem find_shiftOrder (lo : Int) (order : List (V × Nat × Nat)) (v : V) (k no : Nat) (h : (v, k, no) ∈ order) :
    ∃ x, (shiftOrder lo order).find? (·.1 == v) = some x ∧ x.1 = v := by
  cases hf : (shiftOrder lo order).find? (·.1 == v) with
  | none =>
    rw [List.find?_eq_none] at hf
    have := hf (v, lo + (k : Int), (no : Int)) (by
      unfold shiftOrder
      rw [List.mem_map]
      exact ⟨(v, k, no), h, rfl⟩)
    simp at this
  | some x =>
    exact ⟨x, rfl, by simpa using List.find?_some hf⟩

theorem csv_spec (t : GfaFile) (hw : WFGfa t) (htab : ∀ s ∈ t.segs, '\t' ∉ s.id.toList)
    (hnames : ∀ s ∈ t.segs, (s.tags.map (·.name)).Nodup)
    (order : List String) (lm : Bool) (ws : List Written) (next : Int) (h : orderRun t order lm = .ok (ws, next)) :
    ∀ w ∈ ws, specCsv t (compOfName t lm w.name) (fun v => (w.tags.find? (·.1 == v)).map (·.2))
      (fun v => w.aps.contains v) (orderCsv (readGraph t lm) w (compOfName t lm w.name)) = true := by
  intro w hwm
  rw [orderRun_outList t order lm ws next h] at hwm
  obtain ⟨l, lo, hdec, htags, haps, hins, _⟩ := outList_mem' _ order 0 w hwm
  obtain ⟨_, hcnd, hsub, hok⟩ := accepted_comp t lm hw.ids htab w.name l hdec
  generalize compOfName t lm w.name = comp at hcnd hsub hok ⊢
  -- the rows
  have hrows : ∀ v ∈ comp, ∃ x n s, w.tags.find? (·.1 == v) = some x ∧ (readGraph t lm).find v = some n ∧
      t.segs.find? (·.id == v) = some s ∧ n.tags = s.tags := by
    intro v hv
    obtain ⟨k, no, hm⟩ := hok.cover v hv
    obtain ⟨x, hx, _⟩ := find_shiftOrder lo l.order v k no hm
    obtain ⟨n, s, hn, hs, hts, _⟩ := find_readGraph t lm hw.ids hnames v (hsub v hv)
    exact ⟨x, n, s, by rw [htags]; exact hx, hn, hs, hts⟩
  have hsome : ∀ v ∈ sortStrings comp, csvRow (readGraph t lm) w v = some ((csvRow (readGraph t lm) w v).getD []) := by
    intro v hv
    obtain ⟨x, n, s, hx, hn, _, _⟩ := hrows v (Gaftools.Proofs.Bicc2.mem_sortStrings.mp hv)
    unfold csvRow
    rw [hx, hn]
    rfl
  have hbody : (sortStrings comp).filterMap (csvRow (readGraph t lm) w) =
      (sortStrings comp).map (fun v => (csvRow (readGraph t lm) w v).getD []) := by
    rw [← List.filterMap_eq_map]
    exact Gaftools.Proofs.OrderRun.filterMap_congr' hsome
  unfold orderCsv
  rw [hbody]
  apply specCsv_of_rows t comp _ _ _ _ (Gaftools.Proofs.Bicc2.sortStrings_perm comp) hcnd
  intro v hv
  obtain ⟨x, n, s, hx, hn, hs, hts⟩ := hrows v hv
  refine ⟨_, _, _, _, _, by unfold csvRow; rw [hx, hn]; rfl, ?_, ⟨x.2.1, x.2.2, by rw [hx]; rfl, rfl, rfl⟩, ?_, ?_⟩
  · by_cases ha : v ∈ w.aps
    · simp [ha]
    · have hin : v ∈ w.inside := by
        rw [hins]
        apply hok.roles v hv
        rw [← haps]
        exact ha
      simp [ha, hin]
  · rw [hs, hts]; rfl
  · rw [hs, hts]; rfl

/-! ### `complete_sorted`

`hord` is needed (a chromosome requested twice is written twice, with two BO ranges, and `tagOfRun` finds the first):
`["chr1", "chr1"]` on a one-node graph gives `specComplete … = false`. -/
def completeCx : GfaFile := { segs := [⟨"a", "A", [⟨"SN", "Z", "chr1"⟩]⟩], links := [] }
/-- info: some false -/
#guard_msgs in
#eval match orderRun completeCx ["chr1", "chr1"] false with
  | .ok (ws, _) => some (specComplete (ws.map (orderFile (readGraph completeCx false))) (tagOfRun ws)
      (completeGfa (ws.map (orderFile (readGraph completeCx false)))))
  | .error _ => none

theorem complete_sorted (t : GfaFile) (hw : WFGfa t) (htab : ∀ s ∈ t.segs, '\t' ∉ s.id.toList)
    (order : List String) (hord : order.Nodup) (lm : Bool) (ws : List Written) (next : Int)
    (h : orderRun t order lm = .ok (ws, next)) :
    specComplete (ws.map (orderFile (readGraph t lm))) (tagOfRun ws)
      (completeGfa (ws.map (orderFile (readGraph t lm)))) = true := by
  have hws := orderRun_outList t order lm ws next h
  generalize hdecdef : (fun c => decompose (Graph.nbFun (readGraph t lm)) (compOfName t lm c) (soOf t) (snOf t)) = dec at hws
  have hacc : ∀ c l, dec c = .ok l → LocalOK (compOfName t lm c) l := by
    intro c l hc
    subst hdecdef
    exact (accepted_comp t lm hw.ids htab c l hc).2.2.2
  -- every written chromosome
  have hwr : ∀ w ∈ ws, ∃ l lo, LocalOK (compOfName t lm w.name) l ∧ w.tags = shiftOrder lo l.order := by
    intro w hwm
    rw [hws] at hwm
    obtain ⟨l, lo, hdec, htags, _, _, _⟩ := outList_mem' dec order 0 w hwm
    exact ⟨l, lo, hacc _ l hdec, htags⟩
  have hnodes : ∀ w ∈ ws, ∀ x ∈ w.tags.map (·.1), x ∈ compOfName t lm w.name := by
    intro w hwm x hx
    obtain ⟨l, lo, hok, htags⟩ := hwr w hwm
    rw [htags, shiftOrder_fst, List.mem_map] at hx
    obtain ⟨y, hy, rfl⟩ := hx
    exact (hok.sub y hy).1
  -- the global tag list
  have hs : (ws.flatMap (·.tags)).Pairwise KeyLtI := by
    rw [hws]
    exact (outList_tags_sorted dec (fun c l hc => ⟨(hacc c l hc).sorted, fun x hx => ((hacc c l hc).sub x hx).2⟩) order 0).1
  have hnames : (ws.map (·.name)).Nodup := by
    rw [hws, Gaftools.C18.outList_names]
    exact hord.sublist List.filter_sublist
  have hnd : ((ws.flatMap (·.tags)).map (·.1)).Nodup := by
    rw [List.map_flatMap]
    unfold List.Nodup
    rw [List.pairwise_flatMap]
    constructor
    · intro w hwm
      obtain ⟨l, lo, hok, htags⟩ := hwr w hwm
      rw [htags, shiftOrder_fst]
      exact hok.nodup
    · unfold List.Nodup at hnames
      rw [List.pairwise_map] at hnames
      apply List.Pairwise.imp_of_mem _ hnames
      intro w1 w2 h1 h2 hne x hx y hy hxy
      subst hxy
      exact compOfName_disjoint t lm hw.ids w1.name w2.name hne x (hnodes w1 h1 x hx) (hnodes w2 h2 x hy)
  have htag : ∀ v, tagOfRun ws v = ((ws.flatMap (·.tags)).find? (·.1 == v)).map (·.2) := by
    intro v
    unfold tagOfRun
    rw [List.find?_flatMap]
  have hsub : ((completeGfa (ws.map (orderFile (readGraph t lm)))).segs.map (·.id)).Sublist
      ((ws.flatMap (·.tags)).map (·.1)) := by
    unfold completeGfa
    simp only
    rw [List.map_flatMap, List.map_flatMap, List.flatMap_map]
    apply flatMap_sublist
    intro w hwm
    obtain ⟨l, lo, hok, htags⟩ := hwr w hwm
    have := orderFile_ids_sublist (readGraph t lm) w
    rw [sortBoNo_sorted w.tags (by rw [htags]; exact shiftOrder_sorted lo l.order hok.sorted)] at this
    exact this
  have hkeys := keys_sorted _ hs hnd (tagOfRun ws) htag _ hsub
  rw [List.map_map] at hkeys
  unfold specComplete
  simp only [Bool.and_eq_true]
  refine ⟨⟨⟨?_, ?_⟩, ?_⟩, hkeys⟩
  · simp [completeGfa]
  · simp [completeGfa]
  · rw [List.all_eq_true]
    intro l _
    simp [completeGfa]

theorem resolve_given (names : List String) (option : String) (h : option.splitOn "," ≠ [""]) :
    resolveOrder names option =
      if ∀ c ∈ option.splitOn ",", c ∈ names then some (option.splitOn ",") else none := by
  unfold resolveOrder
  simp only
  have h1 : (option.splitOn "," != [""]) = true := by simpa using h
  rw [if_pos h1]
  simp only [List.all_eq_true, List.contains_iff_mem]

theorem resolve_default_iff (names : List String) :
    (names.all (fun c => defaultChromosomes.contains c) && defaultChromosomes.all (fun c => names.contains c)) = true ↔
      ∀ c, c ∈ names ↔ c ∈ defaultChromosomes := by
  simp only [Bool.and_eq_true, List.all_eq_true, List.contains_iff_mem]
  constructor
  · rintro ⟨h1, h2⟩ c; exact ⟨h1 c, h2 c⟩
  · intro h; exact ⟨fun c => (h c).mp, fun c => (h c).mpr⟩

theorem splitOn_empty : ("".splitOn ",") = [""] := by
  unfold String.splitOn
  rw [if_neg (by decide)]
  rw [String.splitOnAux]
  have h1 : String.Pos.Raw.atEnd "" 0 = true := by decide
  rw [if_pos h1]
  have h2 : String.Pos.Raw.extract "" 0 0 = "" := by decide
  simp [h2]

theorem resolve_default (names : List String) (h : ∀ c, c ∈ names ↔ c ∈ defaultChromosomes) :
    resolveOrder names "" = some defaultChromosomes := by
  unfold resolveOrder
  simp only [splitOn_empty]
  rw [if_neg (by simp), if_pos ((resolve_default_iff names).mpr h)]

theorem resolve_default_none (names : List String) (h : ¬ ∀ c, c ∈ names ↔ c ∈ defaultChromosomes) :
    resolveOrder names "" = none := by
  unfold resolveOrder
  simp only [splitOn_empty]
  rw [if_neg (by simp), if_neg (fun hh => h ((resolve_default_iff names).mp hh))]

#guard resolveOrder ["chr2", "chr1"] "chr1,chr2" == some ["chr1", "chr2"]
#guard resolveOrder ["chr2", "chr1"] "chr1,chr3" == none
#guard resolveOrder ["chr2", "chr1"] "" == none
#guard resolveOrder defaultChromosomes.reverse "" == some defaultChromosomes
example : defaultChromosomes.length = 25 := by decide

end Gaftools.C07
