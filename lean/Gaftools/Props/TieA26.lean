import Gaftools.Model.Cli
import Gaftools.Gen.CliArgs
/-!
# Tie A for the command-line layer (`gaftools/__main__.py`, `add_arguments` / `validate` / `main` of every module of `gaftools/cli`)

`Gen/CliArgs.lean` is regenerated from the source on every run:

* every `add_argument(...)` call (of `__main__.main` on the top-level parser, of the eight `add_arguments`) as one `ArgDecl` — the
  names as written, and the keywords `dest`, `default`, `action`, `nargs`, `type`, `required` as written (`none` = not given);
* every `validate(args, parser)` test by test (`attr ns "format"` = `args.format`; `and` / `not` / `in` with Python's truthiness
  and short-circuit; `parser.error(msg)` ends, `return` ends);
* every `main(args)`: the function it calls with `**vars(args)`, and that function's parameters;
* `__main__.main`: the module loop (`set_defaults(module=…, subparser=…)`, sub-command name = module name, the modules in the order of
  `pkgutil.iter_modules`), and everything after `parse_args` as a list of `Step`s (`setup_logging(args.debug)`, the `hasattr` tests,
  `validate`, the three `del`, `try: module.main(args) except CommandLineError: … sys.exit(1)`) run by the fixed interpreter
  `runSteps`; `HelpfulArgumentParser.error`'s exit status.

What the declarations *mean* is argparse's business, not gaftools': this file writes that reading down once (`isPositional`, `destOf`
= `_get_optional_kwargs`, `actOf` = the action registry restricted to what the model's `Act` can say, `defaultOf`, `initialNs` = the
defaults loop of `parse_known_args`, `applyEvent` = `take_action` of store / append / store_true) and proves that the model's tables,
namespaces, `validate` and dispatch are what the generated declarations give under that reading:

* `modules_gen`, `genModule_name` — `Sub.all` / `Sub.name` are the module names, in order.
* `topTable_gen`, `table_gen`, `positionals_gen` — `topTable`, `table sub`, `positionals sub` ARE the generated tables (every option
  with `nargs=None`, not `required`, an action / type the model has; every positional with `nargs=None`, no `dest`, no `type`).
* `defaults_gen`, `namespace_gen` — the namespace of the model (`build sub pos evs`, read through `kwargsOf`) is, attribute by
  attribute and in order, the namespace argparse builds from the generated declarations: the `default=` values (or `None` / `False`),
  the positionals, then every stored value; for ALL event lists, not only those a parse produces.
* `validate_gen` — `Cli.validate o` is what the generated `validate` of the module returns on that namespace (and "no `validate`"
  for `realign`, `order_gfa`: `validate_absent`).
* `entryPoint_gen`, `kwargs_fit_params` — the entry point is `gaftools.cli.<module>.<function main calls>`, and the keyword arguments
  bind: every key is a parameter, every parameter without default is a key, no key twice.
* `runMain_gen`, `dispatch_gen`, `noSubcommand_gen` — `__main__.main` after `parse_args`, run on the namespace of the model, does what
  `Cli.dispatch` says: the `validate` message through `parser.error`, or the call of the entry point with `kwargsOf` (after the
  three `del`), `CommandLineError` ending with status 1; a namespace without `module` is refused with the "no sub-command" message.
* `usage_status_gen`, `commandLineError_status_gen` — the exit statuses of `Cli.effect` are the generated ones.

The ORDER of the `add_argument` calls is part of what is proved (the model lists the options "in the order of the source", and the
order of the namespace attributes is the order of the declarations), so re-ordering two options changes the generated table and
needs the model's table re-ordered too.

No hypothesis beyond "the parse produced this namespace" (`parseArgs argv = .ok p` / `build … = some o`): the parser itself
(`classify`, `scan`, …) models the argparse library, which is not gaftools source and is tied by differential testing only.
-/
set_option linter.unusedSimpArgs false
namespace Gaftools.TieA26
open Gaftools.Cli
open Gaftools.Gen
open Gaftools.Gen.CliArgs (PyV ArgDecl Ns Module)

/-! ## argparse's reading of a declaration -/

/-- a positional: the name does not start with the prefix character -/
def isPositional (d : ArgDecl) : Bool := d.flags.all (fun f => f.toList.head? != some '-')

/-- `_get_optional_kwargs`: a long option string is one whose second character is a prefix character too -/
def isLong (f : String) : Bool :=
  match f.toList with
  | '-' :: '-' :: _ => true
  | _ => false

/-- `dest_option_string.lstrip('-').replace('-', '_')` -/
def derivedDest (f : String) : String :=
  String.ofList ((f.toList.dropWhile (· == '-')).map (fun c => if c == '-' then '_' else c))

/-- `dest=` when given; the name of a positional; else the first long option string, else the first option string, stripped -/
def destOf (d : ArgDecl) : String :=
  match d.dest with
  | some x => x
  | none => if isPositional d then d.flags.headD "" else derivedDest ((d.flags.find? isLong).getD (d.flags.headD ""))

/-- the action registry and `type=`, as far as the model's `Act` can say it (`nargs=None`, not required) -/
def actOf (d : ArgDecl) : Option Act :=
  if d.nargs.isSome || d.required == some true then none else
  let store := d.action == none || d.action == some "store"
  if store && (d.type == none || d.type == some "str") then some (.store (destOf d))
  else if store && d.type == some "int" then some (.storeInt (destOf d))
  else if d.type.isSome then none
  else if d.action == some "append" then some (.append (destOf d))
  else if d.action == some "store_true" then some (.storeTrue (destOf d))
  else if d.action == some "version" then some .version
  else if d.action == some "help" then some .help
  else none

def optDeclOf (d : ArgDecl) : Option OptDecl := (actOf d).map (fun a => ⟨d.flags, a⟩)

/-- the optionals of a parser, `-h`, `--help` first when `add_help` -/
def tableOf (addHelp : Bool) (decls : List ArgDecl) : Option Table :=
  ((decls.filter (fun d => !isPositional d)).mapM optDeclOf).map (fun t => if addHelp then helpOpt :: t else t)

/-- a positional the model can say: `nargs=None` (hence required), the plain store action, a string -/
def positionalName (d : ArgDecl) : Option String :=
  if d.dest.isNone && d.nargs.isNone && (d.action == none || d.action == some "store") && (d.type == none || d.type == some "str")
      && d.required.isNone && d.flags.length == 1 then some (destOf d) else none

def positionalsOf (decls : List ArgDecl) : Option (List String) := (decls.filter isPositional).mapM positionalName

/-- the `default` of an action: the keyword, else `False` for `store_true`, else `None` -/
def defaultOf (d : ArgDecl) : PyV :=
  match d.default with
  | some v => v
  | none => if d.action == some "store_true" then .bool false else .none

/-- an action without a place in the namespace (`dest=SUPPRESS`) -/
def suppressed (d : ArgDecl) : Bool := d.action == some "help" || d.action == some "version"

/-- the namespace before the first option is taken: every `dest` in declaration order, with its default — a positional with
    its value from the command line (`pos`, in order) -/
def initialNs : List ArgDecl → List String → Ns
  | [], _ => []
  | d :: ds, pos =>
    if isPositional d then
      match pos with
      | p :: ps => (destOf d, .str p) :: initialNs ds ps
      | [] => (destOf d, defaultOf d) :: initialNs ds []
    else if suppressed d then initialNs ds pos
    else (destOf d, defaultOf d) :: initialNs ds pos

/-- `setattr(namespace, k, v)` for an attribute that is there -/
def setattr (ns : Ns) (k : String) (v : PyV) : Ns := ns.map (fun p => if p.1 == k then (k, v) else p)

/-- `items = getattr(namespace, k); items = items + [s]` -/
def appendattr (ns : Ns) (k : String) (s : String) : Ns :=
  ns.map (fun p => if p.1 == k then (k, match p.2 with | .list l => .list (l ++ [s]) | _ => .list [s]) else p)

/-- the optionals with a place in the namespace: `dest` and action -/
def optActs (decls : List ArgDecl) : List (String × Option Act) :=
  (decls.filter (fun d => !isPositional d)).map (fun d => (destOf d, actOf d))

/-- `take_action` of the optional whose `dest` the event names, when its action stores that kind of value (the model's
    `XOpts.apply` ignore every other event, and so does this) -/
def applyEvent (decls : List ArgDecl) (ns : Ns) (e : Event) : Ns :=
  match (optActs decls).find? (fun p => e.1 == p.1) with
  | none => ns
  | some p =>
    match p.2, e.2 with
    | some (.store k), .str s => setattr ns k (.str s)
    | some (.append k), .str s => appendattr ns k s
    | some (.storeInt k), .int i => setattr ns k (.int i)
    | some (.storeTrue k), .flag => setattr ns k (.bool true)
    | _, _ => ns

/-! ## the model's values as values of the generated file -/

def ofPy : PyVal → PyV
  | .none => .none
  | .str s => .str s
  | .int i => .int i
  | .bool b => .bool b
  | .list l => .list l
  | .stdoutObject => .stdoutObject

def nsOf (kw : List (String × PyVal)) : Ns := kw.map (fun p => (p.1, ofPy p.2))

/-- the generated record of a sub-command: the module of that name -/
def genModule (sub : Sub) : Module :=
  (CliArgs.modules.find? (fun m => m.name == sub.name)).getD ⟨"", [], none, "", []⟩

/-- the namespace `parse_args` hands to `__main__.main` for a sub-command: the top-level parser's attributes, the sub-parser's
    attributes in declaration order, what `set_defaults` added -/
def parsedArgs (p : Parsed) : Ns :=
  ("debug", .bool p.debug) :: (nsOf (kwargsOf p.opts) ++ CliArgs.setDefaults p.opts.sub.name)

/-- `hasattr(module, "validate")` then `module.validate(args, subparser)` -/
def runValidate (m : Module) (ns : Ns) : CliArgs.VRes :=
  match m.validate with
  | none => .ok none
  | some f => f ns

/-! ## the modules -/

theorem modules_gen : CliArgs.modules.map (·.name) = Sub.all.map Sub.name := by decide

theorem genModule_name (sub : Sub) : (genModule sub).name = sub.name := by cases sub <;> decide

theorem moduleOf_gen (sub : Sub) : CliArgs.moduleOf CliArgs.modules (.moduleObj sub.name) = some (genModule sub) := by
  cases sub <;> rfl

/-- the sub-command name given to `add_parser` is the module name, and `Sub.ofName?` finds exactly those -/
theorem ofName_gen (s : String) (sub : Sub) : Sub.ofName? s = some sub ↔ (s ∈ CliArgs.modules.map (·.name) ∧ s = sub.name) := by
  unfold Sub.ofName?
  constructor
  · intro h
    have h1 := List.find?_some h
    have h2 : sub.name = s := by simpa using h1
    subst h2
    exact ⟨by cases sub <;> decide, rfl⟩
  · rintro ⟨_, rfl⟩
    cases sub <;> decide

/-! ## the tables -/

theorem topTable_gen : tableOf CliArgs.topAddHelp CliArgs.topArguments = some topTable := by decide

theorem table_gen (sub : Sub) : tableOf CliArgs.subAddHelp (genModule sub).arguments = some (table sub) := by
  cases sub <;> decide

theorem positionals_gen (sub : Sub) : positionalsOf (genModule sub).arguments = some (positionals sub) := by
  cases sub <;> decide

/-- the only attribute of the top-level parser is `debug`, `False` until `--debug` is seen -/
theorem topNamespace_gen : initialNs CliArgs.topArguments [] = [("debug", .bool false)] := by decide

/-! ## the namespace -/

theorem foldl_commute {α : Type} (f : α → Event → α) (g : Ns → Event → Ns) (φ : α → Ns) (h : ∀ a e, φ (f a e) = g (φ a) e) :
    ∀ (evs : List Event) (a : α), φ (evs.foldl f a) = evs.foldl g (φ a) := by
  intro evs
  induction evs with
  | nil => intro a; rfl
  | cons e es ih => intro a; simp only [List.foldl_cons]; rw [ih, h]

theorem view_step (o : ViewOpts) (e : Event) :
    nsOf (kwargsOf (.view (o.apply e))) = applyEvent (genModule .view).arguments (nsOf (kwargsOf (.view o))) e := by
  have ht : optActs (genModule .view).arguments = [("gfa", some (.store "gfa")), ("output", some (.store "output")), ("index", some (.store "index")), ("nodes", some (.append "nodes")), ("regions", some (.append "regions")), ("format", some (.store "format"))] := by decide
  rcases e with ⟨d, v⟩
  unfold applyEvent
  rw [ht]
  by_cases hd : d ∈ ["gfa", "output", "index", "nodes", "regions", "format"]
  · simp only [List.mem_cons, List.not_mem_nil, or_false] at hd
    rcases hd with rfl | rfl | rfl | rfl | rfl | rfl <;> cases v <;>
      simp [ViewOpts.apply, setattr, appendattr, nsOf, kwargsOf, ofPy, PyVal.ofOpt]
  · simp only [List.mem_cons, List.not_mem_nil, or_false, not_or] at hd
    cases v <;> simp [ViewOpts.apply, hd]

theorem index_step (o : IndexOpts) (e : Event) :
    nsOf (kwargsOf (.index (o.apply e))) = applyEvent (genModule .index).arguments (nsOf (kwargsOf (.index o))) e := by
  have ht : optActs (genModule .index).arguments = [("output", some (.store "output"))] := by decide
  rcases e with ⟨d, v⟩
  unfold applyEvent
  rw [ht]
  by_cases hd : d ∈ ["output"]
  · simp only [List.mem_cons, List.not_mem_nil, or_false] at hd
    rcases hd with rfl <;> cases v <;>
      simp [IndexOpts.apply, setattr, appendattr, nsOf, kwargsOf, ofPy, PyVal.ofOpt]
  · simp only [List.mem_cons, List.not_mem_nil, or_false, not_or] at hd
    cases v <;> simp [IndexOpts.apply, hd]

theorem sort_step (o : SortOpts) (e : Event) :
    nsOf (kwargsOf (.sort (o.apply e))) = applyEvent (genModule .sort).arguments (nsOf (kwargsOf (.sort o))) e := by
  have ht : optActs (genModule .sort).arguments = [("outgaf", some (.store "outgaf")), ("outind", some (.store "outind")), ("bgzip", some (.storeTrue "bgzip"))] := by decide
  rcases e with ⟨d, v⟩
  unfold applyEvent
  rw [ht]
  by_cases hd : d ∈ ["outgaf", "outind", "bgzip"]
  · simp only [List.mem_cons, List.not_mem_nil, or_false] at hd
    rcases hd with rfl | rfl | rfl <;> cases v <;>
      simp [SortOpts.apply, setattr, appendattr, nsOf, kwargsOf, ofPy, PyVal.ofOpt]
  · simp only [List.mem_cons, List.not_mem_nil, or_false, not_or] at hd
    cases v <;> simp [SortOpts.apply, hd]

theorem stat_step (o : StatOpts) (e : Event) :
    nsOf (kwargsOf (.stat (o.apply e))) = applyEvent (genModule .stat).arguments (nsOf (kwargsOf (.stat o))) e := by
  have ht : optActs (genModule .stat).arguments = [("output", some (.store "output")), ("cigar_stat", some (.storeTrue "cigar_stat"))] := by decide
  rcases e with ⟨d, v⟩
  unfold applyEvent
  rw [ht]
  by_cases hd : d ∈ ["output", "cigar_stat"]
  · simp only [List.mem_cons, List.not_mem_nil, or_false] at hd
    rcases hd with rfl | rfl <;> cases v <;>
      simp [StatOpts.apply, setattr, appendattr, nsOf, kwargsOf, ofPy, PyVal.ofOpt]
  · simp only [List.mem_cons, List.not_mem_nil, or_false, not_or] at hd
    cases v <;> simp [StatOpts.apply, hd]

theorem phase_step (o : PhaseOpts) (e : Event) :
    nsOf (kwargsOf (.phase (o.apply e))) = applyEvent (genModule .phase).arguments (nsOf (kwargsOf (.phase o))) e := by
  have ht : optActs (genModule .phase).arguments = [("output", some (.store "output"))] := by decide
  rcases e with ⟨d, v⟩
  unfold applyEvent
  rw [ht]
  by_cases hd : d ∈ ["output"]
  · simp only [List.mem_cons, List.not_mem_nil, or_false] at hd
    rcases hd with rfl <;> cases v <;>
      simp [PhaseOpts.apply, setattr, appendattr, nsOf, kwargsOf, ofPy, PyVal.ofOpt]
  · simp only [List.mem_cons, List.not_mem_nil, or_false, not_or] at hd
    cases v <;> simp [PhaseOpts.apply, hd]

theorem realign_step (o : RealignOpts) (e : Event) :
    nsOf (kwargsOf (.realign (o.apply e))) = applyEvent (genModule .realign).arguments (nsOf (kwargsOf (.realign o))) e := by
  have ht : optActs (genModule .realign).arguments = [("output", some (.store "output")), ("cores", some (.storeInt "cores"))] := by decide
  rcases e with ⟨d, v⟩
  unfold applyEvent
  rw [ht]
  by_cases hd : d ∈ ["output", "cores"]
  · simp only [List.mem_cons, List.not_mem_nil, or_false] at hd
    rcases hd with rfl | rfl <;> cases v <;>
      simp [RealignOpts.apply, setattr, appendattr, nsOf, kwargsOf, ofPy, PyVal.ofOpt]
  · simp only [List.mem_cons, List.not_mem_nil, or_false, not_or] at hd
    cases v <;> simp [RealignOpts.apply, hd]

theorem find_path_step (o : FindPathOpts) (e : Event) :
    nsOf (kwargsOf (.find_path (o.apply e))) = applyEvent (genModule .find_path).arguments (nsOf (kwargsOf (.find_path o))) e := by
  have ht : optActs (genModule .find_path).arguments = [("output", some (.store "output")), ("fasta", some (.storeTrue "fasta"))] := by decide
  rcases e with ⟨d, v⟩
  unfold applyEvent
  rw [ht]
  by_cases hd : d ∈ ["output", "fasta"]
  · simp only [List.mem_cons, List.not_mem_nil, or_false] at hd
    rcases hd with rfl | rfl <;> cases v <;>
      simp [FindPathOpts.apply, setattr, appendattr, nsOf, kwargsOf, ofPy, PyVal.ofOpt]
  · simp only [List.mem_cons, List.not_mem_nil, or_false, not_or] at hd
    cases v <;> simp [FindPathOpts.apply, hd]

theorem order_gfa_step (o : OrderOpts) (e : Event) :
    nsOf (kwargsOf (.order_gfa (o.apply e))) = applyEvent (genModule .order_gfa).arguments (nsOf (kwargsOf (.order_gfa o))) e := by
  have ht : optActs (genModule .order_gfa).arguments = [("chromosome_order", some (.store "chromosome_order")), ("with_sequence", some (.storeTrue "with_sequence")), ("outdir", some (.store "outdir")), ("by_chrom", some (.storeTrue "by_chrom"))] := by decide
  rcases e with ⟨d, v⟩
  unfold applyEvent
  rw [ht]
  by_cases hd : d ∈ ["chromosome_order", "with_sequence", "outdir", "by_chrom"]
  · simp only [List.mem_cons, List.not_mem_nil, or_false] at hd
    rcases hd with rfl | rfl | rfl | rfl <;> cases v <;>
      simp [OrderOpts.apply, setattr, appendattr, nsOf, kwargsOf, ofPy, PyVal.ofOpt]
  · simp only [List.mem_cons, List.not_mem_nil, or_false, not_or] at hd
    cases v <;> simp [OrderOpts.apply, hd]

/-- the namespace of the model for ANY list of stored values (`build` = the positionals, the defaults of the structure, then
    `XOpts.apply` event by event), read as keyword arguments, is the namespace argparse makes of the generated declarations:
    `initialNs` (every `dest` in declaration order with its `default=`), then `take_action` event by event -/
theorem namespace_gen (sub : Sub) (pos : List String) (evs : List Event) (o : Opts) (h : build sub pos evs = some o) :
    nsOf (kwargsOf o) = evs.foldl (applyEvent (genModule sub).arguments) (initialNs (genModule sub).arguments pos) := by
  cases sub <;> rcases pos with _ | ⟨a, _ | ⟨b, _ | ⟨c, _ | ⟨d, _⟩⟩⟩⟩ <;> simp only [build, reduceCtorEq, Option.some.injEq] at h <;> subst h
  · exact (foldl_commute ViewOpts.apply _ (fun o => nsOf (kwargsOf (.view o))) view_step evs _).trans (by rfl)
  · exact (foldl_commute IndexOpts.apply _ (fun o => nsOf (kwargsOf (.index o))) index_step evs _).trans (by rfl)
  · exact (foldl_commute SortOpts.apply _ (fun o => nsOf (kwargsOf (.sort o))) sort_step evs _).trans (by rfl)
  · exact (foldl_commute StatOpts.apply _ (fun o => nsOf (kwargsOf (.stat o))) stat_step evs _).trans (by rfl)
  · exact (foldl_commute PhaseOpts.apply _ (fun o => nsOf (kwargsOf (.phase o))) phase_step evs _).trans (by rfl)
  · exact (foldl_commute RealignOpts.apply _ (fun o => nsOf (kwargsOf (.realign o))) realign_step evs _).trans (by rfl)
  · exact (foldl_commute FindPathOpts.apply _ (fun o => nsOf (kwargsOf (.find_path o))) find_path_step evs _).trans (by rfl)
  · exact (foldl_commute OrderOpts.apply _ (fun o => nsOf (kwargsOf (.order_gfa o))) order_gfa_step evs _).trans (by rfl)

/-- no option given: the defaults of the model's structures are the `default=` of the declarations (`None` / `False` where the
    keyword is missing), attribute by attribute, in declaration order -/
theorem defaults_gen (sub : Sub) (pos : List String) (o : Opts) (h : build sub pos [] = some o) :
    nsOf (kwargsOf o) = initialNs (genModule sub).arguments pos := namespace_gen sub pos [] o h

theorem build_sub (sub : Sub) (pos : List String) (evs : List Event) (o : Opts) (h : build sub pos evs = some o) : o.sub = sub := by
  cases sub <;> rcases pos with _ | ⟨a, _ | ⟨b, _ | ⟨c, _ | ⟨d, _⟩⟩⟩⟩ <;> simp only [build, reduceCtorEq, Option.some.injEq] at h <;> subst h <;> rfl

/-- … and for a real parse: the positionals and the stored values of the scan -/
theorem namespace_of_parse (argv : List String) (p : Parsed) (h : parseArgs argv = .ok p) :
    ∃ t, parseTrace argv = .ok t ∧ t.sub = p.opts.sub ∧ t.debug = p.debug ∧
      nsOf (kwargsOf p.opts) = t.st.evs.foldl (applyEvent (genModule p.opts.sub).arguments) (initialNs (genModule p.opts.sub).arguments t.st.pos) := by
  unfold parseArgs at h
  cases ht : parseTrace argv with
  | error e => simp [ht] at h
  | ok t =>
    simp only [ht] at h
    cases hb : build t.sub t.st.pos t.st.evs with
    | none => simp [hb] at h
    | some o =>
      simp only [hb, Except.ok.injEq] at h
      subst h
      have hs := build_sub _ _ _ _ hb
      exact ⟨t, rfl, hs.symm, rfl, by simpa [hs] using namespace_gen _ _ _ _ hb⟩

/-! ## `validate` -/

@[simp] theorem truthyM_ok (v : PyV) : CliArgs.truthyM (.ok v) = .ok v.truthy := rfl
@[simp] theorem andM_ok (a b : Bool) : CliArgs.andM (.ok a) (.ok b) = .ok (a && b) := by cases a <;> rfl
@[simp] theorem orM_ok (a b : Bool) : CliArgs.orM (.ok a) (.ok b) = .ok (a || b) := by cases a <;> rfl
@[simp] theorem notM_ok (a : Bool) : CliArgs.notM (.ok a) = .ok (!a) := rfl
@[simp] theorem inM_ok (v : PyV) (l : List PyV) : CliArgs.inM (.ok v) l = .ok (l.contains v) := rfl
@[simp] theorem ifM_ok (c : Bool) (t e : CliArgs.VRes) : CliArgs.ifM (.ok c) t e = if c then t else e := by cases c <;> rfl

/-- Python's truth value of an optional string is the model's `truthy` -/
theorem truthy_ofOpt (x : Option String) : (ofPy (PyVal.ofOpt x)).truthy = truthy x := by cases x <;> rfl

theorem truthy_list (l : List String) : (ofPy (.list l)).truthy = !l.isEmpty := rfl

theorem truthy_bool (b : Bool) : (ofPy (.bool b)).truthy = b := rfl

theorem contains_ofOpt (x : Option String) (a b : String) :
    [PyV.str a, PyV.str b].contains (ofPy (PyVal.ofOpt x)) = (x == some a || x == some b) := by
  cases x with
  | none => simp [ofPy, PyVal.ofOpt]
  | some v =>
    rw [Bool.eq_iff_iff]
    simp [ofPy, PyVal.ofOpt, @eq_comm _ a, @eq_comm _ b]

theorem validate_view_gen (dbg : Bool) (o : ViewOpts) : CliArgs.validate_view (parsedArgs ⟨dbg, .view o⟩) = .ok (Cli.validate (.view o)) := by
  have h1 : CliArgs.attr (parsedArgs ⟨dbg, .view o⟩) "format" = .ok (ofPy (.ofOpt o.format)) := rfl
  have h2 : CliArgs.attr (parsedArgs ⟨dbg, .view o⟩) "nodes" = .ok (ofPy (.list o.nodes)) := rfl
  have h3 : CliArgs.attr (parsedArgs ⟨dbg, .view o⟩) "regions" = .ok (ofPy (.list o.regions)) := rfl
  have h4 : CliArgs.attr (parsedArgs ⟨dbg, .view o⟩) "gfa" = .ok (ofPy (.ofOpt o.gfa)) := rfl
  simp only [CliArgs.validate_view, h1, h2, h3, h4, truthyM_ok, andM_ok, notM_ok, inM_ok, ifM_ok, truthy_ofOpt, truthy_list,
    contains_ofOpt, Cli.validate]
  split
  · rfl
  · split
    · rfl
    · split <;> rfl

theorem validate_sort_gen (dbg : Bool) (o : SortOpts) : CliArgs.validate_sort (parsedArgs ⟨dbg, .sort o⟩) = .ok (Cli.validate (.sort o)) := by
  have h1 : CliArgs.attr (parsedArgs ⟨dbg, .sort o⟩) "bgzip" = .ok (ofPy (.bool o.bgzip)) := rfl
  have h2 : CliArgs.attr (parsedArgs ⟨dbg, .sort o⟩) "outgaf" = .ok (ofPy (.ofOpt o.outgaf)) := rfl
  have h3 : CliArgs.attr (parsedArgs ⟨dbg, .sort o⟩) "outind" = .ok (ofPy (.ofOpt o.outind)) := rfl
  simp only [CliArgs.validate_sort, h1, h2, h3, truthyM_ok, andM_ok, notM_ok, ifM_ok, truthy_ofOpt, truthy_bool, Cli.validate]
  split
  · rfl
  · split <;> rfl

/-- `validate(args, subparser)` of the module, on the namespace of the model: it returns (`.ok none`) or calls
    `parser.error(msg)` (`.ok (some msg)`) exactly as `Cli.validate` says, and never raises; a module without `validate` accepts -/
theorem validate_gen (p : Parsed) : runValidate (genModule p.opts.sub) (parsedArgs p) = .ok (Cli.validate p.opts) := by
  rcases p with ⟨dbg, o⟩
  cases o with
  | view o => exact validate_view_gen dbg o
  | sort o => exact validate_sort_gen dbg o
  | index o => rfl
  | stat o => rfl
  | phase o => rfl
  | realign o => rfl
  | find_path o => rfl
  | order_gfa o => rfl

/-- `realign` and `order_gfa` have no `validate`; the other six have one -/
theorem validate_absent (sub : Sub) : (genModule sub).validate.isNone = (sub == .realign || sub == .order_gfa) := by
  cases sub <;> rfl

/-! ## the entry point and its keyword arguments -/

/-- `module.main(args)` calls `<package>.<module>.<function>` -/
theorem entryPoint_gen (sub : Sub) :
    entryPoint sub = CliArgs.cliPackage ++ "." ++ (genModule sub).name ++ "." ++ (genModule sub).entry := by
  cases sub <;> decide

/-- `f(**vars(args))` binds: every keyword is a parameter of `f`, every parameter of `f` without a default is given, no keyword
    twice (so the call is no `TypeError`) -/
theorem kwargs_fit_params (o : Opts) :
    (∀ k ∈ (kwargsOf o).map (·.1), k ∈ (genModule o.sub).entryParams.map (·.1)) ∧
    (∀ q ∈ (genModule o.sub).entryParams, q.2 = false → q.1 ∈ (kwargsOf o).map (·.1)) ∧
    ((kwargsOf o).map (·.1)).Nodup := by
  cases o <;> simp only [kwargsOf, List.map, Opts.sub] <;> decide

/-! ## `__main__.main` after `parse_args` -/

/-- what the model's `dispatch` says happens after a successful parse, in the words of the generated file -/
def expected (p : Parsed) : CliArgs.Outcome :=
  match Cli.validate p.opts with
  | some msg => .usage msg
  | none => .call (callOf p.opts).fn (nsOf (callOf p.opts).kwargs) "CommandLineError" 1

theorem runMain_view (dbg : Bool) (o : ViewOpts) : CliArgs.runMain (parsedArgs ⟨dbg, .view o⟩) = expected ⟨dbg, .view o⟩ := by
  have hv := validate_view_gen dbg o
  generalize hA : parsedArgs ⟨dbg, .view o⟩ = A at hv
  have a1 : CliArgs.attr A "debug" = .ok (.bool dbg) := by subst hA; rfl
  have a2 : A.any (fun p => p.1 == "module") = true := by subst hA; rfl
  have a3 : CliArgs.attr A "module" = .ok (.moduleObj "view") := by subst hA; rfl
  have a4 : CliArgs.attr A "subparser" = .ok (.parserObj "view") := by subst hA; rfl
  have a5 : CliArgs.moduleOf CliArgs.modules (.moduleObj "view") = some CliArgs.module_view := rfl
  have a6 : CliArgs.module_view.validate = some CliArgs.validate_view := rfl
  have a7 : CliArgs.module_view.has "validate" = true := rfl
  simp only [CliArgs.runMain, CliArgs.mainTail, CliArgs.runSteps, CliArgs.runStep, a1, a2, a3, a4, a5, CliArgs.Env.ref, if_true]
  simp [a5, a6, a7, hv]
  subst hA
  unfold expected
  cases Cli.validate (Opts.view o) <;> rfl

theorem runMain_sort (dbg : Bool) (o : SortOpts) : CliArgs.runMain (parsedArgs ⟨dbg, .sort o⟩) = expected ⟨dbg, .sort o⟩ := by
  have hv := validate_sort_gen dbg o
  generalize hA : parsedArgs ⟨dbg, .sort o⟩ = A at hv
  have a1 : CliArgs.attr A "debug" = .ok (.bool dbg) := by subst hA; rfl
  have a2 : A.any (fun p => p.1 == "module") = true := by subst hA; rfl
  have a3 : CliArgs.attr A "module" = .ok (.moduleObj "sort") := by subst hA; rfl
  have a4 : CliArgs.attr A "subparser" = .ok (.parserObj "sort") := by subst hA; rfl
  have a5 : CliArgs.moduleOf CliArgs.modules (.moduleObj "sort") = some CliArgs.module_sort := rfl
  have a6 : CliArgs.module_sort.validate = some CliArgs.validate_sort := rfl
  have a7 : CliArgs.module_sort.has "validate" = true := rfl
  simp only [CliArgs.runMain, CliArgs.mainTail, CliArgs.runSteps, CliArgs.runStep, a1, a2, a3, a4, a5, CliArgs.Env.ref, if_true]
  simp [a5, a6, a7, hv]
  subst hA
  unfold expected
  cases Cli.validate (Opts.sort o) <;> rfl

/-- the statements of `__main__.main` after `parse_args`, run on the namespace of the model: the message of `validate` through
    `parser.error`, or the entry point called with exactly `kwargsOf` (the attributes `subparser`, `module`, `debug` deleted
    before the call, nothing else), a `CommandLineError` from it ending the process with status 1; nothing raises on the way -/
theorem runMain_gen (p : Parsed) : CliArgs.runMain (parsedArgs p) = expected p := by
  rcases p with ⟨dbg, o⟩
  cases o with
  | view o => exact runMain_view dbg o
  | sort o => exact runMain_sort dbg o
  | index o => rfl
  | stat o => rfl
  | phase o => rfl
  | realign o => rfl
  | find_path o => rfl
  | order_gfa o => rfl

/-- the model's outcome in the words of the generated file (only what can follow a successful parse) -/
def outcomeOf : Cli.Outcome → Option CliArgs.Outcome
  | .usage (.refused msg) => some (.usage msg)
  | .call _ c => some (.call c.fn (nsOf c.kwargs) "CommandLineError" 1)
  | _ => none

/-- `Cli.dispatch`, for a command line that parses, is `__main__.main` run on the parsed namespace -/
theorem dispatch_gen (argv : List String) (p : Parsed) (h : parseArgs argv = .ok p) :
    outcomeOf (dispatch argv) = some (CliArgs.runMain (parsedArgs p)) ∧ (∀ d c, dispatch argv = .call d c → d = p.debug) := by
  have hd : dispatch argv = match Cli.validate p.opts with
      | some msg => .usage (.refused msg)
      | none => .call p.debug (callOf p.opts) := by
    unfold dispatch accepted; simp only [h]; cases Cli.validate p.opts <;> rfl
  rw [runMain_gen, hd]
  unfold expected
  cases Cli.validate p.opts with
  | none => exact ⟨rfl, fun d c hc => by injection hc with h1 h2; exact h1.symm⟩
  | some msg => exact ⟨rfl, fun d c hc => by cases hc⟩

/-- a namespace without `module` (argparse returns one when no sub-command is named: sub-parsers are not required) is refused
    with that message; the model calls this end `.noSubcommand` -/
theorem noSubcommand_gen (dbg : Bool) :
    CliArgs.runMain (initialNs CliArgs.topArguments [] |>.map (fun q => (q.1, if q.1 == "debug" then .bool dbg else q.2))) =
      .usage "Please provide the name of a subcommand to run" ∧
    scanTop [] dbg false = .error (.usage .noSubcommand) := ⟨by cases dbg <;> decide, rfl⟩

/-! ## exit statuses -/

/-- every `parser.error` of the model ends with the status `HelpfulArgumentParser.error` passes to `exit` -/
theorem usage_status_gen (argv : List String) (fmt : Option Bool) (ix : Bool) (w : Why) (h : accepted argv = .error (.usage w)) :
    (effect argv fmt ix).status = some CliArgs.parserErrorStatus := by
  unfold effect; rw [h]; rfl

/-- a `CommandLineError` of `view.run` ends with the status of the `except` clause of `__main__.main` -/
theorem commandLineError_status_gen (argv : List String) (fmt : Option Bool) (ix dbg : Bool) (o : ViewOpts) (m : String)
    (h : accepted argv = .ok ⟨dbg, .view o⟩) (hh : viewHead fmt o ix = .commandLineError m) :
    ∃ fn kw st, CliArgs.runMain (parsedArgs ⟨dbg, .view o⟩) = .call fn kw "CommandLineError" st ∧ (effect argv fmt ix).status = some st := by
  have hv : Cli.validate (.view o) = none := by
    unfold accepted at h
    cases hp : parseArgs argv with
    | error e => simp [hp] at h
    | ok p =>
      simp only [hp] at h
      cases hv : Cli.validate p.opts with
      | some msg => simp [hv] at h
      | none => simp [hv] at h; subst h; exact hv
  refine ⟨(callOf (.view o)).fn, nsOf (callOf (.view o)).kwargs, 1, ?_, ?_⟩
  · rw [runMain_gen]; unfold expected; simp only [hv]
  · unfold effect; rw [h]; simp only [hh]

end Gaftools.TieA26
