import Gaftools.Model.Phase
import Gaftools.Spec.Phase
import Gaftools.Props.C16
/-!
# C20 — phase annotates every record without altering it
-/
namespace Gaftools.C20
open Gaftools.Gaf Gaftools.Phase Gaftools.Spec.Gaf Gaftools.Spec.Phase Gaftools.Proofs.Gaf

/-! helper lemmas -/
theorem find?_foldl_tsvStep (q : Str) (es acc : List TsvEntry) :
    (es.foldl tsvStep acc).find? (·.read == q) = (acc.find? (·.read == q)).or (es.find? (·.read == q)) := by
  induction es generalizing acc with
  | nil => simp
  | cons e es ih =>
    rw [List.foldl_cons, ih]
    unfold tsvStep
    by_cases hany : acc.any (·.read == e.read) = true
    · rw [if_pos hany]
      cases hacc : acc.find? (·.read == q) with
      | some x => rfl
      | none =>
        have hne : ¬ (e.read == q) = true := by
          intro heq
          rw [List.any_eq_true] at hany
          obtain ⟨x, hx, hxe⟩ := hany
          rw [List.find?_eq_none] at hacc
          apply hacc x hx
          rw [beq_iff_eq] at hxe heq ⊢
          exact hxe.trans heq
        simp only [Option.none_or, List.find?_cons]
        simp only [hne]
    · rw [if_neg hany, List.find?_append, Option.or_assoc]
      congr 1
      simp only [List.find?_cons, List.find?_nil]
      cases (e.read == q) <;> simp

theorem mapM_option_spec {α β : Type} (f : α → Option β) (l : List α) (out : List β) (h : l.mapM f = some out) :
    out.length = l.length ∧ ∀ i (hi : i < l.length), ∃ r, f l[i] = some r ∧ out[i]? = some r := by
  induction l generalizing out with
  | nil =>
    simp only [List.mapM_nil] at h
    cases h
    exact ⟨rfl, fun i hi => absurd hi (Nat.not_lt_zero _)⟩
  | cons a l ih =>
    rw [List.mapM_cons] at h
    cases hfa : f a with
    | none => simp [hfa] at h
    | some b =>
      cases hl : l.mapM f with
      | none => simp [hfa, hl] at h
      | some bs =>
        simp only [hfa, hl, Option.pure_def, Option.bind_eq_bind, Option.bind_some, Option.some.injEq] at h
        subst h
        obtain ⟨hlen, hget⟩ := ih bs hl
        refine ⟨by simp [hlen], ?_⟩
        intro i hi
        cases i with
        | zero => exact ⟨b, hfa, rfl⟩
        | succ i =>
          obtain ⟨r, hr, ho⟩ := hget i (by simpa using hi)
          exact ⟨r, by simpa using hr, by simpa using ho⟩

/-- the dict built from the TSV answers like "first line naming the read" -/
theorem lookup_first (es : List TsvEntry) (q : Str) :
    lookupPhase (buildPhase es) q = es.find? (·.read == q) := by
  unfold lookupPhase buildPhase
  rw [find?_foldl_tsvStep]
  rfl

/-- one record in, one record out, i-th from i-th -/
theorem phase_lines (tsv gaf out : List Str) (h : phaseFile tsv gaf = some out) :
    out.length = gaf.length ∧
    ∃ es, tsv.mapM parseTsvLine = some es ∧
      ∀ i (hi : i < gaf.length), ∃ r, parseLine gaf[i] = some r ∧ out[i]? = some (joinTab (phaseFields (buildPhase es) r)) := by
  unfold phaseFile at h
  cases hes : tsv.mapM parseTsvLine with
  | none => simp [hes] at h
  | some es =>
    cases hrs : gaf.mapM parseLine with
    | none => simp [hes, hrs] at h
    | some recs =>
      simp only [hes, hrs, Option.pure_def, Option.bind_eq_bind, Option.bind_some, Option.some.injEq] at h
      subst h
      obtain ⟨hlen, hget⟩ := mapM_option_spec parseLine gaf recs hrs
      refine ⟨by simp [hlen], es, rfl, ?_⟩
      intro i hi
      obtain ⟨r, hr, ho⟩ := hget i hi
      exact ⟨r, hr, by simp [ho]⟩

/-- every record keeps its twelve columns (strand included) and its optional fields and gains ps:Z / ht:Z with the
    values of the first TSV line of that read -/
theorem phase_record (es : List TsvEntry) (fs : List Str) (h : wfFields fs = true) (hr : noRepeatedTag fs = true) :
    (parseFields fs).map (phaseFields (buildPhase es)) = some (specFields es fs) := by
  obtain ⟨r, hp, hm, hq, ht⟩ := parse_tags_of_noRepeated fs h hr
  rw [hp, Option.map_some]
  congr 1
  unfold phaseFields specFields
  rw [hm, ht, hq]
  congr 2
  unfold phaseTags specValues
  rw [lookup_first]
  cases es.find? (·.read == cutAtSpace (fs.headD [])) with
  | none => rfl
  | some e =>
    by_cases hh : e.hap = noneStr
    · simp only [hh, bne_self_eq_false, Bool.false_eq_true, if_false, beq_self_eq_true, if_true]; rfl
    · have h1 : (e.hap != noneStr) = true := by simpa using hh
      have h2 : ¬ (e.hap == noneStr) = true := by simpa using hh
      simp only [h1, h2, if_true, List.append_assoc, Bool.false_eq_true, if_false]

/-! ### why `phase_wellformed` needs the hypothesis `hlast`

Without it the statement is false: `wfFields fs` only constrains the *last* optional field not to end in a
blank; when that field is a `ds:Z:` field it is dropped and an earlier field ending in a blank becomes last. -/
def cxFields : List Str := ["r1", "100", "0", "100", "+", ">s1", "3293", "0", "100", "97", "100", "60",
  "XX:Z:foo ", "ds:Z:abc"].map String.toList
example : wfFields cxFields = true ∧ noRepeatedTag cxFields = true ∧ wfFields (specFields [] cxFields) = false := by decide

theorem wfFields_of {f0 f1 f2 f3 f4 f5 f6 f7 f8 f9 f10 f11 : Str} {opt : List Str}
    (h0 : f0 ≠ []) (h0a : f0.all printableSp = true) (h0h : f0.head? ≠ some ' ')
    (h1 : canonDec f1 = true) (h2 : canonDec f2 = true) (h3 : canonDec f3 = true) (h4 : f4.all printable = true)
    (h5 : f5.all printable = true) (h5n : f5 ≠ [])
    (h6 : canonDec f6 = true) (h7 : canonDec f7 = true) (h8 : canonDec f8 = true) (h9 : canonDec f9 = true)
    (h10 : canonDec f10 = true) (h11 : canonDec f11 = true) (hopt : opt.all wfTag = true)
    (hl : ∀ l, (f11 :: opt).getLast? = some l → ∀ c, l.getLast? = some c → c ≠ ' ') :
    wfFields (f0 :: f1 :: f2 :: f3 :: f4 :: f5 :: f6 :: f7 :: f8 :: f9 :: f10 :: f11 :: opt) = true := by
  unfold wfFields
  have e0 : f0.isEmpty = false := by cases f0 <;> simp_all
  have e5 : f5.isEmpty = false := by cases f5 <;> simp_all
  have eh : (f0.head? != some ' ') = true := by simpa using h0h
  simp only [e0, e5, eh, h0a, h1, h2, h3, h4, h5, h6, h7, h8, h9, h10, h11, hopt, Bool.not_false, Bool.and_self,
    Bool.true_and]
  split
  · rename_i l hL
    split
    · rename_i c hc
      simpa using hl l hL c hc
    · rfl
  · rfl

theorem cutAtSpace_wf {f0 : Str} (h0 : f0 ≠ []) (h0a : f0.all printableSp = true) (h0h : f0.head? ≠ some ' ') :
    cutAtSpace f0 ≠ [] ∧ (cutAtSpace f0).all printableSp = true ∧ (cutAtSpace f0).head? ≠ some ' ' := by
  cases f0 with
  | nil => exact absurd rfl h0
  | cons c t =>
    have hc : c ≠ ' ' := by simpa using h0h
    have hcut : cutAtSpace (c :: t) = c :: cutAtSpace t := by
      simp [cutAtSpace, hc]
    rw [hcut]
    refine ⟨by simp, ?_, by simpa using hc⟩
    rw [← hcut, List.all_eq_true]
    intro x hx
    exact List.all_eq_true.1 h0a x ((List.takeWhile_sublist _).subset hx)

theorem wfTag_psht (a b : Char) (ha : a.isAlpha = true) (hb : b.isAlphanum = true) (v : Str)
    (hv : v.all printableSp = true) : wfTag (a :: b :: ':' :: 'Z' :: ':' :: v) = true := by
  simp [wfTag, ha, hb, hv, isTagType]

theorem specValues_wf (es : List TsvEntry) (hes : ∀ e ∈ es, wfEntry e = true) (q : Str) :
    (specValues es q).1.all printable = true ∧ (specValues es q).2.all printable = true := by
  unfold specValues
  cases hf : es.find? (·.read == q) with
  | none => exact ⟨by decide, by decide⟩
  | some e =>
    have hw := hes e (List.mem_of_find?_eq_some hf)
    simp only [wfEntry, Bool.and_eq_true] at hw
    by_cases hh : (e.hap == noneStr) = true
    · simp only [hh, if_true]; exact ⟨by decide, by decide⟩
    · simp only [hh, Bool.false_eq_true, if_false, List.all_append, Bool.and_eq_true]
      exact ⟨⟨⟨hw.1.2, by decide⟩, hw.2⟩, hw.1.1.2⟩

/-- the output is again a well-formed GAF line (no empty column, no doubled separator, tags intact), provided the last
    *kept* optional field does not end in a blank
    (implied e.g. by "the last optional field is not `ds:Z:`" or by "no optional field ends in a blank") -/
theorem phase_wellformed (es : List TsvEntry) (hes : ∀ e ∈ es, wfEntry e = true)
    (fs : List Str) (h : wfFields fs = true)
    (hlast : ∀ l, (keptOpt (fs.drop 12)).getLast? = some l → l.getLast? ≠ some ' ') :
    wfFields (specFields es fs) = true := by
  obtain ⟨f0, f1, f2, f3, f4, f5, f6, f7, f8, f9, f10, f11, opt, rfl, h0, h0a, h0h, h1, h2, h3, h4, h5, h5n,
    h6, h7, h8, h9, h10, h11, hopt, hl⟩ := wfFields_cases h
  obtain ⟨c0, c0a, c0h⟩ := cutAtSpace_wf h0 h0a h0h
  obtain ⟨hv1, hv2⟩ := specValues_wf es hes (cutAtSpace f0)
  have hshape : specFields es (f0 :: f1 :: f2 :: f3 :: f4 :: f5 :: f6 :: f7 :: f8 :: f9 :: f10 :: f11 :: opt) =
      cutAtSpace f0 :: f1 :: f2 :: f3 :: f4 :: f5 :: f6 :: f7 :: f8 :: f9 :: f10 :: f11 ::
        (('p' :: 's' :: ':' :: 'Z' :: ':' :: (specValues es (cutAtSpace f0)).1) ::
         ('h' :: 't' :: ':' :: 'Z' :: ':' :: (specValues es (cutAtSpace f0)).2) :: keptOpt opt) := rfl
  rw [hshape]
  generalize specValues es (cutAtSpace f0) = v at hv1 hv2
  have hkept : (keptOpt opt).all wfTag = true := by
    rw [List.all_eq_true]
    exact fun k hk => List.all_eq_true.1 hopt k (mem_keptOpt hk)
  apply wfFields_of c0 c0a c0h h1 h2 h3 h4 h5 h5n h6 h7 h8 h9 h10 h11
  · simp only [List.all_cons, Bool.and_eq_true]
    exact ⟨wfTag_psht _ _ (by decide) (by decide) _ (all_printableSp_of_printable hv1),
      wfTag_psht _ _ (by decide) (by decide) _ (all_printableSp_of_printable hv2), hkept⟩
  · intro l hL c hc
    rw [List.getLast?_cons_cons, List.getLast?_cons_cons] at hL
    cases hk : keptOpt opt with
    | nil =>
      rw [hk] at hL
      simp only [List.getLast?_singleton, Option.some.injEq] at hL
      subst hL
      have hm := List.mem_of_getLast? hc
      have : ('h' :: 't' :: ':' :: 'Z' :: ':' :: v.2).all printable = true := by
        simp only [List.all_cons, hv2, Bool.and_true]; decide
      exact printable_ne_space (List.all_eq_true.1 this c hm)
    | cons k ks =>
      rw [hk, List.getLast?_cons_cons] at hL
      have := hlast l (by simpa [hk] using hL)
      intro hcs
      exact this (hcs ▸ hc)

/-! non-vacuity -/
def exTsv : List TsvEntry := [⟨"r1".toList, "H1".toList, "555".toList, "chr1".toList⟩, ⟨"r1".toList, "H2".toList, "9".toList, "chr2".toList⟩,
  ⟨"r9".toList, "none".toList, "none".toList, "chr1".toList⟩]
example : (parseFields C16.exLine).map (phaseFields (buildPhase exTsv)) = some (specFields exTsv C16.exLine) := by decide
example : specValues exTsv "r1".toList = ("chr1-555".toList, "H1".toList) := by decide
example : specValues exTsv "r9".toList = (noneStr, noneStr) := by decide
example : wfFields (specFields exTsv C16.exLine) = true := by decide

end Gaftools.C20
