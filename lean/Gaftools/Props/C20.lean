import Gaftools.Model.Phase
import Gaftools.Props.C16
/-!
# C20 — phase annotates every record without altering it
-/
namespace Gaftools.C20
open Gaftools.Gaf Gaftools.Phase Gaftools.Spec.Gaf

/-- SPEC: the haplotype / phase-set values of a read: first TSV line naming the read; 'none' when absent or unphased -/
def specValues (es : List TsvEntry) (q : Str) : Str × Str :=
  match es.find? (·.read == q) with
  | some e => if e.hap == noneStr then (noneStr, noneStr) else (e.chr ++ ['-'] ++ e.pset, e.hap)
  | none => (noneStr, noneStr)

/-- SPEC: the output record = the input's twelve columns, then ps:Z and ht:Z, then the input's optional fields -/
def specFields (es : List TsvEntry) (fs : List Str) : List Str :=
  let e := expected fs
  let v := specValues es (cutAtSpace (fs.headD []))
  e.take 12 ++ ["ps:Z:".toList ++ v.1, "ht:Z:".toList ++ v.2] ++ e.drop 12

/-- the dict built from the TSV answers like "first line naming the read" -/
theorem lookup_first (es : List TsvEntry) (q : Str) :
    lookupPhase (buildPhase es) q = es.find? (·.read == q) := by
  sorry

/-- one record in, one record out, i-th from i-th -/
theorem phase_lines (tsv gaf out : List Str) (h : phaseFile tsv gaf = some out) :
    out.length = gaf.length ∧
    ∃ es, tsv.mapM parseTsvLine = some es ∧
      ∀ i (hi : i < gaf.length), ∃ r, parseLine gaf[i] = some r ∧ out[i]? = some (joinTab (phaseFields (buildPhase es) r)) := by
  sorry

/-- every record keeps its twelve columns (strand included) and its optional fields and gains ps:Z / ht:Z with the
    values of the first TSV line of that read -/
theorem phase_record (es : List TsvEntry) (fs : List Str) (h : wfFields fs = true) (hr : noRepeatedTag fs = true) :
    (parseFields fs).map (phaseFields (buildPhase es)) = some (specFields es fs) := by
  sorry

/-- a TSV entry whose fields are printable and non-empty -/
def wfEntry (e : TsvEntry) : Bool :=
  !e.hap.isEmpty && e.hap.all printable && e.chr.all printable && e.pset.all printable

/-- the output is again a well-formed GAF line (no empty column, no doubled separator, tags intact) -/
theorem phase_wellformed (es : List TsvEntry) (hes : ∀ e ∈ es, wfEntry e = true)
    (fs : List Str) (h : wfFields fs = true) (hr : noRepeatedTag fs = true) :
    wfFields (specFields es fs) = true := by
  sorry

/-! non-vacuity -/
def exTsv : List TsvEntry := [⟨"r1".toList, "H1".toList, "555".toList, "chr1".toList⟩, ⟨"r1".toList, "H2".toList, "9".toList, "chr2".toList⟩,
  ⟨"r9".toList, "none".toList, "none".toList, "chr1".toList⟩]
example : (parseFields C16.exLine).map (phaseFields (buildPhase exTsv)) = some (specFields exTsv C16.exLine) := by decide
example : specValues exTsv "r1".toList = ("chr1-555".toList, "H1".toList) := by decide
example : specValues exTsv "r9".toList = (noneStr, noneStr) := by decide
example : wfFields (specFields exTsv C16.exLine) = true := by decide

end Gaftools.C20
