import Gaftools.Spec.View
import Gaftools.Props.C03s
import Gaftools.Proofs.ViewLemmas
/-!
# C03 — the view index lists exactly the records that traverse each node
# C04 — view --node returns exactly the records touching the nodes
# C05 — view --region returns exactly the records of the nodes under the region

Records are identified by their ordinal in the file: `tell()` before record `i` is the `i`-th offset and offsets are strictly
increasing, so sorting offsets is sorting ordinals and `seek(off i); readline()` is record `i` (C17's interface).
-/
namespace Gaftools.C03
open Gaftools.Gfa Gaftools.Conv Gaftools.View Gaftools.Spec.View Gaftools.Spec.Conv

/-- every node of the graph has its rGFA tags, ids are unique, the per-contig tables are sorted and disjoint -/
structure GoodGraph (g : Graph) : Prop where
  ids : ((infos g).map (·.id)).Nodup
  sorted : ∀ c, SortedDisjoint (reference g c)

/-- a record whose path only mentions nodes of the graph (unstable), or whose every stable interval / span is non-empty and
    overlaps at least one node of its stable sequence (so that the lookup does not raise) -/
def GoodRec (g : Graph) : RecPath → Prop
  | .unstable steps => ∀ s ∈ steps, ∃ n ∈ infos g, n.id = s.2
  | .stable items ps pe => ∀ it ∈ items, match it with
      | .iv _ c s e => s < e ∧ ∃ sg ∈ reference g c, overlaps sg s e = true
      | .bare c => ps < pe ∧ ∃ sg ∈ reference g c, overlaps sg ps pe = true

/-! ## helper lemmas -/

theorem node_unique {g : Graph} (hg : GoodGraph g) {n m : NodeInfo} (hn : n ∈ infos g) (hm : m ∈ infos g)
    (h : n.id = m.id) : n = m :=
  Proofs.View.nodup_map_inj (fun i : NodeInfo => i.id) (infos g) hg.ids n hn m hm h

theorem find_id {g : Graph} (hg : GoodGraph g) {n : NodeInfo} (hn : n ∈ infos g) :
    (infos g).find? (fun i => i.id == n.id) = some n := by
  cases h : (infos g).find? (fun i => i.id == n.id) with
  | none =>
    rw [List.find?_eq_none] at h
    exact absurd (by simp) (h n hn)
  | some m =>
    have h1 := List.find?_some h
    have h2 := List.mem_of_find?_eq_some h
    rw [node_unique hg h2 hn (by simpa using h1)]

theorem key_inj {g : Graph} (hg : GoodGraph g) {n m : NodeInfo} (hn : n ∈ infos g) (hm : m ∈ infos g)
    (h : keyOf n = keyOf m) : n = m :=
  node_unique hg hn hm (congrArg (·.1) h)

/-- `recNodes_iff`, together with the fact that every contributed id is a node of the graph -/
theorem recNodes_spec (g : Graph) (hg : GoodGraph g) (r : RecPath) (hr : GoodRec g r) :
    ∃ ids, recNodes g r = some ids ∧ (∀ a ∈ ids, ∃ n ∈ infos g, n.id = a) ∧
      ∀ n ∈ infos g, (n.id ∈ ids ↔ traverses r n = true) := by
  cases r with
  | unstable steps =>
    refine ⟨steps.map (·.2), rfl, ?_, ?_⟩
    · intro a ha
      obtain ⟨s, hs, rfl⟩ := List.mem_map.mp ha
      exact hr s hs
    · intro n _
      simp only [traverses, List.mem_map, List.any_eq_true, beq_iff_eq]
  | stable items ps pe =>
    have hgood : ∀ it ∈ items, (Proofs.View.itemQ ps pe it).2.1 < (Proofs.View.itemQ ps pe it).2.2 ∧
        ∃ sg ∈ reference g (Proofs.View.itemQ ps pe it).1,
          overlaps sg (Proofs.View.itemQ ps pe it).2.1 (Proofs.View.itemQ ps pe it).2.2 = true := by
      intro it hit
      have := hr it hit
      cases it <;> exact this
    obtain ⟨ids, hids, hmem⟩ := Proofs.View.convertCoord_spec (reference g) hg.sorted ps pe items hgood
    refine ⟨ids, hids, ?_, ?_⟩
    · intro a ha
      obtain ⟨it, _, sg, hsg, _, rfl⟩ := (hmem a).mp ha
      obtain ⟨n, hn, _, rfl⟩ := (Proofs.View.mem_reference g _ sg).mp hsg
      exact ⟨n, hn, rfl⟩
    · intro n hn
      rw [hmem n.id]
      simp only [traverses, List.any_eq_true]
      constructor
      · rintro ⟨it, hit, sg, hsg, hov, hid⟩
        obtain ⟨m, hm, hc, rfl⟩ := (Proofs.View.mem_reference g _ sg).mp hsg
        have : m = n := node_unique hg hm hn hid
        subst this
        refine ⟨it, hit, ?_⟩
        cases it with
        | iv o c s e =>
          simp only [Proofs.View.itemQ] at hc hov
          simp only [overlaps, Bool.and_eq_true, decide_eq_true_eq] at hov
          simp [hc, hov.1, hov.2]
        | bare c =>
          simp only [Proofs.View.itemQ] at hc hov
          simp only [overlaps, Bool.and_eq_true, decide_eq_true_eq] at hov
          simp [hc, hov.1, hov.2]
      · rintro ⟨it, hit, h⟩
        refine ⟨it, hit, ⟨n.id, n.so, n.en⟩, ?_, ?_, rfl⟩
        · rw [Proofs.View.mem_reference]
          refine ⟨n, hn, ?_, rfl⟩
          cases it with
          | iv o c s e =>
            simp only [Bool.and_eq_true, beq_iff_eq, decide_eq_true_eq] at h
            exact h.1.1.symm
          | bare c =>
            simp only [Bool.and_eq_true, beq_iff_eq, decide_eq_true_eq] at h
            exact h.1.1.symm
        · cases it with
          | iv o c s e =>
            simp only [Bool.and_eq_true, beq_iff_eq, decide_eq_true_eq] at h
            simp [Proofs.View.itemQ, overlaps, h.1.2, h.2]
          | bare c =>
            simp only [Bool.and_eq_true, beq_iff_eq, decide_eq_true_eq] at h
            simp [Proofs.View.itemQ, overlaps, h.1.2, h.2]

/-- the nodes one record contributes are exactly the nodes it traverses -/
theorem recNodes_iff (g : Graph) (hg : GoodGraph g) (r : RecPath) (hr : GoodRec g r) :
    ∃ ids, recNodes g r = some ids ∧ ∀ n ∈ infos g, (n.id ∈ ids ↔ traverses r n = true) := by
  obtain ⟨ids, h1, _, h3⟩ := recNodes_spec g hg r hr
  exact ⟨ids, h1, h3⟩

/-- the inner loop of `index.run`: enter record `ord` under every node id of `ids` -/
def addIds (g : Graph) (ord : Nat) (ids : List String) (idx : List (Key × List Nat)) : Option (List (Key × List Nat)) :=
  ids.foldlM (fun idx a => do
    let i ← (infos g).find? (·.id == a)
    return idxAdd idx (keyOf i) ord) idx

def ixStep (g : Graph) (idx : List (Key × List Nat)) (p : RecPath × Nat) : Option (List (Key × List Nat)) := do
  let ids ← recNodes g p.1
  addIds g p.2 ids idx

theorem buildIndex_eq (g : Graph) (recs : List RecPath) : buildIndex g recs = recs.zipIdx.foldlM (ixStep g) [] := by
  unfold buildIndex
  congr 1

/-- keys of the index are keys of graph nodes -/
def KeysGood (g : Graph) (idx : List (Key × List Nat)) : Prop := ∀ e ∈ idx, ∃ n ∈ infos g, keyOf n = e.1

theorem keysGood_idxAdd {g : Graph} {idx : List (Key × List Nat)} (h : KeysGood g idx) {m : NodeInfo}
    (hm : m ∈ infos g) (ord : Nat) : KeysGood g (idxAdd idx (keyOf m) ord) := by
  intro e he
  have := (Proofs.View.mem_idxAdd_keys idx (keyOf m) e.1 ord).mp (List.mem_map.mpr ⟨e, he, rfl⟩)
  rcases this with h1 | h1
  · obtain ⟨e', he', heq⟩ := List.mem_map.mp h1
    obtain ⟨n, hn, hk⟩ := h e' he'
    exact ⟨n, hn, hk.trans heq⟩
  · exact ⟨m, hm, h1.symm⟩

theorem addIds_spec (g : Graph) (hg : GoodGraph g) (ord : Nat) :
    ∀ (ids : List String), (∀ a ∈ ids, ∃ n ∈ infos g, n.id = a) →
    ∀ idx, KeysGood g idx → (idx.map (·.1)).Nodup →
      ∃ idx', addIds g ord ids idx = some idx' ∧ KeysGood g idx' ∧ (idx'.map (·.1)).Nodup ∧
        ∀ n ∈ infos g, ∀ i, Proofs.View.Has idx' (keyOf n) i ↔
          Proofs.View.Has idx (keyOf n) i ∨ (i = ord ∧ n.id ∈ ids) := by
  intro ids
  induction ids with
  | nil =>
    intro _ idx hk hn
    exact ⟨idx, rfl, hk, hn, by simp⟩
  | cons a as ih =>
    intro hids idx hk hn
    obtain ⟨m, hm, rfl⟩ := hids a (by simp)
    have hfind := find_id hg hm
    obtain ⟨idx', h1, h2, h3, h4⟩ := ih (fun a ha => hids a (by simp [ha])) (idxAdd idx (keyOf m) ord)
      (keysGood_idxAdd hk hm ord) (Proofs.View.idxAdd_nodup idx _ ord hn)
    refine ⟨idx', ?_, h2, h3, ?_⟩
    · unfold addIds at h1 ⊢
      rw [List.foldlM_cons, hfind]
      exact h1
    · intro n hn' i
      rw [h4 n hn' i, Proofs.View.has_idxAdd]
      constructor
      · rintro ((h | ⟨hkk, rfl⟩) | ⟨rfl, h⟩)
        · exact Or.inl h
        · exact Or.inr ⟨rfl, by simp [key_inj hg hn' hm hkk]⟩
        · exact Or.inr ⟨rfl, by simp [h]⟩
      · rintro (h | ⟨rfl, h⟩)
        · exact Or.inl (Or.inl h)
        · rcases List.mem_cons.mp h with h | h
          · exact Or.inl (Or.inr ⟨by rw [node_unique hg hn' hm h], rfl⟩)
          · exact Or.inr ⟨rfl, h⟩

theorem outer_spec (g : Graph) (hg : GoodGraph g) :
    ∀ (recs : List RecPath), (∀ r ∈ recs, GoodRec g r) →
    ∀ (k : Nat) idx, KeysGood g idx → (idx.map (·.1)).Nodup →
      ∃ idx', (recs.zipIdx k).foldlM (ixStep g) idx = some idx' ∧ KeysGood g idx' ∧ (idx'.map (·.1)).Nodup ∧
        ∀ n ∈ infos g, ∀ i, Proofs.View.Has idx' (keyOf n) i ↔
          Proofs.View.Has idx (keyOf n) i ∨ ∃ r, k ≤ i ∧ recs[i - k]? = some r ∧ traverses r n = true := by
  intro recs
  induction recs with
  | nil =>
    intro _ k idx hk hn
    exact ⟨idx, rfl, hk, hn, by simp⟩
  | cons r rs ih =>
    intro hr k idx hk hn
    obtain ⟨ids, hids, hids1, hids2⟩ := recNodes_spec g hg r (hr r (by simp))
    obtain ⟨idx1, h1, h2, h3, h4⟩ := addIds_spec g hg k ids hids1 idx hk hn
    obtain ⟨idx', g1, g2, g3, g4⟩ := ih (fun x hx => hr x (by simp [hx])) (k + 1) idx1 h2 h3
    refine ⟨idx', ?_, g2, g3, ?_⟩
    · rw [List.zipIdx_cons, List.foldlM_cons]
      have : ixStep g idx (r, k) = some idx1 := by
        unfold ixStep
        simp only [hids]
        exact h1
      rw [this]
      exact g1
    · intro n hn' i
      rw [g4 n hn' i, h4 n hn' i, hids2 n hn']
      constructor
      · rintro ((h | ⟨rfl, h⟩) | ⟨r', hle, hget, ht⟩)
        · exact Or.inl h
        · exact Or.inr ⟨r, Nat.le_refl _, by simp, h⟩
        · refine Or.inr ⟨r', by omega, ?_, ht⟩
          have : i - k = (i - (k + 1)) + 1 := by omega
          rw [this, List.getElem?_cons_succ]
          exact hget
      · rintro (h | ⟨r', hle, hget, ht⟩)
        · exact Or.inl (Or.inl h)
        · by_cases hik : i = k
          · subst hik
            simp at hget
            subst hget
            exact Or.inl (Or.inr ⟨rfl, ht⟩)
          · have : i - k = (i - (k + 1)) + 1 := by omega
            rw [this, List.getElem?_cons_succ] at hget
            exact Or.inr ⟨r', by omega, hget, ht⟩

/-- C03, MAIN: indexing succeeds and the entry of a node contains ordinal `i` iff record `i` traverses the node -/
theorem index_exact (g : Graph) (hg : GoodGraph g) (recs : List RecPath) (hr : ∀ r ∈ recs, GoodRec g r) :
    ∃ idx, buildIndex g recs = some idx ∧
      (∀ e ∈ idx, ∃ n ∈ infos g, keyOf n = e.1) ∧
      ((idx.map (·.1)).Nodup) ∧
      ∀ n ∈ infos g, ∀ i, (∃ e ∈ idx, e.1 = keyOf n ∧ i ∈ e.2) ↔ (∃ r, recs[i]? = some r ∧ traverses r n = true) := by
  obtain ⟨idx, h1, h2, h3, h4⟩ := outer_spec g hg recs hr 0 [] (fun e he => by simp at he) (by simp)
  refine ⟨idx, by rw [buildIndex_eq]; exact h1, h2, h3, ?_⟩
  intro n hn i
  have := h4 n hn i
  simp only [Proofs.View.Has, List.not_mem_nil, false_and, exists_false, false_or, Nat.zero_le, true_and,
    Nat.sub_zero] at this
  exact this

/-- node ids are unique among the keys of an index whose keys are distinct keys of graph nodes -/
theorem ids_nodup {g : Graph} (hg : GoodGraph g) {idx : List (Key × List Nat)}
    (hk : ∀ e ∈ idx, ∃ n ∈ infos g, keyOf n = e.1) (hnd : (idx.map (·.1)).Nodup) :
    (idx.map (·.1.1)).Nodup := by
  have h1 : idx.Pairwise (fun a b => a.1 ≠ b.1) := List.pairwise_map.mp hnd
  unfold List.Nodup
  rw [List.pairwise_map]
  apply List.Pairwise.imp_of_mem _ h1
  intro a b ha hb hab heq
  obtain ⟨n, hn, hkn⟩ := hk a ha
  obtain ⟨m, hm, hkm⟩ := hk b hb
  have : n = m := node_unique hg hn hm (by
    have e1 : n.id = a.1.1 := by rw [← hkn]; rfl
    have e2 : m.id = b.1.1 := by rw [← hkm]; rfl
    rw [e1, e2, heq])
  exact hab (by rw [← hkn, ← hkm, this])

/-- the specification the driver evaluates on the implementation's index holds of the model's index -/
theorem specIndex_model (g : Graph) (hg : GoodGraph g) (recs : List RecPath) (hr : ∀ r ∈ recs, GoodRec g r) :
    ∃ idx, buildIndex g recs = some idx ∧ specIndex (infos g) recs idx = true := by
  obtain ⟨idx, hb, hk, hnd, hmem⟩ := index_exact g hg recs hr
  refine ⟨idx, hb, ?_⟩
  have hids := ids_nodup hg hk hnd
  unfold specIndex
  rw [Bool.and_eq_true, Bool.and_eq_true]
  refine ⟨⟨?_, ?_⟩, ?_⟩
  · rw [List.all_eq_true]
    intro e he
    obtain ⟨n, hn, hkn⟩ := hk e he
    rw [List.any_eq_true]
    exact ⟨n, hn, by simpa using hkn⟩
  · rw [Proofs.View.eraseDups_of_nodup _ hids]
    simp
  · rw [List.all_eq_true]
    intro n hn
    cases hfind : idx.find? (fun e => e.1.1 == n.id) with
    | none =>
      simp only [Option.map_none]
      rw [List.isEmpty_iff, List.eq_nil_iff_forall_not_mem]
      intro i hi
      obtain ⟨r, hget, ht⟩ := (Proofs.View.mem_zipIdx_filter _ recs i).mp hi
      obtain ⟨e, he, hek, _⟩ := (hmem n hn i).mpr ⟨r, hget, ht⟩
      rw [List.find?_eq_none] at hfind
      exact hfind e he (by simp [hek, keyOf])
    | some e =>
      simp only [Option.map_some]
      have he := List.mem_of_find?_eq_some hfind
      have hid : e.1.1 = n.id := by simpa using List.find?_some hfind
      have hek : e.1 = keyOf n := by
        obtain ⟨m, hm, hkm⟩ := hk e he
        have : m = n := node_unique hg hm hn (by rw [← hid, ← hkm]; rfl)
        rw [← hkm, this]
      rw [Bool.and_eq_true, List.all_eq_true, List.all_eq_true]
      constructor
      · intro o ho
        rw [List.contains_iff_mem]
        obtain ⟨r, hget, ht⟩ := (hmem n hn o).mp ⟨e, he, hek, ho⟩
        exact (Proofs.View.mem_zipIdx_filter _ recs o).mpr ⟨r, hget, ht⟩
      · intro o ho
        rw [List.contains_iff_mem]
        obtain ⟨r, hget, ht⟩ := (Proofs.View.mem_zipIdx_filter _ recs o).mp ho
        obtain ⟨e', he', hek', ho'⟩ := (hmem n hn o).mpr ⟨r, hget, ht⟩
        have : e' = e := Proofs.View.nodup_map_inj (fun e : Key × List Nat => e.1) idx hnd e' he' e he
          (hek'.trans hek.symm)
        rw [← this]; exact ho'

/-! ## C04 -/

theorem sortNat_sorted (l : List Nat) : (sortNat l).Pairwise (· ≤ ·) := by
  exact Proofs.View.sortNat_sorted l

theorem mem_sortNat (l : List Nat) (x : Nat) : x ∈ sortNat l ↔ x ∈ l := by
  exact Proofs.View.mem_sortNat l x

/-- `selectNodes_exact` for an arbitrary query (ids that are not nodes of the graph have no entry and traverse nothing) -/
theorem selectNodes_exact' (g : Graph) (hg : GoodGraph g) (recs : List RecPath) (hr : ∀ r ∈ recs, GoodRec g r)
    (idx : List (Key × List Nat)) (hi : buildIndex g recs = some idx) (query : List String) :
    selectNodes idx query =
      (if expectedNodes (infos g) recs query = [] then .error .noAlignments else .ok (expectedNodes (infos g) recs query)) := by
  obtain ⟨idx', hb, hk, hnd, hmem⟩ := index_exact g hg recs hr
  have : idx' = idx := Option.some.inj (hb.symm.trans hi)
  subst this
  have hids := ids_nodup hg hk hnd
  have key : sortNat ((query.flatMap (entryOf idx')).eraseDups) = expectedNodes (infos g) recs query := by
    apply Proofs.View.eq_of_lt_of_mem
    · exact Proofs.View.sortNat_lt _ (Proofs.View.nodup_eraseDups _)
    · exact Proofs.View.zipIdx_filter_lt _ recs 0
    · intro i
      rw [Proofs.View.mem_sortNat, List.mem_eraseDups, List.mem_flatMap]
      unfold expectedNodes
      rw [Proofs.View.mem_zipIdx_filter]
      constructor
      · rintro ⟨q, hq, hiq⟩
        obtain ⟨e, he, heq, hie⟩ := (Proofs.View.mem_entryOf idx' hids q i).mp hiq
        obtain ⟨n, hn, hkn⟩ := hk e he
        obtain ⟨r, hget, ht⟩ := (hmem n hn i).mp ⟨e, he, hkn.symm, hie⟩
        refine ⟨r, hget, ?_⟩
        simp only [List.any_eq_true, Bool.and_eq_true, beq_iff_eq]
        exact ⟨q, hq, n, hn, by rw [← heq, ← hkn]; rfl, ht⟩
      · rintro ⟨r, hget, h⟩
        simp only [List.any_eq_true, Bool.and_eq_true, beq_iff_eq] at h
        obtain ⟨q, hq, n, hn, hnq, ht⟩ := h
        obtain ⟨e, he, hek, hie⟩ := (hmem n hn i).mpr ⟨r, hget, ht⟩
        refine ⟨q, hq, (Proofs.View.mem_entryOf idx' hids q i).mpr ⟨e, he, ?_, hie⟩⟩
        rw [hek, ← hnq]; rfl
  unfold selectNodes
  simp only [key]
  cases expectedNodes (infos g) recs query <;> simp

set_option linter.unusedVariables false in -- `hq` is part of the stated interface, not needed by the proof
/-- C04, MAIN: `view --node` outputs exactly the records traversing at least one of the named nodes, each once, in file
    order; unaligned nodes contribute nothing; if nothing is selected it reports "no alignments" -/
theorem selectNodes_exact (g : Graph) (hg : GoodGraph g) (recs : List RecPath) (hr : ∀ r ∈ recs, GoodRec g r)
    (idx : List (Key × List Nat)) (hi : buildIndex g recs = some idx) (query : List String)
    (hq : ∀ q ∈ query, ∃ n ∈ infos g, n.id = q) :
    selectNodes idx query =
      (if expectedNodes (infos g) recs query = [] then .error .noAlignments else .ok (expectedNodes (infos g) recs query)) := by
  exact selectNodes_exact' g hg recs hr idx hi query

/-! ## C05 -/

/-- the nodes the (repaired) region search returns are the INDEXED nodes of the contig whose interval intersects the
    closed region `[a, b]` -/
theorem regionNodes_iff (idx : List (Key × List Nat)) (c : String) (a b : Int) (id : String) :
    id ∈ regionNodes idx c a b ↔ ∃ e ∈ idx, e.1.1 = id ∧ e.1.2.1 = c ∧ e.1.2.2.1 ≤ b ∧ a < e.1.2.2.2 := by
  exact Proofs.View.regionNodes_iff idx c a b id

/-- C05, MAIN: `view --region` returns exactly what `--node` returns for the nodes under the regions (nodes without
    alignments contribute nothing, so restricting to indexed nodes changes nothing) -/
theorem selectRegions_exact (g : Graph) (hg : GoodGraph g) (recs : List RecPath) (hr : ∀ r ∈ recs, GoodRec g r)
    (idx : List (Key × List Nat)) (hi : buildIndex g recs = some idx) (regions : List (String × Int × Int)) :
    selectRegions idx regions =
      (if expectedRegions (infos g) recs regions true = [] then .error .noAlignments
       else .ok (expectedRegions (infos g) recs regions true)) := by
  obtain ⟨idx', hb, hk, hnd, hmem⟩ := index_exact g hg recs hr
  have : idx' = idx := Option.some.inj (hb.symm.trans hi)
  subst this
  unfold selectRegions expectedRegions
  rw [selectNodes_exact' g hg recs hr idx' hi]
  have key : expectedNodes (infos g) recs (regions.flatMap (fun r => regionNodes idx' r.1 r.2.1 r.2.2)) =
      expectedNodes (infos g) recs (regions.flatMap (fun r => regionNodesSpec (infos g) r.1 r.2.1 r.2.2 true)) := by
    unfold expectedNodes
    congr 1
    apply List.filter_congr
    rintro ⟨r, i⟩ hri
    have hget : recs[i]? = some r := List.mk_mem_zipIdx_iff_getElem?.mp hri
    rw [Bool.eq_iff_iff]
    simp only [List.any_eq_true, Bool.and_eq_true, beq_iff_eq, List.mem_flatMap]
    constructor
    · rintro ⟨q, ⟨rg, hrg, hq⟩, n, hn, hnq, ht⟩
      refine ⟨q, ⟨rg, hrg, ?_⟩, n, hn, hnq, ht⟩
      obtain ⟨e, he, h1, h2, h3, h4⟩ := (Proofs.View.regionNodes_iff idx' _ _ _ q).mp hq
      obtain ⟨m, hm, hkm⟩ := hk e he
      have hmn : m = n := node_unique hg hm hn (by rw [hnq, ← h1, ← hkm]; rfl)
      subst hmn
      rw [← hkm] at h2 h3 h4
      simp only [keyOf] at h2 h3 h4
      unfold regionNodesSpec
      rw [List.mem_map]
      refine ⟨m, ?_, hnq⟩
      rw [List.mem_filter]
      refine ⟨hm, ?_⟩
      simp [h2, h3, h4]
    · rintro ⟨q, ⟨rg, hrg, hq⟩, n, hn, hnq, ht⟩
      refine ⟨q, ⟨rg, hrg, ?_⟩, n, hn, hnq, ht⟩
      unfold regionNodesSpec at hq
      rw [List.mem_map] at hq
      obtain ⟨m, hm, hmq⟩ := hq
      rw [List.mem_filter] at hm
      have hmn : m = n := node_unique hg hm.1 hn (hmq.trans hnq.symm)
      subst hmn
      have hc := hm.2
      simp only [Bool.and_eq_true, beq_iff_eq, decide_eq_true_eq, if_true] at hc
      obtain ⟨e, he, hek, _⟩ := (hmem m hn i).mpr ⟨r, hget, ht⟩
      rw [Proofs.View.regionNodes_iff]
      refine ⟨e, he, ?_, ?_, ?_, ?_⟩ <;> rw [hek] <;> simp only [keyOf]
      · exact hmq
      · exact hc.1.1
      · exact hc.2
      · exact hc.1.2
  rw [key]

end Gaftools.C03
