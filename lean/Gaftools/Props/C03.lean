import Gaftools.Spec.View
import Gaftools.Props.C03s
/-!
# C03 — the view index lists exactly the records that traverse each node
# C04 — view --node returns exactly the records touching the nodes
# C05 — view --region returns exactly the records of the nodes under the region

Records are identified by their ordinal in the file: `tell()` before record `i` is the `i`-th offset and offsets are strictly
increasing, so sorting offsets is sorting ordinals and `seek(off i); readline()` is record `i` (C17's interface).
-/
namespace Gaftools.C03
open Gaftools.Gfa Gaftools.Conv Gaftools.View Gaftools.Spec.View Gaftools.Spec.Conv

/-- every node of the graph has its rGFA tags, ids are unique, the per-contig tables are sorted and disjoint -/
structure GoodGraph (g : Graph) : Prop where
  ids : ((infos g).map (·.id)).Nodup
  sorted : ∀ c, SortedDisjoint (reference g c)

/-- a record whose path only mentions nodes of the graph (unstable), or whose every stable interval / span is non-empty and
    overlaps at least one node of its stable sequence (so that the lookup does not raise) -/
def GoodRec (g : Graph) : RecPath → Prop
  | .unstable steps => ∀ s ∈ steps, ∃ n ∈ infos g, n.id = s.2
  | .stable items ps pe => ∀ it ∈ items, match it with
      | .iv _ c s e => s < e ∧ ∃ sg ∈ reference g c, overlaps sg s e = true
      | .bare c => ps < pe ∧ ∃ sg ∈ reference g c, overlaps sg ps pe = true

/-- the nodes one record contributes are exactly the nodes it traverses -/
theorem recNodes_iff (g : Graph) (hg : GoodGraph g) (r : RecPath) (hr : GoodRec g r) :
    ∃ ids, recNodes g r = some ids ∧ ∀ n ∈ infos g, (n.id ∈ ids ↔ traverses r n = true) := by
  sorry

/-- C03, MAIN: indexing succeeds and the entry of a node contains ordinal `i` iff record `i` traverses the node -/
theorem index_exact (g : Graph) (hg : GoodGraph g) (recs : List RecPath) (hr : ∀ r ∈ recs, GoodRec g r) :
    ∃ idx, buildIndex g recs = some idx ∧
      (∀ e ∈ idx, ∃ n ∈ infos g, keyOf n = e.1) ∧
      ((idx.map (·.1)).Nodup) ∧
      ∀ n ∈ infos g, ∀ i, (∃ e ∈ idx, e.1 = keyOf n ∧ i ∈ e.2) ↔ (∃ r, recs[i]? = some r ∧ traverses r n = true) := by
  sorry

/-- the specification the driver evaluates on the implementation's index holds of the model's index -/
theorem specIndex_model (g : Graph) (hg : GoodGraph g) (recs : List RecPath) (hr : ∀ r ∈ recs, GoodRec g r) :
    ∃ idx, buildIndex g recs = some idx ∧ specIndex (infos g) recs idx = true := by
  sorry

/-! ## C04 -/

theorem sortNat_sorted (l : List Nat) : (sortNat l).Pairwise (· ≤ ·) := by
  sorry

theorem mem_sortNat (l : List Nat) (x : Nat) : x ∈ sortNat l ↔ x ∈ l := by
  sorry

/-- C04, MAIN: `view --node` outputs exactly the records traversing at least one of the named nodes, each once, in file
    order; unaligned nodes contribute nothing; if nothing is selected it reports "no alignments" -/
theorem selectNodes_exact (g : Graph) (hg : GoodGraph g) (recs : List RecPath) (hr : ∀ r ∈ recs, GoodRec g r)
    (idx : List (Key × List Nat)) (hi : buildIndex g recs = some idx) (query : List String)
    (hq : ∀ q ∈ query, ∃ n ∈ infos g, n.id = q) :
    selectNodes idx query =
      (if expectedNodes (infos g) recs query = [] then .error .noAlignments else .ok (expectedNodes (infos g) recs query)) := by
  sorry

/-! ## C05 -/

/-- the nodes the (repaired) region search returns are the INDEXED nodes of the contig whose interval intersects the
    closed region `[a, b]` -/
theorem regionNodes_iff (idx : List (Key × List Nat)) (c : String) (a b : Int) (id : String) :
    id ∈ regionNodes idx c a b ↔ ∃ e ∈ idx, e.1.1 = id ∧ e.1.2.1 = c ∧ e.1.2.2.1 ≤ b ∧ a < e.1.2.2.2 := by
  sorry

/-- C05, MAIN: `view --region` returns exactly what `--node` returns for the nodes under the regions (nodes without
    alignments contribute nothing, so restricting to indexed nodes changes nothing) -/
theorem selectRegions_exact (g : Graph) (hg : GoodGraph g) (recs : List RecPath) (hr : ∀ r ∈ recs, GoodRec g r)
    (idx : List (Key × List Nat)) (hi : buildIndex g recs = some idx) (regions : List (String × Int × Int)) :
    selectRegions idx regions =
      (if expectedRegions (infos g) recs regions true = [] then .error .noAlignments
       else .ok (expectedRegions (infos g) recs regions true)) := by
  sorry

end Gaftools.C03
