import Gaftools.Model.Cigar
import Gaftools.Model.Realign
import Gaftools.Gen.RealignWorker
import Gaftools.Props.TieA2
/-!
# Tie A for `realign.wfa_alignment` (the worker; C12, and the worker side of C11)

`Gen/RealignWorker.lean` is regenerated from `gaftools/cli/realign.py` on every run: the body of `for gaf_line, ref, query,
prior_counter in seq_batch` translated statement by statement (`workerFor_gaf_line`: the pass-through test, the two f-strings with the
columns in source order, the call of the aligner with its keyword, the initial tallies, the tag assignment, the loop over the tags, the
`put`), the body of the loop over `res.cigartuples` (`workerFor_op_type`: every `if`/`elif` with its `+=`s, `assert False`), the body
of the loop over the tags (`workerFor_k`), the whole function with the sentinel (`worker`), and the statements of `realign_gaf` that cut
the two sequences of a batch entry (`batchEntry`).

* `tally_gen`      : the loop over `cigartuples` computes the model's tallies: `match` = `nMatch`, the assembled CIGAR = `render`,
  `cigar_len` = `blockLen` (+ the soft-clipped lengths, which the model has no operation for), over the operations `opsOf` reads off the
  tuples with the BAM numbering (0 `=`, 1 `I`, 2 `D`, 8 `X`; 4 = soft clip: counted, not printed); nothing is claimed about the four
  tallies that are never read (`ins`, `deletion`, `soft_clip`, `mismatch`); `tally_fails`: any other code is the `AssertionError`;
* `workerStep_gen` : one record through the translated body IS `Cigar.realignOne` — the function of `Props/C12.lean` — joined with tabs and
  terminated by a newline, `put` with the record's priority;
* `worker_gen`     : the whole function puts these lines in batch order and then `None`; `worker_todo`: as messages, that is the `todo`
  list of the worker in the protocol model (`Realign.init`, `Props/C11*.lean`);
* `batchEntry_gen` : `ref` is `extract_path(line.path)[path_start:path_end]`, `query` is `fetch(query_name, query_start, query_end)`.

Hypotheses (`EntryOk`, only for records that are not passed through) — both about the foreign aligner, none about the input:
1. `CodesOk`: every operation code of `res.cigartuples` is 0, 1, 2 or 8.  On any code outside {0, 1, 2, 4, 8} the Python raises
   (`assert False`, `tally_fails`); code 4 (soft clip) is accepted by the Python but the model's `Op` cannot express it: see the finding
   in `tally_gen` (`cigar_len` then exceeds the lengths in the printed CIGAR).  pywfa with `clip_cigar=False` never emits it.
2. `aligner.cigarstring.replace("M", "=")` is the rendering of `res.cigartuples`.  The Python takes the tallies from one view of the
   aligner's answer (`cigartuples`) and the printed CIGAR from another (`cigarstring`); the model has one (`ops`).  (The CIGAR string the
   loop assembles itself — which IS `render (opsOf …)`, by `tally_gen` — is overwritten before it is used.)
-/
namespace Gaftools.TieA
open Gaftools.Gaf Gaftools.Cigar

/-! ## the operations of `cigartuples` -/

/-- the letter of a BAM operation code, for the four operations of a global alignment -/
def letterOf (t : Nat) : Option Char :=
  if t = 0 then some '=' else if t = 1 then some 'I' else if t = 2 then some 'D' else if t = 8 then some 'X' else none

/-- `res.cigartuples` (code, length) as the model's operations (length, letter) -/
def opsOf (ct : List (Nat × Nat)) : List Op := ct.filterMap (fun p => (letterOf p.1).map (fun c => (p.2, c)))

/-- total length of the soft clips (code 4) -/
def softOf (ct : List (Nat × Nat)) : Nat := ((ct.filter (fun p => p.1 == 4)).map (·.2)).sum

/-- total length of the operations with letter `c` -/
def lenOf (c : Char) (ops : List Op) : Nat := ((ops.filter (fun o => o.2 == c)).map (·.1)).sum

/-- the codes the Python accepts -/
def CodesAccepted (ct : List (Nat × Nat)) : Prop := ∀ p ∈ ct, p.1 = 0 ∨ p.1 = 1 ∨ p.1 = 2 ∨ p.1 = 4 ∨ p.1 = 8
/-- the codes of a global alignment -/
def CodesOk (ct : List (Nat × Nat)) : Prop := ∀ p ∈ ct, p.1 = 0 ∨ p.1 = 1 ∨ p.1 = 2 ∨ p.1 = 8

theorem nMatch_eq_lenOf (ops : List Op) : nMatch ops = lenOf '=' ops := rfl

theorem opsOf_cons (t l : Nat) (ct : List (Nat × Nat)) :
    opsOf ((t, l) :: ct) = (match letterOf t with | some c => (l, c) :: opsOf ct | none => opsOf ct) := by
  unfold opsOf
  rw [List.filterMap_cons]
  cases letterOf t <;> rfl

theorem softOf_cons (t l : Nat) (ct : List (Nat × Nat)) :
    softOf ((t, l) :: ct) = (if t = 4 then l + softOf ct else softOf ct) := by
  unfold softOf
  by_cases h : t = 4 <;> simp [h]

theorem lenOf_cons (c : Char) (n : Nat) (d : Char) (ops : List Op) :
    lenOf c ((n, d) :: ops) = (if d = c then n + lenOf c ops else lenOf c ops) := by
  unfold lenOf
  by_cases h : d = c <;> simp [h]

theorem blockLen_cons (n : Nat) (d : Char) (ops : List Op) : blockLen ((n, d) :: ops) = n + blockLen ops := by
  simp [blockLen]

theorem render_cons (n : Nat) (d : Char) (ops : List Op) : render ((n, d) :: ops) = dec n ++ [d] ++ render ops := by
  simp [render]

/-- no soft clip among the codes of a global alignment -/
theorem softOf_codesOk (ct : List (Nat × Nat)) (h : CodesOk ct) : softOf ct = 0 := by
  induction ct with
  | nil => rfl
  | cons p ct ih =>
    obtain ⟨t, l⟩ := p
    have ht : t ≠ 4 := by
      rcases h (t, l) List.mem_cons_self with h | h | h | h <;> simp at h <;> omega
    rw [softOf_cons, if_neg ht]
    exact ih (fun q hq => h q (List.mem_cons_of_mem _ hq))

theorem codesOk_accepted {ct : List (Nat × Nat)} (h : CodesOk ct) : CodesAccepted ct := by
  intro p hp
  rcases h p hp with h | h | h | h <;> simp [h]

/-! ## the loop over `res.cigartuples` -/

/-- one iteration, on a code the Python accepts: what happens to the three variables that reach the output (the other four — `ins`,
    `deletion`, `soft_clip`, `mismatch` — are never read again; nothing is claimed about them, so that deleting such a dead tally from
    the source is not an alarm) -/
theorem tallyStep_gen (s : Gen.Realign.WorkerSt_op_type) (t l : Nat) (h : t = 0 ∨ t = 1 ∨ t = 2 ∨ t = 4 ∨ t = 8) :
    ∃ s', Gen.Realign.workerFor_op_type s (t, l) = some s' ∧
      s'.v_match = s.v_match + (if t = 0 then (l : Int) else 0) ∧
      s'.v_cigar_len = s.v_cigar_len + (l : Int) ∧
      s'.v_cigar = s.v_cigar ++ (match letterOf t with | some c => dec l ++ [c] | none => []) := by
  rcases h with rfl | rfl | rfl | rfl | rfl
  all_goals
    simp (decide := true) only [Gen.Realign.workerFor_op_type, if_true, if_false]
    refine ⟨_, rfl, ?_, ?_, ?_⟩ <;> simp [letterOf]

/-- the translated loop over `res.cigartuples`, from any values of the variables: `match` is the model's `nMatch`, `cigar_len` its
    `blockLen`, the assembled string its `render`.  FINDING (not reachable with pywfa's `clip_cigar=False`): a soft clip adds to
    `cigar_len` (the printed alignment block length) but not to the CIGAR. -/
theorem tally_gen (ct : List (Nat × Nat)) (h : CodesAccepted ct) (s : Gen.Realign.WorkerSt_op_type) :
    ∃ t, ct.foldlM Gen.Realign.workerFor_op_type s = some t ∧
      t.v_match = s.v_match + (nMatch (opsOf ct) : Nat) ∧
      t.v_cigar_len = s.v_cigar_len + (blockLen (opsOf ct) + softOf ct : Nat) ∧
      t.v_cigar = s.v_cigar ++ render (opsOf ct) := by
  induction ct generalizing s with
  | nil => exact ⟨s, rfl, by simp [opsOf, nMatch], by simp [opsOf, blockLen, softOf], by simp [opsOf, render]⟩
  | cons p ct ih =>
    obtain ⟨t, l⟩ := p
    have hp := h (t, l) List.mem_cons_self
    obtain ⟨s', hs', h1, h2, h3⟩ := tallyStep_gen s t l hp
    obtain ⟨u, hu, g1, g2, g3⟩ := ih (fun q hq => h q (List.mem_cons_of_mem _ hq)) s'
    refine ⟨u, ?_, ?_, ?_, ?_⟩
    · rw [List.foldlM_cons, hs']
      simpa using hu
    all_goals
      simp only at hp
      rw [opsOf_cons]
      rcases hp with rfl | rfl | rfl | rfl | rfl
      all_goals
        simp (decide := true) only [letterOf, if_true, if_false] at h1 h3 ⊢
        first
        | (rw [g1, h1]; simp (decide := true) only [nMatch_eq_lenOf, lenOf_cons, if_true, if_false]; omega)
        | (rw [g2, h2, softOf_cons]; simp (decide := true) only [blockLen_cons, if_true, if_false]; omega)
        | (rw [g3, h3]; simp [render_cons])

/-- an operation code the Python does not know is the `AssertionError` -/
theorem tally_fails (ct : List (Nat × Nat)) (h : ¬ CodesAccepted ct) (s : Gen.Realign.WorkerSt_op_type) :
    ct.foldlM Gen.Realign.workerFor_op_type s = none := by
  induction ct generalizing s with
  | nil => exact absurd (fun p hp => by simp at hp) h
  | cons p ct ih =>
    by_cases hp : p.1 = 0 ∨ p.1 = 1 ∨ p.1 = 2 ∨ p.1 = 4 ∨ p.1 = 8
    · have hct : ¬ CodesAccepted ct := by
        intro hc
        apply h
        intro q hq
        rcases List.mem_cons.mp hq with rfl | hq
        · exact hp
        · exact hc q hq
      rw [List.foldlM_cons]
      cases hstep : Gen.Realign.workerFor_op_type s p with
      | none => rfl
      | some s' => simpa using ih hct s'
    · obtain ⟨t, l⟩ := p
      rw [List.foldlM_cons]
      have h0 : ((t : Int) == 0) = false := by simp; omega
      have h1 : ((t : Int) == 1) = false := by simp; omega
      have h2 : ((t : Int) == 2) = false := by simp; omega
      have h4 : ((t : Int) == 4) = false := by simp; omega
      have h8 : ((t : Int) == 8) = false := by simp; omega
      simp [Gen.Realign.workerFor_op_type, h0, h1, h2, h4, h8]

/-! ## one record -/

theorem decI_natCast (n : Nat) : Gen.Realign.decI (n : Int) = dec n := by
  unfold Gen.Realign.decI
  have : ¬ ((n : Int) < 0) := by omega
  simp [this]

/-- the translated loop over the tags appends, per tag, a tab, the key and the value -/
theorem tagLoop_gen (tags : List (Str × Str)) (out : Str) :
    tags.foldl Gen.Realign.workerFor_k out = out ++ (tags.map (fun kv => kv.1 ++ kv.2)).flatMap (fun f => '\t' :: f) := by
  induction tags generalizing out with
  | nil => simp
  | cons kv tags ih =>
    rw [List.foldl_cons, ih]
    simp [Gen.Realign.workerFor_k, List.append_assoc]

theorem joinTab_cons (x : Str) (rest : List Str) : joinTab (x :: rest) = x ++ rest.flatMap (fun f => '\t' :: f) := by
  induction rest generalizing x with
  | nil => simp [joinTab]
  | cons y rest ih =>
    have h2 : joinTab (x :: y :: rest) = x ++ '\t' :: joinTab (y :: rest) := rfl
    rw [h2, ih]
    simp

/-- the pass-through test of the translated body is the model's (through `Gen.tooLong`, tied in `Props/TieA2.lean`) -/
theorem guard_gen (r : Rec) (refLen queryLen : Int) :
    decide (((r.qe : Int) - (r.qs : Int)) > (60000 : Int)) = passThrough r := by
  rw [passThrough_gen r refLen queryLen]
  first
  | rfl
  | (unfold Gen.tooLong; rw [Bool.eq_iff_iff]; simp only [decide_eq_true_eq]; omega)

/-- the model's aligner: the operations of the tuples the foreign aligner returns when called as the source calls it
    (`WavefrontAligner(ref)(query, clip_cigar=False)`) -/
def alOf (wfa : Str → Str → Bool → Gen.Realign.Wfa) : List Char → List Char → List Op :=
  fun ref q => opsOf (wfa ref q false).cigartuples

/-- what is assumed of the foreign aligner on one batch entry (nothing when the record is passed through) -/
def EntryOk (wfa : Str → Str → Bool → Gen.Realign.Wfa) (e : Rec × Str × Str × Nat) : Prop :=
  passThrough e.1 = false →
    CodesOk (wfa e.2.1 e.2.2.1 false).cigartuples ∧
    Gen.Realign.replaceChar 'M' '=' (wfa e.2.1 e.2.2.1 false).cigarstring = render (opsOf (wfa e.2.1 e.2.2.1 false).cigartuples)

/-- the object put for a batch entry: its priority and the model's record, tab-joined, newline-terminated -/
def lineOf (wfa : Str → Str → Bool → Gen.Realign.Wfa) (e : Rec × Str × Str × Nat) : Gen.Realign.Put :=
  some (e.2.2.2, joinTab (realignOne (alOf wfa) e.1 e.2.1 e.2.2.1) ++ ['\n'])

/-- one iteration of the batch loop: exactly one object is put, the model's record for this entry -/
theorem workerStep_gen (wfa : Str → Str → Bool → Gen.Realign.Wfa) (qu : List Gen.Realign.Put) (e : Rec × Str × Str × Nat) (h : EntryOk wfa e) :
    Gen.Realign.workerFor_gaf_line wfa qu e = some (qu ++ [lineOf wfa e]) := by
  obtain ⟨r, ref, q, prio⟩ := e
  unfold Gen.Realign.workerFor_gaf_line lineOf realignOne
  simp only [guard_gen r ref.length q.length]
  by_cases hp : passThrough r = true
  · simp only [hp, if_true, tagLoop_gen, printRealigned, mandatory]
    simp [joinTab_cons, List.append_assoc]
  · have hp' : passThrough r = false := by simpa using hp
    obtain ⟨hc, hs⟩ := h hp'
    simp only at hc hs
    simp only [hp', Bool.false_eq_true, if_false]
    obtain ⟨t, ht, h1, h2, _⟩ := tally_gen _ (codesOk_accepted hc)
      ⟨(0 : Int), (0 : Int), (0 : Int), (0 : Int), (0 : Int), (0 : Int), ([] : Str)⟩
    rw [ht]
    simp only [softOf_codesOk _ hc, Nat.add_zero, Int.zero_add] at h1 h2
    simp only [h1, h2, decI_natCast, tagLoop_gen, hs, printRealigned, mandatory, emitRealigned, alOf]
    simp [joinTab_cons, List.append_assoc, cgKey]

/-- without hypothesis 1 the Python does not return: an unknown operation code stops the worker -/
theorem workerStep_fails (wfa : Str → Str → Bool → Gen.Realign.Wfa) (qu : List Gen.Realign.Put) (r : Rec) (ref q : Str) (prio : Nat)
    (hp : passThrough r = false) (hc : ¬ CodesAccepted (wfa ref q false).cigartuples) :
    Gen.Realign.workerFor_gaf_line wfa qu (r, ref, q, prio) = none := by
  unfold Gen.Realign.workerFor_gaf_line
  simp only [guard_gen r ref.length q.length, hp, Bool.false_eq_true, if_false]
  rw [tally_fails _ hc]

/-! ## the whole function -/

theorem batchLoop_gen (wfa : Str → Str → Bool → Gen.Realign.Wfa) (batch : List (Rec × Str × Str × Nat)) (qu : List Gen.Realign.Put)
    (h : ∀ e ∈ batch, EntryOk wfa e) :
    batch.foldlM (Gen.Realign.workerFor_gaf_line wfa) qu = some (qu ++ batch.map (lineOf wfa)) := by
  induction batch generalizing qu with
  | nil => simp
  | cons e batch ih =>
    rw [List.foldlM_cons, workerStep_gen wfa qu e (h e List.mem_cons_self)]
    simp only [Option.bind_some, bind]
    rw [ih _ (fun e' he' => h e' (List.mem_cons_of_mem _ he'))]
    simp

/-- `wfa_alignment(seq_batch, qu)` puts the model's record of every entry, in batch order, and then `None` -/
theorem worker_gen (wfa : Str → Str → Bool → Gen.Realign.Wfa) (batch : List (Rec × Str × Str × Nat)) (qu : List Gen.Realign.Put)
    (h : ∀ e ∈ batch, EntryOk wfa e) :
    Gen.Realign.worker wfa batch qu = some (qu ++ batch.map (lineOf wfa) ++ [none]) := by
  unfold Gen.Realign.worker
  rw [batchLoop_gen wfa batch qu h]

/-- a put object as a message of the protocol model: its priority, or the sentinel -/
def msgOf : Gen.Realign.Put → Realign.Msg
  | some (p, _) => .item p
  | none => .sentinel

/-- … which is the `todo` list the protocol model (`Realign.init`) gives the worker of a batch with these priorities -/
theorem worker_todo (wfa : Str → Str → Bool → Gen.Realign.Wfa) (batch : List (Rec × Str × Str × Nat)) (h : ∀ e ∈ batch, EntryOk wfa e) :
    (Gen.Realign.worker wfa batch []).map (fun puts => puts.map msgOf) =
      some ((batch.map (fun e => e.2.2.2)).map Realign.Msg.item ++ [Realign.Msg.sentinel]) := by
  rw [worker_gen wfa batch [] h]
  simp [msgOf, lineOf, Function.comp_def]

theorem worker_init (wfa : Str → Str → Bool → Gen.Realign.Wfa) (batch : List (Rec × Str × Str × Nat)) (h : ∀ e ∈ batch, EntryOk wfa e) :
    (Realign.init [batch.map (fun e => e.2.2.2)]).ws =
      [⟨((Gen.Realign.worker wfa batch []).getD []).map msgOf, [], .running⟩] := by
  rw [worker_gen wfa batch [] h]
  simp [Realign.init, msgOf, lineOf, Function.comp_def]

/-! ## the batch entry (`realign_gaf`) -/

/-- the record itself, the path slice `extract_path(path)[path_start:path_end]`, the read slice `fetch(query_name, query_start,
    query_end)`, the running count -/
theorem batchEntry_gen (extractPath : Str → Str) (fetch : Str → Nat → Nat → Str) (line : Rec) (n : Nat) :
    Gen.Realign.batchEntry extractPath fetch line n =
      (line, ((extractPath line.path).drop line.ps).take (line.pe - line.ps), fetch line.qname line.qs line.qe, n) := by
  first
  | rfl
  | simp [Gen.Realign.batchEntry, Gen.Realign.rwSlice]

/-! non-vacuity: an aligner answer that meets `EntryOk`, and the object put for it -/
example : EntryOk (fun _ _ _ => ⟨[(0, 3), (8, 1), (1, 2)], "3M1X2I".toList⟩)
    (⟨"r".toList, 6, 0, 6, "+".toList, ">a".toList, 4, 0, 4, 0, 0, 60, true, [], []⟩, "ACGT".toList, "ACGAAA".toList, 7) := by
  intro _
  refine ⟨?_, by decide⟩
  intro p hp
  simp at hp
  rcases hp with rfl | rfl | rfl <;> simp

end Gaftools.TieA
