import Gaftools.Props.C15Hist
/-! evaluation of the C15 model on the non-vacuity example (tests, labelled as tests) -/
open Gaftools.Gfa Gaftools.Algo Gaftools.Spec.Graph Gaftools.C15
def g := readGraph exFile
#eval allComponents (Graph.nbFun g) (Graph.ids g)
#eval dfs (Graph.nbFun g) (Graph.ids g) "a"
#eval biccsFrom (Graph.nbFun g) "a" 100
#eval cutVertices (Graph.nbFun g) ["a", "b", "c", "d"]
#eval blocks (Graph.nbFun g) ["a", "b", "c", "d"]
