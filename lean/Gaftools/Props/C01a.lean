import Gaftools.Spec.Conv
import Gaftools.Proofs.ConvLemmas
/-!
# C01 (part a) — unstable → stable conversion designates the same locus
-/
namespace Gaftools.C01
open Gaftools.Conv Gaftools.Spec.Conv

variable (comp : Char → Char)

/-- the unstable record is over nodes of the graph and its offsets lie inside the path -/
structure WalkRec (segs : List RSeg) (steps : List (Bool × String)) (plen ps pe : Int) : Prop where
  nonempty : steps ≠ []
  known : ∀ st ∈ steps, (findSeg segs st.2).isSome
  plen_eq : plenU segs steps = some plen
  bounds : 0 ≤ ps ∧ ps ≤ pe ∧ pe ≤ plen

/-! ## helper lemmas -/

theorem spellS_nil (segs : List RSeg) : spellS comp segs [] = some [] := rfl

theorem spellS_cons_eq_some (segs : List RSeg) (x : OIv) (l : List OIv) (z : List Char) :
    spellS comp segs (x :: l) = some z ↔
      ∃ b r, contigSlice segs x.1.contig x.1.s x.1.e = some b ∧ spellS comp segs l = some r ∧
        z = (if x.2 then b else revcomp comp b) ++ r := by
  unfold spellS
  rw [List.mapM_cons]
  cases h1 : contigSlice segs x.1.contig x.1.s x.1.e with
  | none => simp
  | some b =>
    cases h2 : List.mapM (fun x : OIv => (contigSlice segs x.1.contig x.1.s x.1.e).map
        (fun b => if x.2 then b else revcomp comp b)) l with
    | none => simp
    | some r =>
      simp only [Option.map_some, Option.bind_eq_bind, Option.bind_some, Option.pure_def, List.flatten_cons,
        Option.some.injEq]
      constructor
      · intro h; exact ⟨b, r.flatten, rfl, rfl, h.symm⟩
      · rintro ⟨b', r', hb, hr, hz⟩; subst hb; subst hr; exact hz.symm

theorem plenS_cons (x : OIv) (l : List OIv) : plenS (x :: l) = (x.1.e - x.1.s) + plenS l := by
  simp [plenS]

/-- one merge step: the merged interval spells the concatenation; lengths add -/
theorem merge_spell (segs : List RSeg) (n1 n2 : SNode) (o1 o2 : Bool) (m : OIv) (b1 b2 : List Char)
    (h1 : n1.s ≤ n1.e) (h2 : n2.s ≤ n2.e)
    (hb1 : contigSlice segs n1.contig n1.s n1.e = some b1) (hb2 : contigSlice segs n2.contig n2.s n2.e = some b2)
    (hm : mergeNodes n1 n2 o1 o2 = some m) :
    ∃ b, contigSlice segs m.1.contig m.1.s m.1.e = some b ∧
      (if m.2 then b else revcomp comp b) = (if o1 then b1 else revcomp comp b1) ++ (if o2 then b2 else revcomp comp b2) ∧
      m.1.s ≤ m.1.e ∧ m.1.e - m.1.s = (n1.e - n1.s) + (n2.e - n2.s) := by
  unfold mergeNodes at hm
  split at hm; · simp at hm
  split at hm; · simp at hm
  split at hm; · simp at hm
  rename_i hc hf hr
  have hcontig : n1.contig = n2.contig := by
    by_cases h : n1.contig = n2.contig; exact h; simp [h] at hc
  have ho : o1 = o2 := by
    by_cases h : o1 = o2; exact h; simp [h] at hc
  subst ho
  cases o1
  · have hse : n1.s = n2.e := by simpa using hr
    simp only [if_true] at hm
    injection hm with hm
    subst hm
    refine ⟨b2 ++ b1, ?_, ?_, by simp only; omega, by simp only; omega⟩
    · simp only
      rw [hcontig] at hb1 ⊢
      rw [hse] at hb1
      exact Proofs.Conv.contigSlice_append segs _ _ _ _ h2 (by omega) _ _ hb2 hb1
    · simp only [Bool.false_eq_true, if_false]
      exact Proofs.Conv.revcomp_append comp b2 b1
  · have hes : n1.e = n2.s := by simpa using hf
    simp only [Bool.true_eq_false, if_false] at hm
    injection hm with hm
    subst hm
    refine ⟨b1 ++ b2, ?_, ?_, by simp only; omega, by simp only; omega⟩
    · simp only
      rw [← hcontig, ← hes] at hb2
      exact Proofs.Conv.contigSlice_append segs _ _ _ _ h1 (by omega) _ _ hb1 hb2
    · simp only [if_true]

/-- the bases of a node's own interval are the node's sequence -/
theorem contigSlice_node (segs : List RSeg) (hv : ValidRGFA segs) (s : RSeg) (hs : s ∈ segs) :
    contigSlice segs s.sn s.so s.en = some s.seq :=
  Proofs.Conv.contigSlice_node segs hv s hs

/-- slices of a stable sequence concatenate -/
theorem contigSlice_append (segs : List RSeg) (c : String) (a b d : Int) (hab : a ≤ b) (hbd : b ≤ d) (x y : List Char)
    (hx : contigSlice segs c a b = some x) (hy : contigSlice segs c b d = some y) :
    contigSlice segs c a d = some (x ++ y) :=
  Proofs.Conv.contigSlice_append segs c a b d hab hbd x y hx hy

/-- L1: the `out_node` merge loop preserves the spelled sequence and the total length -/
theorem mergeGo_spell (segs : List RSeg) (cur : OIv) (rest : List OIv)
    (hcur : cur.1.s ≤ cur.1.e) (hrest : ∀ x ∈ rest, x.1.s ≤ x.1.e) (z : List Char)
    (h : spellS comp segs (cur :: rest) = some z) :
    spellS comp segs (mergeGo cur rest) = some z ∧ plenS (mergeGo cur rest) = plenS (cur :: rest) := by
  induction rest generalizing cur z with
  | nil => exact ⟨h, rfl⟩
  | cons x xs ih =>
    have hx : x.1.s ≤ x.1.e := hrest x (by simp)
    have hxs : ∀ y ∈ xs, y.1.s ≤ y.1.e := fun y hy => hrest y (by simp [hy])
    obtain ⟨b1, r, hb1, hr, hz⟩ := (spellS_cons_eq_some comp segs cur (x :: xs) z).1 h
    obtain ⟨b2, r2, hb2, hr2, hz2⟩ := (spellS_cons_eq_some comp segs x xs r).1 hr
    unfold mergeGo
    split
    · rename_i m hm
      obtain ⟨b, hb, hsp, hle, hlen⟩ := merge_spell comp segs cur.1 x.1 cur.2 x.2 m b1 b2 hcur hx hb1 hb2 hm
      have hmz : spellS comp segs (m :: xs) = some z := by
        rw [spellS_cons_eq_some]
        refine ⟨b, r2, hb, hr2, ?_⟩
        rw [hz, hz2, hsp, List.append_assoc]
      obtain ⟨ih1, ih2⟩ := ih m hle hxs z hmz
      refine ⟨ih1, ?_⟩
      rw [ih2, plenS_cons, plenS_cons, plenS_cons, hlen]
      omega
    · obtain ⟨ih1, ih2⟩ := ih x hx hxs r hr
      constructor
      · rw [spellS_cons_eq_some]
        exact ⟨b1, r, hb1, ih1, hz⟩
      · rw [plenS_cons, ih2, plenS_cons cur]

/-- case analysis of a successful `toStable` -/
theorem toStable_cases (nodes : String → Option SNode) (refs : List String) (cl : String → Option Int) (sp : Bool)
    (steps : List (Bool × String)) (plen ps pe : Int) (p : SPath) (o : ConvOut)
    (h : toStable nodes refs cl sp steps plen ps pe = some (p, o)) :
    ∃ x xs, steps.mapM (fun s => (nodes s.2).map (fun n => (n, s.1))) = some (x :: xs) ∧
      ((∃ n total, mergeGo x xs = [(n, false)] ∧ refs.contains n.contig = true ∧ cl n.contig = some total ∧
          p = .bare n.contig ∧ o = ⟨false, total, n.s + plen - pe, n.s + plen - pe + pe - ps, true⟩) ∨
       (∃ n total, mergeGo x xs = [(n, true)] ∧ refs.contains n.contig = true ∧ cl n.contig = some total ∧
          p = .bare n.contig ∧ o = ⟨sp, total, n.s + ps, n.s + ps + pe - ps, false⟩) ∨
       (p = .ivs (mergeGo x xs) ∧ o = ⟨sp, plen, ps, ps + pe - ps, false⟩)) := by
  unfold toStable at h
  split at h
  · simp at h
  · simp at h
  · rename_i x xs hmap
    refine ⟨x, xs, hmap, ?_⟩
    simp only at h
    split at h
    · rename_i n oo hout
      split at h
      · rename_i href
        split at h
        · simp at h
        · rename_i total hcl
          split at h
          · rename_i ho
            subst ho
            injection h with h
            injection h with hp ho
            exact Or.inl ⟨n, total, hout, href, hcl, hp.symm, ho.symm⟩
          · rename_i ho
            have ho' : oo = true := by cases oo <;> simp_all
            subst ho'
            injection h with h
            injection h with hp ho
            exact Or.inr (Or.inl ⟨n, total, hout, href, hcl, hp.symm, ho.symm⟩)
      · injection h with h
        injection h with hp ho
        exact Or.inr (Or.inr ⟨hp.symm, ho.symm⟩)
    · injection h with h
      injection h with hp ho
      exact Or.inr (Or.inr ⟨hp.symm, ho.symm⟩)

/-- the stable interval of a node with its orientation -/
def ivOf (p : Bool × RSeg) : OIv := (⟨p.2.sn, p.2.so, p.2.en⟩, p.1)

/-- on a path over known nodes all the per-step lookups succeed, with the same list of segments -/
theorem steps_found (segs : List RSeg) (steps : List (Bool × String))
    (hk : ∀ st ∈ steps, (findSeg segs st.2).isSome) :
    ∃ l : List (Bool × RSeg), (∀ p ∈ l, p.2 ∈ segs) ∧ l.length = steps.length ∧
      ∀ {β : Type} (g : Bool → RSeg → β),
        steps.mapM (fun st => (findSeg segs st.2).map (g st.1)) = some (l.map (fun p => g p.1 p.2)) := by
  induction steps with
  | nil => exact ⟨[], by simp, rfl, fun g => rfl⟩
  | cons st steps ih =>
    obtain ⟨l, hl1, hl2, hl3⟩ := ih (fun y hy => hk y (by simp [hy]))
    have hst := hk st (by simp)
    cases hf : findSeg segs st.2 with
    | none => simp [hf] at hst
    | some s =>
      refine ⟨(st.1, s) :: l, ?_, by simp [hl2], ?_⟩
      · intro p hp
        rcases List.mem_cons.1 hp with hp | hp
        · subst hp
          exact List.mem_of_find?_eq_some hf
        · exact hl1 p hp
      · intro β g
        rw [List.mapM_cons, hl3 g, hf]
        rfl

theorem spellS_nodes (segs : List RSeg) (hv : ValidRGFA segs) (l : List (Bool × RSeg)) (hl : ∀ p ∈ l, p.2 ∈ segs) :
    spellS comp segs (l.map ivOf) =
      some (l.map (fun p => if p.1 then p.2.seq else revcomp comp p.2.seq)).flatten := by
  induction l with
  | nil => rfl
  | cons p l ih =>
    rw [List.map_cons, spellS_cons_eq_some]
    refine ⟨p.2.seq, _, ?_, ih (fun q hq => hl q (by simp [hq])), ?_⟩
    · exact Proofs.Conv.contigSlice_node segs hv p.2 (hl p (by simp))
    · rfl

theorem plenS_nodes (l : List (Bool × RSeg)) :
    plenS (l.map ivOf) = (l.map (fun p => (p.2.seq.length : Int))).sum := by
  induction l with
  | nil => rfl
  | cons p l ih =>
    rw [List.map_cons, plenS_cons, ih]
    simp only [ivOf, RSeg.en, List.map_cons, List.sum_cons]
    omega

/-- what a walk record gives: the node lookup succeeds on a non-empty list, the path spells some `z`, the merged
    intervals spell the same `z` and have total length `plen` -/
theorem walk_setup (segs : List RSeg) (hv : ValidRGFA segs) (steps : List (Bool × String)) (plen ps pe : Int)
    (hr : WalkRec segs steps plen ps pe) :
    ∃ x xs z, steps.mapM (fun s => (nodeTbl segs s.2).map (fun n => (n, s.1))) = some (x :: xs) ∧
      spellU comp segs steps = some z ∧ spellS comp segs (mergeGo x xs) = some z ∧ plenS (mergeGo x xs) = plen := by
  obtain ⟨l, hl1, hl2, hl3⟩ := steps_found segs steps hr.known
  cases l with
  | nil =>
    have : steps = [] := List.length_eq_zero_iff.1 (by simpa using hl2.symm)
    exact absurd this hr.nonempty
  | cons p l =>
    have hfun : (fun s : Bool × String => (nodeTbl segs s.2).map (fun n => (n, s.1)))
        = (fun st => (findSeg segs st.2).map ((fun o s => ivOf (o, s)) st.1)) := by
      funext st
      unfold nodeTbl
      cases findSeg segs st.2 <;> rfl
    have hsp : spellS comp segs (ivOf p :: l.map ivOf) =
        some ((p :: l).map (fun p => if p.1 then p.2.seq else revcomp comp p.2.seq)).flatten := by
      rw [← List.map_cons]
      exact spellS_nodes comp segs hv (p :: l) hl1
    have hcur : (ivOf p).1.s ≤ (ivOf p).1.e := by simp only [ivOf, RSeg.en]; omega
    have hrest : ∀ y ∈ l.map ivOf, y.1.s ≤ y.1.e := by
      intro y hy
      obtain ⟨q, -, rfl⟩ := List.mem_map.1 hy
      simp only [ivOf, RSeg.en]; omega
    obtain ⟨hm1, hm2⟩ := mergeGo_spell comp segs (ivOf p) (l.map ivOf) hcur hrest _ hsp
    refine ⟨ivOf p, l.map ivOf, _, ?_, ?_, hm1, ?_⟩
    · rw [hfun]
      exact hl3 (fun o s => ivOf (o, s))
    · unfold spellU
      rw [hl3 (fun o s => if o then s.seq else revcomp comp s.seq)]
      rfl
    · rw [hm2, ← List.map_cons, plenS_nodes]
      have := hr.plen_eq
      unfold plenU at this
      rw [hl3 (fun _ s => (s.seq.length : Int))] at this
      simpa using this

theorem ctgLen_isSome_of_ref (segs : List RSeg) (c : String) (h : (refNames segs).contains c = true) :
    (ctgLen segs c).isSome := by
  have hm : c ∈ refNames segs := List.contains_iff_mem.1 h
  unfold refNames at hm
  rw [List.mem_eraseDups] at hm
  obtain ⟨s, hs, rfl⟩ := List.mem_map.1 hm
  have hs' : s ∈ segs := (List.mem_filter.1 hs).1
  have hne : s ∈ segs.filter (·.sn == s.sn) := List.mem_filter.2 ⟨hs', by simp⟩
  unfold ctgLen
  split
  · rename_i heq
    rw [heq] at hne
    simp at hne
  · rfl

/-- MAIN (unstable → stable): the converted record designates exactly the same bases in the same read orientation -/
theorem toStable_locus (segs : List RSeg) (hv : ValidRGFA segs) (steps : List (Bool × String)) (plen ps pe : Int)
    (hr : WalkRec segs steps plen ps pe) (p : SPath) (o : ConvOut)
    (h : toStable (nodeTbl segs) (refNames segs) (ctgLen segs) true steps plen ps pe = some (p, o)) :
    locusS comp segs p o.strandPlus o.ps o.pe = locusU comp segs steps ps pe ∧ (locusU comp segs steps ps pe).isSome := by
  obtain ⟨x', xs', z, hmap', hU, hS, hP⟩ := walk_setup comp segs hv steps plen ps pe hr
  obtain ⟨x, xs, hmap, hc⟩ := toStable_cases _ _ _ true steps plen ps pe p o h
  rw [hmap'] at hmap
  injection hmap with hmap
  injection hmap with hx hxs
  subst hx; subst hxs
  obtain ⟨hps, hpspe, hpe⟩ := hr.bounds
  have hLU : locusU comp segs steps ps pe = some (slice z ps pe) := by
    unfold locusU; rw [hU]; rfl
  refine ⟨?_, by rw [hLU]; rfl⟩
  rw [hLU]
  rcases hc with ⟨n, total, hout, -, -, hp, ho⟩ | ⟨n, total, hout, -, -, hp, ho⟩ | ⟨hp, ho⟩
  · -- a single '<' interval on a reference contig
    subst hp; subst ho
    rw [hout] at hS hP
    obtain ⟨X, r, hX, hr', hz⟩ := (spellS_cons_eq_some comp segs _ [] z).1 hS
    rw [spellS_nil] at hr'
    injection hr' with hr'
    subst hr'
    simp only [Bool.false_eq_true, if_false, List.append_nil] at hz
    subst hz
    have hne : n.e - n.s = plen := by
      rw [plenS_cons] at hP
      simpa [plenS] using hP
    have hXl : (X.length : Int) = plen := by
      have : X.length = (n.e - n.s).toNat := Proofs.Conv.contigSlice_length segs _ _ _ _ hX
      omega
    simp only [locusS]
    rw [Proofs.Conv.contigSlice_sub segs n.contig n.s n.e _ _ X hX (by omega) (by omega) (by omega)]
    rw [Proofs.Conv.slice_revcomp comp X ps pe hps hpspe (by omega)]
    simp only [Option.map_some, Bool.false_eq_true, if_false]
    congr 3 <;> omega
  · -- a single '>' interval on a reference contig
    subst hp; subst ho
    rw [hout] at hS hP
    obtain ⟨X, r, hX, hr', hz⟩ := (spellS_cons_eq_some comp segs _ [] z).1 hS
    rw [spellS_nil] at hr'
    injection hr' with hr'
    subst hr'
    simp only [if_true, List.append_nil] at hz
    subst hz
    have hne : n.e - n.s = plen := by
      rw [plenS_cons] at hP
      simpa [plenS] using hP
    simp only [locusS]
    rw [Proofs.Conv.contigSlice_sub segs n.contig n.s n.e _ _ z hX (by omega) (by omega) (by omega)]
    simp only [Option.map_some, if_true]
    congr 2 <;> omega
  · subst hp; subst ho
    simp only [locusS]
    rw [hS]
    simp only [Option.map_some]
    congr 2
    omega

/-- the conversion never fails on a walk record -/
theorem toStable_isSome (segs : List RSeg) (hv : ValidRGFA segs) (steps : List (Bool × String)) (plen ps pe : Int)
    (hr : WalkRec segs steps plen ps pe) :
    (toStable (nodeTbl segs) (refNames segs) (ctgLen segs) true steps plen ps pe).isSome := by
  obtain ⟨x, xs, z, hmap, -, -, -⟩ := walk_setup id segs hv steps plen ps pe hr
  unfold toStable
  rw [hmap]
  simp only
  split
  · rename_i n oo hout
    split
    · rename_i href
      have hsome := ctgLen_isSome_of_ref segs n.contig href
      cases hcl : ctgLen segs n.contig with
      | none => simp [hcl] at hsome
      | some total =>
        simp only
        split <;> rfl
    · rfl
  · rfl

/-- the converted path length is the total length of the converted path, or the contig length for a bare contig name -/
theorem toStable_plen (segs : List RSeg) (hv : ValidRGFA segs) (steps : List (Bool × String)) (plen ps pe : Int)
    (hr : WalkRec segs steps plen ps pe) (p : SPath) (o : ConvOut)
    (h : toStable (nodeTbl segs) (refNames segs) (ctgLen segs) true steps plen ps pe = some (p, o)) :
    match p with
    | .ivs l => o.plen = plenS l
    | .bare c => ctgLen segs c = some o.plen := by
  obtain ⟨x', xs', z, hmap', -, -, hP⟩ := walk_setup id segs hv steps plen ps pe hr
  obtain ⟨x, xs, hmap, hc⟩ := toStable_cases _ _ _ true steps plen ps pe p o h
  rw [hmap'] at hmap
  injection hmap with hmap
  injection hmap with hx hxs
  subst hx; subst hxs
  rcases hc with ⟨n, total, -, -, hcl, hp, ho⟩ | ⟨n, total, -, -, hcl, hp, ho⟩ | ⟨hp, ho⟩
  · subst hp; subst ho; exact hcl
  · subst hp; subst ho; exact hcl
  · subst hp; subst ho; exact hP.symm

/-- the CIGAR is reversed exactly when the strand flips; the aligned length is preserved -/
theorem toStable_cigar (nodes : String → Option SNode) (refs : List String) (cl : String → Option Int)
    (steps : List (Bool × String)) (plen ps pe : Int) (p : SPath) (o : ConvOut)
    (h : toStable nodes refs cl true steps plen ps pe = some (p, o)) :
    o.flipCigar = !o.strandPlus ∧ o.pe - o.ps = pe - ps := by
  obtain ⟨x, xs, -, hc⟩ := toStable_cases nodes refs cl true steps plen ps pe p o h
  rcases hc with ⟨n, total, -, -, -, -, ho⟩ | ⟨n, total, -, -, -, -, ho⟩ | ⟨-, ho⟩ <;> subst ho <;>
    exact ⟨rfl, by simp only; omega⟩

/-! non-vacuity: chr1 = a[0,3) b[3,5) c[5,9); haplotype node h at hap[10,12) -/
def exSegs : List RSeg := [⟨"a", "AAC".toList, "chr1", 0, 0⟩, ⟨"b", "GT".toList, "chr1", 3, 0⟩, ⟨"c", "TTTG".toList, "chr1", 5, 0⟩,
  ⟨"h", "CA".toList, "hap", 10, 1⟩]
def exComp : Char → Char := fun c => match c with | 'A' => 'T' | 'C' => 'G' | 'G' => 'C' | 'T' => 'A' | c => c
example : toStable (nodeTbl exSegs) (refNames exSegs) (ctgLen exSegs) true [(false, "c"), (false, "b")] 6 1 5
    = some (.bare "chr1", ⟨false, 9, 4, 8, true⟩) := by decide
example : locusU exComp exSegs [(false, "c"), (false, "b")] 1 5 = some "AAAA".toList := by decide
example : locusS exComp exSegs (.bare "chr1") false 4 8 = some "AAAA".toList := by decide
example : toStable (nodeTbl exSegs) (refNames exSegs) (ctgLen exSegs) true [(true, "a"), (true, "h"), (true, "c")] 9 1 8
    = some (.ivs [(⟨"chr1", 0, 3⟩, true), (⟨"hap", 10, 12⟩, true), (⟨"chr1", 5, 9⟩, true)], ⟨true, 9, 1, 8, false⟩) := by decide

end Gaftools.C01
