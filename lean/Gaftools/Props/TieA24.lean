import Gaftools.Model.Sort
import Gaftools.Model.SortText
import Gaftools.Gen.SortPass
import Gaftools.Props.C08
import Gaftools.Props.C09b
import Gaftools.Proofs.GlueLemmas
/-!
# Tie A for `sort.process_alignment` as a whole and for the first pass of `sort.sort` up to `list.sort` (C08, C09)

`Gen/SortPass.lean` is regenerated from `gaftools/cli/sort.py` on every run, statement by statement:

* `process_alignment(line, nodes, offset)` — `SortPass.processAlignment`, `processAlignment_for1`: `path = list(filter(None,
  re.split("(>)|(<)", line[5])))`, the initialisations, `for n in path:` as a fold over the state (`orient`, `orient_list`, `sn`)
  with the orientation test, the four tag reads (`KeyError`), the `sn` bookkeeping with its `assert`, the three `continue`s and the
  `append`; after the loop the inversion test, the majority test with `int(line[6])`, `int(line[8])`, `path[-1]` resp.
  `int(line[7])`, `path[1]` (`IndexError`, `ValueError`), the two tag reads, `if sn is None: sn = "unknown"`, the tuple returned;
* the first pass of `sort()` — `SortPass.firstPass`, `firstPass_while1`: `while True:` with `offset = reader.tell()` BEFORE
  `line = reader.readline()`, `if not line: break`, `line.rstrip().split("\t")` (the `except TypeError` branch must be the same
  assignment on the decoded bytes), the call of `process_alignment`, `if inv == 1: count_inverse += 1`, the `Alignment(...)` appended
  (the namedtuple's fields must be those of the model's `Aln`), and `gaf_alignments.sort(key=functools.cmp_to_key(compare_gaf))`
  (`pySortCmp Gen.cmpGaf`, `Gen.cmpGaf` being the translation of `compare_gaf` in `Gen/CmpGaf.lean`).

The theorems say that the model about which C08 / C09 are proved — `Sort.loopStep`, `Sort.loop`, `Sort.processAlignment`,
`SortText.alnOfLine`, `Sort.sortAlns`, `SortText.sortLines` — computes exactly what these definitions compute:

* `tokens_gen`, `for1_orient`, `for1_name`, `for1_fold`: the tokenisation; one iteration; the whole loop = `Sort.loop`;
* `processAlignment_gen`: the whole function = `Sort.processAlignment`, the exception included (`excOf`);
* `alnOfLine_gen`: split + `process_alignment` + the tuple appended = `alnOfLine`;
* `while_step`, `while_eof`, `while_gen`, `sort_gen`, `firstPass_gen`: one record, the end of the file, the whole reading loop, the
  call of `list.sort`, the whole region (no assumption on the records: exceptions are propagated in file order);
* `firstPass_model`, `sortLines_gen`: the region against `lines.zipIdx.mapM alnOfLine` / `sortAlns` / `sortLines`;
* `anchored_of_steps`: the hypothesis `Anchored` holds for every path of the GAF form `([<>]name)*`.

What is assumed (and why):

* `Anchored (pathTokens path)` (`processAlignment_gen`, `RecordOk`): the model's input is a list of (orientation, name) steps
  (`parseUnstableSteps`), which cannot say "no orientation yet" (`orient = None` is appended to `orient_list` and counted in neither
  direction) nor "the second / the last token is an orientation token" (`path[1]`, `path[-1]` are then looked up in `nodes`).
  Outside it model and source differ — checked on the real code: `s1<s2<s3` (three scaffold nodes) gives `iv = 0` in sort.py, 1 in
  the model; `s1` raises `IndexError`, `>>s1` and `<s1<` raise `KeyError`, the model has a record.  None is a GAF path.
* `isDigits plen ∧ isDigits ps ∧ isDigits pe` and nine columns (`processAlignment_gen`, `RecordOk`): the model's `processAlignment`
  takes the three columns as numbers, and `alnOfLine` has no record unless all three are decimal.  sort.py converts only what the
  branch taken needs (`int(line[7])` forward; `int(line[6])`, `int(line[8])` backward): a forward record with 8 columns, or with a
  non-numeric column 7 or 9, is sorted by sort.py while the model has no record (`sortLines = none`, the C09 theorems then say
  nothing).  Not GAF either.
* `∀ l ∈ lines, l ≠ []` (`while_gen` …): `readline()` returns the empty string only at the end of the file.
* `lines.length < fuel`: the `while True:` loop is unrolled by fuel.
* Modelling conventions shared with the rest of the development (they are in the primitives of `Gen/SortPass.lean`): a record is
  identified by its ordinal (`tell()` = number of lines read; C17 ties ordinals to byte / virtual offsets); `nodes[n]` is the
  node's `NodeTags`, `int(nodes[n].tags["BO"][1])` its field `bo` … (a node without the four tags is not represented); `int()` is
  `ConvText.toInt` (decimal digits only); `list.sort` with `cmp_to_key` is the stable sort that keeps `x` before `y` unless
  `cmp(y, x) < 0`, a `None` from the comparator (`TypeError` in Python) counting as "not less" — C08 `cmp_iff` shows it does not
  occur for distinct offsets.
-/
namespace Gaftools.TieA.SortPass
open Gaftools.Gaf Gaftools.Sort Gaftools.ConvText Gaftools.SortText Gaftools.Gen
open Gaftools.Gen.SortPass (PyExc orKey orIndex orValue pyIdx reSplit reSplitAux filterNone GafFile whileTrue pySortCmp)

/-! ## vocabulary -/

/-- the exception of the Python for an error of the model -/
def excOf : Err → PyExc
  | .keyError => .keyError
  | .assertion => .assertionError
  | .emptyPath => .indexError

/-- the orientation token of a step of the model -/
def encO (o : Bool) : Str := if o then ['>'] else ['<']

/-- the loop state of the Python (`orient`, `orient_list`, `sn`) for the state of the model's fold, `o` being the orientation in force -/
def stOf (o : Bool) (st : LoopSt) : Option Str × List (Option Str) × Option String :=
  (some (encO o), st.orients.map (fun b => some (encO b)), st.sn)

/-- the orientation in force after a list of tokens -/
def lastO : List Str → Bool → Bool
  | [], o => o
  | t :: ts, o => if isOrientTok t then lastO ts (t == ['>']) else lastO ts o

/-- the model's steps of a list of tokens -/
def stepsOf (toks : List Str) (o : Bool) : List Step :=
  (parseUnstableSteps.go toks o).map (fun s => (s.1, String.ofList s.2))

/-- A token list the model's `Step` list stands for: nothing, a lone orientation token, or an orientation token followed by a
    name and ending in a name.  (`process_alignment` reads `path[1]` and `path[-1]` as node names and appends `orient` — `None`
    before the first orientation token — to `orient_list`; the model has a list of (orientation, name) pairs.) -/
def Anchored (toks : List Str) : Prop :=
  toks = [] ∨ (∃ o, toks = [o] ∧ isOrientTok o = true) ∨
  (∃ o nm rest, toks = o :: nm :: rest ∧ isOrientTok o = true ∧ isOrientTok nm = false ∧
      ∀ h : nm :: rest ≠ [], isOrientTok ((nm :: rest).getLast h) = false)

/-! ## tokens -/

theorem reSplitAux_tokens (p cur : Str) :
    filterNone (reSplitAux (fun c => c == '>' || c == '<') (fun c => c == '>' || c == '<') p cur) = pathTokensAux p cur := by
  induction p generalizing cur with
  | nil =>
    unfold reSplitAux pathTokensAux filterNone
    cases cur <;> simp
  | cons c cs ih =>
    unfold reSplitAux pathTokensAux
    by_cases hc : (c == '>' || c == '<') = true
    · simp only [hc, if_true]
      have := ih []
      unfold filterNone at this ⊢
      cases cur <;> simp [this]
    · simp only [hc, Bool.false_eq_true, if_false]
      exact ih _

/-- `list(filter(None, re.split("(>)|(<)", p)))` is the model's tokenisation -/
theorem tokens_gen (p : Str) :
    filterNone (reSplit (fun c => c == '>' || c == '<') (fun c => c == '>' || c == '<') p) = pathTokens p :=
  reSplitAux_tokens p []

theorem orient_enc (t : Str) (h : isOrientTok t = true) : t = encO (t == ['>']) := by
  unfold isOrientTok at h
  unfold encO
  rcases (Bool.or_eq_true _ _).mp h with h1 | h1
  · rw [beq_iff_eq] at h1; subst h1; rfl
  · rw [beq_iff_eq] at h1; subst h1; rfl

theorem contains_orient (t : Str) : [['>'], ['<']].contains t = isOrientTok t := by
  unfold isOrientTok
  simp only [List.contains, List.elem]
  cases (t == ['>']) <;> cases (t == ['<']) <;> rfl

/-! ## the loop over the path -/

/-- an orientation token only sets `orient` -/
theorem for1_orient (nodes : String → Option NodeTags) (s : Option Str × List (Option Str) × Option String) (t : Str)
    (h : isOrientTok t = true) :
    SortPass.processAlignment_for1 nodes s t = .ok (some t, s.2.1, s.2.2) := by
  unfold SortPass.processAlignment_for1
  simp only [contains_orient, h, if_true]

/-- a name: the step of the model's fold, `KeyError` and `AssertionError` included -/
theorem for1_name (nodes : String → Option NodeTags) (o : Bool) (st : LoopSt) (t : Str) (h : isOrientTok t = false) :
    SortPass.processAlignment_for1 nodes (stOf o st) t =
      match loopStep nodes st (o, String.ofList t) with
      | .ok st' => .ok (stOf o st')
      | .error e => .error (excOf e) := by
  unfold SortPass.processAlignment_for1 loopStep stOf
  simp only [contains_orient, h]
  cases hn : nodes (String.ofList t) with
  | none => simp [orKey, Except.bind, excOf]
  | some tg =>
    simp only [orKey, Except.bind]
    by_cases h0 : tg.sr = 0 <;> by_cases hb : tg.bo = -1 <;> by_cases hn1 : tg.no = -1 <;> by_cases hn0 : tg.no = 0 <;>
      cases hsn : st.sn <;> simp [h0, hb, hn1, hn0, excOf] <;> (try omega) <;>
      (split <;> simp_all)

theorem loop_cons (nodes : String → Option NodeTags) (st : LoopSt) (s : Step) (rest : List Step) :
    Sort.loop nodes st (s :: rest) =
      match loopStep nodes st s with
      | .error e => .error e
      | .ok st' => Sort.loop nodes st' rest := by
  rw [Sort.loop]
  cases loopStep nodes st s <;> rfl

/-- `for n in path:` from a state in which an orientation is in force = the model's fold over the steps of the tokens -/
theorem for1_fold (nodes : String → Option NodeTags) (toks : List Str) (o : Bool) (st : LoopSt) :
    toks.foldlM (SortPass.processAlignment_for1 nodes) (stOf o st) =
      match Sort.loop nodes st (stepsOf toks o) with
      | .ok st' => .ok (stOf (lastO toks o) st')
      | .error e => .error (excOf e) := by
  induction toks generalizing o st with
  | nil => simp [stepsOf, parseUnstableSteps.go, Sort.loop, lastO, pure, Except.pure]
  | cons t ts ih =>
    rw [List.foldlM_cons]
    by_cases h : isOrientTok t = true
    · rw [for1_orient nodes _ t h]
      have e1 : stepsOf (t :: ts) o = stepsOf ts (t == ['>']) := by
        simp [stepsOf, parseUnstableSteps.go, h]
      have e2 : lastO (t :: ts) o = lastO ts (t == ['>']) := by simp [lastO, h]
      rw [e1, e2, ← ih (t == ['>']) st]
      conv => rhs; rw [stOf, ← orient_enc t h]
      rfl
    · have h' : isOrientTok t = false := by simpa using h
      rw [for1_name nodes o st t h']
      have e1 : stepsOf (t :: ts) o = (o, String.ofList t) :: stepsOf ts o := by
        simp [stepsOf, parseUnstableSteps.go, h']
      have e2 : lastO (t :: ts) o = lastO ts o := by simp [lastO, h']
      rw [e1, e2, loop_cons]
      cases hs : loopStep nodes st (o, String.ofList t) with
      | error e => rfl
      | ok st' => exact ih o st'

/-! ## after the loop -/

theorem count_fwd (l : List Bool) : (l.map (fun b => some (encO b))).count (some ['>']) = countFwd l := by
  induction l with
  | nil => rfl
  | cons b bs ih =>
    cases b <;> simp [countFwd, encO] at ih ⊢ <;> omega

theorem count_rev (l : List Bool) : (l.map (fun b => some (encO b))).count (some ['<']) = countRev l := by
  induction l with
  | nil => rfl
  | cons b bs ih =>
    cases b <;> simp [countRev, encO] at ih ⊢ <;> omega

theorem pyIdx_last {α : Type} (l : List α) : pyIdx l (-1 : Int) = l.getLast? := by
  unfold pyIdx
  cases l with
  | nil => simp
  | cons a as => simp [List.getLast?_eq_getElem?]

theorem toInt_digits (s : Str) (h : isDigits s = true) : toInt s = some ((toNat s : Nat) : Int) := by
  simp [toInt, h]

/-- what `process_alignment` returns once the loop has ended in the state that stands for `st` -/
def afterLoop (nodes : String → Option NodeTags) (toks : List Str) (plen ps pe : Int) (st : LoopSt) :
    Except PyExc (Int × Int × Int × Int × String) :=
  let inv : Int := if countFwd st.orients != 0 && countRev st.orients != 0 then 1 else 0
  let sn := st.sn.getD "unknown"
  if countFwd st.orients < countRev st.orients then
    match toks.getLast? with
    | none => .error .indexError
    | some n => match nodes (String.ofList n) with
      | none => .error .keyError
      | some t => .ok (t.bo, t.no, plen - pe, inv, sn)
  else
    match toks[1]? with
    | none => .error .indexError
    | some n => match nodes (String.ofList n) with
      | none => .error .keyError
      | some t => .ok (t.bo, t.no, ps, inv, sn)

theorem processAlignment_ok (nodes : String → Option NodeTags) (f0 f1 f2 f3 f4 path plen ps pe : Str) (rest : List Str) (offset : Nat)
    (hd : isDigits plen = true ∧ isDigits ps = true ∧ isDigits pe = true) (orient : Option Str) (st : LoopSt)
    (hfold : (pathTokens path).foldlM (SortPass.processAlignment_for1 nodes) (none, [], none) =
      .ok (orient, st.orients.map (fun b => some (encO b)), st.sn)) :
    SortPass.processAlignment (f0 :: f1 :: f2 :: f3 :: f4 :: path :: plen :: ps :: pe :: rest) nodes offset =
      afterLoop nodes (pathTokens path) (toNat plen) (toNat ps) (toNat pe) st := by
  unfold SortPass.processAlignment afterLoop
  have e5 : (f0 :: f1 :: f2 :: f3 :: f4 :: path :: plen :: ps :: pe :: rest)[5]? = some path := rfl
  have e6 : (f0 :: f1 :: f2 :: f3 :: f4 :: path :: plen :: ps :: pe :: rest)[6]? = some plen := rfl
  have e7 : (f0 :: f1 :: f2 :: f3 :: f4 :: path :: plen :: ps :: pe :: rest)[7]? = some ps := rfl
  have e8 : (f0 :: f1 :: f2 :: f3 :: f4 :: path :: plen :: ps :: pe :: rest)[8]? = some pe := rfl
  simp only [e5, e6, e7, e8, orIndex, Except.bind, tokens_gen, hfold, toInt_digits _ hd.1, toInt_digits _ hd.2.1, toInt_digits _ hd.2.2,
    orValue, count_fwd, count_rev, pyIdx_last]
  have hlt : ((countFwd st.orients : Int) < (countRev st.orients : Int)) ↔ countFwd st.orients < countRev st.orients := by omega
  have hf : ((countFwd st.orients : Int) ≠ 0) ↔ countFwd st.orients ≠ 0 := by omega
  have hr : ((countRev st.orients : Int) ≠ 0) ↔ countRev st.orients ≠ 0 := by omega
  simp only [hlt, hf, hr]
  by_cases h3 : countFwd st.orients < countRev st.orients
  · simp only [h3, if_true]
    cases (pathTokens path).getLast? with
    | none => simp
    | some n =>
      dsimp only
      cases nodes (String.ofList n) <;> cases st.sn <;>
        by_cases h1 : countFwd st.orients = 0 <;> by_cases h2 : countRev st.orients = 0 <;> simp [orKey, h1, h2]
  · simp only [h3, if_false]
    cases (pathTokens path)[1]? with
    | none => simp
    | some n =>
      dsimp only
      cases nodes (String.ofList n) <;> cases st.sn <;>
        by_cases h1 : countFwd st.orients = 0 <;> by_cases h2 : countRev st.orients = 0 <;> simp [orKey, h1, h2]

theorem processAlignment_err (nodes : String → Option NodeTags) (f0 f1 f2 f3 f4 path plen ps pe : Str) (rest : List Str) (offset : Nat)
    (e : PyExc) (hfold : (pathTokens path).foldlM (SortPass.processAlignment_for1 nodes) (none, [], none) = .error e) :
    SortPass.processAlignment (f0 :: f1 :: f2 :: f3 :: f4 :: path :: plen :: ps :: pe :: rest) nodes offset = .error e := by
  unfold SortPass.processAlignment
  have e5 : (f0 :: f1 :: f2 :: f3 :: f4 :: path :: plen :: ps :: pe :: rest)[5]? = some path := rfl
  simp only [e5, orIndex, Except.bind, tokens_gen, hfold]

/-! ## `path[1]` and `path[-1]` against the first and the last step -/

theorem steps_getLast (toks : List Str) (o : Bool) (h : toks ≠ []) (hl : isOrientTok (toks.getLast h) = false) :
    ∃ b, (stepsOf toks o).getLast? = some (b, String.ofList (toks.getLast h)) := by
  induction toks generalizing o with
  | nil => exact absurd rfl h
  | cons t ts ih =>
    cases ts with
    | nil =>
      simp only [List.getLast_singleton] at hl
      exact ⟨o, by simp [stepsOf, parseUnstableSteps.go, hl]⟩
    | cons t' ts' =>
      have hl' : isOrientTok ((t' :: ts').getLast (by simp)) = false := by simpa using hl
      by_cases ht : isOrientTok t = true
      · obtain ⟨b, hb⟩ := ih (t == ['>']) (by simp) hl'
        refine ⟨b, ?_⟩
        have e1 : stepsOf (t :: t' :: ts') o = stepsOf (t' :: ts') (t == ['>']) := by
          simp [stepsOf, parseUnstableSteps.go, ht]
        rw [e1, hb]; simp
      · have ht' : isOrientTok t = false := by simpa using ht
        obtain ⟨b, hb⟩ := ih o (by simp) hl'
        refine ⟨b, ?_⟩
        have e1 : stepsOf (t :: t' :: ts') o = (o, String.ofList t) :: stepsOf (t' :: ts') o := by
          simp [stepsOf, parseUnstableSteps.go, ht']
        rw [e1, List.getLast?_cons, hb]; simp

/-! ## `process_alignment` -/

/-- **`process_alignment` as a whole.**  On the fields of a record whose columns 7–9 are decimal numbers and whose path is
    `Anchored`, the translated function returns what the model's `processAlignment` returns on the steps of the path — the five
    values, or the exception (`KeyError`, `AssertionError`, `IndexError`) for the model's error. -/
theorem processAlignment_gen (nodes : String → Option NodeTags) (f0 f1 f2 f3 f4 path plen ps pe : Str) (rest : List Str) (offset : Nat)
    (hd : isDigits plen = true ∧ isDigits ps = true ∧ isDigits pe = true) (ha : Anchored (pathTokens path)) :
    SortPass.processAlignment (f0 :: f1 :: f2 :: f3 :: f4 :: path :: plen :: ps :: pe :: rest) nodes offset =
      match Sort.processAlignment nodes (parseUnstableSteps path) (toNat plen) (toNat ps) (toNat pe) offset with
      | .ok a => .ok (a.bo, a.no, a.start, a.inv, a.sn)
      | .error e => .error (excOf e) := by
  have hsteps : parseUnstableSteps path = stepsOf (pathTokens path) true := rfl
  rw [hsteps]
  rcases ha with h | ⟨o, h, ho⟩ | ⟨o, nm, rs, h, ho, hnm, hlast⟩
  · have hfold : (pathTokens path).foldlM (SortPass.processAlignment_for1 nodes) (none, [], none) =
        .ok (none, (⟨none, []⟩ : LoopSt).orients.map (fun b => some (encO b)), (⟨none, []⟩ : LoopSt).sn) := by
      rw [h]; rfl
    rw [processAlignment_ok nodes f0 f1 f2 f3 f4 path plen ps pe rest offset hd none ⟨none, []⟩ hfold, h]
    simp [afterLoop, stepsOf, parseUnstableSteps.go, Sort.processAlignment, Sort.loop, countFwd, countRev, excOf]
  · have hfold : (pathTokens path).foldlM (SortPass.processAlignment_for1 nodes) (none, [], none) =
        .ok (some o, (⟨none, []⟩ : LoopSt).orients.map (fun b => some (encO b)), (⟨none, []⟩ : LoopSt).sn) := by
      rw [h, List.foldlM_cons, for1_orient nodes _ o ho]; rfl
    rw [processAlignment_ok nodes f0 f1 f2 f3 f4 path plen ps pe rest offset hd (some o) ⟨none, []⟩ hfold, h]
    simp [afterLoop, stepsOf, parseUnstableSteps.go, ho, Sort.processAlignment, Sort.loop, countFwd, countRev, excOf]
  · have e1 : stepsOf (pathTokens path) true = (o == ['>'], String.ofList nm) :: stepsOf rs (o == ['>']) := by
      rw [h]; simp [stepsOf, parseUnstableSteps.go, ho, hnm]
    have e0 : stepsOf (pathTokens path) true = stepsOf (nm :: rs) (o == ['>']) := by
      rw [h]; simp [stepsOf, parseUnstableSteps.go, ho]
    have hf0 : (pathTokens path).foldlM (SortPass.processAlignment_for1 nodes) (none, [], none) =
        (nm :: rs).foldlM (SortPass.processAlignment_for1 nodes) (stOf (o == ['>']) ⟨none, []⟩) := by
      rw [h, List.foldlM_cons, for1_orient nodes _ o ho]
      conv => rhs; rw [stOf, ← orient_enc o ho]
      rfl
    rw [for1_fold] at hf0
    obtain ⟨b, hb⟩ := steps_getLast (nm :: rs) (o == ['>']) (by simp) (hlast (by simp))
    rw [← e0] at hb hf0
    unfold Sort.processAlignment
    cases hl : Sort.loop nodes ⟨none, []⟩ (stepsOf (pathTokens path) true) with
    | error e =>
      rw [hl] at hf0
      rw [processAlignment_err nodes f0 f1 f2 f3 f4 path plen ps pe rest offset _ hf0]
    | ok st' =>
      rw [hl] at hf0
      rw [processAlignment_ok nodes f0 f1 f2 f3 f4 path plen ps pe rest offset hd _ st' hf0]
      have hlastTok : (pathTokens path).getLast? = some ((nm :: rs).getLast (by simp)) := by
        rw [h]; simp [List.getLast?_eq_some_getLast]
      have h1 : (pathTokens path)[1]? = some nm := by rw [h]; rfl
      simp only [afterLoop, hlastTok, h1, hb]
      rw [e1]
      simp only [List.head?_cons]
      by_cases h3 : countFwd st'.orients < countRev st'.orients
      · simp only [h3, if_true]
        cases nodes (String.ofList ((nm :: rs).getLast (by simp))) <;> simp [excOf]
      · simp only [h3, if_false]
        cases nodes (String.ofList nm) <;> simp [excOf]

/-! ## one record of the first pass -/

/-- `Alignment(offset=offset, BO=bo, NO=no, start=start, inv=inv, sn=sn)` -/
def alnOf (ord : Nat) (r : Int × Int × Int × Int × String) : Aln := ⟨ord, r.1, r.2.1, r.2.2.1, r.2.2.2.1, r.2.2.2.2⟩

/-- what the loop body computes for the record `l` read at ordinal `i`: the split, `process_alignment`, the tuple -/
def recOf (nodes : String → Option NodeTags) (l : Str) (i : Nat) : Except PyExc Aln :=
  (SortPass.processAlignment (splitOnChar '\t' (rstrip l)) nodes i).map (alnOf i)

/-- A record the model's `processAlignment` can be handed: at least nine columns, columns 7–9 decimal numbers (the model takes
    them as numbers), the path `Anchored` (the model takes it as steps). -/
def RecordOk (line : Str) : Prop :=
  ∃ f0 f1 f2 f3 f4 path plen ps pe rest,
    splitTab (rstrip line) = f0 :: f1 :: f2 :: f3 :: f4 :: path :: plen :: ps :: pe :: rest ∧
    isDigits plen = true ∧ isDigits ps = true ∧ isDigits pe = true ∧ Anchored (pathTokens path)

/-- **One record.**  The split of the line, `process_alignment` and the tuple appended are the model's `alnOfLine`. -/
theorem alnOfLine_gen (nodes : String → Option NodeTags) (line : Str) (ord : Nat) (h : RecordOk line) :
    (recOf nodes line ord).toOption = alnOfLine nodes line ord := by
  obtain ⟨f0, f1, f2, f3, f4, path, plen, ps, pe, rest, hs, h6, h7, h8, ha⟩ := h
  have hs' : splitOnChar '\t' (rstrip line) = f0 :: f1 :: f2 :: f3 :: f4 :: path :: plen :: ps :: pe :: rest := hs
  unfold recOf alnOfLine
  rw [hs, hs', processAlignment_gen nodes f0 f1 f2 f3 f4 path plen ps pe rest ord ⟨h6, h7, h8⟩ ha]
  simp only [h6, h7, h8, Bool.and_self, if_true]
  cases hp : Sort.processAlignment nodes (parseUnstableSteps path) (toNat plen) (toNat ps) (toNat pe) (ord : Nat) with
  | error e => rfl
  | ok a =>
    have ho := C09.processAlignment_offset _ _ _ _ _ _ _ hp
    cases a
    simp only at ho
    subst ho
    rfl

/-! ## the reading loop -/

/-- one iteration on a non-empty line: offset taken BEFORE the line is read, the line split, the tuple appended, the count -/
theorem while_step (nodes : String → Option NodeTags) (pos : Nat) (line : Str) (rest : List Str) (acc : List Aln) (cnt : Int)
    (hne : line ≠ []) :
    SortPass.firstPass_while1 nodes (⟨pos, line :: rest⟩, acc, cnt) =
      match recOf nodes line pos with
      | .error e => .error e
      | .ok a => .ok (true, (⟨pos + 1, rest⟩, acc ++ [a], if a.inv = 1 then cnt + 1 else cnt)) := by
  unfold SortPass.firstPass_while1 recOf
  have hE : line.isEmpty = false := by cases line with
    | nil => exact absurd rfl hne
    | cons _ _ => rfl
  simp only [List.head?_cons, Option.getD_some, List.tail_cons, hE, Bool.false_eq_true, if_false]
  cases SortPass.processAlignment (splitOnChar '\t' (rstrip line)) nodes pos with
  | error e => rfl
  | ok r =>
    simp only [Except.bind, Except.map, alnOf]
    by_cases hi : r.2.2.2.1 = 1 <;> simp [hi]

/-- the end of the file: `readline()` returns the empty string, `break` -/
theorem while_eof (nodes : String → Option NodeTags) (pos : Nat) (acc : List Aln) (cnt : Int) :
    SortPass.firstPass_while1 nodes (⟨pos, []⟩, acc, cnt) = .ok (false, (⟨pos + 1, []⟩, acc, cnt)) := by
  unfold SortPass.firstPass_while1
  simp

/-- the whole loop -/
theorem while_gen (nodes : String → Option NodeTags) (lines : List Str) (pos : Nat) (acc : List Aln) (cnt : Int) (fuel : Nat)
    (hf : lines.length < fuel) (hne : ∀ l ∈ lines, l ≠ []) :
    whileTrue (SortPass.firstPass_while1 nodes) fuel (⟨pos, lines⟩, acc, cnt) =
      match (lines.zipIdx pos).mapM (fun (l, i) => recOf nodes l i) with
      | .error e => .error e
      | .ok alns => .ok (⟨pos + lines.length + 1, []⟩, acc ++ alns, cnt + ((alns.filter (fun a => a.inv = 1)).length : Nat)) := by
  induction lines generalizing pos acc cnt fuel with
  | nil =>
    cases fuel with
    | zero => simp at hf
    | succ f =>
      rw [whileTrue, while_eof]
      simp [pure, Except.pure]
  | cons l ls ih =>
    cases fuel with
    | zero => simp at hf
    | succ f =>
      rw [whileTrue, while_step nodes pos l ls acc cnt (hne l (by simp))]
      simp only [List.zipIdx_cons, List.mapM_cons, bind, Except.bind]
      cases hr : recOf nodes l pos with
      | error e => rfl
      | ok a =>
        simp only
        rw [ih (pos + 1) (acc ++ [a]) _ f (by simp at hf; omega) (fun x hx => hne x (by simp [hx]))]
        cases (ls.zipIdx (pos + 1)).mapM (fun (l, i) => recOf nodes l i) with
        | error e => rfl
        | ok alns =>
          simp only [pure, Except.pure, List.length_cons, List.append_assoc, List.singleton_append, List.filter_cons]
          by_cases hi : a.inv = 1 <;> simp [hi] <;> omega

/-! ## `list.sort(key=cmp_to_key(compare_gaf))` and the whole first pass -/

/-- the call of `list.sort` with the translated comparator (`Gen.cmpGaf`, tied to `compare_gaf` in `Gen/CmpGaf.lean`) is `sortAlns` -/
theorem sort_gen (l : List Aln) : pySortCmp Gaftools.Gen.cmpGaf l = sortAlns l := by
  have hfun : Gaftools.Gen.cmpGaf = Sort.cmpGaf := funext fun a => funext fun b => C08.gen_eq_model a b
  rw [hfun]
  rfl

/-- **The first pass and the sort, exceptions included.**  For a file of non-empty lines and enough fuel, the translated region of
    `sort()` returns the records of the lines — each one computed by the translated loop body at its ordinal, the first exception
    in file order being the one raised — sorted by `sortAlns`, and the number of records with an inversion. -/
theorem firstPass_gen (nodes : String → Option NodeTags) (lines : List Str) (fuel : Nat)
    (hf : lines.length < fuel) (hne : ∀ l ∈ lines, l ≠ []) :
    SortPass.firstPass nodes ⟨0, lines⟩ fuel =
      (lines.zipIdx.mapM (fun (l, i) => recOf nodes l i)).map
        (fun (alns : List Aln) => (sortAlns alns, (((alns.filter (fun (a : Aln) => a.inv = 1)).length : Nat) : Int))) := by
  unfold SortPass.firstPass
  simp only [while_gen nodes lines 0 [] 0 fuel hf hne]
  cases lines.zipIdx.mapM (fun (l, i) => recOf nodes l i) with
  | error e => rfl
  | ok alns => simp [Except.bind, Except.map, sort_gen]

theorem mapM_records (nodes : String → Option NodeTags) (xs : List (Str × Nat)) (hok : ∀ x ∈ xs, RecordOk x.1) :
    (xs.mapM (fun (l, i) => recOf nodes l i)).toOption = xs.mapM (fun (l, i) => alnOfLine nodes l i) := by
  induction xs with
  | nil => rfl
  | cons x xs ih =>
    have h1 := alnOfLine_gen nodes x.1 x.2 (hok x (by simp))
    have h2 := ih (fun y hy => hok y (by simp [hy]))
    simp only [List.mapM_cons, bind, Except.bind, Option.bind]
    rw [← h1, ← h2]
    cases recOf nodes x.1 x.2 with
    | error e => rfl
    | ok a =>
      cases xs.mapM (fun (l, i) => recOf nodes l i) with
      | error e => rfl
      | ok as => rfl

/-- **The first pass and the sort against the model.**  If moreover every line is a record the model can be handed (`RecordOk`),
    the sorted list the translated region returns is `sortAlns` of the model's records (`alnOfLine` at the ordinal of the line),
    and it raises exactly when the model has no record for some line. -/
theorem firstPass_model (nodes : String → Option NodeTags) (lines : List Str) (fuel : Nat)
    (hf : lines.length < fuel) (hne : ∀ l ∈ lines, l ≠ []) (hok : ∀ l ∈ lines, RecordOk l) :
    (SortPass.firstPass nodes ⟨0, lines⟩ fuel).toOption.map (·.1) =
      (lines.zipIdx.mapM (fun (l, i) => alnOfLine nodes l i)).map sortAlns := by
  rw [firstPass_gen nodes lines fuel hf hne,
    ← mapM_records nodes lines.zipIdx (fun x hx => hok x.1 (List.fst_mem_of_mem_zipIdx hx))]
  cases lines.zipIdx.mapM (fun (l, i) => recOf nodes l i) <;> rfl

/-- … hence the model of the whole command (`sortLines`, about which C09 is proved) is the translated first pass followed by the
    write loop (tied in `Gen/SortWrite.lean`): the raw line of each sorted record, right-stripped, plus its three fields. -/
theorem sortLines_gen (nodes : String → Option NodeTags) (lines : List Str) (fuel : Nat)
    (hf : lines.length < fuel) (hne : ∀ l ∈ lines, l ≠ []) (hok : ∀ l ∈ lines, RecordOk l) :
    sortLines nodes lines =
      (SortPass.firstPass nodes ⟨0, lines⟩ fuel).toOption.map
        (fun r => r.1.map (fun a => rstrip (lines.getD a.offset.toNat []) ++ (suffix a).toList)) := by
  have h := firstPass_model nodes lines fuel hf hne hok
  unfold sortLines
  cases hm : lines.zipIdx.mapM (fun (l, i) => alnOfLine nodes l i) with
  | none =>
    rw [hm] at h
    cases hp : (SortPass.firstPass nodes ⟨0, lines⟩ fuel).toOption with
    | none => rfl
    | some r => rw [hp] at h; cases h
  | some alns =>
    rw [hm] at h
    cases hp : (SortPass.firstPass nodes ⟨0, lines⟩ fuel).toOption with
    | none => rw [hp] at h; cases h
    | some r =>
      rw [hp] at h
      have : r.1 = sortAlns alns := by simpa using h
      simp [this]

/-! ## `Anchored` is met by every path of the GAF form `([<>]name)*` -/

open Gaftools.Proofs.Glue (NoOr orTok pathTokens_flatMap isOrientTok_orTok)

theorem name_not_orient (n : Str) (hn : NoOr n) : isOrientTok n = false := by
  cases h : isOrientTok n with
  | false => rfl
  | true =>
    exfalso
    unfold isOrientTok at h
    rcases (Bool.or_eq_true _ _).mp h with h1 | h1
    · rw [beq_iff_eq] at h1; subst h1; exact (hn '>' (by simp)).1 rfl
    · rw [beq_iff_eq] at h1; subst h1; exact (hn '<' (by simp)).2 rfl

theorem last_pairs {α : Type} (f g : α → Str) (xs : List α) (a : Str) :
    (a :: xs.flatMap (fun x => [f x, g x])).getLast (by simp) = a ∨
      ∃ x ∈ xs, (a :: xs.flatMap (fun x => [f x, g x])).getLast (by simp) = g x := by
  induction xs generalizing a with
  | nil => exact Or.inl rfl
  | cons y ys ih =>
    right
    have e : (a :: (y :: ys).flatMap (fun x => [f x, g x])).getLast (by simp) =
        (g y :: ys.flatMap (fun x => [f x, g x])).getLast (by simp) := by
      simp [List.flatMap_cons, List.getLast_cons]
    rcases ih (g y) with h | ⟨x, hx, h⟩
    · exact ⟨y, by simp, by rw [e, h]⟩
    · exact ⟨x, by simp [hx], by rw [e, h]⟩

/-- a path written as orientation character + non-empty name (without `>` / `<`), any number of times, is `Anchored` -/
theorem anchored_of_steps (steps : List (Bool × Str)) (h : ∀ x ∈ steps, x.2 ≠ [] ∧ NoOr x.2) :
    Anchored (pathTokens (steps.flatMap (fun x => orTok x.1 ++ x.2))) := by
  rw [pathTokens_flatMap (fun x => x.1) (fun x => x.2) steps h]
  cases steps with
  | nil => exact Or.inl rfl
  | cons x xs =>
    refine Or.inr (Or.inr ⟨orTok x.1, x.2, xs.flatMap (fun x => [orTok x.1, x.2]), by simp [List.flatMap_cons],
      isOrientTok_orTok _, name_not_orient _ (h x (by simp)).2, fun hne => ?_⟩)
    rcases last_pairs (fun x : Bool × Str => orTok x.1) (fun x => x.2) xs x.2 with hl | ⟨y, hy, hl⟩
    · rw [hl]; exact name_not_orient _ (h x (by simp)).2
    · rw [hl]; exact name_not_orient _ (h y (by simp [hy])).2

end Gaftools.TieA.SortPass
