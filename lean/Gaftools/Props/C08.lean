import Gaftools.Gen.CmpGaf
import Gaftools.Spec.Sort
/-!
# C08 — sort orders alignments by (BO, NO, start) as a total order

Property theorems.  `Gen.cmpGaf` is regenerated from `gaftools/cli/sort.py:compare_gaf` on every run (Tie A);
`gen_eq_model`, `cmp_iff` and `cmp_antisymm` are re-proved against it, the rest is about the hand-written
model that the driver executes (`Sort.cmpGaf`, `Sort.sortAlns`).  Python's `list.sort` is modelled by a merge sort;
`sort_unique` shows that *any* algorithm returning a sorted permutation returns this very list, so the choice of
algorithm is irrelevant (timsort itself is in the trusted base).
-/
namespace Gaftools.C08
open Gaftools.Sort

open Gaftools.Spec.Sort (keyLe)

/-- Tie A: the comparator translated from the current source is the hand-written model used by the driver.
    (`rfl` covers the fallback file written when the source leaves the translator's subset.) -/
theorem gen_eq_model (a b : Aln) : Gen.cmpGaf a b = Sort.cmpGaf a b := by
  first
    | rfl
    | (simp only [Gen.cmpGaf, Sort.cmpGaf]
       repeat' split
       all_goals simp_all
       all_goals omega)

/-- full characterisation of the model comparator -/
theorem cmpGaf_char (a b : Aln) :
    (cmpGaf a b = some (-1) ∧ keyLe a b ∧ ¬ keyLe b a) ∨
    (cmpGaf a b = some 1 ∧ keyLe b a ∧ (¬ keyLe a b ∨ (a.bo = -1 ∧ b.bo = -1 ∧ a.offset = b.offset))) ∨
    (cmpGaf a b = none ∧ keyLe a b ∧ keyLe b a ∧ a.offset = b.offset) := by
  simp only [Sort.cmpGaf, keyLe]
  repeat' split
  all_goals simp_all
  all_goals omega


/-- the translated comparator decides the spec order, answers only ±1, and never falls off its end
    for two records of the same file (distinct offsets) -/
theorem cmp_iff (a b : Aln) (h : a.offset ≠ b.offset) :
    ∃ c, Gen.cmpGaf a b = some c ∧ (c ≤ 0 ↔ keyLe a b) ∧ (c = -1 ∨ c = 1) := by
  rw [gen_eq_model]
  rcases cmpGaf_char a b with ⟨h1, h2, h3⟩ | ⟨h1, h2, h3⟩ | ⟨h1, h2, h3, h4⟩
  · exact ⟨-1, h1, ⟨fun _ => h2, fun _ => by decide⟩, Or.inl rfl⟩
  · refine ⟨1, h1, ⟨fun hc => absurd hc (by decide), fun hk => ?_⟩, Or.inr rfl⟩
    rcases h3 with h3 | h3
    · exact absurd hk h3
    · exact absurd h3.2.2 h
  · exact absurd h4 h

/-- antisymmetry as Python's sort needs it: cmp(a,b) = −cmp(b,a) for two records of one file -/
theorem cmp_antisymm (a b : Aln) (h : a.offset ≠ b.offset) :
    ∃ c, Gen.cmpGaf a b = some c ∧ Gen.cmpGaf b a = some (-c) := by
  rw [gen_eq_model, gen_eq_model]
  rcases cmpGaf_char a b with ⟨h1, h2, h3⟩ | ⟨h1, h2, h3⟩ | ⟨h1, h2, h3, h4⟩ <;>
  rcases cmpGaf_char b a with ⟨g1, g2, g3⟩ | ⟨g1, g2, g3⟩ | ⟨g1, g2, g3, g4⟩
  all_goals first
    | exact absurd h4 h
    | exact absurd g4.symm h
    | (exfalso; rcases h3 with h3 | h3 <;> rcases g3 with g3 | g3 <;> first | exact h3 g2 | exact g3 h2 | exact h h3.2.2 | exact h g3.2.2.symm)
    | exact absurd g2 h3
    | exact absurd h2 g3
    | exact ⟨_, h1, by simpa using g1⟩

theorem cmpLe_iff (a b : Aln) : cmpLe a b = true ↔ keyLe a b := by
  unfold cmpLe
  rcases cmpGaf_char b a with ⟨h, h1, h2⟩ | ⟨h, h1, h2⟩ | ⟨h, h1, h2, h3⟩
  · simp [h, h2]
  · simp [h, h1]
  · simp [h, h2]

theorem keyLe_total (a b : Aln) : keyLe a b ∨ keyLe b a := by
  unfold keyLe
  grind

theorem keyLe_trans (a b c : Aln) (h₁ : keyLe a b) (h₂ : keyLe b c) : keyLe a c := by
  unfold keyLe at *
  grind
theorem keyLe_antisymm_offset (a b : Aln) (h₁ : keyLe a b) (h₂ : keyLe b a) : a.offset = b.offset := by
  unfold keyLe at *
  grind

theorem sort_perm (l : List Aln) : (sortAlns l).Perm l := List.mergeSort_perm l cmpLe

theorem sort_sorted (l : List Aln) : (sortAlns l).Pairwise keyLe := by
  have h := List.pairwise_mergeSort (le := cmpLe)
    (fun a b c h₁ h₂ => (cmpLe_iff a c).2 (keyLe_trans a b c ((cmpLe_iff a b).1 h₁) ((cmpLe_iff b c).1 h₂)))
    (fun a b => by
      rcases keyLe_total a b with h | h
      · simp [(cmpLe_iff a b).2 h]
      · simp [(cmpLe_iff b a).2 h]) l
  exact h.imp (fun {a b} hab => (cmpLe_iff a b).1 hab)

/-- records of one file have pairwise different offsets -/
def DistinctOffsets (l : List Aln) : Prop := (l.map (·.offset)).Nodup

theorem eq_of_offset_eq {l : List Aln} (hd : DistinctOffsets l) {a b : Aln} (ha : a ∈ l) (hb : b ∈ l)
    (h : a.offset = b.offset) : a = b := by
  unfold DistinctOffsets at hd
  induction l with
  | nil => cases ha
  | cons x xs ih =>
    simp only [List.map_cons, List.nodup_cons, List.mem_map, not_exists, not_and] at hd
    simp only [List.mem_cons] at ha hb
    rcases ha with rfl | ha <;> rcases hb with rfl | hb
    · rfl
    · exact absurd h.symm (hd.1 b hb)
    · exact absurd h (hd.1 a ha)
    · exact ih hd.2 ha hb

theorem sort_unique (l l' : List Aln) (hd : DistinctOffsets l) (hp : l'.Perm l) (hs : l'.Pairwise keyLe) :
    l' = sortAlns l := by
  apply List.Perm.eq_of_pairwise (le := keyLe) _ hs (sort_sorted l) (hp.trans (sort_perm l).symm)
  intro a b ha hb h₁ h₂
  exact eq_of_offset_eq hd (hp.subset ha) ((sort_perm l).subset hb) (keyLe_antisymm_offset a b h₁ h₂)

/-- consequence: the output does not depend on the input order -/
theorem sort_perm_invariant (l₁ l₂ : List Aln) (hd : DistinctOffsets l₁) (hp : l₁.Perm l₂) :
    sortAlns l₁ = sortAlns l₂ := by
  have hd₂ : DistinctOffsets l₂ := (hp.map _).nodup_iff.1 hd
  exact sort_unique l₂ (sortAlns l₁) hd₂ ((sort_perm l₁).trans hp) (sort_sorted l₁)

/-! non-vacuity: a concrete file with ties, untagged anchors and distinct offsets -/
def exAlns : List Aln :=
  [⟨0, 2, 3, 5, 0, "chr1"⟩, ⟨70, -1, -1, 0, 0, "unknown"⟩, ⟨140, 2, 0, 5, 0, "chr1"⟩, ⟨210, 2, 0, 5, 1, "chr1"⟩, ⟨280, 1, 7, 9, 0, "chr1"⟩]
example : DistinctOffsets exAlns := by unfold DistinctOffsets; decide
/-- the sorted order of the example file, obtained through `sort_unique` (a use of the theorem, not an evaluation) -/
example : sortAlns exAlns =
    [⟨280, 1, 7, 9, 0, "chr1"⟩, ⟨140, 2, 0, 5, 0, "chr1"⟩, ⟨210, 2, 0, 5, 1, "chr1"⟩, ⟨0, 2, 3, 5, 0, "chr1"⟩, ⟨70, -1, -1, 0, 0, "unknown"⟩] :=
  (sort_unique exAlns _ (by unfold DistinctOffsets; decide) (by decide) (by decide)).symm
example : (⟨0, 2, 3, 5, 0, "c"⟩ : Aln).offset ≠ (⟨70, -1, -1, 0, 0, "u"⟩ : Aln).offset := by decide

end Gaftools.C08
