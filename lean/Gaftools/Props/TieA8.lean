import Gaftools.Model.Sort
import Gaftools.Gen.SortWrite
import Gaftools.Props.TieA7
/-!
# Tie A for the write loop of `sort.sort` (C09, C10)

`Gen/SortWrite.lean` is regenerated from `gaftools/cli/sort.py` on every run: the format and arguments of the three fields appended
to a record, whether the raw record is right-stripped in both branches, the `.gsi` assignment as a function of "is the contig's
first offset still `None`", whether the offset is read before the record is written, and the key removed before pickling.
The theorems say that `Sort.suffix`, `Sort.gsiStep` and `Sort.gsiIndex` — about which C09 and C10 are proved — are these.
-/
namespace Gaftools.TieA
open Gaftools.Sort Gaftools.Gen

/-- the attribute of the model's alignment with that name, as `%d` / `%s` prints it -/
def alnArg (a : Aln) (name : String) : List Char :=
  if name == "BO" then (toString a.bo).toList
  else if name == "sn" then a.sn.toList
  else if name == "inv" then (toString a.inv).toList
  else if name == "NO" then (toString a.no).toList
  else if name == "start" then (toString a.start).toList
  else if name == "offset" then (toString a.offset).toList
  else []

/-- the three appended fields and the line terminator are the generated format filled with the generated arguments -/
theorem suffix_gen (a : Aln) :
    (suffix a).toList ++ ['\n'] = fillFmt Gen.sortSuffixFormat.toList (Gen.sortSuffixArgs.map (alnArg a)) := by
  simp [suffix, Gen.sortSuffixFormat, Gen.sortSuffixArgs, alnArg, fillFmt, String.toList_append]

theorem sortStrips_gen : Gen.sortStripsBytes = true ∧ Gen.sortStripsStr = true := by
  first | exact ⟨rfl, rfl⟩ | decide

/-- the entry of a contig as the Python dictionary holds it: absent (a fresh `[None, None]`) or `[first, last]` -/
def entryOf (acc : List (String × Nat × Nat)) (k : String) : Option Nat × Option Nat :=
  match acc.find? (·.1 == k) with
  | some e => (some e.2.1, some e.2.2)
  | none => (none, none)

/-- the generated assignment applied to an entry -/
def applyAssign (cur : Option Nat × Option Nat) (off : Nat) : Option Nat × Option Nat :=
  let sf := (Gen.gsiAssign cur.1.isNone).1
  let sl := (Gen.gsiAssign cur.1.isNone).2
  (if sf then some off else cur.1, if sl then some off else cur.2)

/-- one record: the entry of its contig is updated by the generated assignment -/
theorem gsiStep_gen_same (acc : List (String × Nat × Nat)) (k : String) (off : Nat) :
    entryOf (gsiStep acc (k, off)) k = applyAssign (entryOf acc k) off := by
  unfold gsiStep entryOf applyAssign Gen.gsiAssign
  induction acc with
  | nil => simp
  | cons x xs ih =>
    by_cases hx : x.1 = k
    · simp [hx]
    · have hx' : (x.1 == k) = false := by simpa using hx
      simp only [List.any_cons, hx', Bool.false_or, List.find?_cons, List.map_cons] at ih ⊢
      by_cases hany : xs.any (fun e => e.1 == k) = true
      · simp only [hany, if_true] at ih ⊢
        simp only [hx', Bool.false_eq_true, if_false, List.find?_cons]
        exact ih
      · have hany' : xs.any (fun e => e.1 == k) = false := (Bool.not_eq_true _).mp hany
        simp only [hany', Bool.false_eq_true, if_false] at ih ⊢
        simp only [List.cons_append, List.find?_cons, hx']
        exact ih

/-- … and the entries of the other contigs are untouched -/
theorem gsiStep_gen_other (acc : List (String × Nat × Nat)) (k k' : String) (off : Nat) (h : k' ≠ k) :
    entryOf (gsiStep acc (k, off)) k' = entryOf acc k' := by
  unfold gsiStep entryOf
  by_cases hany : acc.any (fun e => e.1 == k) = true
  · simp only [hany, if_true]
    induction acc with
    | nil => simp
    | cons x xs ih =>
      by_cases hx : x.1 = k
      · have hk' : (k == k') = false := by simpa using (Ne.symm h)
        have hxk' : (x.1 == k') = false := by simpa [hx] using (Ne.symm h)
        simp only [List.map_cons, hx, beq_self_eq_true, if_true, List.find?_cons, hk', hxk']
        by_cases hany2 : xs.any (fun e => e.1 == k) = true
        · exact ih hany2
        · have : ∀ e ∈ xs, ¬ e.1 = k := by
            intro e he hek
            exact hany2 (List.any_eq_true.mpr ⟨e, he, by simp [hek]⟩)
          have hmap : xs.map (fun x => if (x.1 == k) = true then (x.1, x.2.1, off) else x) = xs := by
            conv => rhs; rw [← List.map_id xs]
            apply List.map_congr_left
            intro e he
            simp [this e he]
          rw [hmap]
      · have hx' : (x.1 == k) = false := by simpa using hx
        simp only [List.map_cons, hx', Bool.false_eq_true, if_false, List.find?_cons]
        have hany2 : xs.any (fun e => e.1 == k) = true := by simpa [hx'] using hany
        cases hxk : x.1 == k' with
        | true => rfl
        | false => exact ih hany2
  · have hany' : acc.any (fun e => e.1 == k) = false := (Bool.not_eq_true _).mp hany
    simp only [hany', Bool.false_eq_true, if_false]
    have hk' : (k == k') = false := by simpa using (Ne.symm h)
    simp [List.find?_append, hk']

/-- the key dropped from the index is the generated one; offsets are those read before each write -/
theorem gsiIndex_gen (sns : List String) (offs : Nat → Nat) :
    Gen.gsiTellBeforeWrite = true ∧
    gsiIndex sns offs = ((sns.zipIdx.map (fun (s, i) => (s, offs i))).foldl gsiStep []).filter (·.1 != Gen.gsiPopped) := by
  refine ⟨by first | rfl | decide, ?_⟩
  unfold gsiIndex Gen.gsiPopped
  rfl

end Gaftools.TieA
