import Gaftools.Model.Sort
import Gaftools.Gen.SortLoop
/-!
# Tie A for the path loop of `sort.process_alignment` (C08, C09)

`Gen/SortLoop.lean` is regenerated from `gaftools/cli/sort.py` on every run: for one node of the path, what happens to `sn`
(take the node's SN / assert equality / nothing, as a function of "is `sn` still unset" and the node's rank) and whether the
node's orientation is appended to `orient_list` (as a function of its BO and NO tags).  The theorem says that `Sort.loopStep` —
the step of the fold about which `process_eq_spec` (C09) is proved — is exactly these two decisions.
-/
namespace Gaftools.TieA
open Gaftools.Sort Gaftools.Gen

theorem loopStep_gen (nodes : String → Option NodeTags) (st : LoopSt) (s : Step) :
    loopStep nodes st s =
      match nodes s.2 with
      | none => .error .keyError
      | some t =>
        let snr : Except Err (Option String) :=
          match snDecision st.sn.isNone t.sr with
          | .set => .ok (some t.sn)
          | .check => if st.sn == some t.sn then .ok st.sn else .error .assertion
          | .keep => .ok st.sn
        match snr with
        | .error e => .error e
        | .ok sn' =>
          if keepsOrient t.bo t.no then .ok { sn := sn', orients := st.orients ++ [s.1] }
          else .ok { st with sn := sn' } := by
  unfold loopStep
  cases hn : nodes s.2 with
  | none => rfl
  | some t =>
    simp only
    have hsn : (if st.sn.isNone && t.sr == 0 then (Except.ok (some t.sn) : Except Err (Option String))
          else if t.sr == 0 then (if st.sn == some t.sn then .ok st.sn else .error .assertion) else .ok st.sn) =
        (match snDecision st.sn.isNone t.sr with
          | .set => .ok (some t.sn)
          | .check => if st.sn == some t.sn then .ok st.sn else .error .assertion
          | .keep => .ok st.sn) := by
      unfold snDecision
      cases st.sn.isNone <;> by_cases h0 : t.sr = 0 <;> simp [h0]
    rw [hsn]
    cases (match snDecision st.sn.isNone t.sr with
          | .set => (Except.ok (some t.sn) : Except Err (Option String))
          | .check => if st.sn == some t.sn then .ok st.sn else .error .assertion
          | .keep => .ok st.sn) with
    | error e => rfl
    | ok sn' =>
      simp only
      unfold keepsOrient
      by_cases hb : t.bo = -1 <;> by_cases hn1 : t.no = -1 <;> by_cases hn0 : t.no = 0 <;> simp [hb, hn1, hn0] <;> omega

end Gaftools.TieA
