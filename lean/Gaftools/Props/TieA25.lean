import Gaftools.Model.GraphExtra
import Gaftools.Gen.GraphHelpers
import Gaftools.Proofs.GraphExtraLemmas
import Gaftools.Props.TieA20
/-!
# Tie A for the helpers of `gaftools/gfa.py` modelled in `Model/GraphExtra.lean` (C15 extra)

`Gen/GraphHelpers.lean` is regenerated from `gaftools/gfa.py` on every run: every statement of `Node.neighbors`,
`Node.in_direction`, `Node.children`, `Node.is_equal_to`, `GFA.remove_lonely_nodes`, `GFA.graph_from_comp`, `GFA.list_is_path`,
`GFA.get_path`, `GFA.get_contig_length`, `GFA.return_gfa_path`, `GFA.is_equal_to` in source order, as terms of type `Except PyErr _`
(`.error` = the Python raises; loops are `forR` folds whose body says "next round" or "return v"; comprehensions whose element
can raise are `compE`; `l[i]` is `pyIdx` with Python's negative indices).

What is proved — EQUALITY of the translation with the hand-written model function, for every input, no hypothesis unless stated:
* `nodeNeighbors_gen`, `nodeInDirection_gen`, `nodeChildren_gen`, `nodeIsEqualTo_gen` — the four `Node` methods;
* `gfaListIsPath_gen` (the index loop `for i in range(1, len(l))` with its early `return False` = the structural recursion
  `listIsPath`), `gfaGetPath_gen`, `gfaGetContigLength_gen`, `gfaReturnGfaPath_gen` (index loop + the block on `l[-1]`, `l[-2]`
  = `returnGfaPath`, raising the same exception class at the same place), `gfaGraphFromComp_gen`, `gfaIsEqualTo_gen`;
* `gfaRemoveLonelyNodes_gen` — under `NodupIds x.g` (the ids of the node list are pairwise different).  Needed because the model's
  `Graph.nodes` is a *list* of nodes, which can repeat an id, while the Python `GFA.nodes` is a dict keyed by the id and cannot:
  on a list with a lonely id twice the second `remove_node` of the translation raises `KeyError` (`removeLonely_dup_differs`),
  the model's fold does not.  Every graph the library builds satisfies it (`nodupIds_readGraph`).
* `callRemoveNode_gen` — the one call that is not re-translated here, `self.remove_node(i)`, is the translation of `remove_node`
  in `Gen/GfaMutate.lean` (`TieA20`), exception class included.
* `newNode_gen`, `emptyGFA_gen` — the two constructors.

Typing the translator assumes (a call that does not fit is `Untranslatable`, i.e. tie B only): node ids, tag names/values and `chrom`
are `str`, `direction` is an `int`, `only_topo` / `throw_warning` are `bool`, `node_list` / `list_of_nodes` / `component_nodes` are
lists of ids; `GFA.__getitem__` / `__len__` / `GFA.__init__` / `Node.__init__` have the shape checked by `_gh_inits`.
Not modelled (as in `Model/GraphExtra.lean`): log lines; the entry a *read* of `contig_to_nodes[chrom]` creates for a missing key; that
`graph_from_comp` shares the adjacency sets and the tag dict with the original nodes (aliasing).

Primitives taken as given (defined in the prelude of the generated file): `sorted` on strings = `Gfa.sortStrings`, `sorted(key=…)` =
keys left to right, then `GraphExtra.sortByKey`; `int(str)` = `GraphExtra.pyInt`; set / dict `==` = mutual inclusion of the
duplicate-free lists.  Slots the model does not store: `seq_len` (read as `seq.length`; the assignment
`new_node.seq_len = self[n].seq_len` is evaluated and dropped).
-/
namespace Gaftools.TieA25
open Gaftools.Gfa Gaftools.View Gaftools.GraphExtra Gaftools.Proofs.GraphExtra Gaftools.Proofs.Gfa Gaftools.Proofs.Hist
open Gaftools.Gen
open Gaftools.Gen.GraphHelpers (Step forR compE pyIdx pyRange pyRangeFrom)

/-! ## the `Node` methods -/

/-- `Node.neighbors()` -/
theorem nodeNeighbors_gen (n : Node) : GraphHelpers.nodeNeighbors n = .ok n.neighbors := rfl

/-- `Node.in_direction(other, direction)` -/
theorem nodeInDirection_gen (n : Node) (o : String) (d : Int) : GraphHelpers.nodeInDirection n o d = n.inDirection o d := by
  unfold GraphHelpers.nodeInDirection
  by_cases h0 : d = 0
  · subst h0
    rw [inDirection_zero]
    cases (List.map (fun x => x.1) n.startAdj).contains o <;> rfl
  · by_cases h1 : d = 1
    · subst h1
      rw [inDirection_one]
      cases (List.map (fun x => x.1) n.endAdj).contains o <;> rfl
    · have : n.inDirection o d = .error .valueError := by
        simp [Node.inDirection, sideOf, h0, h1, bind, Except.bind]
      rw [this]
      simp [h0, h1]

/-- `Node.children(direction)` -/
theorem nodeChildren_gen (n : Node) (d : Int) : GraphHelpers.nodeChildren n d = n.children d := by
  unfold GraphHelpers.nodeChildren Node.children sideOf
  by_cases h0 : d = 0
  · subst h0; simp [Node.side, bind, Except.bind, pure, Except.pure]
  · by_cases h1 : d = 1
    · subst h1; simp [Node.side, bind, Except.bind, pure, Except.pure]
    · simp [h0, h1, bind, Except.bind]

theorem setEq_gen {α : Type} [BEq α] (a b : List α) : GraphHelpers.setEq a b = GraphExtra.setEq a b := rfl

theorem natCast_beq (m n : Nat) : (((m : Int) == (n : Int)) : Bool) = (m == n) := by
  rw [Bool.eq_iff_iff]; simp only [beq_iff_eq]; omega

theorem natCast_beq_zero (m : Nat) : (((m : Int) == (0 : Int)) : Bool) = (m == 0) := by
  rw [Bool.eq_iff_iff]; simp only [beq_iff_eq]; omega

/-- `if not p: return False` followed by something that returns `r` -/
theorem guard_chain (p r : Bool) : (if (!p) = true then (.ok false : Except PyErr Bool) else .ok r) = .ok (p && r) := by
  cases p <;> rfl

/-- `Node.is_equal_to(other, only_topo)`: the two loops `for a in [...]: if not getattr(self, a) == getattr(other, a): return False`,
    unrolled over their lists of attribute names, then `return True` -/
theorem nodeIsEqualTo_gen (a b : Node) (t : Bool) : GraphHelpers.nodeIsEqualTo a b t = .ok (a.isEqualTo b t) := by
  unfold GraphHelpers.nodeIsEqualTo Node.isEqualTo
  simp only [guard_chain]
  simp only [GraphHelpers.dictEq, setEq_gen, natCast_beq, Bool.and_true, Bool.and_assoc]
  cases t <;> rfl

/-! ## the loop and index primitives -/

theorem pyIdx_nat {α : Type} (l : List α) (i : Int) (k : Nat) (h : i = k) : pyIdx l i = l[k]? := by
  subst h
  unfold pyIdx
  simp

theorem pyIdx_append_at {α : Type} (pre : List α) (p : α) (rest : List α) (i : Int) (h : i = pre.length) :
    pyIdx (pre ++ p :: rest) i = some p := by
  rw [pyIdx_nat _ i pre.length h]
  simp

theorem pyIdx_append_succ {α : Type} (pre : List α) (p c : α) (rest : List α) (i : Int) (h : i = pre.length + 1) :
    pyIdx (pre ++ p :: c :: rest) i = some c := by
  rw [pyIdx_nat _ i (pre.length + 1) (by omega)]
  simp

theorem forR_cons {α σ ρ : Type} (x : α) (r : List α) (s : σ) (body : σ → α → Except PyErr (Step σ ρ)) :
    forR (x :: r) s body = match body s x with
      | .error e => .error e
      | .ok (.ret v) => .ok (.ret v)
      | .ok (.next s') => forR r s' body := rfl

theorem pyRangeFrom_succ (a : Int) (n : Nat) : pyRangeFrom a (n + 1) = a :: pyRangeFrom (a + 1) n := rfl

/-! ## `list_is_path` -/

/-- the index loop from position `pre.length + 1` on = the recursion on the rest of the list -/
theorem listIsPath_loop (x : GFA) (rest : List String) : ∀ (pre : List String) (p : String) (a : Int), a = pre.length + 1 →
    forR (pyRangeFrom a rest.length) () (GraphHelpers.gfaListIsPathLoop1 x (pre ++ p :: rest)) =
      match listIsPath x.g (p :: rest) with
      | .error e => .error e
      | .ok true => .ok (.next ())
      | .ok false => .ok (.ret false) := by
  induction rest with
  | nil => intro pre p a ha; rfl
  | cons c rest ih =>
    intro pre p a ha
    rw [List.length_cons, pyRangeFrom_succ, forR, GraphHelpers.gfaListIsPathLoop1]
    rw [pyIdx_append_succ pre p c rest a ha, pyIdx_append_at pre p (c :: rest) (a - 1) (by omega)]
    simp only [listIsPath]
    cases hf : x.g.find p with
    | none => rfl
    | some n =>
      simp only [nodeNeighbors_gen]
      cases hc : n.neighbors.contains c with
      | false => simp
      | true =>
        simp only [if_true]
        have := ih (pre ++ [p]) c (a + 1) (by simp; omega)
        simp only [List.append_assoc, List.singleton_append] at this
        exact this

theorem pyRange_one_len (p : String) (rest : List String) : pyRange 1 ((p :: rest).length : Int) = pyRangeFrom 1 rest.length := by
  unfold pyRange
  congr 1
  simp only [List.length_cons]
  omega

/-- `GFA.list_is_path(node_list)` -/
theorem gfaListIsPath_gen (x : GFA) (l : List String) : GraphHelpers.gfaListIsPath x l = listIsPath x.g l := by
  unfold GraphHelpers.gfaListIsPath
  cases l with
  | nil => rfl
  | cons p rest =>
    rw [pyRange_one_len, ← List.nil_append (p :: rest), listIsPath_loop x rest [] p 1 (by simp)]
    simp only [List.nil_append]
    cases h : listIsPath x.g (p :: rest) with
    | error e => rfl
    | ok b => cases b <;> rfl

/-! ## `return_gfa_path` -/

/-- one `if … in_direction(other, dPlus): append(cur + "+") elif … in_direction(other, dMinus): append(cur + "-") else: raise` block,
    as the translation evaluates it, is `orient` -/
theorem orient_block {β : Type} (g : Graph) (cur other : String) (dp dm : Int) (k : String → Except PyErr β) :
    (match g.find cur with
      | none => (.error .keyError : Except PyErr β)
      | some v2 =>
        match GraphHelpers.nodeInDirection v2 other dp with
        | .error err => .error err
        | .ok v4 =>
          if v4 then k (cur ++ "+")
          else
            match g.find cur with
            | none => .error .keyError
            | some v7 =>
              match GraphHelpers.nodeInDirection v7 other dm with
              | .error err => .error err
              | .ok v9 => if v9 then k (cur ++ "-") else .error .valueError) =
      match orient g cur other dp dm with
      | .error e => .error e
      | .ok e => k (renderEntry e) := by
  unfold orient
  cases hf : g.find cur with
  | none => rfl
  | some n =>
    simp only [nodeInDirection_gen]
    cases h1 : n.inDirection other dp with
    | error e => simp [bind, Except.bind]
    | ok b1 =>
      cases b1 with
      | true => simp [bind, Except.bind, pure, Except.pure, renderEntry]
      | false =>
        cases h2 : n.inDirection other dm with
        | error e => simp [bind, Except.bind]
        | ok b2 => cases b2 <;> simp [bind, Except.bind, pure, Except.pure, renderEntry]

theorem gfaPath_step (x : GFA) (pre : List String) (a b : String) (rest : List String) (i : Int) (acc : List String) (hi : i = pre.length) :
    GraphHelpers.gfaReturnGfaPathLoop1 x (pre ++ a :: b :: rest) acc i =
      match orient x.g a b 1 0 with
      | .error e => .error e
      | .ok e => .ok (.next (acc ++ [renderEntry e])) := by
  rw [GraphHelpers.gfaReturnGfaPathLoop1]
  simp only [pyIdx_append_at pre a (b :: rest) i hi, pyIdx_append_succ pre a b rest (i + 1) (by omega)]
  exact orient_block x.g a b 1 0 (fun s => (.ok (.next (acc ++ [s])) : Except PyErr (Step (List String) String)))

theorem gfaPath_loop (x : GFA) (rest : List String) : ∀ (pre : List String) (a : String) (i : Int) (acc : List String), i = pre.length →
    forR (pyRangeFrom i rest.length) acc (GraphHelpers.gfaReturnGfaPathLoop1 x (pre ++ a :: rest)) =
      match gfaPathBody x.g (a :: rest) with
      | .error e => .error e
      | .ok body => .ok (.next (acc ++ body.map renderEntry)) := by
  induction rest with
  | nil => intro pre a i acc hi; simp [pyRangeFrom, forR, gfaPathBody]
  | cons b rest ih =>
    intro pre a i acc hi
    rw [List.length_cons, pyRangeFrom_succ, forR_cons, gfaPath_step x pre a b rest i acc hi]
    simp only [gfaPathBody]
    cases ho : orient x.g a b 1 0 with
    | error e => simp [bind, Except.bind]
    | ok e =>
      simp only []
      have := ih (pre ++ [a]) b (i + 1) (acc ++ [renderEntry e]) (by simp; omega)
      simp only [List.append_assoc, List.singleton_append] at this
      rw [this]
      cases hr : gfaPathBody x.g (b :: rest) with
      | error e' => simp [bind, Except.bind]
      | ok r => simp [bind, Except.bind, pure, Except.pure]

theorem pyIdx_neg {α : Type} (l : List α) (i : Int) (k : Nat) (h : i = -((k : Int) + 1)) : pyIdx l i = l.reverse[k]? := by
  subst h
  unfold pyIdx
  have h1 : ¬ (-((k : Int) + 1) ≥ 0) := by omega
  simp only [h1, if_false]
  by_cases hk : k < l.length
  · have h2 : -((k : Int) + 1) + (l.length : Int) ≥ 0 := by omega
    simp only [h2, if_true]
    rw [List.getElem?_reverse hk]
    congr 1
    omega
  · have h2 : ¬ (-((k : Int) + 1) + (l.length : Int) ≥ 0) := by omega
    simp only [h2, if_false]
    rw [List.getElem?_eq_none (by simp; omega)]

theorem returnGfaPath_unfold (g : Graph) (l : List String) :
    returnGfaPath g l =
      match gfaPathBody g l with
      | .error e => .error e
      | .ok body =>
        match gfaPathLast g l with
        | .error e => .error e
        | .ok e => .ok (",".intercalate (body.map renderEntry ++ [renderEntry e])) := by
  unfold returnGfaPath returnGfaPathO
  cases gfaPathBody g l with
  | error e => rfl
  | ok body =>
    cases gfaPathLast g l with
    | error e => rfl
    | ok e => simp [bind, Except.bind, pure, Except.pure]

theorem pyRange_zero_len (a : String) (rest : List String) :
    pyRange 0 (((a :: rest).length : Int) - 1) = pyRangeFrom 0 rest.length := by
  unfold pyRange
  congr 1
  simp only [List.length_cons]
  omega

/-- `GFA.return_gfa_path(list_of_nodes)` -/
theorem gfaReturnGfaPath_gen (x : GFA) (l : List String) : GraphHelpers.gfaReturnGfaPath x l = returnGfaPath x.g l := by
  rw [returnGfaPath_unfold]
  unfold GraphHelpers.gfaReturnGfaPath
  dsimp only
  cases l with
  | nil => rfl
  | cons a rest =>
    rw [pyRange_zero_len, ← List.nil_append (a :: rest), gfaPath_loop x rest [] a 0 [] (by simp)]
    simp only [List.nil_append]
    cases hb : gfaPathBody x.g (a :: rest) with
    | error e => rfl
    | ok body =>
      simp only []
      rcases hr : (a :: rest).reverse with _ | ⟨last, _ | ⟨prev, t⟩⟩
      · simp at hr
      · simp only [pyIdx_neg (a :: rest) (-1) 0 (by omega), pyIdx_neg (a :: rest) (-2) 1 (by omega), hr, gfaPathLast, List.getElem?_cons_zero, List.getElem?_cons_succ,
          List.getElem?_nil]
        cases hf : x.g.find last <;> rfl
      · simp only [pyIdx_neg (a :: rest) (-1) 0 (by omega), pyIdx_neg (a :: rest) (-2) 1 (by omega), hr, gfaPathLast, List.getElem?_cons_zero, List.getElem?_cons_succ]
        exact orient_block x.g last prev 0 1 (fun s => (.ok (",".intercalate (body.map renderEntry ++ [s])) : Except PyErr String))

/-! ## `get_path`, `get_contig_length` -/

/-- a comprehension without filter is `mapM` -/
theorem compE_some {α β : Type} (F : α → Except PyErr (Option β)) (f : α → Except PyErr β) (h : ∀ x, F x = Except.map some (f x))
    (l : List α) : compE F l = l.mapM f := by
  induction l with
  | nil => rfl
  | cons x r ih =>
    rw [List.mapM_cons, compE, ih, h]
    cases f x with
    | error e => rfl
    | ok y =>
      cases List.mapM f r with
      | error e => rfl
      | ok ys => rfl

/-- `int(self.nodes[x].tags[name][1])` as translated (`k`: what is done with the number) = `tagIntOf` -/
theorem tagInt_k {β : Type} (g : Graph) (name : String) (x : String) (k : Int → Except PyErr β) :
    (match g.find x with
      | none => (.error .keyError : Except PyErr β)
      | some v1 =>
        match GraphHelpers.tagsGet v1.tags name with
        | none => .error .keyError
        | some v2 =>
          match GraphHelpers.pyInt v2.val with
          | none => .error .valueError
          | some v3 => k v3) =
      match tagIntOf g name x with
      | .error e => .error e
      | .ok v => k v := by
  unfold tagIntOf tagVal GraphHelpers.tagsGet GraphHelpers.pyInt
  cases g.find x with
  | none => rfl
  | some n =>
    dsimp only
    cases List.find? (fun t => t.name == name) n.tags with
    | none => rfl
    | some t =>
      dsimp only [Option.map]
      cases GraphExtra.pyInt t.val <;> rfl

theorem tagInt_gen (g : Graph) (name : String) (x : String) :
    (match g.find x with
      | none => (.error .keyError : Except PyErr Int)
      | some v1 =>
        match GraphHelpers.tagsGet v1.tags name with
        | none => .error .keyError
        | some v2 =>
          match GraphHelpers.pyInt v2.val with
          | none => .error .valueError
          | some v3 => .ok v3) = tagIntOf g name x :=
  (tagInt_k g name x (fun v => .ok v)).trans (by cases tagIntOf g name x <;> rfl)

theorem pySortedBy_gen (g : Graph) (key : String → Except PyErr Int) (hkey : ∀ y, key y = tagIntOf g "SO" y) (ids : List String) :
    GraphHelpers.pySortedBy key ids =
      match keyed g ids with
      | .error e => .error e
      | .ok ks => .ok ((sortByKey ks).map (·.1)) := by
  unfold GraphHelpers.pySortedBy keyed
  rw [compE_some _ (fun id => do let k ← tagIntOf g "SO" id; pure (id, k))
    (fun y => by rw [hkey]; cases tagIntOf g "SO" y <;> rfl)]
  cases List.mapM (fun id => do let k ← tagIntOf g "SO" id; pure (id, k)) ids <;> rfl

/-- `GFA.get_path(chrom, throw_warning)` -/
theorem gfaGetPath_gen (x : GFA) (c : String) (tw : Bool) : GraphHelpers.gfaGetPath x c tw = x.getPath c tw := by
  unfold GraphHelpers.gfaGetPath GFA.getPath
  dsimp only
  have hc : GraphHelpers.c2nGet x.contigToNodes c = x.contigIds c := rfl
  rw [hc]
  cases hids : x.contigIds c with
  | nil => rfl
  | cons i r =>
    rw [pySortedBy_gen x.g]
    case hkey => exact fun y => tagInt_gen x.g "SO" y
    simp only [List.cons_ne_nil, beq_iff_eq, if_false, List.isEmpty_cons, Bool.false_eq_true]
    cases keyed x.g (i :: r) with
    | error e => rfl
    | ok ks =>
      simp only [gfaListIsPath_gen, bind, Except.bind]
      cases listIsPath x.g (List.map (fun x => x.fst) (sortByKey ks)) with
      | error e => rfl
      | ok b => cases b <;> cases tw <;> rfl

theorem pySum_eq (l : List Int) : GraphHelpers.pySum l = l.sum := by
  unfold GraphHelpers.pySum
  have : ∀ (a : Int), l.foldl (· + ·) a = a + l.sum := by
    induction l with
    | nil => intro a; simp
    | cons x r ih => intro a; simp only [List.foldl_cons, List.sum_cons, ih]; omega
  rw [this]; omega

/-- `GFA.get_contig_length(chrom, throw_warning)` -/
theorem gfaGetContigLength_gen (x : GFA) (c : String) (tw : Bool) :
    GraphHelpers.gfaGetContigLength x c tw = x.getContigLength c tw := by
  unfold GraphHelpers.gfaGetContigLength GFA.getContigLength
  rw [gfaGetPath_gen]
  cases x.getPath c tw with
  | error e => rfl
  | ok p =>
    dsimp only [bind, Except.bind]
    cases hp : p.isEmpty with
    | true => rfl
    | false =>
      simp only [Bool.false_eq_true, if_false]
      rw [compE_some _ (tagIntOf x.g "LN")]
      case h =>
        intro y
        exact (tagInt_k x.g "LN" y (fun v => .ok (some v))).trans (by cases tagIntOf x.g "LN" y <;> rfl)
      cases List.mapM (tagIntOf x.g "LN") p with
      | error e => rfl
      | ok ls => simp [pySum_eq, pure, Except.pure]

/-! ## `graph_from_comp` -/

theorem graphFromComp_step (x : GFA) (acc : List Node) (id : String) :
    GraphHelpers.gfaGraphFromCompLoop1 x ⟨⟨acc, []⟩, []⟩ id =
      match copyNode x.g id with
      | .error e => .error e
      | .ok n => .ok (.next ⟨⟨nodeSet acc n, []⟩, []⟩) := by
  unfold GraphHelpers.gfaGraphFromCompLoop1 copyNode
  cases x.g.find id with
  | none => rfl
  | some n => rfl

theorem graphFromComp_loop (x : GFA) (comp : List String) : ∀ acc : List Node,
    forR comp (⟨⟨acc, []⟩, []⟩ : GFA) (GraphHelpers.gfaGraphFromCompLoop1 x) =
      match comp.foldlM (fun acc id => do let n ← copyNode x.g id; pure (nodeSet acc n)) acc with
      | .error e => .error e
      | .ok ns => .ok (.next ⟨⟨ns, []⟩, []⟩) := by
  induction comp with
  | nil => intro acc; rfl
  | cons id r ih =>
    intro acc
    rw [forR_cons, graphFromComp_step, List.foldlM_cons]
    cases copyNode x.g id with
    | error e => rfl
    | ok n => exact ih (nodeSet acc n)

/-- `GFA.graph_from_comp(component_nodes)` -/
theorem gfaGraphFromComp_gen (x : GFA) (comp : List String) : GraphHelpers.gfaGraphFromComp x comp = x.graphFromComp comp := by
  unfold GraphHelpers.gfaGraphFromComp GFA.graphFromComp
  dsimp only
  have h := graphFromComp_loop x comp []
  rw [show GraphHelpers.emptyGFA = (⟨⟨[], []⟩, []⟩ : GFA) from rfl, h]
  cases comp.foldlM (fun acc id => do let n ← copyNode x.g id; pure (nodeSet acc n)) [] <;> rfl

/-! ## `GFA.is_equal_to` -/

theorem gfaIsEqualTo_loop (y : GFA) (t : Bool) (ns : List Node) :
    forR ns () (GraphHelpers.gfaIsEqualToLoop1 y t) =
      .ok (if ns.all (fun n1 => match y.g.find n1.id with | none => false | some n2 => n1.isEqualTo n2 t) then .next () else .ret false) := by
  induction ns with
  | nil => rfl
  | cons n r ih =>
    rw [forR_cons, GraphHelpers.gfaIsEqualToLoop1]
    cases hf : y.g.find n.id with
    | none => simp [hf]
    | some n2 =>
      simp only [nodeIsEqualTo_gen, List.all_cons, hf]
      cases n.isEqualTo n2 t with
      | false => simp
      | true => simp [ih]

/-- `GFA.is_equal_to(other, only_topo)` -/
theorem gfaIsEqualTo_gen (x y : GFA) (t : Bool) : GraphHelpers.gfaIsEqualTo x y t = .ok (x.isEqualTo y t) := by
  unfold GraphHelpers.gfaIsEqualTo GFA.isEqualTo
  rw [gfaIsEqualTo_loop, natCast_beq]
  cases hl : (x.g.nodes.length == y.g.nodes.length) with
  | false => simp [bne, hl]
  | true =>
    simp only [bne, hl, Bool.not_true, Bool.false_eq_true, if_false]
    cases (x.g.nodes.all fun n1 => match y.g.find n1.id with | none => false | some n2 => n1.isEqualTo n2 t) <;> rfl

/-! ## `remove_lonely_nodes` -/

/-- a comprehension whose filter and element cannot raise is `filter` then `map` -/
theorem compE_filter_map {α β : Type} (F : α → Except PyErr (Option β)) (p : α → Bool) (f : α → β)
    (h : ∀ x, F x = .ok (if p x then some (f x) else none)) (l : List α) : compE F l = .ok ((l.filter p).map f) := by
  induction l with
  | nil => rfl
  | cons x r ih =>
    rw [compE, ih, h]
    cases hp : p x <;> simp [hp]

theorem has_removeNode (g : Graph) (i j : String) (hne : j ≠ i) (h : g.has j = true) : (removeNode g i).has j = true := by
  rw [has_iff_mem] at h ⊢
  rw [ids_removeNode, List.mem_filter]
  exact ⟨h, by simpa using hne⟩

theorem removeLonely_loop (ids : List String) : ∀ (x : GFA), ids.Nodup → (∀ id ∈ ids, x.g.has id = true) →
    forR ids x GraphHelpers.gfaRemoveLonelyNodesLoop1 =
      (.ok (.next { x with g := ids.foldl removeNode x.g }) : Except PyErr (Step GFA GFA)) := by
  induction ids with
  | nil => intro x _ _; rfl
  | cons i r ih =>
    intro x hnd hin
    have hi : x.g.has i = true := hin i (by simp)
    rw [forR_cons]
    simp only [GraphHelpers.gfaRemoveLonelyNodesLoop1, GraphHelpers.callRemoveNode, hi, if_true]
    rw [List.nodup_cons] at hnd
    rw [ih { x with g := removeNode x.g i } hnd.2]
    · rfl
    · intro j hj
      exact has_removeNode x.g i j (fun he => hnd.1 (he ▸ hj)) (hin j (List.mem_cons_of_mem _ hj))

/-- `GFA.remove_lonely_nodes()`; `NodupIds`: the node list has no id twice (what the dict `GFA.nodes` guarantees) -/
theorem gfaRemoveLonelyNodes_gen (x : GFA) (h : NodupIds x.g) : GraphHelpers.gfaRemoveLonelyNodes x = .ok x.removeLonely := by
  unfold GraphHelpers.gfaRemoveLonelyNodes
  rw [compE_filter_map _ (fun n => n.neighbors.length == 0) (·.id)]
  case h => intro n; simp only [nodeNeighbors_gen, natCast_beq_zero]; cases (n.neighbors.length == 0) <;> rfl
  dsimp only
  have hl : (List.map (fun n => n.id) (List.filter (fun n => n.neighbors.length == 0) x.g.nodes)) = lonelyIds x.g := rfl
  rw [hl, removeLonely_loop]
  · rfl
  · exact List.Nodup.sublist (List.Sublist.map _ List.filter_sublist) h
  · intro id hid
    rw [has_iff_mem]
    exact (List.Sublist.map _ List.filter_sublist).subset hid

/-- without `NodupIds` the two differ: on a node list with a lonely id twice (no Python dict is like that) the second
    `remove_node` of the translation raises `KeyError`, the model's fold goes through -/
theorem removeLonely_dup_differs :
    let x : GFA := ⟨⟨[⟨"a", "", [], [], []⟩, ⟨"a", "", [], [], []⟩], []⟩, []⟩
    GraphHelpers.gfaRemoveLonelyNodes x = .error .keyError ∧ x.removeLonely = ⟨⟨[], []⟩, []⟩ := by
  decide

/-- the call `self.remove_node(k)` is the translation of `remove_node` in `Gen/GfaMutate.lean` (whose object also has `contigs`),
    `KeyError` included -/
theorem callRemoveNode_gen (x : GFA) (c : List (String × Int)) (k : String) :
    GfaMutate.removeNode ⟨x.g, c, x.contigToNodes⟩ k =
      match GraphHelpers.callRemoveNode x k with
      | .error _ => .error .keyError
      | .ok x' => .ok ⟨x'.g, c, x'.contigToNodes⟩ := by
  unfold GraphHelpers.callRemoveNode
  cases hh : x.g.has k with
  | true => rw [TieA20.removeNode_gen _ _ hh]; rfl
  | false => rw [TieA20.removeNode_missing _ _ hh]; rfl

theorem callRemoveNode_error (x : GFA) (k : String) (e : PyErr) (h : GraphHelpers.callRemoveNode x k = .error e) : e = .keyError := by
  unfold GraphHelpers.callRemoveNode at h
  cases hh : x.g.has k <;> simp [hh] at h
  exact h.symm

/-! ## the constructors -/

theorem newNode_gen (id : String) : GraphHelpers.newNode id = ⟨id, "", [], [], []⟩ ∧ GraphHelpers.newNode id = GfaMutate.newNode id := ⟨rfl, rfl⟩
theorem emptyGFA_gen : GraphHelpers.emptyGFA = ⟨Graph.empty, []⟩ := rfl

end Gaftools.TieA25
