import Gaftools.Spec.Sort
import Gaftools.Proofs.SortLemmas
/-!
# C10 — sort writes a usable per-chromosome index next to the sorted GAF

`gsiIndex sns offs` models the bookkeeping of the second pass: `sns` = the `sn` of the output records in output
order, `offs i` = `writer.tell()` before the i-th output line (plain byte offsets or BGZF virtual offsets — any
strictly increasing function).
-/
namespace Gaftools.C10
open Gaftools.Sort Gaftools.Spec.Sort
open Gaftools.Proofs.Sort

/-- completing: the index is produced whether or not some record is 'unknown' (the model is total; the Python
    `pop("unknown", None)` cannot raise) and "unknown" is never a key -/
theorem gsi_no_unknown (sns : List String) (offs : Nat → Nat) : ∀ e ∈ gsiIndex sns offs, e.1 ≠ "unknown" := by
  intro e he
  rw [gsiIndex_eq, List.mem_filter] at he
  simpa using he.2

/-- exactness: the entry of a contig holds the offsets of the first and of the last output record tagged with it -/
theorem gsi_exact (sns : List String) (offs : Nat → Nat) (c : String) (f l : Nat) :
    (c, f, l) ∈ gsiIndex sns offs ↔
      c ≠ "unknown" ∧ ∃ i j, i < sns.length ∧ j < sns.length ∧ sns[i]? = some c ∧ sns[j]? = some c ∧
        (∀ k, sns[k]? = some c → i ≤ k ∧ k ≤ j) ∧ f = offs i ∧ l = offs j := by
  rw [gsiIndex_eq, List.mem_filter, mem_gsiRaw]
  simp only [FL, bne_iff_ne, ne_eq, and_assoc]
  exact and_comm

/-- one entry per contig -/
theorem gsi_keys_nodup (sns : List String) (offs : Nat → Nat) : ((gsiIndex sns offs).map (·.1)).Nodup := by
  rw [keys_gsiIndex]
  exact (nodup_eraseDups sns).filter _

/-- every record of the contig lies between the two offsets (for strictly increasing offsets) -/
theorem gsi_between (sns : List String) (offs : Nat → Nat) (hm : ∀ i j, i < j → offs i < offs j)
    (c : String) (f l : Nat) (h : (c, f, l) ∈ gsiIndex sns offs) :
    ∀ k, sns[k]? = some c → f ≤ offs k ∧ offs k ≤ l := by
  obtain ⟨-, i, j, -, -, -, -, hk, rfl, rfl⟩ := (gsi_exact sns offs c f l).1 h
  have hmono : ∀ i j, i ≤ j → offs i ≤ offs j := by
    intro i j hij
    rcases Nat.lt_or_eq_of_le hij with h | h
    · exact Nat.le_of_lt (hm i j h)
    · subst h; exact Nat.le_refl _
  intro k hkc
  exact ⟨hmono _ _ (hk k hkc).1, hmono _ _ (hk k hkc).2⟩

/-- the executable spec evaluated by the driver on the implementation's index holds of the model's index -/
theorem specGsi_model (sns : List String) : specGsi sns (gsiIndex sns id) = true := by
  exact specGsi_gsiIndex sns

example : gsiIndex ["chr1", "unknown", "chr2", "chr1", "chr2", "unknown"] (fun i => 100 * i)
    = [("chr1", 0, 300), ("chr2", 200, 400)] := by decide

end Gaftools.C10
