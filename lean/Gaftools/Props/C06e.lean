import Gaftools.Props.C06d
/-!
# C06 (continued) — the model of `decompose_and_order` end to end

`decompose_ok_chain`: whatever `decompose` accepts for a component of more than one node is a chain of the scaffold graph
built from what `biccs` reported, numbered from one end to the other in the direction of strictly increasing reference
offsets (C06's ordering clauses), under explicit hypotheses about what `biccs` reported.  Those hypotheses are what is left of
`ChainCorrect`: for the definition-level decomposition they hold; for `biccs` they are `BiccExact` (C15).
-/
namespace Gaftools.C06
open Gaftools.Gfa Gaftools.Algo Gaftools.Order Gaftools.Spec.Order

/-- the two stages of `decompose_and_order` for a component of more than one node -/
theorem decompose_ok_stages (nb : V → List V) (comp : List V) (so : V → Option Int) (sn : V → Option String) (l : Local)
    (hlen : comp.length ≠ 1) (h : decompose nb comp so sn = .ok l) :
    ∃ s, buildScaffold (biccsFrom nb ((sortStrings comp).headD "") (biccFuel nb comp)).1
            (sortStrings (biccsFrom nb ((sortStrings comp).headD "") (biccFuel nb comp)).2) = .ok s ∧
         finishScaffold s (biccsFrom nb ((sortStrings comp).headD "") (biccFuel nb comp)).2 so sn = .ok l := by
  unfold decompose at h
  split at h
  · simp at hlen
  · simp only at h
    split at h
    · cases h
    · exact ⟨_, by assumption, h⟩

theorem insertSorted_perm (x : String) (l : List String) : (insertSorted x l).Perm (x :: l) := by
  induction l with
  | nil => exact List.Perm.refl _
  | cons y ys ih =>
    simp only [insertSorted]
    split
    · exact List.Perm.refl _
    · exact ((List.Perm.cons y ih).trans (List.Perm.swap x y ys))

theorem sortStrings_perm (l : List String) : (sortStrings l).Perm l := by
  induction l with
  | nil => exact List.Perm.refl _
  | cons x xs ih =>
    have : sortStrings (x :: xs) = insertSorted x (sortStrings xs) := rfl
    rw [this]
    exact (insertSorted_perm x _).trans (List.Perm.cons x ih)

/-- C06 at the level of the model of `decompose_and_order`, for a component of more than one node: whatever it accepts is a
    chain of the scaffold graph built from the blocks and articulation points that `biccs` reported, numbered end to end in
    the direction of strictly increasing reference offsets, all scaffold nodes on one reference sequence.
    Hypotheses about what `biccs` reported: duplicate-free, ids without tab, and the block–cut graph is connected
    (true for the definition-level decomposition of a connected component; for `biccs` itself that is `BiccExact`, C15). -/
theorem decompose_ok_chain (nb : V → List V) (comp : List V) (so : V → Option Int) (sn : V → Option String) (l : Local)
    (hlen : comp.length ≠ 1) (h : decompose nb comp so sn = .ok l)
    (haps : (biccsFrom nb ((sortStrings comp).headD "") (biccFuel nb comp)).2.Nodup)
    (hbl : ∀ b ∈ (biccsFrom nb ((sortStrings comp).headD "") (biccFuel nb comp)).1, b.Nodup)
    (htab : ∀ a ∈ (biccsFrom nb ((sortStrings comp).headD "") (biccFuel nb comp)).2, '\t' ∉ a.toList)
    (hconn : ∀ s, buildScaffold (biccsFrom nb ((sortStrings comp).headD "") (biccFuel nb comp)).1
            (sortStrings (biccsFrom nb ((sortStrings comp).headD "") (biccFuel nb comp)).2) = .ok s → SConnected s) :
    ∃ s tr cs,
      buildScaffold (biccsFrom nb ((sortStrings comp).headD "") (biccFuel nb comp)).1
            (sortStrings (biccsFrom nb ((sortStrings comp).headD "") (biccFuel nb comp)).2) = .ok s ∧
      PathScaffold s tr ∧
      l = ⟨(biccsFrom nb ((sortStrings comp).headD "") (biccFuel nb comp)).2, s.bubbles.flatten, numberChain s tr, tr.length, s.bubbles.length⟩ ∧
      (scaffoldIds tr).mapM so = some cs ∧ strictlyIncreasing cs ∧
      (((scaffoldIds tr).map sn).eraseDups).length = 1 := by
  obtain ⟨s, hb, hf⟩ := decompose_ok_stages nb comp so sn l hlen h
  have hw : WFScaffold s := buildScaffold_wf _ _ s hb
    ((sortStrings_perm _).nodup_iff.mpr haps) hbl
    (fun a ha => htab a ((sortStrings_perm _).mem_iff.mp ha))
  obtain ⟨tr, cs, hp, hl, hso, hinc, hsn⟩ := finish_ok_general s _ so sn hw (hconn s hb) l hf
  exact ⟨s, tr, cs, hb, hp, hl, hso, hinc, hsn⟩
end Gaftools.C06
