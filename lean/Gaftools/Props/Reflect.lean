import Gaftools.Drv.Conv
import Gaftools.Spec.Glue
import Gaftools.Props.C01b
/-!
# Reflection — the driver's executable validity test decides the hypotheses the C01–C05 theorems carry

The correspondence classifies every generated input as inside or outside the quantifier ("valid rGFA") with the Boolean
`Drv.Conv.validRGFAB`; the theorems assume the propositions `Spec.Conv.ValidRGFA` and `Spec.Glue.TaggedRGFA`.  These theorems
show the two agree, so "the theorem applies to this case" is itself checked rather than trusted.
-/
namespace Gaftools.Reflect
open Gaftools.Gfa Gaftools.Spec.Conv Gaftools.Spec.Glue Gaftools.Drv.Conv Gaftools.View

/-- the driver reads the segments exactly as the specification does -/
theorem segsOf_eq (t : GfaFile) : segsOf t = rsegsOf t := by
  unfold segsOf rsegsOf
  congr 1

/-! ## generic list lemmas -/

theorem eraseDups_sublist {α} [BEq α] : ∀ (l : List α), l.eraseDups.Sublist l
  | [] => by simp
  | a :: as => by
    rw [List.eraseDups_cons]
    have : (as.filter fun b => !b == a).length < as.length + 1 :=
      Nat.lt_succ_of_le (List.length_filter_le _ _)
    exact ((eraseDups_sublist _).trans List.filter_sublist).cons_cons a
termination_by l => l.length

theorem nodup_eraseDups {α} [BEq α] [LawfulBEq α] : ∀ (l : List α), l.eraseDups.Nodup
  | [] => by simp
  | a :: as => by
    rw [List.eraseDups_cons, List.nodup_cons]
    have : (as.filter fun b => !b == a).length < as.length + 1 :=
      Nat.lt_succ_of_le (List.length_filter_le _ _)
    refine ⟨?_, nodup_eraseDups _⟩
    simp [List.mem_eraseDups]
termination_by l => l.length

theorem nodup_of_eraseDups_length {α} [BEq α] [LawfulBEq α] (l : List α)
    (h : l.eraseDups.length = l.length) : l.Nodup := by
  have := (eraseDups_sublist l).eq_of_length h
  rw [← this]; exact nodup_eraseDups l

theorem eraseDups_of_nodup {α} [BEq α] [LawfulBEq α] : ∀ (l : List α), l.Nodup → l.eraseDups = l := by
  intro l
  induction l with
  | nil => intro _; rfl
  | cons a as ih =>
    intro h
    rw [List.nodup_cons] at h
    rw [List.eraseDups_cons]
    have hf : as.filter (fun b => !b == a) = as := by
      rw [List.filter_eq_self]
      intro b hb
      have : b ≠ a := fun e => h.1 (e ▸ hb)
      simp [this]
    rw [hf, ih h.2]

theorem isSome_of_length_filterMap {α β} (f : α → Option β) : ∀ (l : List α),
    (l.filterMap f).length = l.length → ∀ x ∈ l, (f x).isSome := by
  intro l
  induction l with
  | nil => intro _ x hx; cases hx
  | cons a as ih =>
    intro h x hx
    cases hfa : f a with
    | none =>
      rw [List.filterMap_cons_none hfa] at h
      have := List.length_filterMap_le f as
      simp only [List.length_cons] at h
      omega
    | some b =>
      rw [List.filterMap_cons_some hfa] at h
      simp only [List.length_cons, Nat.add_right_cancel_iff] at h
      rcases List.mem_cons.1 hx with rfl | hx
      · simp [hfa]
      · exact ih h x hx

theorem length_filterMap_of_isSome {α β} (f : α → Option β) : ∀ (l : List α),
    (∀ x ∈ l, (f x).isSome) → (l.filterMap f).length = l.length := by
  intro l
  induction l with
  | nil => intro _; rfl
  | cons a as ih =>
    intro h
    obtain ⟨b, hb⟩ := Option.isSome_iff_exists.1 (h a (by simp))
    rw [List.filterMap_cons_some hb, List.length_cons, List.length_cons,
      ih (fun x hx => h x (by simp [hx]))]

theorem rsegOf_id {s : SegLine} {r : RSeg} (h : rsegOf s = some r) : r.id = s.id := by
  unfold rsegOf at h
  cases h1 : tagVal s.tags "SN" with
  | none => simp [h1] at h
  | some sn =>
    cases h2 : tagInt s.tags "SO" with
    | none => simp [h1, h2] at h
    | some so =>
      cases h3 : tagInt s.tags "SR" with
      | none => simp [h1, h2, h3] at h
      | some sr =>
        simp [h1, h2, h3] at h
        rw [← h]

theorem filterMap_rsegOf_ids : ∀ (l : List SegLine), (∀ s ∈ l, (rsegOf s).isSome) →
    (l.filterMap rsegOf).map (·.id) = l.map (·.id) := by
  intro l
  induction l with
  | nil => intro _; rfl
  | cons s ss ih =>
    intro h
    obtain ⟨r, hr⟩ := Option.isSome_iff_exists.1 (h s (by simp))
    rw [List.filterMap_cons_some hr, List.map_cons, List.map_cons, rsegOf_id hr,
      ih (fun x hx => h x (by simp [hx]))]

/-! ## the Boolean test, clause by clause -/

theorem validRGFAB_iff (t : GfaFile) (segs : List RSeg) :
    validRGFAB t segs = true ↔
      (segs.length = t.segs.length ∧
       (∀ s ∈ t.segs, tagInt s.tags "LN" = some (s.seq.length : Int)) ∧ ValidRGFA segs) := by
  unfold validRGFAB
  simp only [Bool.and_eq_true, Bool.or_eq_true, List.all_eq_true, List.any_eq_true, beq_iff_eq,
    decide_eq_true_eq, Bool.not_eq_true', beq_eq_false_iff_ne, ne_eq, List.isEmpty_eq_false_iff]
  constructor
  · rintro ⟨⟨⟨⟨⟨⟨h1, h2⟩, h3⟩, h4⟩, h5⟩, h6⟩, h7⟩
    refine ⟨h1, h4, ?_, h3, ?_, ?_, ?_⟩
    · refine nodup_of_eraseDups_length _ ?_
      rw [h2, List.length_map]
    · intro a ha b hb hsn hne
      rcases h5 a ha b hb with (h | h) | h
      · exact absurd hsn h
      · exact absurd h hne
      · exact h
    · intro a ha b hb hsn
      rcases h6 a ha b hb with h | h
      · exact absurd hsn h
      · exact h
    · intro a ha hsr
      rcases h7 a ha with (h | h) | h
      · exact absurd hsr h
      · exact Or.inl h
      · exact Or.inr h
  · rintro ⟨h1, h4, hv⟩
    refine ⟨⟨⟨⟨⟨⟨h1, ?_⟩, hv.pos⟩, h4⟩, ?_⟩, ?_⟩, ?_⟩
    · rw [eraseDups_of_nodup _ hv.ids, List.length_map]
    · intro a ha b hb
      by_cases hsn : a.sn = b.sn
      · by_cases hab : a = b
        · exact Or.inl (Or.inr hab)
        · exact Or.inr (hv.disjoint a ha b hb hsn hab)
      · exact Or.inl (Or.inl hsn)
    · intro a ha b hb
      by_cases hsn : a.sn = b.sn
      · exact Or.inr (hv.rank a ha b hb hsn)
      · exact Or.inl hsn
    · intro a ha
      by_cases hsr : a.sr = 0
      · rcases hv.tiled a ha hsr with h | h
        · exact Or.inl (Or.inr h)
        · exact Or.inr h
      · exact Or.inl (Or.inl hsr)

/-- soundness: what the driver accepts satisfies the theorems' hypothesis -/
theorem validRGFAB_sound (t : GfaFile) (segs : List RSeg) (h : validRGFAB t segs = true) : ValidRGFA segs :=
  ((validRGFAB_iff t segs).1 h).2.2

/-- … including the tag-level hypotheses of the glue theorems, when tag names are not repeated on an S line -/
theorem validRGFAB_tagged (t : GfaFile) (h : validRGFAB t (segsOf t) = true)
    (hnames : ∀ s ∈ t.segs, (s.tags.map (·.name)).Nodup) : TaggedRGFA t := by
  obtain ⟨hlen, hln, hv⟩ := (validRGFAB_iff t _).1 h
  rw [segsOf_eq] at hlen hv
  have htag : ∀ s ∈ t.segs, (rsegOf s).isSome := isSome_of_length_filterMap rsegOf t.segs hlen
  refine ⟨?_, hnames, htag, hln⟩
  rw [← filterMap_rsegOf_ids t.segs htag]
  exact hv.ids

/-- completeness: every valid, completely tagged rGFA is accepted (the check never discards an input of the quantifier) -/
theorem validRGFAB_complete (t : GfaFile) (ht : TaggedRGFA t) (hv : ValidRGFA (rsegsOf t)) :
    validRGFAB t (segsOf t) = true := by
  rw [validRGFAB_iff, segsOf_eq]
  exact ⟨length_filterMap_of_isSome rsegOf t.segs ht.tagged, ht.ln, hv⟩

/-! ## the record-level test `recValid` -/

open Gaftools.Gaf Gaftools.Conv Gaftools.ConvText in
/-- an unstable record the driver accepts satisfies the hypothesis `WalkRec` of `C01.toStable_locus` and is '+'-stranded -/
theorem recValid_walk (segs : List RSeg) (r : Rec) (hs : isStable r.path = false) (h : recValid segs r = true) :
    Gaftools.C01.WalkRec segs (parseUnstableSteps r.path) r.plen r.ps r.pe ∧ r.strand = ['+'] := by
  unfold recValid at h
  simp only [hs, Bool.false_eq_true, ↓reduceIte, Bool.and_eq_true, List.all_eq_true, decide_eq_true_eq, beq_iff_eq,
    Bool.not_eq_true', List.isEmpty_eq_false_iff] at h
  obtain ⟨⟨⟨⟨⟨h1, h2⟩, h3⟩, h4⟩, h5⟩, h6⟩ := h
  refine ⟨⟨h2, h3, h4, ?_, ?_, ?_⟩, h1⟩ <;> omega

open Gaftools.Gaf Gaftools.Conv Gaftools.ConvText in
/-- a stable record on a bare contig name that the driver accepts satisfies `BareRec` of `C01.toUnstable_bare`,
    and its path-length column is the contig length -/
theorem recValid_bare (segs : List RSeg) (r : Rec) (c : String) (hs : isStable r.path = true)
    (hp : (parseStableItems r.path).bind spathOfItems = some (.bare c)) (h : recValid segs r = true) :
    Gaftools.C01.BareRec segs c r.ps r.pe ∧ ctgLen segs c = some (r.plen : Int) := by
  unfold recValid at h
  simp only [hs, hp, ↓reduceIte, Bool.and_eq_true, decide_eq_true_eq, List.contains_iff_mem] at h
  obtain ⟨⟨h1, h2⟩, h3⟩ := h
  cases hc : ctgLen segs c with
  | none => simp [hc] at h3
  | some L =>
    simp only [hc, Bool.and_eq_true, decide_eq_true_eq, beq_iff_eq] at h3
    obtain ⟨h4, h5⟩ := h3
    refine ⟨⟨h1, ⟨by omega, by omega⟩, L, hc, h4⟩, ?_⟩
    congr 1
    omega

/-- every list of images has a list of preimages -/
theorem exists_preimage_list {α β} (f : α → β) (P : α → Prop) : ∀ (l : List β),
    (∀ y ∈ l, ∃ x, P x ∧ y = f x) → ∃ run : List α, run.map f = l ∧ ∀ x ∈ run, P x := by
  intro l
  induction l with
  | nil => intro _; exact ⟨[], rfl, by simp⟩
  | cons y ys ih =>
    intro h
    obtain ⟨x, hx, rfl⟩ := h y (by simp)
    obtain ⟨run, hr, hP⟩ := ih (fun y hy => h y (by simp [hy]))
    refine ⟨x :: run, by simp [hr], ?_⟩
    intro z hz
    rcases List.mem_cons.1 hz with rfl | hz
    · exact hx
    · exact hP z hz

/-- the driver's pairwise test on the projected run is `touching` -/
theorem touching_of_zip : ∀ (run : List RSeg),
    (List.zip (run.map fun s => (⟨s.id, s.so, s.en⟩ : Gaftools.Conv.Seg))
        (run.map fun s => (⟨s.id, s.so, s.en⟩ : Gaftools.Conv.Seg)).tail).all
      (fun p => p.1.en == p.2.so) = true → Gaftools.C01.touching run
  | [] => fun _ => trivial
  | [_] => fun _ => trivial
  | a :: b :: r => by
    intro h
    simp only [List.map_cons, List.tail_cons, List.zip_cons_cons, List.all_cons, Bool.and_eq_true, beq_iff_eq] at h
    refine ⟨h.1, touching_of_zip (b :: r) ?_⟩
    simpa using h.2

open Gaftools.Gaf Gaftools.Conv Gaftools.ConvText in
/-- a stable interval-list record the driver accepts satisfies the hypotheses of `C01.toUnstable_ivs` -/
theorem recValid_ivs (segs : List RSeg) (hv : ValidRGFA segs) (r : Rec) (l : List OIv) (hs : isStable r.path = true)
    (hp : (parseStableItems r.path).bind spathOfItems = some (.ivs l)) (h : recValid segs r = true) :
    l ≠ [] ∧ (∀ x ∈ l, Gaftools.C01.TiledIv segs x) ∧ (0 : Int) ≤ r.ps ∧ (r.ps : Int) ≤ r.pe ∧ (r.pe : Int) ≤ plenS l ∧
      (r.plen : Int) = plenS l ∧ r.strand = ['+'] := by
  have _ := hv
  unfold recValid at h
  simp only [hs, hp, ↓reduceIte, Bool.and_eq_true, decide_eq_true_eq, beq_iff_eq, Bool.not_eq_true',
    List.isEmpty_eq_false_iff, List.all_eq_true] at h
  obtain ⟨⟨⟨⟨⟨h1, h2⟩, h3⟩, h4⟩, h5⟩, h6⟩ := h
  refine ⟨h2, ?_, by omega, by omega, h4, h5, h1⟩
  intro x hx
  obtain ⟨_, ⟨⟨hne, hhead⟩, hlast⟩, hzip⟩ := h6 x hx
  obtain ⟨run, hrun, hP⟩ := exists_preimage_list (fun s : RSeg => (⟨s.id, s.so, s.en⟩ : Gaftools.Conv.Seg))
    (fun s => s ∈ segs ∧ s.sn = x.1.contig)
    ((refOf segs x.1.contig).filter (fun sg => decide (sg.so < x.1.e) && decide (x.1.s < sg.en)))
    (by
      intro sg hsg
      obtain ⟨s, hs1, hs2, hs3⟩ := (Gaftools.C03.mem_refOf segs x.1.contig sg).1 (List.mem_filter.1 hsg).1
      exact ⟨s, ⟨hs1, hs2⟩, hs3⟩)
  rw [← hrun] at hne hhead hlast hzip
  refine ⟨run, ?_, hP, touching_of_zip run (List.all_eq_true.2 (fun p hp => by simpa using hzip p hp)), ?_, ?_⟩
  · intro e; subst e; simp at hne
  · cases run with
    | nil => simp at hne
    | cons a t => simpa using hhead
  · rw [List.getLast?_map] at hlast
    cases hg : run.getLast? with
    | none => simp [hg] at hlast
    | some a => simpa [hg] using hlast

end Gaftools.Reflect
