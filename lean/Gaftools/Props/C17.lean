import Gaftools.Model.View
import Gaftools.Model.Sort
/-!
# C17 — results do not depend on input compression   (PARTIAL: the codecs are foreign code)

The models of index / view / sort / stat / realign / phase / find_path / order_gfa are functions of the *list of records*
(`lines`) and of the *token list of the graph*: no model function takes a byte offset, a file handle or a compression flag.
What the real tools do with offsets is (i) store `tell()` before each record, (ii) sort and de-duplicate stored offsets,
(iii) `seek` to a stored offset and read one record.  The theorems below say that (ii) commutes with any strictly increasing
offset function, and that plain byte offsets and BGZF virtual offsets are strictly increasing — so offset-level selection
is ordinal-level selection, whatever the compression.  That htslib's `tell/seek/readline` and `gzip.open` implement this
interface is assumed, and checked by correspondence on real multi-block files.
-/
namespace Gaftools.C17
open Gaftools.View

theorem voffset_eq (c u : Nat) (hu : u < 2 ^ 16) : (c <<< 16 ||| u) = c * 65536 + u := by
  rw [← Nat.shiftLeft_add_eq_or_of_lt hu, Nat.shiftLeft_eq]

/-- BGZF virtual offsets `(block address << 16) | offset within the uncompressed block` order like the pairs -/
theorem voffset_lt (c₁ u₁ c₂ u₂ : Nat) (h₁ : u₁ < 2 ^ 16) (h₂ : u₂ < 2 ^ 16) :
    (c₁ <<< 16 ||| u₁) < (c₂ <<< 16 ||| u₂) ↔ (c₁ < c₂ ∨ (c₁ = c₂ ∧ u₁ < u₂)) := by
  rw [voffset_eq c₁ u₁ h₁, voffset_eq c₂ u₂ h₂]
  have : (2 : Nat) ^ 16 = 65536 := by decide
  omega

def StrictMonoOn (off : Nat → Nat) (n : Nat) : Prop := ∀ i j, i < j → j < n → off i < off j

/-- plain text: the offset of record `i` is the total byte length of the records before it -/
def plainOff (lens : List Nat) (i : Nat) : Nat := (lens.take i).sum

theorem plainOff_strictMono (lens : List Nat) (hpos : ∀ l ∈ lens, 0 < l) : StrictMonoOn (plainOff lens) lens.length := by
  intro i j hij hj
  unfold plainOff
  have hi : i < lens.length := by omega
  have hsplit : lens.take j = lens.take i ++ (lens.drop i).take (j - i) := by
    have hji : j = i + (j - i) := by omega
    conv => lhs; rw [hji]
    rw [List.take_add]
  obtain ⟨k, hk⟩ : ∃ k, j - i = k + 1 := ⟨j - i - 1, by omega⟩
  rw [hsplit, List.sum_append, List.drop_eq_getElem_cons hi, hk, List.take_succ_cons, List.sum_cons]
  have := hpos lens[i] (List.getElem_mem hi)
  omega

/-- BGZF: record `i` starts in the block at compressed address `pos[i].1` at uncompressed offset `pos[i].2` -/
def bgzfOff (pos : List (Nat × Nat)) (i : Nat) : Nat := match pos[i]? with
  | some p => p.1 <<< 16 ||| p.2
  | none => 0

theorem bgzfOff_strictMono (pos : List (Nat × Nat)) (hw : ∀ p ∈ pos, p.2 < 2 ^ 16)
    (hlex : pos.Pairwise (fun a b => a.1 < b.1 ∨ (a.1 = b.1 ∧ a.2 < b.2))) : StrictMonoOn (bgzfOff pos) pos.length := by
  intro i j hij hj
  have hi : i < pos.length := by omega
  unfold bgzfOff
  rw [List.getElem?_eq_getElem hi, List.getElem?_eq_getElem hj]
  simp only
  rw [voffset_lt _ _ _ _ (hw _ (List.getElem_mem hi)) (hw _ (List.getElem_mem hj))]
  exact List.pairwise_iff_getElem.mp hlex i j hi hj hij

/-! ### helper lemmas -/

theorem StrictMonoOn.le_iff {off : Nat → Nat} {n : Nat} (hm : StrictMonoOn off n) {i j : Nat} (hi : i < n) (hj : j < n) :
    off i ≤ off j ↔ i ≤ j := by
  constructor
  · intro h
    by_cases hji : j < i
    · have := hm j i hji hi; omega
    · omega
  · intro h
    rcases Nat.lt_or_eq_of_le h with h | h
    · exact Nat.le_of_lt (hm i j h hj)
    · subst h; exact Nat.le_refl _

theorem StrictMonoOn.inj {off : Nat → Nat} {n : Nat} (hm : StrictMonoOn off n) {i j : Nat} (hi : i < n) (hj : j < n)
    (h : off i = off j) : i = j := by
  have h1 := (hm.le_iff hi hj).mp (by omega)
  have h2 := (hm.le_iff hj hi).mp (by omega)
  omega

theorem mem_insertNat' (x y : Nat) (l : List Nat) : y ∈ insertNat x l ↔ y = x ∨ y ∈ l := by
  induction l with
  | nil => simp [insertNat]
  | cons z zs ih =>
    unfold insertNat
    split
    · simp
    · simp only [List.mem_cons, ih]
      constructor
      · rintro (h | h | h) <;> simp [h]
      · rintro (h | h | h) <;> simp [h]

theorem mem_sortNat' (l : List Nat) (x : Nat) : x ∈ sortNat l ↔ x ∈ l := by
  induction l with
  | nil => simp [sortNat]
  | cons a as ih =>
    have : sortNat (a :: as) = insertNat a (sortNat as) := rfl
    rw [this, mem_insertNat', ih, List.mem_cons]

theorem insertNat_map (off : Nat → Nat) (n : Nat) (hm : StrictMonoOn off n) (x : Nat) (hx : x < n) :
    ∀ (l : List Nat), (∀ i ∈ l, i < n) → insertNat (off x) (l.map off) = (insertNat x l).map off := by
  intro l
  induction l with
  | nil => intro _; rfl
  | cons y ys ih =>
    intro hl
    have hy : y < n := hl y (by simp)
    have hys : ∀ i ∈ ys, i < n := fun i hi => hl i (by simp [hi])
    simp only [List.map_cons, insertNat]
    by_cases hxy : x ≤ y
    · have : off x ≤ off y := (hm.le_iff hx hy).mpr hxy
      simp [hxy, this]
    · have : ¬ off x ≤ off y := fun h => hxy ((hm.le_iff hx hy).mp h)
      simp [hxy, this, ih hys]

theorem filter_ne_map (off : Nat → Nat) (n : Nat) (hm : StrictMonoOn off n) (a : Nat) (ha : a < n) (l : List Nat)
    (hl : ∀ i ∈ l, i < n) :
    (l.map off).filter (fun b => !b == off a) = (l.filter (fun b => !b == a)).map off := by
  rw [List.filter_map]
  congr 1
  apply List.filter_congr
  intro b hb
  simp only [Function.comp]
  by_cases hba : b = a
  · subst hba; simp
  · have : off b ≠ off a := fun h => hba (hm.inj (hl b hb) ha h)
    have h1 : (off b == off a) = false := beq_false_of_ne this
    have h2 : (b == a) = false := beq_false_of_ne hba
    simp [h1, h2]

theorem dedup_offsets_aux (off : Nat → Nat) (n : Nat) (hm : StrictMonoOn off n) :
    ∀ (k : Nat) (l : List Nat), l.length ≤ k → (∀ i ∈ l, i < n) → (l.map off).eraseDups = l.eraseDups.map off := by
  intro k
  induction k with
  | zero =>
    intro l hk _
    have : l = [] := List.length_eq_zero_iff.mp (by omega)
    subst this; simp
  | succ k ih =>
    intro l hk hl
    cases l with
    | nil => simp
    | cons a as =>
      have ha : a < n := hl a (by simp)
      have has : ∀ i ∈ as, i < n := fun i hi => hl i (by simp [hi])
      rw [List.map_cons, List.eraseDups_cons, List.eraseDups_cons, List.map_cons,
        filter_ne_map off n hm a ha as has]
      congr 1
      apply ih
      · have := List.length_filter_le (fun b => !b == a) as
        simp at hk; omega
      · intro i hi
        exact has i (List.mem_filter.mp hi).1

/-- sorting stored offsets = sorting ordinals, then looking the offsets up -/
theorem sort_offsets (off : Nat → Nat) (n : Nat) (hm : StrictMonoOn off n) (l : List Nat) (hl : ∀ i ∈ l, i < n) :
    sortNat (l.map off) = (sortNat l).map off := by
  induction l with
  | nil => rfl
  | cons a as ih =>
    have ha : a < n := hl a (by simp)
    have has : ∀ i ∈ as, i < n := fun i hi => hl i (by simp [hi])
    have e1 : sortNat ((a :: as).map off) = insertNat (off a) (sortNat (as.map off)) := rfl
    have e2 : sortNat (a :: as) = insertNat a (sortNat as) := rfl
    rw [e1, e2, ih has]
    exact insertNat_map off n hm a ha (sortNat as) (fun i hi => has i ((mem_sortNat' as i).mp hi))

/-- de-duplicating stored offsets = de-duplicating ordinals -/
theorem dedup_offsets (off : Nat → Nat) (n : Nat) (hm : StrictMonoOn off n) (l : List Nat) (hl : ∀ i ∈ l, i < n) :
    (l.map off).eraseDups = l.eraseDups.map off :=
  dedup_offsets_aux off n hm l.length l (Nat.le_refl _) hl

/-- the offset-level index: the entries hold `off i` instead of `i` -/
def offIndex (off : Nat → Nat) (idx : List (Key × List Nat)) : List (Key × List Nat) := idx.map (fun e => (e.1, e.2.map off))

theorem entryOf_offIndex (off : Nat → Nat) (idx : List (Key × List Nat)) (id : String) :
    entryOf (offIndex off idx) id = (entryOf idx id).map off := by
  unfold entryOf offIndex
  rw [List.filter_map]
  have : ((fun (e : Key × List Nat) => e.1.1 == id) ∘ fun (e : Key × List Nat) => (e.1, e.2.map off))
      = fun (e : Key × List Nat) => e.1.1 == id := rfl
  rw [this, List.getLast?_map]
  cases (idx.filter (fun e => e.1.1 == id)).getLast? <;> rfl

theorem entryOf_bound (n : Nat) (idx : List (Key × List Nat)) (hb : ∀ e ∈ idx, ∀ i ∈ e.2, i < n) (id : String) :
    ∀ i ∈ entryOf idx id, i < n := by
  intro i hi
  unfold entryOf at hi
  split at hi
  · next e he =>
    have := List.mem_of_getLast? he
    exact hb e (List.mem_filter.mp this).1 i hi
  · simp at hi

/-- MAIN: `view --node` on stored offsets selects exactly the offsets of the records selected on ordinals, in the same
    order — for plain byte offsets and for BGZF virtual offsets alike -/
theorem select_parametric (off : Nat → Nat) (n : Nat) (hm : StrictMonoOn off n) (idx : List (Key × List Nat))
    (hb : ∀ e ∈ idx, ∀ i ∈ e.2, i < n) (nodes : List String) :
    selectNodes (offIndex off idx) nodes = (selectNodes idx nodes).map (fun l => l.map off) := by
  have hflat : nodes.flatMap (entryOf (offIndex off idx)) = (nodes.flatMap (entryOf idx)).map off := by
    rw [List.map_flatMap]
    congr 1
    funext id
    exact entryOf_offIndex off idx id
  have hfb : ∀ i ∈ nodes.flatMap (entryOf idx), i < n := by
    intro i hi
    obtain ⟨id, _, hid⟩ := List.mem_flatMap.mp hi
    exact entryOf_bound n idx hb id i hid
  have heb : ∀ i ∈ (nodes.flatMap (entryOf idx)).eraseDups, i < n := fun i hi => hfb i (List.mem_eraseDups.mp hi)
  unfold selectNodes
  simp only
  rw [hflat, dedup_offsets off n hm _ hfb, sort_offsets off n hm _ heb, List.isEmpty_map]
  cases (sortNat (nodes.flatMap (entryOf idx)).eraseDups).isEmpty <;> rfl

theorem gsiStep_map (off : Nat → Nat) (acc : List (String × Nat × Nat)) (s : String) (i : Nat) :
    Gaftools.Sort.gsiStep (acc.map (fun e => (e.1, off e.2.1, off e.2.2))) (s, off i)
      = (Gaftools.Sort.gsiStep acc (s, i)).map (fun e => (e.1, off e.2.1, off e.2.2)) := by
  unfold Gaftools.Sort.gsiStep
  simp only [List.any_map, Function.comp_def]
  split
  · simp only [List.map_map]
    apply List.map_congr_left
    intro x _
    simp only [Function.comp]
    split <;> rfl
  · simp

theorem gsiFold_map (off : Nat → Nat) : ∀ (es : List (String × Nat)) (acc : List (String × Nat × Nat)),
    (es.map (fun e => (e.1, off e.2))).foldl Gaftools.Sort.gsiStep (acc.map (fun e => (e.1, off e.2.1, off e.2.2)))
      = (es.foldl Gaftools.Sort.gsiStep acc).map (fun e => (e.1, off e.2.1, off e.2.2)) := by
  intro es
  induction es with
  | nil => intro acc; rfl
  | cons e es ih =>
    intro acc
    simp only [List.map_cons, List.foldl_cons]
    rw [gsiStep_map, ih]

/-- the `.gsi` of sort: offsets of first/last record per contig are the offsets of the first/last *positions* -/
theorem gsi_parametric (sns : List String) (off : Nat → Nat) :
    Gaftools.Sort.gsiIndex sns off = (Gaftools.Sort.gsiIndex sns id).map (fun e => (e.1, off e.2.1, off e.2.2)) := by
  unfold Gaftools.Sort.gsiIndex
  have h1 : sns.zipIdx.map (fun (x : String × Nat) => (x.1, off x.2))
      = (sns.zipIdx.map (fun (x : String × Nat) => (x.1, id x.2))).map (fun e => (e.1, off e.2)) := by
    rw [List.map_map]; rfl
  have h2 := gsiFold_map off (sns.zipIdx.map (fun (x : String × Nat) => (x.1, id x.2))) []
  rw [List.map_nil] at h2
  show ((sns.zipIdx.map (fun (x : String × Nat) => (x.1, off x.2))).foldl Gaftools.Sort.gsiStep []).filter (·.1 != "unknown")
    = (((sns.zipIdx.map (fun (x : String × Nat) => (x.1, id x.2))).foldl Gaftools.Sort.gsiStep []).filter
        (·.1 != "unknown")).map (fun e => (e.1, off e.2.1, off e.2.2))
  rw [h1, h2, List.filter_map]
  rfl

example : StrictMonoOn (plainOff [70, 3, 120]) 3 := plainOff_strictMono _ (by decide)
example : bgzfOff [(0, 0), (0, 65000), (18000, 12)] 2 = 1179648012 := by decide

end Gaftools.C17
