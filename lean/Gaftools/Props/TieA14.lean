import Gaftools.Model.Stat
import Gaftools.Gen.StatLoop
import Gaftools.Proofs.StatLemmas
/-!
# Tie A for `stat.run_stat` (C19): the record loop and the report

`Gen/StatLoop.lean` is regenerated from `gaftools/cli/stat.py` (and `Read.__init__` of `gaftools/gaf.py`) on every run: the values
assigned before the loop (`statInit`), the body of `for alignment_count, mapping in enumerate(gaf_file.read_file(), 1)` translated
statement by statement into a state-passing function on the model's state (`statStep`: every `+=`, the `continue`, the dictionary
test / assignment / attribute updates in source order, the `--cigar` branch), the body of the loop over the CIGAR tokens
(`statFor_cnt`), and the lines of the report with the arithmetic of each printed figure (`statReport`).

* `statStep_gen` : the translated body IS `Stat.step`, for every state whose `reads` list is a dictionary (no key twice: `StatKeysOk` — a
  representation invariant, not an assumption on the input: it holds initially and `step_statKeysOk` preserves it);
* `statRun_gen`  : the translated loop from the translated initial state IS `Stat.run` (no hypothesis) — the function about which
  every theorem of `Props/C19.lean` is stated;
* `statReport_gen` : each line of the report prints the model figure of that name: the counters, `len(reads)`, and
  `avgMapq` (mapq sum over ALL alignments), `avgBestId`, `avgBestRatio` (sums over the reads divided by their number) rounded to 1, 3, 3
  places; `report_run_gen` composes the two.

Nothing is assumed about the input.  Where the Python raises (division by a zero query / block length, by `len(reads) = 0`,
by a zero count) the generated definitions and the model both use the total division of `Rat`; the equalities hold there too.
Floats are exact rationals on both sides (the model's stated abstraction; the differential tests compare the printed roundings).
-/
namespace Gaftools.TieA
open Gaftools.Gaf Gaftools.Stat

/-- the threshold test on Python integers is the model's on naturals -/
theorem stat_ge50 (n : Nat) : decide (((n : Nat) : Int) ≥ (50 : Int)) = decide (n ≥ 50) := by
  rw [Bool.eq_iff_iff]; simp only [decide_eq_true_eq]; omega

/-- the translated body of the loop over the CIGAR tokens is the model's `bump` on the pair (length token, operation token) -/
theorem statFor_cnt_gen (toks : List Str) (s : St) (cnt : Nat) :
    Gen.statFor_cnt toks s cnt = { s with cig := bump s.cig (toks.getD cnt [], toks.getD (cnt + 1) []) } := by
  first
  | rfl
  | (unfold Gen.statFor_cnt bump
     simp only [stat_ge50]
     generalize toks.getD (cnt + 1) [] = op
     generalize toNat (toks.getD cnt []) = n
     by_cases hD : (op == ['D']) = true
     · by_cases hn : n ≥ 50 <;> simp [hD, hn]
     · by_cases hI : (op == ['I']) = true
       · by_cases hn : n ≥ 50 <;> simp [hD, hI, hn]
       · by_cases hX : (op == ['X']) = true
         · by_cases hn : n ≥ 50 <;> simp [hD, hI, hX, hn]
         · by_cases hM : (op == ['=']) = true
           · by_cases hn : n ≥ 50 <;> simp [hD, hI, hX, hM, hn]
           · simp [hD, hI, hX, hM])

/-- `range(0, n - 1, 2)` = the even positions that have a successor -/
theorem pyRange_even (n : Nat) : Gen.pyRange 0 ((n : Int) - 1) 2 = (List.range (n / 2)).map (fun i => 2 * i) := by
  unfold Gen.pyRange
  have h : (((n : Int) - 1 - 0 + 2 - 1) / 2).toNat = n / 2 := by omega
  rw [h]
  simp

/-- the model's pairing of the tokens, by position -/
theorem cigarPairs_idx : ∀ toks : List Str,
    cigarPairs toks = (List.range (toks.length / 2)).map (fun i => (toks.getD (2 * i) [], toks.getD (2 * i + 1) []))
  | [] => by simp [cigarPairs]
  | [_] => by simp [cigarPairs]
  | a :: b :: rest => by
    have ih := cigarPairs_idx rest
    have h : (a :: b :: rest).length / 2 = rest.length / 2 + 1 := by simp only [List.length_cons]; omega
    rw [h, List.range_succ_eq_map]
    simp only [cigarPairs, ih, List.map_cons, List.map_map]
    congr 1

/-- a loop whose body only changes the CIGAR counters is a loop on the CIGAR counters -/
theorem stat_foldl_cig {α} (f : CigarCounts → α → CigarCounts) (g : St → α → St)
    (hg : ∀ s x, g s x = { s with cig := f s.cig x }) (l : List α) (s : St) :
    l.foldl g s = { s with cig := l.foldl f s.cig } := by
  induction l generalizing s with
  | nil => rfl
  | cons x xs ih => simp only [List.foldl_cons, hg, ih]


/-- the list is a dictionary: no two entries carry the same key -/
def StatKeysOk (s : St) : Prop := (s.reads.map (·.name)).Nodup

theorem stat_map_noop (l : List ReadAgg) (k : Str) (f : ReadAgg → ReadAgg) (h : ∀ b ∈ l, ¬ b.name = k) :
    l.map (fun b => if b.name == k then f b else b) = l := by
  conv => rhs; rw [← List.map_id l]
  apply List.map_congr_left
  intro b hb
  simp [h b hb]

theorem stat_find_skip (l rest : List ReadAgg) (k : Str) (h : ∀ b ∈ l, ¬ b.name = k) :
    (l ++ rest).find? (·.name == k) = rest.find? (·.name == k) := by
  induction l with
  | nil => rfl
  | cons x xs ih =>
    have hx : (x.name == k) = false := by simpa using h x List.mem_cons_self
    simp only [List.cons_append, List.find?_cons, hx]
    exact ih (fun b hb => h b (List.mem_cons_of_mem _ hb))

/-- a dictionary that has the key splits around the one entry carrying it -/
theorem stat_split_at_key (l : List ReadAgg) (k : Str) (hn : (l.map (·.name)).Nodup) (hh : l.any (·.name == k) = true) :
    ∃ pre a post, l = pre ++ a :: post ∧ a.name = k ∧ (∀ b ∈ pre, ¬ b.name = k) ∧ (∀ b ∈ post, ¬ b.name = k) := by
  induction l with
  | nil => simp at hh
  | cons x xs ih =>
    simp only [List.map_cons, List.nodup_cons] at hn
    by_cases hx : x.name = k
    · refine ⟨[], x, xs, rfl, hx, by simp, ?_⟩
      intro b hb hbk
      exact hn.1 (List.mem_map.mpr ⟨b, hb, by rw [hbk, hx]⟩)
    · have hx' : (x.name == k) = false := by simpa using hx
      simp only [List.any_cons, hx', Bool.false_or] at hh
      obtain ⟨pre, a, post, e, ha, hpre, hpost⟩ := ih hn.2 hh
      refine ⟨x :: pre, a, post, by rw [e]; rfl, ha, ?_, hpost⟩
      intro b hb
      rcases List.mem_cons.mp hb with rfl | hb
      · exact hx
      · exact hpre b hb

theorem rdGet_mid (pre post : List ReadAgg) (a : ReadAgg) (k : Str) (ha : a.name = k) (hpre : ∀ b ∈ pre, ¬ b.name = k) :
    Gen.rdGet (pre ++ a :: post) k = a := by
  unfold Gen.rdGet
  rw [stat_find_skip _ _ _ hpre]
  simp [ha]

theorem stat_upd_mid (pre post : List ReadAgg) (a : ReadAgg) (k : Str) (f : ReadAgg → ReadAgg) (ha : a.name = k)
    (hpre : ∀ b ∈ pre, ¬ b.name = k) (hpost : ∀ b ∈ post, ¬ b.name = k) :
    (pre ++ a :: post).map (fun b => if b.name == k then f b else b) = pre ++ f a :: post := by
  simp only [List.map_append, List.map_cons, stat_map_noop _ _ _ hpre, stat_map_noop _ _ _ hpost, ha, beq_self_eq_true, if_true]

theorem rdUpd_mid (pre post : List ReadAgg) (a : ReadAgg) (k : Str) (f : ReadAgg → ReadAgg) (ha : a.name = k)
    (hpre : ∀ b ∈ pre, ¬ b.name = k) (hpost : ∀ b ∈ post, ¬ b.name = k) :
    Gen.rdUpd (pre ++ a :: post) k f = pre ++ f a :: post := stat_upd_mid pre post a k f ha hpre hpost

/-- the whole `for cnt in range(0, len(all_cigars) - 1, 2)` loop is the model's fold of `bump` over `cigarPairs` -/
theorem cigLoop_gen (toks : List Str) (s0 : St) :
    (Gen.pyRange 0 ((toks.length : Int) - 1) 2).foldl (Gen.statFor_cnt toks) s0 =
      { s0 with cig := (cigarPairs toks).foldl bump s0.cig } := by
  rw [stat_foldl_cig (fun c i => bump c (toks.getD i [], toks.getD (i + 1) [])) _ (statFor_cnt_gen toks), pyRange_even,
    cigarPairs_idx, List.foldl_map, List.foldl_map]

theorem stat_perf2 (n : Nat) : decide ((n : Int) = (2 : Int)) = (n == 2) := by
  rw [Bool.eq_iff_iff]; simp only [decide_eq_true_eq, beq_iff_eq]; omega

/-- the translated body of the record loop is the model's `step` -/
theorem statStep_gen (c : Bool) (s : St) (r : Rec) (h : StatKeysOk s) : Gen.statStep c s r = step c s r := by
  first
  | (clear h; rfl)
  | (have hsec : ((!r.isPrimary) || decide ((r.mapq : Int) ≤ (0 : Int))) = isSecondary r := by
       unfold isSecondary
       cases r.isPrimary <;> simp <;> omega
     have hρ : ((((r.qe : Int) - (r.qs : Int) : Int) : Rat) / ((r.qlen : Int) : Rat)) = ratio r := rfl
     have hι : (((r.nmatch : Int) : Rat) / ((r.blen : Int) : Rat)) = identity r := rfl
     unfold Gen.statStep step cigarStep updReads
     simp (config := { zeta := false }) only [hsec, hρ, hι, cigLoop_gen, stat_perf2]
     by_cases hs : isSecondary r = true
     · simp only [hs, if_true]
     · obtain ⟨total, primary, secondary, bases, mapqSum, reads, cig⟩ := s
       by_cases hh : reads.any (·.name == r.qname) = true
       · obtain ⟨pre, a, post, e, ha, hpre, hpost⟩ := stat_split_at_key reads r.qname h hh
         subst e
         have g1 : ∀ a' : ReadAgg, a'.name = r.qname → Gen.rdGet (pre ++ a' :: post) r.qname = a' :=
           fun a' h => rdGet_mid pre post a' r.qname h hpre
         have u1 : ∀ (a' : ReadAgg) f, a'.name = r.qname → Gen.rdUpd (pre ++ a' :: post) r.qname f = pre ++ f a' :: post :=
           fun a' f h => rdUpd_mid pre post a' r.qname f h hpre hpost
         have hh' : Gen.rdHas (pre ++ a :: post) r.qname = true := hh
         rw [stat_upd_mid pre post a r.qname _ ha hpre hpost]
         by_cases h1 : a.bestRatio < ratio r <;> by_cases h2 : a.bestId < identity r <;> cases c <;>
           by_cases hp : (groupDigits r.cigar).length = 2 <;>
           simp [g1, u1, ha, h1, h2, hs, hh, hh', hp]
         all_goals (rw [← ha])
       · have hh' : Gen.rdHas reads r.qname = false := by simpa [Gen.rdHas] using hh
         cases c <;> by_cases hp : (groupDigits r.cigar).length = 2 <;> simp [hs, hh, hh', hp, Gen.rdPut])


/-- one iteration keeps the dictionary a dictionary -/
theorem step_statKeysOk (c : Bool) (s : St) (r : Rec) (h : StatKeysOk s) : StatKeysOk (step c s r) := by
  unfold StatKeysOk at *
  unfold step
  split
  · exact h
  · simp only [Gaftools.Proofs.Stat.updReads_names]
    split
    · exact h
    · rename_i hn
      rw [List.nodup_append]
      refine ⟨h, by simp, ?_⟩
      intro a ha b hb
      simp only [List.mem_singleton] at hb
      subst hb
      intro e
      exact hn (e ▸ ha)

/-- the values assigned before the loop are the model's initial state -/
theorem statInit_gen : Gen.statInit = ({} : St) := rfl

theorem statFoldl_gen (c : Bool) (recs : List Rec) (s : St) (h : StatKeysOk s) :
    recs.foldl (Gen.statStep c) s = recs.foldl (step c) s := by
  induction recs generalizing s with
  | nil => rfl
  | cons r rs ih =>
    simp only [List.foldl_cons, statStep_gen c s r h]
    exact ih _ (step_statKeysOk c s r h)

/-- the whole record loop: translated body folded over the records from the translated initial values = `Stat.run` -/
theorem statRun_gen (c : Bool) (recs : List Rec) : Gen.statRun c recs = run c recs := by
  first
  | rfl
  | (unfold Gen.statRun run
     rw [statInit_gen]
     exact statFoldl_gen c recs {} (by simp [StatKeysOk]))

theorem statSum_gen (l : List ReadAgg) (f : ReadAgg → Rat) : l.foldl (fun acc v => acc + f v) (0 : Rat) = sumRat (l.map f) := by
  unfold sumRat
  rw [List.foldl_map]

/-- what is printed: every line of the report, label and figure, in terms of the model's state and of the model's three averages -/
theorem statReport_gen (c : Bool) (s : St) :
    Gen.statReport c s =
      [("Total alignments:", .nat s.total),
       ("\tPrimary:", .nat s.primary),
       ("\tSecondary:", .nat s.secondary),
       ("Reads with at least one alignment:", .nat s.reads.length),
       ("Total aligned bases:", .nat s.bases),
       ("Average mapping quality:", .round (avgMapq s) 1),
       ("Average highest sequence identity:", .round (avgBestId s) 3),
       ("Average highest map ratio:", .round (avgBestRatio s) 3)] ++
      (if c then
        [("", .fmt "Cigar string statistics:\n\tTotal deletion regions: %d (%d >50bps)\n\tTotal insertion regions: %d (%d >50bps)\n\tTotal substitution regions: %d (%d >50bps)\n\tTotal match regions: %d (%d >50bps)"
            [s.cig.del, s.cig.delL, s.cig.ins, s.cig.insL, s.cig.x, s.cig.xL, s.cig.m, s.cig.mL]),
         ("Total perfect alignments (exact match):", .nat s.cig.perfect)] else []) ++
      [("* Numbers are based on primary alignments and the ones with >0 mapping quality", .text)] := by
  first
  | rfl
  | (unfold Gen.statReport avgMapq avgBestId avgBestRatio
     simp only [statSum_gen])

/-- the report of a file: the translated report of the translated loop is the model's figures of `Stat.run` -/
theorem report_run_gen (c : Bool) (recs : List Rec) :
    (Gen.statReport c (Gen.statRun c recs)).map (·.2) =
      (let s := run c recs
       [.nat s.total, .nat s.primary, .nat s.secondary, .nat s.reads.length, .nat s.bases,
        .round (avgMapq s) 1, .round (avgBestId s) 3, .round (avgBestRatio s) 3] ++
       (if c then [Gen.RVal.fmt "Cigar string statistics:\n\tTotal deletion regions: %d (%d >50bps)\n\tTotal insertion regions: %d (%d >50bps)\n\tTotal substitution regions: %d (%d >50bps)\n\tTotal match regions: %d (%d >50bps)"
            [s.cig.del, s.cig.delL, s.cig.ins, s.cig.insL, s.cig.x, s.cig.xL, s.cig.m, s.cig.mL], .nat s.cig.perfect] else []) ++
       [.text]) := by
  rw [statRun_gen, statReport_gen]
  cases c <;> rfl

end Gaftools.TieA
