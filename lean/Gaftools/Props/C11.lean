import Gaftools.Model.Realign
import Gaftools.Proofs.RealignLemmas
/-!
# C11 — realign output is exactly-once and in input order under every schedule
# C13 — realign aborts with an error when a worker dies

Both are statements about every event sequence (schedule) of the transition system `Realign.step`.  The parent's
`except queue.Empty` handler is NOT atomic in this model: each of its polls (`one_failed`, `one_is_alive`, `all_exited`) is a
`pCheck` event of its own and workers may move between two polls.
-/
namespace Gaftools.C11
open Gaftools.Realign

/-- messages of a worker that have not reached the pipe -/
def undelivered (w : Worker) : List Msg := w.buf ++ w.todo

def hasDeath (es : List Ev) : Bool := es.any (fun e => match e with | .wDie _ c => c != 0 | _ => false)

/-- MAIN (C11 + second half of C13): whenever the parent leaves the loop normally, every record of the group has been
    received exactly once — under EVERY schedule, with or without worker deaths.  So success is never reported for an
    output that is missing (or duplicating) records. -/
theorem done_complete (batches : List (List Nat)) (es : List Ev) (h : (run (init batches) es).pc = .done) :
    (run (init batches) es).got.Perm batches.flatten :=
  Proofs.Realign.done_complete batches es h

/-- the written order is the input order: the sorted received priorities are the sorted priorities of the group -/
theorem done_output (batches : List (List Nat)) (es : List Ev) (h : (run (init batches) es).pc = .done) :
    output (run (init batches) es) = sortNat batches.flatten :=
  Proofs.Realign.sortNat_congr (done_complete batches es h)

theorem sortNat_sorted (l : List Nat) : (sortNat l).Pairwise (· ≤ ·) :=
  Proofs.Realign.sortNat_sorted l

theorem sortNat_perm (l : List Nat) : (sortNat l).Perm l :=
  Proofs.Realign.sortNat_perm l

/-- so for a group holding the contiguous input positions `a, a+1, …, a+n-1` the output is exactly that range, in order -/
theorem done_output_range (batches : List (List Nat)) (a n : Nat) (hr : batches.flatten = List.range' a n)
    (es : List Ev) (h : (run (init batches) es).pc = .done) :
    output (run (init batches) es) = List.range' a n := by
  rw [done_output batches es h, hr, Proofs.Realign.sortNat_range']

/-- no timing makes it fail: without an abnormal worker termination the parent never calls `sys.exit(1)` -/
theorem no_spurious_failure (batches : List (List Nat)) (es : List Ev) (hd : hasDeath es = false) :
    (run (init batches) es).pc ≠ .failed :=
  Proofs.Realign.no_spurious_failure batches es hd

/-- `failed` is only ever reached when some worker has a non-zero exit code -/
theorem failed_has_death (batches : List (List Nat)) (es : List Ev) (h : (run (init batches) es).pc = .failed) :
    ∃ w ∈ (run (init batches) es).ws, ∃ c, w.st = .exited c ∧ c ≠ 0 :=
  Proofs.Realign.failed_has_death batches es h

/-- C13, first half: if a worker died with something undelivered (its sentinel at least), success is never reported -/
theorem death_detected (batches : List (List Nat)) (es : List Ev)
    (hw : ∃ w ∈ (run (init batches) es).ws, (∃ c, w.st = .exited c ∧ c ≠ 0) ∧ undelivered w ≠ []) :
    (run (init batches) es).pc ≠ .done := by
  obtain ⟨w, hwm, _, hund⟩ := hw
  intro hd
  exact hund (Proofs.Realign.done_undelivered batches es hd w hwm)

/-- once lost, always lost: a dead worker's undelivered messages stay undelivered in every continuation -/
theorem death_persistent (s : St) (i : Nat) (w : Worker) (hi : s.ws[i]? = some w) (c : Int) (hc : w.st = .exited c) (e : Ev) :
    (step s e).ws[i]? = some w :=
  Proofs.Realign.death_persistent s i w hi c hc e

/-- the three polls of the handler (a `pCheck` outside the handler is a stutter) -/
def polls : List Ev := [.pCheck, .pCheck, .pCheck]

/-- the parent acting alone: reads while the pipe is non-empty, then one timeout and the handler's polls -/
def parentDrain (s : St) : List Ev := List.replicate s.chan.length .pGet ++ (.pTimeout :: polls)

/-- … and with a death that lost messages the outcome of that drain is `failed` (non-zero exit status) -/
theorem quiescent_death_fails (batches : List (List Nat)) (es : List Ev)
    (hq : anyRunning (run (init batches) es) = false)
    (hw : ∃ w ∈ (run (init batches) es).ws, (∃ c, w.st = .exited c ∧ c ≠ 0) ∧ undelivered w ≠ []) :
    (run (run (init batches) es) (parentDrain (run (init batches) es))).pc = .failed :=
  Proofs.Realign.drain_death_fails (Proofs.Realign.inv_reach batches es) (Proofs.Realign.hinv_reach batches es) hq hw

/-- why the drain below starts with the (possibly pending) polls of the handler — without them the statement is false: the worker
    finishes completely while the parent is inside the handler; then `parentDrain` only finishes the handler and leaves the
    parent at `atGet` -/
theorem quiescent_terminates_counterexample :
    let s := run (init [[]]) [.pTimeout, .wPut 0, .wFlush 0, .wExit 0]
    anyRunning s = false ∧ (run s (parentDrain s)).pc = .atGet := by decide

/-- variant without the leading polls, when the parent is not inside the handler -/
theorem quiescent_terminates_notInHandler (batches : List (List Nat)) (es : List Ev)
    (hq : anyRunning (run (init batches) es) = false) (hpc : ∀ p, (run (init batches) es).pc ≠ .eval p) :
    let s' := run (run (init batches) es) (parentDrain (run (init batches) es))
    s'.pc = .done ∨ s'.pc = .failed :=
  Proofs.Realign.drain_terminates (Proofs.Realign.inv_reach batches es) (Proofs.Realign.hinv_reach batches es) hq hpc

/-- C13 "never hangs" / C11 "terminates": from every reachable state in which no worker is running any more, the parent alone
    (the pending polls of the handler if it is inside it, reads while the pipe is non-empty, one timeout, the handler's polls)
    reaches `done` or `failed` -/
theorem quiescent_terminates (batches : List (List Nat)) (es : List Ev)
    (hq : anyRunning (run (init batches) es) = false) :
    let s' := run (run (init batches) es) (polls ++ parentDrain (run (init batches) es))
    s'.pc = .done ∨ s'.pc = .failed :=
  Proofs.Realign.drain_terminates' (Proofs.Realign.inv_reach batches es) (Proofs.Realign.hinv_reach batches es) hq

/-- C13 "never hangs", independent of the surviving workers (the repair of K3): once some worker has exited with a non-zero
    status, the parent terminates on its own — the pending polls, reads while the pipe is non-empty, one timeout, the polls —
    whatever the other workers do, even if they never move again (e.g. blocked for ever on a lock the dead worker held) -/
theorem failed_worker_terminates (batches : List (List Nat)) (es : List Ev)
    (hf : anyFailed (run (init batches) es) = true) :
    let s' := run (run (init batches) es) (polls ++ parentDrain (run (init batches) es))
    s'.pc = .done ∨ s'.pc = .failed :=
  Proofs.Realign.drain_failed_terminates (Proofs.Realign.hinv_reach batches es) hf

/-- the reachable states never leave the protocol: the handler of the code only continues or exits with status 1 -/
theorem never_stuck (batches : List (List Nat)) (es : List Ev) : (run (init batches) es).pc ≠ .stuck :=
  Proofs.Realign.never_stuck batches es

/-- what the separate polls buy — and what a reordering would lose.  The handler that polls `all_exited` BEFORE `one_is_alive`
    (`if not all_exited(ps) and not one_is_alive(ps): exit(1)`), Boolean-equivalent to the code's handler when evaluated
    atomically, fails spuriously: the worker is still running at the first poll and has exited cleanly at the second -/
def reorderedHandler : Prog :=
  .test .failed (.leaf .exit1) (.test .exited (.leaf .cont) (.test .alive (.leaf .cont) (.leaf .exit1)))

theorem reordered_fails_spuriously :
    let es : List Ev := [.pTimeout, .pCheck, .pCheck, .wPut 0, .wFlush 0, .wExit 0, .pCheck]
    hasDeath es = false ∧ (runH reorderedHandler (init [[]]) es).pc = .failed ∧ (run (init [[]]) es).pc = .atGet := by decide

/-- every worker makes only finitely many moves: the number of enabled worker events in any schedule is bounded by
    `3 * messages + workers` (put, flush per message, one exit/death per worker) — workers cannot run forever -/
def workMeasure (s : St) : Nat :=
  (s.ws.map (fun w => match w.st with | .running => 2 * w.todo.length + w.buf.length + 1 | .exited _ => 0)).sum

theorem worker_step_decreases (s : St) (e : Ev) (he : match e with | .pGet | .pTimeout | .pCheck => False | _ => True)
    (hne : step s e ≠ s) : workMeasure (step s e) < workMeasure s :=
  Proofs.Realign.worker_step_decreases s e he hne

/-- batching: groups, concatenated, are the input in order (so per-group order = global order) -/
theorem groups_flatten (b c : Nat) (hb : 0 < b) (hc : 0 < c) (recs : List Nat) :
    ((groups b c recs).map List.flatten).flatten = recs :=
  Proofs.Realign.groups_flatten b c hb hc recs

/-! non-vacuity: the D17 schedule (item received, timeout, the worker finishes completely, liveness check, …) -/
def exSched : List Ev := [.wPut 0, .wFlush 0, .pGet, .pTimeout, .pCheck, .wPut 0, .wFlush 0, .wPut 0, .wFlush 0, .wExit 0, .pCheck, .pCheck, .pGet, .pGet]
example : (run (init [[0, 1]]) exSched).pc = .done ∧ (run (init [[0, 1]]) exSched).got = [0, 1] := by decide
example : hasDeath exSched = false := by decide
example : (run (init [[0, 1], [2]]) [.wPut 0, .wFlush 0, .wDie 1 (-9), .wPut 0, .wFlush 0, .wPut 0, .wFlush 0, .wExit 0,
    .pGet, .pGet, .pGet, .pTimeout, .pCheck]).pc = .failed := by decide
/-- a worker that dies between two polls of one handler run is still noticed: `one_failed` says no, the worker dies, `one_is_alive`
    says no, `all_exited` says no -/
example : (run (init [[0]]) [.pTimeout, .pCheck, .wDie 0 (-9), .pCheck, .pCheck]).pc = .failed := by decide
example : groups 2 2 [0, 1, 2, 3, 4, 5, 6] = [[[0, 1], [2, 3]], [[4, 5], [6]]] := by decide

end Gaftools.C11
