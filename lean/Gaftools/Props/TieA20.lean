import Gaftools.Model.Gfa
import Gaftools.Model.GfaText
import Gaftools.Model.GraphExtra
import Gaftools.Model.Hist
import Gaftools.Gen.GfaMutate
import Gaftools.Proofs.GfaLemmas
import Gaftools.Proofs.HistLemmas
import Gaftools.Proofs.GraphExtraLemmas
import Gaftools.Props.TieA5
/-!
# Tie A for `GFA.add_node`, `GFA.remove_node`, `GFA.read_graph` (C07, C14, C15)

`Gen/GfaMutate.lean` is regenerated from `gaftools/gfa.py` on every run: `Node.__init__`, `GFA.__init__` and every statement of
`add_node`, `remove_node`, `read_graph` in source order, as state-passing functions on the object `St` (`nodes` + `edge_tags` =
`Gfa.Graph`, `contigs`, `contig_to_nodes`) with `Except Exc` for what the Python raises.  Token level, as `Model/Gfa.lean`: an S line
is `(id, seq, tags)` with the tags already split, an L line `(a, ±, b, ±, overlap, tags)`; a line of the file is a `TLine` (first
character, its reading as an S record, its reading as an L record).  `add_edge` / `remove_edge` are called, not re-translated
(`Gen/Edges.lean`, `TieA5`; `removeStep_entries` below goes down to those entries).

What is proved (no hypothesis unless stated):
* `addNode_gen` — the translation of `add_node` EQUALS: nothing for a known id; otherwise `Gfa.addNode` for the graph and
  `GfaText.contigStep` for `contigs` (raising what it raises, by class).
* `removeNode_gen` — for an id in the graph the translation of `remove_node` EQUALS `Gfa.removeNode` (both loops, the second
  over the end set as it is *after* the first, then the deletion); `removeNode_missing`: for any other id the source raises
  `KeyError` at `self.nodes[n_id]` (the model function is only ever applied under `g.has id`: `Hist.applyOp`, `GFA.removeLonely`).
* `lineStep_S/L/other`, `edgeStep_gen` — one iteration of each loop of `read_graph`; `loop1_gen`, `loop2_gen` — the loops.
* `readGraph_gen`, `load_gen`, `load_ok` — the whole of `read_graph` / `GFA(file, low_memory)` EQUALS: `Gfa.readGraph` of the
  tokenised file (all S records in file order first, then all L records in file order, a link with a missing endpoint skipped)
  for the graph, `GraphExtra.readGFA` for `contig_to_nodes`, the run of `GfaText.contigStep` over the records with a new id
  for `contigs` — and raises iff that run does.
* `segSpec_sTok` — the S branch and the text model's `GfaText.sTok` (on which Props/GfaText.lean rests) end alike.
* `hist_addNode`, `hist_delNode`, `hist_addLink` — the three library calls of an edit history are `Hist.applyOp` (C15 `history_eq_build`).
* `newNode_gen`, `addNodeSeqLen_gen`, `nodeVisited_gen`, `initSt_gen` — the constructors and the two slots the model derives.

Not covered here (token level): `strip().split("\t")`, `is_correct_tag`, `tag.split(":", 2)`, `int(e[4][:-1])` and the
assertions on the number of fields — they are the text model (`Model/GfaText.lean`), tied by differential testing.
-/
namespace Gaftools.TieA20
open Gaftools.Gfa Gaftools.Gen Gaftools.TieA
open Gaftools.Gen.GfaMutate (St Exc TLine ETags forE)

/-! ## generic facts about the loop combinator and the dict primitives -/

/-- a loop whose body never raises is a fold -/
theorem forE_ok {σ α ε : Type} (f : σ → α → σ) (body : σ → α → Except ε σ) (h : ∀ s x, body s x = .ok (f s x))
    (xs : List α) (s : σ) : forE xs s body = .ok (xs.foldl f s) := by
  induction xs generalizing s with
  | nil => rfl
  | cons x r ih => simp only [forE, h, List.foldl_cons, ih]

theorem foldl_St_g {α : Type} (F : Graph → α → Graph) (xs : List α) (σ : St) :
    xs.foldl (fun (σ : St) x => { σ with g := F σ.g x }) σ = { σ with g := xs.foldl F σ.g } := by
  induction xs generalizing σ with
  | nil => rfl
  | cons x r ih => simp only [List.foldl_cons, ih]

theorem map_upd_append (ns : List Node) (n : Node) (id : String) (f : Node → Node) (h : ns.any (·.id == id) = false) :
    (ns ++ [n]).map (fun m => if m.id == id then f m else m) = ns ++ [if n.id == id then f n else n] := by
  rw [List.map_append]
  congr 1
  have h' := List.any_eq_false.mp h
  calc ns.map (fun m => if m.id == id then f m else m) = ns.map (fun m => m) := by
        apply List.map_congr_left
        intro m hm
        have := h' m hm
        simp only [Bool.not_eq_true] at this
        simp [this]
    _ = ns := List.map_id' _

theorem find_append_new (ns : List Node) (n : Node) (id : String) (h : ns.any (·.id == id) = false) (hn : n.id = id) :
    (ns ++ [n]).find? (·.id == id) = some n := by
  have h' := List.any_eq_false.mp h
  rw [List.find?_append]
  have : ns.find? (·.id == id) = none := by
    rw [List.find?_eq_none]
    intro m hm
    exact h' m hm
  simp [this, hn]

theorem any_of_find_none {α : Type} {p : α → Bool} {l : List α} (h : l.find? p = none) : l.any p = false := by
  rw [List.any_eq_false]; exact fun x hx => by simpa using List.find?_eq_none.mp h x hx

theorem any_of_find_some {α : Type} {p : α → Bool} {l : List α} {x : α} (h : l.find? p = some x) : l.any p = true := by
  rw [List.any_eq_true]; exact ⟨x, List.mem_of_find?_eq_some h, List.find?_some h⟩

/-! ## `add_node` -/

/-- the exception class of an outcome of the text model -/
def excOf (e : GfaText.PyErr) : Exc := if e.cls = .assertionError then .assertionError else .valueError

theorem addNodeLoop_gen (g : Graph) (c : List (String × Int)) (m : List (String × List String)) (key : String) (hh : g.has key = false)
    (tags : List Tag) (n : Node) (hn : n.id = key) :
    forE tags ⟨{ g with nodes := g.nodes ++ [n] }, c, m⟩ (GfaMutate.addNodeLoop1 key) =
      .ok ⟨{ g with nodes := g.nodes ++ [{ n with tags := tags.foldl tagSet n.tags }] }, c, m⟩ := by
  have hany : g.nodes.any (·.id == key) = false := hh
  induction tags generalizing n with
  | nil => rfl
  | cons t r ih =>
    have hf : Graph.find { g with nodes := g.nodes ++ [n] } key = some n := find_append_new g.nodes n key hany hn
    have hm : GfaMutate.nodeMod { g with nodes := g.nodes ++ [n] } key (fun nd => { nd with tags := tagSet nd.tags ⟨t.name, t.ty, t.val⟩ }) =
        { g with nodes := g.nodes ++ [{ n with tags := tagSet n.tags t }] } := by
      simp only [GfaMutate.nodeMod, map_upd_append _ _ _ _ hany, hn, beq_self_eq_true, if_true]
    simp only [forE, GfaMutate.addNodeLoop1, GfaMutate.tagOk, Bool.not_true, Bool.false_eq_true, if_false, hf, hm]
    exact ih { n with tags := tagSet n.tags t } hn

theorem addNode_gen (σ : St) (key seq : String) (tags : List Tag) :
    GfaMutate.addNode σ key seq tags =
      if σ.g.has key then .ok σ
      else match GfaText.contigStep σ.contigs (GfaText.dictOf tags) with
        | .error e => .error (excOf e)
        | .ok c => .ok { g := Gfa.addNode σ.g ⟨key, seq, tags⟩ false, contigs := c, c2n := σ.c2n } := by
  unfold GfaMutate.addNode
  have htags : (if tags.isEmpty = true then ([] : List Tag) else tags) = tags := by
    cases tags <;> rfl
  simp only [htags]
  by_cases hh : σ.g.has key = true
  · simp only [hh, Bool.not_true, Bool.false_eq_true, if_false, if_true]
  · have hh' : σ.g.has key = false := by simpa using hh
    have hany : σ.g.nodes.any (·.id == key) = false := hh'
    have hset : GfaMutate.nodesSet σ.g key { GfaMutate.newNode key with seq := seq } =
        { σ.g with nodes := σ.g.nodes ++ [{ GfaMutate.newNode key with seq := seq }] } := by
      simp only [GfaMutate.nodesSet, hany, Bool.false_eq_true, if_false]
    simp only [hh', Bool.not_false, if_true, Bool.false_eq_true, if_false, hset]
    rw [addNodeLoop_gen σ.g σ.contigs σ.c2n key hh' tags _ rfl]
    have hG : Gfa.addNode σ.g ⟨key, seq, tags⟩ false =
        { nodes := σ.g.nodes ++ [⟨key, seq, [], [], tags.foldl tagSet []⟩], edgeTags := σ.g.edgeTags } := by
      simp [Gfa.addNode, hh']
    have hf : Graph.find { nodes := σ.g.nodes ++ [⟨key, seq, [], [], tags.foldl tagSet []⟩], edgeTags := σ.g.edgeTags } key =
        some ⟨key, seq, [], [], tags.foldl tagSet []⟩ := find_append_new _ _ key hany rfl
    rw [hG]
    simp only [GfaMutate.newNode, GfaText.dictOf]
    generalize ({ nodes := σ.g.nodes ++ [⟨key, seq, [], [], tags.foldl tagSet []⟩], edgeTags := σ.g.edgeTags } : Graph) = G at hf ⊢
    simp only [hf, GfaMutate.tagsHas, GfaMutate.tagsGet, GfaText.contigStep, GfaText.dictGet, GfaText.rankGet, GfaMutate.ctgGet]
    generalize tags.foldl tagSet [] = d
    cases h1 : d.find? (·.name == "SN") with
    | none =>
      have : d.any (·.name == "SN") = false := by
        rw [List.any_eq_false]; exact (List.find?_eq_none.mp h1)
      simp [this]
    | some sn =>
      have a1 : d.any (·.name == "SN") = true := by
        rw [List.any_eq_true]; exact ⟨sn, List.mem_of_find?_eq_some h1, by simpa using List.find?_some h1⟩
      cases h2 : d.find? (·.name == "SR") with
      | none =>
        have : d.any (·.name == "SR") = false := by
          rw [List.any_eq_false]; exact (List.find?_eq_none.mp h2)
        simp [this]
      | some sr =>
        have a2 : d.any (·.name == "SR") = true := by
          rw [List.any_eq_true]; exact ⟨sr, List.mem_of_find?_eq_some h2, by simpa using List.find?_some h2⟩
        simp only [a1, a2, Bool.and_self, if_true]
        cases h3 : TextLayer.pyInt sr.val.toList with
        | none => simp [excOf, GfaText.PyErr.cls]
        | some rank =>
          simp only
          rcases Option.eq_none_or_eq_some (σ.contigs.find? (fun x => x.fst == sn.val)) with h4 | ⟨r0, h4⟩
          · have : σ.contigs.any (·.1 == sn.val) = false := by
              rw [List.any_eq_false]; exact (List.find?_eq_none.mp h4)
            simp [h4, GfaMutate.ctgSet, this]
          · by_cases h5 : r0.2 = rank
            · simp [h4, h5]
            · simp [h4, h5, excOf, GfaText.PyErr.cls]

/-! ## `remove_node` -/

open Gaftools.Proofs.Gfa Gaftools.Proofs.Hist Gaftools.Proofs.GraphExtra in
theorem removeNode_gen (σ : St) (key : String) (h : σ.g.has key = true) :
    GfaMutate.removeNode σ key = .ok { σ with g := Gfa.removeNode σ.g key } := by
  unfold GfaMutate.removeNode
  have l1 : ∀ (side : Bool) (es : List Adj) (σ : St),
      forE es σ (fun (st : St) (e : Adj) => (.ok { st with g := removeEdge st.g key side e.1 e.2.1 e.2.2 } : Except Exc St)) =
        .ok { σ with g := delSide key side es σ.g } := by
    intro side es σ
    rw [forE_ok (fun (st : St) (e : Adj) => { st with g := removeEdge st.g key side e.1 e.2.1 e.2.2 }) _ (fun _ _ => rfl)]
    rw [foldl_St_g (fun g (e : Adj) => removeEdge g key side e.1 e.2.1 e.2.2)]
    rfl
  have e1 : GfaMutate.removeNodeLoop1 key = fun (st : St) (e : Adj) => (.ok { st with g := removeEdge st.g key false e.1 e.2.1 e.2.2 } : Except Exc St) := rfl
  have e2 : GfaMutate.removeNodeLoop2 key = fun (st : St) (e : Adj) => (.ok { st with g := removeEdge st.g key true e.1 e.2.1 e.2.2 } : Except Exc St) := rfl
  obtain ⟨v1, hv1⟩ : ∃ v, σ.g.find key = some v := by
    have := find_isSome σ.g key
    rw [h] at this
    exact Option.isSome_iff_exists.mp this
  have hadj1 : σ.g.adj key false = v1.startAdj := by simp [Graph.adj, hv1]
  have hh1 : (delSide key false v1.startAdj σ.g).has key = true := by
    rw [has_congr (ids_delSide key false v1.startAdj σ.g)]; exact h
  obtain ⟨v2, hv2⟩ : ∃ v, (delSide key false v1.startAdj σ.g).find key = some v := by
    have := find_isSome (delSide key false v1.startAdj σ.g) key
    rw [hh1] at this
    exact Option.isSome_iff_exists.mp this
  have hadj2 : (delSide key false v1.startAdj σ.g).adj key true = v2.endAdj := by simp [Graph.adj, hv2]
  have hh2 : (delSide key true v2.endAdj (delSide key false v1.startAdj σ.g)).has key = true := by
    rw [has_congr (ids_delSide key true v2.endAdj _)]; exact hh1
  simp only [hv1, e1, e2, l1, hv2, hh2, if_true, removeNode_eq, hadj1, hadj2, GfaMutate.nodesDel]

/-- `self.nodes[n_id]` raises `KeyError` for an id that is not in the graph (the model's `removeNode` is only called under
    `g.has id`, see `Hist.applyOp` and `GraphExtra.GFA.removeLonely`) -/
theorem removeNode_missing (σ : St) (key : String) (h : σ.g.has key = false) :
    GfaMutate.removeNode σ key = .error .keyError := by
  unfold GfaMutate.removeNode
  rw [(Gaftools.Proofs.GraphExtra.find_none_iff σ.g key).mpr h]

/-! ## `read_graph` -/

/-- the S records of a file in file order, and the L records in file order: the tokenised file of `Model/Gfa.lean` -/
def segsOf (lines : List TLine) : List SegLine := (lines.filter (·.first == some 'S')).map (·.seg)
def linkLinesOf (lines : List TLine) : List TLine := lines.filter (·.first == some 'L')
def linksOf (lines : List TLine) : List LinkLine := (linkLinesOf lines).map (·.link)
def fileOf (lines : List TLine) : GfaFile := ⟨segsOf lines, linksOf lines⟩

/-- one S line as the hand-written models have it: `GraphExtra.segStep` for the graph (`Gfa.addNode`) and `contig_to_nodes`,
    `GfaText.contigStep` for `contigs` when the id is new -/
def segSpec (lm : Bool) (σ : St) (s : SegLine) : Except Exc St :=
  let x := GraphExtra.segStep lm ⟨σ.g, σ.c2n⟩ s
  if σ.g.has s.id then .ok ⟨x.g, σ.contigs, x.contigToNodes⟩
  else match GfaText.contigStep σ.contigs (GfaText.dictOf s.tags) with
    | .error e => .error (excOf e)
    | .ok c => .ok ⟨x.g, c, x.contigToNodes⟩

theorem addNode_of_has (g : Graph) (s : SegLine) (lm : Bool) (h : g.has s.id = true) : Gfa.addNode g s lm = g := by
  simp [Gfa.addNode, h]

theorem find_addNode_new (g : Graph) (s : SegLine) (lm : Bool) (h : g.has s.id = false) :
    (Gfa.addNode g s lm).find s.id = some ⟨s.id, if lm then "" else s.seq, [], [], GfaText.dictOf s.tags⟩ := by
  have hany : g.nodes.any (·.id == s.id) = false := h
  simp only [Gfa.addNode, h, Bool.false_eq_true, if_false, GfaText.dictOf]
  exact find_append_new _ _ _ hany rfl

theorem addNode_eta (g : Graph) (s : SegLine) : Gfa.addNode g ⟨s.id, s.seq, s.tags⟩ false = Gfa.addNode g s false := rfl

theorem addNode_lowmem (g : Graph) (s : SegLine) : Gfa.addNode g ⟨s.id, "", s.tags⟩ false = Gfa.addNode g s true := by
  simp [Gfa.addNode]

theorem c2nAppend_eq (d : List (String × List String)) (k v : String) : GfaMutate.c2nAppend d k v = GraphExtra.ctnAppend d k v := rfl

theorem lineStep_S (lm : Bool) (σ : St) (edges : List TLine) (line : TLine) (h : line.first = some 'S') :
    GfaMutate.readGraphLoop1 lm (σ, edges) line =
      match segSpec lm σ line.seg with
      | .error e => .error e
      | .ok σ' => .ok (σ', edges) := by
  have hdec : ∀ n : Nat, decide (3 + n ≥ 3) = true := fun n => by simp
  unfold GfaMutate.readGraphLoop1
  simp only [h, beq_self_eq_true, if_true, hdec]
  cases lm <;>
  · simp only [Bool.false_eq_true, if_false, if_true]
    rw [addNode_gen]
    by_cases hh : σ.g.has line.seg.id = true
    · obtain ⟨v, hv⟩ : ∃ v, σ.g.find line.seg.id = some v := by
        have := Gaftools.Proofs.Gfa.find_isSome σ.g line.seg.id
        rw [hh] at this
        exact Option.isSome_iff_exists.mp this
      simp only [hh, if_true, hv, segSpec, GraphExtra.segStep, addNode_of_has _ _ _ hh]
      simp only [Option.bind_some, View.tagVal, GfaMutate.tagsHas, GfaMutate.tagsGet]
      rcases Option.eq_none_or_eq_some (v.tags.find? (fun x => x.name == "SN")) with h1 | ⟨sn, h1⟩
      · simp [h1, any_of_find_none h1]
      · simp [h1, any_of_find_some h1, c2nAppend_eq]
    · have hh' : σ.g.has line.seg.id = false := by simpa using hh
      simp only [hh', Bool.false_eq_true, if_false, segSpec, GraphExtra.segStep]
      cases hc : GfaText.contigStep σ.contigs (GfaText.dictOf line.seg.tags) with
      | error e => rfl
      | ok c =>
        simp only [addNode_eta, addNode_lowmem, find_addNode_new _ _ _ hh']
        simp only [Option.bind_some, View.tagVal, GfaMutate.tagsHas, GfaMutate.tagsGet]
        rcases Option.eq_none_or_eq_some ((GfaText.dictOf line.seg.tags).find? (fun x => x.name == "SN")) with h1 | ⟨sn, h1⟩
        · simp [h1, any_of_find_none h1]
        · simp [h1, any_of_find_some h1, c2nAppend_eq]

theorem lineStep_L (lm : Bool) (σ : St) (edges : List TLine) (line : TLine) (h : line.first = some 'L') :
    GfaMutate.readGraphLoop1 lm (σ, edges) line = .ok (σ, edges ++ [line]) := by
  unfold GfaMutate.readGraphLoop1
  simp [h]

theorem lineStep_other (lm : Bool) (σ : St) (edges : List TLine) (line : TLine) (hS : line.first ≠ some 'S') (hL : line.first ≠ some 'L') :
    GfaMutate.readGraphLoop1 lm (σ, edges) line = .ok (σ, edges) := by
  unfold GfaMutate.readGraphLoop1
  simp [hS, hL]

/-- the first loop: the S records go through `segSpec` in file order, the L records are collected in file order, everything
    else is skipped -/
theorem loop1_gen (lm : Bool) (lines : List TLine) (σ : St) (edges : List TLine) :
    forE lines (σ, edges) (GfaMutate.readGraphLoop1 lm) =
      match forE (segsOf lines) σ (segSpec lm) with
      | .error e => .error e
      | .ok σ' => .ok (σ', edges ++ linkLinesOf lines) := by
  induction lines generalizing σ edges with
  | nil => simp [forE, segsOf, linkLinesOf]
  | cons line rest ih =>
    by_cases hS : line.first = some 'S'
    · have hL : line.first ≠ some 'L' := by rw [hS]; decide
      have e1 : segsOf (line :: rest) = line.seg :: segsOf rest := by simp [segsOf, hS]
      have e2 : linkLinesOf (line :: rest) = linkLinesOf rest := by simp [linkLinesOf, hL]
      rw [e1, e2]
      simp only [forE, lineStep_S lm σ edges line hS]
      cases segSpec lm σ line.seg with
      | error e => rfl
      | ok σ' => exact ih σ' edges
    · by_cases hL : line.first = some 'L'
      · have e1 : segsOf (line :: rest) = segsOf rest := by simp [segsOf, hS]
        have e2 : linkLinesOf (line :: rest) = line :: linkLinesOf rest := by simp [linkLinesOf, hL]
        rw [e1, e2]
        simp only [forE, lineStep_L lm σ edges line hL]
        rw [ih σ (edges ++ [line])]
        simp
      · have e1 : segsOf (line :: rest) = segsOf rest := by simp [segsOf, hS]
        have e2 : linkLinesOf (line :: rest) = linkLinesOf rest := by simp [linkLinesOf, hL]
        rw [e1, e2]
        simp only [forE, lineStep_other lm σ edges line hS hL]
        exact ih σ edges

/-- one element of `edges`: skipped unless both endpoints exist, otherwise `Gfa.addEdge` (the `[0]` marker makes `add_edge`
    file the key also for a link without tags) -/
theorem edgeStep_gen (σ : St) (e : TLine) :
    GfaMutate.readGraphLoop2 σ e = .ok { σ with g := Gaftools.Proofs.Gfa.linkStep σ.g e.link } := by
  have hdec : ∀ n : Nat, decide (6 + n ≥ 6) = true := fun n => by simp
  unfold GfaMutate.readGraphLoop2 Gaftools.Proofs.Gfa.linkStep
  simp only [hdec, if_true]
  by_cases ha : σ.g.has e.link.a = true
  · by_cases hb : σ.g.has e.link.b = true
    · simp only [ha, hb, Bool.not_true, Bool.or_self, Bool.false_eq_true, if_false, Bool.and_self, if_true, GfaMutate.callAddEdge]
      cases ht : e.link.tags with
      | nil =>
        have : (⟨e.link.a, e.link.da, e.link.b, e.link.db, e.link.ov, []⟩ : LinkLine) = e.link := by rw [← ht]
        simp [GfaMutate.ETags.truthy, GfaMutate.ETags.enc, this]
      | cons t r =>
        have : (⟨e.link.a, e.link.da, e.link.b, e.link.db, e.link.ov, t :: r⟩ : LinkLine) = e.link := by rw [← ht]
        simp [GfaMutate.ETags.truthy, GfaMutate.ETags.enc, this]
    · simp [ha, hb]
  · simp [ha]

theorem loop2_gen (edges : List TLine) (σ : St) :
    forE edges σ GfaMutate.readGraphLoop2 = .ok { σ with g := (edges.map (·.link)).foldl Gaftools.Proofs.Gfa.linkStep σ.g } := by
  rw [forE_ok (fun (σ : St) (e : TLine) => { σ with g := Gaftools.Proofs.Gfa.linkStep σ.g e.link }) _ edgeStep_gen]
  rw [foldl_St_g (fun g (e : TLine) => Gaftools.Proofs.Gfa.linkStep g e.link), List.foldl_map]

/-- `contigs` after the S records: `GfaText.contigStep` for every record whose id is new, in file order (the first error ends the
    run) -/
def contigRun (lm : Bool) : List SegLine → Graph → List (String × Int) → Except GfaText.PyErr (List (String × Int))
  | [], _, c => .ok c
  | s :: r, g, c =>
    if g.has s.id then contigRun lm r g c
    else match GfaText.contigStep c (GfaText.dictOf s.tags) with
      | .error e => .error e
      | .ok c' => contigRun lm r (Gfa.addNode g s lm) c'

theorem segRun_gen (lm : Bool) (segs : List SegLine) (σ : St) :
    forE segs σ (segSpec lm) =
      match contigRun lm segs σ.g σ.contigs with
      | .error e => .error (excOf e)
      | .ok c =>
        .ok ⟨(segs.foldl (GraphExtra.segStep lm) ⟨σ.g, σ.c2n⟩).g, c, (segs.foldl (GraphExtra.segStep lm) ⟨σ.g, σ.c2n⟩).contigToNodes⟩ := by
  induction segs generalizing σ with
  | nil => rfl
  | cons s r ih =>
    simp only [forE, contigRun, List.foldl_cons, segSpec]
    have hxg := Gaftools.Proofs.GraphExtra.segStep_g lm ⟨σ.g, σ.c2n⟩ s
    generalize GraphExtra.segStep lm ⟨σ.g, σ.c2n⟩ s = x at hxg ⊢
    obtain ⟨xg, xc⟩ := x
    simp only at hxg
    subst hxg
    by_cases hh : σ.g.has s.id = true
    · simp only [hh, if_true]
      rw [ih]
      simp only [addNode_of_has _ _ _ hh]
    · have hh' : σ.g.has s.id = false := by simpa using hh
      simp only [hh', Bool.false_eq_true, if_false]
      cases GfaText.contigStep σ.contigs (GfaText.dictOf s.tags) with
      | error e => rfl
      | ok c =>
        simp only
        rw [ih]

/-- **`read_graph`, both loops.**  The S records are added first, in file order, whatever lies between them; then the L
    records, in file order; a link with a missing endpoint is skipped -/
theorem readGraph_gen (σ : St) (lines : List TLine) (lm : Bool) :
    GfaMutate.readGraph σ lines lm =
      match contigRun lm (segsOf lines) σ.g σ.contigs with
      | .error e => .error (excOf e)
      | .ok c =>
        let x := (segsOf lines).foldl (GraphExtra.segStep lm) ⟨σ.g, σ.c2n⟩
        .ok ⟨(linksOf lines).foldl (fun g l => if g.has l.a && g.has l.b then addEdge g l else g) x.g, c, x.contigToNodes⟩ := by
  unfold GfaMutate.readGraph
  simp only [loop1_gen, segRun_gen, List.nil_append]
  cases contigRun lm (segsOf lines) σ.g σ.contigs with
  | error e => rfl
  | ok c =>
    simp only [loop2_gen]
    rfl

/-- **`GFA(file, low_memory)`**: the graph is `Gfa.readGraph` of the tokenised file, `contig_to_nodes` that of
    `GraphExtra.readGFA`, `contigs` the run of `GfaText.contigStep`; it raises exactly when that run does, with the same class -/
theorem load_gen (lines : List TLine) (lm : Bool) :
    GfaMutate.load lines lm =
      match contigRun lm (segsOf lines) Graph.empty [] with
      | .error e => .error (excOf e)
      | .ok c => .ok ⟨Gfa.readGraph (fileOf lines) lm, c, (GraphExtra.readGFA (fileOf lines) lm).contigToNodes⟩ := by
  unfold GfaMutate.load
  rw [readGraph_gen]
  have hi : GfaMutate.initSt = ⟨Graph.empty, [], []⟩ := rfl
  simp only [hi]
  cases contigRun lm (segsOf lines) Graph.empty [] with
  | error e => rfl
  | ok c =>
    simp only [← Gaftools.Proofs.GraphExtra.readGFA_g]
    rfl

theorem load_ok (lines : List TLine) (lm : Bool) (σ : St) (h : GfaMutate.load lines lm = .ok σ) :
    σ.g = Gfa.readGraph (fileOf lines) lm ∧ (⟨σ.g, σ.c2n⟩ : GraphExtra.GFA) = GraphExtra.readGFA (fileOf lines) lm := by
  rw [load_gen] at h
  cases hc : contigRun lm (segsOf lines) Graph.empty [] with
  | error e => simp [hc] at h
  | ok c =>
    simp only [hc, Except.ok.injEq] at h
    subst h
    refine ⟨rfl, ?_⟩
    simp only [← Gaftools.Proofs.GraphExtra.readGFA_g]

/-! ## the S branch against the text model's token function `GfaText.sTok` -/

/-- the node the text model's `SState.segs` entry stands for -/
def nodeOfSeg (s : SegLine) : Node := ⟨s.id, s.seq, [], [], GfaText.dictOf s.tags⟩

/-- the object while the S records are read, and the state of `GfaText.readLoop` -/
def Rel (σ : St) (st : GfaText.SState) : Prop :=
  σ.g.nodes = st.segs.map nodeOfSeg ∧ σ.contigs = st.contigs ∧ σ.c2n = st.contigToNodes

theorem find_nodes_map (g : Graph) (segs : List SegLine) (h : g.nodes = segs.map nodeOfSeg) (key : String) :
    g.find key = (segs.find? (·.id == key)).map nodeOfSeg := by
  unfold Graph.find
  rw [h, List.find?_map]
  rfl

theorem has_nodes_map (g : Graph) (segs : List SegLine) (h : g.nodes = segs.map nodeOfSeg) (key : String) :
    g.has key = segs.any (·.id == key) := by
  unfold Graph.has
  rw [h, List.any_map]
  rfl

/-- the `contig_to_nodes` step agrees -/
theorem c2n_agree (g : Graph) (segs : List SegLine) (cs : List (String × Int)) (m : List (String × List String))
    (h : g.nodes = segs.map nodeOfSeg) (key : String) :
    GfaText.c2nStep ⟨segs, cs, m⟩ key =
      ⟨segs, cs, match (g.find key).bind (fun n => View.tagVal n.tags "SN") with
        | some c => GraphExtra.ctnAppend m c key
        | none => m⟩ := by
  rw [find_nodes_map g segs h]
  unfold GfaText.c2nStep GfaText.SState.tagsOf GfaText.dictGet View.tagVal
  simp only
  cases segs.find? (·.id == key) with
  | none => rfl
  | some s0 =>
    simp only [Option.map_some, Option.bind_some, nodeOfSeg]
    cases (GfaText.dictOf s0.tags).find? (·.name == "SN") <;> rfl

/-- **one S line**: the translated branch (through `lineStep_S`, `segSpec`) and `GfaText.sTok` end alike — both raise, with the
    same class, or both return, in related states -/
theorem segSpec_sTok (lm : Bool) (σ : St) (st : GfaText.SState) (s : SegLine) (hr : Rel σ st) :
    match segSpec lm σ s, GfaText.sTok lm st s with
    | .ok σ', .ok st' => Rel σ' st'
    | .error x, .error e => x = excOf e
    | _, _ => False := by
  obtain ⟨h1, h2, h3⟩ := hr
  obtain ⟨segs, cs, m⟩ := st
  simp only at h1 h2 h3
  have hhas := has_nodes_map σ.g segs h1 s.id
  unfold segSpec GfaText.sTok GfaText.SState.has GraphExtra.segStep
  simp only [hhas, h2, h3]
  by_cases hh : segs.any (·.id == s.id) = true
  · have hg : σ.g.has s.id = true := by rw [hhas]; exact hh
    simp only [hh, if_true, addNode_of_has _ _ _ hg, c2n_agree σ.g segs cs m h1 s.id]
    refine ⟨?_, rfl, ?_⟩
    · cases (σ.g.find s.id).bind (fun n => View.tagVal n.tags "SN") <;> exact h1
    · cases (σ.g.find s.id).bind (fun n => View.tagVal n.tags "SN") <;> rfl
  · have hh' : segs.any (·.id == s.id) = false := by simpa using hh
    have hg : σ.g.has s.id = false := by rw [hhas]; exact hh'
    simp only [hh', Bool.false_eq_true, if_false, GfaText.sNew]
    cases GfaText.contigStep cs (GfaText.dictOf s.tags) with
    | error e => rfl
    | ok c =>
      have hn : (Gfa.addNode σ.g s lm).nodes = (segs ++ [(⟨s.id, if lm then "" else s.seq, s.tags⟩ : SegLine)]).map nodeOfSeg := by
        simp [Gfa.addNode, hg, h1, nodeOfSeg, GfaText.dictOf]
      simp only [c2n_agree (Gfa.addNode σ.g s lm) _ c m hn s.id]
      refine ⟨?_, rfl, ?_⟩
      · cases ((Gfa.addNode σ.g s lm).find s.id).bind (fun n => View.tagVal n.tags "SN") <;> exact hn
      · cases ((Gfa.addNode σ.g s lm).find s.id).bind (fun n => View.tagVal n.tags "SN") <;> rfl

/-! ## the object constructors, the derived slots, the exception classes -/

theorem newNode_gen (key : String) : GfaMutate.newNode key = ⟨key, "", [], [], []⟩ := rfl

/-- `Node.seq_len` is not stored by the model (`GraphExtra.Node.isEqualTo` compares `seq.length`): what `__init__` and `add_node`
    write into the slot is the length of the sequence they store -/
theorem newNodeSeqLen_gen (key : String) : GfaMutate.newNodeSeqLen = (GfaMutate.newNode key).seq.length := rfl
theorem addNodeSeqLen_gen (key seq : String) (tags : List Tag) : GfaMutate.addNodeSeqLen key seq tags = seq.length := rfl

/-- a new node is unvisited (the flags of the searches start from `vis = []`, Props/TieA12.lean) -/
theorem nodeVisited_gen (key seq : String) (tags : List Tag) :
    GfaMutate.newNodeVisited = false ∧ GfaMutate.addNodeVisited key seq tags = false := ⟨rfl, rfl⟩

theorem initSt_gen : GfaMutate.initSt = ⟨Graph.empty, [], []⟩ := rfl

/-- `contigStep` ends in `badRank` (`int(...)`: ValueError) or `rankClash` (`assert`: AssertionError) only -/
theorem contigStep_errors (c : List (String × Int)) (d : List Tag) (e : GfaText.PyErr) (h : GfaText.contigStep c d = .error e) :
    (e = .badRank ∧ excOf e = .valueError) ∨ (e = .rankClash ∧ excOf e = .assertionError) := by
  unfold GfaText.contigStep at h
  split at h
  · split at h
    · injection h with h; subst h; exact Or.inl ⟨rfl, rfl⟩
    · split at h
      · cases h
      · split at h
        · cases h
        · injection h with h; subst h; exact Or.inr ⟨rfl, rfl⟩
  · cases h

/-! ## the three operations of an edit history (`Hist.applyOp`, C15 `history_eq_build`) -/

theorem hist_addNode (σ : St) (key : String) :
    GfaMutate.addNode σ key "" [] = .ok { σ with g := Hist.applyOp σ.g (.addNode key) } := by
  rw [addNode_gen]
  by_cases hh : σ.g.has key = true
  · simp [hh, Hist.applyOp, addNode_of_has σ.g ⟨key, "", []⟩ false hh]
  · have hh' : σ.g.has key = false := by simpa using hh
    simp [hh', Hist.applyOp, GfaText.contigStep, GfaText.dictOf, GfaText.dictGet]

theorem hist_delNode (σ : St) (key : String) (h : σ.g.has key = true) :
    GfaMutate.removeNode σ key = .ok { σ with g := Hist.applyOp σ.g (.delNode key) } := by
  rw [removeNode_gen σ key h]
  simp [Hist.applyOp, h]

theorem hist_addLink (σ : St) (e : TLine) :
    GfaMutate.readGraphLoop2 σ e = .ok { σ with g := Hist.applyOp σ.g (.addLink e.link) } := by
  rw [edgeStep_gen]
  rfl

/-! ## down to the adjacency entries of Gen/Edges.lean (`TieA5`) -/

/-- one iteration of either loop of `remove_node` removes exactly the two entries `remove_edge` was translated to -/
theorem removeStep_entries (σ : St) (key : String) (e : Adj) :
    GfaMutate.removeNodeLoop1 key σ e =
      .ok { σ with g := ⟨applyRemove σ.g.nodes key e.1 e.2.2 (removeEdgeEntries false e.2.1), σ.g.edgeTags⟩ } ∧
    GfaMutate.removeNodeLoop2 key σ e =
      .ok { σ with g := ⟨applyRemove σ.g.nodes key e.1 e.2.2 (removeEdgeEntries true e.2.1), σ.g.edgeTags⟩ } := by
  have h0 := removeEdge_gen σ.g key false e.1 e.2.1 e.2.2
  have h1 := removeEdge_gen σ.g key true e.1 e.2.1 e.2.2
  constructor
  · show Except.ok { σ with g := removeEdge σ.g key false e.1 e.2.1 e.2.2 } = _
    rw [← h0.1, ← h0.2]
  · show Except.ok { σ with g := removeEdge σ.g key true e.1 e.2.1 e.2.2 } = _
    rw [← h1.1, ← h1.2]

end Gaftools.TieA20
