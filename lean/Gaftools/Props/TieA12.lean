import Gaftools.Model.Algo
import Gaftools.Gen.Search
/-!
# Tie A for `GFA.find_component`, `GFA.all_components`, `GFA.dfs` (C15, and through it C06 and C18)

`Gen/Search.lean` is regenerated from `gaftools/gfa.py` on every run: the three functions translated statement by statement
(every `append`, `pop`, `add`, flag assignment, test, `continue` and `return` in source order; a `for` is a `foldl` of its translated
body, a `while` is `whileFuel test body fuel`).  The model (`Model/Algo.lean`) is written differently: well-founded recursions
`findCompLoop` / `dfsLoop` over three / two lists, `filter` + `reverse` for the inner `for`, one list for `dfs_out` and
`ordered_dfs_out`.  This file proves that they compute the same thing:

* `fcStep_eq`, `dfsStep_eq`: closed form of one translated iteration (no hypothesis);
* `findCompLoop_step`, `dfsLoop_step`: the model loop, unfolded once at a popped node `x ∈ Vs`, is the model loop after the
  translated iteration;
* `fcLoop_gen`, `dfsLoop_gen`: the translated `while` loop, run from any state, ends (for every large enough fuel: with an empty
  queue) in exactly the state the model recursion returns;
* `findComponent_gen`, `allComponents_gen`, `dfs_gen`: the whole translated functions (code before and after the loops, early
  returns, the flag bookkeeping across the searches of `all_components`, the reset at its end) equal `findComp`,
  `allComponentsGo … Vs vis []` / `allComponents`, `dfs`.

Hypotheses, all of them situations in which the Python raises:
* `NbClosed nb Vs` — no neighbour id outside the node dict.  `self.nodes[n].visited` (find_component) is a `KeyError` for such an
  `n`, `self[s].neighbors()` (dfs) an `AttributeError` on `None`; the model skips the node instead.
* `start ∈ Vs` for `find_component` — `self.nodes[start_node]` is a `KeyError` otherwise (`dfs` tests it itself, `all_components`
  only starts from keys of the dict).
Fuel: `whileFuel` runs at most `fuel` iterations and stops at the first state that fails the test; `∃ n, ∀ m ≥ n, … m … = r` says
that the Python loop terminates and that `r` is its result.
-/
namespace Gaftools.TieA
open Gaftools.Algo

/-- no dangling neighbour: every neighbour of a node of the graph is a node of the graph -/
def NbClosed (nb : V → List V) (Vs : List V) : Prop := ∀ a ∈ Vs, ∀ b ∈ nb a, b ∈ Vs

/-! ## `whileFuel` -/

theorem whileFuel_done {α : Type} (c : α → Bool) (b : α → α) (s : α) (h : c s = false) (m : Nat) :
    Gen.Search.whileFuel c b m s = s := by
  cases m with
  | zero => rfl
  | succ m => simp [Gen.Search.whileFuel, h]

theorem whileFuel_more {α : Type} (c : α → Bool) (b : α → α) (s r : α) (h : c s = true) (n : Nat)
    (ih : ∀ m, n ≤ m → Gen.Search.whileFuel c b m (b s) = r) : ∀ m, n + 1 ≤ m → Gen.Search.whileFuel c b m s = r := by
  intro m hm
  cases m with
  | zero => omega
  | succ m =>
    simp only [Gen.Search.whileFuel, h, if_true]
    exact ih m (by omega)

/-! ## `find_component` -/

/-- the inner `for n in neighbors: if not visited: queue.append(n)` -/
theorem fold_push (l q cc vis : List V) :
    l.foldl (fun (σ : Gen.Search.FcSt) n => if (!(σ.vis.contains n)) = true then { σ with queue := n :: σ.queue } else σ) ⟨q, cc, vis⟩
      = ⟨(l.filter (fun n => !vis.contains n)).reverse ++ q, cc, vis⟩ := by
  induction l generalizing q with
  | nil => rfl
  | cons a l ih =>
    rw [List.foldl_cons]
    by_cases h : vis.contains a = true
    · simp only [h, Bool.not_true, Bool.false_eq_true, if_false]
      rw [ih]
      have hm : a ∈ vis := by simpa using h
      simp [hm]
    · simp only [Bool.not_eq_true] at h
      simp only [h, Bool.not_false, if_true]
      rw [ih]
      have hm : a ∉ vis := by simpa using h
      simp [hm]

/-- one translated iteration of `while len(queue) > 0`, in closed form -/
theorem fcStep_eq (nb : V → List V) (x : V) (st cc vis : List V) :
    Gen.Search.fcStep nb ⟨x :: st, cc, vis⟩ =
      if cc.contains x then ⟨st, cc, vis⟩
      else ⟨((nb x).filter (fun n => !(insertSet x vis).contains n)).reverse ++ st, x :: cc, insertSet x vis⟩ := by
  unfold Gen.Search.fcStep
  by_cases h : cc.contains x = true
  · simp only [List.headD_cons, List.tail_cons, h, Bool.not_true, Bool.false_eq_true, if_false, if_true]
  · simp only [Bool.not_eq_true] at h
    simp only [List.headD_cons, List.tail_cons, h, Bool.not_false, if_true, Bool.false_eq_true, if_false]
    rw [fold_push]
    have hm : x ∉ cc := by simpa using h
    simp [insertSet, hm]

theorem fcCond_eq (q cc vis : List V) : Gen.Search.fcCond ⟨q, cc, vis⟩ = !q.isEmpty := by
  unfold Gen.Search.fcCond
  cases q <;> simp

/-- the model loop at a popped node of the graph, unfolded once -/
theorem findCompLoop_cons (nb : V → List V) (Vs : List V) (x : V) (st cc vis : List V) (hx : x ∈ Vs) :
    findCompLoop nb Vs (x :: st) cc vis =
      if cc.contains x then findCompLoop nb Vs st cc vis
      else findCompLoop nb Vs (((nb x).filter (fun n => !(insertSet x vis).contains n)).reverse ++ st) (x :: cc) (insertSet x vis) := by
  rw [findCompLoop]
  by_cases h : x ∈ cc
  · simp [h]
  · simp [h, hx, insertSet]

/-- **step**: unfolding the model loop once at `x ∈ Vs` = running the translated body once and continuing with the model loop -/
theorem findCompLoop_step (nb : V → List V) (Vs : List V) (x : V) (st cc vis : List V) (hx : x ∈ Vs) :
    findCompLoop nb Vs (x :: st) cc vis =
      findCompLoop nb Vs (Gen.Search.fcStep nb ⟨x :: st, cc, vis⟩).queue (Gen.Search.fcStep nb ⟨x :: st, cc, vis⟩).cc
        (Gen.Search.fcStep nb ⟨x :: st, cc, vis⟩).vis := by
  rw [findCompLoop_cons nb Vs x st cc vis hx, fcStep_eq]
  by_cases h : cc.contains x = true
  · simp only [h, if_true]
  · simp only [h, Bool.false_eq_true, if_false]

/-- **loop**: the translated `while len(queue) > 0` terminates, with an empty queue and the component / flags of the model -/
theorem fcLoop_gen (nb : V → List V) (Vs : List V) (hcl : NbClosed nb Vs) (st cc vis : List V) (hst : ∀ x ∈ st, x ∈ Vs) :
    ∃ n, ∀ m, n ≤ m → Gen.Search.whileFuel Gen.Search.fcCond (Gen.Search.fcStep nb) m ⟨st, cc, vis⟩
      = ⟨[], (findCompLoop nb Vs st cc vis).1, (findCompLoop nb Vs st cc vis).2⟩ := by
  induction st, cc, vis using findCompLoop.induct (nb := nb) (Vs := Vs) with
  | case1 cc vis =>
    refine ⟨0, fun m _ => ?_⟩
    rw [whileFuel_done _ _ _ (by rw [fcCond_eq]; rfl)]
    simp [findCompLoop]
  | case2 x st cc vis h ih =>
    have hx : x ∈ Vs := hst x List.mem_cons_self
    have hc : cc.contains x = true := by
      rcases h with h | h
      · simpa using h
      · exact absurd hx h
    obtain ⟨n, hn⟩ := ih (fun y hy => hst y (List.mem_cons_of_mem _ hy))
    refine ⟨n + 1, whileFuel_more _ _ _ _ (by rw [fcCond_eq]; rfl) n ?_⟩
    intro m hm
    rw [findCompLoop_cons nb Vs x st cc vis hx, fcStep_eq]
    simp only [hc, if_true]
    exact hn m hm
  | case3 x st cc vis h vis' ih =>
    have hx : x ∈ Vs := hst x List.mem_cons_self
    have hc : cc.contains x = false := by
      cases hcc : cc.contains x with
      | false => rfl
      | true => exact absurd (Or.inl (by simpa using hcc)) h
    have hv : vis' = insertSet x vis := rfl
    have hst' : ∀ y ∈ ((nb x).filter (fun n => !vis'.contains n)).reverse ++ st, y ∈ Vs := by
      intro y hy
      rcases List.mem_append.mp hy with hy | hy
      · exact hcl x hx y (List.mem_filter.mp (List.mem_reverse.mp hy)).1
      · exact hst y (List.mem_cons_of_mem _ hy)
    obtain ⟨n, hn⟩ := ih hst'
    refine ⟨n + 1, whileFuel_more _ _ _ _ (by rw [fcCond_eq]; rfl) n ?_⟩
    intro m hm
    rw [findCompLoop_cons nb Vs x st cc vis hx, fcStep_eq]
    simp only [hc, Bool.false_eq_true, if_false]
    rw [← hv]
    exact hn m hm

/-- **`find_component`**: the translated function (the code before the loop, the special case of an isolated start node, the
    loop, the return) equals `findComp`, for every large enough fuel -/
theorem findComponent_gen (nb : V → List V) (Vs : List V) (hcl : NbClosed nb Vs) (start : V) (hs : start ∈ Vs) (vis : List V) :
    ∃ n, ∀ m, n ≤ m → Gen.Search.findComponent nb m start vis = findComp nb Vs start vis := by
  obtain ⟨n, hn⟩ := fcLoop_gen nb Vs hcl [start] [] (insertSet start vis) (by intro x hx; simp at hx; subst hx; exact hs)
  refine ⟨n, fun m hm => ?_⟩
  unfold Gen.Search.findComponent findComp
  by_cases he : (nb start).isEmpty = true
  · have : (nb start).length = 0 := by simpa using he
    simp [he, this, insertSet]
  · have : ¬ (nb start).length = 0 := by simpa using he
    simp only [this, decide_false, Bool.false_eq_true, if_false, he]
    rw [hn m hm]
    rfl

/-! ## `all_components` -/

/-- the `for n in self.nodes` loop, from any position in the dict, any flags and any list of components found so far -/
theorem acFold_gen (nb : V → List V) (Vs : List V) (hcl : NbClosed nb Vs) (rest : List V) :
    ∀ (vis : List V) (acc : List (List V)), (∀ x ∈ rest, x ∈ Vs) → ∃ n, ∀ m, n ≤ m →
      (rest.foldl (fun (σ : Gen.Search.AcSt) n =>
          if (!(σ.vis.contains n)) = true then
            { connected_comp := σ.connected_comp ++ [(Gen.Search.findComponent nb m n σ.vis).1],
              vis := (Gen.Search.findComponent nb m n σ.vis).2 }
          else σ) ⟨acc, vis⟩).connected_comp
        = allComponentsGo nb Vs rest vis acc := by
  induction rest with
  | nil => intro vis acc _; exact ⟨0, fun m _ => by simp [allComponentsGo]⟩
  | cons a rest ih =>
    intro vis acc hr
    have hrest : ∀ x ∈ rest, x ∈ Vs := fun x hx => hr x (List.mem_cons_of_mem _ hx)
    by_cases hc : vis.contains a = true
    · obtain ⟨n, hn⟩ := ih vis acc hrest
      refine ⟨n, fun m hm => ?_⟩
      rw [List.foldl_cons, allComponentsGo, if_pos hc]
      simp only [hc, Bool.not_true, Bool.false_eq_true, if_false]
      exact hn m hm
    · obtain ⟨n1, hn1⟩ := findComponent_gen nb Vs hcl a (hr a List.mem_cons_self) vis
      cases heq : findComp nb Vs a vis with
      | mk c v' =>
        obtain ⟨n2, hn2⟩ := ih v' (acc ++ [c]) hrest
        refine ⟨max n1 n2, fun m hm => ?_⟩
        rw [List.foldl_cons, allComponentsGo, if_neg hc]
        simp only [heq]
        simp only [Bool.not_eq_true] at hc
        simp only [hc, Bool.not_false, if_true]
        rw [hn1 m (by omega), heq]
        exact hn2 m (by omega)

/-- **`all_components`**, entered with the flags `vis`: the returned list is `allComponentsGo` over the whole dict, and all flags
    are clear afterwards (`set_visited(False)`) -/
theorem allComponents_gen (nb : V → List V) (Vs : List V) (hcl : NbClosed nb Vs) (vis : List V) :
    ∃ n, ∀ m, n ≤ m → Gen.Search.allComponents nb m Vs vis = (allComponentsGo nb Vs Vs vis [], []) := by
  obtain ⟨n, hn⟩ := acFold_gen nb Vs hcl Vs vis [] (fun _ h => h)
  refine ⟨n, fun m hm => ?_⟩
  unfold Gen.Search.allComponents
  simp only [Prod.mk.injEq, and_true]
  exact hn m hm

/-- entered with all flags clear (a fresh graph, or after any of the functions that reset them): `allComponents` of the model -/
theorem allComponents_gen' (nb : V → List V) (Vs : List V) (hcl : NbClosed nb Vs) :
    ∃ n, ∀ m, n ≤ m → Gen.Search.allComponents nb m Vs [] = (allComponents nb Vs, []) :=
  allComponents_gen nb Vs hcl []

/-! ## `dfs` -/

/-- the inner `for neighbour in self[s].neighbors(): stack.append(neighbour)` -/
theorem fold_pushAll (l st out ord : List V) :
    l.foldl (fun (σ : Gen.Search.DfsSt) n => { σ with stack := n :: σ.stack }) ⟨st, out, ord⟩ = ⟨l.reverse ++ st, out, ord⟩ := by
  induction l generalizing st with
  | nil => rfl
  | cons a l ih => rw [List.foldl_cons, ih]; simp

/-- one translated iteration of `while stack:`, in closed form -/
theorem dfsStep_eq (nb : V → List V) (s : V) (st out ord : List V) :
    Gen.Search.dfsStep nb ⟨s :: st, out, ord⟩ =
      if out.contains s then ⟨st, out, ord⟩ else ⟨(nb s).reverse ++ st, s :: out, ord ++ [s]⟩ := by
  unfold Gen.Search.dfsStep
  by_cases h : out.contains s = true
  · simp only [List.headD_cons, List.tail_cons, h, Bool.not_true, Bool.false_eq_true, if_false, if_true]
  · simp only [Bool.not_eq_true] at h
    simp only [List.headD_cons, List.tail_cons, h, Bool.not_false, if_true, Bool.false_eq_true, if_false]
    rw [fold_pushAll]
    have hm : s ∉ out := by simpa using h
    simp [insertSet, hm]

theorem dfsCond_eq (st out ord : List V) : Gen.Search.dfsCond ⟨st, out, ord⟩ = !st.isEmpty := rfl

/-- the model loop at a popped node of the graph, unfolded once -/
theorem dfsLoop_cons (nb : V → List V) (Vs : List V) (s : V) (st out : List V) (hs : s ∈ Vs) :
    dfsLoop nb Vs (s :: st) out =
      if out.contains s then dfsLoop nb Vs st out else dfsLoop nb Vs ((nb s).reverse ++ st) (s :: out) := by
  rw [dfsLoop]
  by_cases h : s ∈ out
  · simp [h]
  · simp [h, hs]

/-- **step**: the model keeps one list `out` for the set `dfs_out` and, reversed, for `ordered_dfs_out`; unfolding the model loop
    once at `s ∈ Vs` = running the translated body once on that state and continuing with the model loop -/
theorem dfsLoop_step (nb : V → List V) (Vs : List V) (s : V) (st out : List V) (hs : s ∈ Vs) :
    (Gen.Search.dfsStep nb ⟨s :: st, out, out.reverse⟩).ordered_dfs_out = (Gen.Search.dfsStep nb ⟨s :: st, out, out.reverse⟩).dfs_out.reverse ∧
    dfsLoop nb Vs (s :: st) out =
      dfsLoop nb Vs (Gen.Search.dfsStep nb ⟨s :: st, out, out.reverse⟩).stack (Gen.Search.dfsStep nb ⟨s :: st, out, out.reverse⟩).dfs_out := by
  rw [dfsLoop_cons nb Vs s st out hs, dfsStep_eq]
  by_cases h : out.contains s = true
  · simp only [h, if_true, and_self]
  · simp only [h, Bool.false_eq_true, if_false, List.reverse_cons, and_self]

/-- **loop**: the translated `while stack:` terminates, with an empty stack, `dfs_out` = the model's list and `ordered_dfs_out` =
    its reverse -/
theorem dfsLoop_gen (nb : V → List V) (Vs : List V) (hcl : NbClosed nb Vs) (st out : List V) (hst : ∀ x ∈ st, x ∈ Vs) :
    ∃ n, ∀ m, n ≤ m → Gen.Search.whileFuel Gen.Search.dfsCond (Gen.Search.dfsStep nb) m ⟨st, out, out.reverse⟩
      = ⟨[], dfsLoop nb Vs st out, (dfsLoop nb Vs st out).reverse⟩ := by
  induction st, out using dfsLoop.induct (nb := nb) (Vs := Vs) with
  | case1 out =>
    refine ⟨0, fun m _ => ?_⟩
    rw [whileFuel_done _ _ _ (by rw [dfsCond_eq]; rfl)]
    simp [dfsLoop]
  | case2 s st out h ih =>
    have hs : s ∈ Vs := hst s List.mem_cons_self
    have hc : out.contains s = true := by
      rcases h with h | h
      · simpa using h
      · exact absurd hs h
    obtain ⟨n, hn⟩ := ih (fun y hy => hst y (List.mem_cons_of_mem _ hy))
    refine ⟨n + 1, whileFuel_more _ _ _ _ (by rw [dfsCond_eq]; rfl) n ?_⟩
    intro m hm
    rw [dfsLoop_cons nb Vs s st out hs, dfsStep_eq]
    simp only [hc, if_true]
    exact hn m hm
  | case3 s st out h ih =>
    have hs : s ∈ Vs := hst s List.mem_cons_self
    have hc : out.contains s = false := by
      cases hcc : out.contains s with
      | false => rfl
      | true => exact absurd (Or.inl (by simpa using hcc)) h
    have hst' : ∀ y ∈ (nb s).reverse ++ st, y ∈ Vs := by
      intro y hy
      rcases List.mem_append.mp hy with hy | hy
      · exact hcl s hs y (List.mem_reverse.mp hy)
      · exact hst y (List.mem_cons_of_mem _ hy)
    obtain ⟨n, hn⟩ := ih hst'
    refine ⟨n + 1, whileFuel_more _ _ _ _ (by rw [dfsCond_eq]; rfl) n ?_⟩
    intro m hm
    rw [dfsLoop_cons nb Vs s st out hs, dfsStep_eq]
    simp only [hc, Bool.false_eq_true, if_false]
    have := hn m hm
    simpa only [List.reverse_cons] using this

/-- **`dfs`**: the translated function (three early returns, initial state, loop, return of `ordered_dfs_out`) equals `dfs` of the
    model, for every large enough fuel -/
theorem dfs_gen (nb : V → List V) (Vs : List V) (hcl : NbClosed nb Vs) (start : V) :
    ∃ n, ∀ m, n ≤ m → Gen.Search.dfs nb m Vs start = Algo.dfs nb Vs start := by
  by_cases hs : Vs.contains start = true
  · obtain ⟨n, hn⟩ := dfsLoop_gen nb Vs hcl [start] [] (by intro x hx; simp at hx; subst hx; simpa using hs)
    refine ⟨n, fun m hm => ?_⟩
    unfold Gen.Search.dfs Algo.dfs
    simp only [hs, Bool.not_true, Bool.false_eq_true, if_false]
    by_cases h1 : Vs.length = 1
    · have : Vs = [Vs.getD 0 ""] := by
        match Vs, h1 with
        | [a], _ => rfl
      simp only [h1, decide_true, if_true, beq_self_eq_true]
      exact this.symm
    · have h1' : (Vs.length == 1) = false := by simpa using h1
      simp only [h1, decide_false, Bool.false_eq_true, if_false, h1']
      by_cases he : (nb start).isEmpty = true
      · have : (nb start).length = 0 := by simpa using he
        simp [he, this]
      · have : ¬ (nb start).length = 0 := by simpa using he
        simp only [this, decide_false, Bool.false_eq_true, if_false, he]
        have h := hn m hm
        simp only [List.reverse_nil] at h
        rw [h]
  · refine ⟨0, fun m _ => ?_⟩
    unfold Gen.Search.dfs Algo.dfs
    have hm : start ∉ Vs := by simpa using hs
    simp [hm]

end Gaftools.TieA
