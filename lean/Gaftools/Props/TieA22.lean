import Gaftools.Model.Phase
import Gaftools.Model.ConvText
import Gaftools.Gen.PhaseTsv
/-!
# Tie A for the haplotag-TSV loop of `phase.add_phase_info` (C20), `utils.reverse_cigar` (C02) and `utils.is_file_gzipped`

`Gen/PhaseTsv.lean` is regenerated from `gaftools/cli/phase.py` and `gaftools/utils.py` on every run:
* `nodeInit`: the constructor of class `Node` (which parameter is stored in which attribute);
* `tsvBody` / `tsvLoop`: `add_phase_info` from `phase = {}` to the end of `for line in tsv_file:`, statement by statement
  (`line.rstrip().split("\t")`, the membership test, the three columns handed to `Node(…)`, the dictionary assignment; every
  subscript that can raise an `IndexError` is a `match … | none => none`);
* `revCigarBody` / `reverseCigar`: `reverse_cigar` statement by statement (`range(len(all_cigars), 0, -2)`, the two subscripts with
  Python's negative-index rule, the concatenation);
* `isFileGzipped`: the comparison of the first bytes with the magic number.

The theorems say that the hand-written model — `Phase.parseTsvLine`, `tsvStep`, `buildPhase`, `lookupPhase`, `phaseFile` (C20) and
`ConvText.reverseCigarStr` (C02) — computes exactly what these generated definitions prescribe.

What is assumed, and why:
* `tsvBody_gen`, `tsvLoop_gen`, `phaseFile_gen`: the line(s) have at least four columns (the model's `parseTsvLine` is `some`); on a
  shorter line the source raises an `IndexError` — unless its first column repeats an earlier read, in which case the source skips the
  line and the model reports a crash (`tsvBody_short`, `short_duplicate_line`: a FINDING, the model is stricter than the source).
  `tsvLoop_sound` needs no hypothesis: whenever the source finishes the loop, its dictionary is `buildPhase` of the well-formed lines.
* `reverseCigar_gen`: the CIGAR has an even number of digit / non-digit runs (what `reverseCigarStr` is declared for; with an odd
  number the source's last iteration reads `all_cigars[-1]`, i.e. wraps around: `reverseCigar_odd_example`).
* gzip detection has no counterpart in the model (C17 treats the codecs as foreign code and is parametric in which reader is used):
  `isFileGzipped_iff` only pins the generated test to the two magic bytes `1f 8b`.
-/
namespace Gaftools.TieA
open Gaftools.Gaf Gaftools.Phase Gaftools.Gen.PhaseTsv

/-! ## the TSV loop -/

/-- a model entry as the dictionary item the Python holds: key = read name, value = `Node(chr_name, haplotype, phase_set)` -/
def encEntry (e : TsvEntry) : Str × Node := (e.read, { chr_name := e.chr, haplotype := e.hap, phase_set := e.pset })

theorem dHas_enc (acc : List TsvEntry) (k : Str) : dHas (acc.map encEntry) k = acc.any (·.read == k) := by
  simp [dHas, List.any_map, encEntry, Function.comp_def]

theorem dGet_enc (acc : List TsvEntry) (k : Str) :
    dGet (acc.map encEntry) k = (lookupPhase acc k).map (fun e => (encEntry e).2) := by
  unfold dGet lookupPhase
  induction acc with
  | nil => rfl
  | cons a t ih =>
    simp only [List.map_cons, List.find?_cons]
    by_cases h : (a.read == k) = true
    · simp [encEntry, h]
    · have h' : ((encEntry a).1 == k) = false := by simpa [encEntry] using h
      simp only [h', Bool.not_eq_true] at h ⊢
      simp only [h]
      exact ih

/-- one iteration of the loop on a line with at least four columns: the source's dictionary after the iteration is the model's
    `tsvStep` (first entry of a read wins; columns 0, 1, 2, 3 are read, haplotype, phase set, chromosome) -/
theorem tsvBody_gen (acc : List TsvEntry) (line : Str) (e : TsvEntry) (h : parseTsvLine line = some e) :
    tsvBody (acc.map encEntry) line = some ((tsvStep acc e).map encEntry) := by
  unfold parseTsvLine splitTab at h
  unfold tsvBody tsvStep
  simp only [dHas_enc]
  cases hs : (rstrip line).splitOn '\t' with
  | nil => simp [hs] at h
  | cons e0 t0 =>
    cases t0 with
    | nil => simp [hs] at h
    | cons e1 t1 =>
      cases t1 with
      | nil => simp [hs] at h
      | cons e2 t2 =>
        cases t2 with
        | nil => simp [hs] at h
        | cons e3 t3 =>
          simp only [hs, Option.some.injEq] at h
          subst h
          by_cases hk : (acc.any (·.read == e0)) = true
          · simp [hk]
          · simp [hk, dSet, dHas_enc, nodeInit, encEntry]

/-- what the source does with a line the model does not parse (fewer than four columns): the `IndexError` of `line_elements[3]` is
    raised only when the first column is a read not seen before — a short line whose first column repeats an earlier read is skipped -/
theorem tsvBody_short (acc : List TsvEntry) (line : Str) (h : parseTsvLine line = none) :
    tsvBody (acc.map encEntry) line =
      match splitTab (rstrip line) with
      | k :: _ => if acc.any (·.read == k) then some (acc.map encEntry) else none
      | [] => none := by
  unfold parseTsvLine at h
  unfold splitTab at h ⊢
  unfold tsvBody
  simp only [dHas_enc]
  cases hs : (rstrip line).splitOn '\t' with
  | nil => simp
  | cons e0 t0 =>
    by_cases hk : (acc.any (·.read == e0)) = true
    · simp [hk]
    · cases t0 with
      | nil => simp [hk]
      | cons e1 t1 =>
        cases t1 with
        | nil => simp [hk]
        | cons e2 t2 =>
          cases t2 with
          | nil => simp [hk]
          | cons e3 t3 => simp [hs] at h

theorem tsvFold_gen (lines : List Str) (es acc : List TsvEntry) (h : lines.mapM parseTsvLine = some es) :
    lines.foldlM tsvBody (acc.map encEntry) = some ((es.foldl tsvStep acc).map encEntry) := by
  induction lines generalizing es acc with
  | nil =>
    simp at h
    subst h
    rfl
  | cons l ls ih =>
    rw [List.mapM_cons] at h
    cases hp : parseTsvLine l with
    | none => simp [hp] at h
    | some e =>
      cases hr : ls.mapM parseTsvLine with
      | none => simp [hp, hr] at h
      | some es' =>
        simp [hp, hr] at h
        subst h
        rw [List.foldlM_cons, tsvBody_gen acc l e hp]
        simpa using ih es' (tsvStep acc e) hr

/-- the function up to the end of the loop is the monadic fold of the loop body from the empty dictionary -/
theorem tsvLoop_eq (lines : List Str) : tsvLoop lines = lines.foldlM tsvBody [] := by
  unfold tsvLoop
  cases h : lines.foldlM tsvBody [] <;> simp [h]

/-- the whole loop: whenever every line has four columns (the model's `mapM parseTsvLine` succeeds), the dictionary the source
    builds is the model's `buildPhase`, entry for entry and in the same order -/
theorem tsvLoop_gen (lines : List Str) (es : List TsvEntry) (h : lines.mapM parseTsvLine = some es) :
    tsvLoop lines = some ((buildPhase es).map encEntry) := by
  rw [tsvLoop_eq]
  unfold buildPhase
  exact tsvFold_gen lines es [] h

theorem tsvFold_sound (lines : List Str) (acc : List TsvEntry) (d : Dict)
    (h : lines.foldlM tsvBody (acc.map encEntry) = some d) :
    d = (((lines.filterMap parseTsvLine).foldl tsvStep acc).map encEntry) := by
  induction lines generalizing acc with
  | nil => simpa using h.symm
  | cons l ls ih =>
    rw [List.foldlM_cons] at h
    cases hp : parseTsvLine l with
    | some e =>
      rw [tsvBody_gen acc l e hp] at h
      simp only [List.filterMap_cons, hp, List.foldl_cons]
      exact ih _ (by simpa using h)
    | none =>
      rw [tsvBody_short acc l hp] at h
      simp only [List.filterMap_cons, hp]
      split at h
      · split at h
        · exact ih _ (by simpa using h)
        · simp at h
      · simp at h

/-- the converse direction, without any hypothesis on the lines: whenever the source finishes the loop, its dictionary is the model's
    `buildPhase` of the lines that have four columns (the others were skipped, see `tsvBody_short`) -/
theorem tsvLoop_sound (lines : List Str) (d : Dict) (h : tsvLoop lines = some d) :
    d = (buildPhase (lines.filterMap parseTsvLine)).map encEntry := by
  rw [tsvLoop_eq] at h
  unfold buildPhase
  exact tsvFold_sound lines [] d h

/-- `add_phase_info` as a whole: when the model produces an output, the source's TSV loop ends with the dictionary the model looked
    its reads up in, and the output is the per-record text (tied in `TieA7`) for that dictionary -/
theorem phaseFile_gen (tsvLines gafLines out : List Str) (h : phaseFile tsvLines gafLines = some out) :
    ∃ phase : List TsvEntry, tsvLoop tsvLines = some (phase.map encEntry) ∧
      (∀ q, dHas (phase.map encEntry) q = (lookupPhase phase q).isSome) ∧
      (gafLines.mapM parseLine).map (fun recs => recs.map (fun r => joinTab (phaseFields phase r))) = some out := by
  unfold phaseFile at h
  cases hes : tsvLines.mapM parseTsvLine with
  | none => simp [hes] at h
  | some es =>
    refine ⟨buildPhase es, tsvLoop_gen tsvLines es hes, ?_, ?_⟩
    · intro q
      rw [dHas_enc]
      unfold lookupPhase
      induction buildPhase es with
      | nil => rfl
      | cons a t ih =>
        simp only [List.any_cons, List.find?_cons]
        cases (a.read == q) <;> simp [ih]
    · cases hr : gafLines.mapM parseLine with
      | none => simp [hes, hr] at h
      | some recs => simpa [hes, hr] using h

/-- FINDING (model stricter than the source): a short line whose first column repeats an earlier read. The source skips it
    (`line_elements[3]` is never evaluated); the model's `phaseFile` reports a crash -/
theorem short_duplicate_line :
    tsvLoop ["r1\tH1\t5\tchr1\n".toList, "r1\n".toList]
      = some [encEntry ⟨"r1".toList, "H1".toList, "5".toList, "chr1".toList⟩] ∧
    phaseFile ["r1\tH1\t5\tchr1\n".toList, "r1\n".toList] [] = none := by
  decide

/-! ## `utils.reverse_cigar` -/

open Gaftools.Stat Gaftools.ConvText

theorem pyRange_down (k : Nat) :
    pyRange ((2 * k : Nat) : Int) 0 (-2) = (List.range k).map (fun (i : Nat) => ((2 * k : Nat) : Int) + (-2) * (i : Int)) := by
  unfold pyRange
  have h1 : ¬ ((-2 : Int) > 0) := by omega
  have h2 : (-2 : Int) < 0 := by omega
  have hn : (-(-2 : Int)) = 2 := by omega
  have h3 : ((((2 * k : Nat) : Int) - 0 + 2 - 1) / 2).toNat = k := by omega
  simp only [h1, h2, if_false, if_true, hn, h3]

theorem pyIdx_cons2 {α : Type} (a b : α) (l : List α) (j : Int) (h : j ≥ 0) : pyIdx (a :: b :: l) (j + 2) = pyIdx l j := by
  unfold pyIdx
  have h1 : j + 2 ≥ 0 := by omega
  have h2 : (j + 2).toNat = j.toNat + 1 + 1 := by omega
  simp only [h, h1, if_true, h2, List.getElem?_cons_succ]

theorem foldlM_map_congr {β : Type} (xs : List Nat) (f f' : Nat → Int) (g g' : β → Int → Option β)
    (h : ∀ i ∈ xs, ∀ acc, g acc (f i) = g' acc (f' i)) (init : β) :
    (xs.map f).foldlM g init = (xs.map f').foldlM g' init := by
  induction xs generalizing init with
  | nil => rfl
  | cons x xs ih =>
    simp only [List.map_cons, List.foldlM_cons]
    rw [h x List.mem_cons_self init]
    cases g' init (f' x) with
    | none => rfl
    | some v => exact ih (fun i hi => h i (List.mem_cons_of_mem _ hi)) v

theorem revFold (k : Nat) : ∀ (l : List Str) (init : Str), l.length = 2 * k →
    ((List.range k).map (fun (i : Nat) => ((2 * k : Nat) : Int) + (-2) * (i : Int))).foldlM (revCigarBody l) init
      = some (init ++ ((cigarPairs l).reverse.flatMap (fun p => p.1 ++ p.2))) := by
  induction k with
  | zero =>
    intro l init hl
    have : l = [] := List.eq_nil_of_length_eq_zero (by omega)
    subst this
    simp [cigarPairs]
  | succ k ih =>
    intro l init hl
    match l, hl with
    | a :: b :: l', hl =>
      have hl' : l'.length = 2 * k := by simp only [List.length_cons] at hl; omega
      rw [List.range_succ, List.map_append, List.foldlM_append]
      have hc : ((List.range k).map (fun (i : Nat) => ((2 * (k + 1) : Nat) : Int) + (-2) * (i : Int))).foldlM
            (revCigarBody (a :: b :: l')) init
          = ((List.range k).map (fun (i : Nat) => ((2 * k : Nat) : Int) + (-2) * (i : Int))).foldlM (revCigarBody l') init := by
        apply foldlM_map_congr
        intro i hi acc
        have hi' : i < k := List.mem_range.mp hi
        unfold revCigarBody
        have e1 : ((2 * (k + 1) : Nat) : Int) + (-2) * (i : Int) - 2 = (((2 * k : Nat) : Int) + (-2) * (i : Int) - 2) + 2 := by omega
        have e2 : ((2 * (k + 1) : Nat) : Int) + (-2) * (i : Int) - 1 = (((2 * k : Nat) : Int) + (-2) * (i : Int) - 1) + 2 := by omega
        rw [e1, e2, pyIdx_cons2 a b l' _ (by omega), pyIdx_cons2 a b l' _ (by omega)]
      rw [hc, ih l' init hl']
      have e5 : ((2 * (k + 1) : Nat) : Int) + (-2) * (k : Int) = 2 := by omega
      have e6 : ∀ acc : Str, revCigarBody (a :: b :: l') acc 2 = some (acc ++ (a ++ b)) := by
        intro acc
        simp [revCigarBody, pyIdx]
      simp only [List.map_cons, List.map_nil]
      rw [e5]
      simp [e6, cigarPairs]

/-- `reverse_cigar` is the model's `reverseCigarStr` on every CIGAR with an even number of digit / non-digit runs (what the model is
    declared for; with an odd number the last iteration of the source reads `all_cigars[-1]`, see `reverseCigar_odd_example`) -/
theorem reverseCigar_gen (cg : Str) (h : (groupDigits cg).length % 2 = 0) :
    reverseCigar cg = some (reverseCigarStr cg) := by
  obtain ⟨k, hk⟩ : ∃ k, (groupDigits cg).length = 2 * k := ⟨(groupDigits cg).length / 2, by omega⟩
  unfold reverseCigar reverseCigarStr
  simp only [hk, pyRange_down, revFold k (groupDigits cg) [] hk, List.nil_append]

/-- outside that domain the two differ: three runs, the source wraps around to the last run (Python prints `=113`) -/
theorem reverseCigar_odd_example :
    reverseCigar "3=1".toList = some "=113".toList ∧ reverseCigarStr "3=1".toList = "3=".toList := by
  decide

/-! ## `utils.is_file_gzipped` (not modelled: the codecs are foreign code in C17; the translation pins the magic number) -/

theorem isFileGzipped_iff (bytes : List UInt8) :
    isFileGzipped bytes = true ↔ ∃ rest, bytes = 0x1f :: 0x8b :: rest := by
  unfold isFileGzipped
  match bytes with
  | [] => simp
  | [a] => simp
  | a :: b :: t => simp

end Gaftools.TieA
