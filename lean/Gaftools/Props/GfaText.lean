import Gaftools.Proofs.GfaTextLemmas
import Gaftools.Props.C07
/-!
# C07, text level — reading and writing GFA *text*

`Model/GfaText.lean` is the model of `GFA.read_graph` / `add_node` / `utils.is_correct_tag` / `add_edge` from the characters of the
file on, and of the text `write_gfa` writes.  The theorems:

* `parse_render`, `parse_render_full` — reading what was written gives the tokens back, up to what the reader normalises;
* `parse_ignores_other_records`, `parse_line_order`, `parse_crlf`, `parse_no_final_newline` — what the reader does not look at;
* `read_write_read_text` — the text-level form of `C07.read_write_read`;
* `parse_short_S`, `parse_bad_tag`, `parse_short_L`, `parse_bad_overlap`, `parse_bad_orient`, `parse_dangling_link` — which error
  wins (S-line errors before every L-line error; among the L lines the first offending one).

The vocabulary of the statements (`Proofs/GfaTextLemmas.lean`): `FieldOk` (no tab, no "\n", no "\r"), `EndOk` (last character
exists and is no white space of `str.strip()`), `tagValid`, `SegSafe`, `LinkSafe`, `TextSafe`, `RanksOk`, `blank`, `unlines`,
`NoBreak`, `crlf`.
-/
namespace Gaftools.C07.Text
open Gaftools.Gfa Gaftools.GfaText Gaftools.Proofs.GfaText Gaftools.Proofs.Gfa Gaftools.Proofs.Write
open Gaftools.TextLayer (pyIsSpace pyInt)

/-! ## the loader depends on the text only through its S records and its L records -/

theorem parseGfaFull_congr {s₁ s₂ : String} (lm : Bool) (h : recs (fileLines s₁.toList) = recs (fileLines s₂.toList)) :
    parseGfaFull s₁ lm = parseGfaFull s₂ lm := by
  unfold parseGfaFull
  rw [parseLines_eq, parseLines_eq]
  simp only [recs, Prod.mk.injEq] at h
  rw [h.1, h.2]

theorem parseGfaText_congr {s₁ s₂ : String} (lm : Bool) (h : recs (fileLines s₁.toList) = recs (fileLines s₂.toList)) :
    parseGfaText s₁ lm = parseGfaText s₂ lm := by
  unfold parseGfaText
  rw [parseGfaFull_congr lm h]

/-! ## reading what was written -/

/-- **the general form**, without any assumption on ids or ranks: reading the text written for a text-safe token file is running
    the S branch on the S tokens (`segsRun`: a repeated id is dropped, the `SN`/`SR` bookkeeping may raise) and keeping the links
    whose endpoints both exist, with their overlaps and tags -/
theorem parse_render_full (f : GfaFile) (lm : Bool) (hs : TextSafe f) :
    parseGfaFull (renderGfaText f) lm =
      match segsRun lm f.segs SState.init with
      | .error e => .error e
      | .ok st => .ok ⟨st.segs, (stored st.has f.links).map toZ, st.contigs, st.contigToNodes⟩ := by
  unfold parseGfaFull renderGfaText
  rw [String.toList_ofList]
  exact parseLines_render hs lm

/-- **parse ∘ render**: for a token file whose fields are text-safe (`TextSafe`: no tab / line break in a field, valid S tags,
    no line ending in white space, overlaps of at most 4300 digits), with unique segment ids and consistent ranks, reading the
    written text succeeds and gives the file back up to exactly two normalisations: under `low_memory` the sequences are dropped
    (`blank`), and the links with an unknown endpoint are not stored (`declared`).  Everything else is kept verbatim: ids and
    sequences with blanks or other Unicode white space inside or at their ends, `*` (which is *not* turned into an empty
    sequence), lower-case bases, the tags in line order (repeated names included), link tags of any form. -/
theorem parse_render (f : GfaFile) (lm : Bool) (hs : TextSafe f) (hu : (f.segs.map (·.id)).Nodup) (hr : RanksOk f.segs) :
    parseGfaText (renderGfaText f) lm = .ok ⟨f.segs.map (blank lm), Gaftools.C07.declared f⟩ := by
  obtain ⟨st, hst, hsegs⟩ := segsRun_ok_init lm f.segs hr hu
  unfold parseGfaText
  rw [parse_render_full f lm hs, hst]
  have hhas : ∀ id, st.has id = f.segs.any (·.id == id) := by
    intro id
    simp only [SState.has, hsegs, List.any_map]
    rfl
  simp only [Parsed.toFile, linksToNat_map_toZ, hsegs]
  congr 2
  simp only [stored, Gaftools.C07.declared, hhas]

/-- under `low_memory = false` and when every link has both endpoints: the file itself -/
theorem parse_render_exact (f : GfaFile) (hs : TextSafe f) (hu : (f.segs.map (·.id)).Nodup) (hr : RanksOk f.segs)
    (hl : ∀ l ∈ f.links, f.segs.any (·.id == l.a) = true ∧ f.segs.any (·.id == l.b) = true) :
    parseGfaText (renderGfaText f) = .ok f := by
  rw [parse_render f false hs hu hr]
  have h1 : f.segs.map (blank false) = f.segs := by
    have : blank false = id := by funext s; cases s; simp [blank]
    rw [this, List.map_id]
  have h2 : Gaftools.C07.declared f = f.links := by
    unfold Gaftools.C07.declared
    rw [List.filter_eq_self]
    intro l hl'
    simp [hl l hl']
  rw [h1, h2]

/-! non-vacuity: ids with blanks inside and at their ends, a sequence `*`, lower case, a Z value with ':' and blanks inside, an
    empty H value, repeated tag names, a link with an arbitrary string as its tag, a dangling link, a self link -/
def exFile : GfaFile :=
  { segs := [⟨"a 1", "acgt", [⟨"SN", "Z", "chr 1:x"⟩, ⟨"SR", "i", "0"⟩, ⟨"SN", "Z", "chr1"⟩]⟩, ⟨" b ", "*", []⟩,
             ⟨"", "N", [⟨"zz", "H", ""⟩, ⟨"ab", "B", "c,1,.5e3"⟩, ⟨"x1", "A", ":"⟩, ⟨"ff", "f", "-1.5E+3"⟩]⟩],
    links := [⟨"a 1", true, " b ", false, 30, ["not a tag", "", "x"]⟩, ⟨"", false, "", false, 0, []⟩, ⟨"a 1", true, "ghost", true, 0, []⟩] }

#guard parseGfaText (renderGfaText exFile) == .ok ⟨exFile.segs, exFile.links.take 2⟩
#guard parseGfaText (renderGfaText exFile) true == .ok ⟨exFile.segs.map (blank true), exFile.links.take 2⟩
#guard (exFile.segs.all (fun s => s.tags.all tagValid))
-- what each hypothesis excludes (the conclusion fails):
-- an empty sequence without tags: the line ends with a tab, `strip()` removes it, two columns are left
#guard parseGfaText (renderGfaText ⟨[⟨"a", "", []⟩], []⟩) == .error .shortS
-- a last tag of type Z ending with a blank loses the blank
#guard parseGfaText (renderGfaText ⟨[⟨"a", "*", [⟨"ab", "Z", "x "⟩]⟩], []⟩) == .ok ⟨[⟨"a", "*", [⟨"ab", "Z", "x"⟩]⟩], []⟩
-- a sequence ending with U+0085 (white space for `strip()`, no line end for the file iterator) loses it
#guard parseGfaText (renderGfaText ⟨[⟨"a", "A\u0085", []⟩], []⟩) == .ok ⟨[⟨"a", "A", []⟩], []⟩
-- the same character inside, or at the end of a field that is not the last, is kept
#guard parseGfaText (renderGfaText ⟨[⟨"a\u0085", "A\u0085C", []⟩], []⟩) == .ok ⟨[⟨"a\u0085", "A\u0085C", []⟩], []⟩
-- a repeated id: the second line is dropped
#guard parseGfaText (renderGfaText ⟨[⟨"a", "A", []⟩, ⟨"a", "C", []⟩], []⟩) == .ok ⟨[⟨"a", "A", []⟩], []⟩
-- inconsistent ranks
#guard parseGfaText (renderGfaText ⟨[⟨"a", "A", [⟨"SN", "Z", "c"⟩, ⟨"SR", "i", "0"⟩]⟩, ⟨"b", "A", [⟨"SN", "Z", "c"⟩, ⟨"SR", "i", "1"⟩]⟩], []⟩) == .error .rankClash

/-! ## what the reader does not look at -/

/-- a line that starts neither with 'S' nor with 'L' (header, path, walk, comment, empty line, a line that starts with a blank …),
    inserted after any number of complete lines, changes nothing -/
theorem parse_ignores_other_records (pre other post : String) (lm : Bool)
    (hpre : pre = "" ∨ ∃ p, pre.toList = p ++ ['\n'])
    (ho : NoBreak other.toList) (hS : startsWith 'S' other.toList = false) (hL : startsWith 'L' other.toList = false) :
    parseGfaText (pre ++ other ++ "\n" ++ post) lm = parseGfaText (pre ++ post) lm := by
  apply parseGfaText_congr
  have hline : recs (fileLines (other.toList ++ ['\n'])) = ([], []) := by
    have := fileLines_unlines [other.toList] (by intro l hl; simp only [List.mem_singleton] at hl; subst hl; exact ho)
    simp only [unlines, List.flatMap_cons, List.flatMap_nil, List.append_nil, List.map_cons, List.map_nil] at this
    rw [this]
    by_cases he : other.toList = []
    · rw [he]; exact recs_nl_line []
    · exact recs_cons_other _ _ (by rw [startsWith_append _ _ _ he]; exact hS) (by rw [startsWith_append _ _ _ he]; exact hL)
  have hmid : recs (fileLines (other.toList ++ '\n' :: post.toList)) = recs (fileLines post.toList) := by
    rw [fileLines_append_nl, recs_append, hline]
    simp [recs]
  simp only [String.toList_append, show ("\n" : String).toList = ['\n'] from rfl]
  rcases hpre with h | ⟨p, hp⟩
  · subst h
    simpa using hmid
  · rw [hp]
    have e1 : p ++ ['\n'] ++ other.toList ++ ['\n'] ++ post.toList = p ++ '\n' :: (other.toList ++ '\n' :: post.toList) := by simp
    have e2 : p ++ ['\n'] ++ post.toList = p ++ '\n' :: post.toList := by simp
    rw [e1, e2, fileLines_append_nl p (other.toList ++ '\n' :: post.toList), fileLines_append_nl p post.toList,
      recs_append, recs_append, hmid]

/-- **line order**: two texts made of complete lines whose S lines are the same in the same order and whose L lines are the same
    in the same order load identically — however the S, L and other lines are interleaved (the L lines are processed after all S
    lines), and whatever the other lines are -/
theorem parse_line_order (ls₁ ls₂ : List (List Char)) (lm : Bool) (h₁ : ∀ l ∈ ls₁, NoBreak l) (h₂ : ∀ l ∈ ls₂, NoBreak l)
    (hS : ls₁.filter (startsWith 'S') = ls₂.filter (startsWith 'S'))
    (hL : ls₁.filter (startsWith 'L') = ls₂.filter (startsWith 'L')) :
    parseGfaText (String.ofList (unlines ls₁)) lm = parseGfaText (String.ofList (unlines ls₂)) lm := by
  apply parseGfaText_congr
  rw [String.toList_ofList, String.toList_ofList, recs_fileLines_unlines ls₁ h₁, recs_fileLines_unlines ls₂ h₂]
  have e : isLLine = startsWith 'L' := funext isLLine_eq
  simp only [recs, sRecs, lRecs, e, hS, hL]

/-- in particular: all S lines first, then all L lines (the layout `write_gfa` produces) -/
theorem parse_S_first (ls : List (List Char)) (lm : Bool) (h : ∀ l ∈ ls, NoBreak l) :
    parseGfaText (String.ofList (unlines ls)) lm =
      parseGfaText (String.ofList (unlines (ls.filter (startsWith 'S') ++ ls.filter (startsWith 'L')))) lm := by
  apply parse_line_order _ _ lm h
  · intro l hl
    rcases List.mem_append.1 hl with hl | hl <;> exact h l (List.mem_filter.1 hl).1
  · have hSL : ∀ l : List Char, startsWith 'L' l = true → startsWith 'S' l = false := by
      intro l hl
      have := isLLine_eq l
      simp only [isLLine, hl, Bool.and_true] at this
      simpa using this
    rw [List.filter_append, List.filter_filter, List.filter_filter]
    have e1 : List.filter (fun a => startsWith 'S' a && startsWith 'S' a) ls = List.filter (startsWith 'S') ls := by
      congr 1; funext a; simp
    have e2 : List.filter (fun a => startsWith 'S' a && startsWith 'L' a) ls = [] := by
      rw [List.filter_eq_nil_iff]
      intro a _ ha
      simp only [Bool.and_eq_true] at ha
      rw [hSL a ha.2] at ha
      exact absurd ha.1 (by simp)
    rw [e1, e2, List.append_nil]
  · have hSL : ∀ l : List Char, startsWith 'L' l = true → startsWith 'S' l = false := by
      intro l hl
      have := isLLine_eq l
      simp only [isLLine, hl, Bool.and_true] at this
      simpa using this
    rw [List.filter_append, List.filter_filter, List.filter_filter]
    have e1 : List.filter (fun a => startsWith 'L' a && startsWith 'L' a) ls = List.filter (startsWith 'L') ls := by
      congr 1; funext a; simp
    have e2 : List.filter (fun a => startsWith 'L' a && startsWith 'S' a) ls = [] := by
      rw [List.filter_eq_nil_iff]
      intro a _ ha
      simp only [Bool.and_eq_true] at ha
      rw [hSL a ha.1] at ha
      exact absurd ha.2 (by simp)
    rw [e1, e2, List.nil_append]

/-- **CRLF**: the same text with every "\n" written as "\r\n" loads identically — for every text, also one that already holds
    "\r" or "\r\n" (there "\r\r\n" reads as one more empty line, which is ignored) -/
theorem parse_crlf (s : String) (lm : Bool) : parseGfaText (String.ofList (crlf s.toList)) lm = parseGfaText s lm := by
  apply parseGfaText_congr
  rw [String.toList_ofList]
  exact recs_fileLines_crlf s.toList

/-- **final newline**: a text and the same text with one more "\n" load identically — for every text (after a last line without
    line end the "\n" completes the line; after "\r" it completes the line end; after "\n" it adds an empty line) -/
theorem parse_no_final_newline (s : String) (lm : Bool) : parseGfaText (s ++ "\n") lm = parseGfaText s lm := by
  apply parseGfaText_congr
  rw [String.toList_append]
  exact recs_fileLines_snoc_nl s.toList

/-! non-vacuity -/
def exText : String := "H\tVN:Z:1.0\nL\ta\t+\tb\t-\t3M\tx\nS\ta\tACGT\tSN:Z:c\tSR:i:0\n# comment\nS\tb\t*\nL\tb\t+\tb\t+\t0M\n"
#guard parseGfaText exText == .ok ⟨[⟨"a", "ACGT", [⟨"SN", "Z", "c"⟩, ⟨"SR", "i", "0"⟩]⟩, ⟨"b", "*", []⟩],
  [⟨"a", true, "b", false, 3, ["x"]⟩, ⟨"b", true, "b", true, 0, []⟩]⟩
#guard parseGfaText (String.ofList (crlf exText.toList)) == parseGfaText exText
#guard parseGfaText (exText.dropEnd 1).toString == parseGfaText exText
#guard parseGfaText "S\ta\tA\rS\tb\tC\r" == parseGfaText "S\ta\tA\rS\tb\tC\r\n"
-- a line that starts with 'S' is never "another record": it is read as a segment (and needs three columns)
#guard parseGfaText "S\ta\tA\nSample\tx\n" == .error .shortS
#guard parseGfaText "S\ta\tA\nSx\tb\tC\n" == .ok ⟨[⟨"a", "A", []⟩, ⟨"b", "C", []⟩], []⟩

/-! ## load → write → load, through the text -/

/-- the written S record of a node: `*` for an empty stored sequence -/
def starSeq (s : SegLine) : SegLine := ⟨s.id, if s.seq == "" then "*" else s.seq, s.tags⟩

theorem segSafe_starSeq {s : SegLine} (h : SegSafe s) : SegSafe (starSeq s) := by
  refine ⟨h.id, ?_, h.tags, ?_⟩
  · simp only [starSeq]
    split
    · exact ⟨by decide, by decide, by decide⟩
    · exact h.seq
  · have hl := h.last
    simp only [segLastField, starSeq] at hl ⊢
    cases ht : (s.tags.map tagText).getLast? with
    | some x => rw [ht] at hl; exact hl
    | none =>
      rw [ht] at hl
      simp only [Option.getD_none] at hl ⊢
      have hne : s.seq.toList ≠ [] := endOk_ne_nil hl
      have : (s.seq == "") = false := by
        cases hb : s.seq == "" with
        | false => rfl
        | true => rw [beq_iff_eq.1 hb] at hne; exact absurd rfl hne
      rw [this]
      exact hl

/-- the written file of a loaded text-safe file, when no S line repeats a tag name: the S tokens with `*` for an empty sequence -/
theorem written_segs (t : GfaFile) (hids : (t.segs.map (·.id)).Nodup) (hd : ∀ s ∈ t.segs, (s.tags.map (·.name)).Nodup) :
    (writeGfa (readGraph t) (t.segs.map (·.id))).segs = t.segs.map starSeq := by
  have hidsg : ids (readGraph t) = t.segs.map (·.id) := ids_readGraph t false hids
  rw [Gaftools.C07.write_segs, ← hidsg, filterMap_find_ids _ (hidsg.symm ▸ hids)]
  have hcore := core_readGraph t false hids
  have : (readGraph t).nodes.map segLineOf = ((readGraph t).nodes.map core).map (fun c => ⟨c.1, if c.2.1 == "" then "*" else c.2.1, c.2.2⟩) := by
    rw [List.map_map]; rfl
  rw [this, hcore, List.map_map]
  apply List.map_congr_left
  intro s hs
  have htags : s.tags.foldl tagSet [] = s.tags := by
    have := foldl_tagSet_of_nodup s.tags [] (by simpa [names] using hd s hs)
    simpa using this
  simp [starSeq, htags]

/-- **load → write → load through the text**: for a text-safe well-formed token file without repeated tag names on an S line and
    with consistent ranks, the text `write_gfa` writes for the loaded graph is read back *exactly* as the written tokens, and
    loading them gives an equal graph (`C07.read_write_read`): same nodes in the same order with the same sequences (`*` for an
    empty one) and tags, the same adjacency sets, the same edge tags -/
theorem read_write_read_text (t : GfaFile) (hw : Gaftools.C07.WFGfa t) (hs : TextSafe t)
    (hd : ∀ s ∈ t.segs, (s.tags.map (·.name)).Nodup) (hr : RanksOk t.segs) :
    let g := readGraph t
    let w := writeGfa g (t.segs.map (·.id))
    ∃ f', parseGfaText (renderGfaText w) = .ok f' ∧ f' = w ∧
      (let g' := readGraph f'
       g'.nodes.map (fun n => (n.id, n.seq, n.tags)) = g.nodes.map (fun n => (n.id, (segLineOf n).seq, n.tags)) ∧
       (∀ id side e, e ∈ g'.adj id side ↔ e ∈ g.adj id side) ∧
       (∀ k v, (k, v) ∈ g'.edgeTags ↔ (k, v) ∈ g.edgeTags)) := by
  intro g w
  refine ⟨w, ?_, rfl, Gaftools.C07.read_write_read t hw⟩
  have hsegs : w.segs = t.segs.map starSeq := written_segs t hw.ids hd
  have hlinks : w.links.Perm (Gaftools.C07.declared t) := Gaftools.C07.write_links t hw false
  have hwids : w.segs.map (·.id) = t.segs.map (·.id) := by
    rw [hsegs, List.map_map]; rfl
  apply parse_render_exact
  · constructor
    · intro s' hs'
      rw [hsegs] at hs'
      obtain ⟨s, hs0, rfl⟩ := List.mem_map.1 hs'
      exact segSafe_starSeq (hs.segs s hs0)
    · intro l hl
      have := (hlinks.mem_iff).1 hl
      exact hs.links l (List.mem_filter.1 this).1
  · rw [hwids]; exact hw.ids
  · obtain ⟨rank, hrank⟩ := hr
    refine ⟨rank, ?_⟩
    intro s' hs'
    rw [hsegs] at hs'
    obtain ⟨s, hs0, rfl⟩ := List.mem_map.1 hs'
    exact hrank s hs0
  · intro l hl
    have hm := (hlinks.mem_iff).1 hl
    rw [Gaftools.C07.declared_eq_decl, mem_decl] at hm
    rw [any_id_iff, any_id_iff, hwids]
    exact hm.2

/-! non-vacuity: the example file of C07 (links in all orientation combinations, a self-link, a link declared from the far end, a
    dangling link) is text-safe; the written text is read back exactly -/
#guard parseGfaText (renderGfaText (writeGfa (readGraph Gaftools.C07.exFile) ["a", "b", "c"])) ==
  .ok (writeGfa (readGraph Gaftools.C07.exFile) ["a", "b", "c"])
#guard renderGfaText (writeGfa (readGraph Gaftools.C07.exFile) ["a", "b", "c"]) ==
  "S\ta\tAAC\tSN:Z:chr1\nS\tb\tGT\nS\tc\tTTTG\nL\ta\t-\tc\t+\t0M\nL\ta\t+\tb\t+\t0M\tx:i:1\nL\tb\t+\tb\t-\t0M\nL\tc\t-\tb\t-\t3M\n"
-- what the hypothesis "no repeated tag name" excludes: the tag dict moves a Z value ending with a blank to the end of the line
#guard (parseGfaText (renderGfaText (writeGfa (readGraph ⟨[⟨"a", "A", [⟨"cd", "i", "1"⟩, ⟨"ab", "Z", "x "⟩, ⟨"cd", "i", "2"⟩]⟩], []⟩) ["a"]))) ==
  .ok ⟨[⟨"a", "A", [⟨"cd", "i", "2"⟩, ⟨"ab", "Z", "x"⟩]⟩], []⟩

/-! ## which error wins

Texts made of complete lines (`unlines`).  An S-line error is raised while the file is read, an L-line error afterwards: the first
offending S line wins over everything; without an offending S line, the first offending L line (in file order) wins — and whether
an L line offends depends on *all* S lines of the file, also those after it (a link whose endpoint is unknown is skipped before
its orientations are looked at). -/

theorem text_of_full_error {s : String} {lm : Bool} {e : PyErr} (h : parseGfaFull s lm = .error e) : parseGfaText s lm = .error e := by
  unfold parseGfaText; rw [h]

/-- **the first offending S line wins**: `A` are the lines before `x`, `B` the lines after; if the S lines of `A` load (whatever
    its L lines are), and the S line `x` raises `e` in every state with those nodes and contigs, the file raises `e` -/
theorem first_S_error_wins (A B : List (List Char)) (x : List Char) (lm : Bool) (e : PyErr)
    (hA : ∀ l ∈ A, NoBreak l) (hx : NoBreak x) (hB : ∀ l ∈ B, NoBreak l)
    (p : Parsed) (hload : parseGfaFull (String.ofList (unlines (A.filter (startsWith 'S')))) lm = .ok p)
    (hS : startsWith 'S' x = true)
    (hraise : ∀ st : SState, st.segs = p.segs → st.contigs = p.contigs → sLine lm st (fieldsOf x) = .error e) :
    parseGfaText (String.ofList (unlines (A ++ x :: B))) lm = .error e := by
  apply text_of_full_error
  rw [parseFull_unlines _ lm (by
    intro l hl
    rcases List.mem_append.1 hl with hl | hl
    · exact hA l hl
    · rcases List.mem_cons.1 hl with rfl | hl
      · exact hx
      · exact hB l hl)]
  rw [parseFull_unlines _ lm (fun l hl => hA l (List.mem_filter.1 hl).1), sRecs_filter_S, lRecs_filter_S] at hload
  obtain ⟨st, hst, _, hsegs, hcont, _⟩ := runRecs_ok hload
  have hrecs : sRecs (A ++ x :: B) = sRecs A ++ fieldsOf x :: sRecs B := by
    simp [sRecs, List.filter_cons, hS]
  unfold runRecs
  rw [hrecs, sFold_append, hst]
  simp only [sFold, hraise st hsegs hcont]

/-- **the first offending L line wins** when no S line offends: `A` are the L lines before `x` (in file order), `B` those after;
    if all S lines of the file together with `A` load, and `x` raises `e` for those nodes, the file raises `e` — wherever the
    lines stand in the file -/
theorem first_L_error_wins (ls A B : List (List Char)) (x : List Char) (lm : Bool) (e : PyErr)
    (hls : ∀ l ∈ ls, NoBreak l) (hL : ls.filter (startsWith 'L') = A ++ x :: B)
    (p : Parsed) (hload : parseGfaFull (String.ofList (unlines (ls.filter (startsWith 'S') ++ A))) lm = .ok p)
    (hraise : ∀ has : String → Bool, (∀ id, has id = p.segs.any (·.id == id)) → lLine has (fieldsOf x) = .error e) :
    parseGfaText (String.ofList (unlines ls)) lm = .error e := by
  apply text_of_full_error
  have hAL : ∀ l ∈ A, startsWith 'L' l = true ∧ l ∈ ls := by
    intro l hl
    have : l ∈ ls.filter (startsWith 'L') := by rw [hL]; exact List.mem_append_left _ hl
    exact ⟨(List.mem_filter.1 this).2, (List.mem_filter.1 this).1⟩
  rw [parseFull_unlines _ lm (by
    intro l hl
    rcases List.mem_append.1 hl with hl | hl
    · exact hls l (List.mem_filter.1 hl).1
    · exact hls l (hAL l hl).2)] at hload
  have h1 : sRecs (ls.filter (startsWith 'S') ++ A) = sRecs ls := by
    have := recs_append (ls.filter (startsWith 'S')) A
    simp only [recs, Prod.mk.injEq] at this
    rw [this.1, sRecs_filter_S, sRecs_of_L A (fun l hl => (hAL l hl).1), List.append_nil]
  have h2 : lRecs (ls.filter (startsWith 'S') ++ A) = A.map fieldsOf := by
    have := recs_append (ls.filter (startsWith 'S')) A
    simp only [recs, Prod.mk.injEq] at this
    rw [this.2, lRecs_filter_S, lRecs_of_L A (fun l hl => (hAL l hl).1), List.nil_append]
  rw [h1, h2] at hload
  obtain ⟨st, hst, hlinks, hsegs, _, _⟩ := runRecs_ok hload
  rw [parseFull_unlines ls lm hls, lRecs_eq, hL]
  unfold runRecs
  rw [hst]
  simp only [List.map_append, List.map_cons]
  rw [lFold_append, hlinks]
  simp only [lFold, hraise st.has (has_of_segs hsegs)]

/-- an S line — any line that starts with 'S', "Sample\tfoo" as well — with fewer than three columns after `strip()`: AssertionError,
    before any tag, rank or L-line error -/
theorem parse_short_S (A B : List (List Char)) (x : List Char) (lm : Bool)
    (hA : ∀ l ∈ A, NoBreak l) (hx : NoBreak x) (hB : ∀ l ∈ B, NoBreak l)
    (p : Parsed) (hload : parseGfaFull (String.ofList (unlines (A.filter (startsWith 'S')))) lm = .ok p)
    (hS : startsWith 'S' x = true) (hcols : (fieldsOf x).length < 3) :
    parseGfaText (String.ofList (unlines (A ++ x :: B))) lm = .error .shortS ∧ PyErr.shortS.cls = .assertionError :=
  ⟨first_S_error_wins A B x lm _ hA hx hB p hload hS (fun st _ _ => sLine_short lm st _ hcols), rfl⟩

/-- an S line with a new id and a tag that `is_correct_tag` rejects: ValueError -/
theorem parse_bad_tag (A B : List (List Char)) (x : List Char) (lm : Bool)
    (hA : ∀ l ∈ A, NoBreak l) (hx : NoBreak x) (hB : ∀ l ∈ B, NoBreak l)
    (p : Parsed) (hload : parseGfaFull (String.ofList (unlines (A.filter (startsWith 'S')))) lm = .ok p)
    (hS : startsWith 'S' x = true) (c0 id seq : List Char) (tags : List (List Char)) (hf : fieldsOf x = c0 :: id :: seq :: tags)
    (hnew : p.segs.any (·.id == String.ofList id) = false)
    (t : List Char) (ht : t ∈ tags) (hbad : isCorrectTag t = false) :
    parseGfaText (String.ofList (unlines (A ++ x :: B))) lm = .error .badTag ∧ PyErr.badTag.cls = .valueError := by
  refine ⟨first_S_error_wins A B x lm _ hA hx hB p hload hS ?_, rfl⟩
  intro st hsegs _
  rw [hf]
  simp only [sLine, has_of_segs hsegs, hnew, Bool.false_eq_true, if_false, parseTags_none tags t ht hbad]

/-- an S line with a new id and valid tags, carrying `SN` and `SR` (in its tag dict: the last value of a repeated name), whose `SR`
    value `int()` does not read (e.g. `SR:f:1.5`, `SR:Z:abc`): ValueError -/
theorem parse_bad_rank (A B : List (List Char)) (x : List Char) (lm : Bool)
    (hA : ∀ l ∈ A, NoBreak l) (hx : NoBreak x) (hB : ∀ l ∈ B, NoBreak l)
    (p : Parsed) (hload : parseGfaFull (String.ofList (unlines (A.filter (startsWith 'S')))) lm = .ok p)
    (hS : startsWith 'S' x = true) (c0 id seq : List Char) (tags : List (List Char)) (hf : fieldsOf x = c0 :: id :: seq :: tags)
    (hnew : p.segs.any (·.id == String.ofList id) = false)
    (tg : List Tag) (htg : parseTags tags = some tg) (sn sr : Tag)
    (hsn : dictGet (dictOf tg) "SN" = some sn) (hsr : dictGet (dictOf tg) "SR" = some sr) (hint : pyInt sr.val.toList = none) :
    parseGfaText (String.ofList (unlines (A ++ x :: B))) lm = .error .badRank ∧ PyErr.badRank.cls = .valueError := by
  refine ⟨first_S_error_wins A B x lm _ hA hx hB p hload hS ?_, rfl⟩
  intro st hsegs _
  rw [hf]
  simp only [sLine, sTok, sNew, contigStep, has_of_segs hsegs, hnew, Bool.false_eq_true, if_false, htg, hsn, hsr, hint]

/-- … whose `SR` value is read as a rank other than the one recorded for that `SN` value by an earlier line (one SN with two
    ranks): AssertionError -/
theorem parse_rank_clash (A B : List (List Char)) (x : List Char) (lm : Bool)
    (hA : ∀ l ∈ A, NoBreak l) (hx : NoBreak x) (hB : ∀ l ∈ B, NoBreak l)
    (p : Parsed) (hload : parseGfaFull (String.ofList (unlines (A.filter (startsWith 'S')))) lm = .ok p)
    (hS : startsWith 'S' x = true) (c0 id seq : List Char) (tags : List (List Char)) (hf : fieldsOf x = c0 :: id :: seq :: tags)
    (hnew : p.segs.any (·.id == String.ofList id) = false)
    (tg : List Tag) (htg : parseTags tags = some tg) (sn sr : Tag)
    (hsn : dictGet (dictOf tg) "SN" = some sn) (hsr : dictGet (dictOf tg) "SR" = some sr)
    (r r0 : Int) (hint : pyInt sr.val.toList = some r) (hold : rankGet p.contigs sn.val = some r0) (hne : r0 ≠ r) :
    parseGfaText (String.ofList (unlines (A ++ x :: B))) lm = .error .rankClash ∧ PyErr.rankClash.cls = .assertionError := by
  refine ⟨first_S_error_wins A B x lm _ hA hx hB p hload hS ?_, rfl⟩
  intro st hsegs hcont
  rw [hf]
  simp only [sLine, sTok, sNew, contigStep, has_of_segs hsegs, hnew, Bool.false_eq_true, if_false, htg, hsn, hsr, hint, hcont, hold,
    hne]

/-- an S line whose id is already known raises nothing, whatever stands after the id (the sequence and the tags are not looked
    at): two such lines with the same id are interchangeable -/
theorem parse_repeated_id (A B : List (List Char)) (x x' : List Char) (lm : Bool)
    (hA : ∀ l ∈ A, NoBreak l) (hx : NoBreak x) (hx' : NoBreak x') (hB : ∀ l ∈ B, NoBreak l)
    (p : Parsed) (hload : parseGfaFull (String.ofList (unlines (A.filter (startsWith 'S')))) lm = .ok p)
    (hS : startsWith 'S' x = true) (hS' : startsWith 'S' x' = true)
    (c0 c0' id seq seq' : List Char) (tags tags' : List (List Char))
    (hf : fieldsOf x = c0 :: id :: seq :: tags) (hf' : fieldsOf x' = c0' :: id :: seq' :: tags')
    (hold : p.segs.any (·.id == String.ofList id) = true) :
    parseGfaText (String.ofList (unlines (A ++ x :: B))) lm = parseGfaText (String.ofList (unlines (A ++ x' :: B))) lm := by
  have hnb : ∀ y, NoBreak y → ∀ l ∈ A ++ y :: B, NoBreak l := by
    intro y hy l hl
    rcases List.mem_append.1 hl with hl | hl
    · exact hA l hl
    · rcases List.mem_cons.1 hl with rfl | hl
      · exact hy
      · exact hB l hl
  unfold parseGfaText
  rw [parseFull_unlines _ lm (hnb x hx), parseFull_unlines _ lm (hnb x' hx')]
  rw [parseFull_unlines _ lm (fun l hl => hA l (List.mem_filter.1 hl).1), sRecs_filter_S, lRecs_filter_S] at hload
  obtain ⟨st, hst, _, hsegs, _, _⟩ := runRecs_ok hload
  have hr : ∀ y, startsWith 'S' y = true → sRecs (A ++ y :: B) = sRecs A ++ fieldsOf y :: sRecs B ∧ lRecs (A ++ y :: B) = lRecs A ++ lRecs B := by
    intro y hy
    constructor
    · simp [sRecs, List.filter_cons, hy]
    · simp [lRecs, List.filter_cons, isLLine, hy]
  rw [(hr x hS).1, (hr x hS).2, (hr x' hS').1, (hr x' hS').2]
  unfold runRecs
  rw [sFold_append, sFold_append, hst]
  simp only [sFold, hf, hf', sLine, has_of_segs hsegs, hold, if_true]

/-- an L line with fewer than six columns after `strip()`: AssertionError (when no S line and no earlier L line offends) -/
theorem parse_short_L (ls A B : List (List Char)) (x : List Char) (lm : Bool)
    (hls : ∀ l ∈ ls, NoBreak l) (hL : ls.filter (startsWith 'L') = A ++ x :: B)
    (p : Parsed) (hload : parseGfaFull (String.ofList (unlines (ls.filter (startsWith 'S') ++ A))) lm = .ok p)
    (hcols : (fieldsOf x).length < 6) :
    parseGfaText (String.ofList (unlines ls)) lm = .error .shortL ∧ PyErr.shortL.cls = .assertionError :=
  ⟨first_L_error_wins ls A B x lm _ hls hL p hload (fun has _ => lLine_short has _ hcols), rfl⟩

/-- an L line whose sixth column without its last character is no `int`: ValueError — also when an endpoint is unknown (the
    overlap is read before the endpoints are looked up) -/
theorem parse_bad_overlap (ls A B : List (List Char)) (x : List Char) (lm : Bool)
    (hls : ∀ l ∈ ls, NoBreak l) (hL : ls.filter (startsWith 'L') = A ++ x :: B)
    (p : Parsed) (hload : parseGfaFull (String.ofList (unlines (ls.filter (startsWith 'S') ++ A))) lm = .ok p)
    (c0 a da b db ov : List Char) (tags : List (List Char)) (hf : fieldsOf x = c0 :: a :: da :: b :: db :: ov :: tags)
    (hov : pyInt ov.dropLast = none) :
    parseGfaText (String.ofList (unlines ls)) lm = .error .badOverlap ∧ PyErr.badOverlap.cls = .valueError := by
  refine ⟨first_L_error_wins ls A B x lm _ hls hL p hload ?_, rfl⟩
  intro has _
  rw [hf]
  simp only [lLine, hov]

/-- an L line between two known segments with an orientation column other than "+" / "-": AssertionError (in `add_edge`) -/
theorem parse_bad_orient (ls A B : List (List Char)) (x : List Char) (lm : Bool)
    (hls : ∀ l ∈ ls, NoBreak l) (hL : ls.filter (startsWith 'L') = A ++ x :: B)
    (p : Parsed) (hload : parseGfaFull (String.ofList (unlines (ls.filter (startsWith 'S') ++ A))) lm = .ok p)
    (c0 a da b db ov : List Char) (tags : List (List Char)) (hf : fieldsOf x = c0 :: a :: da :: b :: db :: ov :: tags)
    (n : Int) (hov : pyInt ov.dropLast = some n)
    (ha : p.segs.any (·.id == String.ofList a) = true) (hb : p.segs.any (·.id == String.ofList b) = true)
    (hbad : (isOrient da && isOrient db) = false) :
    parseGfaText (String.ofList (unlines ls)) lm = .error .badOrient ∧ PyErr.badOrient.cls = .assertionError := by
  refine ⟨first_L_error_wins ls A B x lm _ hls hL p hload ?_, rfl⟩
  intro has hhas
  rw [hf]
  simp only [lLine, hov, hhas, ha, hb, hbad, Bool.and_self, Bool.not_true, Bool.not_false, Bool.false_eq_true, if_false, if_true]

/-- an L line with a well-formed overlap and an endpoint that is no segment of the file is skipped silently — whatever its
    orientation columns and tags are: the file loads like the file without that line -/
theorem parse_dangling_link (ls ls' A B : List (List Char)) (x : List Char) (lm : Bool)
    (hls : ∀ l ∈ ls, NoBreak l) (hls' : ∀ l ∈ ls', NoBreak l)
    (hS : ls.filter (startsWith 'S') = ls'.filter (startsWith 'S'))
    (hL : ls.filter (startsWith 'L') = A ++ x :: B) (hL' : ls'.filter (startsWith 'L') = A ++ B)
    (p : Parsed) (hload : parseGfaFull (String.ofList (unlines (ls.filter (startsWith 'S')))) lm = .ok p)
    (c0 a da b db ov : List Char) (tags : List (List Char)) (hf : fieldsOf x = c0 :: a :: da :: b :: db :: ov :: tags)
    (n : Int) (hov : pyInt ov.dropLast = some n)
    (hmiss : (p.segs.any (·.id == String.ofList a) && p.segs.any (·.id == String.ofList b)) = false) :
    parseGfaText (String.ofList (unlines ls)) lm = parseGfaText (String.ofList (unlines ls')) lm := by
  unfold parseGfaText
  rw [parseFull_unlines ls lm hls, parseFull_unlines ls' lm hls', lRecs_eq, lRecs_eq, hL, hL']
  rw [parseFull_unlines _ lm (fun l hl => hls l (List.mem_filter.1 hl).1), sRecs_filter_S, lRecs_filter_S] at hload
  obtain ⟨st, hst, _, hsegs, _, _⟩ := runRecs_ok hload
  have hS' : sRecs ls = sRecs ls' := by simp only [sRecs, hS]
  rw [← hS']
  unfold runRecs
  rw [hst]
  simp only [List.map_append, List.map_cons]
  rw [lFold_append, lFold_append]
  cases lFold st.has (A.map fieldsOf) [] with
  | error e => rfl
  | ok acc =>
    have : lLine st.has (fieldsOf x) = .ok none := by
      rw [hf]
      simp only [lLine, hov, has_of_segs hsegs, hmiss, Bool.not_false, if_true]
    simp only [lFold, this]

/-! non-vacuity of the error theorems: each file below meets the hypotheses of the theorem named, and the model raises as stated;
    the last lines show the order between errors -/
#guard parseGfaText "S\ta\tA\nS\tb\n" == .error .shortS                                      -- parse_short_S
#guard parseGfaText "L\ta\t+\ta\nS\ta\tA\nSample\tb\nS\tc\tA\tbad\n" == .error .shortS       -- … before the L error and the later tag error
#guard parseGfaText "S\ta\tA\nS\tb\tC\txx:i:1.5\n" == .error .badTag                         -- parse_bad_tag
#guard parseGfaText "S\ta\tA\nS\tb\tC\tSR:f:1.5\tSN:Z:c\n" == .error .badRank                 -- parse_bad_rank
#guard parseGfaText "S\ta\tA\tSN:Z:c\tSR:i:7\nS\tb\tC\tSR:Z: 07 \tSN:Z:c\txx:i:1\n" == .ok ⟨[⟨"a", "A", [⟨"SN", "Z", "c"⟩, ⟨"SR", "i", "7"⟩]⟩, ⟨"b", "C", [⟨"SR", "Z", " 07 "⟩, ⟨"SN", "Z", "c"⟩, ⟨"xx", "i", "1"⟩]⟩], []⟩
#guard parseGfaText "S\ta\tA\tSN:Z:c\tSR:i:7\nS\tb\tC\tSR:i:8\tSN:Z:c\n" == .error .rankClash   -- parse_rank_clash
#guard parseGfaText "S\ta\tA\nS\ta\tC\txx:i:1.5\n" == .ok ⟨[⟨"a", "A", []⟩], []⟩             -- parse_repeated_id: not raised for a known id
#guard parseGfaText "S\ta\tA\nL\ta\t+\ta\t+\n" == .error .shortL                             -- parse_short_L
#guard parseGfaText "S\ta\tA\nL\ta\t+\tzz\t+\t5\n" == .error .badOverlap                     -- parse_bad_overlap ("5"[:-1] is "")
#guard parseGfaText "L\ta\t+\tb\tx\t0M\nS\ta\tA\nS\tb\tC\n" == .error .badOrient             -- parse_bad_orient: the segments come later
#guard parseGfaText "L\ta\t+\tb\tx\t0M\nS\ta\tA\n" == .ok ⟨[⟨"a", "A", []⟩], []⟩             -- parse_dangling_link: skipped before the orientation test
#guard parseGfaText "S\ta\tA\nL\ta\tx\ta\t+\t0M\nL\ta\t+\ta\t+\tM\n" == .error .badOrient    -- the first offending L line wins
#guard parseGfaText "S\ta\tA\nL\ta\t+\ta\t+\tM\nL\ta\tx\ta\t+\t0M\n" == .error .badOverlap

end Gaftools.C07.Text
