import Gaftools.Props.C06f
import Gaftools.Props.C15Hist
/-!
# C06 — the model of `run_order_gfa` end to end (tags)

`orderRun` is the whole command up to the BO/NO tags: read the token file, split the graph into components, name them by
majority SN, run the chromosome loop.  `orderRun_chain`: every chromosome it writes with at least two scaffold nodes carries
tags that satisfy the definition-level chain specification, with the first BO of its range as `lo` (the ranges themselves are
`C18.runOrder_ranges`).
-/
namespace Gaftools.C06
open Gaftools.Gfa Gaftools.Algo Gaftools.Order Gaftools.Spec.Order Gaftools.Spec.Graph

/-- shifting every BO by `lo` turns a chain numbered from 0 into one numbered from `lo` -/
theorem chainSpecB_shift (nb : V → List V) (comp : List V) (so : V → Option Int) (tag : V → Option (Int × Int)) (lo : Int)
    (h : chainSpecB nb comp so tag 0 = true) :
    chainSpecB nb comp so (fun v => (tag v).map (fun x => (lo + x.1, x.2))) lo = true := by
  sorry

/-- `decompose` only looks at the neighbour lists of the component's own nodes -/
theorem decompose_congr (nb nb' : V → List V) (comp : List V) (so : V → Option Int) (sn : V → Option String)
    (hne : comp ≠ []) (hclosed : ∀ a ∈ comp, ∀ b ∈ nb a, b ∈ comp) (hagree : ∀ a ∈ comp, nb' a = nb a) :
    decompose nb' comp so sn = decompose nb comp so sn := by
  sorry

/-- MAIN: the tags of every written chromosome with at least two scaffold nodes meet the chain specification -/
theorem orderRun_chain (t : GfaFile) (order : List String) (lm : Bool) (ws : List Written) (next : Int)
    (hids : (t.segs.map (·.id)).Nodup) (htab : ∀ s ∈ t.segs, '\t' ∉ s.id.toList)
    (h : orderRun t order lm = .ok (ws, next)) :
    ∀ w ∈ ws, 2 ≤ w.aps.length →
      ∃ lo : Int, 0 ≤ lo ∧
        chainSpecB (Graph.nbFun (readGraph t lm)) (compOfName t lm w.name) (soOf t)
          (fun v => (w.tags.find? (·.1 == v)).map (·.2)) lo = true := by
  sorry

end Gaftools.C06
