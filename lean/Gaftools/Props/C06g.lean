import Gaftools.Props.C06f
import Gaftools.Props.C15Hist
import Gaftools.Proofs.OrderRunLemmas
/-!
# C06 — the model of `run_order_gfa` end to end (tags)

`orderRun` is the whole command up to the BO/NO tags: read the token file, split the graph into components, name them by
majority SN, run the chromosome loop.  `orderRun_chain`: every chromosome it writes with at least two scaffold nodes carries
tags that satisfy the definition-level chain specification, with the first BO of its range as `lo` (the ranges themselves are
`C18.runOrder_ranges`).
-/
namespace Gaftools.C06
open Gaftools.Gfa Gaftools.Algo Gaftools.Order Gaftools.Spec.Order Gaftools.Spec.Graph
open Gaftools.Proofs.OrderRun

/-- shifting every BO by `lo` turns a chain numbered from 0 into one numbered from `lo` -/
theorem chainSpecB_shift (nb : V → List V) (comp : List V) (so : V → Option Int) (tag : V → Option (Int × Int)) (lo : Int)
    (h : chainSpecB nb comp so tag 0 = true) :
    chainSpecB nb comp so (fun v => (tag v).map (fun x => (lo + x.1, x.2))) lo = true := by
  have := chainSpecB_shift' nb comp so tag lo
  unfold shiftTag at this
  rw [this]
  exact h

/-- `decompose` only looks at the neighbour lists of the component's own nodes -/
theorem decompose_congr (nb nb' : V → List V) (comp : List V) (so : V → Option Int) (sn : V → Option String)
    (hne : comp ≠ []) (hclosed : ∀ a ∈ comp, ∀ b ∈ nb a, b ∈ comp) (hagree : ∀ a ∈ comp, nb' a = nb a) :
    decompose nb' comp so sn = decompose nb comp so sn :=
  decompose_congr' nb nb' comp so sn hne hclosed hagree

/-- MAIN: the tags of every written chromosome with at least two scaffold nodes meet the chain specification -/
theorem orderRun_chain (t : GfaFile) (order : List String) (lm : Bool) (ws : List Written) (next : Int)
    (hids : (t.segs.map (·.id)).Nodup) (htab : ∀ s ∈ t.segs, '\t' ∉ s.id.toList)
    (h : orderRun t order lm = .ok (ws, next)) :
    ∀ w ∈ ws, 2 ≤ w.aps.length →
      ∃ lo : Int, 0 ≤ lo ∧
        chainSpecB (Graph.nbFun (readGraph t lm)) (compOfName t lm w.name) (soOf t)
          (fun v => (w.tags.find? (·.1 == v)).map (·.2)) lo = true := by
  intro w hw h2
  -- what the loop wrote
  have hgo : Gaftools.C18.go (fun c => decompose (Graph.nbFun (readGraph t lm)) (compOfName t lm c) (soOf t) (snOf t))
      ([], 0) order = .ok (ws, next) := h
  have hws := Gaftools.C18.go_written _ order _ _ hgo
  simp only [List.nil_append] at hws
  rw [hws] at hw
  obtain ⟨l, lo, hlo, hdec, htags, haps⟩ := outList_mem _ order 0 (Int.le_refl 0) w hw
  refine ⟨lo, hlo, ?_⟩
  have htagfun : (fun v => (w.tags.find? (·.1 == v)).map (·.2)) =
      shiftTag lo (fun v => (l.order.find? (·.1 == v)).map (fun x => ((x.2.1 : Int), (x.2.2 : Int)))) := by
    funext v
    rw [htags]
    exact tags_shift l.order lo v
  rw [htagfun, chainSpecB_shift']
  -- the component
  rcases compOfName_cases t lm w.name with hnil | hmem
  · rw [hnil]
    exact chainSpecB_nil _ _ _ _
  · have hU := Gaftools.C15.readGraph_undirected t hids lm
    have hidsEq : Graph.ids (readGraph t lm) = t.segs.map (·.id) := Gaftools.Proofs.Write.ids_readGraph t lm hids
    have hnd : (Graph.ids (readGraph t lm)).Nodup := by rw [hidsEq]; exact hids
    have hpart := Gaftools.C15.components_partition _ _ hU hnd
    obtain ⟨hne, hcnd, hsub, hcls⟩ := hpart.1 _ hmem
    generalize compOfName t lm w.name = comp at hdec hne hcnd hsub hcls ⊢
    have hclosed := class_closed (Graph.nbFun (readGraph t lm)) comp hcls
    have hagree := restrict_agree (Graph.nbFun (readGraph t lm)) comp
    have hu' := restrict_undirected _ _ comp hU hclosed
    have hconn := restrict_connected _ _ comp hU hcls
    have htab' : ∀ v ∈ comp, '\t' ∉ v.toList := by
      intro v hv
      have := hsub v hv
      rw [hidsEq, List.mem_map] at this
      obtain ⟨s, hs, rfl⟩ := this
      exact htab s hs
    have hdec' : decompose (restrict (Graph.nbFun (readGraph t lm)) comp) comp (soOf t) (snOf t) = .ok l := by
      rw [decompose_congr _ _ comp _ _ hne hclosed hagree]
      exact hdec
    have := chainCorrect _ comp (soOf t) (snOf t) l hu' hcnd hconn htab' hdec' (by rw [← haps]; exact h2)
    rw [chainSpecB_congr _ _ comp hclosed hagree] at this
    exact this

end Gaftools.C06
